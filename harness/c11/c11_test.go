// Package c11 checks property C11: the regular Merkle tree (pkg/trie/rmt) agrees with a naive LIP-0031 model on roots,
// append paths, reload, inclusion proofs, updates, right witnesses and the append-path based prediction of an append.
package c11

import (
	"bytes"
	"crypto/sha256"
	"encoding/binary"
	"encoding/hex"
	"encoding/json"
	"fmt"
	"math/bits"
	"os"
	"runtime/debug"
	"sort"
	"strconv"
	"strings"
	"testing"

	"github.com/LiskHQ/lisk-engine/pkg/db"
	"github.com/LiskHQ/lisk-engine/pkg/trie/rmt"
	"pgregory.net/rapid"

	"verifharness/evid"
	m "verifharness/model/rmt"
)

func TestMain(mm *testing.M) { evid.Main(mm, "C11") }

// ---------------------------------------------------------------------------------------------------------------------
// known-finding signatures (see /verif/known_findings/C11.json)

const (
	sigF1 = "CalculateRootFromAppendPath:appendPath=fold(whole path)+top:size has a 0 bit below its top bit"
	sigF2 = "CalculateRootFromAppendPath:panic slice bounds out of range in intToBinary:size=0 or size>=256 with a non-zero byte below its top byte"
	sigF3 = "VerifyRightWitness:panic index out of range [0] with length 0:empty tree,index 0"
	sigF4 = "NewRegularMerkleTreeWithPastData:tree information does not exist:size=1 (first Append does not save info)"
)

// ---------------------------------------------------------------------------------------------------------------------
// storage back ends

// mapDB is a plain map implementation of rmt.Database with copy semantics.
type mapDB struct{ kv map[string][]byte }

func newMapDB() *mapDB { return &mapDB{kv: map[string][]byte{}} }
func (d *mapDB) Get(k []byte) ([]byte, bool) {
	v, ok := d.kv[string(k)]
	if !ok {
		return nil, false
	}
	return append([]byte{}, v...), true
}
func (d *mapDB) Set(k, v []byte) { d.kv[string(k)] = append([]byte{}, v...) }
func (d *mapDB) Del(k []byte)    { delete(d.kv, string(k)) }
func (d *mapDB) clone() *mapDB {
	c := &mapDB{kv: make(map[string][]byte, len(d.kv))}
	for k, v := range d.kv {
		c.kv[k] = v // values are never mutated in place (Get/Set copy)
	}
	return c
}

func openDB(f fataler, kind string) (rmt.Database, func()) {
	if kind == "pebble" {
		p, err := db.NewInMemoryDB()
		if err != nil {
			f.Fatalf("NewInMemoryDB: %v", err)
		}
		return p, func() { p.Close() }
	}
	return newMapDB(), func() {}
}

// ---------------------------------------------------------------------------------------------------------------------
// helpers

type fataler interface {
	Fatalf(format string, args ...any)
}

// try runs fn and returns the recovered panic value (nil if none) with a stack. Only engine calls go inside fn.
func try(fn func()) (p any, stack string) {
	defer func() {
		if r := recover(); r != nil {
			p, stack = r, string(debug.Stack())
		}
	}()
	fn()
	return nil, ""
}

// must runs an engine call that is not allowed to panic.
func must(f fataler, what string, ctx func() string, fn func()) {
	if p, st := try(fn); p != nil {
		f.Fatalf("PANIC in %s: %v\n%s\n%s", what, p, ctx(), st)
	}
}

func hx(b []byte) string { return hex.EncodeToString(b) }
func hxs(bs [][]byte) []string {
	out := make([]string, len(bs))
	for i, b := range bs {
		out[i] = hx(b)
	}
	return out
}
func unhxs(ss []string) [][]byte {
	out := make([][]byte, len(ss))
	for i, s := range ss {
		b, err := hex.DecodeString(s)
		if err != nil {
			panic(err)
		}
		out[i] = b
	}
	return out
}

func copyList(l [][]byte) [][]byte {
	out := make([][]byte, len(l))
	for i := range l {
		out[i] = append([]byte{}, l[i]...)
	}
	return out
}

func isPow2(n int) bool { return n > 0 && n&(n-1) == 0 }

// rootNontrivial: the rule of DESIGN §4 C11 for length cases.
func rootNontrivial(n int) bool { return n >= 3 && !isPow2(n) }

// subsetNontrivial: >= 2 leaves, not all below the same child of the root, in a tree that is not perfect.
func subsetNontrivial(n int, pos []int) bool {
	return rootNontrivial(n) && len(pos) >= 2 && !m.SameSide(n, pos)
}

func sizeClass(n int) string {
	switch {
	case n == 0:
		return "n=0"
	case n == 1:
		return "n=1"
	case isPow2(n):
		return "n=2^k"
	case isPow2(n + 1):
		return "n=2^k-1"
	case isPow2(n - 1):
		return "n=2^k+1"
	}
	return "n=other"
}

func magnitude(n int) string {
	switch {
	case n <= 8:
		return "size<=8"
	case n <= 64:
		return "size<=64"
	case n <= 512:
		return "size<=512"
	case n <= 2100:
		return "size<=2100"
	}
	return "size>2100"
}

// detLeaf is the deterministic leaf i of the enumerating tests: all distinct, lengths 0..47, leaf 3 is the empty string.
func detLeaf(i int) []byte {
	if i == 3 {
		return []byte{}
	}
	h := sha256.Sum256([]byte("c11-leaf-" + strconv.Itoa(i)))
	l := 1 + (i*7)%47
	if i%5 == 0 {
		l = 32
	}
	out := make([]byte, 0, 48)
	out = append(out, h[:]...)
	out = append(out, h[:16]...)
	out = out[:l]
	if l < 4 { // keep short leaves distinct
		out = append(out, byte(i), byte(i>>8))
	}
	return out
}

func detLeaves(n int) [][]byte {
	out := make([][]byte, n)
	for i := range out {
		out[i] = detLeaf(i)
	}
	return out
}

// seedLeaves derives n distinct leaves from a drawn seed (used for large random trees; all randomness is the drawn seed).
func seedLeaves(seed uint64, n int, style string) [][]byte {
	out := make([][]byte, n)
	var sb [8]byte
	binary.BigEndian.PutUint64(sb[:], seed)
	for i := range out {
		var ib [8]byte
		binary.BigEndian.PutUint64(ib[:], uint64(i))
		h := sha256.Sum256(append(append([]byte("c11-seed"), sb[:]...), ib[:]...))
		switch style {
		case "id32":
			out[i] = append([]byte{}, h[:]...)
		case "short":
			out[i] = append([]byte{h[0] & 1}, ib[4:]...) // starts with 0x00/0x01 like the hash prefixes
		default: // mixed lengths 4..36; index suffix keeps them distinct
			l := int(h[31]) % 33
			out[i] = append(append([]byte{}, h[:l]...), ib[4:]...)
		}
	}
	if style == "mixed" && n > 2 {
		out[int(seed%uint64(n))] = []byte{} // one empty leaf
	}
	return out
}

// updLeaf derives replacement data for updates (different domain tag than seedLeaves, so it never equals an existing leaf).
func updLeaf(salt uint64, j int) []byte {
	var b [16]byte
	binary.BigEndian.PutUint64(b[:8], salt)
	binary.BigEndian.PutUint64(b[8:], uint64(j))
	h := sha256.Sum256(append([]byte("c11-update"), b[:]...))
	return h[:]
}

func shardInfo() (shard, shards int) {
	shard, _ = strconv.Atoi(os.Getenv("VERIF_SHARD"))
	shards, _ = strconv.Atoi(os.Getenv("VERIF_SHARDS"))
	if shards < 1 {
		shards = 1
	}
	if shard < 0 || shard >= shards {
		shard = 0
	}
	return
}

// ---------------------------------------------------------------------------------------------------------------------
// the world: a real tree + the plain list it has to represent

type world struct {
	f      fataler
	kind   string
	db     rmt.Database
	closer func()
	tr     *rmt.RegularMerkleTree
	list   [][]byte
	// updated is set once Update was applied: the engine does not refresh the append path on Update (observed, outside the
	// statement), so append-path based checks stop there.
	updated bool
	rootOf  []byte // cached model root of list (invalidated by append/update)
	// alias selects the shared-backing-array layouts tried for the calls of the current operation (aliasModesFor);
	// aliasGrow the same for the calls made while the tree grows (appendChecked, checkState).
	alias, aliasGrow int
	// scratchAppend: Append gets its value as a window of one scratch buffer that is overwritten after every call (a caller
	// re-using its buffer) instead of a fresh copy.
	scratchAppend bool
	scratch       []byte
}

func (w *world) modelRoot() []byte {
	if w.rootOf == nil {
		w.rootOf = m.Root(w.list)
	}
	return w.rootOf
}

func newWorld(f fataler, kind string) *world {
	d, c := openDB(f, kind)
	return &world{f: f, kind: kind, db: d, closer: c, tr: rmt.NewRegularMerkleTree(d)}
}

func (w *world) close() { w.closer() }

func (w *world) ctx() string {
	n := len(w.list)
	if n <= 40 {
		return fmt.Sprintf("db=%s n=%d leaves=%v", w.kind, n, hxs(w.list))
	}
	return fmt.Sprintf("db=%s n=%d leaves[0..3]=%v … (see replay file)", w.kind, n, hxs(w.list[:4]))
}

// checkState: root, size and append path of the real tree against batch computation and the model.
func (w *world) checkState() {
	n := len(w.list)
	want := m.Root(w.list)
	var batch []byte
	dataArg := copyList(w.list)
	g := newGuard(w.f, w.ctx)
	g.list("data", dataArg)
	must(w.f, "CalculateRoot", w.ctx, func() { batch = rmt.CalculateRoot(dataArg) })
	g.verify("CalculateRoot")
	if !bytes.Equal(batch, want) {
		w.f.Fatalf("CalculateRoot(list) = %x, LIP-0031 model root = %x\n%s", batch, want, w.ctx())
	}
	if n <= 512 && (n < 20 || n%5 == 2) {
		// the same data slices a second time, and laid out in one buffer
		must(w.f, "CalculateRoot (same argument again)", w.ctx, func() { batch = rmt.CalculateRoot(dataArg) })
		g.verify("CalculateRoot")
		if !bytes.Equal(batch, want) {
			w.f.Fatalf("CalculateRoot(list) on the second call with the same slices = %x, model root = %x\n%s", batch, want, w.ctx())
		}
		aliasPure(w.f, "CalculateRoot", w.ctx, aliasModesFor(w.aliasGrow), []string{"data"}, [][][]byte{w.list}, nil, hx(want),
			func(a *aliasArgs) string { return hx(rmt.CalculateRoot(a.lists[0])) })
	}
	if !bytes.Equal(w.tr.Root(), want) {
		w.f.Fatalf("Append-built Root() = %x, model root = %x\n%s", w.tr.Root(), want, w.ctx())
	}
	if w.tr.Size() != uint64(n) {
		w.f.Fatalf("Size() = %d, want %d\n%s", w.tr.Size(), n, w.ctx())
	}
	if !w.updated {
		wp := m.AppendPath(w.list)
		if !m.Equal(w.tr.AppendPath(), wp) {
			w.f.Fatalf("AppendPath() = %v, model append path = %v\n%s", hxs(w.tr.AppendPath()), hxs(wp), w.ctx())
		}
	}
}

// f1Shape: the exact wrong append path the known defect F1 produces (fold of the leaf over the WHOLE old path, followed by
// the untouched top part).
func f1Shape(oldPath [][]byte, n int, v []byte) [][]byte {
	sub := 0
	for (n>>uint(sub))&1 == 1 {
		sub++
	}
	cur := m.LeafHash(v)
	for _, s := range oldPath {
		cur = m.BranchHash(s, cur)
	}
	out := [][]byte{cur}
	if sub <= len(oldPath) {
		out = append(out, oldPath[sub:]...)
	}
	return out
}

func f1Trigger(n int) bool { return n >= 2 && !isPow2(n+1) }

// f2Trigger: sizes for which the engine's intToBinary slices out of range (known defect F2): it keeps the bytes from the LAST
// non-zero byte of the big-endian size on, which are too few bits when a higher byte is non-zero as well; and size 0.
func f2Trigger(n int) bool {
	if n == 0 {
		return true
	}
	var b [8]byte
	binary.BigEndian.PutUint64(b[:], uint64(n))
	last := 0
	for i, v := range b {
		if v != 0 {
			last = i
		}
	}
	return bits.Len64(uint64(n)) > 8*(8-last)
}

// dedupe removes repeated positions (a subset has none), keeping the order.
func dedupe(pos []int) []int {
	seen := map[int]bool{}
	out := pos[:0:0]
	for _, p := range pos {
		if !seen[p] {
			seen[p] = true
			out = append(out, p)
		}
	}
	return out
}

func renderPrediction(r *rmt.RootWithAppendPath) string {
	if r == nil {
		return "nil"
	}
	return fmt.Sprintf("root=%x size=%d path=%v", r.Root, r.Size, hxs(r.AppendPath))
}

// valueArg returns the slice handed to Append / CalculateRootFromAppendPath for the value v: a fresh copy, or (scratchAppend) a
// window of the world's scratch buffer, which has spare capacity and live neighbours and is overwritten after the call.
func (w *world) valueArg(g *guard, v []byte) []byte {
	if !w.scratchAppend {
		return g.bytes("value", append([]byte{}, v...))
	}
	if len(w.scratch) < len(v)+24 {
		w.scratch = make([]byte, len(v)+64)
	}
	for i := range w.scratch {
		w.scratch[i] = 0x5C
	}
	copy(w.scratch[8:], v)
	g.bytes("the scratch buffer holding the value (window [8:8+len])", w.scratch)
	return w.scratch[8 : 8+len(v)]
}

// appendChecked appends v through the real tree after predicting the result with CalculateRootFromAppendPath.
func (w *world) appendChecked(v []byte) {
	n := len(w.list)
	oldPath := copyList(w.tr.AppendPath())
	var pred *rmt.RootWithAppendPath
	skipPred := w.updated
	g := newGuard(w.f, w.ctx)
	vArg := w.valueArg(g, v)
	if !skipPred {
		p, st := try(func() { pred = rmt.CalculateRootFromAppendPath(vArg, w.tr.AppendPath(), uint64(n)) })
		if p != nil {
			if f2Trigger(n) && strings.Contains(fmt.Sprint(p), "slice bounds out of range") && strings.Contains(st, "rmt.intToBinary") && evid.R.KnownFinding(sigF2) {
				evid.R.Excluded(1)
				skipPred = true
			} else {
				w.f.Fatalf("PANIC in CalculateRootFromAppendPath(v=%x, path=%v, size=%d): %v\n%s\n%s", v, hxs(oldPath), n, p, w.ctx(), st)
			}
		}
		g.verify("CalculateRootFromAppendPath")
		if !m.Equal(w.tr.AppendPath(), oldPath) {
			w.f.Fatalf("CalculateRootFromAppendPath modified the tree's append path: before %v after %v\n%s", hxs(oldPath), hxs(w.tr.AppendPath()), w.ctx())
		}
		if !skipPred && (n < 40 || n%32 == 5) {
			// same arguments again; arguments sharing backing arrays
			want := renderPrediction(pred)
			pathArg := copyList(oldPath)
			g2 := newGuard(w.f, w.ctx)
			g2.list("appendPath", pathArg)
			for rep := 0; rep < 2; rep++ {
				var again *rmt.RootWithAppendPath
				must(w.f, "CalculateRootFromAppendPath (same arguments again)", w.ctx, func() { again = rmt.CalculateRootFromAppendPath(vArg, pathArg, uint64(n)) })
				g.verify("CalculateRootFromAppendPath")
				g2.verify("CalculateRootFromAppendPath")
				if got := renderPrediction(again); got != want {
					w.f.Fatalf("CalculateRootFromAppendPath(size=%d) with the same value and path slices: call %d gives %s, first call gave %s\n%s", n, rep+2, got, want, w.ctx())
				}
			}
			aliasPure(w.f, "CalculateRootFromAppendPath", w.ctx, aliasModesFor(w.aliasGrow), []string{"appendPath", "value"}, [][][]byte{oldPath, {v}}, nil, want,
				func(a *aliasArgs) string {
					return renderPrediction(rmt.CalculateRootFromAppendPath(a.lists[1][0], a.lists[0], uint64(n)))
				})
		}
	}
	// slices a caller got from Root() / AppendPath() before the call (the append path at size i is what VerifyRightWitness
	// needs later) must not be rewritten by the append
	liveRoot, livePath := w.tr.Root(), w.tr.AppendPath()
	liveRootCopy := append([]byte{}, liveRoot...)
	var err error
	must(w.f, "Append", w.ctx, func() { err = w.tr.Append(vArg) })
	g.verify("Append")
	if !bytes.Equal(liveRoot, liveRootCopy) || !m.Equal(livePath, oldPath) {
		w.f.Fatalf("Append at size %d rewrote the slices returned by Root()/AppendPath() before the call: root %x -> %x, path %v -> %v\n%s",
			n, liveRootCopy, liveRoot, hxs(oldPath), hxs(livePath), w.ctx())
	}
	if w.scratchAppend {
		scribble(w.scratch) // the caller re-uses its buffer: the tree must not depend on it any more
		evid.R.Label("reuse:append-scratch-buffer-overwritten", 1)
	}
	if err != nil {
		w.f.Fatalf("Append(%x) at size %d: %v\n%s", v, n, err, w.ctx())
	}
	w.list = append(w.list, append([]byte{}, v...))
	w.rootOf = nil
	if skipPred {
		return
	}
	if !bytes.Equal(pred.Root, w.tr.Root()) || pred.Size != w.tr.Size() {
		w.f.Fatalf("CalculateRootFromAppendPath(size=%d) predicted root=%x size=%d, real append gave root=%x size=%d\n%s",
			n, pred.Root, pred.Size, w.tr.Root(), w.tr.Size(), w.ctx())
	}
	if !m.Equal(pred.AppendPath, w.tr.AppendPath()) {
		if f1Trigger(n) && m.Equal(pred.AppendPath, f1Shape(oldPath, n, v)) && evid.R.KnownFinding(sigF1) {
			evid.R.Excluded(1)
			return
		}
		w.f.Fatalf("CalculateRootFromAppendPath(size=%d) predicted append path %v, real append gave %v (old path %v, value %x)\n%s",
			n, hxs(pred.AppendPath), hxs(w.tr.AppendPath()), hxs(oldPath), v, w.ctx())
	}
}

// reloadChecked re-opens the tree from its storage and continues with the reloaded instance.
func (w *world) reloadChecked() bool {
	n := len(w.list)
	var t2 *rmt.RegularMerkleTree
	var err error
	if n == 0 {
		// Nothing was ever stored. The engine refuses to open such a store ("tree information does not exist"); the statement is silent
		// on that. But IF a tree object is handed out, "reloading preserves the root" applies to it: root of the empty list, size 0
		// (added after seeded change C11-n: a tolerant loadInfo handed out a tree with a zero-length root).
		must(w.f, "NewRegularMerkleTreeWithPastData", w.ctx, func() { t2, err = rmt.NewRegularMerkleTreeWithPastData(w.db) })
		if err == nil {
			evid.R.Label("reload-of-empty-store-succeeded", 1)
			if !bytes.Equal(t2.Root(), w.tr.Root()) || t2.Size() != 0 {
				w.f.Fatalf("reload of a never-written tree succeeded with root %x size %d; the live empty tree has root %x size %d\n%s", t2.Root(), t2.Size(), w.tr.Root(), w.tr.Size(), w.ctx())
			}
		} else {
			evid.R.Label("reload-of-empty-store-refused", 1)
		}
		return false
	}
	must(w.f, "NewRegularMerkleTreeWithPastData", w.ctx, func() { t2, err = rmt.NewRegularMerkleTreeWithPastData(w.db) })
	if err != nil {
		if n == 1 && !w.updated && err.Error() == "tree information does not exist" && evid.R.KnownFinding(sigF4) {
			evid.R.Excluded(1)
			return false
		}
		w.f.Fatalf("reload at size %d: %v\n%s", n, err, w.ctx())
	}
	if !bytes.Equal(t2.Root(), w.tr.Root()) || t2.Size() != w.tr.Size() || !m.Equal(t2.AppendPath(), w.tr.AppendPath()) {
		w.f.Fatalf("reload at size %d: root %x/%x size %d/%d path %v/%v (reloaded/live)\n%s", n, t2.Root(), w.tr.Root(), t2.Size(), w.tr.Size(),
			hxs(t2.AppendPath()), hxs(w.tr.AppendPath()), w.ctx())
	}
	w.tr = t2
	return true
}

func flip(b []byte, bit int) []byte {
	out := append([]byte{}, b...)
	if len(out) == 0 {
		return []byte{1}
	}
	bit %= len(out) * 8
	out[bit/8] ^= 1 << uint(bit%8)
	return out
}

// checkProof: inclusion proof for the leaves at positions pos (order as given); tamper lists the query slots to corrupt.
//
// Argument discipline: ONE set of argument objects (the query hash list handed to GenerateProof, the proof object it returned,
// one root slice) is used for every call below - positive, negative, positive again, update through the proof - and compared
// with deep copies after every call; the answers must equal those obtained with fresh deep copies.
func (w *world) checkProof(pos []int, tamper []int, salt int) {
	n := len(w.list)
	root := w.modelRoot()
	q := make([][]byte, len(pos))
	for j, p := range pos {
		q[j] = m.LeafHash(w.list[p])
	}
	c := func() string { return fmt.Sprintf("proof for positions %v\n%s", pos, w.ctx()) }
	evid.R.Label("proof-"+orderKind(pos), 1)
	var proof *rmt.Proof
	var err error
	qArg := copyList(q)
	gq := newGuard(w.f, c)
	gq.list("queryHashes", qArg)
	must(w.f, "GenerateProof", c, func() { proof, err = w.tr.GenerateProof(qArg) })
	gq.verify("GenerateProof")
	if err != nil {
		w.f.Fatalf("GenerateProof: %v\n%s", err, c())
	}
	if proof.Size != uint64(n) || len(proof.Idxs) != len(pos) {
		w.f.Fatalf("GenerateProof: size %d idxs %v, want size %d and %d idxs\n%s", proof.Size, proof.Idxs, n, len(pos), c())
	}
	for j, p := range pos {
		if proof.Idxs[j] != m.LeafIndex(n, p) {
			w.f.Fatalf("GenerateProof: idxs %v, idx[%d] should be %d (LIP-0031 index of leaf %d)\n%s", proof.Idxs, j, m.LeafIndex(n, p), p, c())
		}
	}
	ref := cloneProof(proof) // what GenerateProof returned
	cp := func() *rmt.Proof { return cloneProof(ref) }
	// heavy: the part of the re-use / aliasing programme that costs several more engine calls runs for every small query in a
	// non-ascending order (half of the two-leaf ones) and for an eighth of the rest
	heavy := salt%8 == 0 || (len(pos) >= 2 && len(pos) <= 16 && orderKind(pos) != "order=ascending" && (len(pos) > 2 || salt%2 == 1))
	// the same query slices again (second use of the argument) and laid out in one buffer: same proof
	if heavy {
		wantProof := renderProof(ref, nil)
		var p2 *rmt.Proof
		must(w.f, "GenerateProof (same argument again)", c, func() { p2, err = w.tr.GenerateProof(qArg) })
		gq.verify("GenerateProof")
		if got := renderProof(p2, err); got != wantProof {
			w.f.Fatalf("GenerateProof with the same query slices a second time gives %s, first call gave %s\n%s", got, wantProof, c())
		}
		aliasPure(w.f, "GenerateProof", c, aliasModesFor(w.alias), []string{"queryHashes"}, [][][]byte{q}, nil, wantProof,
			func(a *aliasArgs) string { return renderProof(w.tr.GenerateProof(a.lists[0])) })
	}
	rootArg := append([]byte{}, root...)
	g := newGuard(w.f, c)
	g.list("queryHashes", qArg)
	g.proof("proof", proof)
	g.bytes("rootHash", rootArg)
	var ok bool
	// the returned proof object itself (first use = the arguments are as fresh as deep copies; it is used again for every
	// call below)
	reps := 1
	if heavy {
		// fresh deep copies as well, and a second use directly after the first
		must(w.f, "VerifyProof", c, func() { ok = rmt.VerifyProof(copyList(q), cp(), append([]byte{}, root...)) })
		if !ok {
			w.f.Fatalf("VerifyProof rejects a generated proof: idxs=%v siblings=%v root=%x\n%s", proof.Idxs, hxs(proof.SiblingHashes), root, c())
		}
		reps = 2
	}
	for rep := 1; rep <= reps; rep++ {
		must(w.f, "VerifyProof", c, func() { ok = rmt.VerifyProof(qArg, proof, rootArg) })
		g.verify("VerifyProof")
		if !ok {
			w.f.Fatalf("VerifyProof rejects a generated proof on use %d of the same proof object (fresh deep copies of the same arguments verify): idxs=%v (generated %v) siblings=%v root=%x\n%s",
				rep, proof.Idxs, ref.Idxs, hxs(proof.SiblingHashes), root, c())
		}
	}
	// any other root => false
	otherRoots := [][]byte{flip(root, salt), m.EmptyHash(), {}}
	if n >= 1 && len(tamper) > 0 {
		mod := copyList(w.list)
		mod[pos[0]] = append(mod[pos[0]], 0x00)
		otherRoots = append(otherRoots, m.Root(mod))
	}
	for _, r := range otherRoots {
		if bytes.Equal(r, root) {
			continue
		}
		gr := newGuard(w.f, c)
		gr.bytes("rootHash", r)
		must(w.f, "VerifyProof(other root)", c, func() { ok = rmt.VerifyProof(qArg, proof, r) })
		g.verify("VerifyProof(other root)")
		gr.verify("VerifyProof(other root)")
		if ok {
			w.f.Fatalf("VerifyProof accepts the proof for a different root %x (real %x)\n%s", r, root, c())
		}
		evid.R.Label("neg-root", 1)
	}
	// any other leaf data at one queried slot => false
	inQuery := map[int]bool{}
	for _, p := range pos {
		inQuery[p] = true
	}
	for _, j := range tamper {
		if j < 0 || j >= len(pos) {
			continue
		}
		alts := [][]byte{
			m.LeafHash(append(append([]byte{}, w.list[pos[j]]...), 0x00)), // other data
			flip(q[j], salt+j), // one bit
			m.BranchHash(q[j], q[j]),
		}
		for d := 1; d <= n; d++ { // hash of a real leaf that is not queried
			o := (pos[j] + d) % n
			if !inQuery[o] {
				alts = append(alts, m.LeafHash(w.list[o]))
				break
			}
		}
		for _, a := range alts {
			q2 := copyList(q)
			q2[j] = a
			g2 := newGuard(w.f, c)
			g2.list("queryHashes", q2)
			must(w.f, "VerifyProof(other leaf)", c, func() { ok = rmt.VerifyProof(q2, proof, rootArg) })
			g.verify("VerifyProof(other leaf)")
			g2.verify("VerifyProof(other leaf)")
			if ok {
				w.f.Fatalf("VerifyProof accepts query slot %d replaced by %x (real leaf hash %x)\n%s", j, a, q[j], c())
			}
			evid.R.Label("neg-leaf", 1)
		}
	}
	// after all the rejected uses the same objects still verify
	must(w.f, "VerifyProof", c, func() { ok = rmt.VerifyProof(qArg, proof, rootArg) })
	g.verify("VerifyProof")
	if !ok {
		w.f.Fatalf("VerifyProof rejects the generated proof after the same proof object was used for rejected verifications: idxs=%v (generated %v)\n%s", proof.Idxs, ref.Idxs, c())
	}
	evid.R.Label("reuse:proof-verified-again-after-other-uses", 1)
	// arguments sharing backing arrays
	aliasPure(w.f, "VerifyProof", c, aliasModesFor(w.alias), []string{"queryHashes", "proof.SiblingHashes", "rootHash"},
		[][][]byte{q, ref.SiblingHashes, {root}}, ref.Idxs, "true", func(a *aliasArgs) string {
			return strconv.FormatBool(rmt.VerifyProof(a.lists[0], &rmt.Proof{Size: ref.Size, Idxs: a.idxs, SiblingHashes: a.lists[1]}, a.lists[2][0]))
		})
	// verified, then used for an update: the same proof object gives the root fresh copies give (the model root of the
	// modified list is compared in checkUpdate)
	if heavy {
		nd := make([][]byte, len(pos))
		for j := range nd {
			nd[j] = updLeaf(uint64(salt)<<20|uint64(n), j)
		}
		render := func(r []byte, err error) string {
			if err != nil {
				return "err:" + err.Error()
			}
			return hx(r)
		}
		var want, got string
		must(w.f, "CalculateRootFromUpdateData", c, func() { want = render(rmt.CalculateRootFromUpdateData(copyList(nd), cp())) })
		ndArg := copyList(nd)
		g.list("updateData", ndArg)
		for rep := 1; rep <= 2; rep++ {
			must(w.f, "CalculateRootFromUpdateData", c, func() { got = render(rmt.CalculateRootFromUpdateData(ndArg, proof)) })
			g.verify("CalculateRootFromUpdateData")
			if got != want || strings.HasPrefix(got, "err:") {
				w.f.Fatalf("CalculateRootFromUpdateData with the proof object that was verified before (use %d) = %s, with fresh deep copies = %s; proof idxs=%v (generated %v)\n%s",
					rep, got, want, proof.Idxs, ref.Idxs, c())
			}
		}
		evid.R.Label("reuse:proof-verified-then-update-root", 1)
		must(w.f, "VerifyProof", c, func() { ok = rmt.VerifyProof(qArg, proof, rootArg) })
		g.verify("VerifyProof")
		if !ok {
			w.f.Fatalf("VerifyProof rejects the generated proof after the same object was used by CalculateRootFromUpdateData: idxs=%v (generated %v)\n%s", proof.Idxs, ref.Idxs, c())
		}
	}
}

// checkWitness: right witness at index i against the append path of the first i leaves. The witness object returned by the
// tree and one append-path list are used for every call and compared with deep copies after each.
func (w *world) checkWitness(i int, prefixPath [][]byte, salt int) {
	n := len(w.list)
	root := w.modelRoot()
	c := func() string { return fmt.Sprintf("right witness index %d\n%s", i, w.ctx()) }
	var wit [][]byte
	var err error
	must(w.f, "GenerateRightWitness", c, func() { wit, err = w.tr.GenerateRightWitness(uint64(i)) })
	if err != nil {
		w.f.Fatalf("GenerateRightWitness(%d): %v\n%s", i, err, c())
	}
	if prefixPath == nil {
		prefixPath = m.AppendPath(w.list[:i])
	}
	pathArg, rootArg := copyList(prefixPath), append([]byte{}, root...)
	witRef := copyList(wit)
	g := newGuard(w.f, c)
	g.list("appendPath", pathArg)
	g.list("rightWitness", wit)
	g.bytes("root", rootArg)
	var ok bool
	p, st := try(func() {
		ok = rmt.VerifyRightWitness(uint64(i), pathArg, wit, rootArg)
	})
	if p != nil {
		if n == 0 && i == 0 && len(wit) == 0 && strings.Contains(fmt.Sprint(p), "index out of range [0] with length 0") && evid.R.KnownFinding(sigF3) {
			evid.R.Excluded(1)
			return
		}
		w.f.Fatalf("PANIC in VerifyRightWitness(%d, %v, %v): %v\n%s\n%s", i, hxs(prefixPath), hxs(wit), p, c(), st)
	}
	g.verify("VerifyRightWitness")
	if !ok {
		w.f.Fatalf("VerifyRightWitness(%d, path=%v, witness=%v, root=%x) = false\n%s", i, hxs(prefixPath), hxs(wit), root, c())
	}
	bad := flip(root, salt)
	must(w.f, "VerifyRightWitness(other root)", c, func() {
		ok = rmt.VerifyRightWitness(uint64(i), pathArg, wit, bad)
	})
	g.verify("VerifyRightWitness(other root)")
	if ok {
		w.f.Fatalf("VerifyRightWitness accepts a wrong root\n%s", c())
	}
	// the same witness and path slices again, after the rejected use
	var calc []byte
	must(w.f, "CalculateRootFromRightWitness", c, func() { calc = rmt.CalculateRootFromRightWitness(uint64(i), pathArg, wit) })
	g.verify("CalculateRootFromRightWitness")
	if !bytes.Equal(calc, root) {
		w.f.Fatalf("CalculateRootFromRightWitness(%d) with the witness and path slices that were verified before = %x, root = %x (fresh copies verify)\n%s", i, calc, root, c())
	}
	must(w.f, "VerifyRightWitness", c, func() { ok = rmt.VerifyRightWitness(uint64(i), pathArg, wit, rootArg) })
	g.verify("VerifyRightWitness")
	if !ok {
		w.f.Fatalf("VerifyRightWitness rejects on the second use of the same witness/path slices\n%s", c())
	}
	evid.R.Label("reuse:witness-verified-twice", 1)
	aliasPure(w.f, "VerifyRightWitness", c, aliasModesFor(w.alias), []string{"appendPath", "rightWitness", "root"},
		[][][]byte{prefixPath, witRef, {root}}, nil, "true", func(a *aliasArgs) string {
			return strconv.FormatBool(rmt.VerifyRightWitness(uint64(i), a.lists[0], a.lists[1], a.lists[2][0]))
		})
	if w.alias >= 4 {
		// witness laid out before the append path
		aliasPure(w.f, "CalculateRootFromRightWitness", c, []string{"fullcap", "spare"}, []string{"rightWitness", "appendPath"},
			[][][]byte{witRef, prefixPath}, nil, hx(root), func(a *aliasArgs) string {
				return hx(rmt.CalculateRootFromRightWitness(uint64(i), a.lists[1], a.lists[0]))
			})
	}
}

// checkUpdate: replace the leaves at pos by newData through Update and through CalculateRootFromUpdateData; if newData2 is
// given, a second update of the same positions follows. ONE proof object is verified, used for two different update-root
// computations and its index slice handed to Update (twice); every argument is compared with deep copies after every call.
func (w *world) checkUpdate(pos []int, newData, newData2 [][]byte) {
	n := len(w.list)
	c := func() string {
		return fmt.Sprintf("update positions %v with %v (second update: %v)\n%s", pos, hxs(newData), hxs(newData2), w.ctx())
	}
	evid.R.Label("update-"+orderKind(pos), 1)
	root0 := w.modelRoot()
	q := make([][]byte, len(pos))
	idxs := make([]uint64, len(pos))
	for j, p := range pos {
		q[j] = m.LeafHash(w.list[p])
		idxs[j] = m.LeafIndex(n, p)
	}
	var proof *rmt.Proof
	var err error
	qArg := copyList(q)
	gq := newGuard(w.f, c)
	gq.list("queryHashes", qArg)
	must(w.f, "GenerateProof", c, func() { proof, err = w.tr.GenerateProof(qArg) })
	gq.verify("GenerateProof")
	if err != nil {
		w.f.Fatalf("GenerateProof before update: %v\n%s", err, c())
	}
	for j := range pos {
		if j >= len(proof.Idxs) || proof.Idxs[j] != idxs[j] {
			w.f.Fatalf("GenerateProof before update: idxs %v, want %v\n%s", proof.Idxs, idxs, c())
		}
	}
	ref := cloneProof(proof)
	mod := copyList(w.list)
	for j, p := range pos {
		mod[p] = append([]byte{}, newData[j]...)
	}
	want := m.Root(mod)
	var mod2 [][]byte
	var want2 []byte
	if newData2 != nil {
		mod2 = copyList(mod)
		for j, p := range pos {
			mod2[p] = append([]byte{}, newData2[j]...)
		}
		want2 = m.Root(mod2)
	}
	ndArg, rootArg := copyList(newData), append([]byte{}, root0...)
	g := newGuard(w.f, c)
	g.proof("proof", proof)
	g.list("queryHashes", qArg)
	g.list("updateData", ndArg)
	g.bytes("rootHash", rootArg)
	// verified first (the natural sequence: GenerateProof -> VerifyProof -> update through the proof)
	var ok bool
	must(w.f, "VerifyProof", c, func() { ok = rmt.VerifyProof(qArg, proof, rootArg) })
	g.verify("VerifyProof")
	if !ok {
		w.f.Fatalf("VerifyProof rejects the proof generated before the update: idxs=%v root=%x\n%s", proof.Idxs, root0, c())
	}
	var got []byte
	must(w.f, "CalculateRootFromUpdateData", c, func() { got, err = rmt.CalculateRootFromUpdateData(ndArg, proof) })
	g.verify("CalculateRootFromUpdateData")
	if err != nil {
		w.f.Fatalf("CalculateRootFromUpdateData: %v\n%s", err, c())
	}
	if !bytes.Equal(got, want) {
		w.f.Fatalf("CalculateRootFromUpdateData = %x, model root of the modified list = %x (proof idxs %v, generated %v; the same proof object was verified before)\n%s",
			got, want, proof.Idxs, ref.Idxs, c())
	}
	// fresh deep copies give the same
	must(w.f, "CalculateRootFromUpdateData", c, func() { got, err = rmt.CalculateRootFromUpdateData(copyList(newData), cloneProof(ref)) })
	if err != nil || !bytes.Equal(got, want) {
		w.f.Fatalf("CalculateRootFromUpdateData with fresh copies = %x (%v), model root of the modified list = %x\n%s", got, err, want, c())
	}
	if newData2 != nil {
		// the same proof object for a second, different update
		nd2Arg := copyList(newData2)
		g2 := newGuard(w.f, c)
		g2.list("updateData", nd2Arg)
		must(w.f, "CalculateRootFromUpdateData", c, func() { got, err = rmt.CalculateRootFromUpdateData(nd2Arg, proof) })
		g.verify("CalculateRootFromUpdateData")
		g2.verify("CalculateRootFromUpdateData")
		// the proof proves the ORIGINAL list: the second update root is that of the original list with newData2
		modB := copyList(w.list)
		for j, p := range pos {
			modB[p] = append([]byte{}, newData2[j]...)
		}
		if wantB := m.Root(modB); err != nil || !bytes.Equal(got, wantB) {
			w.f.Fatalf("CalculateRootFromUpdateData for a second update with the same proof object = %x (%v), model root = %x (proof idxs %v, generated %v)\n%s",
				got, err, wantB, proof.Idxs, ref.Idxs, c())
		}
		must(w.f, "CalculateRootFromUpdateData", c, func() { got, err = rmt.CalculateRootFromUpdateData(ndArg, proof) })
		g.verify("CalculateRootFromUpdateData")
		if err != nil || !bytes.Equal(got, want) {
			w.f.Fatalf("CalculateRootFromUpdateData (third use of the same proof object) = %x (%v), model root of the modified list = %x\n%s", got, err, want, c())
		}
		evid.R.Label("reuse:proof-used-for-two-update-roots", 1)
	}
	aliasPure(w.f, "CalculateRootFromUpdateData", c, aliasModesFor(w.alias), []string{"updateData", "proof.SiblingHashes"},
		[][][]byte{newData, ref.SiblingHashes}, ref.Idxs, hx(want), func(a *aliasArgs) string {
			r, err := rmt.CalculateRootFromUpdateData(a.lists[0], &rmt.Proof{Size: ref.Size, Idxs: a.idxs, SiblingHashes: a.lists[1]})
			if err != nil {
				return "err:" + err.Error()
			}
			return hx(r)
		})
	// the real update gets the index slice of the proof object used above
	must(w.f, "Update", c, func() { err = w.tr.Update(proof.Idxs, ndArg) })
	g.verify("Update")
	if err != nil {
		w.f.Fatalf("Update(%v): %v\n%s", idxs, err, c())
	}
	if !bytes.Equal(w.tr.Root(), want) {
		w.f.Fatalf("Root() after Update(%v) = %x, model root of the modified list = %x\n%s", idxs, w.tr.Root(), want, c())
	}
	if w.tr.Size() != uint64(n) {
		w.f.Fatalf("Size() after Update = %d, want %d\n%s", w.tr.Size(), n, c())
	}
	evid.R.Label("reuse:proof-verified-then-update", 1)
	w.list = mod
	w.rootOf = nil
	w.updated = true
	if newData2 != nil {
		// second update of the same positions: the same index slice again, or arguments sharing backing arrays
		modes := aliasModesFor(w.alias)
		if len(modes) == 0 {
			nd2Arg := copyList(newData2)
			g.list("updateData(2)", nd2Arg)
			must(w.f, "Update", c, func() { err = w.tr.Update(proof.Idxs, nd2Arg) })
			g.verify("Update")
			scribble(nd2Arg...)
			evid.R.Label("reuse:index-slice-used-for-two-updates", 1)
		} else {
			a := buildAlias(modes[0], [][][]byte{newData2}, idxs)
			ga := newGuard(w.f, c)
			a.register(ga, []string{"updateData"})
			must(w.f, "Update [arguments share backing arrays: "+modes[0]+"]", c, func() { err = w.tr.Update(a.idxs, a.lists[0]) })
			ga.verify("Update [layout " + modes[0] + "]")
			evid.R.Label("alias-update="+modes[0], 1)
			if a.buf != nil {
				scribble(a.buf)
			}
		}
		if err != nil {
			w.f.Fatalf("second Update(%v): %v\n%s", idxs, err, c())
		}
		if !bytes.Equal(w.tr.Root(), want2) || w.tr.Size() != uint64(n) {
			w.f.Fatalf("Root()/Size() after the second Update(%v) = %x/%d, model root of the twice modified list = %x/%d\n%s", idxs, w.tr.Root(), w.tr.Size(), want2, n, c())
		}
		w.list = mod2
	}
	// the caller re-uses its data buffers: the tree must not depend on them any more (state is checked by the callers)
	scribble(ndArg...)
	if !m.Equal(w.tr.AppendPath(), m.AppendPath(w.list)) {
		evid.R.Label("obs:append-path-stale-after-update", 1) // observation only (outside the statement)
	} else {
		evid.R.Label("obs:append-path-current-after-update", 1)
	}
}

// ---------------------------------------------------------------------------------------------------------------------
// replayable case description for the enumerating tests

type caseSpec struct {
	Op       string     `json:"op"` // grow | reload | proof | update | witness | dup | history
	DB       string     `json:"db"`
	Leaves   []string   `json:"leaves"`
	Pos      []int      `json:"pos,omitempty"`
	Tamper   []int      `json:"tamper,omitempty"`
	NewData  []string   `json:"newData,omitempty"`
	NewData2 []string   `json:"newData2,omitempty"` // second update of the same positions
	Alias    int        `json:"alias,omitempty"`    // aliasModesFor selector used for the case
	Index    int        `json:"index,omitempty"`
	Steps    []histStep `json:"steps,omitempty"` // op "history": steps applied to ONE tree object (hist_test.go)
}

// recFatal turns a failure of an enumerating test into a replay file + test failure.
type recFatal struct {
	t    *testing.T
	spec func() caseSpec
}

func (r recFatal) Fatalf(format string, a ...any) {
	s := r.spec()
	p := evid.R.FailCase(s.Op, s)
	r.t.Fatalf("%s\n(case written to %s)", fmt.Sprintf(format, a...), p)
}

func buildWorld(f fataler, kind string, leaves [][]byte, full bool) *world {
	w := newWorld(f, kind)
	w.aliasGrow, w.scratchAppend = 5, len(leaves)%2 == 1
	if full {
		w.checkState()
	}
	for _, v := range leaves {
		w.appendChecked(v)
		if full {
			w.checkState()
		}
	}
	return w
}

func runSpec(f fataler, s caseSpec) {
	leaves := unhxs(s.Leaves)
	switch s.Op {
	case "dup":
		checkDup(f, leaves, s.DB)
		return
	case "history":
		runHistory(f, s.DB, leaves, s.Steps)
		return
	}
	w := buildWorld(f, s.DB, leaves, s.Op == "grow" || len(leaves) <= 64)
	defer w.close()
	w.alias = s.Alias
	switch s.Op {
	case "grow":
	case "reload":
		w2 := newWorld(f, s.DB)
		defer w2.close()
		w2.reloadChecked() // length 0: refused, or the empty tree
		for _, v := range leaves {
			w2.appendChecked(v)
			w2.reloadChecked()
			w2.checkState()
		}
	case "proof":
		w.checkProof(s.Pos, s.Tamper, 1)
	case "witness":
		w.checkWitness(s.Index, nil, 1)
	case "update":
		var nd2 [][]byte
		if len(s.NewData2) > 0 {
			nd2 = unhxs(s.NewData2)
		}
		w.checkUpdate(s.Pos, unhxs(s.NewData), nd2)
		w.checkState()
		w.reloadChecked()
		w.checkState()
	default:
		f.Fatalf("unknown op %q", s.Op)
	}
}

// TestReplayCase re-runs a JSON case written by an enumerating test: VERIF_REPLAY_CASE=<file>.
func TestReplayCase(t *testing.T) {
	p := os.Getenv("VERIF_REPLAY_CASE")
	if p == "" {
		t.Skip("no replay case")
	}
	raw, err := os.ReadFile(p)
	if err != nil {
		t.Fatal(err)
	}
	var s caseSpec
	if err := json.Unmarshal(raw, &s); err != nil || s.Op == "" {
		t.Skip("not a C11 case")
	}
	runSpec(t, s)
}

// replaying: a single saved case is being re-run (JSON case or rapid fail file); the enumerating tests are skipped then.
func replaying() bool { return os.Getenv("VERIF_REPLAY_CASE") != "" || os.Getenv("VERIF_REPLAY") != "" }

// ---------------------------------------------------------------------------------------------------------------------
// (1) exhaustive lengths: Append-built root = CalculateRoot = model, append path, size, prediction of the next append

func TestLengthsExhaustive(t *testing.T) {
	if replaying() {
		t.Skip()
	}
	N := 260
	if evid.Thorough() {
		N = evid.Scale(2100)
	}
	shard, shards := shardInfo()
	for _, kind := range []string{"map", "pebble"} {
		if kind == "pebble" && N > 700 {
			N = 700 // the storage back end does not change the arithmetic; keep the slow one shorter
		}
		leaves := detLeaves(N + 1)
		cur := 0
		f := recFatal{t, func() caseSpec { return caseSpec{Op: "grow", DB: kind, Leaves: hxs(leaves[:cur+1])} }}
		w := newWorld(f, kind)
		for n := 0; n <= N; n++ {
			cur = n
			w.aliasGrow, w.scratchAppend = n%6, n%3 != 0
			if n%shards == shard {
				w.checkState()
				evid.R.Case(fmt.Sprintf("len|%s|%d", kind, n), rootNontrivial(n), func() any {
					return map[string]any{"kind": "length-exhaustive", "db": kind, "n": n, "root": hx(w.tr.Root()), "appendPathLen": len(w.tr.AppendPath())}
				}, "length-exhaustive", sizeClass(n), magnitude(n), "db="+kind)
			}
			w.appendChecked(leaves[n]) // includes CalculateRootFromAppendPath vs the real append for every n
			evid.R.Label("append-prediction", 1)
		}
		w.close()
	}
}

// (2) reload after every append, continuing on the reloaded instance
func TestReloadExhaustive(t *testing.T) {
	if replaying() {
		t.Skip()
	}
	N := 260
	if evid.Thorough() {
		N = evid.Scale(600)
	}
	shard, shards := shardInfo()
	if shard >= 2 {
		t.Skip("two shards are enough for this enumeration")
	}
	kind := "pebble"
	if shards > 1 && shard == 1 {
		kind = "map"
	}
	leaves := detLeaves(N)
	cur := 0
	f := recFatal{t, func() caseSpec { return caseSpec{Op: "reload", DB: kind, Leaves: hxs(leaves[:cur+1])} }}
	w := newWorld(f, kind)
	defer w.close()
	w.reloadChecked() // length 0: refused, or the empty tree
	evid.R.Case(fmt.Sprintf("reload|%s|0", kind), false, nil, "reload-exhaustive", "reload-length-0")
	for n := 1; n <= N; n++ {
		cur = n - 1
		w.aliasGrow, w.scratchAppend = (n+3)%6, n%2 == 0
		w.appendChecked(leaves[n-1])
		ok := w.reloadChecked()
		w.checkState()
		lab := "reload-ok"
		if !ok {
			lab = "reload-skipped-known"
		}
		evid.R.Case(fmt.Sprintf("reload|%s|%d", kind, n), rootNontrivial(n), func() any {
			return map[string]any{"kind": "reload-exhaustive", "db": kind, "n": n}
		}, "reload-exhaustive", sizeClass(n), lab)
	}
}

// structured leaf subsets for a tree of n leaves (deterministic; random subsets come from the rapid test)
func structuredSubsets(n int) [][]int {
	out, _ := structuredSubsetsSplit(n)
	return out
}

// structuredSubsetsSplit also returns the index of the first order variant (the sets before it are the ascending / reversed
// sets of the original enumeration).
func structuredSubsetsSplit(n int) ([][]int, int) {
	var out [][]int
	firstVariant := -1
	for i := 0; i < n; i++ {
		out = append(out, []int{i})
	}
	for i := 0; i+1 < n; i++ {
		out = append(out, []int{i, i + 1})
	}
	if n >= 3 {
		out = append(out, []int{0, n - 1}, []int{n - 1, 0})
		all, ev, od, rev := []int{}, []int{}, []int{}, []int{}
		for i := 0; i < n; i++ {
			all = append(all, i)
			rev = append(rev, n-1-i)
			if i%2 == 0 {
				ev = append(ev, i)
			} else {
				od = append(od, i)
			}
		}
		out = append(out, all, ev, od, rev)
		k := m.Split(n)
		// everything right of the split, the last leaf with the last leaf of every perfect subtree, a stride
		var right, ends, stride []int
		for i := k; i < n; i++ {
			right = append(right, i)
		}
		s := 0
		for b := 30; b >= 0; b-- {
			if n&(1<<uint(b)) != 0 {
				s += 1 << uint(b)
				ends = append(ends, s-1)
			}
		}
		for i := 0; i < n; i += 3 {
			stride = append(stride, i)
		}
		out = append(out, right, ends, stride)
		if n >= 4 {
			out = append(out, []int{k - 1, k, n - 1}, []int{0, k - 1, k})
		}
		firstVariant = len(out)
		out = append(out, orderVariantSubsets(n, all, ev, od, right, ends, stride)...)
	}
	if firstVariant < 0 {
		firstVariant = len(out)
	}
	for i := range out {
		out[i] = dedupe(out[i])
	}
	return out, firstVariant
}

// orderVariantSubsets: query orders other than ascending: descending pairs, descending / shuffled versions of the structured
// sets, the two sides of the split interleaved, a few leaves picked in a scattered order (5, 2, 7, 0 - like). n >= 3.
func orderVariantSubsets(n int, all, ev, od, right, ends, stride []int) [][]int {
	var out [][]int
	k := m.Split(n)
	{
		for i := n % 5; i+1 < n; i += 5 {
			out = append(out, []int{i + 1, i})
		}
		out = append(out, reversed(ends))
		switch n % 3 { // the large ones in turn (cost)
		case 0:
			out = append(out, strided(all, n/2), reversed(stride))
		case 1:
			out = append(out, reversed(right), strided(stride, 2), reversed(od))
		case 2:
			out = append(out, strided(right, 1), strided(ev, 1))
		}
		var inter, scat []int
		for i := 0; i < 4 && k+i < n; i++ {
			inter = append(inter, k+i, i)
		}
		for _, x := range []int{5, 2, 7, 0, 11, 3} {
			scat = append(scat, (x*(n/8+1)+n/3)%n)
		}
		out = append(out, inter, scat)
		if n >= 4 {
			out = append(out, []int{n - 1, k, k - 1}, []int{k, 0, k - 1})
		}
	}
	for i := range out {
		out[i] = dedupe(out[i])
	}
	return out
}

func subsetKind(n int, pos []int) string {
	switch {
	case len(pos) == 1:
		return "subset=single"
	case len(pos) == n:
		return "subset=all"
	case len(pos) == 2 && (pos[1] == pos[0]+1):
		return "subset=adjacent"
	}
	return "subset=other"
}

// (3) proofs for structured subsets of every tree size
func TestProofsExhaustive(t *testing.T) {
	if replaying() {
		t.Skip()
	}
	t.Parallel() // independent world; runs next to the other enumerations and TestRandomTrees (wall time)
	N := 200
	if evid.Thorough() {
		N = evid.Scale(900)
	}
	shard, shards := shardInfo()
	leaves := detLeaves(N)
	var spec caseSpec
	f := recFatal{t, func() caseSpec { return spec }}
	w := newWorld(f, "map")
	for n := 1; n <= N; n++ {
		spec = caseSpec{Op: "grow", DB: "map", Leaves: hxs(leaves[:n])}
		w.appendChecked(leaves[n-1])
		if n%shards != shard {
			continue
		}
		subsets, firstVariant := structuredSubsetsSplit(n)
		for si, pos := range subsets {
			tamper := []int{0, len(pos) - 1, len(pos) / 2}
			if len(pos) > 16 {
				tamper = []int{(n + si) % len(pos)}
			}
			if n > 64 && len(pos) <= 2 && si%5 != 0 {
				tamper = nil // negative variants for every 5th small subset only (cost)
			}
			if si >= firstVariant && tamper != nil {
				// order variants of sets whose negative variants ran above: one tampered slot, for every third pair only
				tamper = []int{(n + si) % len(pos)}
				if len(pos) <= 2 && si%3 != 0 {
					tamper = nil
				}
			}
			w.alias = (n + si) % 24
			spec = caseSpec{Op: "proof", DB: "map", Leaves: hxs(leaves[:n]), Pos: pos, Tamper: tamper, Alias: w.alias}
			w.checkProof(pos, tamper, n+si)
			evid.R.Case(fmt.Sprintf("proof|%d|%v", n, pos), subsetNontrivial(n, pos), func() any {
				return map[string]any{"kind": "proof-exhaustive", "n": n, "positions": pos}
			}, "proof-exhaustive", subsetKind(n, pos), sizeClass(n), orderKind(pos))
		}
	}
}

// (4) right witness for every index of every tree size
func TestWitnessExhaustive(t *testing.T) {
	if replaying() {
		t.Skip()
	}
	t.Parallel() // independent world; runs next to the other enumerations and TestRandomTrees (wall time)
	N := 260
	if evid.Thorough() {
		N = evid.Scale(1300)
	}
	shard, shards := shardInfo()
	leaves := detLeaves(N)
	var spec caseSpec
	f := recFatal{t, func() caseSpec { return spec }}
	w := newWorld(f, "map")
	paths := [][][]byte{copyList(w.tr.AppendPath())} // append path of the first i leaves (checked against the model elsewhere)
	for n := 0; n <= N; n++ {
		if n > 0 {
			spec = caseSpec{Op: "grow", DB: "map", Leaves: hxs(leaves[:n])}
			w.appendChecked(leaves[n-1])
			paths = append(paths, copyList(w.tr.AppendPath()))
		}
		if n%shards != shard {
			continue
		}
		if !m.Equal(paths[n], m.AppendPath(w.list)) {
			spec = caseSpec{Op: "grow", DB: "map", Leaves: hxs(leaves[:n])}
			f.Fatalf("append path at size %d differs from the model", n)
		}
		for i := 0; i <= n; i++ {
			w.alias = (n + i) % 12
			spec = caseSpec{Op: "witness", DB: "map", Leaves: hxs(leaves[:n]), Index: i, Alias: w.alias}
			w.checkWitness(i, paths[i], n+i)
			lab := "witness=inner"
			if i == 0 {
				lab = "witness=0"
			} else if i == n {
				lab = "witness=n"
			}
			evid.R.Case(fmt.Sprintf("wit|%d|%d", n, i), rootNontrivial(n) && i > 0 && i < n, nil, "witness-exhaustive", lab, sizeClass(n))
		}
	}
}

func updateSets(n int) [][]int {
	var out [][]int
	if n <= 48 {
		for i := 0; i < n; i++ {
			out = append(out, []int{i})
		}
		for i := 0; i+1 < n; i++ {
			out = append(out, []int{i, i + 1})
		}
	} else {
		k := m.Split(n)
		for _, i := range []int{0, 1, k - 1, k, n - 2, n - 1, n / 3} {
			out = append(out, []int{i})
		}
		out = append(out, []int{k - 1, k}, []int{n - 2, n - 1}, []int{0, 1})
	}
	if n >= 3 {
		k := m.Split(n)
		all, od := []int{}, []int{}
		for i := 0; i < n; i++ {
			all = append(all, i)
			if i%2 == 1 {
				od = append(od, i)
			}
		}
		out = append(out, []int{0, n - 1}, []int{n - 1, k - 1, 0}, all, od)
		if n-k >= 2 {
			out = append(out, []int{k, n - 1})
		}
		// index orders other than ascending
		out = append(out, []int{n - 1, 0}, []int{k, 0, k - 1}, []int{(n/3 + 1) % n, n / 3})
		switch n % 4 { // the large ones in turn (cost)
		case 0:
			out = append(out, reversed(all))
		case 1:
			out = append(out, strided(od, 1))
		case 2:
			out = append(out, strided(all, n/2))
		}
		var scat []int
		for _, x := range []int{5, 2, 7, 0, 11, 3} {
			scat = append(scat, (x*(n/8+1)+n/3)%n)
		}
		out = append(out, scat)
	}
	for i := range out {
		out[i] = dedupe(out[i])
	}
	return out
}

func newLeaf(n, set, j int) []byte {
	h := sha256.Sum256([]byte(fmt.Sprintf("c11-new-%d-%d-%d", n, set, j)))
	if (n+set+j)%11 == 0 {
		return h[:5]
	}
	return h[:]
}

// (5) updates of structured index sets for every tree size (fresh copy of the tree per update)
func TestUpdatesExhaustive(t *testing.T) {
	if replaying() {
		t.Skip()
	}
	t.Parallel() // independent world; runs next to the other enumerations and TestRandomTrees (wall time)
	N := 130
	if evid.Thorough() {
		N = evid.Scale(520)
	}
	shard, shards := shardInfo()
	leaves := detLeaves(N)
	var spec caseSpec
	f := recFatal{t, func() caseSpec { return spec }}
	base := newWorld(f, "map")
	for n := 1; n <= N; n++ {
		spec = caseSpec{Op: "grow", DB: "map", Leaves: hxs(leaves[:n])}
		base.appendChecked(leaves[n-1])
		if n%shards != shard {
			continue
		}
		for si, pos := range updateSets(n) {
			nd := make([][]byte, len(pos))
			var nd2 [][]byte
			if (n+si)%4 == 0 {
				nd2 = make([][]byte, len(pos))
			}
			for j := range pos {
				nd[j] = newLeaf(n, si, j)
				if nd2 != nil {
					nd2[j] = newLeaf(n, 1000+si, j)
				}
			}
			alias := (n/2 + si) % 6
			spec = caseSpec{Op: "update", DB: "map", Leaves: hxs(leaves[:n]), Pos: pos, NewData: hxs(nd), NewData2: hxs(nd2), Alias: alias}
			// fresh copy of the storage; the copy is opened the way a restarted process would do it
			var w *world
			cl := base.db.(*mapDB).clone()
			t2, err := rmt.NewRegularMerkleTreeWithPastData(cl)
			if err != nil {
				if n != 1 {
					f.Fatalf("reload of a storage copy at size %d: %v", n, err)
				}
				w = buildWorld(f, "map", leaves[:n], false)
			} else {
				w = &world{f: f, kind: "map", db: cl, closer: func() {}, tr: t2, list: copyList(base.list)}
			}
			w.alias = alias
			w.checkUpdate(pos, nd, nd2)
			w.checkState()
			// the updated tree is a tree of the modified list: proofs of its leaves verify, it survives a reload
			w.checkProof(pos, []int{0}, n+si)
			if n >= 2 {
				other := []int{(pos[0] + 1) % n, pos[0]}
				w.checkProof(other, nil, n)
			}
			w.reloadChecked()
			w.checkState()
			evid.R.Case(fmt.Sprintf("upd|%d|%v", n, pos), subsetNontrivial(n, pos), func() any {
				return map[string]any{"kind": "update-exhaustive", "n": n, "positions": pos}
			}, "update-exhaustive", subsetKind(n, pos), sizeClass(n), orderKind(pos))
		}
	}
}

// ---------------------------------------------------------------------------------------------------------------------
// (6) duplicates: root checks only

func checkDup(f fataler, leaves [][]byte, kind string) {
	want := m.Root(leaves)
	var got []byte
	c := func() string { return fmt.Sprintf("list with duplicates n=%d leaves=%v", len(leaves), hxs(leaves)) }
	must(f, "CalculateRoot", c, func() { got = rmt.CalculateRoot(copyList(leaves)) })
	if !bytes.Equal(got, want) {
		f.Fatalf("CalculateRoot = %x, model = %x\n%s", got, want, c())
	}
	if kind == "" {
		return
	}
	d, cl := openDB(f, kind)
	defer cl()
	tr := rmt.NewRegularMerkleTree(d)
	for i, v := range leaves {
		var err error
		must(f, "Append", c, func() { err = tr.Append(append([]byte{}, v...)) })
		if err != nil {
			f.Fatalf("Append #%d: %v\n%s", i, err, c())
		}
		if !bytes.Equal(tr.Root(), m.Root(leaves[:i+1])) {
			f.Fatalf("Append-built root after %d leaves = %x, model = %x\n%s", i+1, tr.Root(), m.Root(leaves[:i+1]), c())
		}
		if !m.Equal(tr.AppendPath(), m.AppendPath(leaves[:i+1])) {
			f.Fatalf("append path after %d leaves differs from the model\n%s", i+1, c())
		}
	}
}

func TestDuplicateLeavesRoots(t *testing.T) {
	if os.Getenv("VERIF_REPLAY_CASE") != "" {
		t.Skip()
	}
	rapid.Check(t, func(t *rapid.T) {
		n := rapid.IntRange(0, 70).Draw(t, "n")
		alpha := rapid.IntRange(1, 4).Draw(t, "alphabet")
		period := rapid.IntRange(0, 8).Draw(t, "period")
		leaves := make([][]byte, n)
		for i := range leaves {
			var s int
			if period > 0 && rapid.IntRange(0, 3).Draw(t, "periodic") > 0 {
				s = i % period % alpha
			} else {
				s = rapid.IntRange(0, alpha-1).Draw(t, "sym")
			}
			leaves[i] = bytes.Repeat([]byte{byte(s)}, s*8) // symbol 0 is the empty leaf
		}
		kind := rapid.SampledFrom([]string{"map", "map", "pebble"}).Draw(t, "db")
		checkDup(t, leaves, kind)
		distinct := map[string]bool{}
		for _, l := range leaves {
			distinct[string(l)] = true
		}
		evid.R.Case("dup|"+strings.Join(hxs(leaves), ","), rootNontrivial(n) && len(distinct) < n, func() any {
			return map[string]any{"kind": "duplicates-root", "n": n, "distinctLeaves": len(distinct)}
		}, "duplicates-root", sizeClass(n))
	})
}

// ---------------------------------------------------------------------------------------------------------------------
// (7) random trees: sizes around powers of two up to 2^13, random leaves, random subsets, histories of operations

func drawSize(t *rapid.T, label string, maxExp int) int {
	switch rapid.IntRange(0, 9).Draw(t, label+"-class") {
	case 0:
		return rapid.IntRange(0, 40).Draw(t, label)
	case 1, 2:
		return rapid.IntRange(0, 2100).Draw(t, label)
	default:
		k := rapid.IntRange(3, maxExp).Draw(t, label+"-exp")
		d := rapid.IntRange(-3, 3).Draw(t, label+"-delta")
		n := (1 << uint(k)) + d
		if n < 0 {
			n = 0
		}
		return n
	}
}

func drawLeaves(t *rapid.T, n int) ([][]byte, string) {
	if n <= 48 && rapid.Bool().Draw(t, "drawnLeaves") {
		seen := map[string]bool{}
		out := make([][]byte, 0, n)
		for i := 0; i < n; i++ {
			b := rapid.SliceOfN(rapid.Byte(), 0, 40).Draw(t, "leaf")
			for seen[string(b)] {
				b = append(b, byte(i), 0xfe)
			}
			seen[string(b)] = true
			out = append(out, b)
		}
		return out, "drawn"
	}
	seed := rapid.Uint64().Draw(t, "leafSeed")
	style := rapid.SampledFrom([]string{"id32", "id32", "mixed", "short"}).Draw(t, "leafStyle")
	return seedLeaves(seed, n, style), style
}

func drawSubset(t *rapid.T, n int) []int {
	if n == 0 {
		return nil
	}
	var pos []int
	switch rapid.IntRange(0, 6).Draw(t, "subsetKind") {
	case 0:
		pos = []int{rapid.IntRange(0, n-1).Draw(t, "pos")}
	case 1:
		if n >= 2 {
			i := rapid.IntRange(0, n-2).Draw(t, "pos")
			pos = []int{i, i + 1}
		} else {
			pos = []int{0}
		}
	case 2:
		if n <= 300 {
			for i := 0; i < n; i++ {
				pos = append(pos, i)
			}
			break
		}
		fallthrough
	case 3: // contiguous range
		a := rapid.IntRange(0, n-1).Draw(t, "from")
		l := rapid.IntRange(1, 40).Draw(t, "len")
		for i := a; i < n && i < a+l; i++ {
			pos = append(pos, i)
		}
	default: // random distinct positions, both sides of the split when possible
		k := rapid.IntRange(2, 12).Draw(t, "k")
		seen := map[int]bool{}
		if n >= 2 {
			sp := m.Split(n)
			for _, p := range []int{rapid.IntRange(0, sp-1).Draw(t, "left"), rapid.IntRange(sp, n-1).Draw(t, "right")} {
				seen[p] = true
				pos = append(pos, p)
			}
		}
		for len(pos) < k && len(pos) < n {
			p := rapid.IntRange(0, n-1).Draw(t, "pos")
			if !seen[p] {
				seen[p] = true
				pos = append(pos, p)
			}
		}
		if len(pos) == 0 {
			pos = []int{0}
		}
	}
	switch o := rapid.IntRange(0, 4).Draw(t, "order"); {
	case o == 0:
		sort.Ints(pos)
	case o == 1:
		sort.Sort(sort.Reverse(sort.IntSlice(pos)))
	case len(pos) > 1 && len(pos) <= 64:
		pos = rapid.Permutation(pos).Draw(t, "perm")
	}
	return pos
}

func TestRandomTrees(t *testing.T) {
	if os.Getenv("VERIF_REPLAY_CASE") != "" {
		t.Skip()
	}
	if os.Getenv("VERIF_REPLAY") == "" {
		t.Parallel()
	}
	maxExp := 12
	if evid.Thorough() {
		maxExp = 13
	}
	rapid.Check(t, func(t *rapid.T) {
		n1 := drawSize(t, "n", maxExp)
		extra := rapid.IntRange(0, 20).Draw(t, "extraAppends")
		leaves, style := drawLeaves(t, n1+extra)
		kind := rapid.SampledFrom([]string{"map", "map", "pebble"}).Draw(t, "db")
		if n1 > 3000 {
			kind = "map"
		}
		w := newWorld(t, kind)
		defer w.close()
		w.aliasGrow = rapid.IntRange(0, 5).Draw(t, "aliasGrow")
		w.scratchAppend = rapid.Bool().Draw(t, "scratchAppend")
		labels := []string{"random-tree", sizeClass(n1), magnitude(n1), "db=" + kind, "leaves=" + style}
		nontrivial := false
		// phase 1: grow, with reloads at drawn sizes; state compared at a few checkpoints and at the end
		nReload := rapid.IntRange(0, 2).Draw(t, "reloads")
		reloadAt := map[int]bool{}
		for i := 0; i < nReload && n1 > 0; i++ {
			reloadAt[rapid.IntRange(1, n1).Draw(t, "reloadAt")] = true
		}
		check := map[int]bool{n1: true}
		for i := 0; i < 3 && n1 > 0; i++ {
			check[rapid.IntRange(0, n1).Draw(t, "checkAt")] = true
		}
		for n := 0; ; n++ {
			if check[n] || n <= 8 {
				w.checkState()
			}
			if reloadAt[n] {
				if w.reloadChecked() {
					evid.R.Label("op=reload", 1)
				}
			}
			if n == n1 {
				break
			}
			w.appendChecked(leaves[n])
		}
		// phase 2: proofs and witnesses on the grown tree
		ops := rapid.IntRange(1, 6).Draw(t, "ops")
		for o := 0; o < ops && n1 > 0; o++ {
			switch rapid.IntRange(0, 2).Draw(t, "op") {
			case 0, 1:
				pos := drawSubset(t, n1)
				var tamper []int
				for j := 0; j < 2; j++ {
					tamper = append(tamper, rapid.IntRange(0, len(pos)-1).Draw(t, "tamper"))
				}
				w.alias = rapid.IntRange(0, 5).Draw(t, "alias")
				w.checkProof(pos, tamper, rapid.IntRange(0, 255).Draw(t, "salt"))
				nontrivial = nontrivial || subsetNontrivial(n1, pos)
				evid.R.Label("op=proof", 1)
				evid.R.Label("rnd-"+subsetKind(n1, pos), 1)
				evid.R.Label("rnd-"+orderKind(pos), 1)
			case 2:
				i := rapid.IntRange(0, n1).Draw(t, "witnessIndex")
				w.alias = rapid.IntRange(0, 5).Draw(t, "alias")
				w.checkWitness(i, nil, rapid.IntRange(0, 255).Draw(t, "salt"))
				evid.R.Label("op=witness", 1)
			}
		}
		if n1 == 0 {
			w.checkWitness(0, nil, 0)
			evid.R.Label("op=witness", 1)
		}
		// phase 3: more appends after proofs (the stored nodes must still be right), then reload
		for n := n1; n < n1+extra; n++ {
			w.appendChecked(leaves[n])
		}
		if extra > 0 {
			w.checkState()
			if rapid.Bool().Draw(t, "reloadAfterExtra") && w.reloadChecked() {
				evid.R.Label("op=reload", 1)
			}
			pos := drawSubset(t, len(w.list))
			w.alias = rapid.IntRange(0, 5).Draw(t, "alias")
			w.checkProof(pos, []int{0}, 3)
			evid.R.Label("rnd-"+orderKind(pos), 1)
			w.checkWitness(rapid.IntRange(0, len(w.list)).Draw(t, "witnessIndex2"), nil, 5)
			nontrivial = nontrivial || subsetNontrivial(len(w.list), pos)
		}
		// phase 4: a short history of updates (no appends afterwards, see world.updated)
		n := len(w.list)
		nUpd := rapid.IntRange(0, 3).Draw(t, "updates")
		for u := 0; u < nUpd && n > 0; u++ {
			pos := drawSubset(t, n)
			if len(pos) > 64 {
				pos = pos[:64]
			}
			nd := make([][]byte, len(pos))
			var nd2 [][]byte
			if rapid.Bool().Draw(t, "secondUpdate") {
				nd2 = make([][]byte, len(pos))
			}
			salt := rapid.Uint64().Draw(t, "newSeed")
			present := map[string]bool{}
			for _, l := range w.list {
				present[string(l)] = true
			}
			for j := range nd {
				nd[j] = updLeaf(salt, u*1000+j)
				if rapid.IntRange(0, 9).Draw(t, "shortNew") == 0 {
					nd[j] = nd[j][:rapid.IntRange(9, 31).Draw(t, "newLen")]
				}
				for present[string(nd[j])] { // leaves stay distinct (hash-keyed location index)
					nd[j] = append(nd[j], byte(u), byte(j), 0xfd)
				}
				present[string(nd[j])] = true
				if nd2 != nil {
					nd2[j] = updLeaf(salt, u*1000+500+j)
					for present[string(nd2[j])] {
						nd2[j] = append(nd2[j], byte(u), byte(j), 0xfc)
					}
					present[string(nd2[j])] = true
				}
			}
			w.alias = rapid.IntRange(0, 5).Draw(t, "alias")
			w.checkUpdate(pos, nd, nd2)
			w.checkState()
			evid.R.Label("op=update", 1)
			evid.R.Label("rnd-update-"+orderKind(pos), 1)
			nontrivial = nontrivial || subsetNontrivial(n, pos)
			if rapid.Bool().Draw(t, "reloadAfterUpdate") && w.reloadChecked() {
				w.checkState()
				evid.R.Label("op=reload", 1)
			}
			p2 := drawSubset(t, n)
			w.checkProof(p2, []int{0}, 7)
		}
		if nUpd > 0 && n > 0 {
			// observation only (outside the statement): Update leaves the stored append path untouched, so an append after an
			// update of a leaf below an append-path node gives a root that is not the root of the list
			if p, _ := try(func() { w.tr.Append([]byte("after-update")) }); p == nil {
				if bytes.Equal(w.tr.Root(), m.Root(append(copyList(w.list), []byte("after-update")))) {
					evid.R.Label("obs:append-after-update-root-ok", 1)
				} else {
					evid.R.Label("obs:append-after-update-root-differs", 1)
				}
			}
		}
		key := fmt.Sprintf("rnd|%d|%d|%s|%s|%x", n1, extra, kind, style, m.Root(w.list))
		evid.R.Case(key, nontrivial || (rootNontrivial(n1) && ops > 0), func() any {
			return map[string]any{"kind": "random-tree", "n": n1, "extraAppends": extra, "db": kind, "leafStyle": style, "updates": nUpd}
		}, labels...)
	})
}

// (8) stateless chain: feeding CalculateRootFromAppendPath its own output must track the real tree. Where a listed known
// finding (F1/F2) breaks a step, the chain is re-synchronised with the real tree and goes on.
func TestPredictionChain(t *testing.T) {
	if os.Getenv("VERIF_REPLAY_CASE") != "" {
		t.Skip()
	}
	rapid.Check(t, func(t *rapid.T) {
		n := drawSize(t, "n", 10)
		leaves, _ := drawLeaves(t, n)
		w := newWorld(t, "map")
		st := &rmt.RootWithAppendPath{Root: m.EmptyHash(), AppendPath: [][]byte{}, Size: 0}
		resync := func() {
			st = &rmt.RootWithAppendPath{Root: append([]byte{}, w.tr.Root()...), AppendPath: copyList(w.tr.AppendPath()), Size: w.tr.Size()}
			evid.R.Excluded(1)
		}
		longest, run := 0, 0
		for i, v := range leaves {
			oldPath := copyList(st.AppendPath)
			var next *rmt.RootWithAppendPath
			p, stck := try(func() { next = rmt.CalculateRootFromAppendPath(append([]byte{}, v...), st.AppendPath, st.Size) })
			if err := w.tr.Append(v); err != nil {
				t.Fatalf("Append: %v", err)
			}
			if p != nil {
				if f2Trigger(i) && strings.Contains(fmt.Sprint(p), "slice bounds out of range") && strings.Contains(stck, "rmt.intToBinary") && evid.R.KnownFinding(sigF2) {
					resync()
					run = 0
					continue
				}
				t.Fatalf("PANIC in chained CalculateRootFromAppendPath at size %d: %v\nleaves=%v\n%s", i, p, hxs(leaves[:i+1]), stck)
			}
			st = next
			if !bytes.Equal(st.Root, w.tr.Root()) || st.Size != w.tr.Size() {
				t.Fatalf("chained prediction diverges after %d appends: root %x/%x size %d/%d (predicted/real) leaves=%v",
					i+1, st.Root, w.tr.Root(), st.Size, w.tr.Size(), hxs(leaves[:i+1]))
			}
			if !m.Equal(st.AppendPath, w.tr.AppendPath()) {
				if f1Trigger(i) && m.Equal(st.AppendPath, f1Shape(oldPath, i, v)) && evid.R.KnownFinding(sigF1) {
					resync()
					run = 0
					continue
				}
				t.Fatalf("chained prediction diverges after %d appends: path %v/%v (predicted/real) leaves=%v",
					i+1, hxs(st.AppendPath), hxs(w.tr.AppendPath()), hxs(leaves[:i+1]))
			}
			run++
			if run > longest {
				longest = run
			}
		}
		if !bytes.Equal(st.Root, m.Root(leaves)) {
			t.Fatalf("chained prediction root %x, model %x leaves=%v", st.Root, m.Root(leaves), hxs(leaves))
		}
		lab := "chain=unbroken"
		if longest < n {
			lab = "chain=resynced-at-known-finding"
		}
		evid.R.Case(fmt.Sprintf("chain|%d|%x", n, st.Root), rootNontrivial(n), func() any {
			return map[string]any{"kind": "prediction-chain", "n": n, "longestUnbrokenRun": longest}
		}, "prediction-chain", sizeClass(n), lab)
	})
}
