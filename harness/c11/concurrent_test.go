package c11

import (
	"bytes"
	"fmt"
	"sync"
	"testing"

	"github.com/LiskHQ/lisk-engine/pkg/trie/rmt"

	"verifharness/evid"
	m "verifharness/model/rmt"
)

// The statement of C11 is about pure computations: roots, proofs and witnesses are functions of the leaf list. A node computes them
// from several goroutines at once (block validation, generation, RPC), always on trees that share nothing. Seeded change C11-w put
// a "last size" memo made of two separate atomics into the layer-structure helper: sequential use stays correct for every size,
// the race detector stays silent, and two goroutines working on trees of DIFFERENT sizes hand each other the wrong table (wrong
// sibling locations: proofs that do not verify, or an index panic).
// Oracle: whatever the interleaving, every goroutine must obtain exactly what the sequential model prescribes for its own tree -
// no correct implementation can fail this under any schedule, so the check can never raise a false alarm; what it finds depends
// on the scheduler (sizes differ between goroutines at every step, 8 goroutines, a few thousand tree operations).
func TestConcurrentIndependentTrees(t *testing.T) {
	const workers = 8
	rounds := evid.Scale(120)
	if evid.Thorough() {
		rounds = evid.Scale(1200)
	}
	var mu sync.Mutex
	var failures []string
	fail := func(format string, a ...any) {
		mu.Lock()
		if len(failures) < 5 {
			failures = append(failures, fmt.Sprintf(format, a...))
		}
		mu.Unlock()
	}
	var ops int64
	var wg sync.WaitGroup
	for w := 0; w < workers; w++ {
		w := w
		wg.Add(1)
		go func() {
			defer wg.Done()
			local := int64(0)
			for r := 0; r < rounds; r++ {
				// sizes differ between the workers in the same round and walk over powers of two and their neighbours
				n := 1 + (r*7+w*13)%70
				func() {
					defer func() {
						if p := recover(); p != nil {
							fail("worker %d, tree of %d leaves: panic: %v", w, n, p)
						}
					}()
					leaves := detLeaves(n)
					want := m.Root(leaves)
					if got := rmt.CalculateRoot(copyList(leaves)); !bytes.Equal(got, want) {
						fail("worker %d: CalculateRoot of %d leaves = %x, model %x", w, n, got, want)
					}
					tr := rmt.NewRegularMerkleTree(newMapDB())
					for _, v := range leaves {
						if err := tr.Append(v); err != nil {
							fail("worker %d: append: %v", w, err)
							return
						}
					}
					if !bytes.Equal(tr.Root(), want) {
						fail("worker %d: root of %d appended leaves = %x, model %x", w, n, tr.Root(), want)
					}
					// a proof for a spread-out subset
					var q [][]byte
					for p := (r + w) % 3; p < n; p += 1 + (r+w)%5 {
						q = append(q, m.LeafHash(leaves[p]))
					}
					if len(q) > 0 {
						pr, err := tr.GenerateProof(copyList(q))
						if err != nil {
							fail("worker %d: GenerateProof on %d leaves: %v", w, n, err)
						} else if !rmt.VerifyProof(copyList(q), pr, want) {
							fail("worker %d: proof for %d of %d leaves does not verify against the model root", w, len(q), n)
						}
					}
					i := uint64((r + w) % (n + 1))
					wit, err := tr.GenerateRightWitness(i)
					if err != nil {
						fail("worker %d: GenerateRightWitness(%d) on %d leaves: %v", w, i, n, err)
					} else if !rmt.VerifyRightWitness(i, m.AppendPath(leaves[:i]), wit, want) {
						fail("worker %d: right witness %d of %d leaves does not verify", w, i, n)
					}
					local += 4
				}()
			}
			mu.Lock()
			ops += local
			mu.Unlock()
		}()
	}
	wg.Wait()
	evid.R.Count(ops, "concurrent-independent-trees")
	evid.R.Note("concurrent independent trees: %d goroutines x %d rounds, %d tree computations compared with the sequential model", workers, rounds, ops)
	if len(failures) > 0 {
		p := evid.R.FailCase("concurrent-independent-trees", map[string]any{"workers": workers, "rounds": rounds, "failures": failures})
		t.Fatalf("computations on independent trees disagree with the model when run concurrently (they agree sequentially): %v\nreplay case: %s", failures, p)
	}
}
