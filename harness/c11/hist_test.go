package c11

// Histories of several Updates on ONE tree object in which leaf values RETURN to earlier values (A->B->A, A->B->C->A, two
// leaves swapping values, a leaf set to the value of another leaf, updates that change nothing), interleaved with proofs,
// right witnesses, reloads and further updates. After EVERY step the whole stored tree is read back through the tree's own
// read paths (an inclusion proof for every single leaf, a right witness for every position): a correct cached root must not
// hide stale stored nodes.
//
// Soundness with repeated values: GenerateProof addresses leaves by HASH. A position p is "strict" while no other position
// has ever held a value with the hash of its current value (then the tree's answer for that hash can only be p). For the other
// positions (swaps, duplicates) the answer of GenerateProof must verify whenever it names a position that holds the value
// now; an answer naming a position that held the value EARLIER is the documented limit of a hash-keyed index with repeated
// values (assumption "leaves distinct", DESIGN §4 C11) and is only counted (label obs:*). Update and GenerateRightWitness
// address nodes by index/position and are asserted strictly for every position.
//
// Appends after an Update, the append path after an Update and the right witness at index 0 (which IS the stored append path)
// stay excluded as everywhere in this check (Update does not refresh the append path; DESIGN §9.3 O5).

import (
	"bytes"
	"encoding/json"
	"fmt"
	"os"
	"testing"

	"github.com/LiskHQ/lisk-engine/pkg/trie/rmt"
	"pgregory.net/rapid"

	"verifharness/evid"
	m "verifharness/model/rmt"
)

// histStep is one replayable step of a history.
type histStep struct {
	Op    string   `json:"op"`             // update | proof | reload (continue on the re-opened object) | fresh (check a second, re-opened object)
	Pos   []int    `json:"pos,omitempty"`  // leaf positions (update, proof)
	Data  []string `json:"data,omitempty"` // update: new leaf values (hex), one per position
	Alias int      `json:"alias,omitempty"`
	Salt  int      `json:"salt,omitempty"`
	Note  string   `json:"note,omitempty"` // how the generator chose the values
}

// hist is a world plus the value history of every position.
type hist struct {
	*world
	everAt  map[string]map[int]bool // leaf hash -> every position that ever held a value with this hash
	stack   [][][]byte              // per position: the values it held before the current one (oldest first)
	touched []bool                  // position was named in an Update
	steps   []histStep              // executed so far (the last one is the one running)
	pool    [][]byte                // fresh values introduced by updates so far
	// summary of the history (for the case record)
	returns, noops, dups, swaps, untouchedProofs int
}

// histFatal adds the executed history to every failure message of the helpers of world.
type histFatal struct {
	inner  fataler
	h      *hist
	leaves func() []string
}

func (hf *histFatal) Fatalf(format string, a ...any) {
	msg := fmt.Sprintf(format, a...)
	if hf.h != nil {
		js, _ := json.Marshal(hf.h.steps)
		msg += fmt.Sprintf("\nHISTORY on one tree object (db=%s, %d leaves, the last step is the failing one): %s", hf.h.kind, len(hf.h.list), js)
		if hf.leaves != nil {
			js2, _ := json.Marshal(hf.leaves())
			msg += fmt.Sprintf("\nleaves before the first update: %s", js2)
		}
	}
	hf.inner.Fatalf("%s", msg)
}

func newHist(w *world) *hist {
	h := &hist{world: w, everAt: map[string]map[int]bool{}, stack: make([][][]byte, len(w.list)), touched: make([]bool, len(w.list))}
	for p, v := range w.list {
		h.hold(p, v)
	}
	return h
}

func (h *hist) hold(p int, v []byte) {
	k := string(m.LeafHash(v))
	if h.everAt[k] == nil {
		h.everAt[k] = map[int]bool{}
	}
	h.everAt[k][p] = true
}

// strict: no other position has ever held the current value of p.
func (h *hist) strict(p int) bool {
	s := h.everAt[string(m.LeafHash(h.list[p]))]
	return len(s) == 1 && s[p]
}

func (h *hist) holders(v []byte) []int {
	var out []int
	for p, x := range h.list {
		if bytes.Equal(x, v) {
			out = append(out, p)
		}
	}
	return out
}

// classify names what an update of position p to value v is in terms of the history (labels; nothing is decided by it).
func (h *hist) classify(p int, v []byte, s histStep) string {
	if bytes.Equal(h.list[p], v) {
		return "noop(value unchanged)"
	}
	st := h.stack[p]
	for i := len(st) - 1; i >= 0; i-- {
		if bytes.Equal(st[i], v) {
			if i == len(st)-1 {
				return "return(A-B-A)"
			}
			return "return(A-B-C-A)"
		}
	}
	if hs := h.holders(v); len(hs) > 0 {
		// swap: the other holder gets this position's current value in the same update
		data := unhxs(s.Data)
		for j, q := range s.Pos {
			if q != p && bytes.Equal(h.list[q], v) && bytes.Equal(data[j], h.list[p]) {
				return "swap(two leaves exchange values)"
			}
		}
		return "duplicate(value of another leaf)"
	}
	if len(h.everAt[string(m.LeafHash(v))]) > 0 {
		return "earlier-value-of-another-leaf"
	}
	return "fresh"
}

// apply executes one step and then the full oracle.
func (h *hist) apply(s histStep) {
	h.steps = append(h.steps, s)
	n := len(h.list)
	switch s.Op {
	case "update":
		data := unhxs(s.Data)
		if len(data) != len(s.Pos) || len(s.Pos) == 0 {
			h.f.Fatalf("harness: malformed update step %+v", s)
		}
		allStrict := true
		for j, p := range s.Pos {
			if p < 0 || p >= n {
				h.f.Fatalf("harness: update position %d out of range", p)
			}
			allStrict = allStrict && h.strict(p)
			kind := h.classify(p, data[j], s)
			evid.R.Label("hist-value="+kind, 1)
			switch kind[:4] {
			case "retu":
				h.returns++
			case "noop":
				h.noops++
			case "dupl":
				h.dups++
			case "swap":
				h.swaps++
			}
		}
		before := copyList(h.list)
		if allStrict && s.Salt%4 != 3 {
			// the statement's form: proof -> VerifyProof -> CalculateRootFromUpdateData = model root -> Update (with all the
			// argument discipline of checkUpdate)
			h.alias = s.Alias
			h.checkUpdate(s.Pos, data, nil)
			evid.R.Label("hist-update=through-a-generated-proof", 1)
		} else {
			h.updateByIndex(s.Pos, data)
			evid.R.Label("hist-update=by-index", 1)
		}
		for j, p := range s.Pos {
			h.touched[p] = true
			if !bytes.Equal(before[p], data[j]) {
				h.stack[p] = append(h.stack[p], before[p])
			}
			h.hold(p, data[j])
			if !bytes.Equal(h.list[p], data[j]) {
				h.f.Fatalf("harness: model list not updated at %d", p)
			}
		}
		evid.R.Label("hist-op=update", 1)
	case "proof":
		var pos []int
		for _, p := range s.Pos {
			if p >= 0 && p < n && h.strict(p) {
				pos = append(pos, p)
			}
		}
		pos = dedupe(pos)
		if len(pos) > 0 {
			h.alias = s.Alias
			h.checkProof(pos, []int{s.Salt % len(pos)}, s.Salt)
			unt := 0
			for _, p := range pos {
				if !h.touched[p] {
					unt++
				}
			}
			switch {
			case !h.updated:
				evid.R.Label("hist-proof-subset=before-any-update", 1)
			case unt == len(pos):
				evid.R.Label("hist-proof-subset=only-untouched-leaves-after-updates", 1)
			case unt == 0:
				evid.R.Label("hist-proof-subset=only-updated-leaves", 1)
			default:
				evid.R.Label("hist-proof-subset=updated-and-untouched-leaves", 1)
			}
		}
		evid.R.Label("hist-op=proof", 1)
	case "reload":
		if h.reloadChecked() {
			evid.R.Label("hist-op=reload(continue on the re-opened object)", 1)
		}
	case "fresh":
		if t2 := h.reopen(); t2 != nil {
			h.sweep(t2, "a second tree object opened from the same store")
			evid.R.Label("hist-op=reload(second object, first one continues)", 1)
		}
	default:
		h.f.Fatalf("harness: unknown step %q", s.Op)
	}
	h.oracle()
}

// updateByIndex: Update addressed by LIP-0031 leaf indexes (no hash lookup involved); root and size against the model.
func (h *hist) updateByIndex(pos []int, data [][]byte) {
	n := len(h.list)
	idxs := make([]uint64, len(pos))
	mod := copyList(h.list)
	for j, p := range pos {
		idxs[j] = m.LeafIndex(n, p)
		mod[p] = append([]byte{}, data[j]...)
	}
	want := m.Root(mod)
	c := func() string {
		return fmt.Sprintf("Update by index, positions %v data %v\n%s", pos, hxs(data), h.ctx())
	}
	dArg := copyList(data)
	g := newGuard(h.f, c)
	g.idxs("idxs", idxs)
	g.list("updateData", dArg)
	var err error
	must(h.f, "Update", c, func() { err = h.tr.Update(idxs, dArg) })
	g.verify("Update")
	if err != nil {
		h.f.Fatalf("Update(%v): %v\n%s", idxs, err, c())
	}
	if !bytes.Equal(h.tr.Root(), want) {
		h.f.Fatalf("Root() after Update(%v) = %x, model root of the modified list = %x\n%s", idxs, h.tr.Root(), want, c())
	}
	if h.tr.Size() != uint64(n) {
		h.f.Fatalf("Size() after Update = %d, want %d\n%s", h.tr.Size(), n, c())
	}
	scribble(dArg...)
	h.list, h.rootOf, h.updated = mod, nil, true
}

// reopen opens a second tree object from the store and compares root, size and append path with the live object.
func (h *hist) reopen() *rmt.RegularMerkleTree {
	var t2 *rmt.RegularMerkleTree
	var err error
	if len(h.list) == 0 {
		// refused on the unchanged tree; if a tree object is handed out it must be the empty tree (see reloadChecked)
		must(h.f, "NewRegularMerkleTreeWithPastData", h.ctx, func() { t2, err = rmt.NewRegularMerkleTreeWithPastData(h.db) })
		if err == nil && (!bytes.Equal(t2.Root(), h.modelRoot()) || t2.Size() != 0) {
			h.f.Fatalf("reload of a never-written tree succeeded with root %x size %d, model root of the empty list %x\n%s", t2.Root(), t2.Size(), h.modelRoot(), h.ctx())
		}
		return nil
	}
	must(h.f, "NewRegularMerkleTreeWithPastData", h.ctx, func() { t2, err = rmt.NewRegularMerkleTreeWithPastData(h.db) })
	if err != nil {
		h.f.Fatalf("reload at size %d: %v\n%s", len(h.list), err, h.ctx())
	}
	if !bytes.Equal(t2.Root(), h.tr.Root()) || t2.Size() != h.tr.Size() || !m.Equal(t2.AppendPath(), h.tr.AppendPath()) {
		h.f.Fatalf("reload at size %d: root %x/%x size %d/%d path %v/%v (reloaded/live)\n%s", len(h.list), t2.Root(), h.tr.Root(), t2.Size(), h.tr.Size(),
			hxs(t2.AppendPath()), hxs(h.tr.AppendPath()), h.ctx())
	}
	if !bytes.Equal(t2.Root(), h.modelRoot()) {
		h.f.Fatalf("reload at size %d: stored root %x, model root %x\n%s", len(h.list), t2.Root(), h.modelRoot(), h.ctx())
	}
	return t2
}

// oracle: everything the statement says about the current tree, after every step.
func (h *hist) oracle() {
	h.checkState() // Root() = CalculateRoot(list) = model root, Size(); append path while no Update happened
	h.sweep(h.tr, "the live tree object")
	h.reopen() // the store holds the same root / size / append path
}

// prefixPaths returns the append path (perfect-subtree roots, smallest first) of every prefix list[:i], i = 0..n, in one pass.
func prefixPaths(list [][]byte) [][][]byte {
	type sub struct {
		h    []byte
		size int
	}
	out := make([][][]byte, len(list)+1)
	out[0] = [][]byte{}
	var st []sub
	for i, v := range list {
		st = append(st, sub{m.LeafHash(v), 1})
		for len(st) >= 2 && st[len(st)-1].size == st[len(st)-2].size {
			a, b := st[len(st)-2], st[len(st)-1]
			st = append(st[:len(st)-2:len(st)-2], sub{m.BranchHash(a.h, b.h), 2 * a.size})
		}
		p := make([][]byte, len(st))
		for j := range st {
			p[j] = st[len(st)-1-j].h
		}
		out[i+1] = p
	}
	return out
}

// sweep reads the whole stored tree back through tr: an inclusion proof for every single leaf and a right witness for every
// position must agree with the model root (= Root(), asserted by checkState).
func (h *hist) sweep(tr *rmt.RegularMerkleTree, which string) {
	n := len(h.list)
	root := h.modelRoot()
	if !bytes.Equal(tr.Root(), root) || tr.Size() != uint64(n) {
		h.f.Fatalf("%s: Root()/Size() = %x/%d, model %x/%d\n%s", which, tr.Root(), tr.Size(), root, n, h.ctx())
	}
	for p := 0; p < n; p++ {
		q := [][]byte{m.LeafHash(h.list[p])}
		c := func() string {
			return fmt.Sprintf("%s: single-leaf proof of position %d (named in an update before: %v; any update before: %v)\n%s", which, p, h.touched[p], h.updated, h.ctx())
		}
		var proof *rmt.Proof
		var err error
		must(h.f, "GenerateProof", c, func() { proof, err = tr.GenerateProof(copyList(q)) })
		if err != nil {
			h.f.Fatalf("GenerateProof: %v\n%s", err, c())
		}
		if proof.Size != uint64(n) || len(proof.Idxs) != 1 {
			h.f.Fatalf("GenerateProof: size %d idxs %v, want size %d and one index\n%s", proof.Size, proof.Idxs, n, c())
		}
		if proof.Idxs[0] != m.LeafIndex(n, p) {
			if h.strict(p) {
				h.f.Fatalf("GenerateProof: idxs %v, want [%d] (LIP-0031 index of leaf %d; no other position ever held this value)\n%s", proof.Idxs, m.LeafIndex(n, p), p, c())
			}
			// the value is or was held by other positions as well: the hash-keyed index names one of them
			named := -1
			for o := range h.everAt[string(q[0])] {
				if proof.Idxs[0] == m.LeafIndex(n, o) {
					named = o
				}
			}
			if named < 0 {
				h.f.Fatalf("GenerateProof: idxs %v is not the index of any position that ever held this value (%v)\n%s", proof.Idxs, h.everAt[string(q[0])], c())
			}
			if !bytes.Equal(h.list[named], h.list[p]) {
				// names a position that held the value earlier and holds another one now: hash-keyed index + repeated
				// values (outside the assumption "leaves distinct"); not asserted
				evid.R.Label("obs:repeated-value:hash-index-names-an-earlier-holder(not asserted)", 1)
				continue
			}
			evid.R.Label("hist-proof=repeated-value-answered-with-another-current-holder", 1)
		}
		var ok bool
		must(h.f, "VerifyProof", c, func() { ok = rmt.VerifyProof(copyList(q), proof, append([]byte{}, root...)) })
		if !ok {
			h.f.Fatalf("STORED NODES INCONSISTENT with Root(): the inclusion proof the tree generates for leaf %d does not verify against the tree's own root %x (= model root); idxs=%v siblings=%v\n%s",
				p, root, proof.Idxs, hxs(proof.SiblingHashes), c())
		}
		switch {
		case !h.updated:
			evid.R.Label("hist-proof=single-leaf-before-any-update", 1)
		case h.touched[p]:
			evid.R.Label("hist-proof=single-updated-leaf-after-updates", 1)
		default:
			evid.R.Label("hist-proof=single-untouched-leaf-after-updates", 1)
			h.untouchedProofs++
		}
	}
	// right witnesses at every position (index 0 returns the stored append path: only while no Update happened)
	paths := prefixPaths(h.list)
	for _, i := range []int{n, n / 2} { // the one-pass helper against the recursive model
		if !m.Equal(paths[i], m.AppendPath(h.list[:i])) {
			h.f.Fatalf("harness: prefixPaths[%d] differs from the model append path", i)
		}
	}
	first := 1
	if !h.updated {
		first = 0
	}
	if n == 0 {
		return
	}
	for i := first; i <= n; i++ {
		c := func() string { return fmt.Sprintf("%s: right witness at index %d\n%s", which, i, h.ctx()) }
		var wit [][]byte
		var err error
		must(h.f, "GenerateRightWitness", c, func() { wit, err = tr.GenerateRightWitness(uint64(i)) })
		if err != nil {
			h.f.Fatalf("GenerateRightWitness(%d): %v\n%s", i, err, c())
		}
		var ok bool
		var calc []byte
		must(h.f, "VerifyRightWitness", c, func() {
			ok = rmt.VerifyRightWitness(uint64(i), copyList(paths[i]), copyList(wit), append([]byte{}, root...))
		})
		must(h.f, "CalculateRootFromRightWitness", c, func() { calc = rmt.CalculateRootFromRightWitness(uint64(i), copyList(paths[i]), copyList(wit)) })
		if !ok || !bytes.Equal(calc, root) {
			h.f.Fatalf("STORED NODES INCONSISTENT with Root(): append path of the first %d leaves + the right witness the tree generates at %d reconstruct %x (VerifyRightWitness=%v), the tree's root is %x (= model root); witness=%v\n%s",
				i, i, calc, ok, root, hxs(wit), c())
		}
		if h.updated {
			evid.R.Label("hist-witness=after-updates", 1)
		} else {
			evid.R.Label("hist-witness=before-any-update", 1)
		}
	}
}

func (h *hist) record(kind, key string, extra ...string) {
	n := len(h.list)
	nUpd := 0
	for _, s := range h.steps {
		if s.Op == "update" {
			nUpd++
		}
	}
	labels := append([]string{kind, sizeClass(n), "db=" + h.kind}, extra...)
	if h.returns > 0 {
		labels = append(labels, "history-with-returning-value")
	}
	if h.untouchedProofs > 0 {
		labels = append(labels, "history-with-proofs-of-untouched-leaves-after-updates")
	}
	if h.swaps > 0 || h.dups > 0 {
		labels = append(labels, "history-with-repeated-values")
	}
	if h.noops > 0 {
		labels = append(labels, "history-with-noop-update")
	}
	steps, returns, noops, dups, swaps := len(h.steps), h.returns, h.noops, h.dups, h.swaps
	// non-trivial: a list length the rule of the property calls non-trivial, at least one value returning to an earlier one
	// and the proof of at least one leaf no update named checked after it
	evid.R.Case(key, rootNontrivial(n) && h.returns > 0 && h.untouchedProofs > 0, func() any {
		return map[string]any{"kind": kind, "n": n, "db": h.kind, "steps": steps, "updates": nUpd, "returningValues": returns, "noopValues": noops,
			"duplicateValues": dups, "swappedValues": swaps}
	}, labels...)
}

// runHistory replays a recorded history (TestReplayCase, op "history").
func runHistory(f fataler, kind string, leaves [][]byte, steps []histStep) {
	hf := &histFatal{inner: f}
	w := buildWorld(hf, kind, leaves, len(leaves) <= 64)
	defer w.close()
	h := newHist(w)
	hf.h = h
	h.oracle()
	for _, s := range steps {
		h.apply(s)
	}
}

// ---------------------------------------------------------------------------------------------------------------------
// enumeration: for every size and target leaf the basic returning patterns, each on a fresh copy of the storage

func histValue(n, t, k int) []byte { return newLeaf(n, 5000+k, t) }

// returningPatterns: step lists for target leaf t of the deterministic list of n leaves (o = another leaf).
func returningPatterns(n, t int, leaves [][]byte) map[string][]histStep {
	a := leaves[t]
	b, c, d := histValue(n, t, 1), histValue(n, t, 2), histValue(n, t, 3)
	up := func(note string, pos []int, vals ...[]byte) histStep {
		return histStep{Op: "update", Pos: pos, Data: hxs(vals), Note: note, Alias: (n + t) % 6, Salt: n + t}
	}
	out := map[string][]histStep{}
	out["noop"] = []histStep{up("same value", []int{t}, a), up("A->B", []int{t}, b), up("same value", []int{t}, b), up("B->A", []int{t}, a)}
	out["aba"] = []histStep{up("A->B", []int{t}, b), up("B->A", []int{t}, a)}
	out["abca"] = []histStep{up("A->B", []int{t}, b), up("B->C", []int{t}, c), {Op: "fresh"}, up("C->A", []int{t}, a), up("A->C", []int{t}, c)}
	out["aba-reload"] = []histStep{up("A->B", []int{t}, b), {Op: "reload"}, up("B->A", []int{t}, a), {Op: "fresh"}}
	if n >= 2 {
		o := (t + 1) % n
		k := m.Split(n)
		far := (t + k) % n // usually below the other child of the root
		if far == t {
			far = o
		}
		out["aba"] = append(out["aba"], up("other leaf -> D", []int{o}, d), up("other leaf back", []int{o}, leaves[o]))
		out["swap"] = []histStep{up("swap", []int{t, far}, leaves[far], a), {Op: "proof", Pos: []int{o, t, far}, Salt: t}, up("swap back", []int{far, t}, leaves[far], a)}
		out["dup"] = []histStep{up("value of another leaf", []int{t}, leaves[far]), up("back", []int{t}, a), up("other leaf -> D", []int{far}, d), up("other leaf back", []int{far}, leaves[far])}
		out["multi"] = []histStep{up("A->B, O->D", []int{far, t}, d, b), up("both back", []int{t, far}, a, leaves[far]), up("A->B alone", []int{t}, b), up("O->D alone", []int{far}, d),
			up("both back in one update", []int{far, t}, leaves[far], a)}
	}
	return out
}

var patternNames = []string{"aba", "abca", "noop", "aba-reload", "swap", "dup", "multi"}

func TestReturningUpdatesExhaustive(t *testing.T) {
	if replaying() {
		t.Skip()
	}
	t.Parallel() // independent worlds; runs next to the other enumerations
	N := 40
	if evid.Thorough() {
		N = evid.Scale(260)
	}
	shard, shards := shardInfo()
	leaves := detLeaves(N)
	var spec caseSpec
	f := recFatal{t, func() caseSpec { return spec }}
	base := newWorld(f, "map")
	for n := 1; n <= N; n++ {
		spec = caseSpec{Op: "grow", DB: "map", Leaves: hxs(leaves[:n])}
		base.appendChecked(leaves[n-1])
		if n%shards != shard {
			continue
		}
		var targets []int
		if n <= 16 {
			for i := 0; i < n; i++ {
				targets = append(targets, i)
			}
		} else {
			k := m.Split(n)
			targets = dedupe([]int{0, 1, k - 1, k, n - 2, n - 1, n / 3, (n * 5 / 7)})
		}
		for ti, tg := range targets {
			pats := returningPatterns(n, tg, leaves[:n])
			for pi, name := range patternNames {
				steps, ok := pats[name]
				// "aba" for every target; the others in turn (all of them for the small sizes)
				if !ok || (name != "aba" && n > 12 && (n+ti+pi)%3 != 0) {
					continue
				}
				var h *hist
				spec = caseSpec{Op: "history", DB: "map", Leaves: hxs(leaves[:n])}
				hf := recFatal{t, func() caseSpec {
					s := spec
					if h != nil {
						s.Steps = h.steps
					}
					return s
				}}
				// fresh copy of the storage, opened the way a restarted process would do it
				var w *world
				cl := base.db.(*mapDB).clone()
				t2, err := rmt.NewRegularMerkleTreeWithPastData(cl)
				if err != nil {
					hf.Fatalf("reload of a storage copy at size %d: %v", n, err)
				}
				w = &world{f: hf, kind: "map", db: cl, closer: func() {}, tr: t2, list: copyList(base.list)}
				h = newHist(w)
				for _, s := range steps {
					h.apply(s)
				}
				h.record("returning-updates-exhaustive", fmt.Sprintf("ret|%d|%d|%s", n, tg, name), "pattern="+name)
			}
		}
	}
}

// ---------------------------------------------------------------------------------------------------------------------
// rapid: generated histories

func drawHistSize(t *rapid.T) int {
	switch rapid.IntRange(0, 9).Draw(t, "n-class") {
	case 0, 1, 2, 3:
		return rapid.IntRange(1, 12).Draw(t, "n")
	case 4, 5:
		return rapid.IntRange(1, 70).Draw(t, "n")
	case 6:
		return rapid.IntRange(1, 300).Draw(t, "n")
	default:
		k := rapid.IntRange(2, 8).Draw(t, "n-exp")
		n := (1 << uint(k)) + rapid.IntRange(-3, 3).Draw(t, "n-delta")
		if n < 1 {
			n = 1
		}
		return n
	}
}

// drawUpdate draws one update step against the current state of the history.
func drawUpdate(t *rapid.T, h *hist, hot []int, salt uint64, counter *int) histStep {
	n := len(h.list)
	s := histStep{Op: "update", Alias: rapid.IntRange(0, 5).Draw(t, "alias"), Salt: rapid.IntRange(0, 255).Draw(t, "salt")}
	drawPos := func() int {
		if rapid.IntRange(0, 9).Draw(t, "hot") < 6 {
			return rapid.SampledFrom(hot).Draw(t, "hotPos")
		}
		return rapid.IntRange(0, n-1).Draw(t, "pos")
	}
	if n >= 2 && rapid.IntRange(0, 9).Draw(t, "swap") == 0 {
		p, q := drawPos(), drawPos()
		if p == q {
			q = (p + 1 + rapid.IntRange(0, n-2).Draw(t, "swapWith")) % n
		}
		s.Pos, s.Data, s.Note = []int{p, q}, hxs([][]byte{h.list[q], h.list[p]}), "swap"
		return s
	}
	k := 1
	switch rapid.IntRange(0, 7).Draw(t, "nPos") {
	case 4, 5:
		k = 2
	case 6:
		k = rapid.IntRange(2, 6).Draw(t, "k")
	case 7:
		if rapid.Bool().Draw(t, "allLeaves") && n <= 64 {
			k = n
		} else {
			k = rapid.IntRange(1, 12).Draw(t, "k")
		}
	}
	if k > n {
		k = n
	}
	seen := map[int]bool{}
	for tries := 0; len(s.Pos) < k && tries < 4*k+8; tries++ {
		p := drawPos()
		if k == n {
			p = len(s.Pos)
		}
		if !seen[p] {
			seen[p] = true
			s.Pos = append(s.Pos, p)
		}
	}
	if k == n && n > 1 && rapid.Bool().Draw(t, "reverseAll") {
		s.Pos = reversed(s.Pos)
	}
	var vals [][]byte
	for _, p := range s.Pos {
		var v []byte
		src := rapid.SampledFrom([]string{"previous", "previous", "previous", "previous", "first", "first", "earlier", "same", "other-leaf", "fresh", "fresh", "fresh", "pool"}).Draw(t, "valueSource")
		st := h.stack[p]
		switch {
		case src == "previous" && len(st) > 0:
			v = st[len(st)-1]
		case src == "first" && len(st) > 0:
			v = st[0]
		case src == "earlier" && len(st) > 0:
			v = st[rapid.IntRange(0, len(st)-1).Draw(t, "earlierValue")]
		case src == "same":
			v = h.list[p]
		case src == "other-leaf" && n >= 2:
			v = h.list[(p+1+rapid.IntRange(0, n-2).Draw(t, "otherLeaf"))%n]
		case src == "pool" && len(h.pool) > 0:
			v = rapid.SampledFrom(h.pool).Draw(t, "poolValue")
		default:
			src = "fresh"
			*counter++
			v = updLeaf(salt, *counter)
			if rapid.IntRange(0, 9).Draw(t, "shortNew") == 0 {
				v = v[:rapid.IntRange(0, 31).Draw(t, "newLen")]
			}
			h.pool = append(h.pool, v)
		}
		vals = append(vals, v)
		s.Note += src + " "
	}
	s.Data = hxs(vals)
	return s
}

func TestUpdateHistories(t *testing.T) {
	if os.Getenv("VERIF_REPLAY_CASE") != "" {
		t.Skip()
	}
	if os.Getenv("VERIF_REPLAY") == "" {
		t.Parallel()
	}
	rapid.Check(t, func(t *rapid.T) {
		n := drawHistSize(t)
		leaves, style := drawLeaves(t, n)
		kind := rapid.SampledFrom([]string{"map", "map", "pebble"}).Draw(t, "db")
		hf := &histFatal{inner: t, leaves: func() []string { return hxs(leaves) }}
		w := newWorld(hf, kind)
		defer w.close()
		w.aliasGrow = rapid.IntRange(0, 5).Draw(t, "aliasGrow")
		w.scratchAppend = rapid.Bool().Draw(t, "scratchAppend")
		for _, v := range leaves {
			w.appendChecked(v)
		}
		h := newHist(w)
		hf.h = h
		h.oracle()
		// a few positions most updates go to (values come back where updates meet again)
		var hot []int
		for i, k := 0, rapid.IntRange(1, 3).Draw(t, "hotCount"); i < k; i++ {
			hot = append(hot, rapid.IntRange(0, n-1).Draw(t, "hotLeaf"))
		}
		salt := rapid.Uint64().Draw(t, "valueSeed")
		counter := 0
		nSteps := rapid.IntRange(2, 12).Draw(t, "steps")
		for i := 0; i < nSteps; i++ {
			var s histStep
			switch op := rapid.IntRange(0, 9).Draw(t, "op"); {
			case op <= 5:
				s = drawUpdate(t, h, hot, salt, &counter)
			case op <= 7:
				s = histStep{Op: "proof", Pos: drawSubset(t, n), Alias: rapid.IntRange(0, 5).Draw(t, "alias"), Salt: rapid.IntRange(0, 255).Draw(t, "salt")}
				if len(s.Pos) > 64 {
					s.Pos = s.Pos[:64]
				}
			case op == 8:
				s = histStep{Op: "reload"}
			default:
				s = histStep{Op: "fresh"}
			}
			h.apply(s)
		}
		js, _ := json.Marshal(h.steps)
		h.record("update-history", fmt.Sprintf("hist|%d|%s|%s|%x|%s", n, kind, style, m.Root(leaves), js), "leaves="+style, magnitude(n))
	})
}
