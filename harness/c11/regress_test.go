package c11

import (
	"bytes"
	"fmt"
	"strings"
	"testing"

	"github.com/LiskHQ/lisk-engine/pkg/trie/rmt"

	"verifharness/evid"
	m "verifharness/model/rmt"
)

// Minimal reproductions of the C11 findings. While a finding is listed as "known" the reproduction is expected to show the
// defect (KNOWN-FINDING line, test skipped); once the entry is flipped to "fixed" the same input must pass.

func knownOrFail(t *testing.T, sig, format string, a ...any) {
	t.Helper()
	if evid.R.KnownFinding(sig) {
		t.Skipf("known finding reproduced: "+format, a...)
	}
	t.Fatalf(format, a...)
}

// C11-F1: size 2 (binary 10): predicted append path must be [leafHash(c), H(a,b)].
func TestRegressAppendPathPrediction(t *testing.T) {
	for _, n := range []int{2, 4, 5, 6, 11} {
		leaves := detLeaves(n + 1)
		tr := rmt.NewRegularMerkleTree(newMapDB())
		for _, v := range leaves[:n] {
			if err := tr.Append(v); err != nil {
				t.Fatal(err)
			}
		}
		pred := rmt.CalculateRootFromAppendPath(leaves[n], tr.AppendPath(), uint64(n))
		want := m.AppendPath(leaves)
		if !bytes.Equal(pred.Root, m.Root(leaves)) || pred.Size != uint64(n+1) {
			t.Fatalf("size %d: predicted root/size %x/%d, want %x/%d", n, pred.Root, pred.Size, m.Root(leaves), n+1)
		}
		if !m.Equal(pred.AppendPath, want) {
			knownOrFail(t, sigF1, "size %d: predicted append path %v, want %v", n, hxs(pred.AppendPath), hxs(want))
		}
	}
}

// C11-F2: sizes 0 and 257 must not panic and must predict the real append.
func TestRegressAppendPredictionSizes(t *testing.T) {
	for _, n := range []int{0, 257, 511, 65537} {
		leaves := seedLeaves(7, n+1, "id32")
		path := m.AppendPath(leaves[:n])
		var pred *rmt.RootWithAppendPath
		p, st := try(func() { pred = rmt.CalculateRootFromAppendPath(leaves[n], path, uint64(n)) })
		if p != nil {
			if strings.Contains(st, "rmt.intToBinary") {
				knownOrFail(t, sigF2, "size %d: panic %v", n, p)
			}
			t.Fatalf("size %d: panic %v\n%s", n, p, st)
		}
		if !bytes.Equal(pred.Root, m.Root(leaves)) || pred.Size != uint64(n+1) {
			t.Fatalf("size %d: predicted root/size %x/%d, want %x/%d", n, pred.Root, pred.Size, m.Root(leaves), n+1)
		}
	}
}

// C11-F3: the empty tree's right witness at index 0 reconstructs the empty root.
func TestRegressEmptyTreeRightWitness(t *testing.T) {
	tr := rmt.NewRegularMerkleTree(newMapDB())
	wit, err := tr.GenerateRightWitness(0)
	if err != nil {
		t.Fatal(err)
	}
	var ok bool
	p, _ := try(func() { ok = rmt.VerifyRightWitness(0, tr.AppendPath(), wit, tr.Root()) })
	if p != nil {
		knownOrFail(t, sigF3, "VerifyRightWitness(0, [], [], emptyRoot) panics: %v", p)
	}
	if !ok {
		t.Fatalf("VerifyRightWitness(0, [], %v, %x) = false", hxs(wit), tr.Root())
	}
	if !bytes.Equal(tr.Root(), m.EmptyHash()) {
		t.Fatalf("empty root %x", tr.Root())
	}
}

// C11-F4: a one-leaf tree can be reloaded from its storage.
func TestRegressReloadSingleLeaf(t *testing.T) {
	for _, kind := range []string{"map", "pebble"} {
		d, cl := openDB(t, kind)
		tr := rmt.NewRegularMerkleTree(d)
		if err := tr.Append([]byte("only leaf")); err != nil {
			t.Fatal(err)
		}
		t2, err := rmt.NewRegularMerkleTreeWithPastData(d)
		if err != nil {
			cl()
			knownOrFail(t, sigF4, "reload of a one-leaf tree (%s): %v", kind, err)
		}
		if !bytes.Equal(t2.Root(), tr.Root()) || t2.Size() != 1 || !m.Equal(t2.AppendPath(), tr.AppendPath()) {
			t.Fatalf("reloaded one-leaf tree differs: %s", fmt.Sprint(hx(t2.Root()), t2.Size(), hxs(t2.AppendPath())))
		}
		if err := t2.Append([]byte("second")); err != nil {
			t.Fatal(err)
		}
		if !bytes.Equal(t2.Root(), m.Root([][]byte{[]byte("only leaf"), []byte("second")})) {
			t.Fatalf("root after reload+append wrong")
		}
		cl()
	}
}

// C11-F5: hash arguments that are sub-slices of one buffer (spare capacity up to the end of the buffer) must give the same
// answers as independent slices and must not be overwritten. Minimal: 3 leaves a,b,c.
func TestRegressHashArgumentsInOneBuffer(t *testing.T) {
	leaves := detLeaves(3)
	tr := rmt.NewRegularMerkleTree(newMapDB())
	for _, v := range leaves {
		if err := tr.Append(v); err != nil {
			t.Fatal(err)
		}
	}
	root := m.Root(leaves)
	// proof for leaf 1: siblings [leafHash(a), leafHash(c)]
	q := [][]byte{m.LeafHash(leaves[1])}
	proof, err := tr.GenerateProof(copyList(q))
	if err != nil || len(proof.SiblingHashes) != 2 {
		t.Fatalf("GenerateProof: %v %v", proof, err)
	}
	a := buildAlias("spare", [][][]byte{proof.SiblingHashes}, proof.Idxs)
	ok := rmt.VerifyProof(copyList(q), &rmt.Proof{Size: 3, Idxs: a.idxs, SiblingHashes: a.lists[0]}, root)
	if !ok || !bytes.Equal(a.buf, a.buf0) {
		knownOrFail(t, sigF5, "VerifyProof with SiblingHashes = [buf[0:32], buf[32:64]] of one buffer: result %v (want true), buffer before %x after %x", ok, a.buf0, a.buf)
	}
	// update root through the same layout
	nd := [][]byte{[]byte("new b")}
	want := m.Root([][]byte{leaves[0], nd[0], leaves[2]})
	a = buildAlias("spare", [][][]byte{proof.SiblingHashes}, proof.Idxs)
	got, err := rmt.CalculateRootFromUpdateData(nd, &rmt.Proof{Size: 3, Idxs: a.idxs, SiblingHashes: a.lists[0]})
	if err != nil || !bytes.Equal(got, want) || !bytes.Equal(a.buf, a.buf0) {
		knownOrFail(t, sigF5, "CalculateRootFromUpdateData with SiblingHashes in one buffer: %x (%v), want %x; buffer before %x after %x", got, err, want, a.buf0, a.buf)
	}
	// append path [leafHash(c), H(a,b)] in one buffer: prediction of the append of d
	a = buildAlias("spare", [][][]byte{tr.AppendPath()}, nil)
	pred := rmt.CalculateRootFromAppendPath([]byte("d"), a.lists[0], 3)
	if wantR := m.Root(append(copyList(leaves), []byte("d"))); !bytes.Equal(pred.Root, wantR) || !bytes.Equal(a.buf, a.buf0) {
		knownOrFail(t, sigF5, "CalculateRootFromAppendPath with the append path in one buffer: root %x, want %x; buffer before %x after %x", pred.Root, wantR, a.buf0, a.buf)
	}
	// right witness at index 1: append path of [a] and witness [leafHash(b), leafHash(c)] in one buffer
	wit, err := tr.GenerateRightWitness(1)
	if err != nil {
		t.Fatal(err)
	}
	a = buildAlias("spare", [][][]byte{m.AppendPath(leaves[:1]), copyList(wit)}, nil)
	if ok := rmt.VerifyRightWitness(1, a.lists[0], a.lists[1], root); !ok || !bytes.Equal(a.buf, a.buf0) {
		knownOrFail(t, sigF5, "VerifyRightWitness with append path and witness in one buffer: %v (want true); buffer before %x after %x", ok, a.buf0, a.buf)
	}
}

// Argument immutability of the shared path computation (seeded change class: working on the caller's index slice): a proof
// queried in a non-ascending order is used for several calls; its index list must stay as generated and every use must agree
// with fresh copies.
func TestRegressProofObjectReuse(t *testing.T) {
	n := 11
	leaves := detLeaves(n)
	tr := rmt.NewRegularMerkleTree(newMapDB())
	for _, v := range leaves {
		if err := tr.Append(v); err != nil {
			t.Fatal(err)
		}
	}
	root := m.Root(leaves)
	pos := []int{5, 2, 7, 0}
	q := make([][]byte, len(pos))
	nd := make([][]byte, len(pos))
	mod := copyList(leaves)
	for j, p := range pos {
		q[j] = m.LeafHash(leaves[p])
		nd[j] = newLeaf(n, 0, j)
		mod[p] = nd[j]
	}
	proof, err := tr.GenerateProof(q)
	if err != nil {
		t.Fatal(err)
	}
	ref := cloneProof(proof)
	for use := 1; use <= 2; use++ {
		if !rmt.VerifyProof(q, proof, root) {
			t.Fatalf("use %d of the same proof object: VerifyProof = false (idxs now %v, generated %v)", use, proof.Idxs, ref.Idxs)
		}
		if fmt.Sprint(proof.Idxs) != fmt.Sprint(ref.Idxs) {
			t.Fatalf("VerifyProof changed proof.Idxs: generated %v, now %v", ref.Idxs, proof.Idxs)
		}
	}
	got, err := rmt.CalculateRootFromUpdateData(nd, proof)
	if err != nil || !bytes.Equal(got, m.Root(mod)) {
		t.Fatalf("CalculateRootFromUpdateData through the verified proof object = %x (%v), root of the modified list = %x", got, err, m.Root(mod))
	}
	if err := tr.Update(proof.Idxs, nd); err != nil || !bytes.Equal(tr.Root(), m.Root(mod)) {
		t.Fatalf("Update(proof.Idxs) = %x (%v), root of the modified list = %x", tr.Root(), err, m.Root(mod))
	}
	if fmt.Sprint(proof.Idxs) != fmt.Sprint(ref.Idxs) {
		t.Fatalf("proof.Idxs changed: generated %v, now %v", ref.Idxs, proof.Idxs)
	}
}
