package c11

import (
	"bytes"
	"fmt"
	"strings"
	"testing"

	"github.com/LiskHQ/lisk-engine/pkg/trie/rmt"

	"verifharness/evid"
	m "verifharness/model/rmt"
)

// Minimal reproductions of the C11 findings. While a finding is listed as "known" the reproduction is expected to show the
// defect (KNOWN-FINDING line, test skipped); once the entry is flipped to "fixed" the same input must pass.

func knownOrFail(t *testing.T, sig, format string, a ...any) {
	t.Helper()
	if evid.R.KnownFinding(sig) {
		t.Skipf("known finding reproduced: "+format, a...)
	}
	t.Fatalf(format, a...)
}

// C11-F1: size 2 (binary 10): predicted append path must be [leafHash(c), H(a,b)].
func TestRegressAppendPathPrediction(t *testing.T) {
	for _, n := range []int{2, 4, 5, 6, 11} {
		leaves := detLeaves(n + 1)
		tr := rmt.NewRegularMerkleTree(newMapDB())
		for _, v := range leaves[:n] {
			if err := tr.Append(v); err != nil {
				t.Fatal(err)
			}
		}
		pred := rmt.CalculateRootFromAppendPath(leaves[n], tr.AppendPath(), uint64(n))
		want := m.AppendPath(leaves)
		if !bytes.Equal(pred.Root, m.Root(leaves)) || pred.Size != uint64(n+1) {
			t.Fatalf("size %d: predicted root/size %x/%d, want %x/%d", n, pred.Root, pred.Size, m.Root(leaves), n+1)
		}
		if !m.Equal(pred.AppendPath, want) {
			knownOrFail(t, sigF1, "size %d: predicted append path %v, want %v", n, hxs(pred.AppendPath), hxs(want))
		}
	}
}

// C11-F2: sizes 0 and 257 must not panic and must predict the real append.
func TestRegressAppendPredictionSizes(t *testing.T) {
	for _, n := range []int{0, 257, 511, 65537} {
		leaves := seedLeaves(7, n+1, "id32")
		path := m.AppendPath(leaves[:n])
		var pred *rmt.RootWithAppendPath
		p, st := try(func() { pred = rmt.CalculateRootFromAppendPath(leaves[n], path, uint64(n)) })
		if p != nil {
			if strings.Contains(st, "rmt.intToBinary") {
				knownOrFail(t, sigF2, "size %d: panic %v", n, p)
			}
			t.Fatalf("size %d: panic %v\n%s", n, p, st)
		}
		if !bytes.Equal(pred.Root, m.Root(leaves)) || pred.Size != uint64(n+1) {
			t.Fatalf("size %d: predicted root/size %x/%d, want %x/%d", n, pred.Root, pred.Size, m.Root(leaves), n+1)
		}
	}
}

// C11-F3: the empty tree's right witness at index 0 reconstructs the empty root.
func TestRegressEmptyTreeRightWitness(t *testing.T) {
	tr := rmt.NewRegularMerkleTree(newMapDB())
	wit, err := tr.GenerateRightWitness(0)
	if err != nil {
		t.Fatal(err)
	}
	var ok bool
	p, _ := try(func() { ok = rmt.VerifyRightWitness(0, tr.AppendPath(), wit, tr.Root()) })
	if p != nil {
		knownOrFail(t, sigF3, "VerifyRightWitness(0, [], [], emptyRoot) panics: %v", p)
	}
	if !ok {
		t.Fatalf("VerifyRightWitness(0, [], %v, %x) = false", hxs(wit), tr.Root())
	}
	if !bytes.Equal(tr.Root(), m.EmptyHash()) {
		t.Fatalf("empty root %x", tr.Root())
	}
}

// C11-F4: a one-leaf tree can be reloaded from its storage.
func TestRegressReloadSingleLeaf(t *testing.T) {
	for _, kind := range []string{"map", "pebble"} {
		d, cl := openDB(t, kind)
		tr := rmt.NewRegularMerkleTree(d)
		if err := tr.Append([]byte("only leaf")); err != nil {
			t.Fatal(err)
		}
		t2, err := rmt.NewRegularMerkleTreeWithPastData(d)
		if err != nil {
			cl()
			knownOrFail(t, sigF4, "reload of a one-leaf tree (%s): %v", kind, err)
		}
		if !bytes.Equal(t2.Root(), tr.Root()) || t2.Size() != 1 || !m.Equal(t2.AppendPath(), tr.AppendPath()) {
			t.Fatalf("reloaded one-leaf tree differs: %s", fmt.Sprint(hx(t2.Root()), t2.Size(), hxs(t2.AppendPath())))
		}
		if err := t2.Append([]byte("second")); err != nil {
			t.Fatal(err)
		}
		if !bytes.Equal(t2.Root(), m.Root([][]byte{[]byte("only leaf"), []byte("second")})) {
			t.Fatalf("root after reload+append wrong")
		}
		cl()
	}
}
