package c11

import (
	"bytes"
	"fmt"
	"testing"

	"github.com/LiskHQ/lisk-engine/pkg/trie/rmt"
	m "verifharness/model/rmt"
)

func pack(hs [][]byte, spare bool, pad int) ([]byte, [][]byte) {
	tot := pad
	for _, h := range hs {
		tot += len(h)
	}
	buf := make([]byte, 0, tot)
	out := make([][]byte, len(hs))
	off := 0
	for _, h := range hs {
		buf = append(buf, h...)
	}
	buf = buf[:tot]
	for i, h := range hs {
		if spare {
			out[i] = buf[off : off+len(h)]
		} else {
			out[i] = buf[off : off+len(h) : off+len(h)]
		}
		off += len(h)
	}
	return buf, out
}

func TestProbe(t *testing.T) {
	n := 11
	leaves := detLeaves(n)
	tr := rmt.NewRegularMerkleTree(newMapDB())
	for _, v := range leaves {
		tr.Append(v)
	}
	root := m.Root(leaves)
	pos := []int{5, 2, 7, 0}
	q := make([][]byte, len(pos))
	for j, p := range pos {
		q[j] = m.LeafHash(leaves[p])
	}
	proof, err := tr.GenerateProof(q)
	fmt.Println(proof.Idxs, err, len(proof.SiblingHashes))
	for _, h := range proof.SiblingHashes {
		fmt.Println("sib len/cap", len(h), cap(h))
	}
	fmt.Println("verify fresh", rmt.VerifyProof(q, proof, root))
	for _, spare := range []bool{false, true} {
		qb, qa := pack(q, spare, 64)
		qb0 := append([]byte{}, qb...)
		fmt.Println("spare", spare, "verify aliased queries", rmt.VerifyProof(qa, proof, root), "buf changed", !bytes.Equal(qb, qb0))
		sb, sa := pack(proof.SiblingHashes, spare, 64)
		sb0 := append([]byte{}, sb...)
		p2 := &rmt.Proof{Size: proof.Size, Idxs: proof.Idxs, SiblingHashes: sa}
		fmt.Println("spare", spare, "verify aliased siblings", rmt.VerifyProof(q, p2, root), "buf changed", !bytes.Equal(sb, sb0))
		fmt.Println("   again", rmt.VerifyProof(q, p2, root))
	}
	// append path
	for _, spare := range []bool{false, true} {
		ab, aa := pack(tr.AppendPath(), spare, 64)
		ab0 := append([]byte{}, ab...)
		r := rmt.CalculateRootFromAppendPath([]byte("x"), aa, uint64(n))
		want := m.Root(append(copyList(leaves), []byte("x")))
		fmt.Println("spare", spare, "CRFAP ok", bytes.Equal(r.Root, want), "buf changed", !bytes.Equal(ab, ab0))
		w, _ := tr.GenerateRightWitness(5)
		pp := m.AppendPath(leaves[:5])
		ab, aa = pack(pp, spare, 64)
		ab0 = append([]byte{}, ab...)
		wb, wa := pack(w, spare, 64)
		wb0 := append([]byte{}, wb...)
		fmt.Println("spare", spare, "VRW", rmt.VerifyRightWitness(5, aa, wa, root), "bufs changed", !bytes.Equal(ab, ab0), !bytes.Equal(wb, wb0))
	}
	// CalculateRoot with aliased leaves
	for _, spare := range []bool{false, true} {
		lb, la := pack(leaves, spare, 64)
		lb0 := append([]byte{}, lb...)
		fmt.Println("spare", spare, "CalculateRoot", bytes.Equal(rmt.CalculateRoot(la), root), "buf changed", !bytes.Equal(lb, lb0))
	}
}
