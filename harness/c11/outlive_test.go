package c11

import (
	"bytes"
	"fmt"
	"testing"

	"pgregory.net/rapid"

	"github.com/LiskHQ/lisk-engine/pkg/trie/rmt"

	"verifharness/evid"
	m "verifharness/model/rmt"
)

// Results handed out by a tree must stay what they were when the tree is used further (seeded change C11-v: GenerateProof returned
// a window of a per-tree scratch buffer as Proof.Idxs, so the NEXT GenerateProof rewrote the indexes of every proof handed out
// before; each proof verified fine when checked right after its generation, which is all the other tests did).
// "Inclusion proofs generated for any subset of leaves verify" is a statement about every proof the tree hands out, not only about
// the latest one. History: build a tree, then a drawn sequence of {GenerateProof(subset), GenerateRightWitness(i), Root(),
// AppendPath(), Append(leaf), Update(...)}; every result is recorded together with a deep copy and the leaf list it was produced for.
// After every later operation ALL held results must (a) still be deeply equal to their copies and (b) proofs/witnesses must still
// verify against the root of THEIR leaf list (computed by the model).
type heldProof struct {
	q      [][]byte
	p, ref *rmt.Proof
	root   []byte
	at     int
}
type heldList struct {
	what     string
	l, ref   [][]byte
	root     []byte
	idx      uint64
	appendPt [][]byte
	at       int
}

func TestResultsOutliveLaterCalls(t *testing.T) {
	rapid.Check(t, func(t *rapid.T) {
		n := rapid.IntRange(1, 40).Draw(t, "leaves")
		leaves := copyList(detLeaves(n))
		tr := rmt.NewRegularMerkleTree(newMapDB())
		for _, v := range leaves {
			if err := tr.Append(v); err != nil {
				t.Fatalf("append: %v", err)
			}
		}
		var proofs []*heldProof
		var lists []*heldList
		var hist []string
		nOps := rapid.IntRange(2, 10).Draw(t, "ops")
		kinds := map[string]int{}
		updated := false
		check := func(step int) {
			for _, h := range proofs {
				if fmt.Sprint(h.p.Idxs) != fmt.Sprint(h.ref.Idxs) || h.p.Size != h.ref.Size || !equalLists(h.p.SiblingHashes, h.ref.SiblingHashes) {
					t.Fatalf("proof handed out at step %d changed after step %d: generated %s, now %s\nhistory: %v", h.at, step, renderProof(h.ref, nil), renderProof(h.p, nil), hist)
				}
				if !rmt.VerifyProof(copyList(h.q), h.p, h.root) {
					t.Fatalf("proof handed out at step %d no longer verifies after step %d against the root it was generated for\nhistory: %v", h.at, step, hist)
				}
			}
			for _, h := range lists {
				if !equalLists(h.l, h.ref) {
					t.Fatalf("%s handed out at step %d changed after step %d: was %v, now %v\nhistory: %v", h.what, h.at, step, hxs(h.ref), hxs(h.l), hist)
				}
				if h.what == "right witness" && !rmt.VerifyRightWitness(h.idx, copyList(h.appendPt), h.l, h.root) {
					t.Fatalf("right witness handed out at step %d no longer verifies after step %d\nhistory: %v", h.at, step, hist)
				}
			}
		}
		for step := 0; step < nOps; step++ {
			switch k := rapid.SampledFrom([]string{"proof", "proof", "proof", "witness", "root", "appendPath", "append", "update"}).Draw(t, "op"); k {
			case "proof":
				cnt := rapid.IntRange(1, min(len(leaves), 6)).Draw(t, "subset")
				pos := rapid.SliceOfNDistinct(rapid.IntRange(0, len(leaves)-1), cnt, cnt, func(i int) int { return i }).Draw(t, "positions")
				q := make([][]byte, len(pos))
				for j, p := range pos {
					q[j] = m.LeafHash(leaves[p])
				}
				p, err := tr.GenerateProof(copyList(q))
				if err != nil {
					t.Fatalf("GenerateProof(%v): %v\nhistory: %v", pos, err, hist)
				}
				proofs = append(proofs, &heldProof{q: q, p: p, ref: cloneProof(p), root: m.Root(leaves), at: step})
				hist = append(hist, fmt.Sprintf("%d:proof%v", step, pos))
			case "witness":
				lo := 0
				if updated {
					lo = 1 // the witness at index 0 IS the stored append path, which Update does not refresh (observation O5)
				}
				i := uint64(rapid.IntRange(lo, len(leaves)).Draw(t, "witnessIndex"))
				w, err := tr.GenerateRightWitness(i)
				if err != nil {
					t.Fatalf("GenerateRightWitness(%d): %v", i, err)
				}
				lists = append(lists, &heldList{what: "right witness", l: w, ref: copyList(w), root: m.Root(leaves), idx: i, appendPt: m.AppendPath(leaves[:i]), at: step})
				hist = append(hist, fmt.Sprintf("%d:witness(%d)", step, i))
			case "root":
				r := tr.Root()
				lists = append(lists, &heldList{what: "root", l: [][]byte{r}, ref: copyList([][]byte{r}), at: step})
				hist = append(hist, fmt.Sprintf("%d:root", step))
			case "appendPath":
				if updated {
					hist = append(hist, fmt.Sprintf("%d:skip", step))
					break
				}
				ap := tr.AppendPath()
				lists = append(lists, &heldList{what: "append path", l: ap, ref: copyList(ap), at: step})
				hist = append(hist, fmt.Sprintf("%d:appendPath", step))
			case "append":
				if updated {
					// observation O5 (DESIGN 9.3): Update does not refresh the in-memory append path, no caller appends after an update
					hist = append(hist, fmt.Sprintf("%d:skip", step))
					break
				}
				v := newLeaf(len(leaves), 7, step)
				if err := tr.Append(v); err != nil {
					t.Fatalf("append: %v", err)
				}
				leaves = append(leaves, v)
				hist = append(hist, fmt.Sprintf("%d:append", step))
			case "update":
				cnt := rapid.IntRange(1, min(len(leaves), 4)).Draw(t, "updates")
				pos := rapid.SliceOfNDistinct(rapid.IntRange(0, len(leaves)-1), cnt, cnt, func(i int) int { return i }).Draw(t, "updatePositions")
				idxs := make([]uint64, len(pos))
				data := make([][]byte, len(pos))
				q := make([][]byte, len(pos))
				for j, p := range pos {
					q[j] = m.LeafHash(leaves[p])
				}
				pr, err := tr.GenerateProof(copyList(q))
				if err != nil {
					t.Fatalf("GenerateProof for update: %v", err)
				}
				copy(idxs, pr.Idxs)
				next := copyList(leaves)
				for j, p := range pos {
					data[j] = newLeaf(len(leaves), 11+step, j)
					next[p] = data[j]
				}
				if err := tr.Update(idxs, data); err != nil {
					t.Fatalf("Update: %v\nhistory: %v", err, hist)
				}
				leaves = next
				updated = true
				hist = append(hist, fmt.Sprintf("%d:update%v", step, pos))
			default:
				_ = k
			}
			kinds[hist[len(hist)-1][2:3]]++
			if !bytes.Equal(tr.Root(), m.Root(leaves)) {
				t.Fatalf("root after step %d differs from the model\nhistory: %v", step, hist)
			}
			check(step)
		}
		evid.R.Case(fmt.Sprintf("outlive|%d|%v", n, hist), len(proofs) >= 2, func() any {
			return map[string]any{"kind": "results-outlive", "leaves": n, "history": hist}
		}, "results-outlive", fmt.Sprintf("results-outlive-proofs-held-%d", min(len(proofs), 4)))
	})
}

func equalLists(a, b [][]byte) bool {
	if len(a) != len(b) {
		return false
	}
	for i := range a {
		if !bytes.Equal(a[i], b[i]) {
			return false
		}
	}
	return true
}
