package c17

// Extension 6: bidirectional load and large payloads.
//
// (1) Payload-size dimension of the ordinary classes (race-steering incl. stalled-peer, late-response storm): a few calls
// per case carry request and/or response data of a drawn size - 0, 1, 100 bytes, 64 KiB, 1 MiB - 64, 1 MiB - 1, 1 MiB,
// 1 MiB + 1, 2 MiB, 4 MiB (the unchanged engine reads a stream to its end, io.ReadAll, and libp2p sets no message limit:
// probed up to 64 MiB in both directions, about 10 ms per MiB on loopback; getBlocksFromID answers with up to 103 full
// blocks) - instead of the few dozen bytes of a token. Data = header (request: the call's payload string, response: the
// handler's token) + NUL + deterministic padding up to exactly the planned length; 0 and 1 byte carry no header: such
// REQUESTS are the members of one identical-payload group of the case (attribution through message IDs, twins_test.go),
// such RESPONSES are checked byte for byte and by sender. Oracles (no clocks):
//   - what a call returns is byte for byte what the handler wrote for one of its own message IDs (payload:response-bytes-
//     altered), the handler saw byte for byte what the caller sent (payload:request-bytes-altered);
//   - a sized call that returned a remote response although none of its timers fired and nothing was cancelled was served
//     by exactly one handler run (retry-budget:handler-ran-again-without-timeout);
//   - EVERY case on the shared cluster: all traffic of this package is honest (known procedure, well-formed messages, rate
//     limiting off), so afterwards no node holds a penalty score against a loopback address that it did not hold before
//     the case and no address is banned (peers:honest-peer-penalised-or-banned; gater state read through the hooks
//     VerifBannedIPs / VerifPeerScore that C18 uses). A peer that is merely no longer connected is counted and the
//     cluster replaced (nothing concluded);
//   - as before: handler runs and attempts <= retries+1, pending tables empty, nothing parked.
// Large data needs time: a 4 MiB reply that misses a 20 ms timeout is late, not lost. So nothing here says "delivered in
// time"; stalled_test.go's "answered at once" rule does not judge calls above 64 KiB.
//
// (2) Class "bidirectional load" (TestLoad): node 0 (A) SERVES K concurrent inbound requests - K from {8, 31, 32, 33, 40,
// 64, 100}, sent by 1-3 peers, handler delay D 60-700 ms - while it ISSUES its own requests to peers that answer at once
// (or within a quarter to half of A's timeout). Response timeout per node: the peers' TP = 4 x max D + 1 s (D is well
// inside it), A's own TA from 200-400 ms with D ABOVE it / 300-800 ms with D below it / 1.5-2.5 s. A's own calls start
// once min(3K/4, 24) handlers are running on A (gate, cap 400 ms). A drawn share of A's slow handlers first issues a
// request of its own to a peer (nested; a quarter of those peers' handlers call A back: depth 2), a few peers' requests to
// A have a fast handler, own calls may carry sized responses (large ones only with the long TA).
// Oracle "no lost in-time reply" (confirmed-suspect form; the schedule point sits before the hand-over, so delivery itself
// is not observable): for an attempt that is the FIRST of its call, whose handler returned its reply within a quarter of
// the requester's timeout after the send (own clock; a precondition, not a verdict), the requester's timer fired although
// >= 20 process heartbeats (+ 40 per MiB of payload) passed between the reply and the timer, and no heartbeat was late
// during the call => suspect; violation only if the same workload shows a suspect in 3 of 3 runs
// (load:in-time-reply-not-delivered), otherwise inconclusive. Plus every older oracle: own token, handler runs, pending
// tables, watchdog (three goroutine dumps), lost-reply rule per message ID, honest peers not penalised.

import (
	"bytes"
	"encoding/binary"
	"fmt"
	"os"
	"sort"
	"strconv"
	"testing"
	"time"

	"pgregory.net/rapid"

	"github.com/LiskHQ/lisk-engine/pkg/p2p"

	"verifharness/evid"
)

const (
	sigRespBytes = "payload:response-bytes-altered"
	sigReqBytes  = "payload:request-bytes-altered"
	sigPenalty   = "peers:honest-peer-penalised-or-banned"
	sigRunsQuiet = "retry-budget:handler-ran-again-without-timeout"
	sigLoadLost  = "load:in-time-reply-not-delivered"
)

const (
	pristineMaxBytes = 64 << 10               // stalled_test.go pristine(): larger calls are not "answered at once"
	loadGateCap      = 400 * time.Millisecond // a call that waits for busy handlers goes after this at the latest
	beatsPerMiB      = 40                     // additional heartbeats a reply gets per MiB of request + response data
)

// ---- sized data ----

// sizeTable: the sizes of the dimension. rapid's integer draws favour small values, so the sizes a limit is most likely to
// sit at come first.
var sizeTable = []struct {
	n    int
	name string
}{
	{1<<20 + 1, "1MiB+1"}, {1 << 20, "1MiB"}, {100, "100"}, {2 << 20, "2MiB"}, {0, "0"}, {1<<20 - 1, "1MiB-1"},
	{64 << 10, "64KiB"}, {1, "1"}, {1<<20 - 64, "1MiB-64"}, {4 << 20, "4MiB"},
}

func sizeName(n int) string {
	for _, s := range sizeTable {
		if s.n == n {
			return s.name
		}
	}
	return strconv.Itoa(n)
}

func sizeSeed(no int64, idx, dir int) uint64 {
	return uint64(no)*0x9e3779b97f4a7c15 ^ uint64(idx)<<20 ^ uint64(dir)<<1 ^ 0xc17
}

// sizedBytes: data of exactly total bytes - hdr, NUL, padding from a splitmix64 stream. total <= 1: no header (empty data /
// the single byte 'y'); a total too small for the header: the header alone.
func sizedBytes(hdr string, total int, seed uint64) []byte {
	if total <= 0 {
		return []byte{}
	}
	if total == 1 {
		return []byte{'y'}
	}
	if total < len(hdr)+1 {
		return []byte(hdr)
	}
	b := make([]byte, total)
	copy(b, hdr)
	p := b[len(hdr)+1:]
	x := seed
	next := func() uint64 {
		x += 0x9e3779b97f4a7c15
		z := x
		z = (z ^ (z >> 30)) * 0xbf58476d1ce4e5b9
		z = (z ^ (z >> 27)) * 0x94d049bb133111eb
		return z ^ (z >> 31)
	}
	i := 0
	for ; i+8 <= len(p); i += 8 {
		binary.LittleEndian.PutUint64(p[i:], next())
	}
	if i < len(p) {
		var t [8]byte
		binary.LittleEndian.PutUint64(t[:], next())
		copy(p[i:], t[:])
	}
	return b
}

func previewBytes(b []byte) string {
	if len(b) <= 160 {
		return fmt.Sprintf("%q", string(b))
	}
	return fmt.Sprintf("%q... (%d bytes)", string(b[:160]), len(b))
}

func diffBytes(got, want []byte) string {
	n := len(got)
	if len(want) < n {
		n = len(want)
	}
	at := n
	for i := 0; i < n; i++ {
		if got[i] != want[i] {
			at = i
			break
		}
	}
	head := got
	if len(head) > 72 {
		head = head[:72]
	}
	return fmt.Sprintf("got %d bytes, the handler wrote %d bytes, first difference at offset %d; got starts with %q", len(got), len(want), at, string(head))
}

// checkRequestBytes (handler): the data of a sized request arrived as it was sent.
func (cs *caseState) checkRequestBytes(c *callState, node int, req *p2p.Request) {
	if c.reqData == nil || bytes.Equal(req.Data, c.reqData) {
		return
	}
	cs.mu.Lock()
	if len(cs.reqAltered) < 3 {
		cs.reqAltered = append(cs.reqAltered, fmt.Sprintf("node %d received request %s of call %d with altered data: %s", node, req.ID, c.idx, diffBytes(req.Data, c.reqData)))
	}
	cs.mu.Unlock()
}

// judgeQuietRuns (evaluate, cs.mu held): c returned a remote response. A request is sent again only after its response
// timer fired; so with no timer fired and nothing cancelled exactly one request was sent and exactly one handler ran.
func (cs *caseState) judgeQuietRuns(v *verdict, c *callState) {
	if c.cancelled || c.plan.Cancel || c.plan.Ctx != "" || c.plan.Twin > 0 || c.plan.Bcast {
		return
	}
	for _, a := range c.atts {
		if a.timeoutFired {
			return
		}
	}
	v.sz.quiet++
	if c.handlerN != 1 || len(c.atts) != 1 {
		v.add(sigRunsQuiet, "the handler ran %d times (%d message IDs) for a call that returned a remote response although none of its response timers fired and nothing was cancelled: %s", c.handlerN, len(c.atts), c.describe())
	}
}

type sizeStats struct {
	calls      int
	req, resp  map[string]int
	exact      int // sized responses returned byte for byte
	quiet      int // calls checked for "one handler run without a timeout"
	errEnd     int // sized calls that ended with an error (allowed)
	tinyNoOwn  int // handler runs for 0/1-byte requests whose message ID no call of this case used (stragglers of an earlier case; not judged)
	peersAsked bool
}

// judgeSizes (evaluate, cs.mu held): request integrity, statistics, gater state.
func (cs *caseState) judgeSizes(v *verdict) {
	for _, s := range cs.reqAltered {
		v.add(sigReqBytes, "%s", s)
	}
	for _, s := range cs.peersBad {
		v.add(sigPenalty, "%s", s)
	}
	v.sz.req, v.sz.resp = map[string]int{}, map[string]int{}
	for _, c := range cs.calls {
		if !c.plan.Sized {
			continue
		}
		v.sz.calls++
		v.sz.req[sizeName(c.plan.ReqSize)]++
		if c.plan.Twin == 0 {
			v.sz.resp[sizeName(c.plan.RespSize)]++
		}
		if c.returned && c.resp.Error() != nil {
			v.sz.errEnd++
		}
	}
}

func sizeLabels(w *workload, v *verdict) []string {
	if len(v.sz.req) == 0 && len(v.sz.resp) == 0 {
		if w.Star == 0 {
			evid.R.Label("peers:cases-with-gater-state-checked(no penalty, no ban)", 1)
		}
		return []string{"size:case-without-sized-payloads"}
	}
	labels := []string{"size:case-with-sized-payloads"}
	ks := func(m map[string]int) []string {
		out := make([]string, 0, len(m))
		for k := range m {
			out = append(out, k)
		}
		sort.Strings(out)
		return out
	}
	for _, k := range ks(v.sz.req) {
		labels = append(labels, "size-case:request="+k)
		evid.R.Label("size-calls:request="+k, int64(v.sz.req[k]))
	}
	for _, k := range ks(v.sz.resp) {
		labels = append(labels, "size-case:response="+k)
		evid.R.Label("size-calls:response="+k, int64(v.sz.resp[k]))
	}
	evid.R.Label("size:sized-calls", int64(v.sz.calls))
	evid.R.Label("size:sized-responses-returned-byte-for-byte", int64(v.sz.exact))
	evid.R.Label("size:sized-calls-ended-with-an-error(allowed)", int64(v.sz.errEnd))
	evid.R.Label("size:calls-without-timeout-checked-for-exactly-one-handler-run", int64(v.sz.quiet))
	evid.R.Label("size:handler-runs-for-0/1-byte-requests-with-a-message-id-of-no-call(not judged)", int64(v.sz.tinyNoOwn))
	if w.Star == 0 {
		evid.R.Label("peers:cases-with-gater-state-checked(no penalty, no ban)", 1)
	}
	return labels
}

func sizeSummary(m map[string]any, w *workload, v *verdict) {
	if v.sz.calls == 0 {
		return
	}
	m["sized_calls"], m["sized_request_bytes"], m["sized_response_bytes"], m["sized_responses_byte_exact"] = v.sz.calls, v.sz.req, v.sz.resp, v.sz.exact
}

// ---- gater / connection state of the shared cluster ----

const loopbackIPs = 12 // 127.0.0.1 .. 127.0.0.12: every address a node of this package can appear under

type peerSnap struct {
	score  [maxConns][loopbackIPs + 1]int
	banned [maxConns]int
}

func snapPeers(cl *cluster) (s peerSnap) {
	for i, c := range cl.conns {
		if i >= maxConns {
			break
		}
		s.banned[i] = len(c.VerifBannedIPs())
		for ip := 1; ip <= loopbackIPs; ip++ {
			if sc, _, ok := c.VerifPeerScore("127.0.0." + strconv.Itoa(ip)); ok {
				s.score[i][ip] = sc
			}
		}
	}
	return s
}

// peersBefore: gater state of the shared cluster when the case starts (a clean cluster holds nothing; whatever an earlier
// case left behind - it would have been reported there and the cluster dropped - is not charged to this one).
func (cs *caseState) peersBefore() {
	if cs.w.Star > 0 {
		return
	}
	cs.peers0, cs.peers0ok = snapPeers(cs.cl), true
}

// peersAfter (afterQuiescence): no new penalty, no new ban; connections are counted.
func (cs *caseState) peersAfter(v *verdict) {
	if cs.w.Star > 0 || !cs.peers0ok {
		return
	}
	v.sz.peersAsked = true
	now, peers0 := snapPeers(cs.cl), cs.peers0
	for i := range cs.cl.conns {
		if i >= maxConns {
			break
		}
		for ip := 1; ip <= loopbackIPs; ip++ {
			if now.score[i][ip] > peers0.score[i][ip] {
				cs.peersBad = append(cs.peersBad, fmt.Sprintf("node %d holds penalty score %d (before the case: %d) against 127.0.0.%d after a case of honest traffic only (known procedure, well-formed messages, rate limiting off); banned IPs of node %d: %v; largest sized payload of the case: %s",
					i, now.score[i][ip], peers0.score[i][ip], ip, i, cs.cl.conns[i].VerifBannedIPs(), cs.largestSized()))
			}
		}
		if len(cs.peersBad) == 0 && now.banned[i] > peers0.banned[i] {
			cs.peersBad = append(cs.peersBad, fmt.Sprintf("node %d bans %v after a case of honest traffic only (before the case: %d banned addresses)", i, cs.cl.conns[i].VerifBannedIPs(), peers0.banned[i]))
		}
		conn := map[p2p.PeerID]bool{}
		for _, p := range cs.cl.conns[i].ConnectedPeers() {
			conn[p] = true
		}
		for j := range cs.cl.conns {
			if j != i && !conn[cs.cl.ids[j]] {
				cs.peersGone = append(cs.peersGone, fmt.Sprintf("%d-/-%d", i, j))
			}
		}
	}
	if len(cs.peersGone) > 0 {
		cs.cl.wedged = true // replaced before the next case; a lost connection alone proves nothing
		evid.R.Label("peers:cases-that-ended-with-a-node-no-longer-connected(cluster replaced, counted only)", 1)
	}
}

func (cs *caseState) largestSized() string {
	m := -1
	for _, c := range cs.w.Calls {
		if c.Sized {
			if c.ReqSize > m {
				m = c.ReqSize
			}
			if c.Twin == 0 && c.RespSize > m {
				m = c.RespSize
			}
		}
	}
	if m < 0 {
		return "none (tokens only)"
	}
	return strconv.Itoa(m) + " bytes"
}

// ---- generator: payload size as a dimension of the ordinary classes ----

// addSizes marks 0-3 calls of a generated workload as sized (request, response or both; the other side 100 bytes). At most
// two sizes >= 1 MiB per case (one in the storm class, whose timeouts of 8-40 ms make every attempt of such a call time
// out: four transfers per call; none in the stalled-peer class), at most one >= 2 MiB. A drawn request size of 0 / 1 byte goes to an identical-payload
// group (an existing one, or a new pair of calls): nothing in such a request can name its call.
func addSizes(t *rapid.T, w *workload) {
	n := []int{1, 0, 2, 1, 0, 3}[rapid.IntRange(0, 5).Draw(t, "sizedCalls")]
	if os.Getenv("VERIF_C17_NO_SIZES") != "" { // A/B runs only
		n = 0
	}
	maxLarge, large, huge, tiny := 2, 0, 0, -1
	if w.Storm {
		maxLarge = 1
	}
	if w.Holes > 0 {
		// stalled-peer class: its oracle is about TIMELY delivery of small replies (20 heartbeats); a transfer of megabytes
		// over the same connection is a legitimate reason for a small reply behind it to be late: sizes <= 64 KiB there
		maxLarge = 0
	}
	clamp := func(s int) int {
		if s >= 2<<20 {
			if huge > 0 {
				s = 1<<20 + 1
			} else {
				huge++
			}
		}
		if s >= 1<<20-64 {
			if large >= maxLarge {
				return 64 << 10
			}
			large++
		}
		return s
	}
	for k := 0; k < n && len(w.Calls) > 0; k++ {
		lb := fmt.Sprintf("size%d.", k)
		at := rapid.IntRange(0, len(w.Calls)-1).Draw(t, lb+"call")
		what := rapid.IntRange(0, 2).Draw(t, lb+"what") // 0 response, 1 request, 2 both
		rs := sizeTable[rapid.IntRange(0, len(sizeTable)-1).Draw(t, lb+"response")].n
		qs := sizeTable[rapid.IntRange(0, len(sizeTable)-1).Draw(t, lb+"request")].n
		ci := -1
		for d := 0; d < len(w.Calls); d++ {
			c := &w.Calls[(at+d)%len(w.Calls)]
			if c.Twin == 0 && c.Hole == 0 && !c.Unreach && !c.Bcast && !c.Sized && c.Ctx == "" {
				ci = (at + d) % len(w.Calls)
				break
			}
		}
		if ci < 0 {
			break
		}
		c := &w.Calls[ci]
		if what == 0 {
			qs = 100
		}
		if what == 1 {
			rs = 100
		}
		if qs <= 1 {
			tiny, qs = qs, 100
		}
		c.Sized, c.ReqSize, c.RespSize = true, clamp(qs), clamp(rs)
		for i := range c.Att { // a duplicate carries the token only, an error reply is a string: not for sized calls
			c.Att[i].DupBefore, c.Att[i].DupAfter, c.Att[i].Err = false, 0, false
		}
	}
	if tiny < 0 {
		return
	}
	grp := 0
	for _, c := range w.Calls {
		if c.Twin > grp {
			grp = c.Twin
		}
	}
	if grp == 0 { // no identical-payload group in this case: a pair of calls from one node to one peer
		src := rapid.IntRange(0, w.NConn-1).Draw(t, "tinySrc")
		dst := (src + 1 + rapid.IntRange(0, w.NConn-2).Draw(t, "tinyDst")) % w.NConn
		pos := rapid.IntRange(0, len(w.Calls)).Draw(t, "tinyPos")
		f := attPlan{LatUs: rapid.IntRange(0, 2000).Draw(t, "tinyLat")}
		pair := []callPlan{{Twin: 1, Src: src, Dst: dst, Att: []attPlan{f, f, f, f}}, {Twin: 1, Src: src, Dst: dst, Att: []attPlan{f, f, f, f}}}
		w.Calls = append(w.Calls[:pos], append(pair, w.Calls[pos:]...)...)
		if w.Workers < 2 {
			w.Workers = 2
		}
		grp = 1
	}
	for i := range w.Calls {
		if w.Calls[i].Twin == grp {
			w.Calls[i].Sized, w.Calls[i].ReqSize, w.Calls[i].RespSize = true, tiny, 0
		}
	}
}

// ---- class "bidirectional load" ----

type loadPlan struct {
	K       int    `json:"concurrent_inbound_requests"` // slow inbound requests served by node 0 at the same time (planned)
	Peers   int    `json:"peers"`
	TA      int    `json:"own_timeout_ms"`   // response timeout of node 0
	TP      int    `json:"peers_timeout_ms"` // response timeout of the peers
	DLo     int    `json:"handler_delay_lo_ms"`
	DHi     int    `json:"handler_delay_hi_ms"`
	Nested  int    `json:"handlers_issuing_requests"`
	Depth2  int    `json:"of_them_called_back"`
	Own     int    `json:"own_calls"`
	FastIn  int    `json:"fast_inbound_calls"`
	Variant string `json:"variant,omitempty"`
}

type loadStats struct {
	maxServed   int // most handlers running on node 0 at once
	ownCalls    int // calls issued by node 0 (own and handler-issued) that returned
	ownBusy8    int // ... whose first reply was produced while >= 8 handlers were running on node 0
	ownBusy32   int
	eligible    int // first attempt answered within a quarter of the requester's timeout
	judged      int // ... and no late heartbeat during the call
	notJudged   int
	fewBeats    int // first attempt timed out, fewer heartbeats than required between reply and timer: not judged
	gateCaps    int
	nestedRun   int
	depth2Run   int
	cand        []string
	candCalls   map[int]string // suspect calls by index (the confirmation wants the SAME call in every run)
	maxDelayObs time.Duration
}

func (cs *caseState) handlerEnter(node int) {
	n := cs.inHandNode[node].Add(1)
	for {
		m := cs.maxHandNode[node].Load()
		if n <= m || cs.maxHandNode[node].CompareAndSwap(m, n) {
			return
		}
	}
}

// loadGate: the call starts only once WaitBusy handlers are running on node 0 (the node under load).
func (cs *caseState) loadGate(c *callState) {
	if c.plan.WaitBusy <= 0 {
		return
	}
	dl := time.Now().Add(loadGateCap)
	for cs.inHandNode[0].Load() < int32(c.plan.WaitBusy) {
		if time.Now().After(dl) {
			cs.mu.Lock()
			c.gateCap = true
			cs.mu.Unlock()
			return
		}
		select {
		case <-cs.closing:
			return
		default:
		}
		time.Sleep(500 * time.Microsecond)
	}
}

// runNested: the handler that serves parent (first invocation only) issues the planned call of its own node on its own
// goroutine and waits for it, as an application handler does that has to ask a peer before it can answer.
func (cs *caseState) runNested(parent *callState) {
	i := parent.plan.Nest - 1
	if i < 0 || i >= len(cs.calls) || !cs.calls[i].plan.Nested {
		return
	}
	select {
	case <-cs.closing:
		return
	case <-parent.done: // the asking call has already given up: nothing is started behind the end of the case
		return
	default:
	}
	nc := cs.calls[i]
	if !nc.started.CompareAndSwap(false, true) {
		return
	}
	cs.runCall(gid(), nc)
}

func (cs *caseState) timeoutOf(node int) time.Duration {
	if node < len(cs.w.NodeT) && cs.w.NodeT[node] > 0 {
		return time.Duration(cs.w.NodeT[node]) * time.Millisecond
	}
	return time.Duration(cs.w.TimeoutMs) * time.Millisecond
}

func replyBeatsFor(p callPlan) int64 {
	n := int64(replyBeats)
	if p.Sized {
		b := p.ReqSize + p.RespSize
		n += int64(beatsPerMiB) * int64((b+1<<20-1)>>20)
	}
	return n
}

// judgeLoad (evaluate, cs.mu held): the in-time-reply rule of the class, see the head of this file.
func (cs *caseState) judgeLoad(v *verdict) {
	if cs.w.Load == nil {
		return
	}
	v.ld.maxServed = int(cs.maxHandNode[0].Load())
	for _, c := range cs.calls {
		if c.gateCap {
			v.ld.gateCaps++
		}
		if c.plan.Nested && c.started.Load() {
			if c.plan.Src == 0 {
				v.ld.nestedRun++
			} else {
				v.ld.depth2Run++
			}
		}
		if !c.returned || c.plan.Cancel || c.plan.Twin > 0 || len(c.atts) == 0 {
			continue
		}
		a := c.atts[0]
		if len(c.atts) > 1 && os.Getenv("VERIF_C17_TRACE") != "" {
			fmt.Fprintf(os.Stderr, "  c17 load: retried: answered %v after send, %d beats before the timer, busy %d: %s\n", a.answerAt.Sub(a.sentAt).Round(time.Millisecond), a.timeoutBeat-a.answerBeat, a.busyAtAnswer, c.describe())
		}
		if c.plan.Src == 0 {
			v.ld.ownCalls++
			if a.answered && a.busyAtAnswer >= 8 {
				v.ld.ownBusy8++
			}
			if a.answered && a.busyAtAnswer >= 32 {
				v.ld.ownBusy32++
			}
		}
		T := cs.timeoutOf(c.plan.Src)
		// precondition: the responder answered well within the timeout (own clock; limits what is judged, decides nothing)
		if a.idx != 0 || !a.entered || !a.answered || a.sentAt.IsZero() || a.answerAt.Sub(a.sentAt) > T/4 {
			continue
		}
		v.ld.eligible++
		if c.stallsStart != c.stallsEnd {
			v.ld.notJudged++
			continue
		}
		v.ld.judged++
		if !a.timeoutFired {
			continue
		}
		// The process must have RUN while the reply was on its way: at least replyBeats heartbeats (+ beatsPerMiB per MiB)
		// and at least three quarters of the heartbeats an idle machine produces in that span (one per 5 ms). A reply
		// crosses some dozens of goroutine hops (new stream, protocol negotiation, TLS, yamux); when the run queues are
		// long each hop waits as long as a heartbeat does, so a process that beats at half speed proves nothing.
		need := replyBeatsFor(c.plan)
		if nominal := int64((T - a.answerAt.Sub(a.sentAt)) / (5 * time.Millisecond)); nominal*3/4 > need {
			need = nominal * 3 / 4
		}
		if a.timeoutBeat-a.answerBeat < need {
			v.ld.fewBeats++
			continue
		}
		if v.ld.candCalls == nil {
			v.ld.candCalls = map[int]string{}
		}
		if len(v.ld.candCalls) < 64 {
			v.ld.candCalls[c.idx] = fmt.Sprintf("[%s] node %d's handler returned the reply to the first attempt %v after the request was sent (requester's timeout %v); the requester's timer fired %d process heartbeats after the reply was produced (required %d; no late heartbeat during the call) and the reply had not been handed over; %d handlers were running on the requester's node when the reply was produced (most at once in this case: %d); handler ran %d times, result err=%v: %s",
				sigLoadLost, c.plan.Dst, a.answerAt.Sub(a.sentAt).Round(time.Millisecond), T, a.timeoutBeat-a.answerBeat, need, a.busyAtAnswer, v.ld.maxServed, c.handlerN, c.resp.Error(), c.describe())
			if len(v.ld.cand) < 4 {
				v.ld.cand = append(v.ld.cand, v.ld.candCalls[c.idx])
			}
		}
	}
}

func loadNontrivial(v *verdict) bool {
	return v.ld.maxServed >= 8 && v.ld.ownBusy8 > 0 && v.ld.judged > 0
}

func loadLabels(w *workload, v *verdict) []string {
	lp := w.Load
	labels := []string{"class:bidirectional-load"}
	if lp.Variant != "" {
		labels = append(labels, "load-variant:"+lp.Variant)
	}
	labels = append(labels, fmt.Sprintf("load-case:K=%d", lp.K), fmt.Sprintf("load-case:peers=%d", lp.Peers))
	switch {
	case lp.K == 0:
	case lp.DLo > lp.TA:
		labels = append(labels, "load-case:handler-delay-above-own-timeout")
	case lp.DHi < lp.TA:
		labels = append(labels, "load-case:handler-delay-below-own-timeout")
	default:
		labels = append(labels, "load-case:handler-delay-around-own-timeout")
	}
	if lp.Nested > 0 {
		labels = append(labels, "load-case:handlers-issue-requests")
	}
	if lp.Depth2 > 0 {
		labels = append(labels, "load-case:handlers-issue-requests-and-are-called-back")
	}
	for _, k := range []int{8, 31, 32, 33, 40, 64, 100} {
		if v.ld.maxServed >= k {
			labels = append(labels, fmt.Sprintf("load-case:handlers-running-at-once>=%d(measured)", k))
		}
	}
	if v.ld.ownBusy8 > 0 {
		labels = append(labels, "load-case:own-reply-produced-while>=8-handlers-running")
	}
	if v.ld.ownBusy32 > 0 {
		labels = append(labels, "load-case:own-reply-produced-while>=32-handlers-running")
	}
	if len(v.ld.cand) > 0 {
		labels = append(labels, "load-case:suspect")
	}
	evid.R.Label("load:calls-issued-by-the-loaded-node", int64(v.ld.ownCalls))
	evid.R.Label("load:own-replies-produced-while>=8-handlers-running", int64(v.ld.ownBusy8))
	evid.R.Label("load:own-replies-produced-while>=32-handlers-running", int64(v.ld.ownBusy32))
	evid.R.Label("load:first-attempts-answered-within-timeout/4", int64(v.ld.eligible))
	evid.R.Label("load:calls-judged", int64(v.ld.judged))
	evid.R.Label("load:calls-not-judged(process-stall)", int64(v.ld.notJudged))
	evid.R.Label("load:first-attempt-timed-out-with-too-few-heartbeats(not judged)", int64(v.ld.fewBeats))
	evid.R.Label("load:start-gate-cap-hit", int64(v.ld.gateCaps))
	evid.R.Label("load:requests-issued-by-handlers", int64(v.ld.nestedRun))
	evid.R.Label("load:requests-issued-by-handlers-of-handler-issued-requests", int64(v.ld.depth2Run))
	return labels
}

func loadSummary(m map[string]any, w *workload, v *verdict) {
	if w.Load == nil {
		return
	}
	m["load"], m["handlers_running_at_once_on_node_0"], m["own_calls"], m["own_replies_produced_while_8_handlers_running"] = w.Load, v.ld.maxServed, v.ld.ownCalls, v.ld.ownBusy8
	m["judged"], m["not_judged_process_stall"], m["requests_issued_by_handlers"] = v.ld.judged, v.ld.notJudged, v.ld.nestedRun
}

func drawLoad(t *rapid.T) *workload {
	lp := &loadPlan{}
	lp.K = []int{40, 32, 33, 100, 8, 64, 31}[rapid.IntRange(0, 6).Draw(t, "K")]
	lp.Peers = rapid.IntRange(1, 3).Draw(t, "peers")
	switch rapid.IntRange(0, 2).Draw(t, "ownTimeoutClass") {
	case 0: // handler delay ABOVE the timeout of the other direction
		lp.TA = rapid.IntRange(200, 400).Draw(t, "TA") // >= 40 heartbeats on an idle machine, 20 are required for a verdict
		lp.DLo = lp.TA + rapid.IntRange(50, 150).Draw(t, "dAbove")
		lp.DHi = lp.DLo + rapid.IntRange(0, 150).Draw(t, "dSpread")
	case 1: // below
		lp.TA = rapid.IntRange(300, 800).Draw(t, "TA")
		lp.DLo = rapid.IntRange(60, lp.TA/2).Draw(t, "dBelow")
		lp.DHi = lp.DLo + rapid.IntRange(0, lp.TA/3).Draw(t, "dSpread")
	default:
		lp.TA = rapid.IntRange(1500, 2500).Draw(t, "TA")
		lp.DLo = rapid.IntRange(100, 300).Draw(t, "dLong")
		lp.DHi = lp.DLo + rapid.IntRange(0, 250).Draw(t, "dSpread")
	}
	lp.TP = 4*lp.DHi + 1000
	w := &workload{Load: lp, NConn: 1 + lp.Peers, TimeoutMs: lp.TP, NodeT: []int{lp.TA}}
	for i := 0; i < lp.Peers; i++ {
		w.NodeT = append(w.NodeT, lp.TP)
	}
	peer := func(lb string) int { return 1 + rapid.IntRange(0, lp.Peers-1).Draw(t, lb) }
	nestPct := []int{25, 0, 50, 100}[rapid.IntRange(0, 3).Draw(t, "nestedPct")]
	var nestOf []int
	for i := 0; i < lp.K; i++ {
		lb := fmt.Sprintf("in%d.", i)
		d := rapid.IntRange(lp.DLo, lp.DHi).Draw(t, lb+"delayMs") * 1000
		c := callPlan{Src: peer(lb + "src"), Dst: 0, PreUs: rapid.IntRange(0, 3000).Draw(t, lb+"pre"), Att: rep4(attPlan{LatUs: d})}
		if rapid.IntRange(0, 99).Draw(t, lb+"nested") < nestPct {
			nestOf = append(nestOf, i)
		}
		w.Calls = append(w.Calls, c)
	}
	gate := lp.K * 3 / 4
	if gate > 24 {
		gate = 24
	}
	lp.Own = rapid.IntRange(1, 12).Draw(t, "ownCalls")
	largeOK := lp.TA >= 1500
	for i := 0; i < lp.Own; i++ {
		lb := fmt.Sprintf("own%d.", i)
		a := attPlan{LatUs: rapid.IntRange(0, 2000).Draw(t, lb+"fast")}
		if rapid.IntRange(0, 3).Draw(t, lb+"medium") == 3 { // answered within the timeout, not at once
			a.LatUs = rapid.IntRange(lp.TA*250, lp.TA*500).Draw(t, lb+"mediumLat")
		}
		c := callPlan{Src: 0, Dst: peer(lb + "dst"), WaitBusy: gate, PreUs: rapid.IntRange(0, lp.DLo*600).Draw(t, lb+"pre"), Att: rep4(a)}
		switch s := rapid.IntRange(0, 5).Draw(t, lb+"size"); {
		case s == 1:
			c.Sized, c.ReqSize, c.RespSize = true, 100, []int{0, 1, 100, 64 << 10}[rapid.IntRange(0, 3).Draw(t, lb+"small")]
		case s == 2 && largeOK && i < 2:
			c.Sized, c.ReqSize, c.RespSize = true, 100, []int{1<<20 + 1, 1 << 20, 2 << 20, 1<<20 - 1, 4 << 20}[rapid.IntRange(0, 4).Draw(t, lb+"large")]
		}
		w.Calls = append(w.Calls, c)
	}
	lp.FastIn = rapid.IntRange(0, 4).Draw(t, "fastInbound")
	for i := 0; i < lp.FastIn; i++ { // a peer's request that A's handler answers at once, sent while A is busy
		lb := fmt.Sprintf("fin%d.", i)
		w.Calls = append(w.Calls, callPlan{Src: peer(lb + "src"), Dst: 0, WaitBusy: gate, PreUs: rapid.IntRange(0, lp.DLo*600).Draw(t, lb+"pre"),
			Att: rep4(attPlan{LatUs: rapid.IntRange(0, 2000).Draw(t, lb+"fast")})})
	}
	for _, i := range nestOf { // requests issued by A's slow handlers, appended behind the calls that workers run
		lb := fmt.Sprintf("nest%d.", i)
		n := callPlan{Src: 0, Dst: peer(lb + "dst"), Nested: true, Att: rep4(attPlan{LatUs: rapid.IntRange(0, 2000).Draw(t, lb+"fast")})}
		w.Calls = append(w.Calls, n)
		ni := len(w.Calls) - 1
		w.Calls[i].Nest = ni + 1
		lp.Nested++
		if rapid.IntRange(0, 3).Draw(t, lb+"callBack") == 0 { // the peer's handler calls A back before it answers
			w.Calls = append(w.Calls, callPlan{Src: n.Dst, Dst: 0, Nested: true, Att: rep4(attPlan{LatUs: rapid.IntRange(0, 1000).Draw(t, lb+"backFast")})})
			w.Calls[ni].Nest = len(w.Calls)
			lp.Depth2++
		}
	}
	w.Workers = len(w.Calls) // every call a worker runs has a goroutine of its own
	return w
}

func loadLimit() int {
	if s := os.Getenv("VERIF_C17_LOAD"); s != "" {
		if n, err := strconv.Atoi(s); err == nil && n >= 0 {
			return n
		}
	}
	if evid.Thorough() {
		return 60
	}
	return 8
}

// confirmLoad: a suspect of the in-time-reply rule counts only if the same workload shows a suspect FOR THE SAME CALL in 3
// of 3 runs. (A run has up to a few hundred judged calls; "some call in every run" is what a merely slow machine produces -
// seen in the first thorough run: 16 processes on 16 cores at load 100, K = 100, 23-29 heartbeats inside a 200 ms timeout,
// a different call each time. A defect of the layer hits the calls that meet its condition, run after run.)
func confirmLoad(t fataler, kind string, w *workload, first *verdict) {
	common := map[int][]string{}
	for i, s := range first.ld.candCalls {
		common[i] = []string{s}
	}
	for i := 0; i < 2; i++ {
		v, err := runCase(w)
		if err != nil {
			return
		}
		record(t, kind+":confirm", w, v)
		for ci := range common {
			if s, ok := v.ld.candCalls[ci]; ok {
				common[ci] = append(common[ci], s)
			} else {
				delete(common, ci)
			}
		}
		if len(common) == 0 {
			evid.R.Label("load:suspect-not-reproduced", 1)
			evid.R.Inconclusive("bidirectional-load suspect not reproduced for the same call in re-run %d (not a verdict): %s", i+2, trunc(first.ld.cand[0], 600))
			return
		}
	}
	cis := make([]int, 0, len(common))
	for ci := range common {
		cis = append(cis, ci)
	}
	sort.Ints(cis)
	msg := ""
	for _, s := range common[cis[0]] {
		msg += "\n  " + trunc(s, 1800)
	}
	t.Fatalf("C17 violated: a reply that its responder produced well within the timeout (within a quarter of it) is not delivered to the waiting request, which times out and is sent again (the same call(s) %v in 3 of 3 runs of the same workload; judged only for first attempts, without a late process heartbeat during the call, with >= %d heartbeats and >= 3/4 of the nominal heartbeats between reply and timer); call %d:%s", cis, replyBeats, cis[0], msg)
}

func trunc(s string, n int) string {
	if len(s) > n {
		return s[:n] + "…"
	}
	return s
}

func checkLoad(t fataler, kind string, w *workload, v *verdict) {
	if len(v.ld.cand) > 0 {
		confirmLoad(t, kind, w, v)
	}
}

func TestLoad(t *testing.T) {
	limit, n, failed := loadLimit(), 0, false
	rapid.Check(t, func(rt *rapid.T) {
		if n >= limit && !failed { // budget reached (shrinking after a failure is not cut short)
			return
		}
		n++
		w := drawLoad(rt)
		v, err := runCase(w)
		if err != nil {
			return // infrastructure, recorded as inconclusive
		}
		if len(v.viol) > 0 || len(v.ld.cand) > 0 {
			failed = true
		}
		record(rt, "load", w, v)
		checkLoad(rt, "load", w, v)
	})
}

// ---- directed forms (every tier) ----

// directedSlowInbound: 40 requests of node 1 are being served by node 0 (handler delay 800 ms, inside node 1's timeout of
// 4.2 s) when node 0 asks node 1 two things of its own (answered at once; node 0's timeout is 250 ms = 50 heartbeats on an
// idle machine, 20 are required for a verdict). Nothing that node 0 does for others may keep the replies to its own
// requests from being delivered.
func directedSlowInbound() *workload {
	lp := &loadPlan{K: 40, Peers: 1, TA: 250, TP: 4200, DLo: 800, DHi: 800, Own: 2, Variant: "directed:40-slow-inbound+own-request"}
	w := &workload{Load: lp, NConn: 2, TimeoutMs: lp.TP, NodeT: []int{lp.TA, lp.TP}, Force: true}
	for i := 0; i < lp.K; i++ {
		w.Calls = append(w.Calls, callPlan{Src: 1, Dst: 0, PreUs: 50 * i, Att: rep4(attPlan{LatUs: 800000})})
	}
	w.Calls = append(w.Calls, callPlan{Src: 0, Dst: 1, WaitBusy: 24, PreUs: 20000, Att: rep4(fastAtt())})
	w.Calls = append(w.Calls, callPlan{Src: 0, Dst: 1, WaitBusy: 24, PreUs: 200000, Att: rep4(fastAtt())})
	w.Workers = len(w.Calls)
	return w
}

func TestRegressSlowInboundHandlersDoNotDelayOwnReplies(t *testing.T) {
	w := directedSlowInbound()
	v, err := runCase(w)
	if err != nil {
		return // infrastructure, recorded as inconclusive
	}
	record(t, "directed:slow-inbound-handlers+own-request", w, v)
	checkLoad(t, "directed:slow-inbound-handlers+own-request", w, v)
	if v.ld.maxServed < 32 {
		evid.R.Note("directed slow-inbound-handlers+own-request: only %d handlers were running at once on node 0 (planned 40)", v.ld.maxServed)
	}
}

// directedLargeResponse: one call whose response is 1 MiB + 1 byte, one whose request is, both directions, a plain call in
// between; timeout 2 s. The reply is on the requester's node within milliseconds: it must come back byte for byte, from one
// handler run, and nobody is penalised for it.
func directedLargeResponse() *workload {
	lp := &loadPlan{K: 0, Peers: 1, TA: 2000, TP: 2000, Variant: "directed:1MiB+1"}
	w := &workload{Load: lp, NConn: 2, TimeoutMs: 2000, Workers: 1, Force: true}
	w.Calls = []callPlan{
		{Src: 0, Dst: 1, Sized: true, ReqSize: 100, RespSize: 1<<20 + 1, Att: rep4(fastAtt())},
		{Src: 0, Dst: 1, Att: rep4(fastAtt())},
		{Src: 1, Dst: 0, Sized: true, ReqSize: 1<<20 + 1, RespSize: 100, Att: rep4(fastAtt())},
		{Src: 1, Dst: 0, Sized: true, ReqSize: 100, RespSize: 1<<20 + 1, Att: rep4(fastAtt())},
		{Src: 0, Dst: 1, Att: rep4(fastAtt())},
	}
	return w
}

func TestRegressLargeResponse(t *testing.T) {
	w := directedLargeResponse()
	v, err := runCase(w)
	if err != nil {
		return // infrastructure, recorded as inconclusive
	}
	record(t, "directed:large-response", w, v)
	checkLoad(t, "directed:large-response", w, v)
	if v.sz.exact < 3 {
		evid.R.Note("directed large-response: %d of 3 sized responses came back (the others ended with an allowed error)", v.sz.exact)
	}
}
