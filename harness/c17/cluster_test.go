package c17

// Cluster of started p2p.Connections on loopback aliases, the observing no-op logger, goroutine-dump helpers.

import (
	"bytes"
	"context"
	"fmt"
	"os"
	"runtime"
	"strconv"
	"strings"
	"sync"
	"sync/atomic"
	"time"

	"github.com/LiskHQ/lisk-engine/pkg/log"
	"github.com/LiskHQ/lisk-engine/pkg/p2p"
)

const proc = "c17echo"

// Text of the warning onResponse logs when a response has no pending entry. It is the only way to observe a dropped
// response from outside (the three schedule points sit on the "found" paths); if the text changes the harness merely
// loses this signal (holds run into their caps, nothing is asserted from the absence of the line).
const unknownPrefix = "Response message received for unknown request ID"

const maxConns = 4 // cases use 2-3; the fourth node serves as the third responder host of identical-payload groups

// obsLogger swallows everything (log.NewSilentLogger still prints errors) and reports the "unknown request ID" warning.
type obsLogger struct{}

func (obsLogger) Debug(string, ...interface{})   {}
func (obsLogger) Info(string, ...interface{})    {}
func (obsLogger) Error(string, ...interface{})   {}
func (obsLogger) Debugf(string, ...interface{})  {}
func (obsLogger) Infof(string, ...interface{})   {}
func (obsLogger) Errorf(msg string, a ...interface{}) {
	if traceErrors {
		fmt.Fprintf(os.Stderr, "  c17 engine error log: "+msg+"\n", a...)
	}
}

var traceErrors = os.Getenv("VERIF_C17_TRACE") == "2" // diagnosis only
func (obsLogger) Warning(string, ...interface{}) {}
func (obsLogger) Warningf(msg string, others ...interface{}) {
	if len(others) == 1 && strings.HasPrefix(msg, unknownPrefix) {
		if id, ok := others[0].(string); ok {
			onUnknown(id)
		}
	}
}
func (l obsLogger) With(...interface{}) log.Logger { return l }

type cluster struct {
	conns   []*p2p.Connection
	ids     []p2p.PeerID
	wedged  bool
	cases   int
	serial  int
	stopped bool
	stopMu  sync.Mutex
	stopCn  map[int]bool // connections already stopped (a peer of the broadcast class may stop while the calls run)
}

// stopConn stops connection i once; wait = on the calling goroutine.
func (cl *cluster) stopConn(i int, wait bool) {
	cl.stopMu.Lock()
	if cl.stopCn == nil {
		cl.stopCn = map[int]bool{}
	}
	done := cl.stopCn[i]
	cl.stopCn[i] = true
	cl.stopMu.Unlock()
	if done {
		return
	}
	c := cl.conns[i]
	if wait {
		_ = c.Stop()
		return
	}
	go func() { _ = c.Stop() }()
}

var clusterSerial int32

// newCluster starts maxConns connections on 127.0.0.2.. and connects them pairwise.
func newCluster() (*cluster, error) {
	cl := &cluster{serial: int(atomic.AddInt32(&clusterSerial, 1))}
	for i := 0; i < maxConns; i++ {
		cfg := &p2p.Config{
			Addresses: []string{fmt.Sprintf("/ip4/127.0.0.%d/tcp/0", 2+i)},
			ChainID:   []byte{0xc1, 0x70, 0, 0},
			Version:   "1.0",
		}
		conn := p2p.NewConnection(obsLogger{}, cfg)
		node := i
		// Every node registers the procedure: onResponse drops (and bans the sender of) responses for procedures the
		// receiving node has no handler for. Rate limiting (100 msgs / 10 s by default, then penalties up to a ban)
		// belongs to C18 and is switched off through the public option.
		if err := conn.RegisterRPCHandler(proc, func(w p2p.ResponseWriter, req *p2p.Request) { handle(node, w, req) },
			p2p.WithRPCMessageCounter(1<<30, 0)); err != nil {
			return nil, err
		}
		if err := conn.Start([]byte(fmt.Sprintf("c17-%d-%d", cl.serial, i))); err != nil {
			return nil, err
		}
		cl.conns = append(cl.conns, conn)
		cl.ids = append(cl.ids, conn.ID())
	}
	ctx, cancel := context.WithTimeout(context.Background(), 60*time.Second)
	defer cancel()
	for i := 0; i < maxConns; i++ {
		for j := i + 1; j < maxConns; j++ {
			addrs, err := cl.conns[j].MultiAddress()
			if err != nil || len(addrs) == 0 {
				return nil, fmt.Errorf("no address for node %d: %v", j, err)
			}
			ai, err := p2p.AddrInfoFromMultiAddr(addrs[0])
			if err != nil {
				return nil, err
			}
			if err := cl.conns[i].Connect(ctx, *ai); err != nil {
				return nil, fmt.Errorf("connect %d->%d: %v", i, j, err)
			}
		}
	}
	return cl, nil
}

// stop shuts the connections down in the background (a wedged layer leaves its goroutines parked; that is counted, not
// waited for).
func (cl *cluster) stop() {
	if cl == nil || cl.stopped {
		return
	}
	cl.stopped = true
	for i := range cl.conns {
		cl.stopConn(i, false)
	}
}

var (
	clMu sync.Mutex
	cur  *cluster
)

// currentCluster returns a healthy cluster, replacing it when wedged or after 40 cases (bounds what one case can leave
// behind for the next ones).
func currentCluster() (*cluster, error) {
	clMu.Lock()
	defer clMu.Unlock()
	if cur != nil && (cur.wedged || cur.cases >= 40) {
		cur.stop()
		cur = nil
	}
	if cur == nil {
		t0 := time.Now()
		cl, err := newCluster()
		if err != nil {
			return nil, err
		}
		if os.Getenv("VERIF_C17_TRACE") != "" {
			fmt.Fprintf(os.Stderr, "c17 cluster %d started in %v (goroutines %d)\n", cl.serial, time.Since(t0).Round(time.Millisecond), runtime.NumGoroutine())
		}
		cur = cl
	}
	cur.cases++
	return cur, nil
}

func dropCluster() {
	clMu.Lock()
	defer clMu.Unlock()
	if cur != nil {
		cur.stop()
		cur = nil
	}
}

// ---- goroutine identity and dumps ----

func gid() int64 {
	var b [64]byte
	n := runtime.Stack(b[:], false)
	s := b[:n]
	s = bytes.TrimPrefix(s, []byte("goroutine "))
	if i := bytes.IndexByte(s, ' '); i > 0 {
		v, _ := strconv.ParseInt(string(s[:i]), 10, 64)
		return v
	}
	return -1
}

type gInfo struct {
	ID    int64
	State string
	Stack string
}

func dumpGoroutines() []gInfo {
	buf := make([]byte, 1<<20)
	for {
		n := runtime.Stack(buf, true)
		if n < len(buf) {
			buf = buf[:n]
			break
		}
		buf = make([]byte, 2*len(buf))
	}
	var out []gInfo
	for _, blk := range strings.Split(string(buf), "\n\n") {
		if !strings.HasPrefix(blk, "goroutine ") {
			continue
		}
		head := blk
		if i := strings.IndexByte(blk, '\n'); i >= 0 {
			head = blk[:i]
		}
		rest := strings.TrimPrefix(head, "goroutine ")
		sp := strings.IndexByte(rest, ' ')
		if sp < 0 {
			continue
		}
		id, _ := strconv.ParseInt(rest[:sp], 10, 64)
		st := ""
		if a, b := strings.IndexByte(rest, '['), strings.LastIndexByte(rest, ']'); a >= 0 && b > a {
			st = rest[a+1 : b]
		}
		out = append(out, gInfo{ID: id, State: st, Stack: blk})
	}
	return out
}

// Goroutines already attributed to an abandoned (wedged) cluster; they stay parked for the rest of the process.
var (
	knownParkedMu sync.Mutex
	knownParked   = map[int64]bool{}
)

// parkedInOnResponse returns goroutines blocked on a channel send inside MessageProtocol.onResponse.
func parkedInOnResponse(gs []gInfo) []gInfo {
	knownParkedMu.Lock()
	defer knownParkedMu.Unlock()
	var out []gInfo
	for _, g := range gs {
		if knownParked[g.ID] {
			continue
		}
		if strings.HasPrefix(g.State, "chan send") && strings.Contains(g.Stack, "p2p.(*MessageProtocol).onResponse") {
			out = append(out, g)
		}
	}
	return out
}

// lockWaiters counts goroutines waiting for a mutex inside the request/response layer (the other half of the cycle).
func lockWaiters(gs []gInfo) (inSend, inOnResponse int) {
	for _, g := range gs {
		if !strings.HasPrefix(g.State, "sync.Mutex.Lock") && !strings.HasPrefix(g.State, "semacquire") {
			continue
		}
		if strings.Contains(g.Stack, "p2p.(*MessageProtocol).sendRequestMessage") {
			inSend++
		} else if strings.Contains(g.Stack, "p2p.(*MessageProtocol).onResponse") {
			inOnResponse++
		}
	}
	return
}

func markParked(gs []gInfo) {
	knownParkedMu.Lock()
	defer knownParkedMu.Unlock()
	for _, g := range gs {
		knownParked[g.ID] = true
	}
}

// persistentlyParked: the same goroutines are parked in onResponse's channel send in two dumps `gap` apart.
func persistentlyParked(gap time.Duration) []gInfo {
	a := parkedInOnResponse(dumpGoroutines())
	if len(a) == 0 {
		return nil
	}
	time.Sleep(gap)
	b := parkedInOnResponse(dumpGoroutines())
	ids := map[int64]bool{}
	for _, g := range a {
		ids[g.ID] = true
	}
	var out []gInfo
	for _, g := range b {
		if ids[g.ID] {
			out = append(out, g)
		}
	}
	return out
}
