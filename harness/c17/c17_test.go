// Package c17: property C17 - P2P request/response: correct correlation, no lost replies, no deadlock.
//
// 2-3 started p2p.Connections on loopback; every node registers an echo handler that answers with a token derived from
// the request payload and the request message ID after a planned latency. A rapid-drawn workload runs 1-200 RequestFrom
// calls from several goroutines with latencies clustered around the (hook-shortened) timeout, context cancellations,
// duplicate/unsolicited raw responses, and per-attempt directives executed at the three schedule points of
// message_protocol.go (build tag verif) that order the races named by the statement. Oracles are timing-robust: nothing
// is concluded from elapsed wall-clock time, "blocked forever" needs a goroutine dump showing onResponse parked in a
// channel send, "lost reply" needs hook-ordered knowledge that the response was processed before the requester started
// to wait. Further classes: stalled peer (stalled_test.go), late-response storm + blocked-layer watchdog (storm_test.go),
// identical payloads (twins_test.go), Connection.Broadcast on a hub with 1-6 peers (bcast_test.go), shapes of the caller's
// context incl. deadlines (ctx_test.go: the only place where elapsed time is bounded - generous upper bounds, confirmed
// 3 of 3 times), payload sizes 0 bytes .. 4 MiB as a dimension of the ordinary classes and a node that serves 8-100 slow
// inbound requests while it issues its own (load_test.go). See /verif/notes/C17.md.
package c17

import (
	"bytes"
	"context"
	"encoding/json"
	"errors"
	"fmt"
	"os"
	"sort"
	"strconv"
	"strings"
	"sync"
	"sync/atomic"
	"testing"
	"time"

	"github.com/LiskHQ/lisk-engine/pkg/p2p"
	"pgregory.net/rapid"

	"verifharness/evid"
)

func TestMain(m *testing.M) {
	pinProtocolConstants()
	heartbeat()
	p2p.VerifSetSched(sched)
	evid.Main(m, "C17")
}

// documentedMaxRetries: a request is retried 3 times = 4 attempts (pkg/p2p/message_protocol.go "messageMaxRetries = 3
// // Maximum number of retries for a request message"). Every budget of this package (handler runs and attempts per
// call, Broadcast attempts, elapsed-time bounds, attempt plans of the generators) reads p2p.VerifMaxRetries() for
// convenience; it is pinned here, before anything else in every process of the package (every tier, every shard), so
// that a changed constant fails the run instead of moving the oracle with it.
const documentedMaxRetries = 3

func pinProtocolConstants() {
	if got := p2p.VerifMaxRetries(); got != documentedMaxRetries {
		fmt.Printf("--- FAIL: TestMain (C17): p2p.messageMaxRetries = %d, documented retry budget %d (= %d attempts per request); the retry budget is part of the statement: "+
			"a changed constant is a violation, not a new expectation\nFAIL\n", got, documentedMaxRetries, documentedMaxRetries+1)
		os.Exit(1)
	}
}

// ---- signatures of the known findings (narrow: another violation of C17 is still reported) ----
const (
	sigLost        = "lost-reply:response-before-registration"
	sigDeadTimeout = "deadlock:onResponse-send-after-timeout"
	sigDeadCancel  = "deadlock:onResponse-send-after-cancel"
	sigDeadDup     = "deadlock:onResponse-send-duplicate"
)

// ---- directives executed at the schedule points (per attempt) ----
const (
	dirNone          = ""
	dirSleepSend     = "sleep-after-send"                       // requester sleeps between send and wait
	dirHoldEarly     = "hold-after-send-until-response-handled" // requester does not proceed until onResponse handled the reply
	dirHoldTimeout   = "hold-timeout-until-response-found"      // timer fired: requester waits (before taking resMu) until onResponse found its entry
	dirSleepTimeout  = "sleep-at-timeout"
	dirHoldDeliver   = "hold-deliver-until-timeout" // onResponse found the entry: waits (before delivering) until the requester's timer fired
	dirSleepDeliver  = "sleep-at-deliver"
	dirCancelDeliver = "cancel-at-deliver" // onResponse found the entry: the caller's context is cancelled before delivery
	// onResponse found NO entry (late reply: its request timed out / was cancelled) and stands at its "unknown request ID"
	// warning, still inside the resMu critical section: it waits there until another request of the same node is about to
	// register or to remove its pending entry (storm_test.go)
	dirHoldUnknown = "hold-at-unknown-id-until-request-registers"
)

const holdCap = 1200 * time.Millisecond // every hold gives up after this (then the order is simply not forced)

type attPlan struct {
	LatUs      int    `json:"lat_us"`
	Dir        string `json:"dir,omitempty"`
	DirUs      int    `json:"dir_us,omitempty"`
	DupBefore  bool   `json:"dup_before,omitempty"`
	DupAfter   int    `json:"dup_after,omitempty"`
	DupDelayUs int    `json:"dup_delay_us,omitempty"`
	Err        bool   `json:"err,omitempty"`
	// the handler never answers while the call runs (it returns its reply only after the call has returned); ctx_test.go
	Silent bool `json:"silent,omitempty"`
}

type callPlan struct {
	Src     int  `json:"src"`
	Dst     int  `json:"dst"`
	Hole    int  `json:"black_hole,omitempty"`  // > 0: the call addresses black hole #Hole instead of node Dst
	Unreach bool `json:"unreachable,omitempty"` // the call addresses a peer ID nobody knows an address of
	// the call is Connection.Broadcast (MessageProtocol.Broadcast) issued by node Src: one request per connected peer of Src
	// (bcast_test.go); Dst is unused. CancelFirst: its context is cancelled before the call starts.
	Bcast       bool `json:"broadcast,omitempty"`
	CancelFirst bool `json:"cancelled_before_call,omitempty"`
	// > 0: the call sends the byte-identical payload (and procedure) of every other call of the same group, and all
	// calls of the group are fired together within one wall-clock second (twins_test.go)
	Twin     int       `json:"identical_payload_group,omitempty"`
	PreUs    int       `json:"pre_us,omitempty"`
	Cancel   bool      `json:"cancel,omitempty"`
	CancelUs int       `json:"cancel_us,omitempty"`
	Att      []attPlan `json:"att"`
	// shape of the caller's context (ctx_test.go); "" = context.WithCancel, cancelled as planned by Cancel/CancelUs.
	// CtxUs: distance of the deadline / of the cancellation from the start of the call. Resp: responder kind (label only).
	Ctx   string `json:"ctx,omitempty"`
	CtxUs int    `json:"ctx_us,omitempty"`
	Resp  string `json:"responder,omitempty"`
	// payload-size dimension (load_test.go): Sized = request data of exactly ReqSize bytes and response data of exactly
	// RespSize bytes (header + NUL + deterministic padding; 0 and 1 byte: no header at all). Unsized calls send their
	// header only (a few dozen bytes), as before.
	Sized    bool `json:"sized,omitempty"`
	ReqSize  int  `json:"request_bytes,omitempty"`
	RespSize int  `json:"response_bytes,omitempty"`
	// bidirectional-load class (load_test.go): Nest > 0 = the handler that serves this call issues call Nest-1 (a call of
	// the responder node, marked Nested: it is not run by a worker) before it sleeps and answers; WaitBusy > 0 = the call
	// starts only once that many handlers are running on its own node (cap loadGateCap).
	Nest     int  `json:"handler_issues_call,omitempty"`
	Nested   bool `json:"issued_by_a_handler,omitempty"`
	WaitBusy int  `json:"starts_when_handlers_running,omitempty"`
}

type unsolPlan struct {
	From    int `json:"from"`
	To      int `json:"to"`
	DelayUs int `json:"delay_us"`
}

type workload struct {
	NConn     int         `json:"conns"`
	TimeoutMs int         `json:"timeout_ms"`
	Workers   int         `json:"workers"`
	Holes     int         `json:"black_holes,omitempty"` // stalled-peer class: number of silent listeners dialled as peers
	Calls     []callPlan  `json:"calls"`
	Unsol     []unsolPlan `json:"unsolicited,omitempty"`
	Force     bool        `json:"force,omitempty"` // directed reproduction: do not avoid known triggers
	Storm     bool        `json:"storm,omitempty"` // late-response-storm class (storm_test.go): liveness probe afterwards
	// context-shape class (ctx_test.go): every call carries a context shape; elapsed time is bounded (generous upper bounds)
	CtxClass string `json:"ctx_class,omitempty"`
	// broadcast class (bcast_test.go): private cluster per case - node 0 (hub) connected to Star peers (nodes 1..Star) that
	// are not connected among themselves; Peers[n] = how node n serves the requests of a Broadcast; Disturb = peers that
	// stop / are disconnected by the hub while the calls run
	Star     int           `json:"star_peers,omitempty"`
	Peers    []peerPlan    `json:"peers,omitempty"`
	Disturb  []disturbPlan `json:"disturb,omitempty"`
	dupsLate bool          // known duplicate-deadlock: duplicates are sent only after the call returned
	// bidirectional-load class (load_test.go): node 0 serves Load.K concurrent slow inbound requests while it issues its
	// own; NodeT = response timeout per node in ms (0 = TimeoutMs)
	Load  *loadPlan `json:"load,omitempty"`
	NodeT []int     `json:"node_timeout_ms,omitempty"`
}

// ---- per-case state fed by handler, schedule points and logger ----

type attState struct {
	id      string
	call    *callState
	idx     int
	plan    attPlan
	entered bool // after-send reached
	// released: after-send callback returned, i.e. from here on the requester may register/wait. Everything observed
	// while !released happened for certain before the requester started to wait for the response.
	released      bool
	handlerN      int
	foundN        int
	unknownN      int
	rawSent       int
	timeoutFired  bool
	foundEarly    bool // entry found while !released
	lostEarly     bool // reply dropped (unknown ID) while !released and nothing delivered before: certain lost reply
	foundAfterTO  bool
	capHit        bool
	answered      bool  // the handler returned its reply for this attempt ...
	answerBeat    int64 // ... at this process heartbeat
	timeoutBeat   int64 // heartbeat at which the attempt's timer fired
	foundCh       chan struct{}
	handledCh     chan struct{}
	timeoutCh     chan struct{}
	foundClosed   bool
	handledClosed bool
	timeoutClosed bool
	// storm class: the reply took the unknown-ID branch after its attempt's timer fired / its call was cancelled or had
	// returned (late), ... while other requests of the same node were in flight, ... and was held there until one of them
	// was about to take resMu
	lateUnknown bool
	lateConc    bool
	heldReg     bool
	// load_test.go: own clock at the return of the after-send callback / when the handler returned its reply; handlers
	// running on the REQUESTER's node when the handler returned the reply
	sentAt, answerAt time.Time
	busyAtAnswer     int32
}

type callState struct {
	idx       int
	plan      callPlan
	payload   string
	atts      []*attState
	handlerN  int
	cancel    context.CancelFunc
	cancelled bool
	cancelCh  chan struct{}
	done      chan struct{}
	returned  bool
	resp      p2p.Response
	// stalled-peer class: heartbeat stall counter at start/end of the call; a black-hole call was outstanding on the
	// requester when the call started or ended
	stallsStart, stallsEnd int64
	sawHole                bool
	wants                  atomic.Bool // about to take resMu (setWant)
	// identical-payload group member: wall-clock second at which its first attempt passed after-send; counted in the
	// group's in-flight counter
	firstSendSec int64
	twinInFlight bool
	// Broadcast call (bcast_test.go): its result, the connected peers of the caller just before the call, handler
	// invocations per responder node
	berr   error
	bPeers int
	bRuns  map[int]int
	cx     ctxCall // context-shape class (ctx_test.go)
	// load_test.go: bytes sent as request data (nil = the payload string), handler-issued call started, start gate gave up
	reqData []byte
	started atomic.Bool
	gateCap bool
}

type caseState struct {
	no         int64
	w          *workload
	cl         *cluster
	T          time.Duration
	mu         sync.Mutex
	calls      []*callState
	byGid      map[int64]*callState
	byID       map[string]*attState
	lastFnd    map[int]*attState // per requester node: entry found most recently (onResponse holds resMu from there to delivery)
	last       atomic.Int64
	inHand     atomic.Int32
	inCalls    atomic.Int32
	maxOver    atomic.Int32
	sent       atomic.Int64 // responses sent (handler + raw)
	handled    atomic.Int64 // responses seen by onResponse (found + unknown)
	unkOth     atomic.Int64
	misrte     atomic.Int64
	closing    chan struct{}
	holes      []*blackHole
	holeOut    [maxNodes]atomic.Int32 // calls to black holes outstanding per requester node
	holeStarts [maxNodes]atomic.Int32 // ... started so far
	maxStreak  atomic.Int32           // longest run of failed resMu probes while such a call was outstanding
	bg         atomic.Int32           // background senders (duplicates, unsolicited) still running; a plain counter: late handler runs may add while afterQuiescence waits
	lastBeat   atomic.Int64           // process heartbeat at the last event (touch)
	nodeIn     [maxNodes]atomic.Int32 // calls in flight per requester node
	wantLock   [maxNodes]atomic.Int32 // per requester node: calls that are about to take resMu (call about to start / timer fired, until the next after-send or the return)
	nProbes    int                    // storm class: calls appended to cs.calls for the liveness probe
	// Message IDs are not assumed to be unique per request (an engine may derive them from anything): every attempt that
	// passed after-send with an ID is an "owner" of that ID; found/unknown events are counted per ID.
	owners  map[string][]*attState
	idEv    map[string]*idEvents
	lostOut []string // IDs whose reply was dropped as unknown while a request with that ID was outstanding (certain)
	// identical-payload groups (twins_test.go)
	twins   map[int][]*callState
	gates   map[int]*twinGate
	invByID map[string][]*invRec
	invCnt  map[[2]int]int // (group, responder node) -> handler invocations so far
	subCnt  map[[3]int]int // (group, requester node, responder node) -> handler invocations so far
	// Broadcast calls (bcast_test.go): handler invocations per message ID, goroutines that executed a Broadcast call,
	// probe pairs (requester, responder) of the liveness probe
	bInv   map[string][]*bRec
	bGids  map[int64]bool
	probes [][2]int
	// Own-clock LOWER bound of the response timer (audit 2026-09): "the request is no longer waiting" is learnt from the
	// engine's own timeout-fired schedule point everywhere in this package (lost-reply rule, stalled-peer rule, late
	// replies of the storm class), so a timer that fires BEFORE the timeout set through VerifSetTimeout would move every
	// one of these oracles with it (a reply arriving inside the real deadline would count as late). For every attempt
	// (requester goroutine, message ID) the moment the after-send callback returns is read from this process's monotonic
	// clock - the engine creates its timer after that -; when timeout-fired is reached on the same goroutine the elapsed
	// time must be >= the timeout in force - timerTolerance. A timer cannot fire early because of load, only late, so the
	// rule needs no heartbeat guard. expT = timeout currently set (ns); sends/earlyTO/timers* under mu.
	expT          atomic.Int64
	sends         map[sendKey]sendRec
	earlyTO       []string
	earlyN        int
	timersChecked int
	timersNoSend  int           // timeout-fired without a recorded after-send of that goroutine and ID, or not attributable to this case (not judged)
	minMargin     time.Duration // smallest (elapsed - timeout) seen in this case
	// load_test.go: identical-payload group whose requests carry 0 / 1 byte of data; requests whose data arrived altered;
	// handlers running per node (now / maximum); gater and connection state after the case
	tinyGroup   [2]int
	reqAltered  []string
	inHandNode  [maxNodes]atomic.Int32
	maxHandNode [maxNodes]atomic.Int32
	peersBad    []string
	peersGone   []string
	peers0      peerSnap
	peers0ok    bool
}

const (
	sigTimerEarly  = "deadline:response-timer-fired-before-the-timeout"
	timerTolerance = time.Millisecond // clock granularity; Go timers and the monotonic clock never run ahead
)

type sendKey struct {
	g  int64
	id string
}

type sendRec struct {
	at  time.Time
	exp int64
	own bool // sent by a goroutine that is executing a RequestFrom call of this case
	// exp is the timeout of the requester's node set for the whole case (workload.NodeT; no liveness probe changes it)
	fixed bool
}

// markSent: the after-send callback of goroutine g for message ID id is about to return (the engine arms its response
// timer only afterwards).
func (cs *caseState) markSent(g int64, id string, c *callState) {
	exp, fixed := cs.expT.Load(), false
	if c != nil && c.plan.Src < len(cs.w.NodeT) && cs.w.NodeT[c.plan.Src] > 0 {
		exp, fixed = int64(time.Duration(cs.w.NodeT[c.plan.Src])*time.Millisecond), true
	}
	cs.mu.Lock()
	if cs.sends == nil {
		cs.sends = map[sendKey]sendRec{}
	}
	cs.sends[sendKey{g, id}] = sendRec{at: time.Now(), exp: exp, own: c != nil, fixed: fixed}
	cs.mu.Unlock()
}

// checkTimer: goroutine g reached timeout-fired for message ID id; fired was read from the own clock on entry of the
// callback (so it is not earlier than the moment the engine's timer fired).
func (cs *caseState) checkTimer(g int64, id string, fired time.Time) {
	exp := cs.expT.Load()
	cs.mu.Lock()
	defer cs.mu.Unlock()
	k := sendKey{g, id}
	r, ok := cs.sends[k]
	if !ok {
		cs.timersNoSend++
		return
	}
	delete(cs.sends, k)
	// Only requests of THIS case are judged (its timeout is the one this case set on its own cluster): the requester runs a
	// RequestFrom call of the case, or a handler of the case recorded the message ID for one of its Broadcast calls (the
	// payload names case and call). A straggler of an abandoned cluster (wedged / over budget earlier) runs with that
	// cluster's timeout and is none of our business.
	if !r.own && len(cs.bInv[id]) == 0 {
		cs.timersNoSend++
		return
	}
	if r.fixed || r.exp < exp { // the timeout was changed between send and now (liveness probe): the smaller value is the bound
		exp = r.exp
	}
	waited := fired.Sub(r.at)
	margin := waited - time.Duration(exp)
	if cs.timersChecked == 0 || margin < cs.minMargin {
		cs.minMargin = margin
	}
	cs.timersChecked++
	if margin < -timerTolerance {
		cs.earlyN++
		if len(cs.earlyTO) < 3 {
			cs.earlyTO = append(cs.earlyTO, fmt.Sprintf("message ID %s (requester goroutine %d): the response timer fired %v after the after-send schedule point returned, "+
				"the response timeout set through VerifSetTimeout is %v (own monotonic clock; a reply arriving in the remaining %v would be treated as late)",
				id, g, waited, time.Duration(exp), time.Duration(exp)-waited))
		}
	}
}

// idEvents: what onResponse did with the responses carrying one message ID.
type idEvents struct {
	found, unknown int
	// the reply was dropped as "unknown request ID" while more requests with this ID were outstanding (after-send
	// passed, timer not fired, context not cancelled) than responses with this ID had found a pending entry
	lostWaiting, lostFound int
}

func (cs *caseState) ev(id string) *idEvents { // cs.mu held
	e := cs.idEv[id]
	if e == nil {
		e = &idEvents{}
		cs.idEv[id] = e
	}
	return e
}

var (
	caseNo  atomic.Int64
	curMu   sync.Mutex
	current *caseState
)

func curCase() *caseState {
	curMu.Lock()
	defer curMu.Unlock()
	return current
}

func setCase(cs *caseState) {
	curMu.Lock()
	current = cs
	curMu.Unlock()
}

func (cs *caseState) touch() {
	cs.last.Store(time.Now().UnixNano())
	cs.lastBeat.Store(hbBeats.Load())
}

// att returns the attempt state of a message ID, creating it (next attempt index of the call) when first seen -
// by the requester at after-send or by the handler, whichever comes first.
func (cs *caseState) att(id string, c *callState) *attState {
	cs.mu.Lock()
	defer cs.mu.Unlock()
	for _, a := range cs.owners[id] {
		if a.call == c {
			return a
		}
	}
	a := &attState{id: id, call: c, idx: len(c.atts), foundCh: make(chan struct{}), handledCh: make(chan struct{}), timeoutCh: make(chan struct{})}
	pi := a.idx
	if pi >= len(c.plan.Att) {
		pi = len(c.plan.Att) - 1
	}
	a.plan = c.plan.Att[pi]
	c.atts = append(c.atts, a)
	cs.owners[id] = append(cs.owners[id], a)
	if _, ok := cs.byID[id]; ok {
		return a // the ID is in use by another request as well: ID-keyed events stay with its first owner
	}
	cs.byID[id] = a
	// Attempts of identical-payload calls are created by the requester only (the handler cannot tell the calls of a
	// group apart): responses handled before the requester got here were counted per ID.
	if e := cs.idEv[id]; e != nil {
		if e.found > 0 {
			a.foundN, a.foundEarly = e.found, true
			a.foundClosed, a.handledClosed = true, true
			close(a.foundCh)
			close(a.handledCh)
		} else if e.unknown > 0 {
			a.unknownN, a.lostEarly = e.unknown, true
			a.handledClosed = true
			close(a.handledCh)
		}
	}
	return a
}

// attOf returns the attempt of call c that uses message ID id (cs.mu held); nil if there is none.
func (cs *caseState) attOf(id string, c *callState) *attState {
	for _, a := range cs.owners[id] {
		if a.call == c {
			return a
		}
	}
	return nil
}

func sleepUs(us int) {
	if us > 0 {
		time.Sleep(time.Duration(us) * time.Microsecond)
	}
}

// waitAny blocks until one of the channels is closed or the cap elapses; false = cap.
func waitAny(limit time.Duration, chs ...<-chan struct{}) bool {
	t := time.NewTimer(limit)
	defer t.Stop()
	switch len(chs) {
	case 1:
		select {
		case <-chs[0]:
			return true
		case <-t.C:
			return false
		}
	default:
		select {
		case <-chs[0]:
			return true
		case <-chs[1]:
			return true
		case <-t.C:
			return false
		}
	}
}

// sched is the process-wide schedule-point callback (p2p.VerifSetSched).
func sched(point string, id string) {
	now := time.Now() // own monotonic clock, read before anything else (see checkTimer)
	cs := curCase()
	if cs == nil {
		return
	}
	cs.touch()
	switch point {
	case p2p.VerifPointAfterSend:
		g := gid()
		cs.mu.Lock()
		c := cs.byGid[g]
		cs.mu.Unlock()
		defer cs.markSent(g, id, c) // last thing before the engine goes on to arm its response timer (every return below)
		if c == nil {
			return
		}
		a := cs.att(id, c)
		cs.mu.Lock()
		a.entered = true
		cs.mu.Unlock()
		cs.twinSent(c, a)
		cs.setWant(c, false) // registered and sent
		switch a.plan.Dir {
		case dirSleepSend:
			sleepUs(a.plan.DirUs)
		case dirHoldEarly:
			if !waitAny(holdCap+time.Duration(a.plan.LatUs)*time.Microsecond, a.handledCh) {
				cs.mu.Lock()
				a.capHit = true
				cs.mu.Unlock()
			}
		}
		cs.mu.Lock()
		a.released = true
		a.sentAt = time.Now()
		cs.mu.Unlock()
	case p2p.VerifPointTimeout:
		g := gid() // the point is reached on the requester's goroutine
		// "Timed out" is the engine's word; before any oracle below takes it as the end of the waiting period, the timer
		// must not have fired earlier than the timeout this harness set (own clock, lower bound only).
		cs.checkTimer(g, id, now)
		cs.mu.Lock()
		var a *attState
		if c := cs.byGid[g]; c != nil {
			a = cs.attOf(id, c)
		}
		if a == nil {
			a = cs.byID[id]
		}
		if a == nil {
			cs.mu.Unlock()
			return
		}
		a.timeoutFired = true
		a.timeoutBeat = hbBeats.Load()
		cs.setWant(a.call, true) // next: resMu.Lock to remove the pending entry, then the retry registers
		if !a.timeoutClosed {
			a.timeoutClosed = true
			close(a.timeoutCh)
		}
		cs.mu.Unlock()
		switch a.plan.Dir {
		case dirHoldTimeout:
			if !waitAny(holdCap, a.foundCh) {
				cs.mu.Lock()
				a.capHit = true
				cs.mu.Unlock()
			}
		case dirSleepTimeout:
			sleepUs(a.plan.DirUs)
		}
	case p2p.VerifPointDeliver:
		cs.mu.Lock()
		a := cs.byID[id]
		if a == nil {
			if cs.knownTwinID(id) { // identical-payload call whose requester has not reached after-send yet
				cs.ev(id).found++
				cs.handled.Add(1)
			}
			cs.mu.Unlock()
			return
		}
		cs.ev(id).found++
		cs.handled.Add(1)
		a.foundN++
		first := a.foundN == 1
		if !a.released {
			a.foundEarly = true
		}
		if a.timeoutFired {
			a.foundAfterTO = true
		}
		if !a.foundClosed {
			a.foundClosed = true
			close(a.foundCh)
		}
		if !a.handledClosed {
			a.handledClosed = true
			close(a.handledCh)
		}
		cs.lastFnd[a.call.plan.Src] = a
		cs.mu.Unlock()
		if !first {
			return
		}
		switch a.plan.Dir {
		case dirHoldDeliver:
			if !waitAny(cs.T+300*time.Millisecond, a.timeoutCh, a.call.cancelCh) {
				cs.mu.Lock()
				a.capHit = true
				cs.mu.Unlock()
			}
		case dirSleepDeliver:
			sleepUs(a.plan.DirUs)
		case dirCancelDeliver:
			cs.cancelCall(a.call)
			time.Sleep(3 * time.Millisecond) // let the waiter leave its select through ctx.Done
		}
	}
}

// onUnknown: onResponse logged that a response had no pending entry.
func onUnknown(id string) {
	cs := curCase()
	if cs == nil {
		return
	}
	cs.touch()
	cs.mu.Lock()
	a := cs.byID[id]
	if a == nil {
		if cs.knownTwinID(id) {
			cs.ev(id).unknown++
		}
		cs.unkOth.Add(1)
		cs.mu.Unlock()
		return
	}
	cs.handled.Add(1)
	a.unknownN++
	// Certain lost reply: the pending entry of a request is present from before its send until its timer fired
	// (timeout-fired precedes the removal), its context was cancelled (flag set before cancel()) or a response was
	// handed to it (before-deliver precedes the hand-over) - all ordered with this line through resMu. So if more
	// requests with this ID are outstanding than responses with this ID found an entry, the entry of a waiting
	// request was missing and its reply has just been dropped.
	e := cs.ev(id)
	e.unknown++
	// (timeoutFired is the engine's own statement; that its timer did not fire before the timeout set by this harness is
	// checked separately on the own clock, see checkTimer)
	waiting := 0
	for _, o := range cs.owners[id] {
		if o.entered && !o.timeoutFired && !o.call.ctxOver() {
			waiting++
		}
	}
	if waiting > e.found && e.lostWaiting == 0 {
		e.lostWaiting, e.lostFound = waiting, e.found
		cs.lostOut = append(cs.lostOut, id)
	}
	if !a.released && a.foundN == 0 {
		a.lostEarly = true
	}
	if !a.handledClosed {
		a.handledClosed = true
		close(a.handledCh)
	}
	src := a.call.plan.Src
	if a.timeoutFired || a.call.ctxOver() || a.call.returned {
		a.lateUnknown = true
		others := int(cs.nodeIn[src].Load())
		if !a.call.returned {
			others--
		}
		if others > 0 {
			a.lateConc = true
		}
	}
	hold := a.plan.Dir == dirHoldUnknown && a.unknownN == 1
	cs.mu.Unlock()
	if hold {
		cs.holdUnknown(a, src)
	}
}

// setWant marks a call as being about to take resMu (see wantLock).
func (cs *caseState) setWant(c *callState, on bool) {
	if c.wants.CompareAndSwap(!on, on) {
		if on {
			cs.wantLock[c.plan.Src].Add(1)
		} else {
			cs.wantLock[c.plan.Src].Add(-1)
		}
	}
}

// holdUnknown keeps onResponse at its unknown-ID warning (inside the resMu critical section) until a requester of the
// node is about to take resMu - a call is about to start (registration) or a timer fired (removal, then the retry
// registers) and has not got through yet - plus DirUs for that requester to get there; gives up after 80 ms.
func (cs *caseState) holdUnknown(a *attState, src int) {
	dl := time.Now().Add(80 * time.Millisecond)
	for cs.wantLock[src].Load() <= 0 {
		if time.Now().After(dl) {
			cs.mu.Lock()
			a.capHit = true
			cs.mu.Unlock()
			return
		}
		select {
		case <-cs.closing:
			return
		default:
		}
		time.Sleep(100 * time.Microsecond)
	}
	sleepUs(a.plan.DirUs)
	cs.mu.Lock()
	a.heldReg = true
	cs.mu.Unlock()
	cs.touch()
}

func (cs *caseState) cancelCall(c *callState) {
	cs.mu.Lock()
	already := c.cancelled
	c.cancelled = true
	if !already && c.cx.endAt.IsZero() {
		c.cx.endAt = time.Now() // context-shape class: the moment the harness ended the context
	}
	cs.mu.Unlock()
	if !already {
		close(c.cancelCh)
		c.cancel()
	}
}

func payloadOf(no int64, idx int) string {
	return "c17|" + strconv.FormatInt(no, 10) + "|" + strconv.Itoa(idx)
}

// tokenOf: what a handler answers - the payload and message ID of the request it serves, the responder itself (node) and
// the number of this invocation (per call; per group and responder for identical-payload calls).
func tokenOf(isErr bool, payload, id string, node, k int) string {
	t := "tok|"
	if isErr {
		t = "err|"
	}
	return t + payload + "|" + id + "|r" + strconv.Itoa(node) + "|k" + strconv.Itoa(k)
}

// raw sends a response message without any handler (duplicate / unsolicited).
func (cs *caseState) raw(from, to int, id string, tok string, isErr bool) {
	ctx, cancel := context.WithTimeout(context.Background(), 5*time.Second)
	defer cancel()
	var err error
	if isErr {
		err = cs.cl.conns[from].VerifRespond(ctx, cs.cl.ids[to], id, proc, nil, errors.New(tok))
	} else {
		err = cs.cl.conns[from].VerifRespond(ctx, cs.cl.ids[to], id, proc, []byte(tok), nil)
	}
	if err == nil {
		cs.sent.Add(1)
	}
}

// handle is the RPC handler of every node.
func handle(node int, w p2p.ResponseWriter, req *p2p.Request) {
	cs := curCase()
	if cs != nil && len(req.Data) <= 1 {
		// request data of 0 / 1 byte (payload-size dimension): nothing in it names a call; such requests are the members
		// of one identical-payload group of the case and are attributed through their message IDs (twins_test.go)
		if g := cs.tinyGroup[len(req.Data)]; g > 0 {
			cs.handleTwin(node, "g"+strconv.Itoa(g), w, req)
			return
		}
	}
	hdr := req.Data
	if i := bytes.IndexByte(hdr, 0); i >= 0 { // sized request: header NUL padding
		hdr = hdr[:i]
	}
	parts := strings.Split(string(hdr), "|")
	if cs == nil || len(hdr) > 64 || len(parts) != 3 || parts[0] != "c17" || parts[1] != strconv.FormatInt(cs.no, 10) {
		w.Write([]byte("stale"))
		return
	}
	if strings.HasPrefix(parts[2], "g") {
		cs.handleTwin(node, parts[2], w, req)
		return
	}
	if strings.HasPrefix(parts[2], "b") {
		cs.handleBcast(node, parts[2], w, req)
		return
	}
	ci, err := strconv.Atoi(parts[2])
	if err != nil || ci < 0 || ci >= len(cs.calls) {
		w.Write([]byte("stale"))
		return
	}
	cs.inHand.Add(1)
	defer cs.inHand.Add(-1)
	cs.handlerEnter(node)
	defer cs.inHandNode[node].Add(-1)
	cs.touch()
	c := cs.calls[ci]
	if node != c.plan.Dst {
		cs.misrte.Add(1)
	}
	cs.checkRequestBytes(c, node, req)
	a := cs.att(req.ID, c)
	cs.mu.Lock()
	c.handlerN++
	a.handlerN++
	k := c.handlerN
	cs.mu.Unlock()
	pl := a.plan
	tok := tokenOf(pl.Err, c.payload, req.ID, node, k)
	src := c.plan.Src
	if c.plan.Nest > 0 && k == 1 { // bidirectional-load class: this handler asks a peer itself before it answers
		cs.runNested(c)
	}
	if pl.DupBefore && !cs.w.dupsLate {
		cs.mu.Lock()
		a.rawSent++
		cs.mu.Unlock()
		cs.raw(node, src, req.ID, tok, pl.Err)
	}
	if pl.Silent { // never answers while the call runs
		select {
		case <-c.done:
		case <-cs.closing:
		}
	}
	sleepUs(pl.LatUs)
	if pl.Err {
		w.Error(errors.New(tok))
	} else if c.plan.Sized {
		w.Write(sizedBytes(tok, c.plan.RespSize, sizeSeed(cs.no, c.idx, 1)))
	} else {
		w.Write([]byte(tok))
	}
	cs.sent.Add(1)
	busy := cs.inHandNode[src].Load()
	cs.mu.Lock()
	if !a.answered {
		a.answered, a.answerBeat, a.answerAt, a.busyAtAnswer = true, hbBeats.Load(), time.Now(), busy
	}
	cs.mu.Unlock()
	n := pl.DupAfter
	if pl.DupBefore && cs.w.dupsLate {
		n++
	}
	if n > 0 {
		cs.bg.Add(1)
		go func() {
			defer cs.bg.Add(-1)
			if cs.w.dupsLate {
				select {
				case <-c.done:
				case <-cs.closing:
					return
				}
			}
			sleepUs(pl.DupDelayUs)
			for k := 0; k < n; k++ {
				select {
				case <-cs.closing:
					return
				default:
				}
				cs.mu.Lock()
				a.rawSent++
				cs.mu.Unlock()
				cs.raw(node, src, req.ID, tok, pl.Err)
			}
		}()
	}
	cs.touch()
}

// ---- verdict ----

type violation struct {
	Sig    string
	Detail string
}

type verdict struct {
	viol     []violation
	incon    []string
	wedged   bool
	maxOver  int
	nCalls   int
	attempts int
	raceReg  int // replies handled before the requester started to wait (hook-ordered)
	raceTO   int // replies handled for an attempt whose timer fired (either order)
	foundTO  int // entry still present when the reply came although the timer had fired (the deadlock window)
	suspects int // reply found before the wait started, yet that attempt timed out
	capHits  int
	okN      int
	remErrN  int
	timeoutN int
	cancelN  int
	otherN   int
	dupsSent int
	unkOther int64
	// stalled-peer class
	stallCand      []string // suspects (need 3 of 3)
	lockStreak     int
	holeCalls      int
	judged         int // pristine healthy calls judged (no process stall during the call)
	judgeSkipped   int // ... not judged because the heartbeat was late during the call
	healthyBad     int
	healthyBadTwin int // ... of them identical-payload calls
	overlapHole    int // pristine healthy calls that overlapped an outstanding black-hole call on their node
	otherErrs      []string
	wall           time.Duration
	// blocked layer (mutex waits, requester parked beyond its timeout) and late-response-storm class
	blocked   bool
	lateN     int // replies that took the unknown-ID branch after timeout/cancellation of their attempt
	lateConc  int // ... while other requests of the same node were in flight
	heldReg   int // ... and were held in that branch until another requester was about to take resMu
	unreachN  int // calls to a peer nobody knows an address of that ended with an error
	probeN    int
	probeOK   int
	probeBad  []string
	starvedPr bool // a heartbeat was late during the liveness probe
	// other-error results of calls whose context had been cancelled (libp2p reports a cancellation during stream
	// negotiation as "i/o deadline reached")
	otherCancelledN int
	// response timers whose own-clock lower bound was checked (checkTimer) / timeout-fired events without a recorded send
	timersChecked, timersNoSend int
	timerMinMargin              time.Duration
	tw                          twinStats  // identical-payload groups (twins_test.go)
	bc                          bcastStats // Broadcast calls (bcast_test.go)
	cx                          ctxStats   // context shapes (ctx_test.go)
	sz                          sizeStats  // payload sizes (load_test.go)
	ld                          loadStats  // bidirectional load (load_test.go)
}

func (v *verdict) add(sig, format string, a ...any) {
	v.viol = append(v.viol, violation{Sig: sig, Detail: fmt.Sprintf(format, a...)})
}

func (a *attState) describe() string {
	return fmt.Sprintf("{attempt %d id=%s plan=%+v entered=%v released=%v handler=%d found=%d unknown=%d raw=%d timeoutFired=%v foundEarly=%v lostEarly=%v cap=%v}",
		a.idx, a.id, a.plan, a.entered, a.released, a.handlerN, a.foundN, a.unknownN, a.rawSent, a.timeoutFired, a.foundEarly, a.lostEarly, a.capHit)
}

func (c *callState) describe() string {
	var sb strings.Builder
	fmt.Fprintf(&sb, "call %d %d->%d cancelPlanned=%v cancelled=%v returned=%v handlerRuns=%d", c.idx, c.plan.Src, c.plan.Dst, c.plan.Cancel, c.cancelled, c.returned, c.handlerN)
	if c.plan.Sized {
		fmt.Fprintf(&sb, " SIZED(request %d bytes, response %d bytes)", c.plan.ReqSize, c.plan.RespSize)
	}
	if c.plan.Nested {
		sb.WriteString(" ISSUED-BY-A-HANDLER")
	}
	if c.plan.Bcast {
		fmt.Fprintf(&sb, " BROADCAST(connected peers before the call=%d cancelledBeforeCall=%v handler runs per node=%v", c.bPeers, c.plan.CancelFirst, c.bRuns)
		if c.returned {
			fmt.Fprintf(&sb, " returned err=%v", c.berr)
		}
		sb.WriteString(")")
	} else if c.returned {
		fmt.Fprintf(&sb, " result(data=%s err=%v)", previewBytes(c.resp.Data()), c.resp.Error())
	}
	if c.plan.Ctx != "" {
		sb.WriteString(" " + c.describeCtx())
	}
	for _, a := range c.atts {
		sb.WriteString("\n      " + a.describe())
	}
	return sb.String()
}

func stackExcerpt(gs []gInfo, max int) string {
	var sb strings.Builder
	for i, g := range gs {
		if i >= max {
			break
		}
		s := g.Stack
		if len(s) > 1500 {
			s = s[:1500] + "…"
		}
		sb.WriteString(s + "\n")
	}
	return sb.String()
}

// isKnown: finding still listed as known (unrepaired). VERIF_C17_ASSUME_FIXED=1 is for runs against a worktree that
// carries the proposed fix while known_findings/C17.json still says "known": nothing is avoided, nothing is excused.
func isKnown(sig string) bool {
	if os.Getenv("VERIF_C17_ASSUME_FIXED") != "" {
		return false
	}
	return evid.R.IsKnown(sig)
}

// sanitize removes, unless forced, the triggers of findings still listed as known, so the search goes on behind them.
func sanitize(w *workload) {
	if w.Force {
		return
	}
	kLost, kTO, kCancel, kDup := isKnown(sigLost), isKnown(sigDeadTimeout), isKnown(sigDeadCancel), isKnown(sigDeadDup)
	var excluded int64
	tUs := w.TimeoutMs * 1000
	for ci := range w.Calls {
		for ai := range w.Calls[ci].Att {
			a := &w.Calls[ci].Att[ai]
			// Known deadlock after timeout: a reply landing within a few ms of the timer parks onResponse for good even
			// without any steering (seen in roughly every third generated case). Latencies are pushed out of a
			// +-10 ms band around the timeout so that most cases run to the end; what still wedges is excused above.
			if kTO && a.LatUs > tUs-10000 && a.LatUs < tUs+10000 {
				if a.LatUs < tUs {
					a.LatUs = tUs - 10000
					if a.LatUs < 0 {
						a.LatUs = 0
					}
				} else {
					a.LatUs = tUs + 10000
				}
				excluded++
			}
			switch a.Dir {
			case dirHoldEarly, dirSleepSend:
				if kLost {
					a.Dir, excluded = dirNone, excluded+1
				}
			case dirHoldTimeout, dirHoldDeliver, dirSleepTimeout, dirSleepDeliver:
				if kTO {
					a.Dir, excluded = dirNone, excluded+1
				}
			case dirCancelDeliver:
				if kCancel {
					a.Dir, excluded = dirNone, excluded+1
				}
			}
			if kDup && (a.DupBefore || a.DupAfter > 0) {
				excluded++
			}
		}
	}
	if kDup {
		w.dupsLate = true
	}
	if excluded > 0 {
		evid.R.Excluded(excluded)
	}
}

const stallAfter = 4 * time.Second // no event and no return for this long => look at the goroutines
const hardCap = 120 * time.Second

// runCase executes one workload and evaluates the oracles.
func runCase(w *workload) (*verdict, error) {
	sanitize(w)
	var cl *cluster
	var err error
	if w.Star > 0 { // broadcast class: a private star-shaped cluster per case (peers stop / are disconnected in it)
		for try := 0; try < 3; try++ {
			if cl, err = newStar(w.Star); err == nil {
				break
			}
			cl.stop()
		}
		if err == nil {
			defer cl.stop()
		}
	} else {
		for try := 0; try < 4; try++ {
			if cl, err = currentCluster(); err == nil {
				break
			}
			dropCluster()
		}
	}
	if err != nil {
		// Loopback hosts could not be started/connected (seen only with the machine oversubscribed ~20x: TLS dials
		// time out). Not a statement about the engine: recorded as inconclusive, the case is skipped.
		evid.R.Inconclusive("infrastructure: cannot start loopback cluster, case skipped: %v", err)
		return nil, err
	}
	T := time.Duration(w.TimeoutMs) * time.Millisecond
	cs := &caseState{no: caseNo.Add(1), w: w, cl: cl, T: T, byGid: map[int64]*callState{}, byID: map[string]*attState{},
		lastFnd: map[int]*attState{}, closing: make(chan struct{}), owners: map[string][]*attState{}, idEv: map[string]*idEvents{},
		bInv: map[string][]*bRec{}, bGids: map[int64]bool{}}
	for i, p := range w.Calls {
		c := &callState{idx: i, plan: p, payload: payloadOf(cs.no, i), cancelCh: make(chan struct{}), done: make(chan struct{})}
		if p.Bcast {
			c.payload, c.bRuns = bcastPayload(cs.no, i), map[int]int{}
		}
		if p.Sized && p.Twin == 0 { // payload-size dimension: request data of exactly ReqSize bytes (>= 100: header NUL padding)
			c.reqData = sizedBytes(c.payload, p.ReqSize, sizeSeed(cs.no, i, 0))
		}
		cs.calls = append(cs.calls, c)
	}
	cs.expT.Store(int64(T))
	cs.initTwins()
	if w.Storm || w.Star > 0 { // liveness probe afterwards: one fresh fast call per probe pair, created now (the handler indexes cs.calls)
		cs.probes = probePairs(w)
		for try := 0; try < 3; try++ { // up to three tries per pair
			for _, pr := range cs.probes {
				i := len(cs.calls)
				p := callPlan{Src: pr[0], Dst: pr[1], Att: []attPlan{fastAtt(), fastAtt(), fastAtt(), fastAtt()}}
				cs.calls = append(cs.calls, &callState{idx: i, plan: p, payload: payloadOf(cs.no, i), cancelCh: make(chan struct{}), done: make(chan struct{})})
				cs.nProbes++
			}
		}
	}
	cs.touch()
	// VerifSetTimeout takes resMu: a layer that is already blocked (late replies of the previous case) must not take the
	// whole test process with it.
	if v0, ok := cs.setTimeouts(T); !ok {
		if v0 != nil {
			return v0, nil
		}
		cl.wedged = true
		evid.R.Inconclusive("case %d: response timeout could not be set within the budget, nothing recognisable blocked; cluster dropped, case skipped", cs.no)
		return nil, errors.New("set timeout: budget")
	}
	cs.peersBefore() // gater state of the cluster before the case (payload-size dimension: honest traffic earns no penalty)
	setCase(cs)
	defer setCase(nil)
	if w.Holes > 0 {
		if err := cs.startHoles(); err != nil {
			evid.R.Inconclusive("infrastructure: cannot start black-hole listener, case skipped: %v", err)
			return nil, err
		}
		defer cs.closeHoles()
		go cs.lockSampler()
	}
	t0 := time.Now()
	v := &verdict{nCalls: len(w.Calls)}

	start := make(chan struct{})
	var wg sync.WaitGroup
	for wk := 0; wk < w.Workers; wk++ {
		wg.Add(1)
		go func(wk int) {
			defer wg.Done()
			g := gid()
			<-start
			for i := wk; i < len(w.Calls); i += w.Workers {
				if w.Calls[i].Nested { // issued by the handler of another call (runNested)
					continue
				}
				cs.runCall(g, cs.calls[i])
			}
		}(wk)
	}
	for i, u := range w.Unsol {
		cs.bg.Add(1)
		go func(i int, u unsolPlan) {
			defer cs.bg.Add(-1)
			<-start
			sleepUs(u.DelayUs)
			cs.raw(u.From, u.To, fmt.Sprintf("unsolicited-%d-%d", cs.no, i), "tok|unsolicited|x", false)
		}(i, u)
	}
	for _, d := range w.Disturb {
		cs.bg.Add(1)
		go func(d disturbPlan) {
			defer cs.bg.Add(-1)
			<-start
			cs.disturb(d)
		}(d)
	}
	close(start)
	allDone := make(chan struct{})
	go func() {
		wg.Wait()
		for _, c := range cs.calls { // calls issued by handlers (bidirectional-load class) that were started
			if c.plan.Nested && c.started.Load() {
				<-c.done
			}
		}
		close(allDone)
	}()

	finished := cs.await(allDone, v, t0)
	tMain := time.Since(t0)
	if finished && (w.Storm || w.Star > 0) && len(v.viol) == 0 {
		cs.probeLiveness(v)
	}
	tProbe := time.Since(t0) - tMain
	close(cs.closing)

	if finished && !v.blocked {
		cs.afterQuiescence(v)
	}
	cs.evaluate(v, finished)
	if len(v.viol) > 0 {
		cl.wedged = true // whatever went wrong must not leak into the next case
	}
	v.wall = time.Since(t0)
	if os.Getenv("VERIF_C17_TRACE") != "" {
		for _, x := range v.viol {
			d := x.Detail
			if len(d) > 1200 {
				d = d[:1200]
			}
			fmt.Fprintf(os.Stderr, "  c17 viol [%s] %s\n", x.Sig, d)
		}
		fmt.Fprintf(os.Stderr, "%s c17 case %d: calls=%d workers=%d T=%dms wall=%v viol=%d wedged=%v incon=%d cluster=%d main=%v probe=%v late=%d lateConc=%d held=%d cap=%d\n", time.Now().Format("15:04:05.000"), cs.no, len(w.Calls), w.Workers, w.TimeoutMs, v.wall.Round(time.Millisecond), len(v.viol), v.wedged, len(v.incon), cl.serial, tMain.Round(time.Millisecond), tProbe.Round(time.Millisecond), v.lateN, v.lateConc, v.heldReg, v.capHits)
	}
	return v, nil
}

// runCall performs one planned call on the calling goroutine (goroutine ID g) and stores its result.
func (cs *caseState) runCall(g int64, c *callState) {
	cl := cs.cl
	ctx, cancel := context.WithCancel(context.Background())
	cs.mu.Lock()
	c.cancel = cancel
	cs.byGid[g] = c
	cs.mu.Unlock()
	cs.loadGate(c) // bidirectional-load class: not before enough handlers are running on this node
	sleepUs(c.plan.PreUs)
	cs.twinArrive(c)      // identical-payload group: all of its calls go together, within one wall-clock second
	if c.plan.Ctx != "" { // context-shape class: the context is made now, its deadline counts from the start of the call
		ctx = cs.shapeCtx(c, ctx)
		defer cs.ctxRescueStop(c)
	}
	var tm *time.Timer
	if c.plan.CancelFirst {
		cs.cancelCall(c)
	} else if c.plan.Cancel {
		tm = time.AfterFunc(time.Duration(c.plan.CancelUs)*time.Microsecond, func() { cs.cancelCall(c) })
	}
	n := cs.inCalls.Add(1)
	for {
		m := cs.maxOver.Load()
		if n <= m || cs.maxOver.CompareAndSwap(m, n) {
			break
		}
	}
	target := cl.ids[c.plan.Dst]
	if c.plan.Hole > 0 {
		target = cs.holes[c.plan.Hole-1].id
		cs.holeOut[c.plan.Src].Add(1)
		cs.holeStarts[c.plan.Src].Add(1)
	}
	if c.plan.Unreach {
		target = unreachableID(cs.no, c.idx)
	}
	saw := cs.holeOut[c.plan.Src].Load() > 0
	h0 := cs.holeStarts[c.plan.Src].Load()
	s0 := hbStalls.Load()
	cs.nodeIn[c.plan.Src].Add(1)
	cs.setWant(c, true) // next thing this goroutine does to the layer: resMu.Lock to register its pending entry
	tc := time.Now()
	var resp p2p.Response
	var berr error
	if c.plan.Bcast {
		np := len(cl.conns[c.plan.Src].ConnectedPeers())
		cs.mu.Lock()
		cs.bGids[g], c.bPeers = true, np
		cs.mu.Unlock()
		berr = cl.conns[c.plan.Src].Broadcast(ctx, proc, []byte(c.payload))
	} else {
		data := c.reqData
		if data == nil {
			data = []byte(c.payload)
		}
		resp = cl.conns[c.plan.Src].RequestFrom(ctx, target, proc, data)
	}
	if d := time.Since(tc); d > 500*time.Millisecond && os.Getenv("VERIF_C17_TRACE") != "" {
		fmt.Fprintf(os.Stderr, "  c17 slow call %d (%v): broadcast=%v unreachable=%v hole=%d cancel=%v err=%v/%v\n", c.idx, d.Round(time.Millisecond), c.plan.Bcast, c.plan.Unreach, c.plan.Hole, c.plan.Cancel, resp.Error(), berr)
	}
	if c.plan.Ctx != "" {
		cs.ctxReturned(c, ctx, tc)
	}
	cs.setWant(c, false)
	cs.nodeIn[c.plan.Src].Add(-1)
	s1 := hbStalls.Load()
	saw = saw || cs.holeStarts[c.plan.Src].Load() != h0 // a black-hole call started on this node meanwhile
	if c.plan.Hole > 0 {
		cs.holeOut[c.plan.Src].Add(-1)
	}
	cs.inCalls.Add(-1)
	if tm != nil {
		tm.Stop()
	}
	cs.twinReturned(c)
	cs.mu.Lock()
	c.resp, c.berr = resp, berr
	c.returned = true
	c.stallsStart, c.stallsEnd, c.sawHole = s0, s1, saw
	delete(cs.byGid, g)
	cs.mu.Unlock()
	close(c.done)
	cancel()
	cs.touch()
}

// await waits for the calls running in the background (allDone) under the case watchdog. A request that never ends is a
// violation, reported with positive evidence only: (a) onResponse parked in its channel send (classifyWedge), (b)
// goroutines of this cluster's layer waiting for a mutex, or a requester parked in sendRequestMessage's select, in three
// goroutine dumps while the process demonstrably ran (heartbeats) and nothing at all happened for stallAfter
// (classifyBlocked), (c) nothing recognisable, yet calls outstanding and no event for idleCap although the process ran
// for >= idleCapBeats heartbeats: reported with the stacks of the outstanding callers. Without such evidence the
// budget (hardCap) ends the case as inconclusive.
func (cs *caseState) await(allDone <-chan struct{}, v *verdict, t0 time.Time) (finished bool) {
	tick := time.NewTicker(50 * time.Millisecond)
	defer tick.Stop()
	for {
		select {
		case <-allDone:
			return true
		case <-tick.C:
		}
		idle := time.Since(time.Unix(0, cs.last.Load()))
		beats := hbBeats.Load() - cs.lastBeat.Load()
		if idle > stallAfter {
			if parked := persistentlyParked(300 * time.Millisecond); len(parked) > 0 {
				cs.classifyWedge(v, parked)
				return false
			}
			if beats >= stallBeats {
				if ev := cs.blockedEvidence(); ev != nil {
					cs.classifyBlocked(v, ev)
					return false
				}
			}
		}
		if idle > idleCapNow() && beats >= idleCapBeats {
			cs.classifyNoProgress(v, idle, beats)
			return false
		}
		if time.Since(t0) > hardCap {
			v.incon = append(v.incon, fmt.Sprintf("case %d: %d calls outstanding after %v without a goroutine parked in onResponse (budget, not a verdict); idle %v, %d heartbeats since the last event; callers: %s",
				cs.no, cs.inCalls.Load(), hardCap, idle.Round(time.Millisecond), beats, cs.callerFrames(2, 8)))
			if os.Getenv("VERIF_C17_TRACE") != "" {
				for _, g := range dumpGoroutines() {
					fmt.Fprintf(os.Stderr, "%s\n\n", g.Stack)
				}
			}
			cs.cl.wedged = true // do not reuse, but nothing is claimed
			return false
		}
	}
}

// classifyWedge: positive evidence (goroutines parked in onResponse's channel send in two dumps while nothing moved for
// stallAfter). The cause is read from the hook events of the entry that onResponse found last on each requester.
func (cs *caseState) classifyWedge(v *verdict, parked []gInfo) {
	v.wedged = true
	cs.cl.wedged = true
	gs := dumpGoroutines()
	ls, lr := lockWaiters(gs)
	markParked(parked)
	cs.mu.Lock()
	defer cs.mu.Unlock()
	srcs := make([]int, 0, len(cs.lastFnd))
	for s := range cs.lastFnd {
		srcs = append(srcs, s)
	}
	sort.Ints(srcs)
	n := 0
	for _, s := range srcs {
		a := cs.lastFnd[s]
		if a.call.returned {
			continue
		}
		n++
		sig := "deadlock:onResponse-send:unclassified"
		switch {
		case a.foundN >= 2:
			sig = sigDeadDup
		case a.timeoutFired:
			sig = sigDeadTimeout
		case a.call.cancelled:
			sig = sigDeadCancel
		}
		v.add(sig, "node %d: onResponse parked in channel send holding resMu (%d goroutine(s) parked, %d requester(s) and %d onResponse waiting for the mutex); entry found last: %s\n%s",
			s, len(parked), ls, lr, a.call.describe(), stackExcerpt(parked, 1))
	}
	if n == 0 {
		v.add("deadlock:onResponse-send:unattributed", "%d goroutine(s) parked in onResponse channel send, no outstanding call attributed\n%s", len(parked), stackExcerpt(parked, 2))
	}
}

// afterQuiescence runs once every call has returned: pending entries, parked goroutines.
func (cs *caseState) afterQuiescence(v *verdict) {
	// let handlers and duplicate senders finish (not asserted, bounded)
	deadline := time.Now().Add(3 * time.Second)
	for cs.inHand.Load() > 0 && time.Now().Before(deadline) {
		time.Sleep(2 * time.Millisecond)
	}
	deadline = time.Now().Add(8 * time.Second)
	for cs.bg.Load() > 0 && time.Now().Before(deadline) {
		time.Sleep(2 * time.Millisecond)
	}
	// Every sendRequestMessage has returned, so every pending entry must be gone - exactly, no timing involved.
	for i := 0; i < cs.w.NConn; i++ {
		n, ok := 0, false
		dl := time.Now().Add(3 * time.Second)
		for {
			if n, ok = cs.cl.conns[i].VerifPending(); ok || time.Now().After(dl) {
				break
			}
			time.Sleep(time.Millisecond)
		}
		if !ok {
			if parked := persistentlyParked(300 * time.Millisecond); len(parked) > 0 {
				cs.classifyWedge(v, parked)
			} else if ev := cs.blockedEvidence(); ev != nil {
				cs.classifyBlocked(v, ev)
			} else {
				v.incon = append(v.incon, fmt.Sprintf("case %d: resMu of node %d not obtainable for 3 s, nothing parked in onResponse", cs.no, i))
				cs.cl.wedged = true
			}
			return
		}
		if n != 0 {
			v.add("leak:pending-entry", "node %d: %d pending response entries after all %d calls returned", i, n, len(cs.calls))
		}
	}
	// responses still on their way are given a moment to be handled (keeps their events inside this case; not asserted)
	dl := time.Now().Add(400 * time.Millisecond)
	for cs.handled.Load()+cs.unkOth.Load() < cs.sent.Load() && time.Now().Before(dl) {
		time.Sleep(2 * time.Millisecond)
	}
	// All callers are gone: a goroutine still parked in onResponse's channel send can never be received from.
	gs := dumpGoroutines()
	if parked := parkedInOnResponse(gs); len(parked) > 0 {
		if p2 := persistentlyParked(300 * time.Millisecond); len(p2) > 0 {
			markParked(p2)
			cs.cl.wedged = true
			v.add("stuck:onResponse-send-no-waiter", "%d goroutine(s) parked in onResponse channel send after all calls returned\n%s", len(p2), stackExcerpt(p2, 2))
		}
	}
	// Every Broadcast call has returned: nothing it started may stay behind.
	cs.bcastLeftovers(v, gs)
	// Honest traffic of whatever size: no penalty, no ban, nobody disconnected (load_test.go).
	cs.peersAfter(v)
}

func (cs *caseState) evaluate(v *verdict, finished bool) {
	cs.mu.Lock()
	defer cs.mu.Unlock()
	v.maxOver = int(cs.maxOver.Load())
	v.unkOther = cs.unkOth.Load()
	maxRuns := p2p.VerifMaxRetries() + 1
	if n := cs.misrte.Load(); n > 0 {
		v.add("correlation:request-at-wrong-node", "%d requests reached a node they were not addressed to", n)
	}
	v.timersChecked, v.timersNoSend, v.timerMinMargin = cs.timersChecked, cs.timersNoSend, cs.minMargin
	for _, s := range cs.earlyTO {
		v.add(sigTimerEarly, "%s; %d of %d timers of this case fired early", s, cs.earlyN, cs.timersChecked)
	}
	cs.attributeTwinRuns()
	sort.Strings(cs.lostOut)
	for i, id := range cs.lostOut {
		if i >= 3 {
			break
		}
		v.add(sigLostOutstanding, "%s", cs.describeLostOutstanding(id))
	}
	twinTok := map[string]*callState{}
	for _, c := range cs.calls {
		v.attempts += len(c.atts)
		ids := map[string]*attState{}
		for _, a := range c.atts {
			ids[a.id] = a
			v.dupsSent += a.rawSent
			if a.capHit {
				v.capHits++
			}
			if a.foundEarly || a.lostEarly {
				v.raceReg++
			}
			if a.timeoutFired && (a.foundN > 0 || a.unknownN > 0) {
				v.raceTO++
			}
			if a.foundAfterTO {
				v.foundTO++
			}
			if a.lateUnknown {
				v.lateN++
			}
			if a.lateConc {
				v.lateConc++
			}
			if a.heldReg {
				v.heldReg++
			}
			if a.lostEarly {
				v.add(sigLost, "reply dropped as 'unknown request ID' although the requester had not even started to wait (handled between send and registration): %s", c.describe())
			}
			// The reply was found before the requester started to wait, nothing of ours delayed its delivery, and the
			// attempt timed out all the same: suspicious, but only "found", not "delivered", is known to precede the
			// wait (the schedule point sits before the hand-over), so it needs confirmation (confirmSuspect).
			if a.foundEarly && a.timeoutFired && (a.plan.Dir == dirHoldEarly || a.plan.Dir == dirNone || a.plan.Dir == dirSleepSend) {
				v.suspects++
			}
		}
		if c.plan.Bcast {
			cs.judgeBcast(v, c, maxRuns)
			continue
		}
		if c.handlerN > maxRuns {
			v.add("retry-budget:handler-runs", "handler ran %d times for one call (max %d): %s", c.handlerN, maxRuns, c.describe())
		}
		if len(c.atts) > maxRuns {
			v.add("retry-budget:attempts", "%d attempts for one call (max %d): %s", len(c.atts), maxRuns, c.describe())
		}
		if !c.returned {
			continue
		}
		r := c.resp
		txt, remote := "", false
		if r.Error() == nil {
			txt, remote = string(r.Data()), true
		} else if e := r.Error().Error(); strings.HasPrefix(e, "err|") || strings.HasPrefix(e, "tok|") {
			txt, remote = e, true
		}
		if !remote {
			e := r.Error()
			switch {
			case e.Error() == "timeout":
				v.timeoutN++
			case errors.Is(e, context.Canceled) || strings.Contains(e.Error(), "context canceled"):
				v.cancelN++
			case c.plan.Ctx != "" && (errors.Is(e, context.DeadlineExceeded) || strings.Contains(e.Error(), "context deadline exceeded")):
				v.cx.deadlineN++
			case c.plan.Unreach: // nobody knows an address of that peer: any error is the expected outcome
				v.unreachN++
			default:
				v.otherN++
				if c.cancelled {
					v.otherCancelledN++
				}
				v.otherErrs = append(v.otherErrs, e.Error())
			}
			continue
		}
		if c.plan.Twin > 0 {
			if why := cs.judgeTwinResult(c, txt, r, twinTok); why != "" {
				v.add("correlation:foreign-response", "call %d (node %d -> node %d, one of the concurrent calls with the identical payload %q) returned a response that is not the one its own target produced for its own request: %s; got %q from %s: %s",
					c.idx, c.plan.Src, c.plan.Dst, c.payload, why, txt, r.PeerID(), cs.describeTwinGroup(c.plan.Twin))
				continue
			}
			v.tw.ownResponse++
			if r.Error() != nil {
				v.remErrN++
			} else {
				v.okN++
			}
			continue
		}
		var sized []byte // payload-size dimension: the whole response data; txt = its header (the token)
		if c.plan.Sized && r.Error() == nil {
			if c.plan.RespSize <= 1 { // a response of 0 / 1 byte names nothing: exact bytes, sender, and a handler run of this call
				if want := sizedBytes("", c.plan.RespSize, 0); !bytes.Equal(r.Data(), want) || r.PeerID() != cs.cl.ids[c.plan.Dst] || c.handlerN == 0 {
					v.add(sigRespBytes, "call planned with a response of %d byte(s) returned %s from %s (addressed %s; handler runs %d): %s",
						c.plan.RespSize, previewBytes(r.Data()), r.PeerID(), cs.cl.ids[c.plan.Dst], c.handlerN, c.describe())
					continue
				}
				v.sz.exact++
				v.okN++
				cs.judgeQuietRuns(v, c)
				continue
			}
			sized = r.Data()
			h := sized
			if i := bytes.IndexByte(h, 0); i >= 0 {
				h = h[:i]
			}
			if len(h) > 256 {
				h = h[:256]
			}
			txt = string(h)
		}
		parts := strings.Split(txt, "|")
		good := len(parts) == 7 && parts[1]+"|"+parts[2]+"|"+parts[3] == c.payload
		var a *attState
		if good {
			a = ids[parts[4]]
			good = a != nil && a.handlerN > 0 && ((parts[0] == "err") == a.plan.Err) && ((parts[0] == "err") == (r.Error() != nil))
		}
		if good && parts[5] != "r"+strconv.Itoa(c.plan.Dst) { // the responder names itself
			good = false
		}
		if good && r.PeerID() != cs.cl.ids[c.plan.Dst] {
			good = false
		}
		if !good {
			v.add("correlation:foreign-response", "call returned a response that is not the one produced for its own request: got %q from %s, own payload %q: %s", txt, r.PeerID(), c.payload, c.describe())
			continue
		}
		if sized != nil { // the token is the call's own: every byte behind it must be what the handler wrote
			if want := sizedBytes(txt, c.plan.RespSize, sizeSeed(cs.no, c.idx, 1)); !bytes.Equal(sized, want) {
				v.add(sigRespBytes, "the response returned by the call carries its own token but not the bytes its handler wrote: %s: %s", diffBytes(sized, want), c.describe())
				continue
			}
			v.sz.exact++
		}
		if r.Error() != nil {
			v.remErrN++
		} else {
			v.okN++
		}
		if c.plan.Sized || cs.w.Load != nil {
			cs.judgeQuietRuns(v, c)
		}
	}
	cs.judgeTwins(v)
	cs.judgeStalled(v)
	cs.judgeCtx(v)
	cs.judgeSizes(v)
	cs.judgeLoad(v)
}

// ---- workload generator ----

func drawAttempt(t *rapid.T, tUs int, first bool, label string) attPlan {
	var a attPlan
	edge, slow := 10, 15
	if first {
		edge, slow = 25, 20
	}
	k := rapid.IntRange(0, 99).Draw(t, label+"latClass")
	switch {
	case k < edge: // clustered around the timeout
		a.LatUs = tUs + rapid.IntRange(-5000, 5000).Draw(t, label+"edge")
	case k < edge+slow:
		a.LatUs = tUs + rapid.IntRange(5000, 30000).Draw(t, label+"slow")
	default:
		a.LatUs = rapid.IntRange(0, 2000).Draw(t, label+"fast")
	}
	if a.LatUs < 0 {
		a.LatUs = 0
	}
	d := rapid.IntRange(0, 99).Draw(t, label+"dir")
	switch {
	case d < 10:
		a.Dir, a.DirUs = dirSleepSend, rapid.IntRange(0, 4000).Draw(t, label+"dirUs")
	case d < 20:
		a.Dir = dirHoldEarly
	case d < 28:
		a.Dir, a.LatUs = dirHoldTimeout, tUs+rapid.IntRange(3000, 15000).Draw(t, label+"lateBy")
	case d < 35:
		a.Dir, a.LatUs = dirHoldDeliver, rapid.IntRange(0, tUs/2).Draw(t, label+"earlyBy")
	case d < 40:
		a.Dir, a.DirUs = dirSleepDeliver, rapid.IntRange(0, 6000).Draw(t, label+"dirUs")
	case d < 45:
		a.Dir, a.DirUs = dirSleepTimeout, rapid.IntRange(0, 6000).Draw(t, label+"dirUs")
	case d < 50:
		a.Dir = dirCancelDeliver
	}
	q := rapid.IntRange(0, 99).Draw(t, label+"dup")
	switch {
	case q < 10:
		a.DupBefore = true
	case q < 30:
		a.DupAfter = rapid.IntRange(1, 3).Draw(t, label+"dupN")
		a.DupDelayUs = rapid.IntRange(0, tUs).Draw(t, label+"dupDelay")
	case q < 35:
		a.DupBefore, a.DupAfter = true, rapid.IntRange(1, 2).Draw(t, label+"dupN")
	}
	a.Err = rapid.IntRange(0, 9).Draw(t, label+"err") == 0
	return a
}

func drawWorkload(t *rapid.T) *workload {
	if rapid.IntRange(0, 4).Draw(t, "class") == 0 || os.Getenv("VERIF_C17_CLASS") == "stalled" { // env: A/B measurements only
		return drawStalled(t)
	}
	w := &workload{}
	w.NConn = rapid.IntRange(2, 3).Draw(t, "conns")
	w.TimeoutMs = rapid.IntRange(20, 100).Draw(t, "timeoutMs")
	tUs := w.TimeoutMs * 1000
	var n int
	switch rapid.IntRange(0, 9).Draw(t, "size") {
	case 0:
		n = rapid.IntRange(1, 7).Draw(t, "nSmall")
	case 1, 2:
		n = rapid.IntRange(61, 200).Draw(t, "nLarge")
	default:
		n = rapid.IntRange(8, 60).Draw(t, "nMid")
	}
	if rapid.IntRange(0, 5).Draw(t, "fewWorkers") == 0 {
		w.Workers = rapid.IntRange(1, 7).Draw(t, "workersFew")
	} else {
		w.Workers = rapid.IntRange(8, 32).Draw(t, "workers")
	}
	if w.Workers > n {
		w.Workers = n
	}
	if need := (n + 19) / 20; w.Workers < need { // bounds the sequential depth (cost), not a property of the domain
		w.Workers = need
	}
	for i := 0; i < n; i++ {
		lb := fmt.Sprintf("c%d.", i)
		var c callPlan
		c.Src = rapid.IntRange(0, w.NConn-1).Draw(t, lb+"src")
		c.Dst = (c.Src + 1 + rapid.IntRange(0, w.NConn-2).Draw(t, lb+"dstOff")) % w.NConn
		c.PreUs = rapid.IntRange(0, 1500).Draw(t, lb+"pre")
		switch rapid.IntRange(0, 9).Draw(t, lb+"cancel") {
		case 0: // early
			c.Cancel, c.CancelUs = true, rapid.IntRange(0, tUs/2).Draw(t, lb+"cancelEarly")
		case 1: // around the first deadline(s)
			c.Cancel, c.CancelUs = true, rapid.IntRange(1, 2).Draw(t, lb+"cancelK")*tUs+rapid.IntRange(-5000, 5000).Draw(t, lb+"cancelJit")
		case 2: // anywhere inside the retry budget
			c.Cancel, c.CancelUs = true, rapid.IntRange(0, 4*tUs).Draw(t, lb+"cancelAny")
		}
		if c.CancelUs < 0 {
			c.CancelUs = 0
		}
		for k := 0; k <= p2p.VerifMaxRetries(); k++ {
			c.Att = append(c.Att, drawAttempt(t, tUs, k == 0, fmt.Sprintf("%sa%d.", lb, k)))
		}
		w.Calls = append(w.Calls, c)
	}
	nu := rapid.IntRange(0, 5).Draw(t, "unsolN")
	for i := 0; i < nu; i++ {
		from := rapid.IntRange(0, w.NConn-1).Draw(t, "unsolFrom")
		to := (from + 1 + rapid.IntRange(0, w.NConn-2).Draw(t, "unsolTo")) % w.NConn
		w.Unsol = append(w.Unsol, unsolPlan{From: from, To: to, DelayUs: rapid.IntRange(0, 2*tUs).Draw(t, "unsolDelay")})
	}
	addTwins(t, w, tUs/4, tUs/2, 0)
	addSizes(t, w)
	return w
}

// ---- reporting ----

type fataler interface {
	Fatalf(string, ...any)
}

func summarize(w *workload, v *verdict) map[string]any {
	m := map[string]any{"conns": w.NConn, "timeout_ms": w.TimeoutMs, "workers": w.Workers, "calls": len(w.Calls), "unsolicited": len(w.Unsol),
		"max_overlap": v.maxOver, "attempts": v.attempts, "raced_registration": v.raceReg, "raced_timeout": v.raceTO, "found_after_timeout_fired": v.foundTO,
		"ok": v.okN, "remote_err": v.remErrN, "timeout": v.timeoutN, "cancelled": v.cancelN, "other_err": v.otherN, "raw_dups": v.dupsSent, "wedged": v.wedged}
	if w.Holes > 0 {
		m["black_holes"], m["black_hole_calls"], m["healthy_judged"], m["healthy_not_judged_process_stall"] = w.Holes, v.holeCalls, v.judged, v.judgeSkipped
		m["healthy_overlapping_stalled_send"], m["max_failed_resmu_probes"] = v.overlapHole, v.lockStreak
	}
	if w.Storm {
		m["late_replies_unknown_id"], m["late_replies_while_other_requests_in_flight"], m["late_replies_held_until_request_registers"] = v.lateN, v.lateConc, v.heldReg
		m["unreachable_peer_calls"], m["liveness_probes"], m["liveness_probes_ok"] = v.unreachN, v.probeN, v.probeOK
	}
	if w.Star > 0 {
		m["star_peers"], m["peers"], m["disturb"], m["failing_peers_planned"] = w.Star, w.Peers[1:], w.Disturb, failingPeers(w)
		m["broadcast_calls"], m["broadcast_nil"], m["broadcast_timeout"], m["broadcast_cancelled"], m["broadcast_other_error"] = v.bc.calls, v.bc.okN, v.bc.timeoutN, v.bc.cancelN, v.bc.otherN
		m["broadcast_attempts"], m["broadcast_attempts_timed_out"], m["broadcast_handler_runs"] = v.bc.attempts, v.bc.attTimeouts, v.bc.runs
		m["liveness_probes"], m["liveness_probes_ok"] = v.probeN, v.probeOK
		for _, c := range w.Calls {
			if c.Bcast {
				m["first_broadcast_call"] = c
				break
			}
		}
	}
	if v.tw.groups > 0 {
		m["identical_payload_groups"], m["identical_payload_calls"] = v.tw.groups, v.tw.calls
		m["identical_payload_groups_to_different_peers"], m["identical_payload_groups_same_peer_repeated"] = v.tw.diffPeers, v.tw.samePeer
		m["identical_payload_groups_outstanding_together"], m["identical_payload_groups_within_one_second"] = v.tw.together, v.tw.sameSecond
		m["identical_payload_calls_returned_own_response"] = v.tw.ownResponse
		for _, c := range w.Calls {
			if c.Twin > 0 {
				m["first_identical_payload_call"] = c
				break
			}
		}
	}
	if w.CtxClass != "" {
		ctxSummary(m, w, v)
	}
	sizeSummary(m, w, v)
	loadSummary(m, w, v)
	k := len(w.Calls)
	if k > 3 {
		k = 3
	}
	m["first_calls"] = w.Calls[:k]
	return m
}

// record registers the case in the evidence and turns violations into KNOWN-FINDING lines or a failure.
func record(t fataler, kind string, w *workload, v *verdict) (knownHit bool) {
	key, _ := json.Marshal(w)
	races := v.raceReg + v.raceTO
	nontrivial := v.maxOver >= 8 && races > 0
	if w.Holes > 0 { // stalled-peer class: healthy calls overlapped a stalled send on their own node and were judged
		nontrivial = v.maxOver >= 8 && v.overlapHole > 0 && v.judged > 0
	}
	if w.Storm { // late-response storm: a late reply took the unknown-ID branch while other requests of its node were in flight
		nontrivial = v.maxOver >= 8 && v.lateConc > 0
	}
	if w.Star > 0 { // broadcast class, see bcastLabels
		nontrivial = bcastNontrivial(v)
	}
	if w.CtxClass != "" { // context-shape class, see ctxLabels
		nontrivial = ctxNontrivial(v)
	}
	if w.Load != nil { // bidirectional-load class, see loadLabels
		nontrivial = loadNontrivial(v)
	}
	labels := []string{kind, fmt.Sprintf("conns=%d", w.NConn)}
	if v.maxOver >= 8 {
		labels = append(labels, "overlap>=8")
	}
	if v.maxOver >= 32 {
		labels = append(labels, "overlap>=32")
	}
	if v.raceReg > 0 {
		labels = append(labels, "case:reply-before-wait-started")
	}
	if v.raceTO > 0 {
		labels = append(labels, "case:reply-vs-timeout")
	}
	if v.foundTO > 0 {
		labels = append(labels, "case:reply-found-entry-after-timer-fired")
	}
	if v.cancelN > 0 {
		labels = append(labels, "case:cancelled-call")
	}
	if v.timeoutN > 0 {
		labels = append(labels, "case:call-exhausted-retries")
	}
	if v.dupsSent > 0 {
		labels = append(labels, "case:duplicate-responses")
	}
	if len(w.Unsol) > 0 {
		labels = append(labels, "case:unsolicited-responses")
	}
	if v.wedged {
		labels = append(labels, "case:wedged-cluster-abandoned")
	}
	if v.suspects > 0 {
		labels = append(labels, "case:found-before-wait-yet-timeout(suspect)")
	}
	if w.Holes > 0 {
		labels = append(labels, "class:stalled-peer", fmt.Sprintf("stalled-peer:holes=%d", w.Holes))
		if v.overlapHole > 0 {
			labels = append(labels, "stalled-peer:healthy-calls-overlapped-stalled-send")
		}
		if v.judged == 0 {
			labels = append(labels, "stalled-peer:nothing-judged(process-stall)")
		}
		if len(v.stallCand) > 0 {
			labels = append(labels, "stalled-peer:suspect")
		}
		evid.R.Label("stalled-peer:black-hole-calls", int64(v.holeCalls))
		evid.R.Label("stalled-peer:healthy-calls-judged", int64(v.judged))
		evid.R.Label("stalled-peer:healthy-calls-not-judged(process-stall)", int64(v.judgeSkipped))
		evid.R.Label("stalled-peer:healthy-calls-overlapping-stalled-send", int64(v.overlapHole))
		evid.R.Label("stalled-peer:healthy-calls-bad", int64(v.healthyBad))
		evid.R.Label("stalled-peer:healthy-calls-bad(identical-payload-calls)", int64(v.healthyBadTwin))
	} else if w.Storm {
		labels = append(labels, "class:late-response-storm")
		for _, k := range []int{8, 16, 32, 64} {
			if v.maxOver >= k {
				labels = append(labels, fmt.Sprintf("storm-case:concurrent-requesters>=%d", k))
			}
		}
		resp := map[int]bool{}
		for _, c := range w.Calls {
			if !c.Unreach {
				resp[c.Dst] = true
			}
		}
		labels = append(labels, fmt.Sprintf("storm-case:responder-hosts=%d", len(resp)))
		if v.lateN > 0 {
			labels = append(labels, "storm-case:late-reply(unknown-id-branch)")
		}
		if v.lateConc > 0 {
			labels = append(labels, "storm-case:late-reply-while-other-requests-in-flight")
		}
		if v.heldReg > 0 {
			labels = append(labels, "storm-case:late-reply-held-until-request-registers-or-cleans-up")
		}
		if v.unreachN > 0 {
			labels = append(labels, "storm-case:unreachable-peer-calls")
		}
		if v.probeN > 0 && v.probeOK == v.probeN {
			labels = append(labels, "storm-case:liveness-probe-served")
		}
		evid.R.Label("storm:late-replies(unknown-id-branch)", int64(v.lateN))
		evid.R.Label("storm:late-replies-while-other-requests-in-flight", int64(v.lateConc))
		evid.R.Label("storm:late-replies-held-until-request-registers-or-cleans-up", int64(v.heldReg))
		evid.R.Label("storm:unreachable-peer-calls", int64(v.unreachN))
		evid.R.Label("storm:liveness-probes", int64(v.probeN))
		evid.R.Label("storm:liveness-probes-served", int64(v.probeOK))
	} else if w.CtxClass != "" {
		if w.Star > 0 {
			bcastLabels(w, v) // counters of the Broadcast calls
		}
		labels = append(labels, ctxLabels(w, v)...)
	} else if w.Star > 0 {
		labels = append(labels, bcastLabels(w, v)...)
	} else if w.Load != nil {
		labels = append(labels, loadLabels(w, v)...)
	} else {
		labels = append(labels, "class:race-steering")
	}
	labels = append(labels, sizeLabels(w, v)...)
	if v.blocked {
		labels = append(labels, "case:blocked-layer(goroutine-evidence)")
	}
	labels = append(labels, twinLabels(w, v)...)
	evid.R.Case(string(key), nontrivial, func() any { return summarize(w, v) }, labels...)
	evid.R.Label("calls", int64(v.nCalls))
	evid.R.Label("attempts", int64(v.attempts))
	evid.R.Label("result:ok", int64(v.okN))
	evid.R.Label("result:remote-error", int64(v.remErrN))
	evid.R.Label("result:timeout", int64(v.timeoutN))
	evid.R.Label("result:cancelled", int64(v.cancelN))
	evid.R.Label("result:other-error", int64(v.otherN))
	evid.R.Label("result:other-error(context-was-cancelled)", int64(v.otherCancelledN))
	evid.R.Label("race:reply-before-wait-started", int64(v.raceReg))
	evid.R.Label("race:reply-vs-timeout", int64(v.raceTO))
	evid.R.Label("race:found-after-timer-fired", int64(v.foundTO))
	evid.R.Label("raw-duplicates-sent", int64(v.dupsSent))
	evid.R.Label("hold-cap-hit", int64(v.capHits))
	evid.R.Label("deadline:response-timers-fired(own-clock lower bound checked)", int64(v.timersChecked))
	evid.R.Label("deadline:timeout-fired-without-recorded-send-or-not-of-this-case(not judged)", int64(v.timersNoSend))
	if v.timersChecked > 0 {
		switch m := v.timerMinMargin; {
		case m < 0:
			evid.R.Label("deadline:smallest (elapsed - timeout) of the case: < 0 (within the 1 ms tolerance)", 1)
		case m < time.Millisecond:
			evid.R.Label("deadline:smallest (elapsed - timeout) of the case: 0..1 ms", 1)
		case m < 10*time.Millisecond:
			evid.R.Label("deadline:smallest (elapsed - timeout) of the case: 1..10 ms", 1)
		default:
			evid.R.Label("deadline:smallest (elapsed - timeout) of the case: >= 10 ms", 1)
		}
	}
	for _, s := range v.incon {
		evid.R.Inconclusive("%s", s)
	}
	for _, e := range v.otherErrs {
		if w.Star > 0 { // peers of this class stop on purpose: one label per kind of error, not per peer ID
			e = peerIDRe.ReplaceAllString(e, "<peer>")
		}
		if len(e) > 60 {
			e = e[:60]
		}
		evid.R.Label("other-error:"+e, 1)
	}
	var fatal []violation
	for _, x := range v.viol {
		if isKnown(x.Sig) && evid.R.KnownFinding(x.Sig) {
			knownHit = true
			evid.R.Label("known:"+x.Sig, 1)
			continue
		}
		fatal = append(fatal, x)
	}
	if len(fatal) > 0 {
		var sb strings.Builder
		for _, x := range fatal {
			fmt.Fprintf(&sb, "\n  [%s] %s", x.Sig, x.Detail)
		}
		wj, _ := json.Marshal(w)
		if len(wj) > 6000 {
			wj = append(wj[:6000], []byte("…")...)
		}
		t.Fatalf("C17 violated (%d):%s\n  workload: %s", len(fatal), sb.String(), wj)
	}
	return knownHit
}

// confirmSuspect: an attempt whose reply was found before the requester started to wait and which timed out anyway can be
// an artefact of a descheduled goroutine (timer and reply both ready at the select). The single-call schedule is
// repeated with a long timeout; only three reproductions in a row count.
func confirmSuspect(t fataler) {
	hits := 0
	for i := 0; i < 3; i++ {
		v, err := runCase(directedEarly(250))
		if err != nil {
			return
		}
		record(t, "directed:confirm-suspect", directedEarly(250), v)
		if v.suspects > 0 {
			hits++
		}
	}
	if hits == 3 {
		t.Fatalf("C17 violated: [lost-reply:found-before-wait-yet-timeout] in 3 of 3 single-call schedules the reply was found by onResponse before the requester started to wait (250 ms timeout) and the attempt still timed out")
	}
	evid.R.Label("suspect-not-reproduced", 1)
}

func TestWorkload(t *testing.T) {
	rapid.Check(t, func(rt *rapid.T) {
		w := drawWorkload(rt)
		v, err := runCase(w)
		if err != nil {
			return // infrastructure, recorded as inconclusive
		}
		record(rt, "workload", w, v)
		checkStalled(rt, "workload", w, v)
		if v.suspects > 0 && !isKnown(sigLost) {
			confirmSuspect(rt)
		}
	})
}

// ---- directed schedules (minimal reproductions; run in every tier) ----

func fastAtt() attPlan { return attPlan{LatUs: 0} }

func oneCall(timeoutMs int, first attPlan, cancel bool, cancelUs int) *workload {
	c := callPlan{Src: 0, Dst: 1, Cancel: cancel, CancelUs: cancelUs, Att: []attPlan{first, fastAtt(), fastAtt(), fastAtt()}}
	follow := callPlan{Src: 0, Dst: 1, Att: []attPlan{fastAtt(), fastAtt(), fastAtt(), fastAtt()}}
	return &workload{NConn: 2, TimeoutMs: timeoutMs, Workers: 1, Calls: []callPlan{c, follow}, Force: true}
}

// S1: the reply is handled by onResponse between the requester's send and the start of its wait.
func directedEarly(timeoutMs int) *workload {
	return oneCall(timeoutMs, attPlan{LatUs: 0, Dir: dirHoldEarly}, false, 0)
}

// S2: the timer fires, and before the requester takes resMu the (late) reply finds the entry.
func directedTimeoutThenReply(timeoutMs int) *workload {
	return oneCall(timeoutMs, attPlan{LatUs: timeoutMs*1000 + 8000, Dir: dirHoldTimeout}, false, 0)
}

// S3: the reply finds the entry; before it is delivered the requester's timer fires.
func directedReplyThenTimeout(timeoutMs int) *workload {
	return oneCall(timeoutMs, attPlan{LatUs: 0, Dir: dirHoldDeliver}, false, 0)
}

// S4: the reply finds the entry; before it is delivered the caller's context is cancelled.
func directedCancel(timeoutMs int) *workload {
	w := oneCall(timeoutMs, attPlan{LatUs: 0, Dir: dirCancelDeliver}, false, 0)
	for i := 0; i < 6; i++ { // the waiter leaving through ctx.Done has no schedule point: repeat
		w.Calls = append(w.Calls, w.Calls[0])
	}
	return w
}

// S5: the reply is followed (and preceded) by duplicates.
func directedDuplicates(timeoutMs int) *workload {
	w := oneCall(timeoutMs, attPlan{LatUs: 0, DupBefore: true, DupAfter: 3}, false, 0)
	for i := 0; i < 20; i++ {
		w.Calls = append(w.Calls, w.Calls[0])
	}
	return w
}

func runDirected(t *testing.T, name string, mk func() *workload, reps int) {
	for i := 0; i < reps; i++ {
		w := mk()
		v, err := runCase(w)
		if err != nil {
			return // infrastructure, recorded as inconclusive
		}
		if record(t, "directed:"+name, w, v) {
			return // known finding reproduced; once is enough (each reproduction costs a wedged cluster)
		}
		// The follow-up call on the same connection normally completes with its own token; under extreme load it may
		// legitimately exhaust its retries, which the statement allows ("or an error") - noted, not asserted.
		if v.okN < 1 {
			evid.R.Inconclusive("directed schedule %s: no call completed successfully (ok=%d timeout=%d cancelled=%d other=%d)", name, v.okN, v.timeoutN, v.cancelN, v.otherN)
		}
	}
}

func TestRegressReplyBeforeRegistration(t *testing.T) {
	hits := 0
	for i := 0; i < 3; i++ {
		w := directedEarly(250)
		v, err := runCase(w)
		if err != nil {
			return // infrastructure, recorded as inconclusive
		}
		if record(t, "directed:reply-before-wait", w, v) {
			return
		}
		if v.raceReg == 0 {
			evid.R.Note("directed reply-before-wait: order not reached (hold cap)")
		}
		if v.suspects > 0 {
			hits++
		}
	}
	if hits == 3 {
		t.Fatalf("C17 violated: [lost-reply:found-before-wait-yet-timeout] reply found by onResponse before the requester started to wait (250 ms timeout), attempt timed out anyway, 3 of 3 runs")
	}
}

func TestRegressTimeoutThenReply(t *testing.T) {
	runDirected(t, "timeout-then-reply", func() *workload { return directedTimeoutThenReply(40) }, 3)
}

func TestRegressReplyThenTimeout(t *testing.T) {
	runDirected(t, "reply-then-timeout", func() *workload { return directedReplyThenTimeout(40) }, 3)
}

func TestRegressCancelAtDeliver(t *testing.T) {
	runDirected(t, "cancel-at-deliver", func() *workload { return directedCancel(60) }, 3)
}

func TestRegressDuplicateResponses(t *testing.T) {
	runDirected(t, "duplicates", func() *workload { return directedDuplicates(60) }, 3)
}

// Late replies (after the retry budget is exhausted) and unsolicited responses leave nothing behind.
func TestRegressLateAndUnsolicited(t *testing.T) {
	runDirected(t, "late-and-unsolicited", func() *workload {
		slow := attPlan{LatUs: 45000}
		w := &workload{NConn: 3, TimeoutMs: 30, Workers: 2, Force: true}
		w.Calls = []callPlan{
			{Src: 0, Dst: 1, Att: []attPlan{slow, slow, slow, slow}},
			{Src: 2, Dst: 1, Att: []attPlan{slow, fastAtt(), fastAtt(), fastAtt()}},
			{Src: 0, Dst: 2, Att: []attPlan{fastAtt(), fastAtt(), fastAtt(), fastAtt()}},
		}
		w.Unsol = []unsolPlan{{From: 1, To: 0, DelayUs: 1000}, {From: 2, To: 0, DelayUs: 20000}, {From: 0, To: 2, DelayUs: 5000}}
		return w
	}, 2)
}

// A send that stalls on one (black-hole) peer must not keep replies of healthy peers from being delivered.
func TestRegressStalledPeer(t *testing.T) {
	w := directedStalled()
	v, err := runCase(w)
	if err != nil {
		return // infrastructure, recorded as inconclusive
	}
	record(t, "directed:stalled-peer", w, v)
	checkStalled(t, "directed:stalled-peer", w, v)
}
