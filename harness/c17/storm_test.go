package c17

// "Late-response storm" scenario class and the blocked-layer watchdog.
//
// Class: 8-64 concurrent requesters on 1-3 nodes call 1-3 responder hosts; a generated fraction of the attempts is answered
// later than the (hook-shortened) response timeout, so their replies take onResponse's "unknown request ID" branch while
// the other requesters register, retry and remove their pending entries; mixed with cancelled contexts, peers nobody knows an
// address of (the call fails at once: register + remove back to back), fast handlers, error replies and unsolicited
// responses. For a generated fraction of the late replies onResponse is held at its unknown-ID warning (the logger call
// sits inside the resMu critical section, after the lookup) until another requester of that node is about to take resMu.
// Oracle: every call returns (exactly once, by construction of the caller) with its own token, a remote error, "timeout",
// the context's error or - unreachable peer - some error; handler runs <= retries+1; afterwards no pending entry; then a
// fresh request per node is served (liveness probe).
//
// Watchdog: a request that never ends is a violation, never a quiet budget hit - but only on positive evidence, see await
// (c17_test.go), blockedEvidence and classifyNoProgress below. Slowness alone proves nothing: every window is counted in
// heartbeats of this process as well as in wall-clock time.

import (
	"crypto/ed25519"
	"crypto/sha256"
	"fmt"
	"os"
	"sort"
	"strconv"
	"strings"
	"sync"
	"sync/atomic"
	"testing"
	"time"

	lcrypto "github.com/libp2p/go-libp2p/core/crypto"
	"github.com/libp2p/go-libp2p/core/peer"
	"pgregory.net/rapid"

	"github.com/LiskHQ/lisk-engine/pkg/p2p"

	"verifharness/evid"
)

const (
	sigLockWait      = "deadlock:layer-mutex-wait"
	sigSelectOverdue = "blocked:requester-waits-beyond-timeout"
	sigNoProgress    = "blocked:request-outstanding-no-progress"
	sigProbe         = "liveness:fresh-request-not-served-after-storm"
)

const (
	stallBeats   = 400              // heartbeats (>= 2 s of scheduled process time) without any event before goroutines are inspected
	idleCap      = 30 * time.Second // calls outstanding and no event at all for this long ...
	idleCapShort = 10 * time.Second // ... (after the first such hit in this process)
	idleCapBeats = 2000             // ... while the process ran for >= 10 s: violation with the callers' stacks
	probeTimeout = 1000             // ms, response timeout during the liveness probe
)

var idleCapHit atomic.Bool

func idleCapNow() time.Duration {
	if idleCapHit.Load() {
		return idleCapShort
	}
	return idleCap
}

// unreachableID: a peer ID no node has an address for (fresh per call, so no dial backoff of an earlier call applies).
func unreachableID(caseNo int64, call int) p2p.PeerID {
	seed := sha256.Sum256([]byte(fmt.Sprintf("c17-unreachable-%d-%d-%d", os.Getpid(), caseNo, call)))
	std := ed25519.NewKeyFromSeed(seed[:])
	priv, _, err := lcrypto.KeyPairFromStdKey(&std)
	if err != nil {
		panic(err)
	}
	pid, err := peer.IDFromPrivateKey(priv)
	if err != nil {
		panic(err)
	}
	return pid
}

// ---- goroutine evidence ----

var lockStates = []string{"sync.Mutex.Lock", "sync.RWMutex.RLock", "sync.RWMutex.Lock", "semacquire"}

const mpFrame = "lisk-engine/pkg/p2p.(*MessageProtocol)."

// frames returns the function lines of a goroutine block (innermost first), without the "created by" line.
func frames(stack string) []string {
	var out []string
	for i, ln := range strings.Split(stack, "\n") {
		if i == 0 || ln == "" || ln[0] == '\t' || strings.HasPrefix(ln, "created by ") {
			continue
		}
		out = append(out, ln)
	}
	return out
}

// blockedRule classifies one goroutine: "lock" = it waits for a mutex and the function that asked for the mutex belongs to
// the engine's p2p package with a MessageProtocol method on the stack; "select" = it is an outstanding caller of this case
// parked in the select (or a channel receive) of sendRequestMessage itself. mine tells whether the goroutine belongs to
// the cluster of this case (receiver pointer of a MessageProtocol frame, or a caller goroutine of this case).
//
// Broadcast (bcast_test.go): "bcast" = an outstanding Broadcast caller of this case whose innermost frame outside
// runtime/sync is MessageProtocol.Broadcast itself - it is not inside one of its per-peer requests, it waits for something
// of its own (blockedEvidence drops it while a goroutine started by that call is still inside request()); "bchild" = a
// goroutine started by a Broadcast call of this case that is parked in Broadcast's own code (not inside request()).
func blockedRule(g gInfo, mps []string, callers, bcallers map[int64]bool) (rule string) {
	if !strings.Contains(g.Stack, mpFrame) {
		return ""
	}
	fr := frames(g.Stack)
	if len(fr) == 0 {
		return ""
	}
	if bcallers[g.ID] && strings.Contains(innermostOwn(fr), mpFrame+"Broadcast(") {
		return "bcast"
	}
	if p := bcastParent(g.Stack); p >= 0 && bcallers[p] && strings.Contains(innermostOwn(fr), mpFrame+"Broadcast.func") {
		return "bchild"
	}
	mine := callers[g.ID]
	if !mine {
		for _, p := range mps {
			if strings.Contains(g.Stack, "("+p) {
				mine = true
				break
			}
		}
	}
	if !mine {
		return ""
	}
	isLock := false
	for _, s := range lockStates {
		if strings.HasPrefix(g.State, s) {
			isLock = true
		}
	}
	if isLock {
		for _, f := range fr {
			if strings.HasPrefix(f, "sync.") || strings.HasPrefix(f, "runtime.") || strings.HasPrefix(f, "internal/") {
				continue
			}
			if strings.Contains(f, "lisk-engine/pkg/p2p.") {
				return "lock"
			}
			return ""
		}
		return ""
	}
	if callers[g.ID] && (strings.HasPrefix(g.State, "select") || strings.HasPrefix(g.State, "chan receive")) &&
		strings.Contains(fr[0], mpFrame+"sendRequestMessage(") {
		return "select"
	}
	return ""
}

type blockEv struct {
	lock, sel []gInfo
	bcast     []gInfo // Broadcast callers parked in Broadcast itself, none of their per-peer requests running
	bchild    []gInfo // goroutines started by those calls, parked in Broadcast's own code
	span      time.Duration
	beats     int64
	idle      time.Duration
	idleBeats int64
}

func (cs *caseState) mpPointers() []string {
	var out []string
	for _, c := range cs.cl.conns {
		out = append(out, fmt.Sprintf("%p", c.MessageProtocol))
	}
	return out
}

func (cs *caseState) callerGids() map[int64]bool {
	cs.mu.Lock()
	defer cs.mu.Unlock()
	out := map[int64]bool{}
	for g := range cs.byGid {
		out[g] = true
	}
	return out
}

// blockedEvidence: the same goroutines of this case's cluster are blocked by the same rule in three goroutine dumps, each
// >= 300 ms and >= 40 process heartbeats after the previous one, and not a single event of the case (schedule point,
// handler, log line, return) happened meanwhile. The engine holds resMu for map operations only and every hold of this
// harness inside the critical section is capped far below stallAfter, so a goroutine that waits for the mutex through all
// of that - after stallAfter of silence - waits for good. nil = no such evidence (or the process was starved).
func (cs *caseState) blockedEvidence() *blockEv {
	mps := cs.mpPointers()
	callers := cs.callerGids()
	bcallers := cs.bcastCallerGids()
	last0 := cs.last.Load()
	idle := time.Since(time.Unix(0, last0))
	idleBeats := hbBeats.Load() - cs.lastBeat.Load()
	type key struct {
		id   int64
		rule string
	}
	var keep map[key]gInfo
	t0, b0 := time.Now(), hbBeats.Load()
	for round := 0; round < 3; round++ {
		if round > 0 {
			t1, b1 := time.Now(), hbBeats.Load()
			for time.Since(t1) < 300*time.Millisecond || hbBeats.Load()-b1 < 40 {
				if time.Since(t1) > 6*time.Second {
					return nil // starved: no verdict
				}
				time.Sleep(10 * time.Millisecond)
			}
		}
		if cs.last.Load() != last0 {
			return nil // something moved
		}
		now := map[key]gInfo{}
		knownParkedMu.Lock()
		dump := dumpGoroutines()
		for _, g := range dump {
			if knownParked[g.ID] {
				continue
			}
			if r := blockedRule(g, mps, callers, bcallers); r != "" {
				k := key{g.ID, r}
				if keep == nil {
					now[k] = g
				} else if _, ok := keep[k]; ok {
					now[k] = g
				}
			}
		}
		knownParkedMu.Unlock()
		// A Broadcast that waits for per-peer requests which are still running (an engine may run them on goroutines
		// of their own) waits legitimately: no evidence from that caller in this round.
		for _, g := range dump {
			if p := bcastParent(g.Stack); p >= 0 && strings.Contains(g.Stack, mpFrame+"request(") {
				delete(now, key{p, "bcast"})
			}
		}
		keep = now
		if len(keep) == 0 {
			return nil
		}
	}
	ev := &blockEv{span: time.Since(t0), beats: hbBeats.Load() - b0, idle: idle, idleBeats: idleBeats}
	ks := make([]key, 0, len(keep))
	for k := range keep {
		ks = append(ks, k)
	}
	sort.Slice(ks, func(i, j int) bool { return ks[i].id < ks[j].id })
	for _, k := range ks {
		switch k.rule {
		case "lock":
			ev.lock = append(ev.lock, keep[k])
		case "bcast":
			ev.bcast = append(ev.bcast, keep[k])
		case "bchild":
			ev.bchild = append(ev.bchild, keep[k])
		default:
			ev.sel = append(ev.sel, keep[k])
		}
	}
	if len(ev.lock)+len(ev.sel)+len(ev.bcast) == 0 {
		return nil // goroutines started by a Broadcast are evidence only together with their caller (or after it returned: bcastLeftovers)
	}
	return ev
}

func firstWith(gs []gInfo, sub string) []gInfo {
	for _, g := range gs {
		if strings.Contains(g.Stack, sub) {
			return []gInfo{g}
		}
	}
	return nil
}

// classifyBlocked turns blockedEvidence into a violation.
func (cs *caseState) classifyBlocked(v *verdict, ev *blockEv) {
	v.blocked, v.wedged = true, true
	cs.cl.wedged = true
	markParked(ev.lock)
	markParked(ev.sel)
	markParked(ev.bcast)
	markParked(ev.bchild)
	out := int(cs.inCalls.Load())
	if len(ev.bcast) > 0 {
		cs.classifyBcastBlocked(v, ev, out)
		return
	}
	if len(ev.lock) > 0 {
		var reg, clean, resp, other int
		for _, g := range ev.lock {
			switch {
			case strings.Contains(g.Stack, mpFrame+"sendRequestMessage.func"):
				clean++
			case strings.Contains(g.Stack, mpFrame+"sendRequestMessage("):
				reg++
			case strings.Contains(g.Stack, mpFrame+"onResponse("):
				resp++
			default:
				other++
			}
		}
		ex := append(firstWith(ev.lock, mpFrame+"onResponse("), firstWith(ev.lock, mpFrame+"sendRequestMessage")...)
		if len(ex) == 0 {
			ex = ev.lock
		}
		v.add(sigLockWait, "request/response layer blocked on a mutex: %d goroutine(s) of this cluster wait for a lock inside pkg/p2p in 3 of 3 goroutine dumps over %v (%d process heartbeats) after %v (%d heartbeats) without any event; timeout %v, %d call(s) outstanding: %d requester(s) in sendRequestMessage before their select (registering), %d in its deferred clean-up, %d onResponse, %d other; %d requester(s) parked in select\n%s",
			len(ev.lock), ev.span.Round(time.Millisecond), ev.beats, ev.idle.Round(time.Millisecond), ev.idleBeats, cs.T, out, reg, clean, resp, other, len(ev.sel), stackExcerpt(ex, 2))
		return
	}
	v.add(sigSelectOverdue, "%d outstanding requester(s) parked in the select of sendRequestMessage in 3 of 3 goroutine dumps over %v (%d process heartbeats) after %v (%d heartbeats) without any event, response timeout %v: neither the timer nor the context ends the wait\n%s",
		len(ev.sel), ev.span.Round(time.Millisecond), ev.beats, ev.idle.Round(time.Millisecond), ev.idleBeats, cs.T, stackExcerpt(ev.sel, 2))
}

// callerFrames: function names of the innermost frames of up to n outstanding callers of this case (diagnosis only).
func (cs *caseState) callerFrames(n, depth int) string {
	callers := cs.callerGids()
	var sb strings.Builder
	k := 0
	for _, g := range dumpGoroutines() {
		if !callers[g.ID] || k >= n {
			continue
		}
		k++
		fr := frames(g.Stack)
		if len(fr) > depth {
			fr = fr[:depth]
		}
		for i, f := range fr {
			if j := strings.LastIndexByte(f, '('); j > 0 {
				fr[i] = f[:j]
			}
		}
		fmt.Fprintf(&sb, "[goroutine %d %s: %s] ", g.ID, g.State, strings.Join(fr, " < "))
	}
	return sb.String()
}

// classifyNoProgress: nothing recognisable is blocked, yet calls are outstanding and no event at all happened for idleCap
// while the process ran (>= idleCapBeats heartbeats): the request did not end within its timeout and retry budget. The
// stacks of the outstanding callers are the evidence.
func (cs *caseState) classifyNoProgress(v *verdict, idle time.Duration, beats int64) {
	v.blocked, v.wedged = true, true
	cs.cl.wedged = true
	idleCapHit.Store(true)
	callers := cs.callerGids()
	var gs []gInfo
	for _, g := range dumpGoroutines() {
		if callers[g.ID] {
			gs = append(gs, g)
		}
	}
	v.add(sigNoProgress, "%d call(s) outstanding and no event (schedule point, handler, log line, return) for %v during which this process ran for %d heartbeats; response timeout %v, retries %d; stacks of the callers:\n%s",
		cs.inCalls.Load(), idle.Round(time.Millisecond), beats, cs.T, p2p.VerifMaxRetries(), stackExcerpt(gs, 3))
}

// setTimeouts calls VerifSetTimeout (which takes resMu) on every node under a watchdog. ok=false: it did not come back;
// v != nil then carries the violation (blocked-layer evidence), v == nil means budget without evidence.
func (cs *caseState) setTimeouts(T time.Duration) (v *verdict, ok bool) {
	done := make(chan struct{})
	go func() {
		for i, c := range cs.cl.conns {
			t := T
			if i < len(cs.w.NodeT) && cs.w.NodeT[i] > 0 { // bidirectional-load class: a response timeout per node
				t = time.Duration(cs.w.NodeT[i]) * time.Millisecond
			}
			c.VerifSetTimeout(t)
		}
		close(done)
	}()
	t0, b0 := time.Now(), hbBeats.Load()
	for {
		select {
		case <-done:
			return nil, true
		case <-time.After(50 * time.Millisecond):
		}
		if time.Since(t0) > stallAfter && hbBeats.Load()-b0 >= stallBeats {
			if ev := cs.blockedEvidence(); ev != nil {
				v = &verdict{nCalls: len(cs.w.Calls)}
				cs.classifyBlocked(v, ev)
				return v, false
			}
		}
		if time.Since(t0) > idleCap {
			return nil, false
		}
	}
}

// probeLiveness: after the storm every node sends a fresh request to a healthy peer whose handler answers at once, with a
// response timeout of 1 s. The same watchdog applies. A probe that is not answered is repeated twice; only three failures in
// a row without a late process heartbeat count.
func (cs *caseState) probeLiveness(v *verdict) {
	// own-clock lower bound of the response timer (checkTimer): while the timeout is being changed the smaller of the two
	// values is the expectation
	if old := cs.expT.Load(); int64(probeTimeout*time.Millisecond) < old {
		cs.expT.Store(int64(probeTimeout * time.Millisecond))
	}
	if v0, ok := cs.setTimeouts(probeTimeout * time.Millisecond); !ok {
		if v0 != nil {
			v.viol = append(v.viol, v0.viol...)
			v.blocked, v.wedged = true, true
		} else {
			v.incon = append(v.incon, fmt.Sprintf("case %d: liveness probe: response timeout could not be set within the budget", cs.no))
			cs.cl.wedged = true
		}
		return
	}
	cs.T = probeTimeout * time.Millisecond
	cs.expT.Store(int64(cs.T))
	n := len(cs.probes) // probe pairs (requester, responder); storm: every node asks its neighbour
	base := len(cs.w.Calls)
	todo := make([]int, 0, n)
	for i := 0; i < n; i++ {
		todo = append(todo, i)
	}
	s0 := hbStalls.Load()
	for try := 0; try < 3 && len(todo) > 0; try++ {
		var wg sync.WaitGroup
		for _, node := range todo {
			c := cs.calls[base+try*n+node]
			wg.Add(1)
			go func() {
				defer wg.Done()
				cs.runCall(gid(), c)
			}()
		}
		allDone := make(chan struct{})
		go func() { wg.Wait(); close(allDone) }()
		cs.touch()
		if !cs.await(allDone, v, time.Now()) {
			return
		}
		var again []int
		for _, node := range todo {
			c := cs.calls[base+try*n+node]
			v.probeN++
			if c.resp.Error() == nil {
				v.probeOK++
				continue
			}
			again = append(again, node)
			if try == 2 {
				v.probeBad = append(v.probeBad, fmt.Sprintf("node %d -> node %d: %v", c.plan.Src, c.plan.Dst, c.resp.Error()))
			}
		}
		todo = again
	}
	v.starvedPr = hbStalls.Load() != s0
	if len(v.probeBad) > 0 {
		if v.starvedPr {
			v.incon = append(v.incon, fmt.Sprintf("case %d: liveness probe failed 3 times (%v) while a process heartbeat was late: not a verdict", cs.no, v.probeBad))
		} else {
			v.add(sigProbe, "after the storm / the broadcasts (all %d calls returned) a fresh request with a handler that answers at once and a response timeout of %d ms failed 3 times in a row, no late process heartbeat meanwhile: %v",
				len(cs.w.Calls), probeTimeout, v.probeBad)
		}
	}
}

// ---- generator ----

func drawStorm(t *rapid.T) *workload {
	w := &workload{Storm: true}
	w.NConn = rapid.IntRange(2, 3).Draw(t, "conns")
	w.TimeoutMs = rapid.IntRange(8, 40).Draw(t, "timeoutMs")
	tUs := w.TimeoutMs * 1000
	nResp := rapid.IntRange(1, w.NConn).Draw(t, "responders")
	off := rapid.IntRange(0, w.NConn-1).Draw(t, "responderOff")
	focus := -1 // all requesters on one node (one resMu sees every registration and every late reply)
	if rapid.IntRange(0, 2).Draw(t, "focus") > 0 {
		focus = rapid.IntRange(0, w.NConn-1).Draw(t, "focusNode")
	}
	w.Workers = rapid.IntRange(8, 64).Draw(t, "requesters")
	per := rapid.IntRange(2, 6).Draw(t, "callsPerRequester")
	if per*w.Workers > 256 {
		per = 256 / w.Workers
	}
	if per < 2 {
		per = 2
	}
	slowPct := []int{20, 50, 80, 100}[rapid.IntRange(0, 3).Draw(t, "slowPct")]
	holdPct := []int{0, 30, 60, 100}[rapid.IntRange(0, 3).Draw(t, "holdPct")]
	for i := 0; i < per*w.Workers; i++ {
		lb := fmt.Sprintf("s%d.", i)
		var c callPlan
		c.Dst = (off + rapid.IntRange(0, nResp-1).Draw(t, lb+"dst")) % w.NConn
		c.Src = (c.Dst + 1 + rapid.IntRange(0, w.NConn-2).Draw(t, lb+"srcOff")) % w.NConn
		if focus >= 0 && focus != c.Dst {
			c.Src = focus
		}
		c.PreUs = rapid.IntRange(0, 2000).Draw(t, lb+"pre")
		// rapid's integer draws are biased towards small values: the classes the statement is about come first
		kind := rapid.IntRange(0, 99).Draw(t, lb+"kind")
		isErr := rapid.IntRange(0, 9).Draw(t, lb+"err") == 9
		fast := attPlan{LatUs: rapid.IntRange(0, 2000).Draw(t, lb+"fast"), Err: isErr}
		switch {
		case kind < slowPct*90/100:
			nSlow := rapid.IntRange(1, p2p.VerifMaxRetries()+1).Draw(t, lb+"slowAttempts") // all = the call ends with "timeout"
			slow := attPlan{LatUs: tUs + rapid.IntRange(1000, 20000).Draw(t, lb+"lateBy"), Err: isErr}
			if rapid.IntRange(0, 99).Draw(t, lb+"hold") < holdPct {
				slow.Dir, slow.DirUs = dirHoldUnknown, rapid.IntRange(100, 1500).Draw(t, lb+"holdUs")
			}
			for k := 0; k <= p2p.VerifMaxRetries(); k++ {
				if k < nSlow {
					c.Att = append(c.Att, slow)
				} else {
					c.Att = append(c.Att, fast)
				}
			}
		case kind >= 94:
			c.Unreach = true
			c.Att = []attPlan{{}, {}, {}, {}}
		default:
			c.Att = []attPlan{fast, fast, fast, fast}
		}
		if !c.Unreach && rapid.IntRange(0, 99).Draw(t, lb+"cancel") >= 88 {
			c.Cancel, c.CancelUs = true, rapid.IntRange(0, 3*tUs).Draw(t, lb+"cancelUs")
		}
		w.Calls = append(w.Calls, c)
	}
	nu := rapid.IntRange(0, 6).Draw(t, "unsolN")
	for i := 0; i < nu; i++ {
		from := rapid.IntRange(0, w.NConn-1).Draw(t, "unsolFrom")
		to := (from + 1 + rapid.IntRange(0, w.NConn-2).Draw(t, "unsolTo")) % w.NConn
		w.Unsol = append(w.Unsol, unsolPlan{From: from, To: to, DelayUs: rapid.IntRange(0, 4*tUs).Draw(t, "unsolDelay")})
	}
	addTwins(t, w, tUs/3, 2*tUs/3, 20000)
	addSizes(t, w)
	return w
}

// stormLimit: number of generated storm cases per process (VERIF_C17_STORM from the run spec; rapid's -rapid.checks is
// shared by every rapid.Check of the binary).
func stormLimit() int {
	if s := os.Getenv("VERIF_C17_STORM"); s != "" {
		if n, err := strconv.Atoi(s); err == nil && n >= 0 {
			return n
		}
	}
	if evid.Thorough() {
		return 200
	}
	return 40
}

func TestStorm(t *testing.T) {
	limit, n, failed := stormLimit(), 0, false
	rapid.Check(t, func(rt *rapid.T) {
		if n >= limit && !failed { // budget reached (shrinking after a failure is not cut short)
			return
		}
		n++
		w := drawStorm(rt)
		v, err := runCase(w)
		if err != nil {
			return // infrastructure, recorded as inconclusive
		}
		if len(v.viol) > 0 {
			failed = true
		}
		record(rt, "storm", w, v)
	})
}

// directedLateWhileRegistering: call 0 of node 0 is answered 10 ms after its timer fired in all of its attempts; each of
// those late replies is held at onResponse's unknown-ID warning until one of the other five requesters of node 0 (fast
// calls, back to back) is about to register. Minimal form of the storm class; runs in every tier.
func directedLateWhileRegistering() *workload {
	const T = 30
	w := &workload{NConn: 2, TimeoutMs: T, Workers: 6, Storm: true, Force: true}
	late := attPlan{LatUs: T*1000 + 10000, Dir: dirHoldUnknown, DirUs: 2000}
	for i := 0; i < 6*40; i++ {
		c := callPlan{Src: 0, Dst: 1, PreUs: 3000, Att: []attPlan{fastAtt(), fastAtt(), fastAtt(), fastAtt()}}
		if i == 0 || i == 6 {
			c = callPlan{Src: 0, Dst: 1, Att: []attPlan{late, late, late, late}}
		}
		w.Calls = append(w.Calls, c)
	}
	return w
}

func TestRegressLateReplyWhileRequestRegisters(t *testing.T) {
	held := 0
	for i := 0; i < 2; i++ {
		w := directedLateWhileRegistering()
		v, err := runCase(w)
		if err != nil {
			return // infrastructure, recorded as inconclusive
		}
		record(t, "directed:late-reply-while-request-registers", w, v)
		held += v.heldReg
	}
	if held == 0 {
		evid.R.Note("directed late-reply-while-request-registers: no late reply was held until a registration (hold cap)")
	}
}
