package c17

import (
	"bytes"
	"context"
	"errors"
	"fmt"
	"strings"
	"sync"
	"testing"
	"time"
	"unicode/utf8"

	"pgregory.net/rapid"

	"github.com/LiskHQ/lisk-engine/pkg/p2p"

	"verifharness/evid"
)

// Content fidelity of the response (added after seeded change C17-v, which cut a responder's error text at byte 256 - possibly in the
// middle of a multi-byte character - so that the requester could not decode the response, treated it as a protocol violation,
// banned the honest responder and ran into its timeout although the reply had arrived within milliseconds).
// "Every request ends with either the response the remote handler produced for that very request or an error": what the handler
// produced is its data bytes, or its error text. The workload tests identify responses by short ASCII tokens; here the CONTENT is
// drawn: data of every size class with arbitrary bytes, and error texts (valid UTF-8: an error text is a codec string) of drawn
// length whose characters are 1-4 bytes wide, so that every byte offset can fall inside a character. One case = one pair of fresh
// connections and a handful of sequential requests (sequential on purpose: scheduling is what the other tests vary).
const contentProc = "c17content"

type contentPlan struct {
	IsErr bool
	Text  string // error text (IsErr)
	Data  []byte
}

var contentSerial int

func drawErrText(t *rapid.T, i int) string {
	target := rapid.SampledFrom([]int{1, 40, 200, 255, 256, 257, 300, 511, 513, 1000, 1025, 4000, 20000}).Draw(t, fmt.Sprintf("errLen%d", i)) +
		rapid.IntRange(0, 5).Draw(t, fmt.Sprintf("errLenJitter%d", i))
	widths := rapid.SampledFrom([]string{"ascii", "2", "3", "4", "mixed"}).Draw(t, fmt.Sprintf("errWidth%d", i))
	alphabet := map[string][]rune{
		"ascii": []rune("abcXYZ019 :/=-"),
		"2":     []rune("äöüßéñ"),
		"3":     []rune("€中文‰語"),
		"4":     []rune("😀𝔘𐍈🧪"),
		"mixed": []rune("aä€😀b中ñ𝔘 :"),
	}[widths]
	var sb strings.Builder
	sb.WriteString(rapid.SampledFrom([]string{"", "x", "xy", "xyz"}).Draw(t, fmt.Sprintf("errShift%d", i))) // moves every boundary by 0-3 bytes
	k := 0
	for sb.Len() < target {
		sb.WriteRune(alphabet[(k*7+i)%len(alphabet)])
		k++
	}
	return sb.String()
}

func TestResponseContent(t *testing.T) {
	rapid.Check(t, func(t *rapid.T) {
		contentSerial++
		nReq := rapid.IntRange(2, 6).Draw(t, "requests")
		plans := make([]contentPlan, nReq)
		for i := range plans {
			if rapid.IntRange(0, 2).Draw(t, fmt.Sprintf("isErr%d", i)) != 0 {
				plans[i] = contentPlan{IsErr: true, Text: drawErrText(t, i)}
			} else {
				n := rapid.SampledFrom([]int{0, 1, 7, 255, 256, 257, 4096, 70000}).Draw(t, fmt.Sprintf("dataLen%d", i))
				b := make([]byte, n)
				seed := rapid.Uint64().Draw(t, fmt.Sprintf("dataSeed%d", i))
				for j := range b {
					seed = seed*6364136223846793005 + 1442695040888963407
					b[j] = byte(seed >> 56)
				}
				plans[i] = contentPlan{Data: b}
			}
		}
		var conns []*p2p.Connection
		defer func() {
			for _, c := range conns {
				c := c
				go func() { _ = c.Stop() }()
			}
		}()
		var mu sync.Mutex
		served := map[int]int{}
		for i := 0; i < 2; i++ {
			cfg := &p2p.Config{Addresses: []string{fmt.Sprintf("/ip4/127.0.0.%d/tcp/0", 60+i)}, ChainID: []byte{0xc1, 0x7c, 0, 0}, Version: "1.0"}
			conn := p2p.NewConnection(obsLogger{}, cfg)
			if err := conn.RegisterRPCHandler(contentProc, func(w p2p.ResponseWriter, req *p2p.Request) {
				if len(req.Data) != 1 || int(req.Data[0]) >= len(plans) {
					w.Error(errors.New("bad request"))
					return
				}
				p := plans[req.Data[0]]
				mu.Lock()
				served[int(req.Data[0])]++
				mu.Unlock()
				if p.IsErr {
					w.Error(errors.New(p.Text))
				} else {
					w.Write(p.Data)
				}
			}, p2p.WithRPCMessageCounter(1<<30, 0)); err != nil {
				t.Fatalf("register: %v", err)
			}
			if err := conn.Start([]byte(fmt.Sprintf("c17-content-%d-%d", contentSerial, i))); err != nil {
				evid.R.Inconclusive("content case: connection did not start: %v", err)
				t.Skip("infrastructure")
			}
			conns = append(conns, conn)
		}
		addrs, err := conns[1].MultiAddress()
		if err != nil || len(addrs) == 0 {
			t.Skip("no address")
		}
		ai, err := p2p.AddrInfoFromMultiAddr(addrs[0])
		if err != nil {
			t.Fatalf("addr: %v", err)
		}
		cctx, ccancel := context.WithTimeout(context.Background(), 30*time.Second)
		err = conns[0].Connect(cctx, *ai)
		ccancel()
		if err != nil {
			evid.R.Inconclusive("content case: connect failed: %v", err)
			t.Skip("infrastructure")
		}
		var labels []string
		for i, p := range plans {
			t0 := time.Now()
			call := func() p2p.Response {
				ctx, cancel := context.WithTimeout(context.Background(), 60*time.Second)
				defer cancel()
				return conns[0].RequestFrom(ctx, conns[1].ID(), contentProc, []byte{byte(i)})
			}
			resp := call()
			// The layer's own "timeout" (3 s per attempt, 4 attempts) can be the honest outcome on a machine that stalls this process
			// for seconds; the statement allows "or an error". Only a timeout that persists over three calls (36 s of attempts
			// against a handler that answers at once) is taken as a lost reply. Retries mean the handler may run more than once.
			for again := 0; again < 2 && resp.Error() != nil && resp.Error().Error() == "timeout"; again++ {
				evid.R.Label("content:timeout-repeated-call", 1)
				resp = call()
			}
			el := time.Since(t0)
			mu.Lock()
			hits := served[i]
			mu.Unlock()
			describe := func() string {
				if p.IsErr {
					return fmt.Sprintf("request %d: handler answered with an error text of %d bytes / %d characters (valid UTF-8: %v; bytes 250..262: %q)", i, len(p.Text), utf8.RuneCountInString(p.Text), utf8.ValidString(p.Text), window(p.Text, 250, 262))
				}
				return fmt.Sprintf("request %d: handler answered with %d data bytes", i, len(p.Data))
			}
			if p.IsErr {
				if resp.Error() == nil || resp.Error().Error() != p.Text {
					got := "<nil>"
					if resp.Error() != nil {
						got = resp.Error().Error()
					}
					t.Fatalf("C17 violated: [content:error-text] the call did not end with the response its handler produced (handler ran %d time(s), call took %v): %s; the call returned error %q (%d bytes) and %d data bytes", hits, el.Round(time.Millisecond), describe(), clip(got), len(got), len(resp.Data()))
				}
			} else {
				if resp.Error() != nil || !bytes.Equal(resp.Data(), p.Data) {
					t.Fatalf("C17 violated: [content:data] the call did not end with the response its handler produced (handler ran %d time(s), call took %v): %s; the call returned err=%v and %d data bytes", hits, el.Round(time.Millisecond), describe(), resp.Error(), len(resp.Data()))
				}
			}
			if hits < 1 {
				t.Fatalf("C17 violated: [content:handler-runs] the call returned the handler's answer but the handler never ran: %s", describe())
			}
			if p.IsErr {
				w := "ascii"
				if len(p.Text) != utf8.RuneCountInString(p.Text) {
					w = "multibyte"
				}
				labels = append(labels, fmt.Sprintf("content:error-%s-%s", w, sizeClass(len(p.Text))))
			} else {
				labels = append(labels, "content:data-"+sizeClass(len(p.Data)))
			}
		}
		nt := false
		for _, p := range plans {
			nt = nt || (p.IsErr && len(p.Text) > 256 && len(p.Text) != utf8.RuneCountInString(p.Text))
		}
		key := fmt.Sprintf("content|%d", contentSerial)
		for _, p := range plans {
			key += fmt.Sprintf("|%v:%d:%d", p.IsErr, len(p.Text), len(p.Data))
		}
		evid.R.Case(key, nt, func() any {
			var out []map[string]any
			for _, p := range plans {
				out = append(out, map[string]any{"error": p.IsErr, "errorTextBytes": len(p.Text), "errorTextChars": utf8.RuneCountInString(p.Text), "dataBytes": len(p.Data)})
			}
			return map[string]any{"kind": "response-content", "requests": out}
		}, append([]string{"response-content"}, labels...)...)
	})
}

func sizeClass(n int) string {
	switch {
	case n <= 255:
		return "le255"
	case n <= 1024:
		return "le1024"
	default:
		return "gt1024"
	}
}

func window(s string, a, b int) string {
	if a > len(s) {
		return ""
	}
	if b > len(s) {
		b = len(s)
	}
	return s[a:b]
}

func clip(s string) string {
	if len(s) > 80 {
		return s[:40] + "..." + s[len(s)-30:]
	}
	return s
}
