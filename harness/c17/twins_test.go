package c17

// "Concurrent requests that are indistinguishable by content": a generated dimension of every workload class.
//
// A group of 2-4 calls sends the same procedure with a byte-identical payload, fired together (gate) within one
// wall-clock second: (a) from one node to two or three different responder hosts, (b) several times from one node to the
// same host, (c) freely mixed. Nothing but the layer's own bookkeeping keeps such requests apart. The responders answer
// with a token naming the message ID they serve, THEMSELVES (node) and the number of the handler invocation (per group and
// responder), after different latencies (slow, but well inside the timeout, and fast), so the replies come back in an
// order different from the order of the requests. The rest of the case is the payload-diverse traffic of its class.
//
// The handler cannot tell the calls of a group apart (that is the point), so nothing is attributed through the payload:
// a call's attempts are the message IDs its own goroutine passed the after-send point with; handler invocations are
// recorded per message ID. Oracle, as the statement says:
//   - every call returns (exactly once - one RequestFrom, one return) and what it returns is a response produced by ITS
//     target for one of ITS OWN message IDs: token node == addressed node == Response.PeerID, invocation recorded for
//     that ID at that node; no response instance is returned by two calls (correlation:*);
//   - no reply is dropped as "unknown request ID" while more requests with that ID are outstanding than responses with that
//     ID found a pending entry (lost-reply:dropped-as-unknown-while-request-outstanding; ordered through resMu, no clocks);
//   - handler runs per (group, requester, responder) <= calls x (retries+1); and when no response timer fired and nothing
//     was cancelled: exactly one run per call (retry-budget:*);
//   - pending tables empty afterwards (afterQuiescence, as for every case).
// Message IDs are not required to be unique by the statement; a shared ID is only reported as a note within a violation.

import (
	"fmt"
	"os"
	"sort"
	"strconv"
	"strings"
	"sync/atomic"
	"testing"
	"time"

	"pgregory.net/rapid"

	"github.com/LiskHQ/lisk-engine/pkg/p2p"

	"verifharness/evid"
)

const (
	sigLostOutstanding = "lost-reply:dropped-as-unknown-while-request-outstanding"
	sigTwinRuns        = "retry-budget:handler-runs(identical-requests)"
	sigTwinRunsNoTO    = "retry-budget:handler-ran-again-without-timeout(identical-requests)"
	sigTwinOneResponse = "correlation:one-response-returned-by-two-requests"
)

const (
	twinGateCap = 300 * time.Millisecond // a member that waits this long for the others goes (with those that arrived)
	twinGuard   = 150 * time.Millisecond // a group is not released in the last twinGuard of a wall-clock second
)

// twinGate lets the calls of one identical-payload group start together.
type twinGate struct {
	group   int
	need    int
	arrived int
	opened  bool
	open    chan struct{}
	capHit  bool
	aligned bool
	relSec  int64 // wall-clock second at which the gate opened
	inFl    atomic.Int32
	maxFl   atomic.Int32
}

// invRec: one handler invocation for an identical-payload request.
type invRec struct {
	id         string
	group      int
	node       int // responder
	src        int // requester node as the responder sees it (Request.PeerID); -1 = not a node of the cluster
	k          int // number of this invocation among those of (group, responder)
	planOf     int // call whose plan supplied latency and error flag
	err        bool
	answered   bool
	answerBeat int64
}

type twinStats struct {
	groups, calls       int
	diffPeers, samePeer int // groups with >= 2 responders for one requester / with >= 2 calls of one requester to one responder
	threeHosts          int // groups with 3 different responder hosts for one requester
	together            int // groups of which >= 2 calls were outstanding (after send, before return) at the same time
	sameSecond          int // groups whose first attempts all passed after-send within the wall-clock second the gate opened in
	gateCap, aligned    int
	ownResponse         int // calls that returned the response of their own target for their own message ID
	sharedIDs           int // message IDs used by more than one request (note only)
	runs                int // handler invocations
}

func twinPayload(no int64, group int) string {
	return "c17|" + strconv.FormatInt(no, 10) + "|g" + strconv.Itoa(group)
}

func (cs *caseState) initTwins() {
	cs.twins, cs.gates = map[int][]*callState{}, map[int]*twinGate{}
	cs.invByID, cs.invCnt, cs.subCnt = map[string][]*invRec{}, map[[2]int]int{}, map[[3]int]int{}
	for _, c := range cs.calls {
		g := c.plan.Twin
		if g <= 0 {
			continue
		}
		c.payload = twinPayload(cs.no, g)
		if c.plan.Sized && c.plan.ReqSize <= 1 { // payload-size dimension: the group's requests carry 0 / 1 byte of data (load_test.go)
			c.reqData = sizedBytes("", c.plan.ReqSize, 0)
			cs.tinyGroup[c.plan.ReqSize] = g
		}
		cs.twins[g] = append(cs.twins[g], c)
		if cs.gates[g] == nil {
			cs.gates[g] = &twinGate{group: g, open: make(chan struct{})}
		}
		cs.gates[g].need++
	}
}

func (cs *caseState) knownTwinID(id string) bool { // cs.mu held
	return len(cs.invByID[id]) > 0 || len(cs.bInv[id]) > 0 // ... or of a Broadcast call (bcast_test.go)
}

// twinArrive: the call waits until every call of its group is about to start (or twinGateCap); the last one keeps the
// group out of the last twinGuard of a wall-clock second, so that all requests are created within one second.
func (cs *caseState) twinArrive(c *callState) {
	g := cs.gates[c.plan.Twin]
	if g == nil {
		return
	}
	cs.mu.Lock()
	g.arrived++
	last := g.arrived >= g.need
	cs.mu.Unlock()
	if last {
		cs.twinOpen(g, false)
		return
	}
	tm := time.NewTimer(twinGateCap)
	defer tm.Stop()
	select {
	case <-g.open:
	case <-cs.closing:
	case <-tm.C:
		cs.twinOpen(g, true)
		select {
		case <-g.open:
		case <-cs.closing:
		}
	}
}

func (cs *caseState) twinOpen(g *twinGate, capped bool) {
	cs.mu.Lock()
	if g.opened {
		cs.mu.Unlock()
		return
	}
	g.opened, g.capHit = true, capped
	cs.mu.Unlock()
	cs.touch()
	if rem := time.Second - time.Duration(time.Now().Nanosecond()); rem < twinGuard {
		time.Sleep(rem + 2*time.Millisecond)
		cs.mu.Lock()
		g.aligned = true
		cs.mu.Unlock()
	}
	cs.mu.Lock()
	g.relSec = time.Now().Unix()
	cs.mu.Unlock()
	cs.touch()
	close(g.open)
}

// twinSent: after-send of an attempt of an identical-payload call (requester goroutine).
func (cs *caseState) twinSent(c *callState, a *attState) {
	g := cs.gates[c.plan.Twin]
	if g == nil {
		return
	}
	now := time.Now().Unix()
	cs.mu.Lock()
	first := !c.twinInFlight && c.firstSendSec == 0
	if first {
		c.firstSendSec, c.twinInFlight = now, true
	}
	cs.mu.Unlock()
	if first {
		n := g.inFl.Add(1)
		for {
			m := g.maxFl.Load()
			if n <= m || g.maxFl.CompareAndSwap(m, n) {
				break
			}
		}
	}
}

func (cs *caseState) twinReturned(c *callState) {
	g := cs.gates[c.plan.Twin]
	if g == nil {
		return
	}
	cs.mu.Lock()
	was := c.twinInFlight
	c.twinInFlight = false
	cs.mu.Unlock()
	if was {
		g.inFl.Add(-1)
	}
}

func (cs *caseState) nodeOf(id p2p.PeerID) int {
	for i, x := range cs.cl.ids {
		if x == id {
			return i
		}
	}
	return -1
}

// handleTwin serves a request with the payload of an identical-payload group. Which call of the group sent it is not
// knowable here when several calls go from the same requester to this node; latency and error flag are then taken from
// those calls in turn (arrival order). The invocation is recorded under the message ID.
func (cs *caseState) handleTwin(node int, gs string, w p2p.ResponseWriter, req *p2p.Request) {
	grp, err := strconv.Atoi(gs[1:])
	if err != nil || len(cs.twins[grp]) == 0 {
		w.Write([]byte("stale"))
		return
	}
	cs.inHand.Add(1)
	defer cs.inHand.Add(-1)
	cs.touch()
	src := cs.nodeOf(req.PeerID)
	members := cs.twins[grp] // immutable after initTwins
	var cand []*callState
	for _, m := range members {
		if m.plan.Dst == node && m.plan.Src == src {
			cand = append(cand, m)
		}
	}
	if len(cand) == 0 {
		cs.misrte.Add(1) // nobody sent this payload from that node to this one
		cand = members
	}
	cs.mu.Lock()
	cs.invCnt[[2]int{grp, node}]++
	k := cs.invCnt[[2]int{grp, node}]
	arr := cs.subCnt[[3]int{grp, src, node}]
	cs.subCnt[[3]int{grp, src, node}]++
	m := cand[arr%len(cand)]
	ai := arr / len(cand)
	if ai >= len(m.plan.Att) {
		ai = len(m.plan.Att) - 1
	}
	pl := m.plan.Att[ai]
	rec := &invRec{id: req.ID, group: grp, node: node, src: src, k: k, planOf: m.idx, err: pl.Err}
	cs.invByID[req.ID] = append(cs.invByID[req.ID], rec)
	cs.mu.Unlock()
	tok := tokenOf(pl.Err, m.payload, req.ID, node, k)
	sleepUs(pl.LatUs)
	if pl.Err {
		w.Error(fmt.Errorf("%s", tok))
	} else {
		w.Write([]byte(tok))
	}
	cs.sent.Add(1)
	cs.mu.Lock()
	rec.answered, rec.answerBeat = true, hbBeats.Load()
	cs.mu.Unlock()
	cs.touch()
}

// attributeTwinRuns (evaluate, cs.mu held): handler invocations of identical-payload requests are attributed to the
// attempt that used their message ID - when exactly one request used that ID.
func (cs *caseState) attributeTwinRuns() {
	for id, recs := range cs.invByID {
		os := cs.owners[id]
		if len(os) != 1 {
			continue
		}
		a := os[0]
		for _, r := range recs {
			a.handlerN++
			a.call.handlerN++
			if r.answered && !a.answered {
				a.answered, a.answerBeat = true, r.answerBeat
			}
		}
	}
}

func (cs *caseState) describeTwinGroup(g int) string { // cs.mu held
	var sb strings.Builder
	fmt.Fprintf(&sb, "\n    identical-payload group %d:", g)
	if gt := cs.gates[g]; gt != nil {
		fmt.Fprintf(&sb, " fired together at wall-clock second %d (gate cap hit: %v), at most %d outstanding at once", gt.relSec, gt.capHit, gt.maxFl.Load())
	}
	for _, m := range cs.twins[g] {
		sb.WriteString("\n    " + m.describe())
	}
	var ids []string
	for id, recs := range cs.invByID {
		if len(recs) > 0 && recs[0].group == g {
			ids = append(ids, id)
		}
	}
	sort.Strings(ids)
	for _, id := range ids {
		var os []string
		for _, o := range cs.owners[id] {
			os = append(os, strconv.Itoa(o.call.idx))
		}
		fmt.Fprintf(&sb, "\n    message ID %s: used by call(s) %s;", id, strings.Join(os, ","))
		for _, r := range cs.invByID[id] {
			fmt.Fprintf(&sb, " handler run r%d/k%d (request from node %d, answered=%v)", r.node, r.k, r.src, r.answered)
		}
		if e := cs.idEv[id]; e != nil {
			fmt.Fprintf(&sb, " responses: %d found a pending entry, %d dropped as unknown", e.found, e.unknown)
		}
	}
	return sb.String()
}

func (cs *caseState) describeLostOutstanding(id string) string { // cs.mu held
	e := cs.idEv[id]
	var sb strings.Builder
	fmt.Fprintf(&sb, "a response with message ID %s was dropped as 'unknown request ID' while %d request(s) with that ID were outstanding (after-send passed, timer not fired, context not cancelled) and only %d response(s) with that ID had found a pending entry: the pending entry of a waiting request was missing, its reply is lost.",
		id, e.lostWaiting, e.lostFound)
	if os := cs.owners[id]; len(os) > 1 {
		fmt.Fprintf(&sb, " Note: the message ID was used by %d requests at the same time.", len(os))
	}
	grp := 0
	for _, o := range cs.owners[id] {
		if o.call.plan.Twin > 0 {
			grp = o.call.plan.Twin
		}
	}
	if grp > 0 {
		sb.WriteString(cs.describeTwinGroup(grp))
	} else {
		for _, o := range cs.owners[id] {
			sb.WriteString("\n    " + o.call.describe())
		}
	}
	return sb.String()
}

// judgeTwinResult: "" = the remote response txt returned by identical-payload call c is its own.
func (cs *caseState) judgeTwinResult(c *callState, txt string, r p2p.Response, seen map[string]*callState) string { // cs.mu held
	parts := strings.Split(txt, "|")
	if len(parts) != 7 || parts[1]+"|"+parts[2]+"|"+parts[3] != c.payload {
		return "it does not answer this payload"
	}
	isErr := parts[0] == "err"
	if parts[0] != "tok" && !isErr {
		return "unknown token kind"
	}
	a := cs.attOf(parts[4], c)
	if a == nil || !a.entered {
		return fmt.Sprintf("it answers message ID %s, which none of this call's attempts used", parts[4])
	}
	node, e1 := strconv.Atoi(strings.TrimPrefix(parts[5], "r"))
	k, e2 := strconv.Atoi(strings.TrimPrefix(parts[6], "k"))
	if e1 != nil || e2 != nil {
		return "malformed token"
	}
	if node != c.plan.Dst {
		return fmt.Sprintf("it was produced by node %d, the call addressed node %d", node, c.plan.Dst)
	}
	if r.PeerID() != cs.cl.ids[c.plan.Dst] {
		return fmt.Sprintf("Response.PeerID is %s, the call addressed node %d = %s", r.PeerID(), c.plan.Dst, cs.cl.ids[c.plan.Dst])
	}
	var rec *invRec
	for _, x := range cs.invByID[parts[4]] {
		if x.node == node && x.k == k {
			rec = x
		}
	}
	if rec == nil {
		return fmt.Sprintf("no handler run r%d/k%d is recorded for message ID %s", node, k, parts[4])
	}
	if rec.err != isErr || isErr != (r.Error() != nil) {
		return "error flag of the response differs from what the handler answered"
	}
	if o := seen[txt]; o != nil && o != c {
		return fmt.Sprintf("[%s] the same response instance was also returned by call %d", sigTwinOneResponse, o.idx)
	}
	seen[txt] = c
	return ""
}

// judgeTwins (evaluate, cs.mu held): statistics and the handler-run accounting per (group, requester, responder).
func (cs *caseState) judgeTwins(v *verdict) {
	if len(cs.twins) == 0 {
		return
	}
	maxRuns := p2p.VerifMaxRetries() + 1
	groups := make([]int, 0, len(cs.twins))
	for g := range cs.twins {
		groups = append(groups, g)
	}
	sort.Ints(groups)
	for id, recs := range cs.invByID {
		v.tw.runs += len(recs)
		if len(cs.owners[id]) > 1 {
			v.tw.sharedIDs++
		}
	}
	for _, g := range groups {
		ms, gt := cs.twins[g], cs.gates[g]
		v.tw.groups++
		v.tw.calls += len(ms)
		type sub struct{ src, dst int }
		subs := map[sub][]*callState{}
		dsts := map[int]map[int]bool{}
		for _, m := range ms {
			k := sub{m.plan.Src, m.plan.Dst}
			subs[k] = append(subs[k], m)
			if dsts[m.plan.Src] == nil {
				dsts[m.plan.Src] = map[int]bool{}
			}
			dsts[m.plan.Src][m.plan.Dst] = true
		}
		maxD, rep := 0, false
		for _, d := range dsts {
			if len(d) > maxD {
				maxD = len(d)
			}
		}
		for _, l := range subs {
			if len(l) > 1 {
				rep = true
			}
		}
		if maxD >= 2 {
			v.tw.diffPeers++
		}
		if maxD >= 3 {
			v.tw.threeHosts++
		}
		if rep {
			v.tw.samePeer++
		}
		if gt.maxFl.Load() >= 2 {
			v.tw.together++
		}
		if gt.capHit {
			v.tw.gateCap++
		}
		if gt.aligned {
			v.tw.aligned++
		}
		same := gt.relSec != 0
		for _, m := range ms {
			if m.firstSendSec != gt.relSec {
				same = false
			}
		}
		if same {
			v.tw.sameSecond++
		}
		// handler-run accounting
		keys := make([]sub, 0, len(subs))
		for k := range subs {
			keys = append(keys, k)
		}
		sort.Slice(keys, func(i, j int) bool {
			if keys[i].src != keys[j].src {
				return keys[i].src < keys[j].src
			}
			return keys[i].dst < keys[j].dst
		})
		for _, k := range keys {
			l := subs[k]
			runs := 0
			tiny := cs.tinyGroup[0] == g || cs.tinyGroup[1] == g
			for id, recs := range cs.invByID {
				for _, r := range recs {
					if r.group == g && r.node == k.dst && r.src == k.src {
						// a request of 0 / 1 byte carries no case number: a straggler of an earlier case (sent, its call
						// gone, served only now) is indistinguishable from this group's requests - except that no call
						// of this case used its message ID
						if tiny && len(cs.owners[id]) == 0 {
							v.sz.tinyNoOwn++
							continue
						}
						runs++
					}
				}
			}
			quiet := true // no timer fired, nothing cancelled, every call returned a remote response
			for _, m := range l {
				if !m.returned || m.cancelled || m.plan.Cancel {
					quiet = false
					continue
				}
				if e := m.resp.Error(); e != nil && !strings.HasPrefix(e.Error(), "err|") {
					quiet = false
				}
				for _, a := range m.atts {
					if a.timeoutFired {
						quiet = false
					}
				}
			}
			if runs > len(l)*maxRuns {
				v.add(sigTwinRuns, "the handler of node %d ran %d times for the %d identical call(s) of node %d (max %d each): %s", k.dst, runs, len(l), k.src, maxRuns, cs.describeTwinGroup(g))
			} else if quiet && runs != len(l) {
				v.add(sigTwinRunsNoTO, "the handler of node %d ran %d times for the %d identical call(s) of node %d although no response timer fired and nothing was cancelled (every call returned a remote response): %s", k.dst, runs, len(l), k.src, cs.describeTwinGroup(g))
			}
		}
	}
}

func twinLabels(w *workload, v *verdict) []string {
	if v.tw.groups == 0 {
		return []string{"identical-payload:case-without-identical-requests"}
	}
	labels := []string{"identical-payload:case-with-concurrent-identical-requests"}
	if v.tw.diffPeers > 0 {
		labels = append(labels, "identical-payload:case-same-request-to-different-peers")
	}
	if v.tw.threeHosts > 0 {
		labels = append(labels, "identical-payload:case-same-request-to-three-peers")
	}
	if v.tw.samePeer > 0 {
		labels = append(labels, "identical-payload:case-same-request-repeated-to-same-peer")
	}
	if v.tw.together > 0 && v.tw.sameSecond > 0 {
		labels = append(labels, "identical-payload:case-identical-requests-outstanding-together-within-one-second")
	}
	if len(w.Calls) > v.tw.calls {
		labels = append(labels, "identical-payload:case-mixed-with-payload-diverse-calls")
	}
	evid.R.Label("identical-payload:groups", int64(v.tw.groups))
	evid.R.Label("identical-payload:groups-to-different-peers", int64(v.tw.diffPeers))
	evid.R.Label("identical-payload:groups-to-three-different-peers", int64(v.tw.threeHosts))
	evid.R.Label("identical-payload:groups-repeated-to-same-peer", int64(v.tw.samePeer))
	evid.R.Label("identical-payload:groups-outstanding-together(>=2-after-send)", int64(v.tw.together))
	evid.R.Label("identical-payload:groups-all-first-attempts-within-one-wall-clock-second", int64(v.tw.sameSecond))
	evid.R.Label("identical-payload:groups-held-back-for-second-boundary", int64(v.tw.aligned))
	evid.R.Label("identical-payload:gate-cap-hit", int64(v.tw.gateCap))
	evid.R.Label("identical-payload:calls", int64(v.tw.calls))
	evid.R.Label("identical-payload:calls-returned-response-of-own-target-and-own-id", int64(v.tw.ownResponse))
	evid.R.Label("identical-payload:handler-runs", int64(v.tw.runs))
	evid.R.Label("identical-payload:payload-diverse-calls-in-the-same-cases", int64(len(w.Calls)-v.tw.calls))
	evid.R.Label("identical-payload:message-ids-shared-by-requests(note)", int64(v.tw.sharedIDs))
	return labels
}

// ---- generator: identical payload as a dimension of every workload class ----

// addTwins inserts 0-3 groups of 2-4 identical-payload calls into a generated workload. slowLo..slowHi (us): latency of
// the slow responders (inside the timeout); lateUs > 0: in one group of four the slow members are answered lateUs.. after
// the timeout in their first attempt instead (storm class).
func addTwins(t *rapid.T, w *workload, slowLo, slowHi, lateUs int) {
	// rapid's integer draws favour small values: most cases carry at least one group
	ng := []int{1, 2, 0, 3, 1, 0}[rapid.IntRange(0, 5).Draw(t, "identicalPayloadGroups")]
	if os.Getenv("VERIF_C17_NO_IDENTICAL") != "" { // A/B runs only (what does the dimension change in the other statistics?)
		ng = 0
	}
	for g := 1; g <= ng; g++ {
		lb := fmt.Sprintf("same%d.", g)
		shape := rapid.IntRange(0, 2).Draw(t, lb+"shape") // 0 different peers, 1 same peer, 2 free
		size := rapid.IntRange(2, 4).Draw(t, lb+"size")
		if shape == 0 { // two or three different responder hosts for one requester
			need := 3
			if size >= 3 {
				need = 4
			}
			if w.NConn < need {
				w.NConn = need
			}
		}
		src := rapid.IntRange(0, w.NConn-1).Draw(t, lb+"src")
		dstOff := rapid.IntRange(0, w.NConn-2).Draw(t, lb+"dstOff")
		slowFirst := rapid.IntRange(0, 1).Draw(t, lb+"slowFirst")
		late := lateUs > 0 && rapid.IntRange(0, 3).Draw(t, lb+"late") == 3
		fastHi := 2000
		if slowLo/4 < fastHi {
			fastHi = slowLo / 4
		}
		pos := rapid.IntRange(0, len(w.Calls)).Draw(t, lb+"pos")
		var ms []callPlan
		for j := 0; j < size; j++ {
			mb := fmt.Sprintf("%sm%d.", lb, j)
			c := callPlan{Twin: g, Src: src, PreUs: rapid.IntRange(0, 300).Draw(t, mb+"pre")}
			switch shape {
			case 0:
				c.Dst = (src + 1 + (dstOff+j)%(w.NConn-1)) % w.NConn
			case 1:
				c.Dst = (src + 1 + dstOff) % w.NConn
			default:
				c.Src = rapid.IntRange(0, w.NConn-1).Draw(t, mb+"src")
				c.Dst = (c.Src + 1 + rapid.IntRange(0, w.NConn-2).Draw(t, mb+"dstOff")) % w.NConn
			}
			isErr := rapid.IntRange(0, 9).Draw(t, mb+"err") == 9
			fast := attPlan{LatUs: rapid.IntRange(0, fastHi).Draw(t, mb+"fast"), Err: isErr}
			first := fast
			if (j+slowFirst)%2 == 0 {
				first = attPlan{LatUs: rapid.IntRange(slowLo, slowHi).Draw(t, mb+"slow"), Err: isErr}
				if late {
					first.LatUs = w.TimeoutMs*1000 + rapid.IntRange(1000, lateUs).Draw(t, mb+"lateBy")
				}
			}
			c.Att = []attPlan{first}
			for k := 1; k <= p2p.VerifMaxRetries(); k++ {
				if late {
					c.Att = append(c.Att, fast)
				} else {
					c.Att = append(c.Att, first)
				}
			}
			ms = append(ms, c)
		}
		w.Calls = append(w.Calls[:pos], append(ms, w.Calls[pos:]...)...)
		if w.Workers < size { // consecutive calls run on different workers
			w.Workers = size
		}
	}
}

// ---- directed: the same request to three peers, three times to one peer, and both mixed, among diverse traffic ----

func directedIdentical(variant int) *workload {
	const T = 400
	w := &workload{NConn: 4, TimeoutMs: T, Workers: 12, Force: true}
	rep := func(a attPlan) []attPlan { return []attPlan{a, a, a, a} }
	slow, mid, fast := attPlan{LatUs: 120000}, attPlan{LatUs: 50000}, attPlan{}
	add := func(g, src, dst int, a attPlan) {
		w.Calls = append(w.Calls, callPlan{Twin: g, Src: src, Dst: dst, Att: rep(a)})
	}
	switch variant {
	case 0: // (a) one question to three peers at once
		add(1, 0, 1, slow)
		add(1, 0, 2, fast)
		add(1, 0, 3, mid)
	case 1: // (b) the same question three times to one peer
		add(1, 1, 2, slow)
		add(1, 1, 2, fast)
		add(1, 1, 2, mid)
	default: // both, two groups at once, and the same payload from a second requester
		add(1, 0, 1, slow)
		add(1, 0, 1, fast)
		add(1, 0, 2, fast)
		add(1, 3, 1, mid)
		add(2, 2, 3, fast)
		add(2, 2, 0, slow)
	}
	for i := len(w.Calls); i < 12; i++ { // payload-diverse calls at the same time
		w.Calls = append(w.Calls, callPlan{Src: i % 4, Dst: (i + 1 + i/4) % 4, PreUs: 50 * i, Att: rep(attPlan{LatUs: 1000 * (i % 3)})})
	}
	for i := 0; i < 12; i++ { // and afterwards
		w.Calls = append(w.Calls, callPlan{Src: (i + 1) % 4, Dst: i % 4, Att: rep(fast)})
	}
	return w
}

func TestRegressIdenticalConcurrentRequests(t *testing.T) {
	for variant := 0; variant < 3; variant++ {
		w := directedIdentical(variant)
		v, err := runCase(w)
		if err != nil {
			return // infrastructure, recorded as inconclusive
		}
		record(t, "directed:identical-concurrent-requests", w, v)
		if v.tw.together == 0 || v.tw.sameSecond == 0 {
			evid.R.Note("directed identical-concurrent-requests: the calls of a group were not outstanding together within one second (together=%d sameSecond=%d of %d)", v.tw.together, v.tw.sameSecond, v.tw.groups)
		}
	}
}
