package c17

// "Stalled peer" scenario class: some of the concurrent calls address black-hole peers (a silent TCP listener dialled as
// a libp2p peer: the TCP connect succeeds, the security negotiation never gets an answer, so opening the stream blocks
// until the caller's context is cancelled or libp2p's 5 s local dial timeout), the rest address healthy peers whose
// handler answers at once. A request/response layer that is not blocked by the stalled send delivers every healthy reply:
// handler runs exactly once, the call returns that reply. Everything of the form "should have been delivered in time"
// is judged only for calls during which a heartbeat goroutine of this process was never late (the process was not
// starved), and only after the same scenario reproduced 3 of 3 times; otherwise it is recorded as inconclusive.

import (
	"context"
	"crypto/ed25519"
	"crypto/sha256"
	"fmt"
	"net"
	"sync"
	"sync/atomic"
	"time"

	lcrypto "github.com/libp2p/go-libp2p/core/crypto"
	"github.com/libp2p/go-libp2p/core/peer"
	"pgregory.net/rapid"

	"github.com/LiskHQ/lisk-engine/pkg/p2p"

	"verifharness/evid"
)

const (
	sigStalledLost = "stalled-peer:healthy-reply-not-delivered"
	sigStalledLock = "stalled-peer:resMu-held-during-stalled-send"
)

// ---- process heartbeat (same idea as harness/c18) ----

const hbLate = 50 * time.Millisecond // a 5 ms beat that took longer than this = this process was starved

var (
	hbOnce   sync.Once
	hbBeats  atomic.Int64
	hbStalls atomic.Int64
)

func heartbeat() {
	hbOnce.Do(func() {
		go func() {
			for {
				t := time.Now()
				time.Sleep(5 * time.Millisecond)
				if time.Since(t) > hbLate {
					hbStalls.Add(1)
				}
				hbBeats.Add(1)
			}
		}()
	})
}

func waitBeat() {
	start := hbBeats.Load()
	for hbBeats.Load() == start {
		time.Sleep(time.Millisecond)
	}
}

// ---- black-hole peer ----

type blackHole struct {
	ln    net.Listener
	id    p2p.PeerID
	info  p2p.AddrInfo
	mu    sync.Mutex
	conns []net.Conn
}

var holeSerial atomic.Int64

// newBlackHole listens on 127.0.0.(6+k) and never says a word on accepted connections. Every hole has a fresh address
// and peer ID, so libp2p's dial backoff of an earlier case/run never shortens a stall.
func newBlackHole(k int) (*blackHole, error) {
	ln, err := net.Listen("tcp4", fmt.Sprintf("127.0.0.%d:0", 6+k))
	if err != nil {
		return nil, err
	}
	seed := sha256.Sum256([]byte(fmt.Sprintf("c17-black-hole-%d", holeSerial.Add(1))))
	std := ed25519.NewKeyFromSeed(seed[:])
	priv, _, err := lcrypto.KeyPairFromStdKey(&std)
	if err != nil {
		ln.Close()
		return nil, err
	}
	pid, err := peer.IDFromPrivateKey(priv)
	if err != nil {
		ln.Close()
		return nil, err
	}
	ai, err := p2p.AddrInfoFromMultiAddr(fmt.Sprintf("/ip4/127.0.0.%d/tcp/%d/p2p/%s", 6+k, ln.Addr().(*net.TCPAddr).Port, pid))
	if err != nil {
		ln.Close()
		return nil, err
	}
	b := &blackHole{ln: ln, id: pid, info: *ai}
	go func() {
		for {
			c, err := ln.Accept()
			if err != nil {
				return
			}
			b.mu.Lock()
			b.conns = append(b.conns, c)
			b.mu.Unlock()
		}
	}()
	return b, nil
}

func (b *blackHole) close() {
	b.ln.Close()
	b.mu.Lock()
	for _, c := range b.conns {
		c.Close()
	}
	b.conns = nil
	b.mu.Unlock()
}

// announce makes node know the hole's address: Connect puts it into the peerstore (TempAddrTTL, 2 min in this engine)
// before dialling; the dial itself is cancelled after 40 ms (a cancelled dial leaves no dial backoff behind).
func (b *blackHole) announce(conn *p2p.Connection) {
	ctx, cancel := context.WithCancel(context.Background())
	tm := time.AfterFunc(40*time.Millisecond, cancel)
	_ = conn.Connect(ctx, b.info)
	tm.Stop()
	cancel()
}

// startHoles creates the case's black holes and announces them to the nodes that will call them.
func (cs *caseState) startHoles() error {
	heartbeat()
	for k := 0; k < cs.w.Holes; k++ {
		b, err := newBlackHole(k)
		if err != nil {
			cs.closeHoles()
			return err
		}
		cs.holes = append(cs.holes, b)
	}
	need := map[[2]int]bool{}
	for _, c := range cs.w.Calls {
		if c.Hole > 0 {
			need[[2]int{c.Src, c.Hole - 1}] = true
		}
	}
	var wg sync.WaitGroup
	for k := range need {
		wg.Add(1)
		go func(src, hole int) {
			defer wg.Done()
			cs.holes[hole].announce(cs.cl.conns[src])
		}(k[0], k[1])
	}
	wg.Wait()
	return nil
}

func (cs *caseState) closeHoles() {
	for _, b := range cs.holes {
		b.close()
	}
}

// lockSampler: while a call to a black hole is outstanding on a node, resMu of that node is probed once per heartbeat
// (VerifPending = TryLock). A healthy layer holds resMu for map operations only, so a probe fails now and then at most;
// a long unbroken run of failures means the mutex is held across the stalled send. Counted in heartbeats, not in time.
func (cs *caseState) lockSampler() {
	var streak [maxNodes]int
	for {
		select {
		case <-cs.closing:
			return
		default:
		}
		waitBeat()
		for n := 0; n < cs.w.NConn; n++ {
			if cs.holeOut[n].Load() == 0 {
				streak[n] = 0
				continue
			}
			if _, ok := cs.cl.conns[n].VerifPending(); ok {
				streak[n] = 0
				continue
			}
			streak[n]++
			for {
				m := cs.maxStreak.Load()
				if int32(streak[n]) <= m || cs.maxStreak.CompareAndSwap(m, int32(streak[n])) {
					break
				}
			}
		}
	}
}

const lockStreakSuspect = 40 // consecutive failed probes (>= 40 heartbeats, >= 200 ms of scheduled process time)

// pristine: a call to a healthy peer whose handler answers at once and that nothing of ours disturbs.
func pristine(p callPlan) bool {
	if p.Hole > 0 || p.Cancel {
		return false
	}
	if p.Sized && (p.ReqSize > pristineMaxBytes || p.RespSize > pristineMaxBytes) {
		return false // moving megabytes takes its time on a loaded machine: "answered at once" does not describe such a call
	}
	for _, a := range p.Att {
		if a.LatUs > 2000 || a.Dir != dirNone || a.DupBefore || a.DupAfter > 0 {
			return false
		}
	}
	return true
}

// judgeStalled evaluates the stalled-peer oracle; called from evaluate with cs.mu held.
func (cs *caseState) judgeStalled(v *verdict) {
	if cs.w.Holes == 0 {
		return
	}
	v.lockStreak = int(cs.maxStreak.Load())
	if v.lockStreak >= lockStreakSuspect {
		v.stallCand = append(v.stallCand, fmt.Sprintf("[%s] resMu of a node could not be taken in %d consecutive probes (one per process heartbeat) while a call to a black-hole peer was outstanding on it", sigStalledLock, v.lockStreak))
	}
	for _, c := range cs.calls {
		if c.plan.Hole > 0 {
			v.holeCalls++
			continue
		}
		if !pristine(c.plan) || !c.returned {
			continue
		}
		if c.sawHole {
			v.overlapHole++
		}
		if c.stallsStart != c.stallsEnd {
			v.judgeSkipped++ // the process was starved at some point during this call: no verdict
			continue
		}
		v.judged++
		// Attempt-level, measured in heartbeats of this process (a starved process beats slowly, so the measure
		// shrinks with the load instead of producing a verdict): the handler had returned its reply, and the
		// requester's timer fired >= replyBeats heartbeats later without the reply having been handed over.
		for _, a := range c.atts {
			if !a.answered || !a.timeoutFired || a.timeoutBeat-a.answerBeat < replyBeats {
				continue
			}
			v.healthyBad++
			if c.plan.Twin > 0 {
				v.healthyBadTwin++
			}
			if len(v.stallCand) < 4 {
				v.stallCand = append(v.stallCand, fmt.Sprintf("[%s] healthy peer answered attempt %d at once; the requester's timer fired %d process heartbeats later (no late heartbeat during the call) and the reply had not been delivered; handler ran %d times, result err=%v (overlapped a black-hole call of its node: %v): %s",
					sigStalledLost, a.idx, a.timeoutBeat-a.answerBeat, c.handlerN, c.resp.Error(), c.sawHole, c.describe()))
			}
			break
		}
	}
}

// replyBeats: heartbeats (>= 5 ms of wall time and one scheduling round of this process each) a reply gets to cross
// loopback and be handed to its waiter before its absence is suspicious. With the timeouts of this class (150-300 ms)
// an idle machine offers 30-60 beats; under heavy load fewer beats fit into a timeout and nothing is judged.
const replyBeats = 20

// ---- generator ----

func drawStalled(t *rapid.T) *workload {
	w := &workload{}
	w.NConn = rapid.IntRange(2, 3).Draw(t, "conns")
	w.TimeoutMs = rapid.IntRange(150, 300).Draw(t, "timeoutMs")
	tUs := w.TimeoutMs * 1000
	w.Holes = rapid.IntRange(1, 2).Draw(t, "blackHoles")
	w.Workers = rapid.IntRange(8, 24).Draw(t, "workers")
	n := rapid.IntRange(30, 120).Draw(t, "nHealthy")
	if need := (n + 19) / 20; w.Workers < need {
		w.Workers = need
	}
	for i := 0; i < n; i++ {
		lb := fmt.Sprintf("h%d.", i)
		var c callPlan
		c.Src = rapid.IntRange(0, w.NConn-1).Draw(t, lb+"src")
		c.Dst = (c.Src + 1 + rapid.IntRange(0, w.NConn-2).Draw(t, lb+"dstOff")) % w.NConn
		c.PreUs = rapid.IntRange(0, 1500).Draw(t, lb+"pre")
		isErr := rapid.IntRange(0, 9).Draw(t, lb+"err") == 0
		lat := rapid.IntRange(0, 2000).Draw(t, lb+"lat")
		for k := 0; k <= p2p.VerifMaxRetries(); k++ {
			c.Att = append(c.Att, attPlan{LatUs: lat, Err: isErr})
		}
		w.Calls = append(w.Calls, c)
	}
	nh := rapid.IntRange(1, 5).Draw(t, "nHoleCalls")
	long := rapid.IntRange(0, 7).Draw(t, "uncancelledHoleCall") == 0 // one call waits for libp2p's own 5 s dial timeout
	for i := 0; i < nh; i++ {
		lb := fmt.Sprintf("z%d.", i)
		var c callPlan
		c.Src = rapid.IntRange(0, w.NConn-1).Draw(t, lb+"src")
		c.Dst = (c.Src + 1) % w.NConn // unused
		c.Hole = rapid.IntRange(1, w.Holes).Draw(t, lb+"hole")
		c.PreUs = rapid.IntRange(0, 20000).Draw(t, lb+"pre")
		if !(long && i == 0) {
			c.Cancel = true
			c.CancelUs = rapid.IntRange(2, 5).Draw(t, lb+"cancelK")*tUs + rapid.IntRange(0, tUs).Draw(t, lb+"cancelJit")
		}
		c.Att = []attPlan{{}, {}, {}, {}}
		// among the first three calls of some worker, so healthy traffic is in flight when the stall begins
		pos := rapid.IntRange(0, 3*w.Workers-1).Draw(t, lb+"pos")
		if pos > len(w.Calls) {
			pos = len(w.Calls)
		}
		w.Calls = append(w.Calls[:pos], append([]callPlan{c}, w.Calls[pos:]...)...)
	}
	addTwins(t, w, tUs/8, tUs/4, 0)
	addSizes(t, w)
	return w
}

// directedStalled: 12 workers, 72 healthy calls between two nodes, three calls of node 0 to one black hole, each
// cancelled after 3 timeouts.
func directedStalled() *workload {
	w := &workload{NConn: 2, TimeoutMs: 200, Workers: 12, Holes: 1, Force: true}
	for i := 0; i < 72; i++ {
		c := callPlan{Src: i % 2, Dst: (i + 1) % 2, PreUs: 100 * (i % 7), Att: []attPlan{fastAtt(), fastAtt(), fastAtt(), fastAtt()}}
		w.Calls = append(w.Calls, c)
	}
	for i := 0; i < 3; i++ {
		z := callPlan{Src: 0, Dst: 1, Hole: 1, PreUs: 4000 + 5000*i, Cancel: true, CancelUs: 600000, Att: []attPlan{{}, {}, {}, {}}}
		pos := 12 + 2*i // second call of workers 0, 2, 4
		w.Calls = append(w.Calls[:pos], append([]callPlan{z}, w.Calls[pos:]...)...)
	}
	return w
}

// confirmStalled: a stalled-peer suspect counts only if the same scenario shows it 3 of 3 times (the first run included).
func confirmStalled(t fataler, kind string, w *workload, first *verdict) {
	all := append([]string{}, first.stallCand...)
	for i := 0; i < 2; i++ {
		v, err := runCase(w)
		if err != nil {
			return
		}
		record(t, kind+":confirm", w, v)
		if len(v.stallCand) == 0 {
			evid.R.Label("stalled-peer:suspect-not-reproduced", 1)
			evid.R.Inconclusive("stalled-peer suspect not reproduced in re-run %d (not a verdict): %s", i+2, first.stallCand[0])
			return
		}
		all = append(all, v.stallCand[0])
	}
	msg := ""
	for _, s := range all {
		if len(s) > 1500 {
			s = s[:1500] + "…"
		}
		msg += "\n  " + s
	}
	t.Fatalf("C17 violated: a stalled send to one peer blocks the request/response layer for the others - timely replies of healthy peers are not delivered (3 of 3 runs of the same scenario, judged only for calls without a process stall):%s", msg)
}

func checkStalled(t fataler, kind string, w *workload, v *verdict) {
	if len(v.stallCand) > 0 {
		confirmStalled(t, kind, w, v)
	}
}
