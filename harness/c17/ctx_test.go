package c17

// "Context shapes" scenario class: the caller's context as a generated dimension.
//
// Every other class calls RequestFrom / Broadcast with context.WithCancel contexts (cancelled or not): none of them has a
// DEADLINE. Here every call draws the shape of its context:
//
//	background                          context.Background()
//	cancel-never / cancel-at            context.WithCancel, never cancelled / cancelled at a drawn time (0..4.5 T)
//	deadline-shorter-than-one-attempt   WithTimeout / WithDeadline below the response timeout T
//	deadline-inside-retry-budget        between one attempt and the whole budget (1.2 T .. 3.8 T)
//	deadline-far-beyond-retry-budget    10..20 x the elapsed-time bound below (25 s .. 70 s; the budget is 80..200 ms)
//	deadline-already-expired            deadline one second in the past
//
// (half of the deadline contexts are passed as a WithCancel child of the deadline context - Deadline() is inherited), and
// the kind of its responder: never answers while the call runs ("silent": the handler returns only after the call has
// returned) / answers after the timeout in every attempt / in its first 1-3 attempts and in time afterwards / in time /
// with an error reply / is a peer nobody has an address of (the call fails at once). Three variants of a case:
//
//	short-timeout  2-3 nodes of the shared cluster, T 20-50 ms, 4-24 RequestFrom calls, at most two per worker
//	broadcast      private star (hub + 1-3 peers, in time / silent / late / error reply), T 20-40 ms, 1-2 Broadcast calls of
//	               the hub and 0-6 RequestFrom calls hub <-> peers, each with its own context shape
//	long-timeout   T = 4 s (budget 16 s): every call is answered at once or has a context that ends within 150 ms
//	               (short deadline / cancelled / already expired) while its responder stays silent
//
// Oracles (upper bounds only; nothing is concluded from a call being fast):
//
//	A  [budget:request-outlives-timeout-and-retry-budget] a call - whatever its context - returns within
//	   bound = 3 x budget + 2 s (budget = (retries+1) x T, for Broadcast x connected peers). At `bound` the harness cancels
//	   the context itself ("rescue") so that a case never waits for a far deadline. The far deadlines are >= 10 x bound.
//	B  [context:request-outlives-its-context] a call whose context ended (deadline passed / cancelled by the plan) while it
//	   was running returns within 2 s after that moment. Discriminating in the long-timeout variant only (2 s << T = 4 s).
//	   A and B are suspects first: they count only if the process got at least a quarter of its heartbeats during the call,
//	   and are reported only when the same call, run alone on a fresh case, shows the same suspect 3 times out of 3.
//	C  [retry-budget:timeout-error-before-retries-used] a call that returns the layer's "timeout" error although its context
//	   was still alive when it returned has been SENT retries+1 times (after-send schedule point on the caller's goroutine:
//	   exact, no clock; for Broadcast: retries+1 attempts of the caller's goroutine timed out). In particular a deadline
//	   beyond the budget does not reduce the number of attempts compared with a context without a deadline.
//	+  every older oracle (own token, attempts and handler runs <= retries+1, no reply dropped while its request is
//	   outstanding - a call whose deadline has passed counts as ended there -, pending tables empty, nothing parked, watchdog).
//
// Which error a call returns (timeout / context error / stream error) is counted, not asserted: "context error only if the
// context ended" was removed from this check earlier as beyond the statement ("... or an error").

import (
	"context"
	"errors"
	"fmt"
	"os"
	"sort"
	"strconv"
	"testing"
	"time"

	"pgregory.net/rapid"

	"github.com/LiskHQ/lisk-engine/pkg/p2p"

	"verifharness/evid"
)

const (
	sigCtxBudget   = "budget:request-outlives-timeout-and-retry-budget"
	sigCtxOutlives = "context:request-outlives-its-context"
	sigCtxAttempts = "retry-budget:timeout-error-before-retries-used"
)

const (
	ctxBackground  = "background"
	ctxCancelNever = "cancel-never"
	ctxCancelAt    = "cancel-at"
	ctxShort       = "deadline-shorter-than-one-attempt"
	ctxMid         = "deadline-inside-retry-budget"
	ctxFar         = "deadline-far-beyond-retry-budget"
	ctxExpired     = "deadline-already-expired"
)

const (
	respSilent    = "silent"
	respLateAll   = "late-in-every-attempt"
	respLateThen  = "late-then-in-time"
	respInTime    = "in-time"
	respErrReply  = "error-reply"
	respUnreach   = "unreachable-peer"
	respBroadcast = "broadcast" // the responders are the peers of the star (workload.Peers)
)

const (
	ctxSlack      = 2 * time.Second // generous: the machine is shared and often loaded 5x
	ctxAfterBound = 2 * time.Second // a call returns this soon after its context ended
	ctxLongT      = 4000            // ms, long-timeout variant
)

// ctxCall: what the harness knows about the context and the duration of one call of this class.
type ctxCall struct {
	start, end  time.Time
	beat0       int64
	beats       int64 // process heartbeats between start and return
	deadline    time.Time
	hasDeadline bool
	endAt       time.Time // when the context ended as far as the harness knows: deadline, moment of the cancellation; zero = never
	ctxErr      error     // ctx.Err() right after the call returned
	overdue     bool      // the rescue fired: the call had not returned at `bound`
	bound       time.Duration
	rescue      *time.Timer
	cancels     []context.CancelFunc
}

type ctxSuspect struct {
	sig    string
	call   int
	detail string
}

type ctxStats struct {
	calls      int
	shapes     map[string]int
	resps      map[string]int
	combos     map[string]int
	deadlineN  int // calls that ended with context.DeadlineExceeded
	competed   int // calls with a deadline beyond the response timeout that had an attempt whose timer fired
	farMissing int // calls with a far deadline whose replies were all missing ...
	farTimeout int // ... that ended with the timeout error after retries+1 attempts
	fullBudget int // calls that ended with the timeout error after retries+1 attempts (any shape)
	endedByCtx int // calls whose context ended while they ran
	ctxErrLive int // context error returned although the context was alive (counted only)
	notJudged  int
	maxPct     int // largest elapsed time of a call in percent of its bound
	suspects   []ctxSuspect
}

// ctxOver (cs.mu held): the caller's context has ended - cancelled by the harness (flag set before cancel()) or its
// deadline has passed. The context's own timer never fires before the deadline and the requester leaves its select only
// after that, so whoever observes an effect of the expiry (a reply finding no entry) reads a clock that is past the deadline.
func (c *callState) ctxOver() bool {
	return c.cancelled || (c.cx.hasDeadline && !time.Now().Before(c.cx.deadline))
}

func ctxPeers(w *workload) int {
	if w.Star > 0 {
		return w.Star
	}
	return 1
}

// ctxBound: generous upper bound for the duration of one call: three times its whole timeout and retry budget plus slack.
func ctxBound(w *workload, p callPlan) time.Duration {
	budget := time.Duration(p2p.VerifMaxRetries()+1) * time.Duration(w.TimeoutMs) * time.Millisecond
	if p.Bcast {
		budget *= time.Duration(ctxPeers(w))
	}
	return 3*budget + ctxSlack
}

// shapeCtx builds the context of call c (runCall, right before the call). parent is the WithCancel context runCall made
// (c.cancel cancels it): every shape but "background" hangs below it, so the rescue can end the call.
func (cs *caseState) shapeCtx(c *callState, parent context.Context) context.Context {
	d := time.Duration(c.plan.CtxUs) * time.Microsecond
	ctx := parent
	var dl time.Time
	switch c.plan.Ctx {
	case ctxBackground:
		ctx = context.Background()
	case ctxCancelNever, ctxCancelAt: // cancel-at: the plan's Cancel/CancelUs arm the timer
	case ctxExpired:
		dl = time.Now().Add(-time.Second)
	default:
		dl = time.Now().Add(d)
	}
	var cancels []context.CancelFunc
	if !dl.IsZero() {
		var cf context.CancelFunc
		if c.idx%2 == 0 {
			ctx, cf = context.WithDeadline(parent, dl)
		} else if c.plan.Ctx == ctxExpired {
			ctx, cf = context.WithTimeout(parent, -time.Second)
		} else {
			ctx, cf = context.WithTimeout(parent, d)
		}
		cancels = append(cancels, cf)
		dl, _ = ctx.Deadline()
		if c.idx%4 >= 2 { // a cancellable child: the deadline is inherited
			ctx, cf = context.WithCancel(ctx)
			cancels = append(cancels, cf)
		}
	}
	bound := ctxBound(cs.w, c.plan)
	cs.mu.Lock()
	c.cx.bound, c.cx.beat0, c.cx.cancels = bound, hbBeats.Load(), cancels
	if !dl.IsZero() {
		c.cx.deadline, c.cx.hasDeadline, c.cx.endAt = dl, true, dl
	}
	c.cx.rescue = time.AfterFunc(bound, func() {
		cs.mu.Lock()
		late := c.cx.end.IsZero()
		if late {
			c.cx.overdue = true
		}
		cs.mu.Unlock()
		if late {
			cs.cancelCall(c)
		}
	})
	cs.mu.Unlock()
	return ctx
}

// ctxReturned: the call has just returned.
func (cs *caseState) ctxReturned(c *callState, ctx context.Context, start time.Time) {
	now, e := time.Now(), ctx.Err()
	cs.mu.Lock()
	c.cx.start, c.cx.end, c.cx.ctxErr = start, now, e
	c.cx.beats = hbBeats.Load() - c.cx.beat0
	cs.mu.Unlock()
}

func (cs *caseState) ctxRescueStop(c *callState) {
	cs.mu.Lock()
	r, cf := c.cx.rescue, c.cx.cancels
	cs.mu.Unlock()
	if r != nil {
		r.Stop()
	}
	for _, f := range cf {
		f()
	}
}

func (c *callState) describeCtx() string { // cs.mu held
	x := &c.cx
	s := fmt.Sprintf("CONTEXT(shape=%s", c.plan.Ctx)
	if c.plan.CtxUs > 0 {
		s += fmt.Sprintf(" at=%v", time.Duration(c.plan.CtxUs)*time.Microsecond)
	}
	if c.plan.Resp != "" {
		s += " responder=" + c.plan.Resp
	}
	if !x.end.IsZero() {
		s += fmt.Sprintf(" elapsed=%v heartbeats=%d bound=%v ctx.Err()-at-return=%v", x.end.Sub(x.start).Round(time.Millisecond), x.beats, x.bound, x.ctxErr)
		if !x.endAt.IsZero() && x.endAt.Before(x.end) {
			from := x.endAt
			if from.Before(x.start) {
				from = x.start
			}
			s += fmt.Sprintf(" returned %v after its context ended", x.end.Sub(from).Round(time.Millisecond))
		}
	}
	if x.overdue {
		s += " NOT RETURNED AT THE BOUND: context cancelled by the harness"
	}
	return s + ")"
}

// judgeCtx (evaluate, cs.mu held).
func (cs *caseState) judgeCtx(v *verdict) {
	w := cs.w
	if w.CtxClass == "" {
		return
	}
	v.cx.shapes, v.cx.resps, v.cx.combos = map[string]int{}, map[string]int{}, map[string]int{}
	need := p2p.VerifMaxRetries() + 1
	T := time.Duration(w.TimeoutMs) * time.Millisecond
	for _, c := range cs.calls {
		if c.plan.Ctx == "" {
			continue
		}
		x := &c.cx
		v.cx.calls++
		v.cx.shapes[c.plan.Ctx]++
		v.cx.resps[c.plan.Resp]++
		v.cx.combos[c.plan.Ctx+"+"+c.plan.Resp]++
		sent, fired := 0, 0
		for _, a := range c.atts {
			if a.entered {
				sent++
			}
			if a.timeoutFired {
				fired++
			}
		}
		beyond := c.plan.Ctx == ctxMid || c.plan.Ctx == ctxFar
		if beyond && fired > 0 {
			v.cx.competed++
		}
		if !c.returned || x.end.IsZero() {
			continue // the watchdog's business
		}
		var rerr error
		if c.plan.Bcast {
			rerr = c.berr
		} else {
			rerr = c.resp.Error()
		}
		isTimeout := rerr != nil && rerr.Error() == "timeout"
		isCtxErr := rerr != nil && (errors.Is(rerr, context.Canceled) || errors.Is(rerr, context.DeadlineExceeded))
		if c.plan.Bcast && rerr != nil && errors.Is(rerr, context.DeadlineExceeded) {
			v.cx.deadlineN++
		}
		if isCtxErr && x.ctxErr == nil {
			v.cx.ctxErrLive++
		}
		el := x.end.Sub(x.start)
		ran := x.beats >= int64(el/(5*time.Millisecond))/4
		if pct := int(100 * el / x.bound); pct > v.cx.maxPct {
			v.cx.maxPct = pct
		}
		// A: within the timeout and retry budget
		if el > x.bound {
			if !ran {
				v.cx.notJudged++
				v.incon = append(v.incon, fmt.Sprintf("case %d: call %d took %v (bound %v) while the process got only %d heartbeats: not judged", cs.no, c.idx, el.Round(time.Millisecond), x.bound, x.beats))
			} else {
				v.cx.suspects = append(v.cx.suspects, ctxSuspect{sigCtxBudget, c.idx, fmt.Sprintf("the call had not ended %v after it started (%d process heartbeats): response timeout %v, %d retries, budget %v, bound = 3 x budget + %v = %v; %d attempt(s) sent, %d timer(s) fired: %s",
					el.Round(time.Millisecond), x.beats, T, need-1, (x.bound-ctxSlack)/3, ctxSlack, x.bound, sent, fired, c.describe())})
			}
		}
		// B: the context ended while the call ran
		if !x.endAt.IsZero() && x.endAt.Before(x.end) && !x.overdue {
			v.cx.endedByCtx++
			from := x.endAt
			if from.Before(x.start) {
				from = x.start
			}
			if after := x.end.Sub(from); after > ctxAfterBound {
				if !ran {
					v.cx.notJudged++
					v.incon = append(v.incon, fmt.Sprintf("case %d: call %d returned %v after its context ended while the process got only %d heartbeats: not judged", cs.no, c.idx, after.Round(time.Millisecond), x.beats))
				} else {
					v.cx.suspects = append(v.cx.suspects, ctxSuspect{sigCtxOutlives, c.idx, fmt.Sprintf("the call returned %v after its context had ended (bound %v; response timeout %v, %d process heartbeats during the call): %s",
						after.Round(time.Millisecond), ctxAfterBound, T, x.beats, c.describe())})
				}
			}
		}
		// C: the timeout error means that the retry budget was used
		if isTimeout && x.ctxErr == nil {
			n := sent
			if c.plan.Bcast {
				n = fired
				if len(c.atts) == 0 { // an engine that runs the per-peer requests on goroutines of their own: not visible here
					n = need
				}
			}
			if n < need {
				v.add(sigCtxAttempts, "the call ended with the timeout error after %d attempt(s) (%d timer(s) fired) although its context was alive when it returned; a request whose replies are missing is sent %d times, whatever the shape of its context: %s", sent, fired, need, c.describe())
			} else {
				v.cx.fullBudget++
			}
		}
		if c.plan.Ctx == ctxFar && (c.plan.Resp == respSilent || c.plan.Resp == respLateAll) {
			v.cx.farMissing++
			if isTimeout && sent >= need {
				v.cx.farTimeout++
			}
		}
	}
	if len(v.cx.suspects) > 0 {
		cs.cl.wedged = true // do not reuse
	}
}

// ctxNontrivial: the deadline of a context competed with the response timer (deadline beyond the timeout, a timer fired),
// or a context ended while its request was running.
func ctxNontrivial(v *verdict) bool {
	return v.cx.competed > 0 || v.cx.endedByCtx > 0
}

func ctxSummary(m map[string]any, w *workload, v *verdict) {
	m["ctx_class"], m["ctx_calls"], m["ctx_shapes"], m["ctx_responders"] = w.CtxClass, v.cx.calls, v.cx.shapes, v.cx.resps
	m["ctx_deadline_beyond_timeout_and_timer_fired"], m["ctx_ended_while_call_ran"] = v.cx.competed, v.cx.endedByCtx
	m["ctx_timeout_error_after_all_attempts"], m["ctx_result_deadline_exceeded"] = v.cx.fullBudget, v.cx.deadlineN
	m["ctx_far_deadline_all_replies_missing"], m["ctx_far_deadline_all_replies_missing_ended_with_timeout_after_all_attempts"] = v.cx.farMissing, v.cx.farTimeout
	m["ctx_longest_call_percent_of_bound"] = v.cx.maxPct
	if w.Star > 0 {
		m["star_peers"], m["peers"] = w.Star, w.Peers[1:]
	}
}

func ctxLabels(w *workload, v *verdict) []string {
	labels := []string{"class:context-shapes", "ctx-variant:" + w.CtxClass}
	keys := func(m map[string]int) []string {
		ks := make([]string, 0, len(m))
		for k := range m {
			ks = append(ks, k)
		}
		sort.Strings(ks)
		return ks
	}
	for _, k := range keys(v.cx.shapes) {
		labels = append(labels, "ctx-shape:"+k)
		evid.R.Label("ctx-calls:shape="+k, int64(v.cx.shapes[k]))
	}
	for _, k := range keys(v.cx.resps) {
		labels = append(labels, "ctx-responder:"+k)
		evid.R.Label("ctx-calls:responder="+k, int64(v.cx.resps[k]))
	}
	for _, k := range keys(v.cx.combos) {
		evid.R.Label("ctx-calls:"+k, int64(v.cx.combos[k]))
	}
	if v.cx.competed > 0 {
		labels = append(labels, "ctx-case:deadline-beyond-timeout-and-response-timer-fired")
	}
	if v.cx.farMissing > 0 {
		labels = append(labels, "ctx-case:far-deadline-and-all-replies-missing")
	}
	if v.cx.endedByCtx > 0 {
		labels = append(labels, "ctx-case:context-ended-while-call-ran")
	}
	if v.cx.fullBudget > 0 {
		labels = append(labels, "ctx-case:timeout-error-after-all-attempts")
	}
	if len(v.cx.suspects) > 0 {
		labels = append(labels, "ctx-case:suspect(elapsed-time)")
	}
	evid.R.Label("ctx:calls", int64(v.cx.calls))
	evid.R.Label("ctx:calls-deadline-beyond-timeout-and-response-timer-fired", int64(v.cx.competed))
	evid.R.Label("ctx:calls-far-deadline-all-replies-missing", int64(v.cx.farMissing))
	evid.R.Label("ctx:calls-far-deadline-all-replies-missing-ended-with-timeout-after-all-attempts", int64(v.cx.farTimeout))
	evid.R.Label("ctx:calls-timeout-error-after-all-attempts", int64(v.cx.fullBudget))
	evid.R.Label("ctx:calls-context-ended-while-call-ran", int64(v.cx.endedByCtx))
	evid.R.Label("ctx:result-context-deadline-exceeded", int64(v.cx.deadlineN))
	evid.R.Label("ctx:result-context-error-although-context-alive(counted-only)", int64(v.cx.ctxErrLive))
	evid.R.Label("ctx:calls-not-judged(process-starved)", int64(v.cx.notJudged))
	switch {
	case v.cx.maxPct >= 100:
		evid.R.Label("ctx:longest-call>=100%-of-bound", 1)
	case v.cx.maxPct >= 50:
		evid.R.Label("ctx:longest-call-50..99%-of-bound", 1)
	case v.cx.maxPct >= 25:
		evid.R.Label("ctx:longest-call-25..49%-of-bound", 1)
	default:
		evid.R.Label("ctx:longest-call<25%-of-bound", 1)
	}
	return labels
}

// soloOf: the suspect call alone (same timeout, same context shape, same responder), for the confirmation runs.
func soloOf(w *workload, idx int) *workload {
	s := &workload{NConn: w.NConn, TimeoutMs: w.TimeoutMs, Workers: 1, Force: true, CtxClass: w.CtxClass, Star: w.Star, Peers: w.Peers}
	c := w.Calls[idx]
	c.PreUs, c.Twin = 0, 0
	s.Calls = []callPlan{c}
	return s
}

// checkCtx: an elapsed-time suspect is reported only if the same call, alone on a fresh case, shows it 3 times out of 3.
func checkCtx(t fataler, kind string, w *workload, v *verdict) {
	if len(v.cx.suspects) == 0 {
		return
	}
	s := v.cx.suspects[0]
	hits, last := 0, ""
	for i := 0; i < 3; i++ {
		sw := soloOf(w, s.call)
		sv, err := runCase(sw)
		if err != nil {
			break
		}
		record(t, kind+":confirm", sw, sv)
		ok := false
		for _, x := range sv.cx.suspects {
			if x.sig == s.sig {
				ok, last = true, x.detail
			}
		}
		if !ok {
			break
		}
		hits++
	}
	if hits == 3 {
		wj := fmt.Sprintf("%+v", soloOf(w, s.call).Calls[0])
		t.Fatalf("C17 violated (1):\n  [%s] %s\n  reproduced in 3 of 3 runs of that call alone (response timeout %d ms, call %s); last of them: %s", s.sig, s.detail, w.TimeoutMs, wj, last)
	}
	evid.R.Label("ctx:suspect-not-reproduced", 1)
	evid.R.Inconclusive("context shapes: suspect [%s] not reproduced by the call alone (%d of 3): %s", s.sig, hits, s.detail)
}

// ---- generator ----

func ctxAtts(kind string, t *rapid.T, lb string, tUs int) []attPlan {
	fast := attPlan{LatUs: rapid.IntRange(0, 2000).Draw(t, lb+"fast")}
	rep := func(a attPlan) []attPlan { return []attPlan{a, a, a, a} }
	switch kind {
	case respSilent:
		return rep(attPlan{Silent: true})
	case respLateAll:
		return rep(attPlan{LatUs: tUs + rapid.IntRange(8000, 30000).Draw(t, lb+"lateBy")})
	case respLateThen:
		late := attPlan{LatUs: tUs + rapid.IntRange(8000, 30000).Draw(t, lb+"lateBy")}
		k := rapid.IntRange(1, p2p.VerifMaxRetries()).Draw(t, lb+"lateAttempts")
		out := rep(fast)
		for i := 0; i < k; i++ {
			out[i] = late
		}
		return out
	case respErrReply:
		fast.Err = true
		return rep(fast)
	case respUnreach:
		return rep(attPlan{})
	}
	return rep(fast)
}

// drawShape fills in the context shape of a call: T = response timeout, bound = its elapsed-time bound.
func drawShape(t *rapid.T, lb string, c *callPlan, shape string, tUs int, bound time.Duration) {
	c.Ctx = shape
	switch shape {
	case ctxCancelAt:
		c.CtxUs = rapid.IntRange(0, 9*tUs/2).Draw(t, lb+"cancelAt")
		c.Cancel, c.CancelUs = true, c.CtxUs
	case ctxShort:
		c.CtxUs = rapid.IntRange(1, 8*tUs/10).Draw(t, lb+"deadlineShort")
	case ctxMid:
		c.CtxUs = rapid.IntRange(12*tUs/10, 38*tUs/10).Draw(t, lb+"deadlineMid")
	case ctxFar:
		b := int(bound / time.Microsecond)
		c.CtxUs = rapid.IntRange(10*b, 20*b).Draw(t, lb+"deadlineFar")
	}
}

func drawCtx(t *rapid.T) *workload {
	// rapid's integer draws favour small values: the tables put what the class is about first
	switch []int{0, 1, 0, 2, 0, 1}[rapid.IntRange(0, 5).Draw(t, "variant")] {
	case 1:
		return drawCtxBroadcast(t)
	case 2:
		return drawCtxLong(t)
	}
	w := &workload{CtxClass: "short-timeout"}
	w.NConn = rapid.IntRange(2, 3).Draw(t, "conns")
	w.TimeoutMs = rapid.IntRange(20, 50).Draw(t, "timeoutMs")
	tUs := w.TimeoutMs * 1000
	n := rapid.IntRange(4, 24).Draw(t, "calls")
	w.Workers = rapid.IntRange((n+1)/2, n).Draw(t, "workers")
	shapes := []string{ctxFar, ctxMid, ctxFar, ctxCancelNever, ctxShort, ctxBackground, ctxCancelAt, ctxExpired, ctxFar, ctxMid}
	resps := []string{respSilent, respLateThen, respSilent, respInTime, respLateAll, respErrReply, respSilent, respUnreach, respInTime, respLateAll}
	for i := 0; i < n; i++ {
		lb := fmt.Sprintf("x%d.", i)
		var c callPlan
		c.Src = rapid.IntRange(0, w.NConn-1).Draw(t, lb+"src")
		c.Dst = (c.Src + 1 + rapid.IntRange(0, w.NConn-2).Draw(t, lb+"dstOff")) % w.NConn
		c.PreUs = rapid.IntRange(0, 1500).Draw(t, lb+"pre")
		c.Resp = resps[rapid.IntRange(0, len(resps)-1).Draw(t, lb+"responder")]
		c.Unreach = c.Resp == respUnreach
		c.Att = ctxAtts(c.Resp, t, lb, tUs)
		drawShape(t, lb, &c, shapes[rapid.IntRange(0, len(shapes)-1).Draw(t, lb+"shape")], tUs, ctxBound(w, c))
		w.Calls = append(w.Calls, c)
	}
	return w
}

// drawCtxLong: response timeout 4 s. Nothing here may wait for a timer: every call is answered at once (any context
// shape) or its context ends within 150 ms while the responder stays silent - such a call must come back right then.
func drawCtxLong(t *rapid.T) *workload {
	w := &workload{CtxClass: "long-timeout", TimeoutMs: ctxLongT}
	w.NConn = rapid.IntRange(2, 3).Draw(t, "conns")
	n := rapid.IntRange(3, 12).Draw(t, "calls")
	w.Workers = rapid.IntRange((n+1)/2, n).Draw(t, "workers")
	ending := []string{ctxShort, ctxCancelAt, ctxExpired, ctxShort}
	any := []string{ctxFar, ctxCancelNever, ctxBackground, ctxShort, ctxCancelAt, ctxExpired}
	for i := 0; i < n; i++ {
		lb := fmt.Sprintf("l%d.", i)
		var c callPlan
		c.Src = rapid.IntRange(0, w.NConn-1).Draw(t, lb+"src")
		c.Dst = (c.Src + 1 + rapid.IntRange(0, w.NConn-2).Draw(t, lb+"dstOff")) % w.NConn
		c.PreUs = rapid.IntRange(0, 1500).Draw(t, lb+"pre")
		var shape string
		if rapid.IntRange(0, 2).Draw(t, lb+"silent") < 2 {
			c.Resp = respSilent
			shape = ending[rapid.IntRange(0, len(ending)-1).Draw(t, lb+"shape")]
		} else {
			c.Resp = []string{respInTime, respErrReply, respUnreach}[rapid.IntRange(0, 2).Draw(t, lb+"responder")]
			shape = any[rapid.IntRange(0, len(any)-1).Draw(t, lb+"shape")]
		}
		c.Unreach = c.Resp == respUnreach
		c.Att = ctxAtts(c.Resp, t, lb, ctxLongT*1000)
		c.Ctx = shape
		switch shape {
		case ctxFar:
			c.CtxUs = int(10 * ctxBound(w, c) / time.Microsecond)
		case ctxShort:
			c.CtxUs = rapid.IntRange(1000, 150000).Draw(t, lb+"deadlineShort")
		case ctxCancelAt:
			c.CtxUs = rapid.IntRange(0, 150000).Draw(t, lb+"cancelAt")
			c.Cancel, c.CancelUs = true, c.CtxUs
		}
		w.Calls = append(w.Calls, c)
	}
	return w
}

// drawCtxBroadcast: Broadcast calls of a hub whose peers answer in time / never / late / with an error reply, each call
// with its own context shape, among a few RequestFrom calls hub <-> peers.
func drawCtxBroadcast(t *rapid.T) *workload {
	w := &workload{CtxClass: "broadcast"}
	k := []int{2, 3, 1}[rapid.IntRange(0, 2).Draw(t, "peers")]
	w.Star, w.NConn = k, k+1
	w.TimeoutMs = rapid.IntRange(20, 40).Draw(t, "timeoutMs")
	tUs := w.TimeoutMs * 1000
	w.Peers = make([]peerPlan, k+1)
	w.Peers[0] = peerPlan{Kind: peerInTime}
	for n := 1; n <= k; n++ {
		lb := fmt.Sprintf("p%d.", n)
		pp := peerPlan{Kind: peerInTime, LatUs: rapid.IntRange(0, 2000).Draw(t, lb+"lat")}
		switch rapid.IntRange(0, 9).Draw(t, lb+"character") {
		case 0, 1, 2, 3:
			pp.Kind = peerSilent
		case 4:
			pp.Kind, pp.LateAttempts, pp.LateByUs = peerLate, p2p.VerifMaxRetries()+1, rapid.IntRange(8000, 20000).Draw(t, lb+"lateBy")
		case 5:
			pp.Kind, pp.LateAttempts, pp.LateByUs = peerLate, rapid.IntRange(1, p2p.VerifMaxRetries()).Draw(t, lb+"lateAttempts"), rapid.IntRange(8000, 20000).Draw(t, lb+"lateBy")
		case 6:
			pp.Kind = peerErrRepl
		}
		w.Peers[n] = pp
	}
	shapes := []string{ctxFar, ctxMid, ctxFar, ctxCancelNever, ctxShort, ctxBackground, ctxCancelAt, ctxExpired}
	nO := []int{2, 0, 4, 6}[rapid.IntRange(0, 3).Draw(t, "ordinaryCalls")]
	for i := 0; i < nO; i++ {
		lb := fmt.Sprintf("o%d.", i)
		var c callPlan
		p := rapid.IntRange(1, k).Draw(t, lb+"peer")
		if rapid.IntRange(0, 2).Draw(t, lb+"dir") < 2 {
			c.Src, c.Dst = 0, p
		} else {
			c.Src, c.Dst = p, 0
		}
		c.PreUs = rapid.IntRange(0, 1500).Draw(t, lb+"pre")
		c.Resp = []string{respInTime, respSilent, respLateThen, respErrReply}[rapid.IntRange(0, 3).Draw(t, lb+"responder")]
		c.Att = ctxAtts(c.Resp, t, lb, tUs)
		drawShape(t, lb, &c, shapes[rapid.IntRange(0, len(shapes)-1).Draw(t, lb+"shape")], tUs, ctxBound(w, c))
		w.Calls = append(w.Calls, c)
	}
	nB := rapid.IntRange(1, 2).Draw(t, "broadcasts")
	for i := 0; i < nB; i++ {
		lb := fmt.Sprintf("b%d.", i)
		c := callPlan{Bcast: true, Src: 0, Dst: 1, Resp: respBroadcast, PreUs: rapid.IntRange(0, 1500).Draw(t, lb+"pre"), Att: []attPlan{{}}}
		drawShape(t, lb, &c, shapes[rapid.IntRange(0, len(shapes)-1).Draw(t, lb+"shape")], tUs, ctxBound(w, c))
		pos := rapid.IntRange(0, len(w.Calls)).Draw(t, lb+"pos")
		w.Calls = append(w.Calls[:pos], append([]callPlan{c}, w.Calls[pos:]...)...)
	}
	w.Workers = len(w.Calls) // everything at once
	return w
}

// ctxLimit: generated cases of this class per process (VERIF_C17_CTX from the run spec; -rapid.checks is shared by every
// rapid.Check of the binary).
func ctxLimit() int {
	if s := os.Getenv("VERIF_C17_CTX"); s != "" {
		if n, err := strconv.Atoi(s); err == nil && n >= 0 {
			return n
		}
	}
	if evid.Thorough() {
		return 100
	}
	return 16
}

func TestContextShapes(t *testing.T) {
	limit, n, failed := ctxLimit(), 0, false
	rapid.Check(t, func(rt *rapid.T) {
		if n >= limit && !failed { // budget reached (shrinking after a failure is not cut short)
			return
		}
		n++
		w := drawCtx(rt)
		v, err := runCase(w)
		if err != nil {
			return // infrastructure, recorded as inconclusive
		}
		if len(v.viol) > 0 || len(v.cx.suspects) > 0 {
			failed = true
		}
		record(rt, "context-shapes", w, v)
		checkCtx(rt, "context-shapes", w, v)
	})
}

// ---- directed forms (every tier) ----

func rep4(a attPlan) []attPlan { return []attPlan{a, a, a, a} }

// directedCtxFar: response timeout 50 ms, context deadline 30 s, responder that never answers.
//
//	0: one RequestFrom call                       -> 4 attempts, "timeout", back within 3 x 200 ms + 2 s (deadline = 11.5 x that)
//	1: the same call with a WithCancel context next to it (the reference: same responder, no deadline)
//	2: Broadcast of a hub with one answering and one silent peer, deadline 60 s
func directedCtxFar(variant int) *workload {
	const T = 50
	silent := rep4(attPlan{Silent: true})
	w := &workload{NConn: 2, TimeoutMs: T, Workers: 1, Force: true, CtxClass: "short-timeout"}
	far := callPlan{Src: 0, Dst: 1, Ctx: ctxFar, CtxUs: 30_000_000, Resp: respSilent, Att: silent}
	switch variant {
	case 0:
		w.Calls = []callPlan{far}
	case 1:
		ref := callPlan{Src: 0, Dst: 1, Ctx: ctxCancelNever, Resp: respSilent, Att: silent}
		far2 := far
		far2.Src, far2.Dst = 1, 0
		w.Calls, w.Workers = []callPlan{far, ref, far2, far}, 4 // call 3 has index 3: deadline inherited by a cancellable child
	default:
		w.CtxClass, w.Star, w.NConn = "broadcast", 2, 3
		w.Peers = []peerPlan{{Kind: peerInTime}, {Kind: peerInTime}, {Kind: peerSilent}}
		w.Calls = []callPlan{{Bcast: true, Src: 0, Dst: 1, Ctx: ctxFar, CtxUs: 60_000_000, Resp: respBroadcast, Att: []attPlan{{}}}}
	}
	return w
}

// A context deadline far beyond the budget changes nothing: retries+1 attempts, the timeout error, back within the budget.
func TestRegressContextDeadlineBeyondBudget(t *testing.T) {
	need := p2p.VerifMaxRetries() + 1
	for variant := 0; variant < 3; variant++ {
		w := directedCtxFar(variant)
		v, err := runCase(w)
		if err != nil {
			return // infrastructure, recorded as inconclusive
		}
		record(t, "directed:context-deadline-beyond-budget", w, v)
		checkCtx(t, "directed:context-deadline-beyond-budget", w, v)
		// what the scenario is expected to show (an error other than "timeout" - a stream error on an overloaded machine -
		// is allowed by the statement: noted, not asserted)
		if variant < 2 && (v.cx.farTimeout != v.cx.farMissing || v.attempts != need*len(w.Calls)) {
			evid.R.Note("directed context-deadline-beyond-budget/%d: %d of %d far-deadline calls ended with the timeout error after %d attempts (attempts in all %d, timeout %d, context error %d/%d, other %d)",
				variant, v.cx.farTimeout, v.cx.farMissing, need, v.attempts, v.timeoutN, v.cancelN, v.cx.deadlineN, v.otherN)
		}
	}
}

// directedCtxEnds: response timeout 4 s, silent responder, contexts that end after 100 ms / are cancelled after 80 ms / have
// expired before the call: the calls come back when their context ends, not when a timer of the layer fires.
func directedCtxEnds() *workload {
	silent := rep4(attPlan{Silent: true})
	w := &workload{NConn: 2, TimeoutMs: ctxLongT, Workers: 4, Force: true, CtxClass: "long-timeout"}
	w.Calls = []callPlan{
		{Src: 0, Dst: 1, Ctx: ctxShort, CtxUs: 100_000, Resp: respSilent, Att: silent},
		{Src: 0, Dst: 1, Ctx: ctxCancelAt, CtxUs: 80_000, Cancel: true, CancelUs: 80_000, Resp: respSilent, Att: silent},
		{Src: 1, Dst: 0, Ctx: ctxExpired, Resp: respSilent, Att: silent},
		{Src: 1, Dst: 0, Ctx: ctxShort, CtxUs: 60_000, Resp: respSilent, Att: silent}, // index 3: cancellable child of the deadline context
	}
	return w
}

func TestRegressContextEndsBeforeBudget(t *testing.T) {
	w := directedCtxEnds()
	v, err := runCase(w)
	if err != nil {
		return // infrastructure, recorded as inconclusive
	}
	record(t, "directed:context-ends-before-budget", w, v)
	checkCtx(t, "directed:context-ends-before-budget", w, v)
	if v.cx.endedByCtx == 0 {
		evid.R.Note("directed context-ends-before-budget: no call was running when its context ended")
	}
}
