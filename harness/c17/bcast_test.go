package c17

// "Broadcast" scenario class: the layer's second entry point that issues requests on behalf of a caller.
//
// Connection.Broadcast (= MessageProtocol.Broadcast) sends one request - same procedure, same payload, through request()
// with the full timeout and retry budget - to every peer the node is connected to and returns the first error (nil when
// every request got a response). On the unchanged tree the requests run one after the other on the caller's goroutine;
// nothing here assumes that: an engine may run them concurrently.
//
// Topology: a private star-shaped cluster per case - node 0 (hub) is connected to 1-6 peers which are not connected among
// themselves. Each peer has a generated character for the requests of a Broadcast: answers in time, answers after the
// timeout in its first 1..retries attempts and in time afterwards, answers after the timeout in every attempt, never
// answers while the call runs (black-hole handler: the request is read, the handler returns only after the Broadcast call
// has returned), answers with an error reply; a peer may stop (Connection.Stop) or be disconnected by the hub
// (Connection.Disconnect) while the calls run. 1-4 Broadcast calls of the hub run concurrently with each other and with
// ordinary RequestFrom traffic hub <-> peers (own token oracle as everywhere); their contexts are cancelled before the
// call, during the call, or never.
//
// Oracle (the statement: every request ends within timeout and retry budget with a response or an error - also after
// cancellation -, nothing stays blocked, no pending entry leaks):
//   - every Broadcast call RETURNS. No elapsed time is asserted; a call that does not return is a violation on positive
//     evidence only: three goroutine dumps, >= 300 ms and >= 40 process heartbeats apart, after >= 4 s and >= 400 heartbeats
//     without any event, show the caller parked inside MessageProtocol.Broadcast itself while no per-peer request of that
//     call is running any more (rule "bcast" of blockedEvidence); other shapes fall under the older rules (mutex wait,
//     requester parked in its select, 30 s without progress);
//   - after a Broadcast call returned, no goroutine it started stays behind parked in Broadcast's own code (bcastLeftovers);
//   - handler runs per (Broadcast call, peer) <= retries+1; attempts of the call <= peers x (retries+1);
//   - no reply dropped as "unknown request ID" while its request is outstanding (rule of every class, by message ID);
//   - pending tables empty afterwards; then a fresh request hub -> peer and peer -> hub is served (liveness probe);
//   - the ordinary calls of the case return their own token or an error.
// What Broadcast returns (nil, "timeout", the context's error, a dial/stream error) is counted, not asserted.

import (
	"context"
	"errors"
	"fmt"
	"os"
	"regexp"
	"sort"
	"strconv"
	"strings"
	"sync/atomic"
	"testing"
	"time"

	"pgregory.net/rapid"

	"github.com/LiskHQ/lisk-engine/pkg/p2p"

	"verifharness/evid"
)

const (
	sigBcastBlocked  = "blocked:broadcast-does-not-return"
	sigBcastLeftover = "leak:goroutine-left-behind-by-broadcast"
	sigBcastRuns     = "retry-budget:handler-runs(broadcast)"
	sigBcastAttempts = "retry-budget:attempts(broadcast)"
)

const maxNodes = 7 // hub + up to 6 peers (array sizes of caseState)

var peerIDRe = regexp.MustCompile(`(12D3KooW|Qm)[1-9A-HJ-NP-Za-km-z]{20,}`)

// characters of a peer towards the requests of a Broadcast
const (
	peerInTime  = "in-time"
	peerLate    = "late"   // answers after the timeout in its first LateAttempts invocations per Broadcast call, in time afterwards
	peerSilent  = "silent" // black-hole handler: does not answer while the Broadcast call runs
	peerErrRepl = "error-reply"
)

type peerPlan struct {
	Kind         string `json:"kind"`
	LatUs        int    `json:"lat_us,omitempty"`
	LateAttempts int    `json:"late_attempts,omitempty"`
	LateByUs     int    `json:"late_by_us,omitempty"`
}

// fails: every attempt of a request to this peer ends without a response (the request can only end with an error).
func (p peerPlan) fails() bool {
	return p.Kind == peerSilent || (p.Kind == peerLate && p.LateAttempts > p2p.VerifMaxRetries())
}

type disturbPlan struct {
	Node int    `json:"node"`
	Kind string `json:"kind"` // "stop": the peer stops; "drop": the hub disconnects the peer
	AtUs int    `json:"at_us"`
}

// bRec: one handler invocation for a request of a Broadcast call.
type bRec struct {
	id   string
	call int
	node int
	k    int
}

type bcastStats struct {
	calls, okN, timeoutN, cancelN, otherN int
	attempts, attTimeouts, runs, reached  int
	maxPeers                              int // most connected peers a Broadcast call started with
	cancelledFirst, cancelledDuring       int
	nilDespiteFailingPeer                 int // counted only (a failing peer may have stopped / not been connected)
	leftoverEnded                         int // goroutines started by a Broadcast that outlived the call but ended (allowed)
}

func bcastPayload(no int64, idx int) string {
	return "c17|" + strconv.FormatInt(no, 10) + "|b" + strconv.Itoa(idx)
}

// probePairs: (requester, responder) pairs of the liveness probe. Storm: every node asks its neighbour. Star: the hub
// asks the first peer that nothing disturbs, and that peer asks the hub.
func probePairs(w *workload) [][2]int {
	var out [][2]int
	if w.Star == 0 {
		for n := 0; n < w.NConn; n++ {
			out = append(out, [2]int{n, (n + 1) % w.NConn})
		}
		return out
	}
	disturbed := map[int]bool{}
	for _, d := range w.Disturb {
		disturbed[d.Node] = true
	}
	for n := 1; n <= w.Star; n++ {
		if !disturbed[n] {
			return [][2]int{{0, n}, {n, 0}}
		}
	}
	return nil
}

// ---- private star-shaped cluster ----

// newStar starts k+1 connections on 127.0.0.10.. and connects node 0 (hub) to every other node. The (possibly partial)
// cluster is returned with an error as well, so that it can be stopped.
func newStar(k int) (*cluster, error) {
	cl := &cluster{serial: int(atomic.AddInt32(&clusterSerial, 1))}
	for i := 0; i <= k; i++ {
		cfg := &p2p.Config{
			Addresses: []string{fmt.Sprintf("/ip4/127.0.0.%d/tcp/0", 10+i)},
			ChainID:   []byte{0xc1, 0x70, 0, 0},
			Version:   "1.0",
		}
		conn := p2p.NewConnection(obsLogger{}, cfg)
		node := i
		if err := conn.RegisterRPCHandler(proc, func(w p2p.ResponseWriter, req *p2p.Request) { handle(node, w, req) },
			p2p.WithRPCMessageCounter(1<<30, 0)); err != nil {
			return cl, err
		}
		if err := conn.Start([]byte(fmt.Sprintf("c17-star-%d-%d", cl.serial, i))); err != nil {
			return cl, err
		}
		cl.conns = append(cl.conns, conn)
		cl.ids = append(cl.ids, conn.ID())
	}
	ctx, cancel := context.WithTimeout(context.Background(), 60*time.Second)
	defer cancel()
	for j := 1; j <= k; j++ {
		addrs, err := cl.conns[j].MultiAddress()
		if err != nil || len(addrs) == 0 {
			return cl, fmt.Errorf("no address for node %d: %v", j, err)
		}
		ai, err := p2p.AddrInfoFromMultiAddr(addrs[0])
		if err != nil {
			return cl, err
		}
		if err := cl.conns[0].Connect(ctx, *ai); err != nil {
			return cl, fmt.Errorf("connect hub->%d: %v", j, err)
		}
	}
	// the peers' side of the connections is established asynchronously
	dl := time.Now().Add(20 * time.Second)
	for j := 1; j <= k; j++ {
		for !hasPeer(cl.conns[j], cl.ids[0]) {
			if time.Now().After(dl) {
				return cl, fmt.Errorf("node %d does not see the hub", j)
			}
			time.Sleep(time.Millisecond)
		}
	}
	if n := len(cl.conns[0].ConnectedPeers()); n != k {
		return cl, fmt.Errorf("hub has %d connected peers, want %d", n, k)
	}
	return cl, nil
}

func hasPeer(c *p2p.Connection, id p2p.PeerID) bool {
	for _, p := range c.ConnectedPeers() {
		if p == id {
			return true
		}
	}
	return false
}

// disturb: a peer goes away while the calls run.
func (cs *caseState) disturb(d disturbPlan) {
	tm := time.NewTimer(time.Duration(d.AtUs) * time.Microsecond)
	defer tm.Stop()
	select {
	case <-tm.C:
	case <-cs.closing:
		return
	}
	if d.Node <= 0 || d.Node >= len(cs.cl.conns) {
		return
	}
	switch d.Kind {
	case "stop":
		cs.cl.stopConn(d.Node, true)
	case "drop":
		_ = cs.cl.conns[0].Disconnect(cs.cl.ids[d.Node])
	}
}

// ---- handler side ----

// handleBcast serves a request of Broadcast call b<idx> at node `node` according to the node's character.
func (cs *caseState) handleBcast(node int, bs string, w p2p.ResponseWriter, req *p2p.Request) {
	ci, err := strconv.Atoi(bs[1:])
	if err != nil || ci < 0 || ci >= len(cs.calls) || !cs.calls[ci].plan.Bcast {
		w.Write([]byte("stale"))
		return
	}
	cs.inHand.Add(1)
	defer cs.inHand.Add(-1)
	cs.touch()
	c := cs.calls[ci]
	if src := cs.nodeOf(req.PeerID); src != c.plan.Src || node == c.plan.Src {
		cs.misrte.Add(1) // a Broadcast of node Src arrives from Src, and never at Src itself
	}
	pp := peerPlan{Kind: peerInTime}
	if node < len(cs.w.Peers) {
		pp = cs.w.Peers[node]
	}
	cs.mu.Lock()
	c.bRuns[node]++
	k := c.bRuns[node]
	cs.bInv[req.ID] = append(cs.bInv[req.ID], &bRec{id: req.ID, call: ci, node: node, k: k})
	cs.mu.Unlock()
	isErr := pp.Kind == peerErrRepl
	tok := tokenOf(isErr, c.payload, req.ID, node, k)
	switch {
	case pp.Kind == peerSilent:
		// black-hole handler: silent for as long as the Broadcast call runs (a call that never returns keeps it
		// silent until the case is closed)
		select {
		case <-c.done:
		case <-cs.closing:
		}
	case pp.Kind == peerLate && k <= pp.LateAttempts:
		sleepUs(cs.w.TimeoutMs*1000 + pp.LateByUs)
	default:
		sleepUs(pp.LatUs)
	}
	if isErr {
		w.Error(errors.New(tok))
	} else {
		w.Write([]byte(tok))
	}
	cs.sent.Add(1)
	cs.touch()
}

// ---- verdict ----

// judgeBcast (evaluate, cs.mu held): counts of one Broadcast call.
func (cs *caseState) judgeBcast(v *verdict, c *callState, maxRuns int) {
	v.bc.calls++
	peers := len(cs.cl.conns) - 1
	if c.bPeers > v.bc.maxPeers {
		v.bc.maxPeers = c.bPeers
	}
	v.bc.attempts += len(c.atts)
	for _, a := range c.atts {
		if a.timeoutFired {
			v.bc.attTimeouts++
		}
	}
	// Attempts are the message IDs the CALLER'S goroutine passed after-send with (an engine that runs the requests on
	// other goroutines shows none here): one request per connected peer, retries+1 attempts each.
	if len(c.atts) > peers*maxRuns {
		v.add(sigBcastAttempts, "%d attempts for one Broadcast to at most %d peers (max %d each): %s", len(c.atts), peers, maxRuns, c.describe())
	}
	nodes := make([]int, 0, len(c.bRuns))
	for n := range c.bRuns {
		nodes = append(nodes, n)
	}
	sort.Ints(nodes)
	for _, n := range nodes {
		v.bc.runs += c.bRuns[n]
		if c.bRuns[n] > maxRuns {
			v.add(sigBcastRuns, "the handler of node %d ran %d times for one Broadcast call (one request per peer, max %d attempts): %s", n, c.bRuns[n], maxRuns, c.describe())
		}
	}
	v.bc.reached += len(nodes)
	if c.plan.CancelFirst {
		v.bc.cancelledFirst++
	} else if c.cancelled {
		v.bc.cancelledDuring++
	}
	if !c.returned {
		return
	}
	switch e := c.berr; {
	case e == nil:
		v.bc.okN++
		for n := 1; n < len(cs.w.Peers); n++ {
			if cs.w.Peers[n].fails() {
				v.bc.nilDespiteFailingPeer++
				break
			}
		}
	case e.Error() == "timeout":
		v.bc.timeoutN++
	case errors.Is(e, context.Canceled) || strings.Contains(e.Error(), "context canceled"):
		v.bc.cancelN++
	default:
		v.bc.otherN++
		if c.cancelled {
			v.otherCancelledN++
		}
		v.otherErrs = append(v.otherErrs, "broadcast: "+e.Error())
	}
}

// ---- goroutine evidence ----

// innermostOwn: the innermost frame that is not runtime/sync plumbing.
func innermostOwn(fr []string) string {
	for _, f := range fr {
		if strings.HasPrefix(f, "sync.") || strings.HasPrefix(f, "runtime.") || strings.HasPrefix(f, "internal/") || strings.HasPrefix(f, "sync/") {
			continue
		}
		return f
	}
	return ""
}

const bcastCreatedBy = "created by github.com/LiskHQ/lisk-engine/pkg/p2p.(*MessageProtocol).Broadcast"

// bcastParent: ID of the goroutine whose MessageProtocol.Broadcast call (or a closure of it) started this goroutine; -1
// if it was not started by Broadcast.
func bcastParent(stack string) int64 {
	i := strings.LastIndex(stack, bcastCreatedBy)
	if i < 0 {
		return -1
	}
	ln := stack[i:]
	if j := strings.IndexByte(ln, '\n'); j >= 0 {
		ln = ln[:j]
	}
	j := strings.LastIndex(ln, " in goroutine ")
	if j < 0 {
		return -1
	}
	n, err := strconv.ParseInt(strings.TrimSpace(ln[j+len(" in goroutine "):]), 10, 64)
	if err != nil {
		return -1
	}
	return n
}

// bcastCallerGids: goroutines of this case that are inside a Broadcast call right now.
func (cs *caseState) bcastCallerGids() map[int64]bool {
	cs.mu.Lock()
	defer cs.mu.Unlock()
	out := map[int64]bool{}
	for g, c := range cs.byGid {
		if c.plan.Bcast && !c.returned {
			out[g] = true
		}
	}
	return out
}

// classifyBcastBlocked turns the "bcast" evidence into a violation.
func (cs *caseState) classifyBcastBlocked(v *verdict, ev *blockEv, out int) {
	var sb strings.Builder
	cs.mu.Lock()
	for _, g := range ev.bcast {
		if c := cs.byGid[g.ID]; c != nil {
			fmt.Fprintf(&sb, "\n    goroutine %d [%s]: %s", g.ID, g.State, c.describe())
		}
	}
	cs.mu.Unlock()
	states := map[string]int{}
	for _, g := range ev.bchild {
		states[g.State]++
	}
	pend := "?"
	if n, ok := cs.cl.conns[0].VerifPending(); ok {
		pend = strconv.Itoa(n)
	}
	ex := append(append([]gInfo{}, ev.bcast[0]), ev.bchild...)
	v.add(sigBcastBlocked, "%d Broadcast call(s) do not return: the caller is parked inside MessageProtocol.Broadcast itself in 3 of 3 goroutine dumps over %v (%d process heartbeats) after %v (%d heartbeats) without any event, and none of the per-peer requests of such a call is running any more (no goroutine started by it is inside request()); %d goroutine(s) started by these calls are parked in Broadcast's own code %v; response timeout %v, retries %d, pending entries of the hub now: %s, %d call(s) outstanding:%s\n%s",
		len(ev.bcast), ev.span.Round(time.Millisecond), ev.beats, ev.idle.Round(time.Millisecond), ev.idleBeats, len(ev.bchild), states, cs.T, p2p.VerifMaxRetries(), pend, out, sb.String(), stackExcerpt(ex, 3))
}

// stableGoroutines: the goroutines that satisfy pred in three dumps, each >= 300 ms and >= 40 process heartbeats after
// the previous one, while no event of the case happened; nil otherwise (also when the process is starved).
func (cs *caseState) stableGoroutines(pred func(gInfo) bool) []gInfo {
	last0 := cs.last.Load()
	var keep map[int64]gInfo
	for round := 0; round < 3; round++ {
		if round > 0 {
			t1, b1 := time.Now(), hbBeats.Load()
			for time.Since(t1) < 300*time.Millisecond || hbBeats.Load()-b1 < 40 {
				if time.Since(t1) > 6*time.Second {
					return nil
				}
				time.Sleep(10 * time.Millisecond)
			}
		}
		if cs.last.Load() != last0 {
			return nil
		}
		now := map[int64]gInfo{}
		for _, g := range dumpGoroutines() {
			if !pred(g) {
				continue
			}
			if _, ok := keep[g.ID]; ok || keep == nil {
				now[g.ID] = g
			}
		}
		keep = now
		if len(keep) == 0 {
			return nil
		}
	}
	ids := make([]int64, 0, len(keep))
	for id := range keep {
		ids = append(ids, id)
	}
	sort.Slice(ids, func(i, j int) bool { return ids[i] < ids[j] })
	var out []gInfo
	for _, id := range ids {
		out = append(out, keep[id])
	}
	return out
}

// bcastLeftovers (afterQuiescence: every call of the case has returned): goroutines started by the Broadcast calls of this
// case. An engine may let per-peer requests outlive the call that started them (they end within their own budget: waited
// for, counted); a goroutine parked in Broadcast's own code after its call returned has nobody left to wait for it.
func (cs *caseState) bcastLeftovers(v *verdict, gs []gInfo) {
	cs.mu.Lock()
	mine := make(map[int64]bool, len(cs.bGids))
	for g := range cs.bGids {
		mine[g] = true
	}
	cs.mu.Unlock()
	if len(mine) == 0 {
		return
	}
	find := func(gs []gInfo) []gInfo {
		knownParkedMu.Lock()
		defer knownParkedMu.Unlock()
		var out []gInfo
		for _, g := range gs {
			if p := bcastParent(g.Stack); p >= 0 && mine[p] && !knownParked[g.ID] {
				out = append(out, g)
			}
		}
		return out
	}
	left := find(gs)
	if len(left) == 0 {
		return
	}
	n0 := len(left)
	inOwnCode := func(g gInfo) bool {
		p := bcastParent(g.Stack)
		if p < 0 || !mine[p] || strings.Contains(g.Stack, mpFrame+"request(") {
			return false
		}
		knownParkedMu.Lock()
		defer knownParkedMu.Unlock()
		return !knownParked[g.ID] && strings.Contains(innermostOwn(frames(g.Stack)), mpFrame+"Broadcast.func")
	}
	t0 := time.Now()
	for {
		time.Sleep(50 * time.Millisecond)
		if left = find(dumpGoroutines()); len(left) == 0 {
			v.bc.leftoverEnded += n0
			return
		}
		idle := time.Since(time.Unix(0, cs.last.Load()))
		beats := hbBeats.Load() - cs.lastBeat.Load()
		if idle > stallAfter && beats >= stallBeats {
			if st := cs.stableGoroutines(inOwnCode); len(st) > 0 {
				markParked(st)
				cs.cl.wedged = true
				v.add(sigBcastLeftover, "%d goroutine(s) started by Broadcast call(s) of this case are still parked in Broadcast's own code (not inside a request) after every call of the case has returned: 3 of 3 goroutine dumps, after %v (%d process heartbeats) without any event\n%s",
					len(st), idle.Round(time.Millisecond), beats, stackExcerpt(st, 2))
				return
			}
		}
		if time.Since(t0) > idleCap {
			v.incon = append(v.incon, fmt.Sprintf("case %d: %d goroutine(s) started by Broadcast calls still exist %v after all calls returned, none recognisably parked in Broadcast's own code (budget, not a verdict)", cs.no, len(left), idleCap))
			cs.cl.wedged = true
			return
		}
	}
}

// ---- evidence ----

// bcastNontrivial: a Broadcast that started with >= 2 connected peers ended with an error or had a per-peer attempt time
// out, while another call of the case was in flight.
func bcastNontrivial(v *verdict) bool {
	return v.bc.calls > 0 && v.bc.maxPeers >= 2 && v.maxOver >= 2 && (v.bc.timeoutN+v.bc.cancelN+v.bc.otherN > 0 || v.bc.attTimeouts > 0)
}

func failingPeers(w *workload) int {
	n := 0
	stops := map[int]bool{}
	for _, d := range w.Disturb {
		if d.Kind == "stop" {
			stops[d.Node] = true
		}
	}
	for i := 1; i < len(w.Peers); i++ {
		if w.Peers[i].fails() || stops[i] {
			n++
		}
	}
	return n
}

func bcastLabels(w *workload, v *verdict) []string {
	labels := []string{"class:broadcast", fmt.Sprintf("broadcast-case:peers=%d", w.Star)}
	switch nf := failingPeers(w); {
	case nf >= 3:
		labels = append(labels, "broadcast-case:failing-peers>=3")
	default:
		labels = append(labels, fmt.Sprintf("broadcast-case:failing-peers=%d", nf))
	}
	nb := 0
	for _, c := range w.Calls {
		if c.Bcast {
			nb++
		}
	}
	if nb >= 2 {
		labels = append(labels, "broadcast-case:concurrent-broadcasts>=2")
	}
	if len(w.Calls) > nb {
		labels = append(labels, "broadcast-case:mixed-with-RequestFrom-traffic")
	}
	kinds := map[string]bool{}
	for i := 1; i < len(w.Peers); i++ {
		p := w.Peers[i]
		switch {
		case p.Kind == peerLate && p.fails():
			kinds["peer-late-in-every-attempt"] = true
		case p.Kind == peerLate:
			kinds["peer-late-then-in-time"] = true
		case p.Kind == peerSilent:
			kinds["peer-silent(black-hole-handler)"] = true
		case p.Kind == peerErrRepl:
			kinds["peer-answers-error"] = true
		default:
			kinds["peer-in-time"] = true
		}
	}
	for _, d := range w.Disturb {
		if d.Kind == "stop" {
			kinds["peer-stops-mid-call"] = true
		} else {
			kinds["hub-disconnects-peer-mid-call"] = true
		}
	}
	ks := make([]string, 0, len(kinds))
	for k := range kinds {
		ks = append(ks, k)
	}
	sort.Strings(ks)
	for _, k := range ks {
		labels = append(labels, "broadcast-case:"+k)
	}
	if v.bc.cancelledFirst > 0 {
		labels = append(labels, "broadcast-case:context-cancelled-before-call")
	}
	if v.bc.cancelledDuring > 0 {
		labels = append(labels, "broadcast-case:context-cancelled-during-call")
	}
	if v.bc.timeoutN > 0 {
		labels = append(labels, "broadcast-case:broadcast-ended-with-timeout")
	}
	if v.bc.okN > 0 {
		labels = append(labels, "broadcast-case:broadcast-ended-with-nil")
	}
	if v.probeN > 0 && v.probeOK == v.probeN {
		labels = append(labels, "broadcast-case:liveness-probe-served")
	}
	evid.R.Label("broadcast:calls", int64(v.bc.calls))
	evid.R.Label("broadcast:result-nil", int64(v.bc.okN))
	evid.R.Label("broadcast:result-timeout", int64(v.bc.timeoutN))
	evid.R.Label("broadcast:result-context-cancelled", int64(v.bc.cancelN))
	evid.R.Label("broadcast:result-other-error", int64(v.bc.otherN))
	evid.R.Label("broadcast:result-nil-although-a-peer-was-planned-to-fail(counted-only)", int64(v.bc.nilDespiteFailingPeer))
	evid.R.Label("broadcast:per-peer-attempts-on-caller-goroutine", int64(v.bc.attempts))
	evid.R.Label("broadcast:per-peer-attempts-timed-out", int64(v.bc.attTimeouts))
	evid.R.Label("broadcast:handler-runs", int64(v.bc.runs))
	evid.R.Label("broadcast:peers-reached", int64(v.bc.reached))
	evid.R.Label("broadcast:cancelled-before-call", int64(v.bc.cancelledFirst))
	evid.R.Label("broadcast:cancelled-during-call", int64(v.bc.cancelledDuring))
	evid.R.Label("broadcast:goroutines-outlived-call-but-ended", int64(v.bc.leftoverEnded))
	evid.R.Label("broadcast:liveness-probes", int64(v.probeN))
	evid.R.Label("broadcast:liveness-probes-served", int64(v.probeOK))
	return labels
}

// ---- generator ----

func drawBroadcast(t *rapid.T) *workload {
	w := &workload{}
	// rapid's integer draws favour small values: tables put the interesting sizes first
	k := []int{3, 2, 4, 1, 6, 5}[rapid.IntRange(0, 5).Draw(t, "peers")]
	w.Star, w.NConn = k, k+1
	w.TimeoutMs = rapid.IntRange(20, 60).Draw(t, "timeoutMs")
	tUs := w.TimeoutMs * 1000
	retries := p2p.VerifMaxRetries()
	nFail := []int{2, 1, 0, 3, 2, 4}[rapid.IntRange(0, 5).Draw(t, "failingPeers")]
	if nFail > k {
		nFail = k
	}
	off := rapid.IntRange(0, k-1).Draw(t, "failingOff")
	w.Peers = make([]peerPlan, k+1)
	w.Peers[0] = peerPlan{Kind: peerInTime}
	for j := 0; j < k; j++ {
		n := 1 + (off+j)%k
		lb := fmt.Sprintf("p%d.", n)
		pp := peerPlan{Kind: peerInTime, LatUs: rapid.IntRange(0, 2000).Draw(t, lb+"lat")}
		ch := rapid.IntRange(0, 9).Draw(t, lb+"character")
		if j < nFail { // every request to this peer can only end with an error
			switch {
			case ch < 5:
				pp.Kind = peerSilent
			case ch < 8:
				pp.Kind, pp.LateAttempts, pp.LateByUs = peerLate, retries+1, rapid.IntRange(1000, 15000).Draw(t, lb+"lateBy")
			default: // answers in time until it stops
				w.Disturb = append(w.Disturb, disturbPlan{Node: n, Kind: "stop", AtUs: rapid.IntRange(0, 4*tUs).Draw(t, lb+"stopAt")})
			}
		} else {
			switch {
			case ch < 5:
			case ch < 7:
				pp.Kind, pp.LateAttempts, pp.LateByUs = peerLate, rapid.IntRange(1, retries).Draw(t, lb+"lateAttempts"), rapid.IntRange(1000, 15000).Draw(t, lb+"lateBy")
			case ch < 9:
				pp.Kind = peerErrRepl
			default: // the hub closes its connections to the peer (a new stream dials again)
				w.Disturb = append(w.Disturb, disturbPlan{Node: n, Kind: "drop", AtUs: rapid.IntRange(0, 4*tUs).Draw(t, lb+"dropAt")})
			}
		}
		w.Peers[n] = pp
	}
	// ordinary RequestFrom traffic hub <-> peers
	nO := []int{12, 0, 30, 6, 60, 3}[rapid.IntRange(0, 5).Draw(t, "ordinaryCalls")]
	for i := 0; i < nO; i++ {
		lb := fmt.Sprintf("o%d.", i)
		var c callPlan
		p := rapid.IntRange(1, k).Draw(t, lb+"peer")
		if rapid.IntRange(0, 9).Draw(t, lb+"dir") < 6 {
			c.Src, c.Dst = 0, p
		} else {
			c.Src, c.Dst = p, 0
		}
		c.PreUs = rapid.IntRange(0, 3000).Draw(t, lb+"pre")
		isErr := rapid.IntRange(0, 9).Draw(t, lb+"err") == 9
		fast := attPlan{LatUs: rapid.IntRange(0, 2000).Draw(t, lb+"fast"), Err: isErr}
		first := fast
		if rapid.IntRange(0, 9).Draw(t, lb+"slowFirst") == 9 {
			first = attPlan{LatUs: tUs + rapid.IntRange(2000, 15000).Draw(t, lb+"lateBy"), Err: isErr}
		}
		c.Att = []attPlan{first, fast, fast, fast}
		if rapid.IntRange(0, 99).Draw(t, lb+"cancel") >= 92 {
			c.Cancel, c.CancelUs = true, rapid.IntRange(0, 3*tUs).Draw(t, lb+"cancelUs")
		}
		w.Calls = append(w.Calls, c)
	}
	nB := []int{1, 2, 1, 3, 2, 4}[rapid.IntRange(0, 5).Draw(t, "broadcasts")]
	w.Workers = rapid.IntRange(2, 12).Draw(t, "workers")
	if w.Workers < nB+1 {
		w.Workers = nB + 1
	}
	for i := 0; i < nB; i++ {
		lb := fmt.Sprintf("b%d.", i)
		c := callPlan{Bcast: true, Src: 0, Dst: 1, PreUs: rapid.IntRange(0, 3000).Draw(t, lb+"pre"), Att: []attPlan{{}}}
		switch rapid.IntRange(0, 9).Draw(t, lb+"cancel") {
		case 9:
			c.CancelFirst = true
		case 7, 8: // anywhere inside the budget of the first peers
			c.Cancel, c.CancelUs = true, rapid.IntRange(0, 2*(retries+1)*tUs).Draw(t, lb+"cancelUs")
		}
		// among the first calls of the workers, so that the Broadcasts overlap each other and the ordinary traffic
		hi := 2*w.Workers - 1
		if hi > len(w.Calls) {
			hi = len(w.Calls)
		}
		pos := rapid.IntRange(0, hi).Draw(t, lb+"pos")
		w.Calls = append(w.Calls[:pos], append([]callPlan{c}, w.Calls[pos:]...)...)
	}
	if w.Workers > len(w.Calls) {
		w.Workers = len(w.Calls)
	}
	return w
}

// bcastLimit: generated broadcast cases per process (VERIF_C17_BCAST from the run spec; -rapid.checks is shared by every
// rapid.Check of the binary).
func bcastLimit() int {
	if s := os.Getenv("VERIF_C17_BCAST"); s != "" {
		if n, err := strconv.Atoi(s); err == nil && n >= 0 {
			return n
		}
	}
	if evid.Thorough() {
		return 150
	}
	return 32
}

func TestBroadcast(t *testing.T) {
	limit, n, failed := bcastLimit(), 0, false
	rapid.Check(t, func(rt *rapid.T) {
		if n >= limit && !failed { // budget reached (shrinking after a failure is not cut short)
			return
		}
		n++
		w := drawBroadcast(rt)
		v, err := runCase(w)
		if err != nil {
			return // infrastructure, recorded as inconclusive
		}
		if len(v.viol) > 0 {
			failed = true
		}
		record(rt, "broadcast", w, v)
	})
}

// ---- directed forms (every tier) ----

func directedBroadcast(variant int) *workload {
	const T = 50
	rep := func(a attPlan) []attPlan { return []attPlan{a, a, a, a} }
	in, silent := peerPlan{Kind: peerInTime}, peerPlan{Kind: peerSilent}
	lateAll := peerPlan{Kind: peerLate, LateAttempts: 4, LateByUs: 10000}
	w := &workload{TimeoutMs: T, Force: true}
	bc := func() callPlan { return callPlan{Bcast: true, Src: 0, Dst: 1, Att: []attPlan{{}}} }
	ord := func(n int) {
		for i := 0; i < n; i++ {
			c := callPlan{Src: 0, Dst: 1, PreUs: 500 * i, Att: rep(attPlan{LatUs: 300 * (i % 3)})}
			if i%2 == 1 {
				c.Src, c.Dst = 1, 0
			}
			w.Calls = append(w.Calls, c)
		}
	}
	switch variant {
	case 0: // one peer answers, two never do: two per-peer requests of ONE Broadcast can only end with an error
		w.Peers = []peerPlan{in, in, silent, silent}
		w.Calls = append(w.Calls, bc())
		ord(6)
		w.Workers = 3
	case 1: // three peers that answer after the timeout in every attempt; the context is cancelled in the second attempt
		w.Peers = []peerPlan{in, lateAll, lateAll, lateAll}
		c := bc()
		c.Cancel, c.CancelUs = true, T*1500
		w.Calls = append(w.Calls, c)
		ord(6)
		w.Workers = 3
	case 2: // context cancelled before the call, two healthy peers
		w.Peers = []peerPlan{in, in, in}
		c := bc()
		c.CancelFirst = true
		w.Calls = append(w.Calls, c)
		ord(4)
		w.Workers = 2
	case 3: // two concurrent Broadcasts, one silent peer among late / error-reply / in-time peers, ordinary traffic
		w.Peers = []peerPlan{in, in, {Kind: peerLate, LateAttempts: 1, LateByUs: 8000}, silent, {Kind: peerErrRepl}}
		w.Calls = append(w.Calls, bc(), bc())
		ord(10)
		w.Workers = 4
	default: // one peer stops while two Broadcasts run, one is silent, one answers
		w.Peers = []peerPlan{in, in, in, silent}
		w.Disturb = []disturbPlan{{Node: 2, Kind: "stop", AtUs: 10000}}
		w.Calls = append(w.Calls, bc(), bc())
		ord(6)
		w.Workers = 4
	}
	w.Star = len(w.Peers) - 1
	w.NConn = len(w.Peers)
	return w
}

func TestRegressBroadcast(t *testing.T) {
	for variant := 0; variant < 5; variant++ {
		w := directedBroadcast(variant)
		v, err := runCase(w)
		if err != nil {
			return // infrastructure, recorded as inconclusive
		}
		record(t, "directed:broadcast", w, v)
	}
}
