// Package evid collects evidence about what a check actually explored and matches failures
// against the committed known-findings list. One Recorder per test process; the driver merges
// the shard files written by Flush.
package evid

import (
	"encoding/json"
	"fmt"
	"hash/fnv"
	"os"
	"path/filepath"
	"sort"
	"strconv"
	"sync"
	"testing"
	"time"
)

const maxDigests = 400000
const maxSamples = 6

// Shard is the file format written by one test process (merged by /verif/check).
type Shard struct {
	Property     string            `json:"property"`
	Evaluations  int64             `json:"evaluations"`
	NonTrivial   int64             `json:"nontrivial_total"`
	Digests      []string          `json:"digests"` // distinct non-trivial case digests (capped)
	DigestsCap   bool              `json:"digests_capped"`
	Labels       map[string]int64  `json:"labels"`
	Samples      []json.RawMessage `json:"samples"`
	Excluded     int64             `json:"excluded"`
	Known        []string          `json:"known"` // known-finding ids hit in this process
	Notes        []string          `json:"notes"`
	Inconclusive []string          `json:"inconclusive"`
	WallS        float64           `json:"wall_s"`
}

type Recorder struct {
	mu       sync.Mutex
	prop     string
	start    time.Time
	evals    int64
	nt       int64
	digests  map[uint64]struct{}
	capped   bool
	labels   map[string]int64
	samples  []json.RawMessage
	excluded int64
	known    map[string]bool
	notes    []string
	incon    []string
	findings []Finding
	perKind  map[string]int
}

type Finding struct {
	Property  string `json:"property"`
	ID        string `json:"id"`
	Status    string `json:"status"` // known | fixed
	Signature string `json:"signature"`
	What      string `json:"what"`
	Commit    string `json:"commit,omitempty"`
}

var R *Recorder

// Root returns the /verif directory.
func Root() string {
	if r := os.Getenv("VERIF_ROOT"); r != "" {
		return r
	}
	return "/verif"
}

func Tier() string {
	if t := os.Getenv("VERIF_TIER"); t != "" {
		return t
	}
	return "quick"
}

func Thorough() bool { return Tier() == "thorough" }

// Seed is the VERIF_SEED-derived shard seed (the driver also passes it as -rapid.seed).
func Seed() int64 {
	s, err := strconv.ParseInt(os.Getenv("VERIF_SHARD_SEED"), 10, 64)
	if err != nil || s == 0 {
		return 1
	}
	return s
}

// Scale returns n scaled by VERIF_SCALE (float, default 1); used by enumerating sub-runs.
func Scale(n int) int {
	f, err := strconv.ParseFloat(os.Getenv("VERIF_SCALE"), 64)
	if err != nil || f <= 0 {
		return n
	}
	v := int(float64(n) * f)
	if v < 1 {
		v = 1
	}
	return v
}

// Main wraps testing.M: runs tests, then writes the shard evidence file.
func Main(m *testing.M, property string) {
	R = &Recorder{prop: property, start: time.Now(), digests: map[uint64]struct{}{}, labels: map[string]int64{}, known: map[string]bool{}, perKind: map[string]int{}}
	R.loadFindings()
	code := m.Run()
	R.Flush()
	os.Exit(code)
}

func (r *Recorder) loadFindings() {
	b, err := os.ReadFile(filepath.Join(Root(), "known_findings", r.prop+".json"))
	if err != nil {
		return
	}
	var all struct {
		Findings []Finding `json:"findings"`
	}
	if json.Unmarshal(b, &all) != nil {
		return
	}
	for _, f := range all.Findings {
		if f.Property == r.prop {
			r.findings = append(r.findings, f)
		}
	}
}

func digest(s string) uint64 {
	h := fnv.New64a()
	h.Write([]byte(s))
	return h.Sum64()
}

// Case registers one executed case. key is its canonical form (digested), nontrivial by the
// property's stated rule; sample (may be nil) renders it for the evidence file.
func (r *Recorder) Case(key string, nontrivial bool, sample func() any, labels ...string) {
	r.mu.Lock()
	defer r.mu.Unlock()
	r.evals++
	for _, l := range labels {
		r.labels[l]++
	}
	if !nontrivial {
		return
	}
	r.nt++
	d := digest(key)
	if _, ok := r.digests[d]; ok {
		return
	}
	if len(r.digests) >= maxDigests {
		r.capped = true
		return
	}
	r.digests[d] = struct{}{}
	kind := ""
	if len(labels) > 0 {
		kind = labels[0]
	}
	if sample != nil && r.perKind[kind] < 2 && len(r.samples) < 4*maxSamples {
		r.perKind[kind]++
		if b, err := json.Marshal(sample()); err == nil {
			if len(b) > 4000 {
				b, _ = json.Marshal(string(b[:4000]) + "…(truncated)")
			}
			r.samples = append(r.samples, b)
		}
	}
}

// Count adds n plain evaluations (cheap bulk enumeration where per-case digests are pointless).
func (r *Recorder) Count(n int64, labels ...string) {
	r.mu.Lock()
	defer r.mu.Unlock()
	r.evals += n
	for _, l := range labels {
		r.labels[l] += n
	}
}

func (r *Recorder) Label(l string, n int64) {
	r.mu.Lock()
	defer r.mu.Unlock()
	r.labels[l] += n
}

func (r *Recorder) Excluded(n int64) {
	r.mu.Lock()
	defer r.mu.Unlock()
	r.excluded += n
}

func (r *Recorder) Note(format string, a ...any) {
	r.mu.Lock()
	defer r.mu.Unlock()
	if len(r.notes) < 50 {
		r.notes = append(r.notes, fmt.Sprintf(format, a...))
	}
}

// Inconclusive records that part of the run hit a wall-clock budget (never a violation).
func (r *Recorder) Inconclusive(format string, a ...any) {
	r.mu.Lock()
	defer r.mu.Unlock()
	if len(r.incon) < 50 {
		r.incon = append(r.incon, fmt.Sprintf(format, a...))
	}
}

// KnownFinding reports whether a failure with this signature is listed as a *known* (unrepaired)
// finding; if so it prints the KNOWN-FINDING line once per process and returns true.
func (r *Recorder) KnownFinding(signature string) bool {
	r.mu.Lock()
	defer r.mu.Unlock()
	for _, f := range r.findings {
		if f.Status == "known" && f.Signature == signature {
			if !r.known[f.ID] {
				r.known[f.ID] = true
				fmt.Printf("KNOWN-FINDING: property=%s %s [%s]\n", r.prop, f.What, f.ID)
			}
			return true
		}
	}
	return false
}

// IsKnown is KnownFinding without the side effect (used by generators that avoid the trigger).
func (r *Recorder) IsKnown(signature string) bool {
	r.mu.Lock()
	defer r.mu.Unlock()
	for _, f := range r.findings {
		if f.Status == "known" && f.Signature == signature {
			return true
		}
	}
	return false
}

// FailCase writes a replayable JSON description of a failing case (non-rapid checks).
func (r *Recorder) FailCase(name string, v any) string {
	dir := os.Getenv("VERIF_FAIL_DIR")
	if dir == "" {
		dir = os.TempDir()
	}
	os.MkdirAll(dir, 0o755)
	p := filepath.Join(dir, fmt.Sprintf("%s-%s-%d.json", r.prop, name, time.Now().UnixNano()))
	b, _ := json.MarshalIndent(v, "", " ")
	os.WriteFile(p, b, 0o644)
	return p
}

func (r *Recorder) Flush() {
	r.mu.Lock()
	defer r.mu.Unlock()
	out := os.Getenv("VERIF_EVID_OUT")
	if out == "" {
		return
	}
	s := Shard{Property: r.prop, Evaluations: r.evals, NonTrivial: r.nt, DigestsCap: r.capped, Labels: r.labels,
		Samples: r.samples, Excluded: r.excluded, Notes: r.notes, Inconclusive: r.incon, WallS: time.Since(r.start).Seconds()}
	for d := range r.digests {
		s.Digests = append(s.Digests, strconv.FormatUint(d, 16))
	}
	sort.Strings(s.Digests)
	for k := range r.known {
		s.Known = append(s.Known, k)
	}
	sort.Strings(s.Known)
	b, _ := json.Marshal(s)
	os.WriteFile(out, b, 0o644)
}
