package c20

// Workload (a): one writer adds and removes blocks through the real consensus.Executer while N readers use the reader API
// of blockchain.Chain / DataAccess and the three sync RPC handlers.

import (
	"bytes"
	"errors"
	"fmt"
	"runtime"
	"sort"
	"strings"
	"sync"
	"sync/atomic"

	"github.com/LiskHQ/lisk-engine/pkg/blockchain"
	csync "github.com/LiskHQ/lisk-engine/pkg/consensus/sync"
	"github.com/LiskHQ/lisk-engine/pkg/crypto"
	"github.com/LiskHQ/lisk-engine/pkg/db"
	"github.com/LiskHQ/lisk-engine/pkg/p2p"
	"github.com/LiskHQ/lisk-engine/pkg/trie/rmt"

	"verifharness/node"
)

// Reader operations (fixed order: weights are looked up by name, the order defines the PRNG mapping).
var chainOps = []string{
	"LastBlock", "GetLastBlock", "GetLastNBlocks",
	"GetBlockHeader", "GetBlockHeaderByHeight", "GetBlock", "GetBlockByHeight", "GetTransaction",
	"GetBlockHeaders", "GetBlockHeadersByHeights", "GetTransactions", "GetBlocksBetweenHeight",
	"rpcLastBlock", "rpcHighestCommon", "rpcBlocksFromID", "rpcMalformed",
}

// opsUsingLast call blockCache.last() (excluded from generated mixes while the re-entrant read lock is a known finding).
var opsUsingLast = map[string]bool{"LastBlock": true, "GetLastBlock": true, "GetLastNBlocks": true, "rpcLastBlock": true, "rpcBlocksFromID": true}

// opsBulkAppend use the unsynchronised append (excluded while that is a known finding).
var opsBulkAppend = map[string][2]string{"GetBlockHeaders": {sigRaceHeaders, sigLostHeaders}, "GetBlockHeadersByHeights": {sigRaceByHeights, sigLostByHeights}, "GetTransactions": {sigRaceTxs, sigLostTxs}}

var bulkOps = map[string]bool{"GetBlockHeaders": true, "GetBlockHeadersByHeights": true, "GetTransactions": true, "GetBlocksBetweenHeight": true, "rpcHighestCommon": true, "rpcBlocksFromID": true, "GetLastNBlocks": true}

type ReaderW struct {
	Ops    map[string]int `json:"ops"`              // weights by operation name
	Yield  int            `json:"yield"`            // 0 none, 1 Gosched, 2 Gosched/µs sleeps
	Bulk   int            `json:"bulk"`             // largest number of items in one bulk lookup
	Fixed  bool           `json:"fixed,omitempty"`  // every bulk lookup asks for exactly Bulk stable items and nothing else
	Newest bool           `json:"newest,omitempty"` // rpcBlocksFromID asks for the successors of the newest block the writer built
}

type ChainW struct {
	Cache       int       `json:"cache"`    // MaxBlockCache
	Stable      int       `json:"stable"`   // heights 0..Stable are never touched by the writer
	TxPer       int       `json:"tx_per"`   // transactions per stable block
	Finality    bool      `json:"finality"` // all four validators generate (finality advances) / only two (finality stays at genesis)
	WriterOps   int       `json:"writer_ops"`
	MaxDepth    int       `json:"max_depth"` // most consecutive removals
	MaxChurn    int       `json:"max_churn"` // the tip stays <= Stable+margin+MaxChurn
	WriterYield int       `json:"writer_yield"`
	Listen      int       `json:"listen"`      // >0: started p2p connection on 127.0.0.<Listen>
	KeepCached  bool      `json:"keep_cached"` // writer never empties the block cache (known nil-tip window avoided)
	StableFrom  bool      `json:"stable_from"` // GetBlocksFromID only with ids of stable blocks (known range underflow avoided)
	MinReader   int       `json:"min_reader_ops"`
	NoRemoveOrd bool      `json:"no_remove_order,omitempty"` // remove-path ordering oracle not evaluated (known finding C20-F13)
	Subscribers int       `json:"subscribers,omitempty"`     // live subscribers of EventBlockNew / EventBlockDelete checking what the event promises
	Readers     []ReaderW `json:"readers"`
}

const churnMargin = 2 // blocks Stable+1..Stable+churnMargin are added once and never removed

type binfo struct {
	height     uint32
	id         []byte
	enc        []byte // encoded block
	hdrEnc     []byte
	txIDs      [][]byte
	txEnc      [][]byte
	evEnc      [][]byte    // events the fake application emits for the block (what the Executer commits with it)
	remStarted atomic.Bool // set before the writer asks the Executer to delete this block, never cleared
	readded    atomic.Bool // a block with the same ID was built a second time (empty payload, same salt): nothing strict about it
}

type txinfo struct {
	id  []byte
	enc []byte
}

type chainEnv struct {
	r          *run
	w          *ChainW
	n          *node.Node
	da         *blockchain.DataAccess
	syncer     *csync.Syncer
	stable     []*binfo  // index = height, 0..Stable
	stableTx   []*txinfo // all transactions of stable blocks
	registry   sync.Map  // string(id) -> *binfo: every block the writer built (registered before it is processed)
	txReg      sync.Map  // string(txid) -> *txinfo
	recent     [64]atomic.Pointer[binfo]
	recentN    atomic.Int64
	writerDone atomic.Bool
	refill     atomic.Int64 // odd while the writer executes a removal that empties the block cache (engine reloads it)
	underflow  atomic.Bool  // the known range underflow was hit once: stop provoking it (each hit asks for 32 GiB)
	floor      uint32       // the writer never removes a block at height <= floor
	nonce      uint64
	remBegin   atomic.Int64 // removals begun / finished by the writer
	remEnd     atomic.Int64
}

func newBinfo(b *blockchain.Block) *binfo {
	bi := &binfo{height: b.Header.Height, id: append([]byte{}, b.Header.ID...), enc: b.Encode(), hdrEnc: b.Header.Encode()}
	for _, tx := range b.Transactions {
		bi.txIDs = append(bi.txIDs, append([]byte{}, tx.ID...))
		bi.txEnc = append(bi.txEnc, tx.Encode())
	}
	for _, ev := range node.ExpectedEvents(b.Header.Height, b.Assets, b.Transactions) {
		bi.evEnc = append(bi.evEnc, ev.Encode())
	}
	return bi
}

func (e *chainEnv) register(b *blockchain.Block) *binfo {
	bi := newBinfo(b)
	if old, loaded := e.registry.LoadOrStore(string(bi.id), bi); loaded {
		bi = old.(*binfo)
		bi.readded.Store(true)
		bi.remStarted.Store(true)
	}
	for _, tx := range b.Transactions {
		e.txReg.Store(string(tx.ID), &txinfo{id: append([]byte{}, tx.ID...), enc: tx.Encode()})
	}
	i := e.recentN.Add(1)
	e.recent[i%int64(len(e.recent))].Store(bi)
	return bi
}

func (e *chainEnv) lookup(id []byte) *binfo {
	if v, ok := e.registry.Load(string(id)); ok {
		return v.(*binfo)
	}
	return nil
}

func (e *chainEnv) makeTxs(p *prng, k int) []*blockchain.Transaction {
	var txs []*blockchain.Transaction
	for i := 0; i < k; i++ {
		e.nonce++
		outcome := node.TxOK
		if p.intn(5) == 0 {
			outcome = node.TxExecuteFail
		}
		txs = append(txs, node.MakeTx(p.intn(8), e.nonce, uint64(1000+p.intn(1000)), outcome, p.intn(3), p.intn(40)))
	}
	return txs
}

// slot gaps: with Finality every validator generates in turn; without it only two of the four validators ever
// generate, so nothing is ever prevoted by a quorum and the finalized height stays at genesis (deep removals allowed).
func (e *chainEnv) gap() int {
	if e.w.Finality {
		return 1
	}
	slot := e.n.SlotOf(e.n.Tip().Header.Timestamp)
	if slot%4 == 0 {
		return 1 // next slot index 1 (mod 4)
	}
	return 4 - slot%4 // jump to slot index 0 (mod 4)
}

func (e *chainEnv) add(p *prng, txs int) (*binfo, error) {
	b, err := e.n.Build(node.Spec{SlotGap: e.gap(), Script: node.Script{Salt: uint32(p.intn(1 << 20)), EvAfter: p.intn(2)}, Txs: e.makeTxs(p, txs)})
	if err != nil {
		return nil, fmt.Errorf("build: %w", err)
	}
	bi := e.register(b)
	if err := e.n.Exec.VerifProcess(b, "peer"); err != nil {
		return nil, fmt.Errorf("process block %d: %w", b.Header.Height, err)
	}
	return bi, nil
}

func runChain(r *run) {
	w := r.w.Chain
	p := newPRNG(r.w.Seed, 0)
	cfg := node.Config{Genesis: node.EqualGenesis(4), MaxBlockCache: w.Cache}
	if w.Listen > 0 {
		cfg.ListenAddr = fmt.Sprintf("/ip4/127.0.0.%d/tcp/0", w.Listen)
	}
	n, err := node.New(cfg)
	if err != nil {
		r.fail("harness", "node.New: %v", err)
		return
	}
	e := &chainEnv{r: r, w: w, n: n, da: n.Chain.DataAccess(), syncer: n.Exec.VerifSyncer()}
	// ---- stable zone (single-threaded) ----
	e.stable = append(e.stable, newBinfo(n.Genesis))
	e.registry.Store(string(n.Genesis.Header.ID), e.stable[0])
	for h := 1; h <= w.Stable+churnMargin; h++ {
		bi, err := e.add(p, w.TxPer)
		if err != nil {
			r.fail("harness", "stable chain: %v", err)
			return
		}
		if h <= w.Stable {
			e.stable = append(e.stable, bi)
			for _, id := range bi.txIDs {
				v, _ := e.txReg.Load(string(id))
				e.stableTx = append(e.stableTx, v.(*txinfo))
			}
		}
	}
	e.floor = uint32(w.Stable + churnMargin)
	n.TakeEvents()

	// ---- goroutines ----
	var wg sync.WaitGroup
	wprog, wdone := r.worker("writer")
	type rd struct {
		prog *atomic.Int64
		done *atomic.Bool
	}
	rds := make([]rd, len(w.Readers))
	for i := range w.Readers {
		rds[i].prog, rds[i].done = r.worker(fmt.Sprintf("reader%d", i))
	}
	start := make(chan struct{})
	wg.Add(1)
	go func() {
		defer wg.Done()
		defer wdone.Store(true)
		defer e.writerDone.Store(true)
		<-start
		e.writer(newPRNG(r.w.Seed, 1), wprog)
	}()
	for i := range w.Readers {
		i := i
		wg.Add(1)
		go func() {
			defer wg.Done()
			defer rds[i].done.Store(true)
			<-start
			e.reader(i, newPRNG(r.w.Seed, 100+i), rds[i].prog)
		}()
	}
	e.startSubscribers(&wg, start)
	close(start)
	r.watch()
	wg.Wait()
	// ---- quiescent check: the whole chain is readable and consistent ----
	tip := n.Chain.LastBlock()
	if tip == nil {
		r.fail("nil-tip:quiescent", "LastBlock() is nil after all goroutines finished")
	} else {
		blocks, err := e.da.GetBlocksBetweenHeight(0, tip.Header.Height)
		if err != nil {
			r.fail("quiescent", "GetBlocksBetweenHeight(0,%d): %v", tip.Header.Height, err)
		}
		for i, b := range blocks {
			bi := e.lookup(b.Header.ID)
			if bi == nil || bi.height != uint32(i) || !bytes.Equal(b.Encode(), bi.enc) {
				r.fail("quiescent", "block at height %d after the run is not a block the writer built", i)
				break
			}
			if i > 0 && !bytes.Equal(b.Header.PreviousBlockID, blocks[i-1].Header.ID) {
				r.fail("quiescent", "chain broken at height %d after the run", i)
				break
			}
		}
	}
	// leave the node open: the process exits right after
}

// ---------------------------------------------------------------------------------------------------------------
// Writer: bursts of removals followed by additions, through the Executer.

func (e *chainEnv) writer(p *prng, prog *atomic.Int64) {
	w := e.w
	cached := e.w.Cache // model of the number of cached blocks (never above MaxBlockCache)
	if int(e.floor)+1 < cached {
		cached = int(e.floor) + 1
	}
	pendingRemove, pendingAdd := 0, 0
	excluded := int64(0)
	for op := 0; op < w.WriterOps; op++ {
		tip := e.n.Tip()
		if tip == nil {
			e.r.fail(sigNilTip, "writer: LastBlock() is nil between two writer operations (op %d)", op)
			return
		}
		h := tip.Header.Height
		if pendingRemove == 0 && pendingAdd == 0 {
			// next burst
			depth := 1 + p.intn(w.MaxDepth)
			if p.intn(3) == 0 {
				depth = 1
			}
			pendingRemove = depth
			pendingAdd = depth + p.intn(3) - 1
			if int(h)-int(e.floor) < w.MaxChurn/2 {
				pendingAdd += 1 + p.intn(2)
			}
			if pendingAdd < 0 {
				pendingAdd = 0
			}
		}
		remove := pendingRemove > 0
		if remove {
			if h <= e.floor {
				remove = false
			}
			if remove && w.Finality && h <= e.n.Finalized() {
				remove = false
			}
			if remove && w.KeepCached && cached <= 1 {
				remove = false
				excluded++
			}
			if !remove {
				pendingRemove = 0
				if pendingAdd == 0 {
					pendingAdd = 1
				}
			}
		}
		if !remove && int(h)-int(e.floor) >= w.MaxChurn {
			// ceiling reached: force a removal burst instead (unless impossible)
			if !(w.Finality && h <= e.n.Finalized()) && !(w.KeepCached && cached <= 1) && h > e.floor {
				remove, pendingRemove, pendingAdd = true, 1+p.intn(w.MaxDepth), 0
			}
		}
		if remove {
			emptying := cached <= 1
			if emptying {
				e.refill.Add(1)
			}
			if bi := e.lookup(tip.Header.ID); bi != nil {
				bi.remStarted.Store(true)
			}
			e.remBegin.Add(1)
			err := e.n.Exec.VerifDeleteBlock(tip, p.intn(2) == 0)
			e.remEnd.Add(1)
			if emptying {
				e.refill.Add(1)
			}
			if err != nil {
				if w.Finality && strings.Contains(err.Error(), "already finalized") {
					pendingRemove = 0
					continue
				}
				e.r.fail("writer", "delete block %d: %v", h, err)
				return
			}
			pendingRemove--
			cached--
			if cached <= 0 {
				// the engine reloads the cache from the database (Chain.PrepareCache)
				cached = w.Cache
				if int(h) < cached {
					cached = int(h)
				}
				e.r.count("writer:cache-emptied", 1)
			}
			e.r.count("writer:remove", 1)
		} else {
			if _, err := e.add(p, p.intn(4)); err != nil {
				e.r.fail("writer", "%v", err)
				return
			}
			if pendingAdd > 0 {
				pendingAdd--
			}
			if cached < w.Cache {
				cached++
			}
			e.r.count("writer:add", 1)
		}
		prog.Add(1)
		if op%16 == 15 {
			e.n.TakeEvents()
		}
		p.yield(w.WriterYield)
	}
	e.r.count("writer:excluded-empty-cache", excluded)
}

// ---------------------------------------------------------------------------------------------------------------
// Readers.

type capture struct {
	data   []byte
	err    error
	called bool
}

func (c *capture) Write(d []byte) { c.data, c.called = d, true }
func (c *capture) Error(e error)  { c.err, c.called = e, true }

func (e *chainEnv) reader(idx int, p *prng, prog *atomic.Int64) {
	rw := e.w.Readers[idx]
	weights := make([]int, len(chainOps))
	for i, name := range chainOps {
		weights[i] = rw.Ops[name]
	}
	bulk := rw.Bulk
	if bulk < 2 {
		bulk = 2
	}
	for ops := 0; ; ops++ {
		if e.writerDone.Load() && ops >= e.w.MinReader {
			return
		}
		if e.r.finished.Load() {
			return
		}
		name := chainOps[p.pick(weights)]
		e.safely(name, func() { e.readOp(name, p, bulk, &rw) })
		e.r.count("op:"+name, 1)
		if bulkOps[name] {
			e.r.count("bulk-lookups", 1)
		}
		prog.Add(1)
		p.yield(rw.Yield)
	}
}

// safely turns a panic of the engine inside a reader call into a recorded failure.
func (e *chainEnv) safely(name string, f func()) {
	defer func() {
		if v := recover(); v != nil {
			buf := make([]byte, 1<<15)
			buf = buf[:runtime.Stack(buf, false)]
			st := string(buf)
			sig := "panic:" + name
			if name == "rpcBlocksFromID" && strings.Contains(st, "GetBlocksBetweenHeight") {
				sig = sigUnderflow
				e.underflow.Store(true)
			}
			e.r.fail(sig, "%s panicked: %v\n%s", name, v, st)
		}
	}()
	f()
}

func (e *chainEnv) stableHeights(p *prng, k int) []uint32 {
	// k distinct heights of the stable zone
	n := len(e.stable)
	if k > n {
		k = n
	}
	perm := make([]uint32, n)
	for i := range perm {
		perm[i] = uint32(i)
	}
	for i := 0; i < k; i++ {
		j := i + p.intn(n-i)
		perm[i], perm[j] = perm[j], perm[i]
	}
	return perm[:k]
}

func (e *chainEnv) recentBlock(p *prng) *binfo {
	return e.recent[p.intn(len(e.recent))].Load()
}

func shuffleBytes(p *prng, a [][]byte) {
	for i := len(a) - 1; i > 0; i-- {
		j := p.intn(i + 1)
		a[i], a[j] = a[j], a[i]
	}
}

// checkTip: a tip must be byte-identical to a block the writer built (complete: header, payload, assets), its ID the hash
// of its header encoding, and its payload must match the transaction root.
//
// before = e.refill observed before the call: when the call overlapped a removal that emptied the block cache, a missing
// or stale tip is attributed to that reload (narrow signatures); otherwise it gets a generic one.
func (e *chainEnv) checkTip(api string, b *blockchain.Block, before int64) {
	inRefill := before%2 == 1 || e.refill.Load() != before
	if b == nil {
		if inRefill {
			e.r.fail(sigNilTip, "%s returned no block while the writer removed the last cached block (cache being reloaded)", api)
		} else {
			e.r.fail("nil-tip:"+api, "%s returned no block while the writer was adding/removing blocks", api)
		}
		return
	}
	e.checkBlock("tip:"+api, b, true)
	if b.Header.Height < e.floor {
		if inRefill {
			e.r.fail(sigStaleTip, "%s returned the block at height %d as tip while the block cache was being reloaded; the writer never leaves a tip below %d", api, b.Header.Height, e.floor)
		} else {
			e.r.fail("tip-below-floor:"+api, "%s returned a tip at height %d, below the lowest height the writer ever leaves (%d)", api, b.Header.Height, e.floor)
		}
	}
}

// checkBlock: strict => failure, otherwise the inconsistency is only counted (blocks of the churn zone that are not tips).
func (e *chainEnv) checkBlock(what string, b *blockchain.Block, strict bool) bool {
	problem := ""
	bi := e.lookup(b.Header.ID)
	switch {
	case bi == nil:
		problem = fmt.Sprintf("block %x at height %d was never built by the writer", b.Header.ID, b.Header.Height)
	case !bytes.Equal(crypto.Hash(b.Header.Encode()), b.Header.ID):
		problem = fmt.Sprintf("ID of block at height %d is not the hash of its header", b.Header.Height)
	case !bytes.Equal(b.Encode(), bi.enc):
		problem = fmt.Sprintf("block at height %d differs from the committed block with the same ID (transactions %d, committed %d; assets %d, every block the writer builds has 1)", b.Header.Height, len(b.Transactions), len(bi.txIDs), len(b.Assets))
	default:
		ids := make([][]byte, len(b.Transactions))
		for i, tx := range b.Transactions {
			ids[i] = tx.ID
		}
		if !bytes.Equal(rmt.CalculateRoot(ids), b.Header.TransactionRoot) {
			problem = fmt.Sprintf("payload of block at height %d does not match its transaction root", b.Header.Height)
		}
	}
	if problem == "" {
		return true
	}
	if strict {
		e.r.fail("incomplete-"+what, "%s", problem)
	} else {
		e.r.count("observed-incomplete-nontip-block", 1)
		e.r.note("observation (not asserted, the statement names tips): %s via %s", problem, what)
	}
	return false
}

func (e *chainEnv) checkStableHeader(api string, h *blockchain.BlockHeader, height uint32) {
	st := e.stable[height]
	if h == nil || !bytes.Equal(h.ID, st.id) || !bytes.Equal(h.Encode(), st.hdrEnc) {
		e.r.fail("wrong-item:"+api, "%s: header for stable height %d is not the committed one", api, height)
	}
}

func (e *chainEnv) readOp(name string, p *prng, bulk int, rw *ReaderW) {
	da := e.da
	S := uint32(e.w.Stable)
	// number of stable items of a bulk lookup, and how many churn-zone / unknown items are mixed in
	bulkK := func() int {
		if rw.Fixed {
			return bulk
		}
		return 2 + p.intn(bulk-1)
	}
	extra := func(n int) int {
		if rw.Fixed {
			return 0
		}
		return p.intn(n)
	}
	switch name {
	case "LastBlock":
		before := e.refill.Load()
		b := e.n.Chain.LastBlock()
		e.checkCommitted("LastBlock", b, p)
		e.checkTip("LastBlock", b, before)
	case "GetLastBlock":
		before := e.refill.Load()
		b, err := da.GetLastBlock()
		if err != nil {
			if errors.Is(err, db.ErrDataNotFound) {
				e.checkTip("GetLastBlock", nil, before)
				return
			}
			e.r.fail("error:GetLastBlock", "%v", err)
			return
		}
		e.checkCommitted("GetLastBlock", b, p)
		e.checkTip("GetLastBlock", b, before)
	case "GetLastNBlocks":
		k := 1 + p.intn(12)
		blocks, err := e.n.Chain.GetLastNBlocks(k)
		if err != nil {
			e.r.count("GetLastNBlocks:error(allowed)", 1)
			return // the tip may have been removed between the two reads: an error is a legal answer
		}
		if len(blocks) == 0 || len(blocks) > k {
			e.r.fail("wrong-count:GetLastNBlocks", "GetLastNBlocks(%d) returned %d blocks", k, len(blocks))
			return
		}
		for i, b := range blocks {
			if b == nil {
				e.r.fail("nil-item:GetLastNBlocks", "nil block at index %d", i)
				return
			}
			if i > 0 && b.Header.Height != blocks[i-1].Header.Height+1 {
				e.r.fail("order:GetLastNBlocks", "heights not consecutive at index %d", i)
				return
			}
			e.checkBlock("GetLastNBlocks", b, b.Header.Height <= S)
		}
	case "GetBlockHeader":
		h := uint32(p.intn(len(e.stable)))
		hd, err := da.GetBlockHeader(e.stable[h].id)
		if err != nil {
			e.r.fail("lost-item:GetBlockHeader", "stable height %d: %v", h, err)
			return
		}
		e.checkStableHeader("GetBlockHeader", hd, h)
	case "GetBlockHeaderByHeight":
		if p.intn(4) == 0 { // churn zone: not found or a block of the writer
			h := e.floor + uint32(p.intn(e.w.MaxChurn+3))
			hd, err := da.GetBlockHeaderByHeight(h)
			if err != nil {
				if !errors.Is(err, db.ErrDataNotFound) {
					e.r.fail("error:GetBlockHeaderByHeight", "%v", err)
				}
				return
			}
			if bi := e.lookup(hd.ID); bi == nil || bi.height != h || hd.Height != h {
				e.r.fail("wrong-item:GetBlockHeaderByHeight", "height %d: header %x (height %d) is not a block of the writer at that height", h, hd.ID, hd.Height)
			}
			return
		}
		h := uint32(p.intn(len(e.stable)))
		hd, err := da.GetBlockHeaderByHeight(h)
		if err != nil {
			e.r.fail("lost-item:GetBlockHeaderByHeight", "stable height %d: %v", h, err)
			return
		}
		e.checkStableHeader("GetBlockHeaderByHeight", hd, h)
	case "GetBlock", "GetBlockByHeight":
		h := uint32(p.intn(len(e.stable)))
		var b *blockchain.Block
		var err error
		if name == "GetBlock" {
			b, err = da.GetBlock(e.stable[h].id)
		} else {
			b, err = da.GetBlockByHeight(h)
		}
		if err != nil {
			e.r.fail("lost-item:"+name, "stable height %d: %v", h, err)
			return
		}
		if !bytes.Equal(b.Encode(), e.stable[h].enc) {
			e.r.fail("wrong-item:"+name, "stable block %d differs from the committed one", h)
		}
	case "GetTransaction":
		if len(e.stableTx) == 0 {
			return
		}
		st := e.stableTx[p.intn(len(e.stableTx))]
		tx, err := da.GetTransaction(st.id)
		if err != nil {
			e.r.fail("lost-item:GetTransaction", "%v", err)
			return
		}
		if !bytes.Equal(tx.Encode(), st.enc) {
			e.r.fail("wrong-item:GetTransaction", "stable transaction differs")
		}
	case "GetBlockHeaders":
		k := bulkK()
		hs := e.stableHeights(p, k)
		var ids [][]byte
		want := map[string]int{}
		for _, h := range hs {
			ids = append(ids, e.stable[h].id)
			want[string(e.stable[h].id)]++
		}
		optional := map[string]bool{}
		for i := extra(4); i > 0; i-- { // ids of the churn zone: 0 or 1 answers each
			if bi := e.recentBlock(p); bi != nil && bi.height > S && !optional[string(bi.id)] {
				ids = append(ids, bi.id)
				optional[string(bi.id)] = true
			}
		}
		for i := extra(3); i > 0; i-- { // unknown ids
			ids = append(ids, crypto.Hash([]byte(fmt.Sprintf("unknown %d", p.next()))))
		}
		shuffleBytes(p, ids)
		hds, err := da.GetBlockHeaders(ids)
		if err != nil {
			e.r.fail("error:GetBlockHeaders", "%v", err)
			return
		}
		got := map[string]int{}
		for _, h := range hds {
			if h == nil {
				e.r.fail("nil-item:GetBlockHeaders", "nil header in the answer")
				return
			}
			got[string(h.ID)]++
		}
		e.multiset("GetBlockHeaders", sigLostHeaders, want, optional, got, len(ids))
		for _, h := range hds {
			if bi := e.lookup(h.ID); bi != nil && bi.height <= S {
				e.checkStableHeader("GetBlockHeaders", h, bi.height)
			}
		}
	case "GetBlockHeadersByHeights":
		k := bulkK()
		hs := append([]uint32{}, e.stableHeights(p, k)...)
		want := map[string]int{}
		for _, h := range hs {
			want[fmt.Sprint(h)]++
		}
		optional := map[string]bool{}
		for i := extra(4); i > 0; i-- { // heights of the churn zone / beyond the tip
			h := S + 1 + uint32(p.intn(e.w.MaxChurn+churnMargin+4))
			if h > e.floor && !optional[fmt.Sprint(h)] {
				optional[fmt.Sprint(h)] = true
				hs = append(hs, h)
			}
		}
		for i := len(hs) - 1; i > 0; i-- {
			j := p.intn(i + 1)
			hs[i], hs[j] = hs[j], hs[i]
		}
		hds, err := da.GetBlockHeadersByHeights(hs)
		if err != nil {
			e.r.fail("error:GetBlockHeadersByHeights", "%v", err)
			return
		}
		got := map[string]int{}
		for _, h := range hds {
			if h == nil {
				e.r.fail("nil-item:GetBlockHeadersByHeights", "nil header in the answer")
				return
			}
			got[fmt.Sprint(h.Height)]++
			if h.Height <= S {
				e.checkStableHeader("GetBlockHeadersByHeights", h, h.Height)
			} else if bi := e.lookup(h.ID); bi == nil || bi.height != h.Height {
				e.r.fail("wrong-item:GetBlockHeadersByHeights", "header %x at height %d is not a block of the writer", h.ID, h.Height)
			}
		}
		e.multiset("GetBlockHeadersByHeights", sigLostByHeights, want, optional, got, len(hs))
	case "GetTransactions":
		if len(e.stableTx) < 2 {
			return
		}
		k := bulkK()
		if k > len(e.stableTx) {
			k = len(e.stableTx)
		}
		off := p.intn(len(e.stableTx))
		step := 1 + p.intn(3)
		if rw.Fixed {
			step = 1
		}
		var ids [][]byte
		want := map[string]int{}
		for i := 0; i < k; i++ {
			st := e.stableTx[(off+i*step)%len(e.stableTx)]
			if want[string(st.id)] > 0 {
				continue
			}
			ids = append(ids, st.id)
			want[string(st.id)]++
		}
		optional := map[string]bool{}
		for i := extra(4); i > 0; i-- {
			if bi := e.recentBlock(p); bi != nil && bi.height > S && len(bi.txIDs) > 0 {
				id := bi.txIDs[p.intn(len(bi.txIDs))]
				if !optional[string(id)] {
					optional[string(id)] = true
					ids = append(ids, id)
				}
			}
		}
		for i := extra(3); i > 0; i-- {
			ids = append(ids, crypto.Hash([]byte(fmt.Sprintf("unknown tx %d", p.next()))))
		}
		shuffleBytes(p, ids)
		txs, err := da.GetTransactions(ids)
		if err != nil {
			e.r.fail("error:GetTransactions", "%v", err)
			return
		}
		got := map[string]int{}
		for _, tx := range txs {
			if tx == nil {
				e.r.fail("nil-item:GetTransactions", "nil transaction in the answer")
				return
			}
			got[string(tx.ID)]++
			if v, ok := e.txReg.Load(string(tx.ID)); !ok || !bytes.Equal(tx.Encode(), v.(*txinfo).enc) {
				e.r.fail("wrong-item:GetTransactions", "transaction %x is not a committed transaction", tx.ID)
			}
		}
		e.multiset("GetTransactions", sigLostTxs, want, optional, got, len(ids))
	case "GetBlocksBetweenHeight":
		span := 1 + p.intn(bulk)
		var from, to uint32
		churn := p.intn(4) == 0
		if churn {
			to = e.floor + uint32(p.intn(e.w.MaxChurn+2))
			if uint32(span) > to {
				span = int(to)
			}
			from = to - uint32(span) + 1
		} else {
			if span > len(e.stable) {
				span = len(e.stable)
			}
			from = uint32(p.intn(len(e.stable) - span + 1))
			to = from + uint32(span) - 1
		}
		blocks, err := da.GetBlocksBetweenHeight(from, to)
		if err != nil {
			if to <= e.floor {
				e.r.fail("lost-item:GetBlocksBetweenHeight", "range %d..%d below the churn zone: %v", from, to, err)
			} else {
				e.r.count("GetBlocksBetweenHeight:error(allowed)", 1)
			}
			return
		}
		if len(blocks) != int(to-from+1) {
			e.r.fail("wrong-count:GetBlocksBetweenHeight", "range %d..%d: %d blocks", from, to, len(blocks))
			return
		}
		for i, b := range blocks {
			h := from + uint32(i)
			if b == nil || b.Header.Height != h {
				e.r.fail("wrong-item:GetBlocksBetweenHeight", "range %d..%d: element %d is not the block at height %d", from, to, i, h)
				return
			}
			if h <= S {
				if !bytes.Equal(b.Encode(), e.stable[h].enc) {
					e.r.fail("wrong-item:GetBlocksBetweenHeight", "stable block %d differs from the committed one", h)
					return
				}
			} else {
				e.checkBlock("GetBlocksBetweenHeight", b, false)
			}
		}
	case "rpcLastBlock":
		before := e.refill.Load()
		c := &capture{}
		e.syncer.HandleRPCEndpointGetLastBlock()(c, &p2p.Request{PeerID: "reader"})
		if c.err != nil || !c.called {
			e.r.fail("error:rpcLastBlock", "called=%v err=%v", c.called, c.err)
			return
		}
		b, err := blockchain.NewBlock(c.data)
		if err != nil {
			e.r.fail("incomplete-tip:rpcLastBlock", "answer does not decode: %v", err)
			return
		}
		e.checkCommitted("rpcLastBlock", b, p)
		e.checkTip("rpcLastBlock", b, before)
	case "rpcHighestCommon":
		k := 1 + p.intn(bulk)
		hs := e.stableHeights(p, k)
		var ids [][]byte
		maxStable := uint32(0)
		req := map[string]bool{}
		for _, h := range hs {
			ids = append(ids, e.stable[h].id)
			req[string(e.stable[h].id)] = true
			if h > maxStable {
				maxStable = h
			}
		}
		for i := p.intn(3); i > 0; i-- {
			if bi := e.recentBlock(p); bi != nil && bi.height > S {
				ids = append(ids, bi.id)
				req[string(bi.id)] = true
			}
		}
		for i := p.intn(3); i > 0; i-- {
			ids = append(ids, crypto.Hash([]byte(fmt.Sprintf("unknown %d", p.next()))))
		}
		shuffleBytes(p, ids)
		c := &capture{}
		e.syncer.HandleRPCEndpointGetHighestCommonBlock()(c, &p2p.Request{Data: (&csync.GetHighestCommonBlockRequest{IDs: ids}).Encode(), PeerID: "reader"})
		if c.err != nil || !c.called {
			e.r.fail("error:rpcHighestCommon", "called=%v err=%v", c.called, c.err)
			return
		}
		resp := &csync.GetHighestCommonBlockResponse{}
		if len(c.data) == 0 || resp.Decode(c.data) != nil || len(resp.ID) == 0 {
			e.r.fail("lost-item:rpcHighestCommon", "no common block reported although %d ids of stable blocks were sent", len(hs))
			return
		}
		bi := e.lookup(resp.ID)
		if bi == nil || !req[string(resp.ID)] {
			e.r.fail("wrong-item:rpcHighestCommon", "answer %x is not one of the requested ids", resp.ID)
			return
		}
		if bi.height < maxStable {
			e.r.fail("wrong-item:rpcHighestCommon", "answer at height %d although the stable block at height %d was requested", bi.height, maxStable)
		}
	case "rpcBlocksFromID":
		var from *binfo
		if e.underflow.Load() {
			// only ids of stable blocks from now on
		} else if !e.w.StableFrom && rw.Newest {
			from = e.recent[e.recentN.Load()%int64(len(e.recent))].Load()
		} else if !e.w.StableFrom && p.intn(2) == 0 {
			from = e.recentBlock(p)
		}
		if from == nil {
			from = e.stable[p.intn(len(e.stable))]
		}
		c := &capture{}
		e.syncer.HandleRPCEndpointGetBlocksFromID()(c, &p2p.Request{Data: (&csync.GetBlocksFromIDRequest{ID: from.id}).Encode(), PeerID: "reader"})
		if !c.called {
			e.r.fail("error:rpcBlocksFromID", "handler did not answer")
			return
		}
		if c.err != nil {
			// the answer reaches up to the tip read a moment earlier; a removal in between makes the range lookup fail: legal
			e.r.count("rpcBlocksFromID:error(allowed)", 1)
			return
		}
		resp := &csync.GetBlocksFromIDResponse{}
		if err := resp.Decode(c.data); err != nil {
			e.r.fail("error:rpcBlocksFromID", "answer does not decode: %v", err)
			return
		}
		if len(resp.Blocks) > 103 {
			e.r.fail("wrong-count:rpcBlocksFromID", "%d blocks", len(resp.Blocks))
		}
		if from.height < e.floor && len(resp.Blocks) < int(min32(e.floor-from.height, 103)) {
			e.r.fail("lost-item:rpcBlocksFromID", "request from stable height %d returned %d blocks, at least %d always exist", from.height, len(resp.Blocks), min32(e.floor-from.height, 103))
		}
		for i, b := range resp.Blocks {
			b.Init()
			h := from.height + 1 + uint32(i)
			if b.Header.Height != h {
				e.r.fail("wrong-item:rpcBlocksFromID", "element %d has height %d, want %d", i, b.Header.Height, h)
				return
			}
			if h <= S {
				if !bytes.Equal(b.Encode(), e.stable[h].enc) {
					e.r.fail("wrong-item:rpcBlocksFromID", "stable block %d differs", h)
					return
				}
			} else {
				e.checkBlock("rpcBlocksFromID", b, false)
			}
		}
	case "rpcMalformed":
		// ban path (needs the started connection); nothing to assert beyond "returns"
		c := &capture{}
		switch p.intn(3) {
		case 0:
			e.syncer.HandleRPCEndpointGetBlocksFromID()(c, &p2p.Request{Data: (&csync.GetBlocksFromIDRequest{ID: []byte{1, 2, 3}}).Encode(), PeerID: "reader"})
		case 1:
			e.syncer.HandleRPCEndpointGetHighestCommonBlock()(c, &p2p.Request{Data: (&csync.GetHighestCommonBlockRequest{IDs: [][]byte{{1}}}).Encode(), PeerID: "reader"})
		default:
			e.syncer.HandleRPCEndpointGetHighestCommonBlock()(c, &p2p.Request{Data: nil, PeerID: "reader"})
		}
	}
}

func min32(a, b uint32) uint32 {
	if a < b {
		return a
	}
	return b
}

// multiset: every wanted (stable) item exactly as often as requested, optional (churn) items at most once, nothing else.
func (e *chainEnv) multiset(api, lostSig string, want map[string]int, optional map[string]bool, got map[string]int, requested int) {
	var lost, dup, foreign []string
	for k, n := range want {
		switch {
		case got[k] < n:
			lost = append(lost, printable(k))
		case got[k] > n:
			dup = append(dup, printable(k))
		}
	}
	for k, n := range got {
		if _, ok := want[k]; ok {
			continue
		}
		if !optional[k] {
			foreign = append(foreign, printable(k))
		} else if n > 1 {
			dup = append(dup, printable(k))
		}
	}
	sort.Strings(lost)
	sort.Strings(dup)
	sort.Strings(foreign)
	if len(lost) > 0 {
		e.r.fail(lostSig, "%s over %d items (%d of them stable, all existing): %d stable item(s) missing from the answer: %v", api, requested, len(want), len(lost), clip(lost))
	}
	if len(dup) > 0 {
		e.r.fail("dup-item:"+api, "%s: item(s) returned more often than requested: %v", api, clip(dup))
	}
	if len(foreign) > 0 {
		e.r.fail("foreign-item:"+api, "%s: item(s) nobody asked for: %v", api, clip(foreign))
	}
}

func printable(k string) string {
	for _, c := range k {
		if c < '0' || c > '9' {
			return fmt.Sprintf("%x", k)
		}
	}
	return k
}

func clip(a []string) []string {
	if len(a) > 6 {
		return append(a[:6:6], "...")
	}
	return a
}
