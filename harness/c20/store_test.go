package c20

// Workload (d): ONE diffdb staged store used through sibling WithPrefix views from several goroutines.
//
// Worker i owns view i (root.WithPrefix{i}) and writes only its own keys, so whatever the other workers do to THEIR keys
// cannot change what worker i must read - except Snapshot/RestoreSnapshot, which act on the whole shared overlay.
//
//	mode "exact": Snapshot/RestoreSnapshot run while the other workers are held at a gate (a harness RWMutex) and
//	  snapshot/reset every worker's model; Get/Has/Range/Iterate of a worker on its own view must then equal its sequential
//	  model exactly, at every step; at the end the overlay is committed and the database must equal the models.
//	mode "free": Snapshot/RestoreSnapshot run at any time. A restore may take any worker's keys back to an earlier
//	  state, so only provenance is asserted: a value read for key k is the base value of k or a value its owner wrote to k
//	  earlier; range answers are sorted, duplicate-free, inside the view and within the limit.
//
// Both modes: no race report, no panic (cacheDB.set panics on a key that vanished under it), no fatal map error.

import (
	"bytes"
	"fmt"
	"sort"
	"sync"

	"github.com/LiskHQ/lisk-engine/pkg/db"
	"github.com/LiskHQ/lisk-engine/pkg/db/diffdb"
)

type StoreW struct {
	Mode    string `json:"mode"` // exact | free
	Workers int    `json:"workers"`
	Ops     int    `json:"ops"`     // per worker
	Keys    int    `json:"keys"`    // key space per view
	Base    int    `json:"base"`    // every Base-th key exists in the database before the run (0 = none)
	Weights []int  `json:"weights"` // get, has, set, del, range, iterate, snapshot, restore
	Yield   int    `json:"yield"`
}

type kvModel map[string][]byte // present keys only

func (m kvModel) clone() kvModel {
	c := kvModel{}
	for k, v := range m {
		c[k] = v
	}
	return c
}

func storeKey(j int) []byte { return []byte{byte('a' + j/26), byte('a' + j%26)} }

func storeVal(worker, key, seq int) []byte {
	return []byte(fmt.Sprintf("w%d|k%d|s%d", worker, key, seq))
}

func runStore(r *run) {
	w := r.w.Store
	database, err := db.NewInMemoryDB()
	if err != nil {
		r.fail("harness", "db: %v", err)
		return
	}
	rootPrefix := []byte{0x10}
	batch := database.NewBatch()
	models := make([]kvModel, w.Workers)
	for i := 0; i < w.Workers; i++ {
		models[i] = kvModel{}
		for j := 0; j < w.Keys; j++ {
			if w.Base > 0 && j%w.Base == 0 {
				v := storeVal(i, j, 0)
				batch.Set(bytes.Join([][]byte{rootPrefix, {byte(i)}, storeKey(j)}, nil), v)
				models[i][string(storeKey(j))] = v
			}
		}
	}
	database.Write(batch)
	root := diffdb.New(database, rootPrefix)
	views := make([]*diffdb.Database, w.Workers)
	for i := range views {
		views[i] = root.WithPrefix([]byte{byte(i)})
	}
	exact := w.Mode == "exact"
	var gate sync.RWMutex // exact mode: Snapshot/RestoreSnapshot exclusive, everything else shared
	type snap struct {
		view, id int
		models   []kvModel
	}
	var snapsMu sync.Mutex
	var snaps []snap

	var wg sync.WaitGroup
	start := make(chan struct{})
	for i := 0; i < w.Workers; i++ {
		i := i
		prog, done := r.worker(fmt.Sprintf("view%d", i))
		wg.Add(1)
		go func() {
			defer wg.Done()
			defer done.Store(true)
			p := newPRNG(r.w.Seed, i)
			v := views[i]
			seq := 0
			lastSeq := map[int]int{} // key -> highest seq this worker wrote
			<-start
			for op := 0; op < w.Ops; op++ {
				kind := p.pick(w.Weights)
				if kind < 6 {
					if exact {
						gate.RLock()
					}
					m := models[i]
					j := p.intn(w.Keys)
					k := storeKey(j)
					switch kind {
					case 0, 1:
						val, ok := v.Get(k)
						if kind == 1 {
							ok = v.Has(k)
						}
						if exact {
							want, wok := m[string(k)]
							if ok != wok || (kind == 0 && ok && !bytes.Equal(val, want)) {
								r.fail("wrong-item:diffdb.Get", "view %d key %s: got (%q,%v), the view's own history gives (%q,%v)", i, k, val, ok, want, wok)
							}
						} else if kind == 0 && ok {
							checkProvenance(r, "Get", i, j, val, lastSeq)
						}
						r.count("op:Get/Has", 1)
					case 2:
						seq++
						val := storeVal(i, j, seq)
						v.Set(k, val)
						lastSeq[j] = seq
						if exact {
							m[string(k)] = val
						}
						r.count("op:Set", 1)
					case 3:
						v.Del(k)
						if exact {
							delete(m, string(k))
						}
						r.count("op:Del", 1)
					case 4, 5:
						limit := -1
						if p.intn(2) == 0 {
							limit = p.intn(6)
						}
						reverse := p.intn(2) == 0
						var got []db.KeyValue
						var inRange func(string) bool
						if kind == 4 {
							a, b := p.intn(w.Keys), p.intn(w.Keys)
							if a > b {
								a, b = b, a
							}
							s, e := storeKey(a), storeKey(b)
							got = v.Range(s, e, limit, reverse)
							inRange = func(x string) bool { return x >= string(s) && x <= string(e) }
							r.count("op:Range", 1)
						} else {
							pre := []byte{}
							if p.intn(3) > 0 {
								pre = storeKey(j)[:1]
							}
							got = v.Iterate(pre, limit, reverse)
							inRange = func(x string) bool { return bytes.HasPrefix([]byte(x), pre) }
							r.count("op:Iterate", 1)
						}
						checkRange(r, i, w.Keys, got, limit, reverse, inRange, lastSeq)
						if exact {
							var keys []string
							for x := range m {
								if inRange(x) {
									keys = append(keys, x)
								}
							}
							sort.Strings(keys)
							if reverse {
								for a, b := 0, len(keys)-1; a < b; a, b = a+1, b-1 {
									keys[a], keys[b] = keys[b], keys[a]
								}
							}
							if limit > -1 && len(keys) > limit {
								keys = keys[:limit]
							}
							same := len(keys) == len(got)
							for x := 0; same && x < len(keys); x++ {
								same = string(got[x].Key()) == keys[x] && bytes.Equal(got[x].Value(), m[keys[x]])
							}
							if !same {
								var gk []string
								for _, kv := range got {
									gk = append(gk, string(kv.Key()))
								}
								r.fail("wrong-item:diffdb.Range/Iterate", "view %d (limit %d reverse %v): got keys %v, the view's own history gives %v", i, limit, reverse, gk, keys)
							}
						}
					}
					if exact {
						gate.RUnlock()
					}
				} else if kind == 6 {
					if exact {
						gate.Lock()
						id := v.Snapshot()
						s := snap{view: i, id: id}
						for _, m := range models {
							s.models = append(s.models, m.clone())
						}
						snapsMu.Lock()
						snaps = append(snaps, s)
						snapsMu.Unlock()
						gate.Unlock()
					} else {
						id := v.Snapshot()
						snapsMu.Lock()
						snaps = append(snaps, snap{view: i, id: id})
						snapsMu.Unlock()
					}
					r.count("op:Snapshot", 1)
				} else {
					// restore one of this view's snapshots (snapshot ids are per view)
					if exact {
						gate.Lock()
					}
					snapsMu.Lock()
					pick := -1
					for x := len(snaps) - 1; x >= 0; x-- {
						if snaps[x].view == i && (pick < 0 || p.intn(2) == 0) {
							pick = x
						}
					}
					var s snap
					if pick >= 0 {
						s = snaps[pick]
						snaps = append(snaps[:pick], snaps[pick+1:]...)
					}
					snapsMu.Unlock()
					if pick >= 0 {
						if err := v.RestoreSnapshot(s.id); err != nil {
							r.fail("error:diffdb.RestoreSnapshot", "view %d snapshot %d: %v", i, s.id, err)
						}
						if exact {
							for x := range models {
								models[x] = s.models[x]
							}
						}
						r.count("op:RestoreSnapshot", 1)
					}
					if exact {
						gate.Unlock()
					}
				}
				prog.Add(1)
				p.yield(w.Yield)
			}
		}()
	}
	close(start)
	r.watch()
	wg.Wait()
	if exact {
		out := database.NewBatch()
		root.Commit(out)
		database.Write(out)
		for i, m := range models {
			for j := 0; j < w.Keys; j++ {
				k := storeKey(j)
				val, ok := database.Get(bytes.Join([][]byte{rootPrefix, {byte(i)}, k}, nil))
				want, wok := m[string(k)]
				if ok != wok || (ok && !bytes.Equal(val, want)) {
					r.fail("wrong-item:diffdb.Commit", "after the final commit view %d key %s is (%q,%v) in the database, the view's own history gives (%q,%v)", i, k, val, ok, want, wok)
				}
			}
		}
	}
}

// checkProvenance: the value is the base value or one this worker wrote to that key before.
func checkProvenance(r *run, api string, worker, key int, val []byte, lastSeq map[int]int) {
	var w, k, s int
	if n, err := fmt.Sscanf(string(val), "w%d|k%d|s%d", &w, &k, &s); n != 3 || err != nil || w != worker || k != key || s < 0 || s > lastSeq[key] {
		r.fail("foreign-item:diffdb."+api, "view %d key %d: value %q was never written to that key by its owner (highest write %d)", worker, key, val, lastSeq[key])
	}
}

func checkRange(r *run, worker, keys int, got []db.KeyValue, limit int, reverse bool, inRange func(string) bool, lastSeq map[int]int) {
	if limit > -1 && len(got) > limit {
		r.fail("wrong-count:diffdb.Range/Iterate", "view %d: %d results with limit %d", worker, len(got), limit)
	}
	for x, kv := range got {
		k := kv.Key()
		if len(k) != 2 || !inRange(string(k)) {
			r.fail("foreign-item:diffdb.Range/Iterate", "view %d: key %q outside the requested range/prefix of the view", worker, k)
			return
		}
		j := int(k[0]-'a')*26 + int(k[1]-'a')
		if j < 0 || j >= keys {
			r.fail("foreign-item:diffdb.Range/Iterate", "view %d: key %q was never used", worker, k)
			return
		}
		if x > 0 {
			c := bytes.Compare(got[x-1].Key(), k)
			if (!reverse && c >= 0) || (reverse && c <= 0) {
				r.fail("order:diffdb.Range/Iterate", "view %d: keys not strictly ordered (%q then %q, reverse %v)", worker, got[x-1].Key(), k, reverse)
				return
			}
		}
		checkProvenance(r, "Range/Iterate", worker, j, kv.Value(), lastSeq)
	}
}
