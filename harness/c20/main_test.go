// Package c20: property C20 - shared chain data is race-free and deadlock-free under concurrent use.
//
// Every stress workload is drawn by rapid in the test process (the "parent") and executed in a SUBPROCESS of the same
// -race test binary (the "child", selected by the VERIF_C20_CHILD environment variable in TestMain). The child runs the
// goroutines against the real engine objects, evaluates the functional oracles itself, watches progress counters and
// prints one line "C20RESULT {json}". The parent reads the child's combined output, splits the race detector's reports
// out of it, attributes every report and every functional failure to a narrow signature and either matches it against
// /verif/known_findings/C20.json (KNOWN-FINDING, run continues) or fails with the report text.
//
// Why a subprocess: a race report inside the test process would fail the whole binary (testing marks the running test
// failed and the runtime exits with 66), and a real deadlock of a lock inside the engine cannot be undone in-process.
//
// Oracles (none can fail on a correct implementation under any timing):
//   - no race report whose stacks touch github.com/LiskHQ/lisk-engine/pkg/;
//   - every tip a reader obtains is byte-identical to one block the writer built and handed to the Executer;
//   - bulk lookups over stable items return each requested stable item exactly once;
//   - blocked-forever is reported only with a goroutine dump that shows a lock cycle (see stall.go part below);
//     a wall-clock budget hit without that is evid.R.Inconclusive.
//
// The seed fixes the workload (goroutine counts, op mix, sizes, yield injection), never the Go scheduler.
package c20

import (
	"bytes"
	"encoding/json"
	"fmt"
	"os"
	"os/exec"
	"path/filepath"
	"reflect"
	"regexp"
	"runtime"
	"sort"
	"strconv"
	"strings"
	"sync"
	"sync/atomic"
	"testing"
	"time"

	"github.com/LiskHQ/lisk-engine/pkg/blockchain"

	"verifharness/evid"
)

const childEnv = "VERIF_C20_CHILD"
const enginePkg = "github.com/LiskHQ/lisk-engine/pkg/"

func TestMain(m *testing.M) {
	if p := os.Getenv(childEnv); p != "" {
		childMain(p)
		return
	}
	evid.Main(m, "C20")
}

// ---- signatures of the known findings (narrow: any other violation of C20 is still reported) ----
const (
	sigRaceHeaders   = "race:DataAccess.GetBlockHeaders:append"
	sigRaceByHeights = "race:DataAccess.GetBlockHeadersByHeights:append"
	sigRaceTxs       = "race:DataAccess.GetTransactions:append"
	sigRaceSync      = "race:blockSyncer.Sync:append"
	sigLostHeaders   = "lost-item:GetBlockHeaders"
	sigLostByHeights = "lost-item:GetBlockHeadersByHeights"
	sigLostTxs       = "lost-item:GetTransactions"
	sigReentrant     = "deadlock:blockCache.last:reentrant-rlock"
	sigNilTip        = "nil-tip:RemoveBlock:cache-refill"
	sigStaleTip      = "stale-tip:RemoveBlock:cache-refill"
	sigUnderflow     = "panic:HandleRPCEndpointGetBlocksFromID:range-underflow"
	sigRaceSyncing   = "race:Executer.syncying:Syncing-vs-process"
)

// VERIF_C20_ASSUME_FIXED=1 ignores the "known" status of every listed finding: nothing is excluded from the generated
// workloads and a listed signature fails the run. Used to verify the proposed repairs in a scratch worktree before the
// entries are flipped to "fixed". (Do not use it on a tree that still has C20-F10: one hit asks for 32 GiB.)
var assumeFixed = os.Getenv("VERIF_C20_ASSUME_FIXED") == "1"

func isKnown(sig string) bool { return !assumeFixed && evid.R.IsKnown(sig) }

// ---------------------------------------------------------------------------------------------------------------
// Workload and result (JSON between parent and child).

type Workload struct {
	Kind   string `json:"kind"` // chain | pool | event | store | sync | tip | lin | rpc
	Procs  int    `json:"procs"`
	Seed   uint64 `json:"seed"`
	Budget int    `json:"budget_s"` // wall-clock budget of the child (inconclusive when hit)

	Chain *ChainW `json:"chain,omitempty"`
	Pool  *PoolW  `json:"pool,omitempty"`
	Event *EventW `json:"event,omitempty"`
	Store *StoreW `json:"store,omitempty"`
	Sync  *SyncW  `json:"sync,omitempty"`
	Tip   *TipW   `json:"tip,omitempty"`
	Lin   *LinW   `json:"lin,omitempty"`
	Rpc   *RpcW   `json:"rpc,omitempty"`
}

type Failure struct {
	Sig    string `json:"sig"`
	Detail string `json:"detail"`
}

type Result struct {
	Done     bool             `json:"done"`
	Budget   bool             `json:"budget"`
	Counters map[string]int64 `json:"counters"`
	Failures []Failure        `json:"failures"`
	StallSig string           `json:"stall_sig,omitempty"` // positive deadlock evidence (signature) or ""
	Stall    string           `json:"stall,omitempty"`     // description + goroutine excerpt
	Notes    []string         `json:"notes,omitempty"`
	WallMs   int64            `json:"wall_ms"`
}

// ---------------------------------------------------------------------------------------------------------------
// Child side: shared run state, progress counters, watchdog.

type run struct {
	w        *Workload
	start    time.Time
	mu       sync.Mutex
	res      Result
	perSig   map[string]int
	counters sync.Map // name -> *atomic.Int64 (operation histogram)
	progress []*atomic.Int64
	done     []*atomic.Bool
	names    []string
	finished atomic.Bool
}

func newRun(w *Workload) *run {
	return &run{w: w, start: time.Now(), perSig: map[string]int{}, res: Result{Counters: map[string]int64{}}}
}

// worker registers a goroutine whose progress the watchdog follows.
func (r *run) worker(name string) (*atomic.Int64, *atomic.Bool) {
	c, d := new(atomic.Int64), new(atomic.Bool)
	r.progress = append(r.progress, c)
	r.done = append(r.done, d)
	r.names = append(r.names, name)
	return c, d
}

func (r *run) count(name string, n int64) {
	v, ok := r.counters.Load(name)
	if !ok {
		v, _ = r.counters.LoadOrStore(name, new(atomic.Int64))
	}
	v.(*atomic.Int64).Add(n)
}

// fail records a functional oracle failure (at most 3 details per signature are kept).
func (r *run) fail(sig, format string, a ...any) {
	r.mu.Lock()
	defer r.mu.Unlock()
	r.perSig[sig]++
	if r.perSig[sig] <= 3 {
		d := fmt.Sprintf(format, a...)
		if len(d) > 6000 {
			d = d[:6000] + "...(truncated)"
		}
		r.res.Failures = append(r.res.Failures, Failure{sig, d})
	}
}

func (r *run) note(format string, a ...any) {
	r.mu.Lock()
	defer r.mu.Unlock()
	if len(r.res.Notes) < 20 {
		r.res.Notes = append(r.res.Notes, fmt.Sprintf(format, a...))
	}
}

// finish prints the result line and ends the child process.
func (r *run) finish() {
	if !r.finished.CompareAndSwap(false, true) {
		select {} // another goroutine is already finishing
	}
	r.mu.Lock()
	r.counters.Range(func(k, v any) bool {
		r.res.Counters[k.(string)] = v.(*atomic.Int64).Load()
		return true
	})
	for sig, n := range r.perSig {
		r.res.Counters["fail:"+sig] = int64(n)
	}
	r.res.WallMs = time.Since(r.start).Milliseconds()
	b, _ := json.Marshal(&r.res)
	r.mu.Unlock()
	fmt.Printf("\nC20RESULT %s\n", b)
	os.Stdout.Sync()
	os.Exit(0)
}

const (
	cycleCheckAfter = 4 * time.Second  // nothing moved for this long: look for a provable lock cycle in a dump
	stallAfter      = 20 * time.Second // nothing moved for this long: generic evidence (two dumps), else inconclusive
)

// watch returns when every registered worker is done; it ends the process on a proven deadlock, on a stall and on the
// wall-clock budget.
func (r *run) watch() {
	budget := time.Duration(r.w.Budget) * time.Second
	if budget <= 0 {
		budget = 240 * time.Second
	}
	last := make([]int64, len(r.progress))
	lastMove := time.Now()
	cycleChecked := time.Time{}
	for {
		time.Sleep(100 * time.Millisecond)
		all := true
		for _, d := range r.done {
			if !d.Load() {
				all = false
			}
		}
		if all {
			return
		}
		moved := false
		for i, c := range r.progress {
			if v := c.Load(); v != last[i] {
				last[i] = v
				moved = true
			}
		}
		now := time.Now()
		if moved {
			lastMove = now
			cycleChecked = time.Time{}
		}
		idle := now.Sub(lastMove)
		if idle >= cycleCheckAfter && (cycleChecked.IsZero() || now.Sub(cycleChecked) >= 4*time.Second) {
			cycleChecked = now
			gs := parseDump(allStacks())
			if sig, desc := provenCycle(gs); sig != "" {
				r.mu.Lock()
				r.res.StallSig, r.res.Stall = sig, desc+"\nworkers: "+r.workerState(last)
				r.mu.Unlock()
				r.finish()
			}
		}
		if idle >= stallAfter {
			d1 := parseDump(allStacks())
			time.Sleep(3 * time.Second)
			still := true
			for i, c := range r.progress {
				if c.Load() != last[i] {
					still = false
				}
			}
			if !still {
				lastMove = time.Now()
				continue
			}
			d2 := parseDump(allStacks())
			sig, desc := persistentBlock(d1, d2)
			r.mu.Lock()
			if sig != "" {
				r.res.StallSig, r.res.Stall = sig, desc+"\nworkers: "+r.workerState(last)
			} else {
				r.res.Budget = true
				r.res.Notes = append(r.res.Notes, fmt.Sprintf("no progress for %v but no goroutine parked on a lock or channel send inside the engine packages (not a verdict); workers: %s\nharness goroutines:\n%s", idle.Round(time.Second), r.workerState(last), harnessExcerpt(d2)))
			}
			r.mu.Unlock()
			r.finish()
		}
		if time.Since(r.start) > budget {
			r.mu.Lock()
			r.res.Budget = true
			r.res.Notes = append(r.res.Notes, fmt.Sprintf("wall-clock budget of %v hit while workers were still progressing: %s", budget, r.workerState(last)))
			r.mu.Unlock()
			r.finish()
		}
	}
}

func (r *run) workerState(last []int64) string {
	var sb strings.Builder
	for i, n := range r.names {
		fmt.Fprintf(&sb, "%s=%d%s ", n, last[i], map[bool]string{true: "(done)", false: ""}[r.done[i].Load()])
	}
	return sb.String()
}

// ---------------------------------------------------------------------------------------------------------------
// Goroutine dumps.

type gor struct {
	id      int
	state   string
	frames  []string // function names, innermost first
	files   []string // source file of each frame (parallel to frames, "" if the dump had none)
	parent  int      // goroutine that created this one (0 if unknown)
	creator string   // function named in the "created by" line
	text    string
}

func allStacks() string {
	buf := make([]byte, 8<<20)
	for {
		n := runtime.Stack(buf, true)
		if n < len(buf) {
			return string(buf[:n])
		}
		buf = make([]byte, 2*len(buf))
	}
}

var gorHead = regexp.MustCompile(`^goroutine (\d+) \[([^\],]+)`)
var createdBy = regexp.MustCompile(`^created by (.+?)(?: in goroutine (\d+))?$`)

func parseDump(s string) []gor {
	var out []gor
	for _, blk := range strings.Split(s, "\n\n") {
		blk = strings.TrimSpace(blk)
		m := gorHead.FindStringSubmatch(blk)
		if m == nil {
			continue
		}
		id, _ := strconv.Atoi(m[1])
		g := gor{id: id, state: m[2], text: blk}
		lines := strings.Split(blk, "\n")[1:]
		for i, ln := range lines {
			if strings.HasPrefix(ln, "\t") {
				continue
			}
			if strings.HasPrefix(ln, "created by ") {
				if c := createdBy.FindStringSubmatch(ln); c != nil {
					g.creator = c[1]
					g.parent, _ = strconv.Atoi(c[2])
				}
				continue
			}
			if j := strings.LastIndex(ln, "("); j > 0 {
				ln = ln[:j]
			}
			file := ""
			if i+1 < len(lines) && strings.HasPrefix(lines[i+1], "\t") {
				file = strings.TrimSpace(lines[i+1])
				if j := strings.LastIndex(file, ":"); j > 0 {
					file = file[:j]
				}
			}
			g.frames = append(g.frames, ln)
			g.files = append(g.files, file)
		}
		out = append(out, g)
	}
	return out
}

// engineSrcRoot is the directory of the engine's pkg/ tree as compiled into this binary ("/repo/pkg/" or the scratch
// worktree's). A closure defined in an engine function that the compiler inlined into a harness function is NAMED after
// the harness function (verifharness/c20.(*chainEnv).readOp.(*Syncer).HandleRPCEndpointGetHighestCommonBlock.func4.1);
// only its source file tells that it is engine code. (A seeded deadlock inside such a closure was once filed as
// "no goroutine parked inside the engine packages" because frames were recognised by name only.)
var engineSrcRoot = func() string {
	pc := reflect.ValueOf(blockchain.NewChain).Pointer()
	if f := runtime.FuncForPC(pc); f != nil {
		file, _ := f.FileLine(pc)
		if i := strings.LastIndex(file, "/pkg/blockchain/"); i >= 0 {
			return file[:i] + "/pkg/"
		}
	}
	return ""
}()

var closureNumber = regexp.MustCompile(`\.func\d+(\.\d+)*$`)

// engineFrame names frame i if it is engine code ("" otherwise): by its function name, or - for closures of inlined
// engine functions - by its source file; then the name is rebuilt from the directory and the receiver part, with the
// closure numbering (which depends on the inlining site) cut off.
func (g gor) engineFrame(i int) string {
	f := g.frames[i]
	if strings.HasPrefix(f, enginePkg) {
		return strings.TrimPrefix(f, enginePkg)
	}
	if engineSrcRoot == "" || i >= len(g.files) || !strings.HasPrefix(g.files[i], engineSrcRoot) {
		return ""
	}
	dir := filepath.Dir(strings.TrimPrefix(g.files[i], engineSrcRoot))
	tail := f
	if j := strings.LastIndex(f, ".(*"); j >= 0 {
		tail = f[j+1:]
	} else if j := strings.LastIndex(f, "/"); j >= 0 {
		tail = f[j+1:]
	}
	return dir + "." + closureNumber.ReplaceAllString(tail, ".func")
}

func (g gor) has(fn string) int {
	for i, f := range g.frames {
		if strings.HasSuffix(f, fn) {
			return i
		}
	}
	return -1
}

// firstEngine is the innermost frame inside the engine packages ("" if none).
func (g gor) firstEngine() string {
	for i := range g.frames {
		if n := g.engineFrame(i); n != "" {
			return n
		}
	}
	return ""
}

// provenCycle recognises lock cycles that one stop-the-world dump proves (no timing involved):
// a reader parked in RLock inside one reader method of blockCache (get, getByHeight, last, len) that was called from
// another one (so it already holds the read lock of the outer call; all of them release by defer) while a writer is
// parked in Lock inside push/pop/reset: the writer waits for that reader's first read lock, the reader's second RLock
// queues behind the waiting writer. (C20-F8 was getByHeight called from last.)
func provenCycle(gs []gor) (string, string) {
	// every reader method of blockCache takes the read lock and releases it by defer: a goroutine parked in RLock inside
	// one reader method (inner) that was called from another one (outer) holds the read lock of the outer call.
	readerMethods := []string{"last", "get", "getByHeight", "len"}
	var readers, writers []gor
	sig := ""
	for _, g := range gs {
		if g.state == "sync.RWMutex.RLock" {
			// frames of blockCache reader methods, innermost first
			var names []string
			for _, f := range g.frames {
				for _, m := range readerMethods {
					if strings.HasSuffix(f, "blockchain.(*blockCache)."+m) {
						names = append(names, m)
					}
				}
			}
			if len(names) >= 2 {
				readers = append(readers, g)
				if s := "deadlock:blockCache." + names[1] + ":reentrant-rlock"; sig == "" || s == sigReentrant {
					sig = s
				}
			}
		}
		if g.state == "sync.RWMutex.Lock" && (g.has("blockchain.(*blockCache).push") >= 0 || g.has("blockchain.(*blockCache).pop") >= 0 || g.has("blockchain.(*blockCache).reset") >= 0) {
			writers = append(writers, g)
		}
	}
	if len(readers) > 0 && len(writers) > 0 {
		return sig, fmt.Sprintf("%d goroutine(s) hold blockCache's read lock in one reader method and are parked in the nested RLock of another one behind a writer parked in Lock:\n%s\n\n%s",
			len(readers), excerpt(readers[0]), excerpt(writers[0]))
	}
	return "", ""
}

var blockingStates = map[string]bool{"sync.Mutex.Lock": true, "sync.RWMutex.RLock": true, "sync.RWMutex.Lock": true, "chan send": true, "chan send (nil chan)": true}

// persistentBlock: goroutines parked on a lock or a channel send with a frame of the engine packages on their stack, in
// both dumps (same goroutine, same state, same innermost engine frame) while no worker progressed.
func persistentBlock(d1, d2 []gor) (string, string) {
	key := func(g gor) string { return fmt.Sprintf("%d|%s|%s", g.id, g.state, g.firstEngine()) }
	seen := map[string]bool{}
	for _, g := range d1 {
		if blockingStates[g.state] && g.firstEngine() != "" {
			seen[key(g)] = true
		}
	}
	var parked []gor
	for _, g := range d2 {
		if blockingStates[g.state] && g.firstEngine() != "" && seen[key(g)] {
			parked = append(parked, g)
		}
	}
	if len(parked) == 0 {
		return "", ""
	}
	if sig, desc := provenCycle(d2); sig != "" {
		return sig, desc
	}
	sort.Slice(parked, func(i, j int) bool { return parked[i].firstEngine() < parked[j].firstEngine() })
	fns := map[string]int{}
	for _, g := range parked {
		fns[g.state+"@"+g.firstEngine()]++
	}
	var ks []string
	for k := range fns {
		ks = append(ks, k)
	}
	sort.Strings(ks)
	desc := fmt.Sprintf("%d goroutine(s) parked inside the engine in two dumps 3 s apart while no worker progressed for %v: %v\n", len(parked), stallAfter, fns)
	for i, g := range parked {
		if i >= 4 {
			break
		}
		desc += excerpt(g) + "\n\n"
	}
	return "deadlock:" + strings.Join(ks, "+"), desc
}

// harnessExcerpt shows where the harness goroutines are (for triage of an inconclusive stall).
func harnessExcerpt(gs []gor) string {
	var sb strings.Builder
	n := 0
	for _, g := range gs {
		if g.has("c20.(*run).watch") >= 0 || !strings.Contains(g.text, "verifharness/c20.") {
			continue
		}
		if n++; n > 5 {
			break
		}
		fmt.Fprintf(&sb, "goroutine %d [%s]: %s\n", g.id, g.state, strings.Join(g.frames[:min(len(g.frames), 10)], " <- "))
	}
	return sb.String()
}

func excerpt(g gor) string {
	lines := strings.Split(g.text, "\n")
	if len(lines) > 25 {
		lines = lines[:25]
	}
	return strings.Join(lines, "\n")
}

// ---------------------------------------------------------------------------------------------------------------
// Deterministic pseudo-random streams inside the child: all entropy comes from the rapid-drawn Workload.Seed.

type prng struct{ s uint64 }

func newPRNG(seed uint64, stream int) *prng {
	p := &prng{s: seed ^ (uint64(stream)+1)*0x9E3779B97F4A7C15}
	p.next()
	return p
}

func (p *prng) next() uint64 {
	p.s += 0x9E3779B97F4A7C15
	z := p.s
	z = (z ^ (z >> 30)) * 0xBF58476D1CE4E5B9
	z = (z ^ (z >> 27)) * 0x94D049BB133111EB
	return z ^ (z >> 31)
}

func (p *prng) intn(n int) int {
	if n <= 1 {
		return 0
	}
	return int(p.next() % uint64(n))
}

func (p *prng) pick(weights []int) int {
	t := 0
	for _, w := range weights {
		t += w
	}
	if t == 0 {
		return 0
	}
	x := p.intn(t)
	for i, w := range weights {
		if x < w {
			return i
		}
		x -= w
	}
	return len(weights) - 1
}

// yield injects a scheduling point: mode 0 never, 1 Gosched with probability 1/4, 2 Gosched or a sleep of a few µs.
func (p *prng) yield(mode int) {
	switch mode {
	case 1:
		if p.intn(4) == 0 {
			runtime.Gosched()
		}
	case 2:
		switch p.intn(8) {
		case 0, 1:
			runtime.Gosched()
		case 2:
			time.Sleep(time.Duration(1+p.intn(50)) * time.Microsecond)
		}
	}
}

// ---------------------------------------------------------------------------------------------------------------
// Child entry.

func childMain(path string) {
	b, err := os.ReadFile(path)
	if err != nil {
		fmt.Println("C20CHILD-ERROR read workload:", err)
		os.Exit(3)
	}
	w := &Workload{}
	if err := json.Unmarshal(b, w); err != nil {
		fmt.Println("C20CHILD-ERROR decode workload:", err)
		os.Exit(3)
	}
	if w.Procs > 0 {
		runtime.GOMAXPROCS(w.Procs)
	}
	r := newRun(w)
	defer func() {
		if p := recover(); p != nil {
			buf := make([]byte, 1<<16)
			buf = buf[:runtime.Stack(buf, false)]
			r.fail("panic:child-main", "%v\n%s", p, buf)
			r.finish()
		}
	}()
	switch w.Kind {
	case "chain":
		runChain(r)
	case "pool":
		runPool(r)
	case "event":
		runEvent(r)
	case "store":
		runStore(r)
	case "sync":
		runSync(r)
	case "tip":
		runTip(r)
	case "lin":
		runLin(r)
	case "rpc":
		runRpc(r)
	default:
		r.fail("harness", "unknown workload kind %q", w.Kind)
	}
	r.mu.Lock()
	r.res.Done = true
	r.mu.Unlock()
	r.finish()
}

// ---------------------------------------------------------------------------------------------------------------
// Parent side.

type raceReport struct {
	text   string
	engine bool     // a frame of the engine packages appears in the report
	tops   []string // innermost engine frame of each access section
}

type outcome struct {
	res     *Result
	races   []raceReport
	out     string
	exit    int
	killed  bool
	wall    time.Duration
	crashed string // fatal error / panic text when no result line was printed
}

var sectionHead = regexp.MustCompile(`(?m)^(Read|Write|Previous read|Previous write|Atomic read|Atomic write|Previous atomic read|Previous atomic write) at 0x[0-9a-f]+ by `)

func parseRaces(out string) []raceReport {
	var reps []raceReport
	for _, part := range strings.Split(out, "==================") {
		if !strings.Contains(part, "WARNING: DATA RACE") {
			continue
		}
		rep := raceReport{text: strings.TrimSpace(part), engine: strings.Contains(part, enginePkg)}
		// access sections: from a section head up to the next blank line
		idx := sectionHead.FindAllStringIndex(part, -1)
		for _, ix := range idx {
			sec := part[ix[0]:]
			if e := strings.Index(sec, "\n\n"); e >= 0 {
				sec = sec[:e]
			}
			top := ""
			for _, ln := range strings.Split(sec, "\n")[1:] {
				ln = strings.TrimSpace(ln)
				if strings.HasPrefix(ln, enginePkg) {
					if i := strings.LastIndex(ln, "("); i > 0 {
						ln = ln[:i]
					}
					top = strings.TrimPrefix(ln, enginePkg)
					break
				}
			}
			rep.tops = append(rep.tops, top)
		}
		reps = append(reps, rep)
	}
	return reps
}

// raceSignature names a report: the known unsynchronised appends get their narrow signature only when BOTH racing
// accesses sit in that very closure; everything else is named after its innermost engine frames.
func raceSignature(rep raceReport) string {
	known := map[string]string{
		"blockchain.(*DataAccess).GetBlockHeaders.func1":          sigRaceHeaders,
		"blockchain.(*DataAccess).GetBlockHeadersByHeights.func1": sigRaceByHeights,
		"blockchain.(*DataAccess).GetTransactions.func1":          sigRaceTxs,
		"consensus/sync.(*blockSyncer).Sync.func1":                sigRaceSync,
	}
	if len(rep.tops) >= 2 && rep.tops[0] != "" && rep.tops[0] == rep.tops[1] {
		if s, ok := known[rep.tops[0]]; ok {
			return s
		}
	}
	// the unsynchronised flag behind Executer.Syncing(): one access in Syncing, the other in process (or its deferred reset)
	if len(rep.tops) >= 2 {
		a, b := rep.tops[0], rep.tops[1]
		isProc := func(x string) bool {
			return x == "consensus.(*Executer).process" || strings.HasPrefix(x, "consensus.(*Executer).process.func")
		}
		if (a == "consensus.(*Executer).Syncing" && isProc(b)) || (b == "consensus.(*Executer).Syncing" && isProc(a)) {
			return sigRaceSyncing
		}
	}
	return "race:" + strings.Join(rep.tops, "<>")
}

// runChild executes one workload in a subprocess of this test binary.
func runChild(w *Workload) *outcome {
	dir, err := os.MkdirTemp("", "c20-")
	if err != nil {
		panic(err)
	}
	defer os.RemoveAll(dir)
	wf := filepath.Join(dir, "workload.json")
	b, _ := json.Marshal(w)
	if err := os.WriteFile(wf, b, 0o644); err != nil {
		panic(err)
	}
	self, err := os.Executable()
	if err != nil {
		panic(err)
	}
	cmd := exec.Command(self, "-test.run=^$")
	cmd.Dir = dir
	env := []string{}
	for _, e := range os.Environ() {
		if strings.HasPrefix(e, "GORACE=") || strings.HasPrefix(e, "GOMAXPROCS=") || strings.HasPrefix(e, "VERIF_EVID_OUT=") || strings.HasPrefix(e, "GOTRACEBACK=") {
			continue
		}
		env = append(env, e)
	}
	env = append(env, childEnv+"="+wf, "GORACE=halt_on_error=0 atexit_sleep_ms=0 history_size=2", "GOTRACEBACK=all")
	if w.Procs > 0 {
		env = append(env, "GOMAXPROCS="+strconv.Itoa(w.Procs))
	}
	cmd.Env = env
	var buf bytes.Buffer
	cmd.Stdout, cmd.Stderr = &buf, &buf
	t0 := time.Now()
	o := &outcome{}
	if err := cmd.Start(); err != nil {
		panic(err)
	}
	waitCh := make(chan error, 1)
	go func() { waitCh <- cmd.Wait() }()
	hard := time.Duration(w.Budget+90) * time.Second
	select {
	case err = <-waitCh:
	case <-time.After(hard):
		cmd.Process.Kill()
		err = <-waitCh
		o.killed = true
	}
	o.wall = time.Since(t0)
	if ee, ok := err.(*exec.ExitError); ok {
		o.exit = ee.ExitCode()
	}
	o.out = buf.String()
	o.races = parseRaces(o.out)
	if i := strings.LastIndex(o.out, "\nC20RESULT "); i >= 0 {
		line := o.out[i+len("\nC20RESULT "):]
		if e := strings.Index(line, "\n"); e >= 0 {
			line = line[:e]
		}
		res := &Result{}
		if json.Unmarshal([]byte(line), res) == nil {
			o.res = res
		}
	}
	if o.res == nil && !o.killed {
		for _, marker := range []string{"fatal error:", "panic:", "C20CHILD-ERROR"} {
			if i := strings.Index(o.out, marker); i >= 0 {
				o.crashed = tail(o.out[i:], 6000)
				break
			}
		}
		if o.crashed == "" {
			o.crashed = "child ended without a result line (exit " + strconv.Itoa(o.exit) + "):\n" + tail(o.out, 3000)
		}
	}
	return o
}

func tail(s string, n int) string {
	if len(s) <= n {
		return s
	}
	return s[:n/2] + "\n...\n" + s[len(s)-n/2:]
}

type failer interface {
	Fatalf(format string, args ...any)
}

// verdict evaluates a child outcome: known findings are printed and skipped, everything else fails the case.
// It returns the signatures of the known findings that were hit.
func verdict(t failer, w *Workload, o *outcome) []string {
	wj, _ := json.Marshal(w)
	hit := map[string]bool{}
	var unknown, unknownSigs []string
	known := func(sig string) bool {
		if !assumeFixed && evid.R.KnownFinding(sig) {
			hit[sig] = true
			return true
		}
		return false
	}
	engineRaces, foreign := 0, 0
	for _, rep := range o.races {
		if !rep.engine {
			foreign++
			continue
		}
		engineRaces++
		sig := raceSignature(rep)
		if !known(sig) {
			unknown = append(unknown, fmt.Sprintf("[%s]\n%s", sig, tail(rep.text, 7000)))
		}
	}
	if foreign > 0 {
		evid.R.Label("race-reports-outside-engine-packages(ignored)", int64(foreign))
		for _, rep := range o.races {
			if !rep.engine {
				evid.R.Note("race report without a frame of the engine packages (not a C20 verdict): %s", tail(rep.text, 600))
				break
			}
		}
	}
	evid.R.Label("race-reports-engine", int64(engineRaces))
	switch {
	case o.res != nil:
		for _, f := range o.res.Failures {
			if !known(f.Sig) {
				unknown = append(unknown, fmt.Sprintf("[%s] %s", f.Sig, f.Detail))
			}
		}
		if o.res.StallSig != "" {
			if !known(o.res.StallSig) {
				unknown = append(unknown, fmt.Sprintf("[%s] %s", o.res.StallSig, o.res.Stall))
			}
		}
		if o.res.Budget {
			evid.R.Inconclusive("%s workload hit its wall-clock budget without deadlock evidence: %v", w.Kind, o.res.Notes)
			evid.R.Label("inconclusive-budget", 1)
		}
		for _, n := range o.res.Notes {
			if !o.res.Budget {
				evid.R.Note("%s: %s", w.Kind, n)
			}
		}
		for k, v := range o.res.Counters {
			evid.R.Label(w.Kind+":"+k, v)
		}
	case o.killed:
		evid.R.Inconclusive("%s child killed after %v (hard cap) without a result line", w.Kind, o.wall.Round(time.Second))
		evid.R.Label("inconclusive-killed", 1)
	default:
		if strings.Contains(o.crashed, "cannot allocate memory") || strings.Contains(o.crashed, "out of memory") || strings.Contains(o.crashed, "failed to allocate") {
			// The only engine path that asks for gigabytes is the known range underflow; otherwise the machine is short of memory.
			if strings.Contains(o.crashed, "GetBlocksBetweenHeight") && known(sigUnderflow) {
				break
			}
			evid.R.Inconclusive("%s child ran out of memory: %s", w.Kind, tail(o.crashed, 400))
			break
		}
		sig := "crash:" + firstLine(o.crashed)
		if strings.Contains(o.crashed, "GetBlocksBetweenHeight") && strings.Contains(o.crashed, "HandleRPCEndpointGetBlocksFromID") {
			sig = sigUnderflow
		}
		if !known(sig) {
			unknown = append(unknown, fmt.Sprintf("[%s] child crashed:\n%s", sig, o.crashed))
		}
	}
	if len(unknown) > 0 {
		for _, u := range unknown {
			if i := strings.Index(u, "]"); i > 0 {
				unknownSigs = append(unknownSigs, u[1:i])
			}
		}
		// replayable description of the case (schedule-dependent: the report text below is the actual reproduction)
		evid.R.FailCase(w.Kind, w)
		t.Fatalf("C20 violated (%d finding(s)) by workload %s\n\n%s\n\nC20-SIGNATURES: %s", len(unknown), wj, strings.Join(unknown, "\n\n-----\n\n"), strings.Join(unknownSigs, " | "))
	}
	var sigs []string
	for s := range hit {
		sigs = append(sigs, s)
	}
	sort.Strings(sigs)
	return sigs
}

func firstLine(s string) string {
	if i := strings.Index(s, "\n"); i >= 0 {
		s = s[:i]
	}
	if len(s) > 160 {
		s = s[:160]
	}
	return s
}

// replayWorkload: VERIF_REPLAY_CASE points at a JSON workload written by FailCase.
func TestReplayWorkload(t *testing.T) {
	p := os.Getenv("VERIF_REPLAY_CASE")
	if p == "" {
		t.Skip("no VERIF_REPLAY_CASE")
	}
	b, err := os.ReadFile(p)
	if err != nil {
		t.Fatal(err)
	}
	w := &Workload{}
	if err := json.Unmarshal(b, w); err != nil {
		t.Fatal(err)
	}
	verdict(t, w, runChild(w))
}
