package c20

// Minimal reproducing workloads of the defects found by C20. They run in every tier. On a tree without the repair the
// failure carries a known-finding signature (the run continues); on a repaired tree they must pass under any timing.

import (
	"testing"

	"verifharness/evid"
)

func allOps(names ...string) map[string]int {
	m := map[string]int{}
	for _, n := range names {
		m[n] = 1
	}
	return m
}

func regress(t *testing.T, name string, w *Workload, nontrivial func(*outcome) bool) {
	o := runChild(w)
	sigs := verdict(t, w, o)
	evid.R.Case(name+"|"+keyOf(w), nontrivial(o), sampleOf(w, o, map[string]any{"regress": name, "known_findings_hit": sigs}), "regress:"+name)
}

// A bulk lookup of 64 stable heights / ids / transactions repeated >= 200 times per reader must always return the 64
// requested items (S23: the result slice is appended to from one goroutine per item without synchronisation).
func TestRegressBulkLookupAppend(t *testing.T) {
	mk := func(op string) ReaderW {
		return ReaderW{Ops: allOps(op), Bulk: 64, Fixed: true, Yield: 0}
	}
	w := &Workload{Kind: "chain", Procs: 8, Seed: 23, Budget: 240, Chain: &ChainW{
		Cache: 8, Stable: 72, TxPer: 2, WriterOps: 40, MaxDepth: 2, MaxChurn: 8, KeepCached: true, StableFrom: true, MinReader: 200,
		Readers: []ReaderW{mk("GetBlockHeadersByHeights"), mk("GetBlockHeadersByHeights"), mk("GetBlockHeaders"), mk("GetBlockHeaders"), mk("GetTransactions"), mk("GetTransactions")},
	}}
	regress(t, "bulk-lookup-append", w, func(o *outcome) bool { return o.res != nil && o.res.Counters["bulk-lookups"] >= 1200 })
}

// Readers asking for the tip while the writer adds and removes blocks (S24: blockCache.last takes the read lock and
// calls getByHeight, which takes it again; a writer arriving in between blocks both for ever).
func TestRegressTipReadersReentrantRLock(t *testing.T) {
	tip := ReaderW{Ops: allOps("LastBlock", "GetLastBlock", "rpcLastBlock"), Bulk: 8}
	w := &Workload{Kind: "chain", Procs: 8, Seed: 24, Budget: 240, Chain: &ChainW{
		Cache: 8, Stable: 24, TxPer: 1, WriterOps: 200, MaxDepth: 3, MaxChurn: 10, KeepCached: true, StableFrom: true, MinReader: 1000,
		Readers: []ReaderW{tip, tip, tip, tip, tip, tip},
	}}
	regress(t, "tip-readers-reentrant-rlock", w, func(o *outcome) bool {
		return o.res != nil && (o.res.StallSig != "" || o.res.Counters["op:LastBlock"] >= 1000)
	})
}

// The writer removes more blocks in a row than the block cache holds: while Chain.RemoveBlock reloads the emptied cache
// LastBlock() returns nil. One slow reader keeps the re-entrant read lock (above) unlikely on a tree that still has it.
func TestRegressNilTipWhileCacheRefills(t *testing.T) {
	w := &Workload{Kind: "chain", Procs: 4, Seed: 25, Budget: 240, Chain: &ChainW{
		Cache: 4, Stable: 24, TxPer: 1, WriterOps: 240, MaxDepth: 12, MaxChurn: 16, KeepCached: false, StableFrom: true, MinReader: 400,
		Readers: []ReaderW{{Ops: allOps("LastBlock", "GetLastBlock"), Bulk: 8, Yield: 2}, {Ops: allOps("GetBlockHeader", "GetBlockByHeight"), Bulk: 8, Yield: 1}},
	}}
	regress(t, "nil-tip-while-cache-refills", w, func(o *outcome) bool { return o.res != nil && o.res.Counters["writer:cache-emptied"] >= 3 })
}

// getBlocksFromId for the newest block while the writer removes/adds it: the handler reads the requested header and the
// tip separately; when the tip is below the requested block the range length underflows.
func TestRegressBlocksFromIDOfMovingTip(t *testing.T) {
	if isKnown(sigUnderflow) {
		// One hit on a tree without the repair asks the allocator for 32 GiB (observed: ~50 GB resident in the child, minutes
		// of shadow-memory work under -race). On a shared machine the trigger is therefore not pulled while the finding is
		// listed as known; the case runs as soon as the entry is flipped to "fixed" (or with VERIF_C20_ASSUME_FIXED=1).
		evid.R.Excluded(1)
		evid.R.Note("TestRegressBlocksFromIDOfMovingTip not executed while C20-F10 is listed as known (each hit allocates 32 GiB); observed twice by hand on the unrepaired tree, see notes/C20.md")
		t.Skip("C20-F10 known: trigger not pulled")
	}
	rd := ReaderW{Ops: allOps("rpcBlocksFromID"), Bulk: 8, Newest: true}
	w := &Workload{Kind: "chain", Procs: 8, Seed: 26, Budget: 240, Chain: &ChainW{
		Cache: 8, Stable: 24, TxPer: 1, WriterOps: 300, MaxDepth: 2, MaxChurn: 8, KeepCached: true, StableFrom: false, MinReader: 2000,
		Readers: []ReaderW{rd, rd},
	}}
	regress(t, "blocks-from-id-of-moving-tip", w, func(o *outcome) bool { return o.res != nil && o.res.Counters["op:rpcBlocksFromID"] >= 2000 })
}
