package c20

// Minimal reproducing workloads of the defects found by C20. They run in every tier. On a tree without the repair the
// failure carries a known-finding signature (the run continues); on a repaired tree they must pass under any timing.

import (
	"testing"

	"verifharness/evid"
)

func allOps(names ...string) map[string]int {
	m := map[string]int{}
	for _, n := range names {
		m[n] = 1
	}
	return m
}

func regress(t *testing.T, name string, w *Workload, nontrivial func(*outcome) bool) {
	o := runChild(w)
	sigs := verdict(t, w, o)
	evid.R.Case(name+"|"+keyOf(w), nontrivial(o), sampleOf(w, o, map[string]any{"regress": name, "known_findings_hit": sigs}), "regress:"+name)
}

// A bulk lookup of 64 stable heights / ids / transactions repeated >= 200 times per reader must always return the 64
// requested items (S23: the result slice is appended to from one goroutine per item without synchronisation).
func TestRegressBulkLookupAppend(t *testing.T) {
	mk := func(op string) ReaderW {
		return ReaderW{Ops: allOps(op), Bulk: 64, Fixed: true, Yield: 0}
	}
	w := &Workload{Kind: "chain", Procs: 8, Seed: 23, Budget: 240, Chain: &ChainW{
		Cache: 8, Stable: 72, TxPer: 2, WriterOps: 40, MaxDepth: 2, MaxChurn: 8, KeepCached: true, StableFrom: true, MinReader: 200,
		Readers: []ReaderW{mk("GetBlockHeadersByHeights"), mk("GetBlockHeadersByHeights"), mk("GetBlockHeaders"), mk("GetBlockHeaders"), mk("GetTransactions"), mk("GetTransactions")},
	}}
	regress(t, "bulk-lookup-append", w, func(o *outcome) bool { return o.res != nil && o.res.Counters["bulk-lookups"] >= 1200 })
}

// Readers asking for the tip while the writer adds and removes blocks (S24: blockCache.last takes the read lock and
// calls getByHeight, which takes it again; a writer arriving in between blocks both for ever).
func TestRegressTipReadersReentrantRLock(t *testing.T) {
	tip := ReaderW{Ops: allOps("LastBlock", "GetLastBlock", "rpcLastBlock"), Bulk: 8}
	w := &Workload{Kind: "chain", Procs: 8, Seed: 24, Budget: 240, Chain: &ChainW{
		Cache: 8, Stable: 24, TxPer: 1, WriterOps: 200, MaxDepth: 3, MaxChurn: 10, KeepCached: true, StableFrom: true, MinReader: 1000,
		Readers: []ReaderW{tip, tip, tip, tip, tip, tip},
	}}
	regress(t, "tip-readers-reentrant-rlock", w, func(o *outcome) bool {
		return o.res != nil && (o.res.StallSig != "" || o.res.Counters["op:LastBlock"] >= 1000)
	})
}

// The writer removes more blocks in a row than the block cache holds: while Chain.RemoveBlock reloads the emptied cache
// LastBlock() returns nil. One slow reader keeps the re-entrant read lock (above) unlikely on a tree that still has it.
func TestRegressNilTipWhileCacheRefills(t *testing.T) {
	w := &Workload{Kind: "chain", Procs: 4, Seed: 25, Budget: 240, Chain: &ChainW{
		Cache: 4, Stable: 24, TxPer: 1, WriterOps: 240, MaxDepth: 12, MaxChurn: 16, KeepCached: false, StableFrom: true, MinReader: 400,
		Readers: []ReaderW{{Ops: allOps("LastBlock", "GetLastBlock"), Bulk: 8, Yield: 2}, {Ops: allOps("GetBlockHeader", "GetBlockByHeight"), Bulk: 8, Yield: 1}},
	}}
	regress(t, "nil-tip-while-cache-refills", w, func(o *outcome) bool { return o.res != nil && o.res.Counters["writer:cache-emptied"] >= 3 })
}

// getBlocksFromId for the newest block while the writer removes/adds it: the handler reads the requested header and the
// tip separately; when the tip is below the requested block the range length underflows.
func TestRegressBlocksFromIDOfMovingTip(t *testing.T) {
	if isKnown(sigUnderflow) {
		// One hit on a tree without the repair asks the allocator for 32 GiB (observed: ~50 GB resident in the child, minutes
		// of shadow-memory work under -race). On a shared machine the trigger is therefore not pulled while the finding is
		// listed as known; the case runs as soon as the entry is flipped to "fixed" (or with VERIF_C20_ASSUME_FIXED=1).
		evid.R.Excluded(1)
		evid.R.Note("TestRegressBlocksFromIDOfMovingTip not executed while C20-F10 is listed as known (each hit allocates 32 GiB); observed twice by hand on the unrepaired tree, see notes/C20.md")
		t.Skip("C20-F10 known: trigger not pulled")
	}
	rd := ReaderW{Ops: allOps("rpcBlocksFromID"), Bulk: 8, Newest: true}
	w := &Workload{Kind: "chain", Procs: 8, Seed: 26, Budget: 240, Chain: &ChainW{
		Cache: 8, Stable: 24, TxPer: 1, WriterOps: 300, MaxDepth: 2, MaxChurn: 8, KeepCached: true, StableFrom: false, MinReader: 2000,
		Readers: []ReaderW{rd, rd},
	}}
	regress(t, "blocks-from-id-of-moving-tip", w, func(o *outcome) bool { return o.res != nil && o.res.Counters["op:rpcBlocksFromID"] >= 2000 })
}

// Fixed case of workload (g) (never a defect of the pinned revision; fixed parameters so that every tier runs one case with
// every reader parked inside its store read and every other goroutine chasing it): a Set/Del that returned is staged -
// a Get of the same key that was reading the store meanwhile must not put the old stored value back.
func TestRegressStagedWriteSurvivesConcurrentGet(t *testing.T) {
	w := &Workload{Kind: "lin", Procs: 4, Seed: 29, Budget: 240, Lin: &LinW{
		Workers: 4, Views: 3, UseRoot: true, Modules: 1, Keys: 6, BaseQ: 4, Rounds: 40, Ops: 20,
		Weights: []int{4, 2, 3, 2, 1, 1}, ParkUs: 300, ParkEvery: 1, Chase: 3, Yield: 1,
	}}
	regress(t, "staged-write-survives-concurrent-get", w, func(o *outcome) bool { return linNontrivial(w, o) })
}

// The same under the single-writer discipline (read-your-writes and last-write-committed need no search).
func TestRegressStagedWriteSurvivesConcurrentGetSingleWriter(t *testing.T) {
	w := &Workload{Kind: "lin", Procs: 8, Seed: 30, Budget: 240, Lin: &LinW{
		Workers: 6, Views: 4, UseRoot: false, Modules: 2, Keys: 4, BaseQ: 3, Rounds: 40, Ops: 20,
		Weights: []int{4, 2, 3, 2, 1, 1}, Owner: true, ParkUs: 200, ParkEvery: 1, Chase: 4, Yield: 0,
	}}
	regress(t, "staged-write-survives-concurrent-get-single-writer", w, func(o *outcome) bool { return linNontrivial(w, o) })
}

// The register checker of workload (g) on histories whose verdict is known (a checker that accepts everything would make
// the oracle void, one that rejects a legal overlap would raise false alarms).
func TestRegressLinearizabilityCheckerSelfTest(t *testing.T) {
	W := func(call, ret int64, state int32) regOp {
		return regOp{call: call, ret: ret, write: true, state: state}
	}
	R := func(call, ret int64, state int32) regOp { return regOp{call: call, ret: ret, state: state} }
	cases := []struct {
		name string
		init int32
		ops  []regOp
		want bool
	}{
		{"empty", 1, nil, true},
		{"read of the initial value", 1, []regOp{R(1, 2, 1)}, true},
		{"lost write: Set returned, later read sees the old value", 1, []regOp{W(1, 2, 2), R(3, 4, 1)}, false},
		{"lost write seen only at the end", 1, []regOp{R(1, 6, 1), W(2, 3, 2), R(7, 8, 1)}, false},
		{"the seeded interleaving when it is legal: read overlaps the write and sees old, later reads see new", 1, []regOp{R(1, 6, 1), W(2, 3, 2), R(7, 8, 2)}, true},
		{"revived delete", 1, []regOp{R(1, 6, 1), W(2, 3, 0), R(7, 8, 1)}, false},
		{"overlapping read may see old", 1, []regOp{W(1, 4, 2), R(2, 3, 1)}, true},
		{"overlapping read may see new", 1, []regOp{W(1, 4, 2), R(2, 3, 2)}, true},
		{"new then old during one write", 1, []regOp{W(1, 10, 2), R(2, 3, 2), R(4, 5, 1)}, false},
		{"old then new during one write", 1, []regOp{W(1, 10, 2), R(2, 3, 1), R(4, 5, 2)}, true},
		{"two overlapping writes, either may win", 0, []regOp{W(1, 4, 1), W(2, 5, 2), R(6, 7, 1)}, true},
		{"two overlapping writes, either may win (other)", 0, []regOp{W(1, 4, 1), W(2, 5, 2), R(6, 7, 2)}, true},
		{"two ordered writes, first cannot win", 0, []regOp{W(1, 2, 1), W(3, 4, 2), R(5, 6, 1)}, false},
		{"readers disagree on the order of two writes", 0, []regOp{W(1, 20, 1), W(2, 21, 2), R(3, 4, 1), R(5, 6, 2), R(7, 8, 1)}, false},
		{"Has sees presence only", 0, []regOp{W(1, 2, 5), R(3, 4, -1), W(5, 6, 0), R(7, 8, 0)}, true},
		{"Has after a returned delete", 1, []regOp{W(1, 2, 0), R(3, 4, -1)}, false},
		{"read from the future", 0, []regOp{R(1, 2, 1), W(3, 4, 1)}, false},
		{"absent read needs the delete ordered between two sets", 0, []regOp{W(1, 2, 1), W(3, 8, 0), W(4, 9, 2), R(10, 11, 0)}, true},
		{"absent read after set that followed the delete", 0, []regOp{W(1, 2, 1), W(3, 4, 0), W(5, 6, 2), R(7, 8, 0)}, false},
	}
	for _, c := range cases {
		got, _, _, exhausted := checkRegister(c.ops, c.init, 1_000_000)
		if exhausted || got != c.want {
			t.Errorf("checkRegister(%s) = %v (exhausted %v), want %v", c.name, got, exhausted, c.want)
		}
	}
	// a wide history: 8 overlapping writers, then readers that all agree - and one that does not
	var ops []regOp
	for i := int64(0); i < 8; i++ {
		ops = append(ops, W(1+i, 100+i, int32(i+1)))
	}
	for i := int64(0); i < 40; i++ {
		ops = append(ops, R(200+2*i, 201+2*i, 5))
	}
	if ok, _, _, _ := checkRegister(ops, 0, 1_000_000); !ok {
		t.Errorf("8 overlapping writes followed by agreeing reads must be linearizable")
	}
	ops = append(ops, R(400, 401, 6))
	if ok, _, _, _ := checkRegister(ops, 0, 1_000_000); ok {
		t.Errorf("a read of another writer's value after 40 agreeing reads must not be linearizable")
	}
	evid.R.Label("lin:checker-selftest-histories", int64(len(cases)+2))
}
