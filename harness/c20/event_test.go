package c20

// Workload (c): event.EventEmitter with live subscribers.
//
// Publishers publish numbered messages on a few topics. Managers subscribe, start a drainer goroutine that receives until
// its channel is closed (a live subscriber never stops draining), and later unsubscribe from ANOTHER goroutine than the
// drainer. A logical clock (one atomic counter) gives sound "happened before" facts:
//   * a message whose Publish call started after Subscribe returned and returned before Unsubscribe was called must be
//     delivered to that subscription exactly once;
//   * nothing is delivered twice, nothing of another topic, nothing whose Publish call returned before Subscribe was
//     called or started after Unsubscribe returned;
//   * messages of one publisher arrive in publishing order.
// The run ends with Close(); every drainer must then see its channel closed. A panic (send on closed channel) or a fatal
// error (concurrent map access) ends the child and is reported by the parent.

import (
	"fmt"
	"sync"
	"sync/atomic"

	"github.com/LiskHQ/lisk-engine/pkg/event"
)

type EventW struct {
	Topics     int `json:"topics"`
	Publishers int `json:"publishers"`
	Messages   int `json:"messages"` // per publisher
	Managers   int `json:"managers"`
	Subs       int `json:"subs"`      // subscriptions per manager (sequentially: subscribe ... unsubscribe)
	Hold       int `json:"hold"`      // a manager keeps a subscription until the clock advanced by up to this much
	KeepOpen   int `json:"keep_open"` // of the last subscriptions of each manager, this many are left to Close()
	UnsubAll   int `json:"unsub_all"` // number of UnsubscribeAll calls spread over the run by manager 0
	Yield      int `json:"yield"`
	DrainYield int `json:"drain_yield"`
}

type evMsg struct {
	pub, seq, topic int
}

type pubRec struct {
	start, end int64
}

type subRec struct {
	topic               int
	ch                  chan interface{}
	preSub, postSub     int64
	preUnsub, postUnsub int64 // 0 = never unsubscribed explicitly (closed by UnsubscribeAll / Close)
	got                 []evMsg
}

type unsubAllRec struct {
	topic int
	post  int64
}

func runEvent(r *run) {
	w := r.w.Event
	ee := event.New()
	var clock atomic.Int64
	topic := func(i int) string { return fmt.Sprintf("topic-%d", i) }
	recs := make([][]pubRec, w.Publishers) // [publisher][seq]
	pubTopic := make([][]int, w.Publishers)
	var subsMu sync.Mutex
	var subs []*subRec
	var unsubAlls []unsubAllRec
	var drainers sync.WaitGroup
	var wg sync.WaitGroup
	start := make(chan struct{})
	var pubsDone atomic.Int64

	for pi := 0; pi < w.Publishers; pi++ {
		pi := pi
		recs[pi] = make([]pubRec, w.Messages)
		pubTopic[pi] = make([]int, w.Messages)
		prog, done := r.worker(fmt.Sprintf("publisher%d", pi))
		wg.Add(1)
		go func() {
			defer wg.Done()
			defer done.Store(true)
			defer pubsDone.Add(1)
			p := newPRNG(r.w.Seed, pi)
			<-start
			for s := 0; s < w.Messages; s++ {
				t := p.intn(w.Topics)
				pubTopic[pi][s] = t
				recs[pi][s].start = clock.Add(1)
				ee.Publish(topic(t), evMsg{pi, s, t})
				recs[pi][s].end = clock.Add(1)
				r.count("op:Publish", 1)
				prog.Add(1)
				p.yield(w.Yield)
			}
		}()
	}
	for mi := 0; mi < w.Managers; mi++ {
		mi := mi
		prog, done := r.worker(fmt.Sprintf("manager%d", mi))
		wg.Add(1)
		go func() {
			defer wg.Done()
			defer done.Store(true)
			p := newPRNG(r.w.Seed, 1000+mi)
			<-start
			unsubAllLeft := 0
			if mi == 0 {
				unsubAllLeft = w.UnsubAll
			}
			for s := 0; s < w.Subs; s++ {
				sr := &subRec{topic: p.intn(w.Topics)}
				sr.preSub = clock.Add(1)
				ch := ee.Subscribe(topic(sr.topic))
				sr.ch = ch
				sr.postSub = clock.Add(1)
				r.count("op:Subscribe", 1)
				subsMu.Lock()
				subs = append(subs, sr)
				subsMu.Unlock()
				dy := newPRNG(r.w.Seed, 5000+mi*1000+s)
				drainers.Add(1)
				go func() {
					defer drainers.Done()
					for m := range ch {
						sr.got = append(sr.got, m.(evMsg))
						dy.yield(w.DrainYield)
					}
				}()
				// hold the subscription for a while (in logical time, bounded by the publishers finishing)
				target := clock.Load() + int64(p.intn(w.Hold+1))
				for clock.Load() < target && pubsDone.Load() < int64(w.Publishers) {
					p.yield(2)
				}
				if unsubAllLeft > 0 && p.intn(3) == 0 {
					unsubAllLeft--
					t := p.intn(w.Topics)
					_ = ee.UnsubscribeAll(topic(t))
					ua := unsubAllRec{t, clock.Add(1)}
					subsMu.Lock()
					unsubAlls = append(unsubAlls, ua)
					subsMu.Unlock()
					r.count("op:UnsubscribeAll", 1)
				}
				if s >= w.Subs-w.KeepOpen {
					prog.Add(1)
					continue // left open: Close() ends it
				}
				sr.preUnsub = clock.Add(1)
				_ = ee.Unsubscribe(topic(sr.topic), ch)
				sr.postUnsub = clock.Add(1)
				r.count("op:Unsubscribe", 1)
				prog.Add(1)
			}
		}()
	}
	close(start)
	r.watch()
	wg.Wait()
	closeAt := clock.Add(1)
	if err := ee.Close(); err != nil {
		r.fail("error:Close", "%v", err)
	}
	r.count("op:Close", 1)
	// after Close nothing is subscribed: a publish must return
	pd := make(chan struct{})
	go func() { ee.Publish(topic(0), evMsg{-1, -1, 0}); close(pd) }()
	<-pd
	// Close() has returned: every subscribed channel must be closed by now. A closed channel is always ready to receive,
	// so a receive that would block proves the channel was left open (the publishers are done, nothing else can arrive).
	open := 0
	for si, sr := range subs {
		select {
		case m, ok := <-sr.ch:
			if ok {
				r.fail("foreign-item:event", "subscription %d: message %v still in flight after all publishers and Close() returned", si, m)
			}
		default:
			open++
			r.fail("not-closed:subscriber", "subscription %d (topic %d): channel still open after Close() returned", si, sr.topic)
		}
	}
	if open > 0 {
		return // the drainers of the open channels never end
	}
	drainers.Wait()

	// ---- evaluation (single-threaded, everything has finished) ----
	delivered := int64(0)
	for si, sr := range subs {
		seen := map[[2]int]int{}
		lastSeq := map[int]int{}
		for _, m := range sr.got {
			delivered++
			if m.pub < 0 {
				r.fail("foreign-item:event", "subscription %d received a message published after Close()", si)
				continue
			}
			seen[[2]int{m.pub, m.seq}]++
			if m.topic != sr.topic {
				r.fail("foreign-item:event", "subscription %d on topic %d received a message of topic %d", si, sr.topic, m.topic)
			}
			if ls, ok := lastSeq[m.pub]; ok && m.seq <= ls {
				r.fail("order:event", "subscription %d: publisher %d message %d after %d", si, m.pub, m.seq, ls)
			}
			lastSeq[m.pub] = m.seq
			pr := recs[m.pub][m.seq]
			if pr.end < sr.preSub {
				r.fail("foreign-item:event", "subscription %d received a message whose Publish returned before Subscribe was called", si)
			}
			if sr.postUnsub != 0 && pr.start > sr.postUnsub {
				r.fail("foreign-item:event", "subscription %d received a message published after Unsubscribe returned", si)
			}
		}
		for k, n := range seen {
			if n > 1 {
				r.fail("dup-item:event", "subscription %d received message %v %d times", si, k, n)
			}
		}
		hitByAll := false
		for _, ua := range unsubAlls {
			if ua.topic == sr.topic && ua.post > sr.preSub {
				hitByAll = true // may have been closed at an unknown time by UnsubscribeAll: no completeness claim
			}
		}
		if hitByAll {
			continue
		}
		end := sr.preUnsub
		if end == 0 {
			end = closeAt
		}
		for pi := range recs {
			for s, pr := range recs[pi] {
				if pubTopic[pi][s] == sr.topic && pr.start > sr.postSub && pr.end < end && pr.end != 0 {
					if seen[[2]int{pi, s}] != 1 {
						r.fail("lost-item:event", "subscription %d (topic %d, subscribed at %d, unsubscribed at %d) did not receive message %d of publisher %d published in [%d,%d]",
							si, sr.topic, sr.postSub, end, s, pi, pr.start, pr.end)
					}
				}
			}
		}
	}
	r.count("delivered", delivered)
	r.count("subscriptions", int64(len(subs)))
}
