package c20

// "Published means committed" oracles of the Executer workload (a): what a reader may rely on when LastBlock /
// GetLastBlock / the getLastBlock handler hand it a tip, and what a live subscriber may rely on when EventBlockNew /
// EventBlockDelete reach it. The reasoning (and the strict / relaxed branches) is the one of tip_test.go:
//
//   - the writer sets binfo.remStarted BEFORE it asks the Executer to delete a block and IDs are not reused (a rebuilt
//     identical block is flagged "readded" and exempt), so "remStarted still false after my lookups" proves that the
//     block was on the chain during all of them;
//   - Executer.processValidated publishes EventBlockNew after Chain.AddBlock has returned (batch written, block cached)
//     and deleteBlock publishes EventBlockDelete after Chain.RemoveBlock has returned.

import (
	"bytes"
	"fmt"
	"sync"
	"time"

	"github.com/LiskHQ/lisk-engine/pkg/blockchain"
	cbytes "github.com/LiskHQ/lisk-engine/pkg/collection/bytes"
	"github.com/LiskHQ/lisk-engine/pkg/consensus"
)

// checkCommitted: the tip b was just obtained through api; everything it promises must be readable.
func (e *chainEnv) checkCommitted(api string, b *blockchain.Block, p *prng) {
	if b == nil {
		return // checkTip reports it
	}
	bi := e.lookup(b.Header.ID)
	if bi == nil {
		return // checkTip reports it
	}
	h := bi.height
	type problem struct {
		check, text string
		missing     bool
	}
	var problems []problem
	bad := func(check string, missing bool, format string, a ...any) {
		problems = append(problems, problem{check, fmt.Sprintf(format, a...), missing})
	}
	checks := []func(){
		func() {
			for i, id := range bi.txIDs {
				tx, err := e.da.GetTransaction(id)
				if err != nil {
					bad("GetTransaction", notFound(err), "GetTransaction(%x) (transaction %d of %d of the tip): %v", id[:6], i, len(bi.txIDs), err)
					return
				}
				if !bytes.Equal(tx.Encode(), bi.txEnc[i]) {
					bad("GetTransaction", false, "GetTransaction(%x) returned a different transaction", id[:6])
					return
				}
			}
		},
		func() {
			if len(bi.evEnc) == 0 {
				return // a block without events has no record
			}
			evs, err := e.da.GetEvents(h)
			if err != nil {
				bad("GetEvents", notFound(err), "GetEvents(%d): %v (the block emitted %d events)", h, err, len(bi.evEnc))
				return
			}
			same := len(evs) == len(bi.evEnc)
			for i := 0; same && i < len(evs); i++ {
				same = bytes.Equal(evs[i].Encode(), bi.evEnc[i])
			}
			if !same {
				bad("GetEvents", false, "GetEvents(%d) returned %d events which are not the %d events of the tip", h, len(evs), len(bi.evEnc))
			}
		},
		func() {
			endBefore := e.remEnd.Load()
			hd, err := e.da.GetLastBlockHeader()
			if err != nil {
				if e.remBegin.Load() > endBefore {
					e.r.count("GetLastBlockHeader:error-during-removal(allowed)", 1)
					return
				}
				bad("GetLastBlockHeader", notFound(err), "GetLastBlockHeader(): %v although no removal overlapped the call", err)
				return
			}
			if hd.Height < h {
				bad("GetLastBlockHeader", true, "the persisted chain ends at height %d (height index of the database), below the tip", hd.Height)
			} else if hd.Height > h {
				e.r.count("db-ahead-of-tip(allowed)", 1)
			}
		},
		func() {
			if e.w.Finality {
				return // finalization prunes the state diffs below the precommitted height
			}
			if !e.n.DB.Exist(cbytes.Join(blockchain.DBPrefixToBytes(blockchain.DBPrefixStateDiff), cbytes.FromUint32(h))) {
				bad("state-diff", true, "the state diff of height %d, written in the same batch as the block, is not in the database", h)
			}
		},
		func() {
			hd, err := e.da.GetBlockHeaderByHeight(h)
			if err != nil {
				bad("GetBlockHeaderByHeight", notFound(err), "GetBlockHeaderByHeight(%d): %v", h, err)
			} else if !bytes.Equal(hd.ID, bi.id) {
				bad("GetBlockHeaderByHeight", false, "GetBlockHeaderByHeight(%d) returned %x, not the tip", h, []byte(hd.ID[:6]))
			}
		},
		func() {
			blk, err := e.da.GetBlock(bi.id)
			if err != nil {
				bad("GetBlock", notFound(err), "GetBlock(tip id): %v", err)
			} else if !bytes.Equal(blk.Encode(), bi.enc) {
				bad("GetBlock", false, "GetBlock(tip id) returned another block")
			}
		},
	}
	// random order, 1..all lookups, a database-only lookup first (indices 0..3 are answered by the database alone)
	order := []int{0, 1, 2, 3, 4, 5}
	for i := len(order) - 1; i > 0; i-- {
		j := p.intn(i + 1)
		order[i], order[j] = order[j], order[i]
	}
	for i, c := range order {
		if c <= 3 {
			order[0], order[i] = order[i], order[0]
			break
		}
	}
	for _, c := range order[:1+p.intn(len(order))] {
		checks[c]()
	}
	removing := bi.remStarted.Load() // read AFTER the lookups
	e.r.count("tip-observations", 1)
	if !removing {
		for _, pr := range problems {
			sig := "uncommitted-tip:" + pr.check
			if !pr.missing {
				sig = "wrong-item:tip:" + pr.check
			}
			e.r.fail(sig, "%s returned the block %x at height %d as tip; %s. No removal of that block had begun when the lookup ended, so the tip was published (block cache) without being committed (database)",
				api, bi.id, h, pr.text)
		}
		return
	}
	e.r.count("tip-removed-meanwhile(allowed)", 1)
	if e.w.NoRemoveOrd {
		return
	}
	for _, pr := range problems {
		if !pr.missing || pr.check == "GetBlockHeaderByHeight" || pr.check == "GetBlock" {
			continue
		}
		// the database has lost the tip's data: LastBlock() must not answer that block any more
		if again := e.n.Chain.LastBlock(); again != nil && bytes.Equal(again.Header.ID, bi.id) && !bi.readded.Load() {
			e.r.fail(sigDeletedTip, "%s returned the block %x at height %d as tip, then the database did not have its data any more (%s), and after that LastBlock() STILL returned the same block: RemoveBlock deletes the block from the database before it takes it out of the block cache",
				api, bi.id, h, pr.text)
		}
		break
	}
}

// startSubscribers starts live subscribers of EventBlockNew and EventBlockDelete (the production Subscribe API:
// unbuffered channels, Publish blocks until the subscriber has taken the message).
func (e *chainEnv) startSubscribers(wg *sync.WaitGroup, start chan struct{}) {
	for i := 0; i < e.w.Subscribers; i++ {
		prog, done := e.r.worker(fmt.Sprintf("subscriber%d", i))
		chNew := e.n.Exec.Subscribe(consensus.EventBlockNew)
		chDel := e.n.Exec.Subscribe(consensus.EventBlockDelete)
		wg.Add(1)
		go func() {
			defer wg.Done()
			defer done.Store(true)
			<-start
			idle := time.NewTimer(time.Hour)
			defer idle.Stop()
			for {
				idle.Reset(20 * time.Millisecond)
				select {
				case m, ok := <-chNew:
					if !ok {
						return
					}
					if msg, ok := m.(*consensus.EventBlockNewMessage); ok {
						e.onBlockNew(msg)
					}
					prog.Add(1)
				case m, ok := <-chDel:
					if !ok {
						return
					}
					if msg, ok := m.(*consensus.EventBlockDeleteMessage); ok {
						e.onBlockDelete(msg)
					}
					prog.Add(1)
				case <-idle.C:
					if e.writerDone.Load() || e.r.finished.Load() {
						return
					}
				}
			}
		}()
	}
}

// onBlockNew: a subscriber that is told about a new block must find it committed and on the chain.
func (e *chainEnv) onBlockNew(msg *consensus.EventBlockNewMessage) {
	e.r.count("event:EventBlockNew", 1)
	b := msg.Block
	bi := e.lookup(b.Header.ID)
	if bi == nil {
		e.r.fail("foreign-item:EventBlockNew", "EventBlockNew for block %x at height %d which the writer never built", []byte(b.Header.ID), b.Header.Height)
		return
	}
	h := bi.height
	var problems []string
	for i, id := range bi.txIDs {
		if tx, err := e.da.GetTransaction(id); err != nil || !bytes.Equal(tx.Encode(), bi.txEnc[i]) {
			problems = append(problems, fmt.Sprintf("GetTransaction|GetTransaction(%x) of the announced block: err=%v", id[:6], err))
			break
		}
	}
	if len(msg.Events) > 0 {
		evs, err := e.da.GetEvents(h)
		same := err == nil && len(evs) == len(msg.Events)
		for i := 0; same && i < len(evs); i++ {
			same = bytes.Equal(evs[i].Encode(), msg.Events[i].Encode())
		}
		if !same {
			problems = append(problems, fmt.Sprintf("GetEvents|GetEvents(%d) does not return the %d events announced with the block (err=%v, %d events)", h, len(msg.Events), err, len(evs)))
		}
	}
	if hd, err := e.da.GetBlockHeaderByHeight(h); err != nil || !bytes.Equal(hd.ID, bi.id) {
		problems = append(problems, fmt.Sprintf("GetBlockHeaderByHeight|GetBlockHeaderByHeight(%d) does not return the announced block (err=%v)", h, err))
	}
	if tip := e.n.Chain.LastBlock(); tip == nil || tip.Header.Height < h {
		problems = append(problems, fmt.Sprintf("LastBlock|LastBlock() is below the announced block at height %d", h))
	}
	endBefore := e.remEnd.Load()
	if hd, err := e.da.GetLastBlockHeader(); err != nil {
		if e.remBegin.Load() <= endBefore {
			problems = append(problems, fmt.Sprintf("GetLastBlockHeader|GetLastBlockHeader(): %v", err))
		}
	} else if hd.Height < h {
		problems = append(problems, fmt.Sprintf("GetLastBlockHeader|the persisted chain ends at height %d, below the announced block at height %d", hd.Height, h))
	}
	if bi.remStarted.Load() { // read AFTER the lookups: the block may legally be gone again
		e.r.count("event:block-removed-meanwhile(allowed)", 1)
		return
	}
	for _, pr := range problems {
		i := bytes.IndexByte([]byte(pr), '|')
		e.r.fail("event-before-commit:EventBlockNew:"+pr[:i], "a subscriber received EventBlockNew for block %x at height %d, no removal of it had begun, but %s", bi.id, h, pr[i+1:])
	}
}

// onBlockDelete: a subscriber that is told about a deleted block must not find it as the tip or in the database any more.
func (e *chainEnv) onBlockDelete(msg *consensus.EventBlockDeleteMessage) {
	e.r.count("event:EventBlockDelete", 1)
	bi := e.lookup(msg.Block.Header.ID)
	if bi == nil {
		e.r.fail("foreign-item:EventBlockDelete", "EventBlockDelete for block %x which the writer never built", []byte(msg.Block.Header.ID))
		return
	}
	var problems []string
	if tip := e.n.Chain.LastBlock(); tip != nil && bytes.Equal(tip.Header.ID, bi.id) {
		problems = append(problems, "LastBlock|LastBlock() still returns it")
	}
	if _, err := e.da.GetBlockHeader(bi.id); err == nil {
		problems = append(problems, "GetBlockHeader|GetBlockHeader(id) still finds it")
	}
	if len(bi.txIDs) > 0 {
		if _, err := e.da.GetTransaction(bi.txIDs[0]); err == nil {
			problems = append(problems, "GetTransaction|GetTransaction still finds its first transaction (the writer never puts a transaction into two blocks)")
		}
	}
	if bi.readded.Load() { // read AFTER the lookups
		return
	}
	for _, pr := range problems {
		i := bytes.IndexByte([]byte(pr), '|')
		e.r.fail("event-before-removal:EventBlockDelete:"+pr[:i], "a subscriber received EventBlockDelete for block %x at height %d, but %s", bi.id, bi.height, pr[i+1:])
	}
}
