package c20

// Workload (e) [thorough]: block synchronisation on a node with >= 3 responding peers (real p2p connections on loopback)
// while reader goroutines use the chain and ask Executer.Syncing() as the generator and the system endpoint do.
// blockSyncer.Sync polls every connected peer for its last block from one goroutine per peer.
// Oracles: race reports; readers' stable lookups (heights up to the requester's finalized height are never touched by a
// sync; the search for the common block samples round boundaries only, so anything above may be deleted and re-applied); the tip oracle of workload (a) does not apply (the peers build the blocks), instead every tip must
// be a block of the requester's own fork or of the peers' chain.

import (
	"bytes"
	"context"
	"fmt"
	"sync"
	"sync/atomic"
	"time"

	"github.com/LiskHQ/lisk-engine/pkg/blockchain"
	"github.com/LiskHQ/lisk-engine/pkg/p2p"

	"verifharness/node"
)

type SyncW struct {
	Peers   int  `json:"peers"`  // >= 3
	Prefix  int  `json:"prefix"` // shared blocks
	ForkR   int  `json:"fork_r"` // requester's own blocks on top
	Ahead   int  `json:"ahead"`  // peers' blocks beyond two rounds
	Rounds  int  `json:"rounds"` // syncs in a row (the peers grow their chain in between)
	Readers int  `json:"readers"`
	IPBase  int  `json:"ip_base"`
	UseLast bool `json:"use_last"` // readers call LastBlock (off while the re-entrant read lock is a known finding)
	UseBulk bool `json:"use_bulk"` // readers call GetBlockHeadersByHeights (off while the append race is a known finding)
	Yield   int  `json:"yield"`
}

func connectNodes(a, b *node.Node) error {
	addrs, err := b.Conn.MultiAddress()
	if err != nil || len(addrs) == 0 {
		return fmt.Errorf("multiaddress: %v", err)
	}
	info, err := p2p.AddrInfoFromMultiAddr(addrs[0])
	if err != nil {
		return err
	}
	ctx, cancel := context.WithTimeout(context.Background(), 20*time.Second)
	defer cancel()
	return a.Conn.Connect(ctx, *info)
}

func runSync(r *run) {
	w := r.w.Sync
	const nVal = 4
	addr := func(i int) string { return fmt.Sprintf("/ip4/127.0.0.%d/tcp/0", 2+(w.IPBase+i)%250) }
	R, err := node.New(node.Config{Genesis: node.EqualGenesis(nVal), BatchSize: nVal, ListenAddr: addr(0)})
	if err != nil {
		r.fail("harness", "node R: %v", err)
		return
	}
	var peers []*node.Node
	for i := 0; i < w.Peers; i++ {
		P, err := node.New(node.Config{Genesis: node.EqualGenesis(nVal), BatchSize: nVal, GenesisTS: R.Cfg.GenesisTS, ListenAddr: addr(1 + i)})
		if err != nil {
			r.fail("harness", "peer %d: %v", i, err)
			return
		}
		peers = append(peers, P)
	}
	var known sync.Map // ids of every block of any node
	known.Store(string(R.Genesis.Header.ID), true)
	grow := func(k int, salt uint32) error {
		for i := 0; i < k; i++ {
			b, err := peers[0].Apply(node.Spec{Script: node.Script{Salt: salt + uint32(i%5)}})
			if err != nil {
				return err
			}
			known.Store(string(b.Header.ID), true)
			for _, P := range peers[1:] {
				if err := P.Exec.VerifProcess(node.CloneBlock(b), "x"); err != nil {
					return err
				}
			}
		}
		return nil
	}
	if err := grow(w.Prefix, 0); err != nil {
		r.fail("harness", "prefix: %v", err)
		return
	}
	var stable [][]byte // header encodings of the shared prefix
	stable = append(stable, R.Genesis.Header.Encode())
	for h := uint32(1); h <= uint32(w.Prefix); h++ {
		b, err := peers[0].Chain.DataAccess().GetBlockByHeight(h)
		if err != nil {
			r.fail("harness", "prefix read: %v", err)
			return
		}
		if err := R.Exec.VerifProcess(node.CloneBlock(b), "x"); err != nil {
			r.fail("harness", "R prefix: %v", err)
			return
		}
		stable = append(stable, b.Header.Encode())
	}
	for i := 0; i < w.ForkR; i++ {
		b, err := R.Apply(node.Spec{SlotGap: 2, Script: node.Script{Salt: 50 + uint32(i)}})
		if err != nil {
			r.fail("harness", "R fork: %v", err)
			return
		}
		known.Store(string(b.Header.ID), true)
	}
	for i, P := range peers {
		if err := connectNodes(R, P); err != nil {
			r.fail("harness", "connect peer %d: %v", i, err)
			return
		}
	}
	// Block sync looks for the common block at round boundaries only and may delete far below the fork point; what it can
	// never delete is the finalized part of the chain.
	stableTop := R.Finalized()
	var syncsDone atomic.Bool
	var wg sync.WaitGroup
	sprog, sdone := r.worker("syncer")
	start := make(chan struct{})
	wg.Add(1)
	go func() {
		defer wg.Done()
		defer sdone.Store(true)
		defer syncsDone.Store(true)
		<-start
		for round := 0; round < w.Rounds; round++ {
			if err := grow(2*nVal+1+w.Ahead, 80+uint32(round)*7); err != nil {
				r.fail("harness", "peers grow: %v", err)
				return
			}
			ptip := peers[0].Tip()
			errCh := make(chan error, 1)
			go func() { errCh <- R.Exec.VerifProcess(node.CloneBlock(ptip), peers[0].Conn.ID()) }()
			select {
			case err := <-errCh:
				if err != nil {
					r.count("sync:error", 1)
					r.note("sync round %d ended with %v (convergence is C19's subject)", round, err)
				}
			case <-time.After(90 * time.Second):
				r.note("sync round %d did not finish within 90 s", round)
				r.mu.Lock()
				r.res.Budget = true
				r.mu.Unlock()
				return
			}
			if bytes.Equal(R.Tip().Header.ID, ptip.Header.ID) {
				r.count("sync:converged", 1)
			} else {
				r.count("sync:not-converged", 1)
			}
			r.count("sync:rounds", 1)
			R.TakeEvents()
			sprog.Add(1)
		}
	}()
	da := R.Chain.DataAccess()
	for i := 0; i < w.Readers; i++ {
		i := i
		prog, done := r.worker(fmt.Sprintf("reader%d", i))
		wg.Add(1)
		go func() {
			defer wg.Done()
			defer done.Store(true)
			p := newPRNG(r.w.Seed, 10+i)
			<-start
			for !syncsDone.Load() && !r.finished.Load() {
				switch p.intn(5) {
				case 0:
					_ = R.Exec.Syncing()
					r.count("op:Syncing", 1)
				case 1:
					if !w.UseLast {
						continue
					}
					b := R.Chain.LastBlock()
					if b == nil {
						r.fail(sigNilTip, "LastBlock() returned nil during block sync")
					} else if _, ok := known.Load(string(b.Header.ID)); !ok {
						r.fail("incomplete-tip:LastBlock", "tip %x (height %d) during sync is neither a block of the node's fork nor of the peers' chain", b.Header.ID, b.Header.Height)
					}
					r.count("op:LastBlock", 1)
				case 2:
					h := uint32(p.intn(int(stableTop) + 1))
					hd, err := da.GetBlockHeaderByHeight(h)
					if err != nil || !bytes.Equal(hd.Encode(), stable[h]) {
						r.fail("lost-item:GetBlockHeaderByHeight", "shared-prefix height %d during sync: %v", h, err)
					}
					r.count("op:GetBlockHeaderByHeight", 1)
				case 3:
					if !w.UseBulk {
						continue
					}
					k := 1 + p.intn(int(stableTop)+1)
					var hs []uint32
					for x := 0; x < k; x++ {
						hs = append(hs, (uint32(p.intn(int(stableTop)+1))+uint32(x))%(stableTop+1))
					}
					uniq := map[uint32]bool{}
					var req []uint32
					for _, h := range hs {
						if !uniq[h] {
							uniq[h] = true
							req = append(req, h)
						}
					}
					hds, err := da.GetBlockHeadersByHeights(req)
					if err != nil {
						r.fail("error:GetBlockHeadersByHeights", "%v", err)
						continue
					}
					got := map[uint32]int{}
					for _, hd := range hds {
						got[hd.Height]++
					}
					for _, h := range req {
						if got[h] != 1 {
							r.fail(sigLostByHeights, "GetBlockHeadersByHeights over %d shared-prefix heights during sync: height %d returned %d times", len(req), h, got[h])
							break
						}
					}
					r.count("op:GetBlockHeadersByHeights", 1)
					r.count("bulk-lookups", 1)
				default:
					from := uint32(p.intn(int(stableTop) + 1))
					blocks, err := da.GetBlocksBetweenHeight(from, stableTop)
					if err != nil || len(blocks) != int(stableTop-from+1) {
						r.fail("lost-item:GetBlocksBetweenHeight", "shared prefix %d..%d during sync: %d blocks, %v", from, stableTop, len(blocks), err)
					} else {
						for x, b := range blocks {
							if !bytes.Equal(b.Header.Encode(), stable[from+uint32(x)]) {
								r.fail("wrong-item:GetBlocksBetweenHeight", "shared-prefix height %d differs during sync", from+uint32(x))
								break
							}
						}
					}
					r.count("op:GetBlocksBetweenHeight", 1)
					r.count("bulk-lookups", 1)
				}
				prog.Add(1)
				p.yield(w.Yield)
			}
		}()
	}
	close(start)
	r.watch()
	wg.Wait()
	_ = blockchain.IDLength
}
