package c20

// Workload (f) "tip": a published tip is a committed tip.
//
// One writer adds and removes blocks on a real blockchain.Chain over a real pebble database (in-memory file system, the
// WAL sync can be given the latency of a disk) while N readers take the tip (LastBlock / GetLastBlock) and immediately
// look up everything that tip promises through DataAccess: each transaction by ID (single and bulk), the events of its
// height, header and block by ID and by height, the range below it, the persisted last header (GetLastBlockHeader reads
// the height index of the database, not the cache) and a key the writer puts into the same batch (the Executer puts the
// state diff there). The race detector sees nothing wrong with "cache first, database afterwards": every access is
// locked. Only these functional oracles do.
//
// What the unchanged engine guarantees (derived from Chain.AddBlock / Chain.RemoveBlock, see notes/C20.md):
//   - AddBlock writes the batch, then pushes the block into the cache. A reader may therefore see the OLD tip while the
//     new block already is in the database (allowed, counted as "db-ahead-of-tip(allowed)"), never the new tip without
//     its data.
//   - The writer sets remStarted of a block BEFORE it calls RemoveBlock for it and block IDs are never reused. A reader
//     that took tip T, finished all lookups and THEN still reads remStarted(T) == false knows: T was pushed before the
//     tip read (so, on the unchanged engine, written before it) and no removal of T or of a block below it had begun when
//     the lookups ended. Every lookup must have succeeded with T's data. That is the strict branch ("uncommitted-tip:*").
//   - remStarted(T) == true: every lookup may legally fail (T is gone or going). One thing still must not happen: the
//     database has lost T's data and AFTERWARDS LastBlock() still answers T (the tip is published although it is not
//     committed any more). That needs RemoveBlock to take the block out of the cache before it deletes its data
//     (signature sigDeletedTip; at the pinned revision RemoveBlock deletes first, see known_findings C20-F13).

import (
	"bytes"
	"errors"
	"fmt"
	"sync"
	"sync/atomic"
	"testing"
	"time"

	"github.com/cockroachdb/pebble/vfs"
	"pgregory.net/rapid"

	"github.com/LiskHQ/lisk-engine/pkg/blockchain"
	"github.com/LiskHQ/lisk-engine/pkg/codec"
	"github.com/LiskHQ/lisk-engine/pkg/crypto"
	"github.com/LiskHQ/lisk-engine/pkg/db"
	"github.com/LiskHQ/lisk-engine/pkg/trie/rmt"

	"verifharness/evid"
	"verifharness/node"
)

// sigDeletedTip: LastBlock() still answers a block whose data the database already lost (remove path).
const sigDeletedTip = "deleted-tip:RemoveBlock:write-before-pop"

type TipReaderW struct {
	API   string `json:"api"`   // LastBlock | GetLastBlock | mixed
	Yield int    `json:"yield"` // 0 none, 1 Gosched, 2 Gosched/µs sleeps
}

type TipW struct {
	Cache       int          `json:"cache"`       // MaxBlockCache
	KeepEvents  int          `json:"keep_events"` // KeepEventsForHeights (-1 keeps everything; otherwise saveBlock also scans and prunes)
	Stable      int          `json:"stable"`      // heights 1..Stable are added before the readers start and never removed
	WriterOps   int          `json:"writer_ops"`
	AddOnly     bool         `json:"add_only"`
	MaxDepth    int          `json:"max_depth"`
	MaxChurn    int          `json:"max_churn"`
	TxMax       int          `json:"tx_max"` // 1..TxMax transactions per block
	EvMax       int          `json:"ev_max"` // 1..EvMax events per block
	Pad         int          `json:"pad"`    // bytes of params / event data
	SyncUS      int          `json:"sync_us"`
	WriterYield int          `json:"writer_yield"`
	MinReader   int          `json:"min_reader_ops"`
	NoRemoveOrd bool         `json:"no_remove_order"` // the remove-path ordering oracle is not evaluated (known finding)
	Readers     []TipReaderW `json:"readers"`
}

// tblock is what the writer registers about a block before it hands it to the chain.
type tblock struct {
	height     uint32
	id         []byte
	prev       []byte
	enc        []byte
	hdrEnc     []byte
	txIDs      [][]byte
	txEnc      [][]byte
	evEnc      [][]byte
	remStarted atomic.Bool // set before Chain.RemoveBlock is called for this block, never cleared
	readded    atomic.Bool // a second block with the same ID was built (IDs are unique by construction; belt and braces)
}

// ---- a file system whose Sync takes time (WAL sync of a disk); everything else is pebble's in-memory FS ----

type slowFS struct {
	vfs.FS
	d time.Duration
}

type slowFile struct {
	vfs.File
	d time.Duration
}

func (f slowFile) Sync() error {
	time.Sleep(f.d)
	return f.File.Sync()
}

func (s slowFS) Create(name string) (vfs.File, error) {
	f, err := s.FS.Create(name)
	if err != nil {
		return nil, err
	}
	return slowFile{f, s.d}, nil
}

func (s slowFS) ReuseForWrite(oldname, newname string) (vfs.File, error) {
	f, err := s.FS.ReuseForWrite(oldname, newname)
	if err != nil {
		return nil, err
	}
	return slowFile{f, s.d}, nil
}

// ---------------------------------------------------------------------------------------------------------------

type tipEnv struct {
	r        *run
	w        *TipW
	database *db.DB
	chain    *blockchain.Chain
	da       *blockchain.DataAccess
	registry sync.Map // string(id) -> *tblock
	floor    uint32
	nonce    uint64
	// writer phase, for the reports and for "did the readers really run inside a write": 0 idle, 1 in AddBlock, 2 in RemoveBlock
	phase      atomic.Int32
	phaseBlock atomic.Pointer[tblock]
	remBegin   atomic.Int64 // removals begun / finished (any block)
	remEnd     atomic.Int64
	writerDone atomic.Bool
}

var tipStatePrefix = []byte{0xee, 'c', '2', '0'}

func tipStateKey(height uint32) []byte {
	return append(append([]byte{}, tipStatePrefix...), byte(height>>24), byte(height>>16), byte(height>>8), byte(height))
}

func (e *tipEnv) lookup(id []byte) *tblock {
	if v, ok := e.registry.Load(string(id)); ok {
		return v.(*tblock)
	}
	return nil
}

// build makes a block on top of prev with unique transactions (the nonce never repeats, so no ID is ever reused).
func (e *tipEnv) build(p *prng, prev *tblock, height uint32) (*blockchain.Block, []*blockchain.Event, *tblock) {
	w := e.w
	keys := node.Keys()
	ntx := 1 + p.intn(w.TxMax)
	txs := make([]*blockchain.Transaction, ntx)
	ids := make([][]byte, ntx)
	for i := range txs {
		e.nonce++
		params := make([]byte, 1+p.intn(w.Pad+1))
		for j := range params {
			params[j] = byte(p.next())
		}
		tx := &blockchain.Transaction{Module: "verif", Command: "tip", Nonce: e.nonce, Fee: uint64(1000 + p.intn(1000)), SenderPublicKey: keys[p.intn(len(keys))].EdPub,
			Params: params, Signatures: []codec.Hex{crypto.Hash(params), crypto.Hash(params[:1])}}
		tx.Init()
		txs[i], ids[i] = tx, tx.ID
	}
	nev := 1 + p.intn(w.EvMax)
	events := make([]*blockchain.Event, nev)
	for i := range events {
		data := make([]byte, 1+p.intn(w.Pad+1))
		for j := range data {
			data[j] = byte(p.next())
		}
		events[i] = blockchain.NewEventFromValues("verif", "tip", data, []codec.Hex{ids[i%ntx]}, height, uint32(i))
	}
	assets := blockchain.BlockAssets{{Module: "verif", Data: crypto.Hash(ids[0])}}
	if p.intn(2) == 0 {
		assets = append(assets, &blockchain.BlockAsset{Module: "verif2", Data: []byte{byte(p.next())}})
	}
	// AddBlock does not validate roots; computing the real event root would open a scratch database per block
	eventRoot := crypto.Hash(events[0].Encode())
	var prevID []byte
	ts := uint32(1000)
	if prev != nil {
		prevID = prev.id
		ts += 10 * height
	} else {
		prevID = bytes.Repeat([]byte{0}, 32)
	}
	hd := &blockchain.BlockHeader{Version: 2, Timestamp: ts, Height: height, PreviousBlockID: prevID, GeneratorAddress: keys[int(height)%len(keys)].Addr,
		TransactionRoot: rmt.CalculateRoot(ids), AssetRoot: assets.GetRoot(), EventRoot: eventRoot, StateRoot: crypto.Hash(ids[ntx-1]),
		MaxHeightPrevoted: 0, MaxHeightGenerated: 0, ValidatorsHash: crypto.Hash([]byte("validators")),
		AggregateCommit: &blockchain.AggregateCommit{Height: 0, AggregationBits: []byte{}, CertificateSignature: []byte{}}, Signature: crypto.Hash(prevID)}
	b := &blockchain.Block{Header: hd, Transactions: txs, Assets: assets}
	b.Init()
	tb := &tblock{height: height, id: append([]byte{}, b.Header.ID...), prev: append([]byte{}, prevID...), enc: b.Encode(), hdrEnc: b.Header.Encode(), txIDs: ids}
	for _, tx := range txs {
		tb.txEnc = append(tb.txEnc, tx.Encode())
	}
	for _, ev := range events {
		tb.evEnc = append(tb.evEnc, ev.Encode())
	}
	if old, loaded := e.registry.LoadOrStore(string(tb.id), tb); loaded {
		old.(*tblock).readded.Store(true)
		old.(*tblock).remStarted.Store(true) // nothing strict is asserted about an ID that exists twice
		tb = old.(*tblock)
	}
	return b, events, tb
}

func (e *tipEnv) add(p *prng, prev *tblock, height uint32) (*tblock, error) {
	b, events, tb := e.build(p, prev, height)
	batch := e.database.NewBatch()
	// state that travels in the same batch (the Executer commits the state store and the state diff of the block there)
	batch.Set(tipStateKey(height), tb.id)
	finalized := uint32(0)
	if e.w.Stable > 1 {
		finalized = uint32(e.w.Stable - 1) // below every block the writer may remove: pruning never reaches a possible tip
	}
	e.phaseBlock.Store(tb)
	e.phase.Store(1)
	err := e.chain.AddBlock(batch, b, events, finalized, p.intn(2) == 0)
	e.phase.Store(0)
	return tb, err
}

func runTip(r *run) {
	w := r.w.Tip
	p := newPRNG(r.w.Seed, 0)
	var database *db.DB
	var err error
	if w.SyncUS > 0 {
		database, err = db.NewDBWithFS("tipdb", slowFS{vfs.NewMem(), time.Duration(w.SyncUS) * time.Microsecond})
	} else {
		database, err = db.NewInMemoryDB()
	}
	if err != nil {
		r.fail("harness", "open database: %v", err)
		return
	}
	e := &tipEnv{r: r, w: w, database: database}
	e.chain = blockchain.NewChain(&blockchain.ChainConfig{ChainID: node.ChainID, MaxTransactionsLength: 15 * 1024, MaxBlockCache: w.Cache, KeepEventsForHeights: w.KeepEvents})
	genesis, gev, gtb := e.build(p, nil, 0)
	e.chain.Init(genesis, database)
	e.da = e.chain.DataAccess()
	gb := database.NewBatch()
	gb.Set(tipStateKey(0), gtb.id)
	if err := e.chain.AddBlock(gb, genesis, gev, 0, false); err != nil {
		r.fail("harness", "genesis: %v", err)
		return
	}
	stack := []*tblock{gtb}
	for h := 1; h <= w.Stable; h++ {
		tb, err := e.add(p, stack[len(stack)-1], uint32(h))
		if err != nil {
			r.fail("harness", "stable chain: %v", err)
			return
		}
		stack = append(stack, tb)
	}
	e.floor = uint32(w.Stable)

	var wg sync.WaitGroup
	wprog, wdone := r.worker("writer")
	progs := make([]*atomic.Int64, len(w.Readers))
	dones := make([]*atomic.Bool, len(w.Readers))
	for i := range w.Readers {
		progs[i], dones[i] = r.worker(fmt.Sprintf("tipreader%d", i))
	}
	start := make(chan struct{})
	wg.Add(1)
	go func() {
		defer wg.Done()
		defer wdone.Store(true)
		defer e.writerDone.Store(true)
		<-start
		e.writer(newPRNG(r.w.Seed, 1), wprog, stack)
	}()
	for i := range w.Readers {
		i := i
		wg.Add(1)
		go func() {
			defer wg.Done()
			defer dones[i].Store(true)
			<-start
			e.reader(i, newPRNG(r.w.Seed, 100+i), progs[i])
		}()
	}
	close(start)
	r.watch()
	wg.Wait()

	// quiescent: the chain is linked, complete and the tip is fully committed
	tip := e.chain.LastBlock()
	if tip == nil {
		r.fail("nil-tip:quiescent", "LastBlock() is nil after all goroutines finished")
		return
	}
	blocks, err := e.da.GetBlocksBetweenHeight(0, tip.Header.Height)
	if err != nil {
		r.fail("quiescent", "GetBlocksBetweenHeight(0,%d): %v", tip.Header.Height, err)
		return
	}
	for i, b := range blocks {
		tb := e.lookup(b.Header.ID)
		if tb == nil || tb.height != uint32(i) || !bytes.Equal(b.Encode(), tb.enc) {
			r.fail("quiescent", "block at height %d after the run is not a block the writer built", i)
			break
		}
		if i > 0 && !bytes.Equal(b.Header.PreviousBlockID, blocks[i-1].Header.ID) {
			r.fail("quiescent", "chain broken at height %d after the run", i)
			break
		}
	}
	if hd, err := e.da.GetLastBlockHeader(); err != nil || !bytes.Equal(hd.ID, tip.Header.ID) {
		r.fail("quiescent", "persisted last header differs from the tip after the run (err=%v)", err)
	}
}

// writer: bursts of removals followed by additions directly on the Chain (or additions only).
func (e *tipEnv) writer(p *prng, prog *atomic.Int64, stack []*tblock) {
	w := e.w
	pendingRemove, pendingAdd := 0, 0
	for op := 0; op < w.WriterOps; op++ {
		if e.r.finished.Load() {
			return
		}
		top := stack[len(stack)-1]
		h := top.height
		remove := false
		if !w.AddOnly {
			if pendingRemove == 0 && pendingAdd == 0 {
				depth := 1 + p.intn(w.MaxDepth)
				if p.intn(3) == 0 {
					depth = 1
				}
				pendingRemove = depth
				pendingAdd = depth + p.intn(3) - 1
				if int(h)-int(e.floor) < w.MaxChurn/2 {
					pendingAdd += 1 + p.intn(2)
				}
				if pendingAdd < 0 {
					pendingAdd = 0
				}
			}
			remove = pendingRemove > 0
			if remove && h <= e.floor {
				remove, pendingRemove = false, 0
				if pendingAdd == 0 {
					pendingAdd = 1
				}
			}
			if !remove && int(h)-int(e.floor) >= w.MaxChurn && h > e.floor {
				remove, pendingRemove, pendingAdd = true, 1+p.intn(w.MaxDepth), 0
			}
		}
		if remove {
			top.remStarted.Store(true)
			e.remBegin.Add(1)
			e.phaseBlock.Store(top)
			e.phase.Store(2)
			batch := e.database.NewBatch()
			batch.Del(tipStateKey(h)) // the Executer reverts the state of the block in the same batch
			err := e.chain.RemoveBlock(batch, p.intn(2) == 0)
			e.phase.Store(0)
			e.remEnd.Add(1)
			if err != nil {
				e.r.fail("writer", "RemoveBlock at height %d: %v", h, err)
				return
			}
			stack = stack[:len(stack)-1]
			pendingRemove--
			e.r.count("writer:remove", 1)
		} else {
			tb, err := e.add(p, top, h+1)
			if err != nil {
				e.r.fail("writer", "AddBlock at height %d: %v", h+1, err)
				return
			}
			stack = append(stack, tb)
			if pendingAdd > 0 {
				pendingAdd--
			}
			e.r.count("writer:add", 1)
		}
		prog.Add(1)
		p.yield(w.WriterYield)
	}
}

// tip lookups, in the order of tipCheckNames
var tipCheckNames = []string{"GetTransaction", "GetTransactions", "GetEvents", "GetLastBlockHeader", "batch-state",
	"GetBlockHeader", "GetBlock", "GetBlockHeaderByHeight", "GetBlockByHeight", "GetBlocksBetweenHeight"}

// dbOnly: lookups that are answered by the database alone (the others look into the block cache first)
var tipDBOnly = map[string]bool{"GetTransaction": true, "GetTransactions": true, "GetEvents": true, "GetLastBlockHeader": true, "batch-state": true}

type tipProblem struct {
	check   string
	missing bool // the data was not there (or the persisted chain was behind); false = something else was there
	text    string
}

func (e *tipEnv) reader(idx int, p *prng, prog *atomic.Int64) {
	rw := e.w.Readers[idx]
	order := make([]int, len(tipCheckNames))
	for ops := 0; ; ops++ {
		if e.writerDone.Load() && ops >= e.w.MinReader {
			return
		}
		if e.r.finished.Load() {
			return
		}
		api := rw.API
		if api == "mixed" {
			api = []string{"LastBlock", "GetLastBlock"}[p.intn(2)]
		}
		for i := range order {
			order[i] = i
		}
		for i := len(order) - 1; i > 0; i-- {
			j := p.intn(i + 1)
			order[i], order[j] = order[j], order[i]
		}
		// the first lookup is always one the database answers alone
		for i, c := range order {
			if tipDBOnly[tipCheckNames[c]] {
				order[0], order[i] = order[i], order[0]
				break
			}
		}
		// 1..all lookups per observation (short observations take the tip more often, long ones check everything at once)
		k := 1 + p.intn(len(order))
		func() {
			defer func() {
				if v := recover(); v != nil {
					e.r.fail("panic:tip:"+api, "tip observation panicked: %v\n%s", v, tail(allStacks(), 4000))
				}
			}()
			e.observe(api, p, order[:k])
		}()
		e.r.count("op:"+api, 1)
		prog.Add(1)
		p.yield(rw.Yield)
	}
}

func (e *tipEnv) takeTip(api string) (*blockchain.Block, error) {
	if api == "GetLastBlock" {
		return e.da.GetLastBlock()
	}
	return e.chain.LastBlock(), nil
}

// observe takes the tip and checks everything it promises.
func (e *tipEnv) observe(api string, p *prng, order []int) {
	phase0 := e.phase.Load()
	tip, err := e.takeTip(api)
	if err != nil || tip == nil {
		e.r.fail("nil-tip:"+api, "%s returned no block (err=%v) while the writer was adding/removing blocks", api, err)
		return
	}
	tb := e.lookup(tip.Header.ID)
	if tb == nil {
		e.r.fail("incomplete-tip:"+api, "tip %x at height %d was never built by the writer", []byte(tip.Header.ID), tip.Header.Height)
		return
	}
	if phase0 != 0 && e.phase.Load() == phase0 {
		e.r.count(map[int32]string{1: "tip-reads-inside-AddBlock", 2: "tip-reads-inside-RemoveBlock"}[phase0], 1)
	}
	var problems []tipProblem
	for _, c := range order {
		name := tipCheckNames[c]
		if pr := e.tipCheck(name, tip, tb, p); pr != nil {
			problems = append(problems, *pr)
		}
	}
	// ---- verdict ----
	removing := tb.remStarted.Load() // read AFTER the lookups
	e.r.count("tip-observations", 1)
	if !removing {
		for _, pr := range problems {
			sig := "uncommitted-tip:" + pr.check
			if !pr.missing {
				sig = "wrong-item:tip:" + pr.check
			}
			e.r.fail(sig, "%s returned the block %x at height %d as tip; %s. No removal of that block had begun when the lookup ended, so the tip was published (block cache) without being committed (database). Writer: %s",
				api, []byte(tip.Header.ID), tip.Header.Height, pr.text, e.describePhase())
		}
		// completeness of the tip object itself (after the lookups: the window between tip read and first lookup stays short)
		if !bytes.Equal(crypto.Hash(tip.Header.Encode()), tip.Header.ID) || !bytes.Equal(tip.Encode(), tb.enc) {
			e.r.fail("incomplete-tip:"+api, "tip at height %d differs from the block the writer built with that ID", tip.Header.Height)
		}
		return
	}
	e.r.count("tip-removed-meanwhile(allowed)", 1)
	lost := ""
	for _, pr := range problems {
		if pr.missing && tipDBOnly[pr.check] {
			lost = pr.check + ": " + pr.text
			break
		}
	}
	if lost == "" {
		return
	}
	e.r.count("tip-data-gone-after-removal(allowed)", 1)
	if e.w.NoRemoveOrd {
		return
	}
	// The database has lost the tip's data. From now on LastBlock() must not answer that block any more.
	again, _ := e.takeTip(api)
	if again != nil && bytes.Equal(again.Header.ID, tip.Header.ID) && !tb.readded.Load() {
		e.r.fail(sigDeletedTip, "%s returned the block %x at height %d as tip, then the database did not have its data any more (%s), and after that %s STILL returned the same block as tip: RemoveBlock deletes the block from the database before it takes it out of the block cache. Writer: %s",
			api, []byte(tip.Header.ID), tip.Header.Height, lost, api, e.describePhase())
	}
}

func (e *tipEnv) describePhase() string {
	ph, tb := e.phase.Load(), e.phaseBlock.Load()
	if tb == nil {
		return "idle"
	}
	return fmt.Sprintf("%s (last/current block %x at height %d)", map[int32]string{0: "between two operations", 1: "inside AddBlock", 2: "inside RemoveBlock"}[ph], tb.id[:6], tb.height)
}

func notFound(err error) bool { return errors.Is(err, db.ErrDataNotFound) }

// tipCheck performs one lookup for the tip and describes what is wrong with the answer (nil = as promised).
func (e *tipEnv) tipCheck(name string, tip *blockchain.Block, tb *tblock, p *prng) *tipProblem {
	h := tb.height
	bad := func(missing bool, format string, a ...any) *tipProblem {
		return &tipProblem{check: name, missing: missing, text: fmt.Sprintf(format, a...)}
	}
	switch name {
	case "GetTransaction":
		for i, id := range tb.txIDs {
			tx, err := e.da.GetTransaction(id)
			if err != nil {
				return bad(notFound(err), "GetTransaction(%x) (transaction %d of %d of the tip): %v", id[:6], i, len(tb.txIDs), err)
			}
			if !bytes.Equal(tx.Encode(), tb.txEnc[i]) {
				return bad(false, "GetTransaction(%x) returned a different transaction", id[:6])
			}
		}
	case "GetTransactions":
		txs, err := e.da.GetTransactions(tb.txIDs)
		if err != nil {
			return bad(false, "GetTransactions of the tip: %v", err)
		}
		got := map[string]int{}
		for _, tx := range txs {
			got[string(tx.ID)]++
		}
		for _, id := range tb.txIDs {
			if got[string(id)] == 0 {
				return bad(true, "GetTransactions(the %d transaction ids of the tip) returned %d transactions, %x is missing", len(tb.txIDs), len(txs), id[:6])
			}
			if got[string(id)] > 1 {
				return bad(false, "GetTransactions returned %x %d times", id[:6], got[string(id)])
			}
		}
		if len(txs) != len(tb.txIDs) {
			return bad(false, "GetTransactions returned %d transactions for %d ids", len(txs), len(tb.txIDs))
		}
	case "GetEvents":
		evs, err := e.da.GetEvents(h)
		if err != nil {
			return bad(notFound(err), "GetEvents(%d): %v", h, err)
		}
		same := len(evs) == len(tb.evEnc)
		for i := 0; same && i < len(evs); i++ {
			same = bytes.Equal(evs[i].Encode(), tb.evEnc[i])
		}
		if !same {
			return bad(false, "GetEvents(%d) returned %d events which are not the %d events committed with the tip", h, len(evs), len(tb.evEnc))
		}
	case "GetLastBlockHeader":
		endBefore := e.remEnd.Load()
		hd, err := e.da.GetLastBlockHeader()
		if err != nil {
			if e.remBegin.Load() > endBefore {
				// the newest block of the height index was removed between the index read and the block read: legal
				e.r.count("GetLastBlockHeader:error-during-removal(allowed)", 1)
				return nil
			}
			return bad(notFound(err), "GetLastBlockHeader(): %v although no removal overlapped the call", err)
		}
		if hd.Height < h {
			return bad(true, "the persisted chain ends at height %d (GetLastBlockHeader reads the height index of the database), below the tip", hd.Height)
		}
		if hd.Height > h {
			e.r.count("db-ahead-of-tip(allowed)", 1)
		}
		if pb := e.lookup(hd.ID); pb == nil || pb.height != hd.Height {
			return bad(false, "GetLastBlockHeader() returned %x at height %d which the writer never built", []byte(hd.ID), hd.Height)
		}
	case "batch-state":
		v, ok := e.database.Get(tipStateKey(h))
		if !ok {
			return bad(true, "the key written in the same batch as the block (state of height %d) is not in the database", h)
		}
		if !bytes.Equal(v, tb.id) {
			return bad(true, "the key written in the same batch as the block (state of height %d) still belongs to another block", h)
		}
	case "GetBlockHeader":
		hd, err := e.da.GetBlockHeader(tb.id)
		if err != nil {
			return bad(notFound(err), "GetBlockHeader(tip id): %v", err)
		}
		if !bytes.Equal(hd.Encode(), tb.hdrEnc) {
			return bad(false, "GetBlockHeader(tip id) returned a different header")
		}
	case "GetBlock":
		b, err := e.da.GetBlock(tb.id)
		if err != nil {
			return bad(notFound(err), "GetBlock(tip id): %v", err)
		}
		if !bytes.Equal(b.Encode(), tb.enc) {
			return bad(false, "GetBlock(tip id) returned a block with %d transactions / %d assets, not the committed one", len(b.Transactions), len(b.Assets))
		}
	case "GetBlockHeaderByHeight":
		hd, err := e.da.GetBlockHeaderByHeight(h)
		if err != nil {
			return bad(notFound(err), "GetBlockHeaderByHeight(%d): %v", h, err)
		}
		if !bytes.Equal(hd.ID, tb.id) {
			return bad(false, "GetBlockHeaderByHeight(%d) returned %x, not the tip", h, []byte(hd.ID[:6]))
		}
	case "GetBlockByHeight":
		b, err := e.da.GetBlockByHeight(h)
		if err != nil {
			return bad(notFound(err), "GetBlockByHeight(%d): %v", h, err)
		}
		if !bytes.Equal(b.Encode(), tb.enc) {
			return bad(false, "GetBlockByHeight(%d) returned another block than the tip", h)
		}
	case "GetBlocksBetweenHeight":
		k := uint32(p.intn(6))
		if k > h {
			k = h
		}
		blocks, err := e.da.GetBlocksBetweenHeight(h-k, h)
		if err != nil {
			return bad(notFound(err), "GetBlocksBetweenHeight(%d,%d): %v", h-k, h, err)
		}
		if len(blocks) != int(k)+1 || !bytes.Equal(blocks[k].Header.ID, tb.id) {
			return bad(false, "GetBlocksBetweenHeight(%d,%d) returned %d blocks / does not end with the tip", h-k, h, len(blocks))
		}
		for i := int(k); i > 0; i-- {
			if !bytes.Equal(blocks[i].Header.PreviousBlockID, blocks[i-1].Header.ID) || e.lookup(blocks[i-1].Header.ID) == nil {
				return bad(false, "GetBlocksBetweenHeight(%d,%d): the block at height %d is not the parent of the block above it", h-k, h, blocks[i-1].Header.Height)
			}
		}
	}
	return nil
}

// ---------------------------------------------------------------------------------------------------------------
// Parent side.

func drawTip(t *rapid.T) *Workload {
	w := drawCommon(t, "tip")
	w.Procs = rapid.SampledFrom([]int{4, 8, 16}).Draw(t, "tipProcs") // readers must be able to run while the writer is inside a write
	ops := []int{150, 300, 600}
	if evid.Thorough() {
		ops = []int{150, 300, 600, 1500}
	}
	tw := &TipW{
		Cache:       rapid.SampledFrom([]int{2, 4, 8, 64}).Draw(t, "cache"),
		KeepEvents:  rapid.SampledFrom([]int{-1, 3, 300}).Draw(t, "keepEvents"),
		Stable:      rapid.SampledFrom([]int{4, 12, 24}).Draw(t, "stable"),
		WriterOps:   rapid.SampledFrom(ops).Draw(t, "writerOps"),
		AddOnly:     rapid.IntRange(0, 3).Draw(t, "addOnly") == 0,
		MaxDepth:    rapid.IntRange(1, 10).Draw(t, "maxDepth"),
		MaxChurn:    rapid.IntRange(4, 20).Draw(t, "maxChurn"),
		TxMax:       rapid.SampledFrom([]int{2, 6, 16}).Draw(t, "txMax"),
		EvMax:       rapid.SampledFrom([]int{2, 10, 30}).Draw(t, "evMax"),
		Pad:         rapid.SampledFrom([]int{16, 100, 400}).Draw(t, "pad"),
		SyncUS:      rapid.SampledFrom([]int{0, 0, 100, 500}).Draw(t, "syncUS"),
		WriterYield: rapid.IntRange(0, 2).Draw(t, "writerYield"),
		MinReader:   rapid.SampledFrom([]int{50, 300}).Draw(t, "minReaderOps"),
		NoRemoveOrd: isKnown(sigDeletedTip),
	}
	nr := rapid.IntRange(4, 12).Draw(t, "readers")
	for i := 0; i < nr; i++ {
		tw.Readers = append(tw.Readers, TipReaderW{API: rapid.SampledFrom([]string{"LastBlock", "GetLastBlock", "mixed"}).Draw(t, "api"), Yield: rapid.IntRange(0, 2).Draw(t, "yield")})
	}
	w.Tip = tw
	return w
}

func tipNontrivial(w *Workload, o *outcome) bool {
	if o.res == nil || !o.res.Done {
		return false
	}
	c := o.res.Counters
	return len(w.Tip.Readers) >= 4 && c["writer:add"]+c["writer:remove"] >= 100 && c["tip-observations"] >= 1000 &&
		c["tip-reads-inside-AddBlock"]+c["tip-reads-inside-RemoveBlock"] >= 20
}

// TestTipIsCommitted: generated writer/reader workloads on a raw Chain; every tip a reader obtains must be committed.
func TestTipIsCommitted(t *testing.T) {
	rapid.Check(t, func(t *rapid.T) {
		w := drawTip(t)
		if w.Tip.NoRemoveOrd {
			evid.R.Excluded(1)
		}
		o := runChild(w)
		verdict(t, w, o)
		labels := []string{"tip", fmt.Sprintf("tip:cache-%d", w.Tip.Cache), fmt.Sprintf("tip:procs-%d", w.Procs), fmt.Sprintf("tip:sync-us-%d", w.Tip.SyncUS),
			fmt.Sprintf("tip:keep-events-%d", w.Tip.KeepEvents), fmt.Sprintf("tip:add-only-%v", w.Tip.AddOnly)}
		evid.R.Case(keyOf(w), tipNontrivial(w, o), sampleOf(w, o, nil), labels...)
	})
}

func tipReaders(n int) []TipReaderW {
	var out []TipReaderW
	for i := 0; i < n; i++ {
		out = append(out, TipReaderW{API: []string{"LastBlock", "GetLastBlock", "mixed"}[i%3], Yield: i % 2})
	}
	return out
}

// RemoveBlock must take the block out of the block cache before it deletes it from the database; otherwise LastBlock()
// answers, for the duration of the batch write and its WAL sync, a tip that is not committed any more (C20-F13). The
// WAL sync is given the latency of a fast disk so that the window is as wide as on a real node.
func TestRegressRemovedTipStillPublished(t *testing.T) {
	w := &Workload{Kind: "tip", Procs: 8, Seed: 27, Budget: 240, Tip: &TipW{
		Cache: 8, KeepEvents: 300, Stable: 12, WriterOps: 400, MaxDepth: 4, MaxChurn: 10, TxMax: 6, EvMax: 10, Pad: 100, SyncUS: 300, MinReader: 200,
		Readers: tipReaders(8),
	}}
	regress(t, "removed-tip-still-published", w, func(o *outcome) bool { return tipNontrivial(w, o) && o.res.Counters["writer:remove"] >= 100 })
}

// The symmetric case on the add path (never a defect of the pinned revision; fixed parameters so that every tier runs
// one case with many readers, large blocks and a tight writer): AddBlock must write the batch before it publishes the
// block through the cache.
func TestRegressTipPublishedAfterCommit(t *testing.T) {
	w := &Workload{Kind: "tip", Procs: 8, Seed: 28, Budget: 240, Tip: &TipW{
		Cache: 4, KeepEvents: 3, Stable: 8, WriterOps: 250, MaxDepth: 3, MaxChurn: 8, TxMax: 8, EvMax: 20, Pad: 200, SyncUS: 0, MinReader: 200,
		NoRemoveOrd: isKnown(sigDeletedTip), Readers: tipReaders(10),
	}}
	regress(t, "tip-published-after-commit", w, func(o *outcome) bool { return tipNontrivial(w, o) })
}
