package c20

// Workload (g) "lin": ONE diffdb staged store used by several goroutines through the parent and 1-4 WithPrefix views on a
// SMALL SHARED key space, part of which exists in the underlying database; judged by a linearizability oracle.
//
// Workload (d) (store_test.go) gives every goroutine its own keys, so two goroutines never meet on one key: it finds data
// races and overlay mix-ups but no atomicity defect (check-then-act outside the shared mutex: every map access still
// locked, race detector silent, yet a staged write is lost). Here all goroutines use the same keys.
//
// A case = 20-80 rounds. A round = a fresh diffdb.New over the database as the previous round committed it, 2-8
// goroutines doing Get/Has/Set/Del/Range/Iterate on 2-16 keys through handles that address the same keys in different
// ways (parent, a view per module prefix, a second sibling view of the same prefix, a nested view, views created for one
// call), then reads at quiescence, Commit, Write, and a read of every key from the database.
// Every call is stamped before it is made and after it returned with one global atomic counter, so
// "A returned before B was called" is a fact whenever ret(A) < call(B), whatever the scheduler did.
//
// Oracles (every diffdb method holds the one shared mutex from beginning to end at the pinned revision, so each call is
// atomic and every history is linearizable; none of the oracles can fail on such an implementation under any timing):
//   - per key, the history of writes (Set = unique value, Del) and reads (Get, Has, every element a Range/Iterate
//     returned, every key of the requested range it proved absent, the reads at quiescence, the database after Commit)
//     is a linearizable history of ONE register whose initial state is the database content before the round
//     (exact search: Wing-Gong / Lowe with memoisation, written here; per-key decomposition is sound because
//     linearizability is compositional). Before the search two necessary conditions give readable reports:
//     foreign-item (a value nobody wrote to that key) and stale-read (every write the read could come from had been
//     overwritten by a write that returned before the read was called = a lost staged write / a revived delete);
//   - owner mode (1 case of 3: each key is written by one goroutine only): that goroutine's own reads equal its latest
//     write exactly and the committed database holds its last write (no search; independent of the checker above);
//   - Commit's diff reverted on the committed content gives back the content before the round.
//
// Making the window deterministic instead of hoping for the scheduler: diffdb.New takes its store as an interface, so
// the harness passes the database behind a wrapper that only adds latency: when a goroutine that is inside
// Get/Has/Set/Del of key k reads k from the database (the key is stored and not yet in the overlay) the wrapper
// publishes k and waits up to park_us for a Set/Del of k to RETURN. The other goroutines turn their next operation
// into a Set/Del (sometimes a Get) of the published key ("chase"). On the pinned code the chaser blocks on the mutex
// until the parked call is done (the wait times out, the write is ordered after it: fine). On code that reads the
// store outside the mutex the write returns inside the window and the oracle sees what became of it.

import (
	"bytes"
	"fmt"
	"runtime"
	"sort"
	"strings"
	"sync"
	"sync/atomic"
	"time"

	"github.com/LiskHQ/lisk-engine/pkg/db"
	"github.com/LiskHQ/lisk-engine/pkg/db/diffdb"
)

type LinW struct {
	Workers   int   `json:"workers"`    // goroutines per round
	Views     int   `json:"views"`      // WithPrefix views beside the parent (shapes: per module, sibling twin, nested)
	UseRoot   bool  `json:"use_root"`   // goroutines also go through the parent
	Modules   int   `json:"modules"`    // module prefixes (1 byte each)
	Keys      int   `json:"keys"`       // keys per module
	BaseQ     int   `json:"base_q"`     // key i is in the database before the first round iff i%4 < base_q
	Rounds    int   `json:"rounds"`     // fresh staged store per round
	Ops       int   `json:"ops"`        // per goroutine and round
	Weights   []int `json:"weights"`    // get, has, set, del, range, iterate
	Owner     bool  `json:"owner"`      // single-writer discipline: key i is written by goroutine i % workers only
	ParkUs    int   `json:"park_us"`    // how long a call waits inside its store read of a stored key for a write of the same key (0 = never)
	ParkEvery int   `json:"park_every"` // every n-th such store read parks
	Chase     int   `json:"chase"`      // n of 4 operations drawn while a call is parked become a Set/Del (or Get) of its key
	Yield     int   `json:"yield"`
}

const (
	linGet = iota
	linHas
	linSet
	linDel
	linRange
	linIterate
)

var linRootPrefix = []byte{0x10}

// linRec is one observation on one key: a write, or what a call proved about the key.
type linRec struct {
	g         int    // goroutine (-1 = the driver at quiescence)
	via       string // handle
	api       string
	id        int // key
	call, ret int64
	write     bool
	present   bool
	anyVal    bool // Has: presence only
	val       string
	arg       string // Range/Iterate: the request and the keys answered
}

func (o *linRec) String() string {
	what := ""
	switch {
	case o.write && o.present:
		what = "Set " + o.val
	case o.write:
		what = "Del"
	case !o.present:
		what = o.api + " -> not found"
	case o.anyVal:
		what = o.api + " -> found"
	default:
		what = o.api + " -> " + o.val
	}
	who := fmt.Sprintf("g%d", o.g)
	if o.g < 0 {
		who = "driver"
	}
	if o.arg != "" {
		what += "   (" + o.arg + ")"
	}
	return fmt.Sprintf("[%d,%d] %s via %s: %s", o.call, o.ret, who, o.via, what)
}

type linHandle struct {
	name   string
	db     *diffdb.Database
	prefix []byte // relative to the parent
	ids    []int  // keys it can address, ascending = byte order of the relative keys
}

type linCase struct {
	r         *run
	w         *LinW
	prog      *atomic.Int64
	nKeys     int
	full      [][]byte // key id -> key relative to the parent
	dbKey     [][]byte // key id -> database key
	clock     atomic.Int64
	parked    atomic.Int64   // 1 + id of the key a call is parked on inside its store read (0 = none)
	wrote     []atomic.Int64 // per key: call stamp of the latest Set/Del that returned
	intent    []atomic.Int64 // per goroutine: 1 + id of the key of the Get/Has/Set/Del it is inside (0 = none)
	nthGet    atomic.Int64
	scanParks atomic.Int64 // store scans that parked in this round
}

func (c *linCase) stamp() int64 { return c.clock.Add(1) }

// returned notes that a Set/Del of the key that was called at `call` has returned.
func (c *linCase) returned(id int, call int64) {
	for {
		old := c.wrote[id].Load()
		if old >= call || c.wrote[id].CompareAndSwap(old, call) {
			return
		}
	}
}

// parkingStore is the database as diffdb sees it: same answers, only slower at chosen moments.
type parkingStore struct {
	inner diffdb.DatabaseReader
	c     *linCase
}

func (s *parkingStore) Get(key []byte) ([]byte, bool) {
	val, ok := s.inner.Get(key)
	if ok && s.c.w.ParkUs > 0 {
		s.c.park(key, true)
	}
	return val, ok
}

func (s *parkingStore) Iterate(prefix []byte, limit int, reverse bool) []db.KeyValue {
	res := s.inner.Iterate(prefix, limit, reverse)
	s.c.parkScan(res)
	return res
}

func (s *parkingStore) IterateRange(start, end []byte, limit int, reverse bool) []db.KeyValue {
	res := s.inner.IterateRange(start, end, limit, reverse)
	s.c.parkScan(res)
	return res
}

// parkScan: the first two store scans of a round that found something wait on their first key the same way (a scan is made
// by every Range/Iterate, so parking all of them would only cost time: later ones find their keys in the overlay).
func (c *linCase) parkScan(res []db.KeyValue) {
	if len(res) == 0 || c.w.ParkUs == 0 || c.scanParks.Add(1) > 2 {
		return
	}
	c.park(res[0].Key(), false)
}

func (c *linCase) idOf(dbKey []byte) int {
	for id, k := range c.dbKey {
		if bytes.Equal(k, dbKey) {
			return id
		}
	}
	return -1
}

// park: called inside a store read that found the key, when some goroutine is inside Get/Has/Set/Del of that key (the
// first call that finds a stored key uncached reads the store: Get/Has for the value, Set/Del for the initial value of the
// diff). With the store read under the shared mutex this happens once per stored key and round.
func (c *linCase) park(dbKey []byte, single bool) {
	id := c.idOf(dbKey)
	if id < 0 {
		return
	}
	caller := !single
	for i := range c.intent {
		if c.intent[i].Load() == int64(id+1) {
			caller = true
		}
	}
	if !caller {
		return
	}
	if single {
		c.r.count("store-reads-of-stored-keys-by-Get/Has/Set/Del", 1)
		if every := int64(c.w.ParkEvery); every > 1 && c.nthGet.Add(1)%every != 0 {
			return
		}
	}
	since := c.stamp()
	c.parked.Store(int64(id + 1))
	c.r.count("parks", 1)
	deadline := time.Now().Add(time.Duration(c.w.ParkUs) * time.Microsecond)
	for n := 0; ; n++ {
		if c.wrote[id].Load() > since { // a write of the key that was called after this call parked has returned
			// not a verdict: an implementation may let writers in while it reads, as long as the outcome is atomic
			c.r.count("writes-returned-inside-a-parked-read", 1)
			break
		}
		if n%8 == 7 && time.Now().After(deadline) {
			break
		}
		runtime.Gosched()
	}
	c.parked.CompareAndSwap(int64(id+1), 0)
}

// recBatch forwards Commit's output to a pebble batch.
type recBatch struct{ b *db.Batch }

func (b *recBatch) Set(key, value []byte) { b.b.Set(key, value) }
func (b *recBatch) Del(key []byte)        { b.b.Del(key) }

// mapWriter applies a reverted diff to a copy of the committed content.
type mapWriter map[string]string

func (m mapWriter) Set(key, value []byte) { m[string(key)] = string(value) }
func (m mapWriter) Del(key []byte)        { delete(m, string(key)) }

func runLin(r *run) {
	w := r.w.Lin
	if w.Workers < 1 || w.Modules < 1 || w.Keys < 1 || w.Keys > 26 || len(w.Weights) < 6 {
		r.fail("harness", "bad lin workload %+v", *w)
		return
	}
	database, err := db.NewInMemoryDB()
	if err != nil {
		r.fail("harness", "db: %v", err)
		return
	}
	c := &linCase{r: r, w: w, nKeys: w.Modules * w.Keys}
	c.wrote = make([]atomic.Int64, c.nKeys)
	c.intent = make([]atomic.Int64, w.Workers)
	batch := database.NewBatch()
	for id := 0; id < c.nKeys; id++ {
		full := append([]byte{byte(id / w.Keys)}, storeKey(id%w.Keys)...)
		c.full = append(c.full, full)
		c.dbKey = append(c.dbKey, append(append([]byte{}, linRootPrefix...), full...))
		if id%4 < w.BaseQ {
			batch.Set(c.dbKey[id], []byte(fmt.Sprintf("init.k%d", id)))
		}
	}
	database.Write(batch)

	prog, done := r.worker("lin-driver")
	c.prog = prog
	go func() {
		defer done.Store(true)
		defer func() {
			if p := recover(); p != nil {
				buf := make([]byte, 1<<14)
				buf = buf[:runtime.Stack(buf, false)]
				r.fail("panic:lin-driver", "%v\n%s", p, buf)
			}
		}()
		for round := 0; round < w.Rounds; round++ {
			if !c.round(database, round) {
				return // the database may no longer be what the next round assumes
			}
			r.count("rounds", 1)
			prog.Add(1)
		}
	}()
	r.watch()
}

type linState struct {
	present bool
	val     string
}

// round runs one staged store from creation to commit and judges it. false = a failure was recorded.
func (c *linCase) round(database *db.DB, round int) bool {
	w, r := c.w, c.r
	base := make([]linState, c.nKeys)
	baseMap := map[string]string{}
	for id := range base {
		if v, ok := database.Get(c.dbKey[id]); ok {
			base[id] = linState{true, string(v)}
			baseMap[string(c.dbKey[id])] = string(v)
		}
	}
	for i := range c.wrote {
		c.wrote[i].Store(0)
	}
	c.parked.Store(0)
	c.scanParks.Store(0)

	root := diffdb.New(&parkingStore{inner: database, c: c}, linRootPrefix)
	var handles []*linHandle
	if w.UseRoot {
		handles = append(handles, &linHandle{name: "parent", db: root})
	}
	for i := 0; i < w.Views; i++ {
		m := byte(i % w.Modules)
		switch (i / w.Modules) % 3 {
		case 0:
			handles = append(handles, &linHandle{name: fmt.Sprintf("view%d(module %d)", i, m), db: root.WithPrefix([]byte{m}), prefix: []byte{m}})
		case 1:
			handles = append(handles, &linHandle{name: fmt.Sprintf("view%d(module %d, twin)", i, m), db: root.WithPrefix([]byte{m}), prefix: []byte{m}})
		case 2:
			handles = append(handles, &linHandle{name: fmt.Sprintf("view%d(module %d, nested)", i, m), db: root.WithPrefix([]byte{m}).WithPrefix([]byte{'a'}), prefix: []byte{m, 'a'}})
		}
	}
	cover := make([][]*linHandle, c.nKeys)
	fill := func() bool {
		all := true
		for id := range cover {
			cover[id] = nil
			for _, h := range handles {
				if bytes.HasPrefix(c.full[id], h.prefix) {
					cover[id] = append(cover[id], h)
				}
			}
			all = all && len(cover[id]) > 0
		}
		return all
	}
	if !fill() { // fewer views than modules and no parent: the parent it is
		handles = append(handles, &linHandle{name: "parent", db: root})
		fill()
	}
	for _, h := range handles {
		for id := 0; id < c.nKeys; id++ {
			if bytes.HasPrefix(c.full[id], h.prefix) {
				h.ids = append(h.ids, id)
			}
		}
	}

	recs := make([][]linRec, w.Workers)
	var bad atomic.Bool
	var wg sync.WaitGroup
	start := make(chan struct{})
	for g := 0; g < w.Workers; g++ {
		g := g
		wg.Add(1)
		go func() {
			defer wg.Done()
			defer func() {
				if p := recover(); p != nil {
					buf := make([]byte, 1<<14)
					buf = buf[:runtime.Stack(buf, false)]
					r.fail("panic:diffdb", "goroutine %d, round %d: %v\n%s", g, round, p, buf)
					bad.Store(true)
				}
			}()
			p := newPRNG(r.w.Seed, round*64+g)
			var own []int
			for id := g % w.Workers; id < c.nKeys; id += w.Workers {
				if id%w.Workers == g {
					own = append(own, id)
				}
			}
			seq := 0
			<-start
			for op := 0; op < w.Ops; op++ {
				kind := p.pick(w.Weights[:6])
				id := p.intn(c.nKeys)
				if pk := c.parked.Load(); pk > 0 && p.intn(4) < w.Chase {
					id, kind = int(pk-1), []int{linSet, linSet, linDel, linDel, linGet}[p.intn(5)]
					if w.Owner && int(pk-1)%w.Workers != g {
						kind = linGet
					}
					r.count("chasing-calls", 1)
				}
				if w.Owner && (kind == linSet || kind == linDel) && id%w.Workers != g {
					if len(own) == 0 {
						kind = linGet
					} else {
						id = own[p.intn(len(own))]
					}
				}
				h := cover[id][p.intn(len(cover[id]))]
				if p.intn(8) == 0 && len(h.prefix) == 1 {
					// a view made for this one call, the way module code obtains its store
					h = &linHandle{name: "fresh view(module " + fmt.Sprint(h.prefix[0]) + ")", db: root.WithPrefix(h.prefix), prefix: h.prefix, ids: h.ids}
				}
				rel := c.full[id][len(h.prefix):]
				switch kind {
				case linGet, linHas:
					rec := linRec{g: g, via: h.name, id: id}
					c.intent[g].Store(int64(id + 1))
					rec.call = c.stamp()
					if kind == linGet {
						v, ok := h.db.Get(rel)
						rec.ret = c.stamp()
						rec.api, rec.present, rec.val = "Get", ok, string(v)
					} else {
						ok := h.db.Has(rel)
						rec.ret = c.stamp()
						rec.api, rec.present, rec.anyVal = "Has", ok, true
					}
					c.intent[g].Store(0)
					recs[g] = append(recs[g], rec)
					r.count("op:Get/Has", 1)
				case linSet:
					seq++
					val := fmt.Sprintf("r%d.g%d.s%d", round, g, seq)
					rec := linRec{g: g, via: h.name, api: "Set", id: id, write: true, present: true, val: val}
					c.intent[g].Store(int64(id + 1))
					rec.call = c.stamp()
					h.db.Set(rel, []byte(val))
					rec.ret = c.stamp()
					c.intent[g].Store(0)
					c.returned(id, rec.call)
					recs[g] = append(recs[g], rec)
					r.count("op:Set", 1)
				case linDel:
					rec := linRec{g: g, via: h.name, api: "Del", id: id, write: true}
					c.intent[g].Store(int64(id + 1))
					rec.call = c.stamp()
					h.db.Del(rel)
					rec.ret = c.stamp()
					c.intent[g].Store(0)
					c.returned(id, rec.call)
					recs[g] = append(recs[g], rec)
					r.count("op:Del", 1)
				case linRange, linIterate:
					limit := -1
					if p.intn(2) == 0 {
						limit = p.intn(6)
					}
					reverse := p.intn(2) == 0
					var got []db.KeyValue
					var universe []int // keys of the handle the call asks about, ascending
					api := "Range"
					var call, ret int64
					if kind == linRange {
						a, b := p.intn(len(h.ids)), p.intn(len(h.ids))
						if a > b {
							a, b = b, a
						}
						universe = h.ids[a : b+1]
						s, e := c.full[h.ids[a]][len(h.prefix):], c.full[h.ids[b]][len(h.prefix):]
						call = c.stamp()
						got = h.db.Range(s, e, limit, reverse)
						ret = c.stamp()
						r.count("op:Range", 1)
					} else {
						api = "Iterate"
						pre := rel[:p.intn(len(rel)+1)]
						for _, x := range h.ids {
							if bytes.HasPrefix(c.full[x][len(h.prefix):], pre) {
								universe = append(universe, x)
							}
						}
						call = c.stamp()
						got = h.db.Iterate(pre, limit, reverse)
						ret = c.stamp()
						r.count("op:Iterate", 1)
					}
					obs, msg := c.observe(h, universe, got, limit, reverse)
					if msg != "" {
						r.fail("wrong-shape:diffdb.Range/Iterate", "round %d goroutine %d %s via %s (limit %d, reverse %v): %s", round, g, api, h.name, limit, reverse, msg)
						bad.Store(true)
					}
					arg := fmt.Sprintf("asked for %q..%q, limit %d, reverse %v, answered %s", c.full[universe[0]][len(h.prefix):], c.full[universe[len(universe)-1]][len(h.prefix):], limit, reverse, kvKeys(got))
					for _, o := range obs {
						o.g, o.via, o.api, o.call, o.ret, o.arg = g, h.name, api, call, ret, arg
						recs[g] = append(recs[g], o)
					}
				}
				c.prog.Add(1)
				p.yield(w.Yield)
			}
		}()
	}
	close(start)
	wg.Wait()
	if bad.Load() {
		return false
	}

	// quiescence: a fresh view per module reads every key, then Commit + Write, then the database itself
	var final []linRec
	for id := 0; id < c.nKeys; id++ {
		m := c.full[id][0]
		rec := linRec{g: -1, via: fmt.Sprintf("fresh view(module %d)", m), api: "final-Get", id: id}
		rec.call = c.stamp()
		v, ok := root.WithPrefix([]byte{m}).Get(c.full[id][1:])
		rec.ret = c.stamp()
		rec.present, rec.val = ok, string(v)
		final = append(final, rec)
	}
	out := &recBatch{b: database.NewBatch()}
	diff := root.Commit(out)
	database.Write(out.b)
	committed := mapWriter{}
	for id := 0; id < c.nKeys; id++ {
		rec := linRec{g: -1, via: "database", api: "Commit", id: id}
		rec.call = c.stamp()
		v, ok := database.Get(c.dbKey[id])
		rec.ret = c.stamp()
		rec.present, rec.val = ok, string(v)
		final = append(final, rec)
		if ok {
			committed[string(c.dbKey[id])] = string(v)
		}
	}

	ok := true
	perKey := make([][]linRec, c.nKeys)
	for g := range recs {
		for _, o := range recs[g] {
			perKey[o.id] = append(perKey[o.id], o)
		}
	}
	for _, o := range final {
		perKey[o.id] = append(perKey[o.id], o)
	}
	for id := 0; id < c.nKeys; id++ {
		if w.Owner {
			ok = c.judgeOwner(round, id, base[id], recs[id%w.Workers], final) && ok
		}
		ok = c.judgeKey(round, id, base[id], perKey[id]) && ok
	}

	// the diff Commit returned must undo exactly what it wrote
	root.RevertDiff(committed, diff)
	if !sameMap(committed, baseMap) {
		r.fail("wrong-item:diffdb.Commit:revert-diff", "round %d: reverting the diff returned by Commit on the committed content gives %v, the content before the round was %v (diff: %d added, %d updated, %d deleted)",
			round, map[string]string(committed), baseMap, len(diff.Added), len(diff.Updated), len(diff.Deleted))
		ok = false
	}
	return ok
}

func sameMap(a, b map[string]string) bool {
	if len(a) != len(b) {
		return false
	}
	for k, v := range a {
		if bv, ok := b[k]; !ok || bv != v {
			return false
		}
	}
	return true
}

// observe turns the answer of a Range/Iterate into per-key observations: every returned element is a read of that key;
// a key of the requested universe that was not returned is proved absent if the scan had passed it (it lies before the
// last returned element in scan direction) or if the scan was not cut by the limit.
func (c *linCase) observe(h *linHandle, universe []int, got []db.KeyValue, limit int, reverse bool) ([]linRec, string) {
	if limit > -1 && len(got) > limit {
		return nil, fmt.Sprintf("%d results with limit %d", len(got), limit)
	}
	order := append([]int{}, universe...)
	if reverse {
		for a, b := 0, len(order)-1; a < b; a, b = a+1, b-1 {
			order[a], order[b] = order[b], order[a]
		}
	}
	var obs []linRec
	pos := 0
	for _, kv := range got {
		found := -1
		for x := pos; x < len(order); x++ {
			if bytes.Equal(c.full[order[x]][len(h.prefix):], kv.Key()) {
				found = x
				break
			}
		}
		if found < 0 {
			return nil, fmt.Sprintf("key %q is outside the request, out of order or repeated (answer: %s)", kv.Key(), kvKeys(got))
		}
		for x := pos; x < found; x++ {
			obs = append(obs, linRec{id: order[x]})
		}
		obs = append(obs, linRec{id: order[found], present: true, val: string(kv.Value())})
		pos = found + 1
	}
	if limit < 0 || len(got) < limit {
		for x := pos; x < len(order); x++ {
			obs = append(obs, linRec{id: order[x]})
		}
	}
	return obs, ""
}

func kvKeys(got []db.KeyValue) string {
	var ks []string
	for _, kv := range got {
		ks = append(ks, fmt.Sprintf("%q", kv.Key()))
	}
	return strings.Join(ks, " ")
}

// judgeOwner (single-writer discipline): only goroutine `owner` writes the key, its own calls are sequential, so each of
// its reads and everything read at quiescence equals its latest write (or the content before the round).
func (c *linCase) judgeOwner(round, id int, base linState, ownerRecs []linRec, final []linRec) bool {
	cur := base
	last := "the database content before the round"
	check := func(o *linRec) bool {
		if o.present != cur.present || (o.present && !o.anyVal && o.val != cur.val) {
			sig := "read-your-writes:diffdb." + o.api
			if o.g < 0 {
				sig = "wrong-item:diffdb." + o.api + ":single-writer"
			}
			c.r.fail(sig, "round %d key %q (written by goroutine %d only): %s, but the key's state is %s (%s)", round, c.full[id], id%c.w.Workers, o, stateText(cur), last)
			return false
		}
		return true
	}
	for i := range ownerRecs {
		o := &ownerRecs[i]
		if o.id != id {
			continue
		}
		if o.write {
			cur = linState{o.present, o.val}
			last = "its last write: " + o.String()
			continue
		}
		if !check(o) {
			return false
		}
	}
	for i := range final {
		if final[i].id == id && !check(&final[i]) {
			return false
		}
	}
	return true
}

func stateText(s linState) string {
	if !s.present {
		return "not found"
	}
	return s.val
}

// judgeKey: the history of one key must be a linearizable history of one register.
func (c *linCase) judgeKey(round, id int, base linState, hist []linRec) bool {
	r := c.r
	sort.Slice(hist, func(a, b int) bool { return hist[a].call < hist[b].call })
	r.count("key-histories", 1)
	r.count("observations", int64(len(hist)))
	// value table: 0 = absent, 1 = initial value (if any), then the Sets
	vals := map[string]int32{}
	if base.present {
		vals[base.val] = 1
	}
	for i := range hist {
		if hist[i].write && hist[i].present {
			vals[hist[i].val] = int32(len(vals) + 1)
		}
	}
	init := int32(0)
	if base.present {
		init = 1
	}
	ops := make([]regOp, len(hist))
	contended := false
	for i := range hist {
		o := &hist[i]
		op := regOp{call: o.call, ret: o.ret, write: o.write}
		switch {
		case !o.present:
			op.state = 0
		case o.anyVal:
			op.state = -1
		default:
			v, known := vals[o.val]
			if !known {
				r.fail("foreign-item:diffdb."+o.api, "round %d key %q: %s - nobody wrote that value to this key and it is not the content before the round (%s)\n%s", round, c.full[id], o, stateText(base), histText(hist, i))
				return false
			}
			op.state = v
		}
		ops[i] = op
	}
	// necessary condition with a readable report: the read has a possible source that was not certainly overwritten
	type wr struct {
		call, ret int64
		state     int32
		rec       *linRec
	}
	writes := []wr{{call: -2, ret: -1, state: init}}
	for i := range hist {
		if hist[i].write {
			writes = append(writes, wr{hist[i].call, hist[i].ret, ops[i].state, &hist[i]})
		}
	}
	compatible := func(read, state int32) bool { return read == state || (read == -1 && state != 0) }
	firstRet := int64(1) << 62
	for i := range hist {
		if hist[i].ret < firstRet {
			firstRet = hist[i].ret
		}
	}
	for i := range hist {
		o := &hist[i]
		if o.write {
			continue
		}
		read := ops[i].state
		sources, live := 0, 0
		var lostSrc, lostBy *wr
		for a := range writes {
			src := &writes[a]
			if !compatible(read, src.state) || src.call > o.ret {
				continue
			}
			sources++
			over := false
			for b := range writes {
				ov := &writes[b]
				if ov.call > src.ret && ov.ret < o.call && !compatible(read, ov.state) {
					over = true
					lostSrc, lostBy = src, ov
					break
				}
			}
			if !over {
				live++
			}
		}
		// coverage, not a verdict: a Get/Has that can have been the call which found the stored key uncached (it was called
		// before any call on the key had returned) and overlapped a Set/Del of the key by another goroutine
		if base.present && !contended && o.g >= 0 && (o.api == "Get" || o.api == "Has") && o.call < firstRet {
			for b := 1; b < len(writes); b++ {
				if writes[b].call < o.ret && writes[b].ret > o.call && writes[b].rec.g != o.g {
					contended = true
				}
			}
		}
		if live > 0 {
			continue
		}
		if sources == 0 {
			r.fail("impossible-read:diffdb."+o.api, "round %d key %q (before the round: %s): %s - no write that had been called by then produces that state\n%s", round, c.full[id], stateText(base), o, histText(hist, i))
			return false
		}
		src := "the content before the round (" + stateText(base) + ")"
		if lostSrc.rec != nil {
			src = lostSrc.rec.String()
		}
		what := "a staged write was lost"
		if !lostBy.rec.present {
			what = "a staged delete was undone"
		}
		r.fail("stale-read:diffdb."+o.api, "round %d key %q: %s. That state comes from %s, but %s had returned before this read was called: %s\n%s",
			round, c.full[id], o, src, lostBy.rec, what, histText(hist, i))
		return false
	}
	if contended {
		r.count("stored-keys-first-read-overlapping-a-write", 1)
	}
	// the complete condition
	okLin, best, steps, exhausted := checkRegister(ops, init, 4_000_000)
	r.count("search-steps", int64(steps))
	if exhausted {
		r.count("search-budget-hit(not judged)", 1)
		return true
	}
	if !okLin {
		r.fail("not-linearizable:diffdb", "round %d key %q (before the round: %s): no order of the %d calls on this key that respects returned-before-called explains the answers (at most %d of them can be ordered)\n%s",
			round, c.full[id], stateText(base), len(hist), best, histText(hist, -1))
		return false
	}
	return true
}

// histText renders a key's history (around the marked observation when it is long).
func histText(hist []linRec, mark int) string {
	lo, hi := 0, len(hist)
	if len(hist) > 60 {
		if mark < 0 {
			hi = 60
		} else {
			lo, hi = max(0, mark-45), min(len(hist), mark+5)
		}
	}
	var sb strings.Builder
	fmt.Fprintf(&sb, "history of the key (%d observations, %d-%d shown; [called,returned] on one global counter):\n", len(hist), lo, hi)
	for i := lo; i < hi; i++ {
		m := "  "
		if i == mark {
			m = "=>"
		}
		fmt.Fprintf(&sb, "%s %s\n", m, hist[i].String())
	}
	return sb.String()
}

// ---------------------------------------------------------------------------------------------------------------
// Linearizability of one register (Wing & Gong's search with Lowe's memoisation of (linearized set, state)).

type regOp struct {
	call, ret int64
	write     bool
	state     int32 // write: the state written (0 = absent). read: the state seen (0 = absent, -1 = present, value unknown)
}

func regStep(state int32, op *regOp) (bool, int32) {
	if op.write {
		return true, op.state
	}
	if op.state == -1 {
		return state != 0, state
	}
	return state == op.state, state
}

type linNode struct {
	id         int
	match      *linNode // call entry -> its return entry
	prev, next *linNode
}

type linMemo struct {
	bits  []uint64
	state int32
}

// checkRegister reports whether the operations (intervals on one clock, all stamps distinct) have a linearization from
// the initial state; best = the largest number of operations any explored partial linearization contained.
func checkRegister(ops []regOp, init int32, maxSteps int) (ok bool, best int, steps int, exhausted bool) {
	n := len(ops)
	if n == 0 {
		return true, 0, 0, false
	}
	type ev struct {
		t    int64
		id   int
		call bool
	}
	evs := make([]ev, 0, 2*n)
	for i := range ops {
		evs = append(evs, ev{ops[i].call, i, true}, ev{ops[i].ret, i, false})
	}
	sort.SliceStable(evs, func(a, b int) bool { return evs[a].t < evs[b].t })
	head := &linNode{id: -1}
	tailNode := head
	rets := make([]*linNode, n)
	calls := make([]*linNode, n)
	for _, e := range evs {
		nd := &linNode{id: e.id, prev: tailNode}
		tailNode.next = nd
		tailNode = nd
		if e.call {
			calls[e.id] = nd
		} else {
			rets[e.id] = nd
		}
	}
	for i := 0; i < n; i++ {
		calls[i].match = rets[i]
	}
	words := (n + 63) / 64
	lin := make([]uint64, words)
	count := 0
	memo := map[uint64][]linMemo{}
	hash := func(bits []uint64, state int32) uint64 {
		h := uint64(14695981039346656037) ^ uint64(uint32(state))
		for _, b := range bits {
			h = (h ^ b) * 1099511628211
			h ^= h >> 29
		}
		return h
	}
	seen := func(bits []uint64, state int32) bool {
		h := hash(bits, state)
		for _, m := range memo[h] {
			if m.state == state {
				same := true
				for i := range bits {
					if bits[i] != m.bits[i] {
						same = false
						break
					}
				}
				if same {
					return true
				}
			}
		}
		memo[h] = append(memo[h], linMemo{append([]uint64{}, bits...), state})
		return false
	}
	type frame struct {
		nd    *linNode
		state int32
	}
	var stack []frame
	state := init
	entry := head.next
	for head.next != nil {
		if steps++; steps > maxSteps {
			return false, best, steps, true
		}
		if entry == nil {
			// ran past the last entry without an applicable call: backtrack (cannot happen before a return entry is met,
			// kept for safety)
			if len(stack) == 0 {
				return false, best, steps, false
			}
		}
		if entry != nil && entry.match != nil {
			okStep, next := regStep(state, &ops[entry.id])
			if okStep {
				lin[entry.id/64] |= 1 << (entry.id % 64)
				if !seen(lin, next) {
					stack = append(stack, frame{entry, state})
					state = next
					count++
					if count > best {
						best = count
					}
					// lift the call and its return out of the list
					entry.prev.next = entry.next
					entry.next.prev = entry.prev
					m := entry.match
					m.prev.next = m.next
					if m.next != nil {
						m.next.prev = m.prev
					}
					entry = head.next
					continue
				}
				lin[entry.id/64] &^= 1 << (entry.id % 64)
			}
			entry = entry.next
			continue
		}
		// a return entry (or the end): every call before it has been tried - undo the latest choice
		if len(stack) == 0 {
			return false, best, steps, false
		}
		top := stack[len(stack)-1]
		stack = stack[:len(stack)-1]
		state = top.state
		count--
		nd := top.nd
		lin[nd.id/64] &^= 1 << (nd.id % 64)
		m := nd.match
		m.prev.next = m
		if m.next != nil {
			m.next.prev = m
		}
		nd.prev.next = nd
		nd.next.prev = nd
		entry = nd.next
	}
	return true, best, steps, false
}
