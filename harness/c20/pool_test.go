package c20

// Workload (b): certificate.Pool used by several goroutines at once (Add/Has/Get/Select/Upgrade/Cleanup/Size).
//
// Timing-robust oracles: commits come in two classes. "Keeper" commits have heights >= Doom and no Cleanup ever removes
// them: once Add has returned, Has must stay true and Get(height) must contain the commit exactly once, whatever the
// other goroutines do (Upgrade only moves a commit between the two lists). "Doomed" commits (height < Doom) may be
// removed by a Cleanup at any time; for them only "at most once" is asserted. Everything a query returns must be a commit
// some goroutine added (pointer identity). After all goroutines finished: Cleanup(keep >= Doom), then Size equals the
// number of distinct keeper commits added.

import (
	"fmt"
	"sync"
	"sync/atomic"

	"github.com/LiskHQ/lisk-engine/pkg/blockchain"
	"github.com/LiskHQ/lisk-engine/pkg/consensus/certificate"
	"github.com/LiskHQ/lisk-engine/pkg/crypto"

	"verifharness/node"
)

type PoolW struct {
	Workers  int   `json:"workers"`
	Ops      int   `json:"ops"`     // per worker
	Heights  int   `json:"heights"` // keeper heights Doom..Doom+Heights-1
	Doom     int   `json:"doom"`    // heights below are cleaned up at random times
	Weights  []int `json:"weights"` // add, addDup, has, get, select, upgrade, cleanup, size
	Yield    int   `json:"yield"`
	Prebuilt int   `json:"prebuilt"` // distinct (height, validator) commits prepared per class
}

type poolCommit struct {
	sc     *certificate.SingleCommit
	keeper bool
	added  atomic.Bool // an Add of this commit has returned
}

func runPool(r *run) {
	w := r.w.Pool
	keys := node.Keys()
	// Prepare commits single-threaded: signing is not what is tested here, one signature per height is enough.
	var commits []*poolCommit
	mk := func(height uint32, keeper bool) {
		hd := &blockchain.BlockHeader{Version: 2, Height: height, Timestamp: 1000 + height, PreviousBlockID: crypto.Hash([]byte{byte(height)}),
			GeneratorAddress: keys[0].Addr, TransactionRoot: crypto.Hash(nil), AssetRoot: crypto.Hash(nil), EventRoot: crypto.Hash(nil), StateRoot: crypto.Hash(nil),
			ValidatorsHash: crypto.Hash(nil), AggregateCommit: &blockchain.AggregateCommit{AggregationBits: []byte{}, CertificateSignature: []byte{}}, Signature: []byte{}}
		hd.Init()
		for v := 0; v < w.Prebuilt; v++ {
			k := keys[v%len(keys)]
			commits = append(commits, &poolCommit{sc: certificate.NewSingleCommit(hd, k.Addr, node.ChainID, k.BLSPriv), keeper: keeper})
		}
	}
	for h := 1; h < w.Doom; h++ {
		mk(uint32(h), false)
	}
	for h := 0; h < w.Heights; h++ {
		mk(uint32(w.Doom+h), true)
	}
	byPtr := map[*certificate.SingleCommit]*poolCommit{}
	for _, c := range commits {
		byPtr[c.sc] = c
	}
	// equal twins (same block, same validator, different object): Add must treat them as duplicates
	twin := map[*poolCommit]*certificate.SingleCommit{}
	for _, c := range commits {
		cp := *c.sc
		twin[c] = &cp
		byPtr[&cp] = c
	}
	pool := certificate.NewPool()
	var wg sync.WaitGroup
	start := make(chan struct{})
	for g := 0; g < w.Workers; g++ {
		g := g
		prog, done := r.worker(fmt.Sprintf("pool%d", g))
		wg.Add(1)
		go func() {
			defer wg.Done()
			defer done.Store(true)
			p := newPRNG(r.w.Seed, g)
			<-start
			for i := 0; i < w.Ops; i++ {
				c := commits[p.intn(len(commits))]
				switch p.pick(w.Weights) {
				case 0:
					pool.Add(c.sc)
					c.added.Store(true)
					if c.keeper && !pool.Has(c.sc) {
						r.fail("lost-item:Pool.Has", "keeper commit (height %d) not in the pool right after Add returned", c.sc.Height())
					}
					r.count("op:Add", 1)
				case 1:
					pool.Add(twin[c])
					c.added.Store(true)
					r.count("op:AddDuplicate", 1)
				case 2:
					was := c.added.Load()
					has := pool.Has(c.sc)
					if c.keeper && was && !has {
						r.fail("lost-item:Pool.Has", "keeper commit (height %d) added earlier is not in the pool", c.sc.Height())
					}
					r.count("op:Has", 1)
				case 3:
					was := c.added.Load()
					got := pool.Get(c.sc.Height())
					seen := map[*poolCommit]int{}
					for _, sc := range got {
						pc := byPtr[sc]
						if pc == nil {
							r.fail("foreign-item:Pool.Get", "Get(%d) returned a commit nobody added", c.sc.Height())
							continue
						}
						if sc.Height() != c.sc.Height() {
							r.fail("wrong-item:Pool.Get", "Get(%d) returned a commit of height %d", c.sc.Height(), sc.Height())
						}
						seen[pc]++
					}
					for pc, n := range seen {
						if n > 1 {
							r.fail("dup-item:Pool.Get", "Get(%d): one validator's commit %d times", pc.sc.Height(), n)
						}
					}
					if c.keeper && was && seen[c] != 1 {
						r.fail("lost-item:Pool.Get", "keeper commit (height %d) added earlier appears %d times in Get", c.sc.Height(), seen[c])
					}
					r.count("op:Get", 1)
				case 4:
					limit := 1 + p.intn(20)
					sel := pool.Select(uint32(p.intn(w.Doom+w.Heights+150)), limit)
					if len(sel) > limit {
						r.fail("wrong-count:Pool.Select", "%d > limit %d", len(sel), limit)
					}
					for _, sc := range sel {
						if sc == nil || byPtr[sc] == nil {
							r.fail("foreign-item:Pool.Select", "Select returned a commit nobody added")
						}
					}
					r.count("op:Select", 1)
				case 5:
					k := 1 + p.intn(6)
					var up certificate.SingleCommits
					for j := 0; j < k; j++ {
						up = append(up, commits[p.intn(len(commits))].sc)
					}
					pool.Upgrade(up)
					r.count("op:Upgrade", 1)
				case 6:
					doom := uint32(w.Doom)
					cut := uint32(p.intn(w.Doom + 1))
					pool.Cleanup(func(h uint32) bool { return h >= cut || h >= doom })
					r.count("op:Cleanup", 1)
				default:
					if n := pool.Size(); n < 0 || n > len(commits) {
						r.fail("wrong-count:Pool.Size", "Size()=%d with %d distinct commits ever built", n, len(commits))
					}
					r.count("op:Size", 1)
				}
				prog.Add(1)
				p.yield(w.Yield)
			}
		}()
	}
	close(start)
	r.watch()
	wg.Wait()
	// quiescent: only keepers survive a final cleanup; each exactly once
	doom := uint32(w.Doom)
	pool.Cleanup(func(h uint32) bool { return h >= doom })
	wantN := 0
	for _, c := range commits {
		if c.keeper && c.added.Load() {
			wantN++
			n := 0
			for _, sc := range pool.Get(c.sc.Height()) {
				if byPtr[sc] == c {
					n++
				}
			}
			if n != 1 {
				r.fail("lost-item:Pool.quiescent", "keeper commit (height %d) appears %d times after the run", c.sc.Height(), n)
			}
		}
	}
	if got := pool.Size(); got != wantN {
		r.fail("wrong-count:Pool.quiescent", "Size()=%d after the run, %d distinct keeper commits were added", got, wantN)
	}
}
