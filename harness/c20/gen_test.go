package c20

// Parent side: rapid draws the workloads, a child process executes each one (see main_test.go).

import (
	"encoding/json"
	"fmt"
	"os"
	"strconv"
	"strings"
	"testing"

	"pgregory.net/rapid"

	"verifharness/evid"
)

// rapid derives the seed of case i as seed+i and the driver gives consecutive seeds to the shards of a spec, so case i+1
// of shard s would repeat case i of shard s+1. Shard s therefore consumes s extra draws first, which shifts its stream.
var shardIndex = func() int {
	s, _ := strconv.Atoi(os.Getenv("VERIF_SHARD"))
	if s < 0 || s > 64 {
		return 0
	}
	return s
}()

func drawCommon(t *rapid.T, kind string) *Workload {
	for i := 0; i < shardIndex; i++ {
		rapid.Uint64().Draw(t, "shardSalt")
	}
	return &Workload{
		Kind:   kind,
		Procs:  rapid.SampledFrom([]int{2, 4, 8, 16}).Draw(t, "procs"),
		Seed:   rapid.Uint64().Draw(t, "seed"),
		Budget: 240,
	}
}

func sampleOf(w *Workload, o *outcome, extra map[string]any) func() any {
	return func() any {
		m := map[string]any{"kind": w.Kind, "workload": w, "child_wall_s": o.wall.Seconds(), "race_reports": len(o.races)}
		if o.res != nil {
			m["counters"] = o.res.Counters
		}
		for k, v := range extra {
			m[k] = v
		}
		return m
	}
}

func keyOf(w *Workload) string {
	b, _ := json.Marshal(w)
	return string(b)
}

// ---------------------------------------------------------------------------------------------------------------
// (a) chain readers vs writer

var readerProfiles = map[string][]string{
	"tip":    {"LastBlock", "LastBlock", "GetLastBlock", "rpcLastBlock", "GetLastNBlocks", "GetBlockHeaderByHeight"},
	"bulk":   {"GetBlockHeaders", "GetBlockHeadersByHeights", "GetTransactions", "GetBlocksBetweenHeight"},
	"rpc":    {"rpcLastBlock", "rpcHighestCommon", "rpcBlocksFromID", "rpcMalformed"},
	"single": {"GetBlockHeader", "GetBlockHeaderByHeight", "GetBlock", "GetBlockByHeight", "GetTransaction", "LastBlock"},
	"mixed":  chainOps,
}

// applyKnown removes from a generated chain workload the triggers of the findings listed as known (DESIGN §1.6): the
// search continues behind them; the dedicated TestRegress… cases keep exercising the triggers themselves.
func applyKnown(c *ChainW) int64 {
	excluded := int64(0)
	lastKnown := isKnown(sigReentrant)
	for i := range c.Readers {
		for name := range c.Readers[i].Ops {
			drop := lastKnown && opsUsingLast[name]
			if sigs, ok := opsBulkAppend[name]; ok && (isKnown(sigs[0]) || isKnown(sigs[1])) {
				drop = true
			}
			if drop && c.Readers[i].Ops[name] > 0 {
				c.Readers[i].Ops[name] = 0
				excluded++
			}
		}
		total := 0
		for _, v := range c.Readers[i].Ops {
			total += v
		}
		if total == 0 {
			c.Readers[i].Ops["GetBlockHeader"] = 1
			c.Readers[i].Ops["GetBlocksBetweenHeight"] = 1
		}
	}
	if isKnown(sigNilTip) || isKnown(sigStaleTip) {
		c.KeepCached = true
	}
	if isKnown(sigUnderflow) {
		c.StableFrom = true
	}
	if isKnown(sigDeletedTip) {
		c.NoRemoveOrd = true
		excluded++
	}
	return excluded
}

// the quick tier keeps the writer's part short (a case costs 10-30 s on an idle machine, several times that under load)
func writerOpsChoices() []int {
	if evid.Thorough() {
		return []int{60, 200, 240, 320, 400}
	}
	return []int{60, 200, 200, 240}
}

func drawChain(t *rapid.T) *Workload {
	w := drawCommon(t, "chain")
	c := &ChainW{
		Cache:       rapid.SampledFrom([]int{4, 8, 64}).Draw(t, "cache"),
		Stable:      rapid.SampledFrom([]int{24, 40, 72}).Draw(t, "stable"),
		TxPer:       rapid.IntRange(1, 4).Draw(t, "txPer"),
		Finality:    rapid.IntRange(0, 3).Draw(t, "finality") == 0,
		WriterOps:   rapid.SampledFrom(writerOpsChoices()).Draw(t, "writerOps"),
		MaxDepth:    rapid.IntRange(1, 12).Draw(t, "maxDepth"),
		MaxChurn:    rapid.IntRange(6, 24).Draw(t, "maxChurn"),
		WriterYield: rapid.IntRange(0, 2).Draw(t, "writerYield"),
		Listen:      rapid.IntRange(2, 250).Draw(t, "listen"),
		MinReader:   rapid.SampledFrom([]int{100, 400, 1000}).Draw(t, "minReaderOps"),
		Subscribers: rapid.IntRange(0, 2).Draw(t, "subscribers"),
	}
	if c.Finality && c.MaxDepth > 3 {
		c.MaxDepth = 3
	}
	maxReaders := 8
	if evid.Thorough() {
		maxReaders = 10
	}
	nr := rapid.IntRange(2, maxReaders).Draw(t, "readers")
	for i := 0; i < nr; i++ {
		prof := rapid.SampledFrom([]string{"tip", "bulk", "rpc", "single", "mixed", "mixed"}).Draw(t, "profile")
		rw := ReaderW{Ops: map[string]int{}, Yield: rapid.IntRange(0, 2).Draw(t, "yield"), Bulk: rapid.SampledFrom([]int{8, 24, 64}).Draw(t, "bulk")}
		for _, name := range readerProfiles[prof] {
			rw.Ops[name] += rapid.IntRange(1, 5).Draw(t, "weight")
		}
		c.Readers = append(c.Readers, rw)
	}
	w.Chain = c
	return w
}

func TestChainReadersWriter(t *testing.T) {
	rapid.Check(t, func(t *rapid.T) {
		w := drawChain(t)
		excluded := applyKnown(w.Chain)
		evid.R.Excluded(excluded)
		o := runChild(w)
		verdict(t, w, o)
		nontrivial := false
		labels := []string{"chain", fmt.Sprintf("chain:cache-%d", w.Chain.Cache), fmt.Sprintf("chain:procs-%d", w.Procs), fmt.Sprintf("chain:finality-%v", w.Chain.Finality), fmt.Sprintf("chain:subscribers-%d", w.Chain.Subscribers)}
		if o.res != nil {
			wr := o.res.Counters["writer:add"] + o.res.Counters["writer:remove"]
			nontrivial = len(w.Chain.Readers) >= 4 && wr >= 200 && o.res.Counters["bulk-lookups"] >= 1000 && o.res.Done
			if o.res.Counters["writer:cache-emptied"] > 0 {
				labels = append(labels, "chain:cache-emptied-and-refilled")
			}
		}
		evid.R.Case(keyOf(w), nontrivial, sampleOf(w, o, nil), labels...)
	})
}

// ---------------------------------------------------------------------------------------------------------------
// (b) certificate pool

func TestCertificatePool(t *testing.T) {
	rapid.Check(t, func(t *rapid.T) {
		w := drawCommon(t, "pool")
		p := &PoolW{
			Workers:  rapid.IntRange(2, 12).Draw(t, "workers"),
			Ops:      rapid.SampledFrom([]int{300, 1000, 3000}).Draw(t, "ops"),
			Heights:  rapid.IntRange(1, 12).Draw(t, "heights"),
			Doom:     rapid.IntRange(1, 8).Draw(t, "doom"),
			Yield:    rapid.IntRange(0, 2).Draw(t, "yield"),
			Prebuilt: rapid.IntRange(1, 8).Draw(t, "validators"),
		}
		for i := 0; i < 8; i++ {
			p.Weights = append(p.Weights, rapid.IntRange(0, 6).Draw(t, "weight"))
		}
		p.Weights[0]++ // Add is always possible
		w.Pool = p
		o := runChild(w)
		verdict(t, w, o)
		total := int64(0)
		if o.res != nil {
			for k, v := range o.res.Counters {
				if strings.HasPrefix(k, "op:") {
					total += v
				}
			}
		}
		evid.R.Case(keyOf(w), p.Workers >= 4 && total >= 2000 && o.res != nil && o.res.Done, sampleOf(w, o, nil), "pool", fmt.Sprintf("pool:procs-%d", w.Procs))
	})
}

// ---------------------------------------------------------------------------------------------------------------
// (c) event emitter

func TestEventEmitter(t *testing.T) {
	rapid.Check(t, func(t *rapid.T) {
		w := drawCommon(t, "event")
		e := &EventW{
			Topics:     rapid.IntRange(1, 3).Draw(t, "topics"),
			Publishers: rapid.IntRange(1, 6).Draw(t, "publishers"),
			Messages:   rapid.SampledFrom([]int{100, 400, 1500}).Draw(t, "messages"),
			Managers:   rapid.IntRange(1, 6).Draw(t, "managers"),
			Subs:       rapid.IntRange(1, 12).Draw(t, "subs"),
			Hold:       rapid.SampledFrom([]int{0, 20, 200, 2000}).Draw(t, "hold"),
			KeepOpen:   rapid.IntRange(0, 2).Draw(t, "keepOpen"),
			UnsubAll:   rapid.IntRange(0, 2).Draw(t, "unsubAll"),
			Yield:      rapid.IntRange(0, 2).Draw(t, "yield"),
			DrainYield: rapid.IntRange(0, 2).Draw(t, "drainYield"),
		}
		w.Event = e
		o := runChild(w)
		verdict(t, w, o)
		nt := false
		if o.res != nil {
			nt = o.res.Done && e.Publishers+e.Managers >= 4 && o.res.Counters["delivered"] >= 500 && o.res.Counters["op:Unsubscribe"] >= 4
		}
		evid.R.Case(keyOf(w), nt, sampleOf(w, o, nil), "event", fmt.Sprintf("event:procs-%d", w.Procs))
	})
}

// ---------------------------------------------------------------------------------------------------------------
// (d) staged store through sibling prefix views

func TestStagedStoreViews(t *testing.T) {
	rapid.Check(t, func(t *rapid.T) {
		w := drawCommon(t, "store")
		s := &StoreW{
			Mode:    rapid.SampledFrom([]string{"exact", "exact", "free"}).Draw(t, "mode"),
			Workers: rapid.IntRange(2, 10).Draw(t, "views"),
			Ops:     rapid.SampledFrom([]int{300, 1000, 3000}).Draw(t, "ops"),
			Keys:    rapid.IntRange(2, 40).Draw(t, "keys"),
			Base:    rapid.IntRange(0, 4).Draw(t, "base"),
			Yield:   rapid.IntRange(0, 2).Draw(t, "yield"),
		}
		for i := 0; i < 8; i++ {
			s.Weights = append(s.Weights, rapid.IntRange(0, 6).Draw(t, "weight"))
		}
		s.Weights[2]++ // Set is always possible
		if s.Weights[6] > 2 {
			s.Weights[6] = 2 // snapshots copy the whole overlay: keep them a minority
		}
		w.Store = s
		o := runChild(w)
		verdict(t, w, o)
		total := int64(0)
		if o.res != nil {
			for k, v := range o.res.Counters {
				if strings.HasPrefix(k, "op:") {
					total += v
				}
			}
		}
		evid.R.Case(keyOf(w), s.Workers >= 4 && total >= 2000 && o.res != nil && o.res.Done, sampleOf(w, o, nil), "store", "store:mode-"+s.Mode, fmt.Sprintf("store:procs-%d", w.Procs))
	})
}

// ---------------------------------------------------------------------------------------------------------------
// (g) staged store: shared keys through the parent and its views, linearizability oracle (lin_test.go)

func drawLin(t *rapid.T) *Workload {
	w := drawCommon(t, "lin")
	l := &LinW{
		Workers:   rapid.IntRange(2, 8).Draw(t, "goroutines"),
		Views:     rapid.IntRange(1, 4).Draw(t, "views"),
		UseRoot:   rapid.Bool().Draw(t, "useParent"),
		Modules:   rapid.IntRange(1, 2).Draw(t, "modules"),
		Keys:      rapid.IntRange(2, 8).Draw(t, "keysPerModule"),
		BaseQ:     rapid.IntRange(1, 4).Draw(t, "storedQuarter"),
		Rounds:    rapid.SampledFrom([]int{20, 40, 80}).Draw(t, "rounds"),
		Ops:       rapid.SampledFrom([]int{8, 20, 50}).Draw(t, "ops"),
		Owner:     rapid.IntRange(0, 2).Draw(t, "singleWriter") == 0,
		ParkUs:    rapid.SampledFrom([]int{0, 50, 200, 200, 500}).Draw(t, "parkUs"),
		ParkEvery: rapid.SampledFrom([]int{1, 1, 2, 3}).Draw(t, "parkEvery"),
		Chase:     rapid.IntRange(1, 4).Draw(t, "chase"),
		Yield:     rapid.IntRange(0, 2).Draw(t, "yield"),
	}
	for i := 0; i < 6; i++ {
		l.Weights = append(l.Weights, rapid.IntRange(0, 6).Draw(t, "weight"))
	}
	l.Weights[linGet]++ // a first read of a stored key and a write are always possible
	l.Weights[linSet]++
	if l.Views < l.Modules {
		l.UseRoot = true // every key needs a handle
	}
	w.Lin = l
	return w
}

// linNontrivial: enough goroutines and calls, and the interleaving the oracle is there for really was produced at least ten
// times: a Get/Has of a stored key that was called before any call on that key had returned (so it can be the one that
// finds the key uncached and reads the store) overlapped a Set/Del of that key by another goroutine.
func linNontrivial(w *Workload, o *outcome) bool {
	if o.res == nil || !o.res.Done {
		return false
	}
	total := int64(0)
	for k, v := range o.res.Counters {
		if strings.HasPrefix(k, "op:") {
			total += v
		}
	}
	return w.Lin.Workers >= 3 && total >= 1000 && o.res.Counters["stored-keys-first-read-overlapping-a-write"] >= 10
}

func TestStagedStoreLinearizable(t *testing.T) {
	rapid.Check(t, func(t *rapid.T) {
		w := drawLin(t)
		o := runChild(w)
		verdict(t, w, o)
		l := w.Lin
		evid.R.Case(keyOf(w), linNontrivial(w, o), sampleOf(w, o, nil), "lin", fmt.Sprintf("lin:single-writer-%v", l.Owner), fmt.Sprintf("lin:procs-%d", w.Procs),
			fmt.Sprintf("lin:park-us-%d", l.ParkUs), fmt.Sprintf("lin:views-%d", l.Views), fmt.Sprintf("lin:parent-used-%v", l.UseRoot))
	})
}

// ---------------------------------------------------------------------------------------------------------------
// (e) block sync peer polling [thorough]

func TestBlockSyncPolling(t *testing.T) {
	if !evid.Thorough() {
		t.Skip("thorough tier only")
	}
	rapid.Check(t, func(t *rapid.T) {
		w := drawCommon(t, "sync")
		forkR := rapid.IntRange(0, 3).Draw(t, "forkR")
		s := &SyncW{
			Peers:   rapid.IntRange(3, 6).Draw(t, "peers"),
			Prefix:  rapid.IntRange(8, 24).Draw(t, "prefix"),
			ForkR:   forkR,
			Ahead:   forkR + rapid.IntRange(1, 6).Draw(t, "ahead"),
			Rounds:  rapid.IntRange(1, 3).Draw(t, "rounds"),
			Readers: rapid.IntRange(1, 6).Draw(t, "readers"),
			IPBase:  rapid.IntRange(0, 240).Draw(t, "ipBase"),
			UseLast: !isKnown(sigReentrant),
			UseBulk: !isKnown(sigRaceByHeights) && !isKnown(sigLostByHeights),
			Yield:   rapid.IntRange(0, 2).Draw(t, "yield"),
		}
		w.Sync = s
		w.Budget = 400
		o := runChild(w)
		verdict(t, w, o)
		nt := o.res != nil && o.res.Counters["sync:converged"] >= 1
		evid.R.Case(keyOf(w), nt, sampleOf(w, o, nil), "sync", fmt.Sprintf("sync:peers-%d", s.Peers))
	})
}
