package c20

// Workload (h) "rpc": the three sync RPC handlers under the request sizes real peers send.
//
// A node with a SMALL block cache (4/8/16) over a chain of a few hundred blocks (0..TxMax transactions each), so that
// almost every block a request names has to be read from the database. Concurrent callers invoke the handlers
// getLastBlock / getHighestCommonBlock / getBlocksFromId the way the p2p layer does (one goroutine per request, a
// ResponseWriter that records the answer) with ID lists of 1..300 IDs - block sync sends up to 9, FAST sync sends
// 2*validators-1 (205 on a 103-validator network) and the handler accepts any number - while one writer adds and
// removes blocks at the tip and other readers run bulk lookups over ranges up to the whole chain.
//
// Oracles (sound under every interleaving; the writer stamps every AddBlock/RemoveBlock before the call and after its
// return on one atomic counter, callers stamp every request the same way, block IDs are never reused):
//   - every handler call RETURNS. A call that is outstanding for 10 s is examined in three goroutine dumps 3 s apart;
//     it is a violation only if the goroutine that runs the handler and every goroutine it created (transitively) are
//     parked on a channel operation or a WaitGroup in the handler's OWN code (source file pkg/consensus/sync/sync.go),
//     the same goroutines in the same places in all three dumps: what they wait for are objects local to that call,
//     nobody else can wake them. Anything else (a member runnable, sleeping, in a lock or deeper in DataAccess) is left
//     to the global watchdog (main_test.go), which needs every worker to stand still; a slow call is never a verdict;
//   - getHighestCommonBlock: the answer is one of the requested IDs, a block that was on the chain at some moment of the
//     call, and at least as high as every requested block that was on the chain during the WHOLE call (all stable
//     blocks are); an empty answer only if no requested block was there during the whole call;
//   - getBlocksFromId: an unknown ID is answered with an error; a served segment starts right above the requested
//     block, has consecutive heights, at most 103 blocks, at least as many as always exist, stable blocks byte-identical;
//     an error is legal only when the segment can reach the churn zone;
//   - getLastBlock: a complete block the writer built, on the chain at some moment of the call, never below the floor;
//   - bulk lookups (GetBlockHeadersByHeights, GetBlockHeaders, GetTransactions over up to 300 items,
//     GetBlocksBetweenHeight up to the whole chain): every stable item exactly as often as requested, churn items at
//     most once, nothing else;
//   - after the workload no goroutine with a frame of a handler is left (positive evidence only: parked, in two dumps);
//   - no race report (the child runs under -race).

import (
	"bytes"
	"encoding/binary"
	"fmt"
	"runtime"
	"sort"
	"strconv"
	"strings"
	"sync"
	"sync/atomic"
	"testing"
	"time"

	"pgregory.net/rapid"

	"github.com/LiskHQ/lisk-engine/pkg/blockchain"
	"github.com/LiskHQ/lisk-engine/pkg/codec"
	csync "github.com/LiskHQ/lisk-engine/pkg/consensus/sync"
	"github.com/LiskHQ/lisk-engine/pkg/crypto"
	"github.com/LiskHQ/lisk-engine/pkg/db"
	"github.com/LiskHQ/lisk-engine/pkg/p2p"
	"github.com/LiskHQ/lisk-engine/pkg/trie/rmt"

	"verifharness/evid"
	"verifharness/node"
)

const (
	rpcLast   = "getLastBlock"
	rpcCommon = "getHighestCommonBlock"
	rpcBlocks = "getBlocksFromId"
)

var rpcHandlerOps = []string{rpcLast, rpcCommon, rpcBlocks}
var rpcBulkOps = []string{"GetBlocksBetweenHeight", "GetBlockHeadersByHeights", "GetTransactions", "GetBlockHeaders"}
var rpcComps = []string{"known", "unknown", "mixed", "dups", "churn"}

// size classes of an ID list: what block sync sends, a fast sync on a small / a full network, and beyond
var rpcSizeLo = []int{1, 11, 51, 206}
var rpcSizeHi = []int{10, 50, 205, 300}
var rpcSizeName = []string{"<=10", "11-50", "51-205", ">205"}

func rpcCountClass(n int) string {
	switch {
	case n == 0:
		return "0"
	case n <= 10:
		return "1-10"
	case n <= 50:
		return "11-50"
	case n <= 205:
		return "51-205"
	}
	return ">205"
}

type RpcCallerW struct {
	Calls int            `json:"calls"`
	Ops   map[string]int `json:"ops"`   // weights: getLastBlock | getHighestCommonBlock | getBlocksFromId
	Size  []int          `json:"size"`  // weights of the ID-list size classes <=10, 11-50, 51-205, >205
	Comp  map[string]int `json:"comp"`  // weights: known | unknown | mixed | dups | churn
	Order []int          `json:"order"` // weights: descending, ascending, shuffled heights
	Yield int            `json:"yield"`
}

type RpcBulkW struct {
	Calls int            `json:"calls"`
	Ops   map[string]int `json:"ops"` // weights by rpcBulkOps
	Yield int            `json:"yield"`
}

type RpcW struct {
	Cache       int          `json:"cache"`  // MaxBlockCache
	Stable      int          `json:"stable"` // heights 0..Stable are never removed
	TxMax       int          `json:"tx_max"` // 0..TxMax transactions per block
	Pad         int          `json:"pad"`
	MaxDepth    int          `json:"max_depth"`
	MaxChurn    int          `json:"max_churn"`
	WriterYield int          `json:"writer_yield"`
	PauseUS     int          `json:"pause_us"`        // the writer rests this long after a burst
	Fixed       int          `json:"fixed,omitempty"` // > 0: the fixed regression scenario with this many rounds (Callers/Bulk unused)
	Callers     []RpcCallerW `json:"callers,omitempty"`
	Bulk        []RpcBulkW   `json:"bulk,omitempty"`
}

type rblock struct {
	height  uint32
	id      []byte
	enc     []byte
	hdrEnc  []byte
	txIDs   [][]byte
	addCall atomic.Int64 // clock before Chain.AddBlock was called (0 = not yet)
	addRet  atomic.Int64 // clock after it returned
	remCall atomic.Int64 // clock before Chain.RemoveBlock was called for this block
	remRet  atomic.Int64 // clock after it returned
}

// wholeCall: the block was on the chain from before t0 until after t1 (remCall is read after the call: 0 means no removal
// had begun by then).
func (b *rblock) wholeCall(t0, t1 int64) bool {
	ar, rc := b.addRet.Load(), b.remCall.Load()
	return ar != 0 && ar < t0 && (rc == 0 || rc > t1)
}

// duringCall: the block can have been on the chain at some moment between t0 and t1.
func (b *rblock) duringCall(t0, t1 int64) bool {
	ac, rr := b.addCall.Load(), b.remRet.Load()
	return ac != 0 && ac < t1 && (rr == 0 || rr > t0)
}

// callSlot describes the handler call a caller has in flight (read by the per-call watchdog).
type callSlot struct {
	mu     sync.Mutex
	active bool
	gid    int // goroutine that runs the handler
	seq    int64
	kind   string
	desc   string
	since  time.Time
}

type rpcEnv struct {
	r        *run
	w        *RpcW
	database *db.DB
	chain    *blockchain.Chain
	da       *blockchain.DataAccess
	handlers map[string]p2p.RPCHandler
	stable   []*rblock // index = height
	stableTx []*txinfo
	registry sync.Map // string(id) -> *rblock (registered before AddBlock)
	txReg    sync.Map // string(txid) -> *txinfo
	recent   [32]atomic.Pointer[rblock]
	recentN  atomic.Int64
	floor    uint32
	clk      atomic.Int64
	nonce    uint64
	others   atomic.Int64 // callers and bulk readers still running (the writer goes on until they are done)
	slots    []*callSlot
	ms       *chainEnv // for the multiset comparison of chain_test.go
}

func (e *rpcEnv) lookup(id []byte) *rblock {
	if v, ok := e.registry.Load(string(id)); ok {
		return v.(*rblock)
	}
	return nil
}

// build makes a block on top of prev; the nonce goes into every transaction and into the state root: no ID repeats.
func (e *rpcEnv) build(p *prng, prev *rblock, height uint32) (*blockchain.Block, *rblock) {
	keys := node.Keys()
	ntx := p.intn(e.w.TxMax + 1)
	txs := make([]*blockchain.Transaction, ntx)
	ids := make([][]byte, ntx)
	for i := range txs {
		e.nonce++
		params := make([]byte, 1+p.intn(e.w.Pad+1))
		for j := range params {
			params[j] = byte(p.next())
		}
		tx := &blockchain.Transaction{Module: "verif", Command: "rpc", Nonce: e.nonce, Fee: uint64(1000 + p.intn(1000)), SenderPublicKey: keys[p.intn(len(keys))].EdPub,
			Params: params, Signatures: []codec.Hex{crypto.Hash(params)}}
		tx.Init()
		txs[i], ids[i] = tx, tx.ID
	}
	e.nonce++
	var salt [8]byte
	binary.BigEndian.PutUint64(salt[:], e.nonce)
	assets := blockchain.BlockAssets{{Module: "verif", Data: crypto.Hash(salt[:])}}
	prevID := bytes.Repeat([]byte{0}, 32)
	if prev != nil {
		prevID = prev.id
	}
	hd := &blockchain.BlockHeader{Version: 2, Timestamp: 1000 + 10*height, Height: height, PreviousBlockID: prevID, GeneratorAddress: keys[int(height)%len(keys)].Addr,
		TransactionRoot: rmt.CalculateRoot(ids), AssetRoot: assets.GetRoot(), EventRoot: crypto.Hash([]byte{}), StateRoot: crypto.Hash(salt[:]),
		ValidatorsHash:  crypto.Hash([]byte("validators")),
		AggregateCommit: &blockchain.AggregateCommit{Height: 0, AggregationBits: []byte{}, CertificateSignature: []byte{}}, Signature: crypto.Hash(prevID)}
	b := &blockchain.Block{Header: hd, Transactions: txs, Assets: assets}
	b.Init()
	rb := &rblock{height: height, id: append([]byte{}, b.Header.ID...), enc: b.Encode(), hdrEnc: b.Header.Encode(), txIDs: ids}
	if _, loaded := e.registry.LoadOrStore(string(rb.id), rb); loaded {
		e.r.fail("harness", "block ID %x built twice", rb.id)
	}
	for _, tx := range txs {
		e.txReg.Store(string(tx.ID), &txinfo{id: append([]byte{}, tx.ID...), enc: tx.Encode()})
	}
	i := e.recentN.Add(1)
	e.recent[i%int64(len(e.recent))].Store(rb)
	return b, rb
}

func (e *rpcEnv) add(p *prng, prev *rblock, height uint32) (*rblock, error) {
	b, rb := e.build(p, prev, height)
	rb.addCall.Store(e.clk.Add(1))
	err := e.chain.AddBlock(e.database.NewBatch(), b, []*blockchain.Event{}, 0, p.intn(2) == 0)
	rb.addRet.Store(e.clk.Add(1))
	return rb, err
}

func newRpcEnv(r *run, p *prng) (*rpcEnv, []*rblock) {
	w := r.w.Rpc
	database, err := db.NewInMemoryDB()
	if err != nil {
		r.fail("harness", "open database: %v", err)
		return nil, nil
	}
	e := &rpcEnv{r: r, w: w, database: database, ms: &chainEnv{r: r}}
	e.clk.Store(10)
	e.chain = blockchain.NewChain(&blockchain.ChainConfig{ChainID: node.ChainID, MaxTransactionsLength: 15 * 1024, MaxBlockCache: w.Cache, KeepEventsForHeights: -1})
	genesis, grb := e.build(p, nil, 0)
	e.chain.Init(genesis, database)
	e.da = e.chain.DataAccess()
	grb.addCall.Store(1)
	if err := e.chain.AddBlock(database.NewBatch(), genesis, []*blockchain.Event{}, 0, false); err != nil {
		r.fail("harness", "genesis: %v", err)
		return nil, nil
	}
	grb.addRet.Store(2)
	stack := []*rblock{grb}
	for h := 1; h <= w.Stable; h++ {
		rb, err := e.add(p, stack[len(stack)-1], uint32(h))
		if err != nil {
			r.fail("harness", "stable chain: %v", err)
			return nil, nil
		}
		stack = append(stack, rb)
	}
	e.stable = append([]*rblock{}, stack...)
	for _, rb := range e.stable {
		for _, id := range rb.txIDs {
			v, _ := e.txReg.Load(string(id))
			e.stableTx = append(e.stableTx, v.(*txinfo))
		}
	}
	e.floor = uint32(w.Stable)
	// The handlers need nothing of the Syncer but the chain (the connection is used to ban the sender of a malformed
	// request only; malformed requests are part of workload (a)).
	syncer := csync.NewSyncer(e.chain, nil, nil, node.NopLogger(), nil, nil)
	e.handlers = map[string]p2p.RPCHandler{
		rpcLast:   syncer.HandleRPCEndpointGetLastBlock(),
		rpcCommon: syncer.HandleRPCEndpointGetHighestCommonBlock(),
		rpcBlocks: syncer.HandleRPCEndpointGetBlocksFromID(),
	}
	return e, stack
}

// ---------------------------------------------------------------------------------------------------------------
// Writer: bursts of removals and additions at the tip for as long as callers or bulk readers are running. Its
// operations do not feed the global watchdog (otherwise a workload whose readers all hang would look alive).

func (e *rpcEnv) writer(p *prng, stack []*rblock) {
	w := e.w
	pendingRemove, pendingAdd := 0, 0
	for op := 0; op < 200000 && e.others.Load() > 0 && !e.r.finished.Load(); op++ {
		top := stack[len(stack)-1]
		h := top.height
		if pendingRemove == 0 && pendingAdd == 0 {
			if w.PauseUS > 0 && op > 0 {
				time.Sleep(time.Duration(w.PauseUS) * time.Microsecond)
			}
			depth := 1 + p.intn(w.MaxDepth)
			if p.intn(3) == 0 {
				depth = 1
			}
			pendingRemove = depth
			pendingAdd = depth + p.intn(3) - 1
			if int(h)-int(e.floor) < w.MaxChurn/2 {
				pendingAdd += 1 + p.intn(2)
			}
			if pendingAdd < 0 {
				pendingAdd = 0
			}
		}
		remove := pendingRemove > 0
		if remove && h <= e.floor {
			remove, pendingRemove = false, 0
			if pendingAdd == 0 {
				pendingAdd = 1
			}
		}
		if !remove && int(h)-int(e.floor) >= w.MaxChurn && h > e.floor {
			remove, pendingRemove, pendingAdd = true, 1+p.intn(w.MaxDepth), 0
		}
		if remove {
			top.remCall.Store(e.clk.Add(1))
			err := e.chain.RemoveBlock(e.database.NewBatch(), p.intn(2) == 0)
			top.remRet.Store(e.clk.Add(1))
			if err != nil {
				e.r.fail("writer", "RemoveBlock at height %d: %v", h, err)
				return
			}
			stack = stack[:len(stack)-1]
			pendingRemove--
			e.r.count("writer:remove", 1)
		} else {
			rb, err := e.add(p, top, h+1)
			if err != nil {
				e.r.fail("writer", "AddBlock at height %d: %v", h+1, err)
				return
			}
			stack = append(stack, rb)
			if pendingAdd > 0 {
				pendingAdd--
			}
			e.r.count("writer:add", 1)
		}
		p.yield(w.WriterYield)
	}
}

// ---------------------------------------------------------------------------------------------------------------
// One handler call, the way the p2p layer makes it: in a goroutine of its own.

func currentGoroutine() int {
	var buf [64]byte
	s := string(buf[:runtime.Stack(buf[:], false)])
	s = strings.TrimPrefix(s, "goroutine ")
	if i := strings.IndexByte(s, ' '); i > 0 {
		n, _ := strconv.Atoi(s[:i])
		return n
	}
	return 0
}

// invoke runs the handler and waits for it without a deadline: whether a call that does not come back is blocked for
// ever is decided by the per-call watchdog from goroutine dumps, never by a timer.
func (e *rpcEnv) invoke(slot *callSlot, kind string, data []byte, desc string) (c *capture, t0, t1 int64, ok bool) {
	c = &capture{}
	done := make(chan struct{})
	slot.mu.Lock()
	slot.active, slot.gid, slot.kind, slot.desc, slot.since = true, 0, kind, desc, time.Now()
	slot.seq++
	slot.mu.Unlock()
	ok = true
	t0 = e.clk.Add(1)
	go func() {
		defer close(done)
		defer func() {
			if v := recover(); v != nil {
				buf := make([]byte, 1<<15)
				buf = buf[:runtime.Stack(buf, false)]
				e.r.fail("panic:"+kind, "handler %s panicked on %s: %v\n%s", kind, desc, v, buf)
				ok = false
			}
		}()
		gid := currentGoroutine()
		slot.mu.Lock()
		slot.gid = gid
		slot.mu.Unlock()
		e.handlers[kind](c, &p2p.Request{Data: data, PeerID: "caller"})
	}()
	<-done
	t1 = e.clk.Add(1)
	slot.mu.Lock()
	slot.active = false
	slot.mu.Unlock()
	e.r.count("call:"+kind, 1)
	return c, t0, t1, ok
}

// ---- getHighestCommonBlock ----

func (e *rpcEnv) unknownID(p *prng) []byte {
	var b [8]byte
	binary.BigEndian.PutUint64(b[:], p.next())
	return crypto.Hash(append([]byte("unknown block "), b[:]...))
}

// knownIDs: n IDs of stable blocks: the last n below a top (what fast sync sends), heights with a gap (block sync), or
// distinct random heights.
func (e *rpcEnv) knownIDs(p *prng, n int) [][]byte {
	N := len(e.stable)
	if n > N {
		n = N
	}
	ids := make([][]byte, 0, n)
	switch p.intn(3) {
	case 0:
		top := n - 1 + p.intn(N-n+1)
		if p.intn(2) == 0 {
			top = N - 1
		}
		for i := 0; i < n; i++ {
			ids = append(ids, e.stable[top-i].id)
		}
	case 1:
		gap := 1 + p.intn(max(1, (N-1)/max(1, n)))
		for h := N - 1 - p.intn(gap); h >= 0 && len(ids) < n; h -= gap {
			ids = append(ids, e.stable[h].id)
		}
	default:
		perm := make([]int, N)
		for i := range perm {
			perm[i] = i
		}
		for i := 0; i < n; i++ {
			j := i + p.intn(N-i)
			perm[i], perm[j] = perm[j], perm[i]
			ids = append(ids, e.stable[perm[i]].id)
		}
	}
	return ids
}

func (e *rpcEnv) drawIDs(p *prng, cw *RpcCallerW) ([][]byte, string, int) {
	class := p.pick(cw.Size)
	n := rpcSizeLo[class] + p.intn(rpcSizeHi[class]-rpcSizeLo[class]+1)
	weights := make([]int, len(rpcComps))
	for i, c := range rpcComps {
		weights[i] = cw.Comp[c]
	}
	comp := rpcComps[p.pick(weights)]
	var ids [][]byte
	switch comp {
	case "known":
		ids = e.knownIDs(p, n)
	case "unknown":
		for i := 0; i < n; i++ {
			ids = append(ids, e.unknownID(p))
		}
	case "mixed", "churn":
		u := 0
		if n >= 2 {
			u = 1 + p.intn(n-1)
			if p.intn(2) == 0 && u > 8 {
				u = 1 + p.intn(8) // a fork of a few blocks on top of a long common part
			}
		}
		c := 0
		if comp == "churn" {
			c = 1 + p.intn(8)
			if c > n-u {
				c = n - u
			}
		}
		for i := 0; i < u; i++ {
			ids = append(ids, e.unknownID(p))
		}
		seen := map[string]bool{}
		for i := 0; i < c; i++ { // blocks the writer is adding or removing right now (or is about to add)
			if rb := e.recent[p.intn(len(e.recent))].Load(); rb != nil && rb.height > e.floor && !seen[string(rb.id)] {
				seen[string(rb.id)] = true
				ids = append(ids, rb.id)
			}
		}
		ids = append(ids, e.knownIDs(p, n-len(ids))...)
	case "dups":
		base := e.knownIDs(p, 1+p.intn(min(n, 24)))
		for i := 0; i < n; i++ {
			ids = append(ids, base[p.intn(len(base))])
		}
	}
	// order by height (IDs nobody built sort above everything: the sender's own fork comes first in a fast sync request)
	height := func(id []byte) int64 {
		if rb := e.lookup(id); rb != nil {
			return int64(rb.height)
		}
		return 1 << 40
	}
	order := p.pick(cw.Order)
	switch order {
	case 0:
		sort.SliceStable(ids, func(i, j int) bool { return height(ids[i]) > height(ids[j]) })
	case 1:
		sort.SliceStable(ids, func(i, j int) bool { return height(ids[i]) < height(ids[j]) })
	default:
		shuffleBytes(p, ids)
	}
	return ids, comp + "/" + []string{"descending", "ascending", "shuffled"}[order], class
}

// commonCall sends one getHighestCommonBlock request and judges the answer.
func (e *rpcEnv) commonCall(slot *callSlot, ids [][]byte, what string) {
	desc := fmt.Sprintf("getHighestCommonBlock with %d IDs (%s)", len(ids), what)
	c, t0, t1, ok := e.invoke(slot, rpcCommon, (&csync.GetHighestCommonBlockRequest{IDs: ids}).Encode(), desc)
	if !ok {
		return
	}
	requested := map[string]bool{}
	knownOcc := 0
	var highest *rblock // highest requested block that was on the chain during the whole call
	for _, id := range ids {
		requested[string(id)] = true
		if rb := e.lookup(id); rb != nil && rb.wholeCall(t0, t1) {
			knownOcc++
			if highest == nil || rb.height > highest.height {
				highest = rb
			}
		}
	}
	e.r.count("common:ids-"+rpcSizeName[sizeClassOf(len(ids))], 1)
	e.r.count("common:known-ids-"+rpcCountClass(knownOcc), 1)
	if knownOcc > 10 {
		e.r.count("common:requests-with-more-than-10-known-ids", 1)
	}
	if knownOcc > 50 {
		e.r.count("common:requests-with-more-than-50-known-ids", 1)
	}
	desc += fmt.Sprintf(", %d of them known during the whole call", knownOcc)
	if !c.called || c.err != nil {
		e.r.fail("error:"+rpcCommon, "%s: no answer written (called=%v err=%v)", desc, c.called, c.err)
		return
	}
	resp := &csync.GetHighestCommonBlockResponse{}
	if len(c.data) == 0 || resp.Decode(c.data) != nil || len(resp.ID) == 0 {
		if highest != nil {
			e.r.fail("lost-item:"+rpcCommon, "%s: no common block reported although the block at height %d was requested and on the chain all the time", desc, highest.height)
		} else {
			e.r.count("common:empty-answer(correct)", 1)
		}
		return
	}
	rb := e.lookup(resp.ID)
	switch {
	case !requested[string(resp.ID)]:
		e.r.fail("foreign-item:"+rpcCommon, "%s: answer %x is not one of the requested IDs", desc, resp.ID)
	case rb == nil:
		e.r.fail("foreign-item:"+rpcCommon, "%s: answer %x is a block nobody built", desc, resp.ID)
	case !rb.duringCall(t0, t1):
		e.r.fail("wrong-item:"+rpcCommon, "%s: answer at height %d was not on the chain at any moment of the call (added %d..%d, removed %d..%d, call %d..%d)", desc, rb.height,
			rb.addCall.Load(), rb.addRet.Load(), rb.remCall.Load(), rb.remRet.Load(), t0, t1)
	case highest != nil && rb.height < highest.height:
		e.r.fail("wrong-item:"+rpcCommon, "%s: answer at height %d although the block at height %d was requested and on the chain all the time", desc, rb.height, highest.height)
	}
}

func sizeClassOf(n int) int {
	for i, hi := range rpcSizeHi {
		if n <= hi {
			return i
		}
	}
	return len(rpcSizeHi) - 1
}

// ---- getBlocksFromId ----

func (e *rpcEnv) blocksCall(slot *callSlot, p *prng) {
	var from *rblock
	var id []byte
	mode := p.intn(8)
	S := int(e.floor)
	switch {
	case mode <= 2 && S > 103: // deep: 103 blocks, none of them cached
		from = e.stable[p.intn(S-103+1)]
	case mode <= 4: // the segment reaches the churn zone
		from = e.stable[S-p.intn(min(S, 103))]
	case mode <= 6:
		from = e.recent[p.intn(len(e.recent))].Load()
	}
	what := "an ID nobody built"
	if from != nil {
		id = from.id
		what = fmt.Sprintf("the block at height %d", from.height)
	} else {
		id = e.unknownID(p)
	}
	desc := "getBlocksFromId from " + what
	c, t0, t1, ok := e.invoke(slot, rpcBlocks, (&csync.GetBlocksFromIDRequest{ID: id}).Encode(), desc)
	if !ok {
		return
	}
	if !c.called {
		e.r.fail("error:"+rpcBlocks, "%s: the handler returned without an answer", desc)
		return
	}
	always := 0 // blocks above the requested one that exist whatever the writer does
	if from != nil && from.height < e.floor {
		always = int(min32(e.floor-from.height, 103))
	}
	if c.err != nil {
		switch {
		case from == nil:
			e.r.count("blocks:unknown-id-refused(correct)", 1)
		case from.height+103 <= e.floor:
			e.r.fail("lost-item:"+rpcBlocks, "%s: error %v although the 103 blocks above it are never touched", desc, c.err)
		default:
			e.r.count("blocks:error(allowed)", 1) // tip read first, range read later, or the requested block itself is gone
		}
		return
	}
	if from == nil {
		e.r.fail("foreign-item:"+rpcBlocks, "%s: answered with data instead of an error", desc)
		return
	}
	if from.height > e.floor && !from.duringCall(t0, t1) {
		e.r.fail("wrong-item:"+rpcBlocks, "%s: answered although that block was not on the chain at any moment of the call", desc)
		return
	}
	resp := &csync.GetBlocksFromIDResponse{}
	if err := resp.Decode(c.data); err != nil {
		e.r.fail("error:"+rpcBlocks, "%s: answer does not decode: %v", desc, err)
		return
	}
	if len(resp.Blocks) > 103 || len(resp.Blocks) < always {
		e.r.fail("wrong-count:"+rpcBlocks, "%s: %d blocks served, at least %d always exist, at most 103 are served", desc, len(resp.Blocks), always)
		return
	}
	e.r.count("blocks:served-"+rpcCountClass(len(resp.Blocks)), 1)
	for i, b := range resp.Blocks {
		b.Init()
		h := from.height + 1 + uint32(i)
		if b.Header.Height != h {
			e.r.fail("wrong-item:"+rpcBlocks, "%s: element %d has height %d, the segment must be consecutive (want %d)", desc, i, b.Header.Height, h)
			return
		}
		if h <= e.floor {
			if !bytes.Equal(b.Encode(), e.stable[h].enc) {
				e.r.fail("wrong-item:"+rpcBlocks, "%s: stable block %d differs from the committed one", desc, h)
				return
			}
		} else if rb := e.lookup(b.Header.ID); rb == nil || rb.height != h {
			e.r.fail("foreign-item:"+rpcBlocks, "%s: element %d (%x, height %d) is not a block the writer built at that height", desc, i, b.Header.ID, h)
			return
		}
	}
}

// ---- getLastBlock ----

func (e *rpcEnv) lastCall(slot *callSlot) {
	c, t0, t1, ok := e.invoke(slot, rpcLast, nil, "getLastBlock")
	if !ok {
		return
	}
	if !c.called || c.err != nil {
		e.r.fail("error:"+rpcLast, "no answer written (called=%v err=%v)", c.called, c.err)
		return
	}
	b, err := blockchain.NewBlock(c.data)
	if err != nil {
		e.r.fail("incomplete-tip:"+rpcLast, "answer does not decode: %v", err)
		return
	}
	rb := e.lookup(b.Header.ID)
	switch {
	case rb == nil:
		e.r.fail("incomplete-tip:"+rpcLast, "tip %x at height %d was never built by the writer", b.Header.ID, b.Header.Height)
	case !bytes.Equal(b.Encode(), rb.enc):
		e.r.fail("incomplete-tip:"+rpcLast, "tip at height %d differs from the block the writer built with that ID", b.Header.Height)
	case rb.height < e.floor:
		e.r.fail("tip-below-floor:"+rpcLast, "tip at height %d, the writer never leaves a tip below %d", rb.height, e.floor)
	case !rb.duringCall(t0, t1):
		e.r.fail("wrong-item:"+rpcLast, "tip at height %d was not on the chain at any moment of the call", rb.height)
	}
}

func (e *rpcEnv) caller(idx int, p *prng, prog *atomic.Int64) {
	cw := &e.w.Callers[idx]
	slot := e.slots[idx]
	weights := make([]int, len(rpcHandlerOps))
	for i, n := range rpcHandlerOps {
		weights[i] = cw.Ops[n]
	}
	for i := 0; i < cw.Calls && !e.r.finished.Load(); i++ {
		switch rpcHandlerOps[p.pick(weights)] {
		case rpcLast:
			e.lastCall(slot)
		case rpcCommon:
			ids, what, _ := e.drawIDs(p, cw)
			e.commonCall(slot, ids, what)
		case rpcBlocks:
			e.blocksCall(slot, p)
		}
		prog.Add(1)
		p.yield(cw.Yield)
	}
}

// ---------------------------------------------------------------------------------------------------------------
// Bulk readers: lookups over up to the whole chain (almost all of it uncached).

func (e *rpcEnv) bulkReader(idx int, p *prng, prog *atomic.Int64) {
	bw := &e.w.Bulk[idx]
	weights := make([]int, len(rpcBulkOps))
	for i, n := range rpcBulkOps {
		weights[i] = bw.Ops[n]
	}
	for i := 0; i < bw.Calls && !e.r.finished.Load(); i++ {
		name := rpcBulkOps[p.pick(weights)]
		func() {
			defer func() {
				if v := recover(); v != nil {
					buf := make([]byte, 1<<15)
					buf = buf[:runtime.Stack(buf, false)]
					e.r.fail("panic:"+name, "%s panicked: %v\n%s", name, v, buf)
				}
			}()
			e.bulkOp(name, p)
		}()
		e.r.count("bulk:"+name, 1)
		prog.Add(1)
		p.yield(bw.Yield)
	}
}

// span draws the number of items of a bulk lookup: everything, a large part (>= 64), or a few.
func (e *rpcEnv) span(p *prng, all int) int {
	switch p.intn(4) {
	case 0:
		return all
	case 1, 2:
		if all > 64 {
			return 64 + p.intn(all-64+1)
		}
		return all
	}
	return 1 + p.intn(min(all, 16))
}

func (e *rpcEnv) bulkOp(name string, p *prng) {
	N := len(e.stable)
	S := e.floor
	switch name {
	case "GetBlocksBetweenHeight":
		var from, to uint32
		if p.intn(5) == 0 { // reaches the churn zone: an error is a legal answer
			to = S + uint32(p.intn(e.w.MaxChurn+2))
			n := uint32(e.span(p, N))
			if n > to {
				n = to
			}
			from = to - n + 1
		} else {
			n := e.span(p, N)
			from = uint32(p.intn(N - n + 1))
			to = from + uint32(n) - 1
		}
		if int(to-from+1)-e.w.Cache >= 64 {
			e.r.count("bulk:range-lookups-over-64-or-more-uncached-blocks", 1)
		}
		blocks, err := e.da.GetBlocksBetweenHeight(from, to)
		if err != nil {
			if to <= S {
				e.r.fail("lost-item:GetBlocksBetweenHeight", "range %d..%d below the churn zone: %v", from, to, err)
			} else {
				e.r.count("GetBlocksBetweenHeight:error(allowed)", 1)
			}
			return
		}
		if len(blocks) != int(to-from+1) {
			e.r.fail("wrong-count:GetBlocksBetweenHeight", "range %d..%d: %d blocks", from, to, len(blocks))
			return
		}
		for i, b := range blocks {
			h := from + uint32(i)
			if b == nil || b.Header.Height != h {
				e.r.fail("wrong-item:GetBlocksBetweenHeight", "range %d..%d: element %d is not the block at height %d", from, to, i, h)
				return
			}
			if h <= S {
				if !bytes.Equal(b.Encode(), e.stable[h].enc) {
					e.r.fail("wrong-item:GetBlocksBetweenHeight", "stable block %d differs from the committed one", h)
					return
				}
			} else if rb := e.lookup(b.Header.ID); rb == nil || rb.height != h {
				e.r.fail("foreign-item:GetBlocksBetweenHeight", "block %x at height %d is not a block the writer built at that height", b.Header.ID, h)
				return
			}
		}
	case "GetBlockHeadersByHeights":
		n := e.span(p, N)
		var hs []uint32
		want := map[string]int{}
		if p.intn(2) == 0 { // consecutive (what sync asks for), else distinct random heights
			from := p.intn(N - n + 1)
			for i := 0; i < n; i++ {
				hs = append(hs, uint32(from+i))
			}
		} else {
			perm := make([]uint32, N)
			for i := range perm {
				perm[i] = uint32(i)
			}
			for i := 0; i < n; i++ {
				j := i + p.intn(N-i)
				perm[i], perm[j] = perm[j], perm[i]
			}
			hs = append(hs, perm[:n]...)
		}
		if p.intn(4) == 0 { // the same height more than once
			for i := 1 + p.intn(4); i > 0; i-- {
				hs = append(hs, hs[p.intn(len(hs))])
			}
		}
		for _, h := range hs {
			want[fmt.Sprint(h)]++
		}
		optional := map[string]bool{}
		for i := p.intn(5); i > 0; i-- {
			h := S + 1 + uint32(p.intn(e.w.MaxChurn+4))
			if !optional[fmt.Sprint(h)] {
				optional[fmt.Sprint(h)] = true
				hs = append(hs, h)
			}
		}
		if p.intn(2) == 0 {
			for i := len(hs) - 1; i > 0; i-- {
				j := p.intn(i + 1)
				hs[i], hs[j] = hs[j], hs[i]
			}
		}
		hds, err := e.da.GetBlockHeadersByHeights(hs)
		if err != nil {
			e.r.fail("error:GetBlockHeadersByHeights", "%v", err)
			return
		}
		got := map[string]int{}
		for _, hd := range hds {
			if hd == nil {
				e.r.fail("nil-item:GetBlockHeadersByHeights", "nil header in the answer")
				return
			}
			got[fmt.Sprint(hd.Height)]++
			if hd.Height <= S {
				if !bytes.Equal(hd.Encode(), e.stable[hd.Height].hdrEnc) {
					e.r.fail("wrong-item:GetBlockHeadersByHeights", "header of stable height %d is not the committed one", hd.Height)
				}
			} else if rb := e.lookup(hd.ID); rb == nil || rb.height != hd.Height {
				e.r.fail("foreign-item:GetBlockHeadersByHeights", "header %x at height %d is not a block of the writer", hd.ID, hd.Height)
			}
		}
		e.ms.multiset("GetBlockHeadersByHeights", sigLostByHeights, want, optional, got, len(hs))
	case "GetBlockHeaders":
		n := e.span(p, min(N, 300))
		ids := e.knownIDs(p, n)
		want := map[string]int{}
		for _, id := range ids {
			want[string(id)]++
		}
		optional := map[string]bool{}
		for i := p.intn(5); i > 0; i-- {
			if rb := e.recent[p.intn(len(e.recent))].Load(); rb != nil && rb.height > S && !optional[string(rb.id)] {
				optional[string(rb.id)] = true
				ids = append(ids, rb.id)
			}
		}
		for i := p.intn(4); i > 0; i-- {
			ids = append(ids, e.unknownID(p))
		}
		shuffleBytes(p, ids)
		hds, err := e.da.GetBlockHeaders(ids)
		if err != nil {
			e.r.fail("error:GetBlockHeaders", "%v", err)
			return
		}
		got := map[string]int{}
		for _, hd := range hds {
			if hd == nil {
				e.r.fail("nil-item:GetBlockHeaders", "nil header in the answer")
				return
			}
			got[string(hd.ID)]++
			if rb := e.lookup(hd.ID); rb != nil && !bytes.Equal(hd.Encode(), rb.hdrEnc) {
				e.r.fail("wrong-item:GetBlockHeaders", "header %x differs from the committed one", hd.ID)
			}
		}
		e.ms.multiset("GetBlockHeaders", sigLostHeaders, want, optional, got, len(ids))
	case "GetTransactions":
		if len(e.stableTx) < 2 {
			return
		}
		n := e.span(p, min(len(e.stableTx), 300))
		off := p.intn(len(e.stableTx) - n + 1)
		var ids [][]byte
		want := map[string]int{}
		for i := 0; i < n; i++ {
			st := e.stableTx[off+i]
			ids = append(ids, st.id)
			want[string(st.id)]++
		}
		optional := map[string]bool{}
		for i := p.intn(5); i > 0; i-- {
			if rb := e.recent[p.intn(len(e.recent))].Load(); rb != nil && rb.height > S && len(rb.txIDs) > 0 {
				id := rb.txIDs[p.intn(len(rb.txIDs))]
				if !optional[string(id)] {
					optional[string(id)] = true
					ids = append(ids, id)
				}
			}
		}
		for i := p.intn(4); i > 0; i-- {
			ids = append(ids, e.unknownID(p))
		}
		shuffleBytes(p, ids)
		txs, err := e.da.GetTransactions(ids)
		if err != nil {
			e.r.fail("error:GetTransactions", "%v", err)
			return
		}
		got := map[string]int{}
		for _, tx := range txs {
			if tx == nil {
				e.r.fail("nil-item:GetTransactions", "nil transaction in the answer")
				return
			}
			got[string(tx.ID)]++
			if v, ok := e.txReg.Load(string(tx.ID)); !ok || !bytes.Equal(tx.Encode(), v.(*txinfo).enc) {
				e.r.fail("wrong-item:GetTransactions", "transaction %x is not a committed transaction", tx.ID)
			}
		}
		e.ms.multiset("GetTransactions", sigLostTxs, want, optional, got, len(ids))
	}
}

// ---------------------------------------------------------------------------------------------------------------
// Per-call watchdog.

const (
	callStuckAfter = 10 * time.Second // a call outstanding this long is examined
	callDumpGap    = 3 * time.Second
)

// handlerFrame: frame i of g is code of one of the RPC handlers themselves (closures in pkg/consensus/sync/sync.go).
func handlerFrame(g gor, i int) bool {
	if i >= len(g.files) || !strings.HasSuffix(g.files[i], "/pkg/consensus/sync/sync.go") {
		return false
	}
	return strings.Contains(g.frames[i], "HandleRPCEndpoint")
}

// parkedInHandler: g waits on a channel or a WaitGroup and the first frame outside the runtime and package sync is code
// of a handler itself. Returns a normalised state name ("" if not).
func parkedInHandler(g gor) string {
	state := ""
	switch g.state {
	case "chan send", "chan receive":
		state = g.state
	case "semacquire", "sync.WaitGroup.Wait":
		if g.has("sync.(*WaitGroup).Wait") < 0 {
			return ""
		}
		state = "WaitGroup.Wait"
	default:
		return ""
	}
	for i, f := range g.frames {
		if strings.HasPrefix(f, "runtime.") || strings.HasPrefix(f, "sync.") || strings.HasPrefix(f, "internal/") {
			continue
		}
		if handlerFrame(g, i) {
			return state
		}
		return ""
	}
	return ""
}

// family: the goroutine gid and every goroutine created (transitively) by it.
func family(gs []gor, gid int) []gor {
	children := map[int][]int{}
	byID := map[int]gor{}
	for _, g := range gs {
		byID[g.id] = g
		if g.parent != 0 {
			children[g.parent] = append(children[g.parent], g.id)
		}
	}
	root, ok := byID[gid]
	if !ok {
		return nil
	}
	out := []gor{root}
	for queue := []int{gid}; len(queue) > 0; queue = queue[1:] {
		for _, c := range children[queue[0]] {
			out = append(out, byID[c])
			queue = append(queue, c)
		}
	}
	return out
}

// familyParked: "" unless every member is parked in handler code; otherwise a fingerprint of who is parked where.
func familyParked(fam []gor) (string, map[string]int) {
	if len(fam) == 0 {
		return "", nil
	}
	var keys []string
	where := map[string]int{}
	for _, g := range fam {
		st := parkedInHandler(g)
		if st == "" {
			return "", nil
		}
		keys = append(keys, fmt.Sprintf("%d|%s", g.id, st))
		where[st]++
	}
	sort.Strings(keys)
	return strings.Join(keys, ","), where
}

func (e *rpcEnv) monitor(stop <-chan struct{}) {
	lastLook := map[*callSlot]time.Time{}
	for {
		select {
		case <-stop:
			return
		case <-time.After(250 * time.Millisecond):
		}
		for _, s := range e.slots {
			s.mu.Lock()
			active, gid, seq, since, kind, desc := s.active, s.gid, s.seq, s.since, s.kind, s.desc
			s.mu.Unlock()
			if !active || gid == 0 || time.Since(since) < callStuckAfter || time.Since(lastLook[s]) < callStuckAfter {
				continue
			}
			lastLook[s] = time.Now()
			e.r.count("calls-outstanding-for-10s(examined)", 1)
			same := func() bool {
				s.mu.Lock()
				defer s.mu.Unlock()
				return s.active && s.seq == seq
			}
			var prints [3]string
			var where map[string]int
			var fam []gor
			for i := range prints {
				if i > 0 {
					time.Sleep(callDumpGap)
				}
				if !same() {
					break
				}
				fam = family(parseDump(allStacks()), gid)
				prints[i], where = familyParked(fam)
				if prints[i] == "" {
					break
				}
			}
			if prints[0] == "" || prints[0] != prints[1] || prints[1] != prints[2] || !same() {
				continue // slow, not provably blocked: the global watchdog / the budget decide
			}
			hs := parkedInHandler(fam[0])
			text := fmt.Sprintf("%s did not return for %v. The goroutine that runs the handler and all %d goroutine(s) it created are parked in the handler's own code (%v), the same goroutines in the same places in three dumps %v apart; they wait for objects local to this call, so nobody can wake them: the p2p handler goroutine and its lookups are blocked for ever and the peer gets no answer.\n\nhandler goroutine:\n%s",
				desc, time.Since(since).Round(time.Second), len(fam)-1, where, callDumpGap, excerpt(fam[0]))
			for _, g := range fam[1:] {
				if parkedInHandler(g) != hs {
					text += "\n\none of the goroutines it created:\n" + excerpt(g)
					break
				}
			}
			e.r.mu.Lock()
			e.r.res.StallSig, e.r.res.Stall = "handler-stuck:"+kind+":"+hs, text
			e.r.mu.Unlock()
			e.r.finish()
		}
	}
}

// leakCheck: after the workload no goroutine may be left inside a handler. Goroutines that are still on their way out
// get time; a verdict needs goroutines PARKED inside handler code in two consecutive looks.
func (e *rpcEnv) leakCheck() {
	inHandler := func() map[int]gor {
		out := map[int]gor{}
		for _, g := range parseDump(allStacks()) {
			for i := range g.frames {
				if handlerFrame(g, i) {
					out[g.id] = g
					break
				}
			}
		}
		return out
	}
	var prev map[int]gor
	deadline := time.Now().Add(8 * time.Second)
	for {
		cur := inHandler()
		if len(cur) == 0 {
			e.r.count("leak-check:clean", 1)
			return
		}
		if prev != nil {
			var parked []gor
			where := map[string]int{}
			for id, g := range cur {
				if pg, ok := prev[id]; ok && parkedInHandler(g) != "" && parkedInHandler(pg) == parkedInHandler(g) {
					parked = append(parked, g)
					where[parkedInHandler(g)+"@"+g.firstEngine()]++
				}
			}
			if len(parked) == len(cur) || time.Now().After(deadline) {
				if len(parked) == 0 {
					e.r.note("leak check: %d goroutine(s) still inside handler code 8 s after the workload, none of them parked there (not a verdict)", len(cur))
					return
				}
				sort.Slice(parked, func(i, j int) bool { return parked[i].id < parked[j].id })
				var ks []string
				for k := range where {
					ks = append(ks, k)
				}
				sort.Strings(ks)
				e.r.fail("leak:rpc-handler:"+strings.Join(ks, "+"), "%d goroutine(s) are left parked inside RPC handler code after every handler call has returned and the workload is over (%v); each request of that kind leaves more of them behind. One of them:\n%s", len(parked), where, excerpt(parked[0]))
				return
			}
		}
		prev = cur
		time.Sleep(1500 * time.Millisecond)
	}
}

// ---------------------------------------------------------------------------------------------------------------

func runRpc(r *run) {
	w := r.w.Rpc
	e, stack := newRpcEnv(r, newPRNG(r.w.Seed, 0))
	if e == nil {
		return
	}
	var wg sync.WaitGroup
	start := make(chan struct{})
	spawn := func(name string, f func(prog *atomic.Int64)) {
		prog, done := r.worker(name)
		wg.Add(1)
		go func() {
			defer wg.Done()
			defer done.Store(true)
			<-start
			f(prog)
		}()
	}
	other := func(name string, f func(prog *atomic.Int64)) {
		e.others.Add(1)
		spawn(name, func(prog *atomic.Int64) {
			defer e.others.Add(-1)
			f(prog)
		})
	}
	if w.Fixed > 0 {
		e.fixedScenario(other)
	} else {
		for i := range w.Callers {
			i := i
			e.slots = append(e.slots, &callSlot{})
			other(fmt.Sprintf("caller%d", i), func(prog *atomic.Int64) { e.caller(i, newPRNG(r.w.Seed, 100+i), prog) })
		}
		for i := range w.Bulk {
			i := i
			other(fmt.Sprintf("bulk%d", i), func(prog *atomic.Int64) { e.bulkReader(i, newPRNG(r.w.Seed, 200+i), prog) })
		}
	}
	spawn("writer", func(*atomic.Int64) { e.writer(newPRNG(r.w.Seed, 1), stack) })
	stopMon := make(chan struct{})
	go e.monitor(stopMon)
	close(start)
	r.watch()
	wg.Wait()
	close(stopMon)
	e.leakCheck()
	// quiescent: the chain is linked and complete
	tip := e.chain.LastBlock()
	if tip == nil {
		r.fail("nil-tip:quiescent", "LastBlock() is nil after all goroutines finished")
		return
	}
	blocks, err := e.da.GetBlocksBetweenHeight(0, tip.Header.Height)
	if err != nil {
		r.fail("quiescent", "GetBlocksBetweenHeight(0,%d): %v", tip.Header.Height, err)
		return
	}
	for i, b := range blocks {
		rb := e.lookup(b.Header.ID)
		if rb == nil || rb.height != uint32(i) || !bytes.Equal(b.Encode(), rb.enc) {
			r.fail("quiescent", "block at height %d after the run is not a block the writer built", i)
			break
		}
		if i > 0 && !bytes.Equal(b.Header.PreviousBlockID, blocks[i-1].Header.ID) {
			r.fail("quiescent", "chain broken at height %d after the run", i)
			break
		}
	}
}

// fixedScenario: the requests of a fast sync. First alone (no writer activity matters: the IDs are stable), then four
// peers at once, each sending both requests Fixed times, next to a reader of whole-chain ranges, all against the writer.
//
//	A: 41 IDs (a 21-validator network), the 5 newest on the sender's fork (unknown here), 36 known
//	B: 205 IDs (103 validators), all known
func (e *rpcEnv) fixedScenario(other func(string, func(*atomic.Int64))) {
	top := len(e.stable) - 1
	var reqA, reqB [][]byte
	p := newPRNG(e.r.w.Seed, 50)
	for i := 0; i < 5; i++ {
		reqA = append(reqA, e.unknownID(p))
	}
	for i := 0; i < 36; i++ {
		reqA = append(reqA, e.stable[top-i].id)
	}
	for i := 0; i < 205 && top-i >= 0; i++ {
		reqB = append(reqB, e.stable[top-i].id)
	}
	soloDone := make(chan struct{})
	solo := &callSlot{}
	e.slots = append(e.slots, solo)
	other("solo", func(prog *atomic.Int64) {
		defer close(soloDone)
		e.commonCall(solo, reqA, "fast sync of a 21-validator network: 5 unknown + 36 known, alone")
		prog.Add(1)
		e.commonCall(solo, reqB, "fast sync of a 103-validator network: 205 known, alone")
		prog.Add(1)
	})
	for i := 0; i < 4; i++ {
		i := i
		slot := &callSlot{}
		e.slots = append(e.slots, slot)
		other(fmt.Sprintf("peer%d", i), func(prog *atomic.Int64) {
			<-soloDone
			for k := 0; k < 2*e.w.Fixed && !e.r.finished.Load(); k++ {
				if (k+i)%2 == 0 {
					e.commonCall(slot, reqA, "5 unknown + 36 known, 4 peers at once")
				} else {
					e.commonCall(slot, reqB, "205 known, 4 peers at once")
				}
				prog.Add(1)
			}
		})
	}
	slot := &callSlot{}
	e.slots = append(e.slots, slot)
	other("segments", func(prog *atomic.Int64) {
		<-soloDone
		p := newPRNG(e.r.w.Seed, 60)
		for k := 0; k < 2*e.w.Fixed && !e.r.finished.Load(); k++ {
			e.blocksCall(slot, p)
			e.lastCall(slot)
			prog.Add(1)
		}
	})
	other("ranges", func(prog *atomic.Int64) {
		<-soloDone
		for k := 0; k < e.w.Fixed && !e.r.finished.Load(); k++ {
			blocks, err := e.da.GetBlocksBetweenHeight(0, e.floor)
			if err != nil || len(blocks) != int(e.floor)+1 {
				e.r.fail("lost-item:GetBlocksBetweenHeight", "range 0..%d (never touched): %d blocks, err %v", e.floor, len(blocks), err)
			}
			e.r.count("bulk:GetBlocksBetweenHeight", 1)
			e.r.count("bulk:range-lookups-over-64-or-more-uncached-blocks", 1)
			prog.Add(1)
		}
	})
}

// ---------------------------------------------------------------------------------------------------------------
// Parent side.

func drawRpc(t *rapid.T) *Workload {
	w := drawCommon(t, "rpc")
	calls := []int{30, 60, 90}
	if evid.Thorough() {
		calls = []int{40, 100, 200}
	}
	rw := &RpcW{
		Cache:       rapid.SampledFrom([]int{4, 8, 16}).Draw(t, "cache"),
		Stable:      rapid.SampledFrom([]int{220, 260, 320}).Draw(t, "stable"),
		TxMax:       rapid.SampledFrom([]int{1, 3, 6}).Draw(t, "txMax"),
		Pad:         rapid.SampledFrom([]int{16, 100}).Draw(t, "pad"),
		MaxDepth:    rapid.IntRange(1, 12).Draw(t, "maxDepth"),
		MaxChurn:    rapid.IntRange(4, 20).Draw(t, "maxChurn"),
		WriterYield: rapid.IntRange(0, 2).Draw(t, "writerYield"),
		PauseUS:     rapid.SampledFrom([]int{0, 100, 1000}).Draw(t, "pauseUS"),
	}
	nc := rapid.IntRange(2, 6).Draw(t, "callers")
	for i := 0; i < nc; i++ {
		cw := RpcCallerW{Calls: rapid.SampledFrom(calls).Draw(t, "calls"), Ops: map[string]int{}, Comp: map[string]int{}, Yield: rapid.IntRange(0, 2).Draw(t, "yield")}
		cw.Ops[rpcLast] = rapid.IntRange(0, 2).Draw(t, "wLast")
		cw.Ops[rpcCommon] = rapid.IntRange(2, 6).Draw(t, "wCommon")
		cw.Ops[rpcBlocks] = rapid.IntRange(0, 3).Draw(t, "wBlocks")
		for range rpcSizeName {
			cw.Size = append(cw.Size, rapid.IntRange(1, 4).Draw(t, "wSize"))
		}
		for _, c := range rpcComps {
			cw.Comp[c] = rapid.IntRange(0, 4).Draw(t, "wComp")
		}
		cw.Comp["known"]++
		for i := 0; i < 3; i++ {
			cw.Order = append(cw.Order, rapid.IntRange(1, 3).Draw(t, "wOrder"))
		}
		rw.Callers = append(rw.Callers, cw)
	}
	nb := rapid.IntRange(1, 3).Draw(t, "bulkReaders")
	for i := 0; i < nb; i++ {
		bw := RpcBulkW{Calls: rapid.SampledFrom([]int{20, 40, 60}).Draw(t, "bulkCalls"), Ops: map[string]int{}, Yield: rapid.IntRange(0, 2).Draw(t, "yield")}
		for _, n := range rpcBulkOps {
			bw.Ops[n] = rapid.IntRange(0, 3).Draw(t, "wBulk")
		}
		bw.Ops["GetBlocksBetweenHeight"]++
		rw.Bulk = append(rw.Bulk, bw)
	}
	w.Rpc = rw
	return w
}

// rpcNontrivial: the run completed and really contained what the workload is there for: requests with more known IDs
// than any block sync sends, range lookups over long uncached stretches, and a writer that was busy meanwhile.
func rpcNontrivial(w *Workload, o *outcome) bool {
	if o.res == nil || !o.res.Done {
		return false
	}
	c := o.res.Counters
	calls := c["call:"+rpcLast] + c["call:"+rpcCommon] + c["call:"+rpcBlocks]
	return calls >= 100 && c["common:requests-with-more-than-10-known-ids"] >= 10 && c["common:requests-with-more-than-50-known-ids"] >= 1 &&
		c["writer:add"]+c["writer:remove"] >= 50 && c["bulk:range-lookups-over-64-or-more-uncached-blocks"]+c["blocks:served-51-205"] >= 10
}

// TestSyncHandlersUnderLoad: generated callers of the three sync RPC handlers with ID lists of 1..300 IDs, bulk readers
// over up to the whole chain and a tip writer, on a node whose block cache holds almost nothing.
func TestSyncHandlersUnderLoad(t *testing.T) {
	rapid.Check(t, func(t *rapid.T) {
		w := drawRpc(t)
		o := runChild(w)
		verdict(t, w, o)
		labels := []string{"rpc", fmt.Sprintf("rpc:cache-%d", w.Rpc.Cache), fmt.Sprintf("rpc:procs-%d", w.Procs), fmt.Sprintf("rpc:stable-%d", w.Rpc.Stable),
			fmt.Sprintf("rpc:callers-%d", len(w.Rpc.Callers))}
		evid.R.Case(keyOf(w), rpcNontrivial(w, o), sampleOf(w, o, nil), labels...)
	})
}

// A getHighestCommonBlock request carries as many IDs as the sender likes: block sync sends up to 9, fast sync the IDs of
// its last two rounds (41 on a 21-validator network, 205 on a 103-validator one), most of them known to the receiver.
// Every such request has to be answered with the highest known block - alone, and from four peers at once while the
// tip moves and another reader fetches the whole chain. (Seeded: a result channel buffered for 10 IDs and drained only
// after wg.Wait(): the 11th known ID blocks the handler goroutine for ever.)
func TestRegressHighestCommonBlockOfFastSyncRequests(t *testing.T) {
	w := &Workload{Kind: "rpc", Procs: 8, Seed: 31, Budget: 240, Rpc: &RpcW{
		Cache: 8, Stable: 240, TxMax: 3, Pad: 40, MaxDepth: 6, MaxChurn: 10, WriterYield: 1, PauseUS: 100, Fixed: 8,
	}}
	regress(t, "highest-common-block-of-fast-sync-requests", w, func(o *outcome) bool {
		return o.res != nil && o.res.Done && o.res.Counters["common:requests-with-more-than-50-known-ids"] >= 20 && o.res.Counters["common:known-ids-11-50"] >= 20
	})
}
