package c07

import (
	"bytes"
	"fmt"
	"os"
	"testing"

	"pgregory.net/rapid"

	"verifharness/bftsim"
	"verifharness/evid"
	mbft "verifharness/model/bft"
)

// The contradiction check looks at the generator's latest header among the last 3*batchSize headers. The chain test uses batch sizes
// of a few blocks; nothing in the engine limits the batch size (Lisk mainnet: 103). Seeded change C07-x capped the stored window at
// 303 entries ("three rounds of 101"): identical for every batch size up to 101, a contradicting header goes unnoticed for larger
// ones when the generator's previous block lies more than 303 but at most 3*batchSize heights back.
// Case: three validators, batch size from small to 150; validator G forges one early block, the others continue until G's block is
// at a drawn place around the far edge of the window (defined on the harness's own header list), then G offers a header that denies
// its earlier block. Expected verdict: contradicting exactly when the earlier block is inside the window (and the LIP-0014 pair rule
// says so).
func TestWideWindow(t *testing.T) {
	limit := 60
	if evid.Thorough() {
		limit = 400
	}
	runs := 0
	rapid.Check(t, func(t *rapid.T) {
		runs++
		if runs > limit && os.Getenv("VERIF_REPLAY") == "" {
			return
		}
		batch := rapid.SampledFrom([]int{3, 20, 100, 101, 102, 103, 104, 120, 150}).Draw(t, "batchSize")
		window := 3 * batch
		addrs := [][]byte{bytes.Repeat([]byte{0xa1}, 20), bytes.Repeat([]byte{0xb2}, 20), bytes.Repeat([]byte{0xc3}, 20)}
		s := bftsim.New(batch)
		defer s.Close()
		p := bftsim.Params{Precommit: 3, Cert: 3}
		for i, a := range addrs {
			p.Vals = append(p.Vals, bftsim.Val{Addr: a, Weight: 1, BLS: bytes.Repeat([]byte{byte(i + 1)}, 48)})
		}
		if err := s.Genesis(0, p); err != nil {
			t.Fatalf("genesis: %v", err)
		}
		early := uint32(rapid.IntRange(1, 4).Draw(t, "earlyHeight"))
		// place of G's block counted from the tip when the candidate arrives: 1 = the tip itself ... window = oldest header of the window
		place := window + rapid.IntRange(-3, 2).Draw(t, "placeOffset")
		if rapid.IntRange(0, 3).Draw(t, "anywhere") == 0 {
			place = rapid.IntRange(1, window+2).Draw(t, "place")
		}
		if place < 1 {
			place = 1
		}
		tip := early + uint32(place) - 1
		last := map[int]uint32{}
		var chain []hdr
		for h := uint32(1); h <= tip; h++ {
			g := int(h % 2) // validators 0 and 1 alternate
			if h == early {
				g = 2
			}
			mhp, _, _ := s.Heights()
			hd := &bftsim.Hdr{H: h, Gen: addrs[g], MHG: last[g], MHP: mhp}
			if s.Contradicting(hd) {
				t.Fatalf("honest header at height %d (generator %d) flagged as contradicting (batchSize %d)", h, g, batch)
			}
			if err := s.Apply(hd, nil); err != nil {
				t.Fatalf("apply %d: %v", h, err)
			}
			chain = append(chain, hdr{H: h, G: last[g], P: mhp, Gen: addrs[g]})
			last[g] = h
		}
		mhp, _, _ := s.Heights()
		claim := uint32(rapid.IntRange(0, int(early)).Draw(t, "claimedMaxHeightGenerated")) // < early denies the block, == early is honest
		cand := &bftsim.Hdr{H: tip + 1, Gen: addrs[2], MHG: claim, MHP: mhp}
		// the window on the harness's own record: the last 3*batchSize headers of the chain
		inWindow := len(chain)-int(early)+1 <= window
		e := chain[early-1]
		want := inWindow && mbft.PairContradicting(e.H, e.G, e.P, cand.H, cand.MHG, cand.MHP)
		got := s.Contradicting(cand)
		if got != want {
			t.Fatalf("batchSize %d (window %d): generator's earlier block at height %d is header number %d from the tip %d (inside the window: %v); candidate h=%d maxHeightGenerated=%d maxHeightPrevoted=%d: engine says contradicting=%v, expected %v",
				batch, window, early, place, tip, inWindow, cand.H, cand.MHG, cand.MHP, got, want)
		}
		evid.R.Case(fmt.Sprintf("wide|%d|%d|%d|%d", batch, early, place, claim), batch > 101 && place > 303 && claim < early, func() any {
			return map[string]any{"kind": "wide-window", "batchSize": batch, "earlierBlockHeight": early, "placeFromTip": place, "claimedMaxHeightGenerated": claim, "insideWindow": inWindow, "contradicting": got}
		}, "wide-window", fmt.Sprintf("wide-window-batch-%d", batch), fmt.Sprintf("wide-window-inside-%v", inWindow))
	})
}
