package c07

import (
	"bytes"
	"fmt"
	"strings"
	"testing"
	"time"

	"pgregory.net/rapid"

	"verifharness/evid"
	"verifharness/node"
)

// (d) sequences of competing blocks for one height through the real Executer.process, in real time (2-second slots): the
// LIP-0014 tie break depends on the slot in which the *current tip* was received, which the node has to carry from one
// decision to the next. Reference: tip (slot, slot of reception, generator); a competitor X for the same height, parent and
// maxHeightPrevoted replaces the tip iff generator differs, tip.slot < X.slot, the tip was received outside its slot and X
// arrives inside its own slot; the new tip then counts as received now.

const tbBlockTime = 2

func wallSlot(n *node.Node) int { return n.SlotOf(uint32(time.Now().Unix())) }

// settle waits until at least minLeft of the current slot remains and returns the slot number.
func settle(n *node.Node, minLeft time.Duration) int {
	for {
		now := time.Now()
		slot := n.SlotOf(uint32(now.Unix()))
		end := time.Unix(int64(n.Slot.GetSlotTime(slot))+tbBlockTime, 0)
		if end.Sub(now) >= minLeft {
			return slot
		}
		time.Sleep(end.Sub(now) + 20*time.Millisecond)
	}
}

func waitNextSlot(n *node.Node) {
	slot := wallSlot(n)
	end := time.Unix(int64(n.Slot.GetSlotTime(slot))+tbBlockTime, 0)
	time.Sleep(time.Until(end) + 30*time.Millisecond)
}

func TestTieBreakSequence(t *testing.T) {
	rapid.Check(t, func(t *rapid.T) {
		nVal := rapid.IntRange(3, 5).Draw(t, "validators")
		cfg := node.Config{Genesis: node.EqualGenesis(nVal), BatchSize: nVal, BlockTime: tbBlockTime, SlotsBehind: 40}
		n, err := node.New(cfg)
		if err != nil {
			t.Fatalf("node: %v", err)
		}
		defer n.Close()
		var hist []string
		prefix := rapid.IntRange(1, 5).Draw(t, "prefix")
		for i := 0; i < prefix; i++ {
			if _, err := n.Apply(node.Spec{Script: node.Script{Salt: uint32(i)}}); err != nil {
				t.Fatalf("prefix: %v", err)
			}
		}
		// the first block of the contested height: in a past slot (arrives late) or in the current slot (arrives on time)
		w := settle(n, 900*time.Millisecond)
		// half of the cases are directed at decisions that follow a replacement: late first block, then competitors on time in
		// successive slots
		directed := rapid.Bool().Draw(t, "directed")
		aSlot := w
		if directed || rapid.IntRange(0, 3).Draw(t, "firstLate") != 0 {
			aSlot = w - rapid.IntRange(1, 3).Draw(t, "firstLateBy")
		}
		// a third of the cases: the first block lies exactly one round back, so that the competitor of the CURRENT slot comes from the same
		// generator in a later slot (double forging, must be discarded whatever the reception times are). Seed regression showed that this
		// coincidence (seeded C07-g) was otherwise met only at some seeds.
		if rapid.IntRange(0, 2).Draw(t, "sameOwnerOneRoundLater") == 0 {
			aSlot = w - nVal
			evid.R.Label("tiebreak-sequence-first-block-one-round-back", 1)
		}
		a, err := n.Apply(node.Spec{AbsSlot: aSlot, Script: node.Script{Salt: 100}})
		if err != nil {
			t.Fatalf("first block: %v", err)
		}
		if wallSlot(n) != w {
			evid.R.Inconclusive("wall clock crossed a slot boundary while the first block was processed")
			t.Skip("slot boundary crossed")
		}
		tipSlot, tipRecv, tipGen, tipID := aSlot, w, a.Header.GeneratorAddress, a.Header.ID
		hist = append(hist, fmt.Sprintf("n=%d prefix=%d; A slot %d received in slot %d", nVal, prefix, aSlot, w))
		k := rapid.IntRange(1, 3).Draw(t, "competitors")
		if directed && k < 2 {
			k = 2
		}
		replaced, staleSensitive := 0, false
		for i := 0; i < k; i++ {
			if directed || rapid.IntRange(0, 2).Draw(t, "waitSlot") != 0 {
				waitNextSlot(n)
			}
			w = settle(n, 900*time.Millisecond)
			xSlot := w
			if !directed && rapid.IntRange(0, 4).Draw(t, "competitorLate") == 0 {
				xSlot = w - rapid.IntRange(1, 2).Draw(t, "competitorLateBy")
			}
			x, ok := n.BuildSiblingAt(200+uint32(i), xSlot, true)
			if !ok {
				t.Fatalf("sibling for slot %d could not be built\n%s", xSlot, strings.Join(hist, "\n"))
			}
			sameGen := bytes.Equal(x.Header.GeneratorAddress, tipGen)
			perr := n.Exec.VerifProcess(node.CloneBlock(x), "peer")
			if wallSlot(n) != w {
				evid.R.Inconclusive("wall clock crossed a slot boundary while a competitor was processed")
				t.Skip("slot boundary crossed")
			}
			want := !sameGen && tipSlot < xSlot && tipRecv != tipSlot && xSlot == w
			hist = append(hist, fmt.Sprintf("X%d slot %d (same generator %v) processed in slot %d: tip slot %d received in %d -> replace expected %v, err=%v",
				i, xSlot, sameGen, w, tipSlot, tipRecv, want, perr))
			got := bytes.Equal(n.Tip().Header.ID, x.Header.ID)
			if !got && !bytes.Equal(n.Tip().Header.ID, tipID) {
				t.Fatalf("tip is neither the previous tip nor the competitor\n%s", strings.Join(hist, "\n"))
			}
			if got != want {
				t.Fatalf("tie break decision: competitor became the tip = %v, LIP-0014 says %v\n%s", got, want, strings.Join(hist, "\n"))
			}
			if i > 0 && replaced > 0 {
				staleSensitive = true // a decision taken after an earlier replacement: depends on the carried receive time
			}
			if want {
				tipSlot, tipRecv, tipGen, tipID = xSlot, w, x.Header.GeneratorAddress, x.Header.ID
				replaced++
			}
		}
		evid.R.Case(strings.Join(hist, "|"), staleSensitive, func() any {
			return map[string]any{"kind": "tiebreak-sequence", "history": hist}
		}, "tiebreak-sequence", fmt.Sprintf("replacements-%d", replaced), fmt.Sprintf("decision-after-replacement-%v", staleSensitive))
	})
}
