package c07

import (
	"bytes"
	"encoding/json"
	"fmt"
	"os"
	"testing"
	"time"

	"github.com/LiskHQ/lisk-engine/pkg/blockchain"
	"github.com/LiskHQ/lisk-engine/pkg/consensus/contradiction"
	"github.com/LiskHQ/lisk-engine/pkg/consensus/forkchoice"
	"github.com/LiskHQ/lisk-engine/pkg/consensus/liskbft"
	"github.com/LiskHQ/lisk-engine/pkg/consensus/validator"
	"pgregory.net/rapid"

	"verifharness/bftsim"
	"verifharness/evid"
	mbft "verifharness/model/bft"
)

func TestMain(m *testing.M) { evid.Main(m, "C07") }

var genA = bytes.Repeat([]byte{0xaa}, 20)
var genB = bytes.Repeat([]byte{0xbb}, 20)

type hdr struct {
	H, G, P uint32
	Gen     []byte
}

func (h hdr) Height() uint32             { return h.H }
func (h hdr) GeneratorAddress() []byte   { return h.Gen }
func (h hdr) MaxHeightGenerated() uint32 { return h.G }
func (h hdr) MaxHeightPrevoted() uint32  { return h.P }

// follows: b is a legitimate successor of a (LIP-0014): b acknowledges a (a.height <= b.maxHeightGenerated), does not
// move to a lower maxHeightPrevoted, and with equal maxHeightPrevoted has a strictly larger height.
func follows(a, b hdr) bool {
	return a.H <= b.G && a.P <= b.P && !(a.P == b.P && a.H >= b.H)
}

func checkPair(t interface{ Fatalf(string, ...any) }, a, b hdr) {
	got := contradiction.AreDistinctHeadersContradicting(a, b)
	rev := contradiction.AreDistinctHeadersContradicting(b, a)
	if got != rev {
		t.Fatalf("not symmetric: f(a,b)=%v f(b,a)=%v a=%+v b=%+v", got, rev, a, b)
	}
	same := bytes.Equal(a.Gen, b.Gen)
	if !same {
		if got {
			t.Fatalf("different generators flagged: a=%+v b=%+v", a, b)
		}
		return
	}
	want := mbft.PairContradicting(a.H, a.G, a.P, b.H, b.G, b.P)
	if got != want {
		t.Fatalf("LIP-0014 definition: got %v want %v a=%+v b=%+v", got, want, a, b)
	}
	// semantic statement, on well-formed headers (a generator's maxHeightGenerated is below the height it generates)
	if a.G < a.H && b.G < b.H {
		sem := !follows(a, b) && !follows(b, a)
		if got != sem {
			t.Fatalf("semantic statement: got %v, neither-follows=%v a=%+v b=%+v", got, sem, a, b)
		}
	}
}

func pairKey(a, b hdr, same bool) string {
	return fmt.Sprintf("%d,%d,%d|%d,%d,%d|%v", a.H, a.G, a.P, b.H, b.G, b.P, same)
}

func tie(a, b hdr) bool { return a.H == b.H || a.G == b.G || a.P == b.P }

// (a) exhaustive over a small range.
type failT struct {
	t    *testing.T
	a, b hdr
}

func (f failT) Fatalf(format string, a ...any) {
	p := evid.R.FailCase("pair", map[string]any{"a": []uint32{f.a.H, f.a.G, f.a.P}, "b": []uint32{f.b.H, f.b.G, f.b.P}, "sameGenerator": bytes.Equal(f.a.Gen, f.b.Gen)})
	f.t.Fatalf("%s (case written to %s)", fmt.Sprintf(format, a...), p)
}

// replay of a saved exhaustive-pair failure: VERIF_REPLAY_CASE=<json>
func TestReplayPair(t *testing.T) {
	p := os.Getenv("VERIF_REPLAY_CASE")
	if p == "" {
		t.Skip("no replay case")
	}
	raw, err := os.ReadFile(p)
	if err != nil {
		t.Fatal(err)
	}
	var c struct {
		A, B          []uint32
		SameGenerator bool
	}
	if err := json.Unmarshal(raw, &c); err != nil || len(c.A) != 3 || len(c.B) != 3 {
		t.Skip("not a pair case")
	}
	a, b := hdr{c.A[0], c.A[1], c.A[2], genA}, hdr{c.B[0], c.B[1], c.B[2], genA}
	if !c.SameGenerator {
		b.Gen = genB
	}
	checkPair(t, a, b)
}

func TestPairsExhaustive(t *testing.T) {
	R := uint32(6)
	if evid.Thorough() {
		R = 8
	}
	for h1 := uint32(0); h1 <= R; h1++ {
		for g1 := uint32(0); g1 <= R; g1++ {
			for p1 := uint32(0); p1 <= R; p1++ {
				for h2 := uint32(0); h2 <= R; h2++ {
					for g2 := uint32(0); g2 <= R; g2++ {
						for p2 := uint32(0); p2 <= R; p2++ {
							for _, same := range []bool{true, false} {
								a := hdr{h1, g1, p1, genA}
								b := hdr{h2, g2, p2, genA}
								if !same {
									b.Gen = genB
								}
								checkPair(failT{t, a, b}, a, b)
								evid.R.Case(pairKey(a, b, same), same && tie(a, b), func() any {
									return map[string]any{"kind": "pair", "a": []uint32{a.H, a.G, a.P}, "b": []uint32{b.H, b.G, b.P}, "sameGenerator": same,
										"contradicting": contradiction.AreDistinctHeadersContradicting(a, b)}
								}, "pair-exhaustive")
							}
						}
					}
				}
			}
		}
	}
}

var u32Boundary = rapid.OneOf(
	rapid.SampledFrom([]uint32{0, 1, 2, 3, 127, 128, 255, 256, 65535, 65536, 1<<31 - 1, 1 << 31, 1<<32 - 2, 1<<32 - 1}),
	rapid.Uint32Range(0, 10),
	rapid.Uint32(),
)

// (a') random over uint32 with boundary values and induced ties.
func TestPairsRandom(t *testing.T) {
	rapid.Check(t, func(t *rapid.T) {
		a := hdr{u32Boundary.Draw(t, "h1"), u32Boundary.Draw(t, "g1"), u32Boundary.Draw(t, "p1"), genA}
		b := hdr{u32Boundary.Draw(t, "h2"), u32Boundary.Draw(t, "g2"), u32Boundary.Draw(t, "p2"), genA}
		// induce ties / near ties
		switch rapid.IntRange(0, 6).Draw(t, "tie") {
		case 0:
			b.H = a.H
		case 1:
			b.G = a.G
		case 2:
			b.P = a.P
		case 3:
			b.G, b.P = a.G, a.P
		case 4:
			b.G = a.H
		case 5:
			if a.H < 1<<32-1 {
				b.G = a.H + 1
			}
		}
		same := rapid.Bool().Draw(t, "same")
		if !same {
			b.Gen = genB
		}
		checkPair(t, a, b)
		evid.R.Case(pairKey(a, b, same), same && tie(a, b), nil, "pair-random")
	})
}

// API.AreHeadersContradicting: identical IDs are never contradicting; otherwise equals the pair function.
func TestAPIAreHeadersContradicting(t *testing.T) {
	m := liskbft.NewModule()
	m.Init(4)
	rapid.Check(t, func(t *rapid.T) {
		r := rapid.Uint32Range(0, 5)
		a := &bftsim.Hdr{Id: []byte{1}, H: r.Draw(t, "h1"), MHG: r.Draw(t, "g1"), MHP: r.Draw(t, "p1"), Gen: genA}
		b := &bftsim.Hdr{Id: []byte{2}, H: r.Draw(t, "h2"), MHG: r.Draw(t, "g2"), MHP: r.Draw(t, "p2"), Gen: genA}
		sameID := rapid.Bool().Draw(t, "sameID")
		if sameID {
			b.Id = a.Id
		}
		got, err := m.API().AreHeadersContradicting(a, b)
		if err != nil {
			t.Fatalf("err %v", err)
		}
		want := !sameID && mbft.PairContradicting(a.H, a.MHG, a.MHP, b.H, b.MHG, b.MHP)
		if got != want {
			t.Fatalf("AreHeadersContradicting got %v want %v a=%+v b=%+v", got, want, a, b)
		}
		evid.R.Case(fmt.Sprintf("api|%d%d%d%d%d%d%v", a.H, a.MHG, a.MHP, b.H, b.MHG, b.MHP, sameID), a.H == b.H || a.MHG == b.MHG || a.MHP == b.MHP, nil, "api-pair")
	})
}

// ---------------------------------------------------------------------------------------------------------------
// (c) fork-choice predicates and classification order.

type fcCase struct {
	LastH, CurH           uint32
	LastP, CurP           uint32
	SamePrev, SameGen     bool
	SameID                bool
	CurPrevIsLast         bool
	LastSlot, CurSlot     int  // slot numbers of the two timestamps
	NowSlot               int  // slot "now" falls into
	LastRecvSlot          int  // slot of lastBlockReceivedAt; -1 = nil (synced block)
}

func refClass(c fcCase) string {
	valid := c.LastH+1 == c.CurH && c.CurPrevIsLast
	dup := c.LastH == c.CurH && c.LastP == c.CurP && c.SamePrev
	lastInSlot := c.LastRecvSlot == -1 || c.LastRecvSlot == c.LastSlot
	curInSlot := c.NowSlot == c.CurSlot
	switch {
	case c.SameID:
		return "identical"
	case valid:
		return "valid"
	case dup && c.SameGen:
		return "doubleforging"
	case dup && c.LastSlot < c.CurSlot && !lastInSlot && curInSlot:
		return "tiebreak"
	case c.LastP < c.CurP || (c.LastH < c.CurH && c.LastP == c.CurP):
		return "differentchain"
	}
	return "discard"
}

func TestForkChoice(t *testing.T) {
	const interval = 1000
	rapid.Check(t, func(t *rapid.T) {
		var c fcCase
		c.LastH = rapid.Uint32Range(1, 6).Draw(t, "lastH")
		c.CurH = uint32(int(c.LastH) + rapid.IntRange(-1, 2).Draw(t, "dH"))
		c.LastP = rapid.Uint32Range(0, 3).Draw(t, "lastP")
		c.CurP = uint32(rapid.IntRange(0, 3).Draw(t, "curP"))
		if rapid.Bool().Draw(t, "eqP") {
			c.CurP = c.LastP
		}
		c.SamePrev = rapid.Bool().Draw(t, "samePrev")
		c.SameGen = rapid.Bool().Draw(t, "sameGen")
		c.CurPrevIsLast = !c.SamePrev && rapid.Bool().Draw(t, "curPrevIsLast")
		switch rapid.SampledFrom([]string{"free", "dup", "dup", "next", "free"}).Draw(t, "shape") {
		case "dup": // same height, same maxHeightPrevoted, same parent: double forging / tie break candidates
			c.CurH, c.CurP, c.SamePrev, c.CurPrevIsLast = c.LastH, c.LastP, true, false
		case "next":
			c.CurH, c.SamePrev, c.CurPrevIsLast = c.LastH+1, false, true
		}
		c.LastSlot = rapid.IntRange(5, 8).Draw(t, "lastSlot")
		c.CurSlot = rapid.IntRange(5, 9).Draw(t, "curSlot")
		c.NowSlot = c.CurSlot
		if rapid.IntRange(0, 3).Draw(t, "nowOff") == 0 {
			c.NowSlot = c.CurSlot + rapid.IntRange(1, 2).Draw(t, "late")
		}
		c.LastRecvSlot = rapid.SampledFrom([]int{-1, c.LastSlot, c.LastSlot + 1}).Draw(t, "lastRecv")
		// headers; the position of every instant inside its slot is drawn (a generator stamps its wall clock, a receiver's
		// clock may be ahead of or behind it): the rule only looks at slot numbers
		lastOff := uint32(rapid.IntRange(0, interval-1).Draw(t, "lastOffset"))
		curOff := uint32(rapid.IntRange(0, interval-1).Draw(t, "curOffset"))
		recvOff := int64(rapid.IntRange(0, interval-1).Draw(t, "lastRecvOffset"))
		nowOff := uint32(rapid.IntRange(1, interval-30).Draw(t, "nowOffset"))
		now := uint32(time.Now().Unix())
		// now falls at offset nowOff of slot NowSlot
		genesisTS := now - uint32(c.NowSlot)*interval - nowOff
		slot := validator.NewBlockSlot(genesisTS, interval)
		prevA, prevB := bytes.Repeat([]byte{1}, 32), bytes.Repeat([]byte{2}, 32)
		last := &blockchain.BlockHeader{Version: 2, Height: c.LastH, MaxHeightPrevoted: c.LastP, PreviousBlockID: prevA,
			GeneratorAddress: genA, Timestamp: genesisTS + uint32(c.LastSlot)*interval + lastOff, AggregateCommit: &blockchain.AggregateCommit{}}
		last.Init()
		cur := &blockchain.BlockHeader{Version: 2, Height: c.CurH, MaxHeightPrevoted: c.CurP, PreviousBlockID: prevB,
			GeneratorAddress: genB, Timestamp: genesisTS + uint32(c.CurSlot)*interval + curOff, AggregateCommit: &blockchain.AggregateCommit{}}
		if c.SamePrev {
			cur.PreviousBlockID = prevA
		}
		if c.CurPrevIsLast {
			cur.PreviousBlockID = last.ID
		}
		if c.SameGen {
			cur.GeneratorAddress = genA
		}
		cur.Init()
		c.SameID = bytes.Equal(last.ID, cur.ID) // every field drawn equal: the two headers are one and the same
		if rapid.SampledFrom([]int{0, 1, 2, 3, 4, 5, 6, 7, 8, 9, 10, 11}).Draw(t, "identical") == 7 {
			cur = last
			c.SameID = true
			c.CurH, c.CurP, c.SamePrev, c.SameGen, c.CurSlot, c.CurPrevIsLast = c.LastH, c.LastP, true, true, c.LastSlot, false
			if c.NowSlot != c.CurSlot {
				// keep NowSlot as drawn; predicate for tie-break then sees "not in slot"
			}
		}
		var recv *time.Time
		if c.LastRecvSlot >= 0 {
			tm := time.Unix(int64(genesisTS)+int64(c.LastRecvSlot)*interval+recvOff, 0)
			recv = &tm
		}
		fc, err := forkchoice.NewForkChoice(last, cur, slot, recv)
		if err != nil {
			t.Fatalf("NewForkChoice: %v", err)
		}
		// the wall clock must not have crossed a slot boundary (half a slot = 500 s of margin): assert for sanity
		if slot.GetSlotNumber(uint32(time.Now().Unix())) != c.NowSlot {
			t.Skip("clock moved")
		}
		dup := c.LastH == c.CurH && c.LastP == c.CurP && (c.SamePrev || c.SameID)
		lastInSlot := c.LastRecvSlot == -1 || c.LastRecvSlot == c.LastSlot
		want := map[string]bool{
			"identical":      c.SameID,
			"valid":          c.LastH+1 == c.CurH && c.CurPrevIsLast,
			"doubleforging":  dup && c.SameGen,
			"tiebreak":       dup && c.LastSlot < c.CurSlot && !lastInSlot && c.NowSlot == c.CurSlot,
			"differentchain": c.LastP < c.CurP || (c.LastH < c.CurH && c.LastP == c.CurP),
		}
		got := map[string]bool{
			"identical":      fc.IsIdenticalBlock(),
			"valid":          fc.IsValidBlock(),
			"doubleforging":  fc.IsDoubleForging(),
			"tiebreak":       fc.IsTieBreak(),
			"differentchain": fc.IsDifferentChain(),
		}
		nTrue := 0
		for k, w := range want {
			if got[k] != w {
				t.Fatalf("predicate %s: got %v want %v case=%+v", k, got[k], w, c)
			}
			if w {
				nTrue++
			}
		}
		// first-match classification (the order Executer.process uses)
		order := []string{"identical", "valid", "doubleforging", "tiebreak", "differentchain"}
		cls := "discard"
		for _, k := range order {
			if got[k] {
				cls = k
				break
			}
		}
		if ref := refClass(c); cls != ref {
			t.Fatalf("classification got %s want %s case=%+v", cls, ref, c)
		}
		// package-level helper and priority order
		if forkchoice.IsDifferentChain(c.LastP, c.CurP, c.LastH, c.CurH) != want["differentchain"] {
			t.Fatalf("IsDifferentChain mismatch %+v", c)
		}
		early := "received-at-or-after-timestamp"
		if nowOff < curOff && c.NowSlot == c.CurSlot || c.LastRecvSlot == c.LastSlot && uint32(recvOff) < lastOff {
			early = "received-in-slot-before-timestamp"
		}
		evid.R.Case(fmt.Sprintf("fc|%+v|%d,%d,%d,%d", c, lastOff, curOff, recvOff, nowOff), nTrue >= 2, func() any {
			return map[string]any{"kind": "forkchoice", "case": c, "class": cls, "offsets": []int64{int64(lastOff), int64(curOff), recvOff, int64(nowOff)}}
		}, "fc", "fc-"+cls, early)
	})
}

// HeaderHasPriority must equal the (maxHeightPrevoted, height) lexicographic order for version-2 headers.
func TestHeaderHasPriority(t *testing.T) {
	m := liskbft.NewModule()
	m.Init(4)
	rapid.Check(t, func(t *rapid.T) {
		r := rapid.Uint32Range(0, 4)
		h := &bftsim.Hdr{Ver: 2, H: r.Draw(t, "h"), MHP: r.Draw(t, "p"), Gen: genA}
		height, mhp := r.Draw(t, "height"), r.Draw(t, "mhp")
		got, err := m.API().HeaderHasPriority(nil, h, height, mhp, 0)
		if err != nil {
			t.Fatalf("%v", err)
		}
		want := mhp < h.MHP || (mhp == h.MHP && height < h.H)
		if got != want {
			t.Fatalf("HeaderHasPriority got %v want %v header(h=%d,p=%d) vs (h=%d,p=%d)", got, want, h.H, h.MHP, height, mhp)
		}
		evid.R.Case(fmt.Sprintf("prio|%d,%d,%d,%d", h.H, h.MHP, height, mhp), mhp == h.MHP || height == h.H, nil, "priority")
	})
}

// ---------------------------------------------------------------------------------------------------------------
// (b) chains: a protocol-following generator is never flagged; a contradicting header inside the window always is.

func TestChainContradiction(t *testing.T) {
	rapid.Check(t, func(t *rapid.T) {
		n := rapid.IntRange(3, 5).Draw(t, "n")
		batch := n
		// n BFT validators plus one generator WITHOUT BFT weight (standby): LIP-0014 contradiction is defined per generator, whatever its
		// weight (added after seeded change C07-u: the chain check returned early for generators that are not in the active vote set)
		ng := n + 1
		gens := make([][]byte, ng)
		vals := make([]bftsim.Val, n)
		for i := range gens {
			gens[i] = bytes.Repeat([]byte{byte(i + 1)}, 20)
			if i < n {
				vals[i] = bftsim.Val{Addr: gens[i], Weight: 1, BLS: bytes.Repeat([]byte{byte(i + 1)}, 48)}
			}
		}
		w := uint64(n)
		thr := w*2/3 + 1
		// two branches A and B sharing a common prefix: honest validators switch between them only by fork choice.
		// We replay each branch on its own Sim and ask, before appending each header, whether the real API flags it.
		type branch struct {
			sim    *bftsim.Sim
			tip    uint32
			tipMHP uint32 // maxHeightPrevoted field of the tip header (what fork choice compares)
		}
		mk := func() *branch {
			s := bftsim.New(batch)
			if err := s.Genesis(0, bftsim.Params{Vals: vals, Precommit: thr, Cert: thr}); err != nil {
				t.Fatalf("genesis %v", err)
			}
			return &branch{sim: s}
		}
		A, B := mk(), mk()
		defer A.sim.Close()
		defer B.sim.Close()
		maxGen := make([]uint32, ng)    // largest height each validator generated so far (any branch)
		onBranch := make([]int, ng)     // which branch the validator currently follows (0=A, 1=B)
		lastHdr := make([]*bftsim.Hdr, ng) // most recent header per validator (any branch)
		steps := rapid.IntRange(4, 4*3*batch).Draw(t, "steps")
		forkAt := rapid.IntRange(1, steps/2+1).Draw(t, "forkAt")
		switched := false
		window := 3 * batch
		brs := []*branch{A, B}
		var hist [][]any
		var chainA []*bftsim.Hdr // headers applied to branch A, oldest first: the window is DEFINED on this list, not read back from the module
		for s := 0; s < steps; s++ {
			g := rapid.IntRange(0, ng-1).Draw(t, "gen")
			if s < forkAt {
				// common prefix: apply to both
				h := &bftsim.Hdr{H: A.tip + 1, Gen: gens[g], MHG: maxGen[g]}
				h.MHP, _, _ = A.sim.Heights()
				if A.sim.Contradicting(h) || B.sim.Contradicting(h) {
					t.Fatalf("honest header flagged on common prefix: %+v hist=%v", h, hist)
				}
				for _, b := range brs {
					if err := b.sim.Apply(h, nil); err != nil {
						t.Fatalf("apply %v", err)
					}
					b.tip++
					b.tipMHP = h.MHP
				}
				if s == forkAt-1 {
					for i := range onBranch {
						onBranch[i] = rapid.IntRange(0, 1).Draw(t, "initialBranch")
					}
				}
				maxGen[g] = h.H
				lastHdr[g] = h
				chainA = append(chainA, h)
				hist = append(hist, []any{"AB", g, h.H, h.MHG, h.MHP})
				continue
			}
			// fork choice: validator may switch to the other branch only if that tip has priority (mhp, height)
			cur, oth := brs[onBranch[g]], brs[1-onBranch[g]]
			if (oth.tipMHP > cur.tipMHP || (oth.tipMHP == cur.tipMHP && oth.tip > cur.tip)) && rapid.Bool().Draw(t, "switch") {
				onBranch[g] = 1 - onBranch[g]
				cur = oth
				switched = true
			}
			h := &bftsim.Hdr{H: cur.tip + 1, Gen: gens[g], MHG: maxGen[g]}
			h.MHP, _, _ = cur.sim.Heights()
			// An honest validator generates at a height only once and never below... it may generate at a lower height
			// after switching to a shorter better chain; maxHeightGenerated then is >= height (no votes implied).
			flagged := cur.sim.Contradicting(h)
			if flagged {
				t.Fatalf("header of a protocol-following generator flagged: %+v on branch %d hist=%v", h, onBranch[g], hist)
			}
			if lastHdr[g] != nil {
				if contradiction.AreDistinctHeadersContradicting(contradiction.NewBFTBlockHeader(lastHdr[g]), contradiction.NewBFTBlockHeader(h)) {
					t.Fatalf("consecutive honest headers contradict: %+v then %+v hist=%v", lastHdr[g], h, hist)
				}
			}
			if err := cur.sim.Apply(h, nil); err != nil {
				t.Fatalf("apply %v", err)
			}
			cur.tip++
			cur.tipMHP = h.MHP
			if h.H > maxGen[g] {
				maxGen[g] = h.H
			}
			lastHdr[g] = h
			if cur == A {
				chainA = append(chainA, h)
			}
			hist = append(hist, []any{onBranch[g], g, h.H, h.MHG, h.MHP})
		}
		// Boundary phase (added after seeded change C07-o: window one header short): one validator stays away while the others
		// extend branch A until its latest header on A sits at a drawn position around the oldest place of the 3-round window.
		v := rapid.IntRange(0, ng-1).Draw(t, "byz")
		if v == n {
			evid.R.Label("chain-byzantine-candidate-by-generator-without-bft-weight", 1)
		}
		boundary := ""
		if rapid.IntRange(0, 2).Draw(t, "boundaryPhase") > 0 {
			var others []int
			for i := range onBranch {
				if i != v && onBranch[i] == 0 {
					others = append(others, i)
				}
			}
			lastOnA := -1
			for i := len(chainA) - 1; i >= 0; i-- {
				if bytes.Equal(chainA[i].Gen, gens[v]) {
					lastOnA = i
					break
				}
			}
			if len(others) > 0 && lastOnA >= 0 {
				pos := window - 2 + rapid.IntRange(0, 3).Draw(t, "boundaryPos") // position from the newest header (0-based): window-1 is the oldest inside
				for len(chainA)-1-lastOnA < pos {
					g := others[rapid.IntRange(0, len(others)-1).Draw(t, "boundaryGen")]
					h := &bftsim.Hdr{H: A.tip + 1, Gen: gens[g], MHG: maxGen[g]}
					h.MHP, _, _ = A.sim.Heights()
					if A.sim.Contradicting(h) {
						t.Fatalf("header of a protocol-following generator flagged: %+v on branch 0 (boundary phase) hist=%v", h, hist)
					}
					if err := A.sim.Apply(h, nil); err != nil {
						t.Fatalf("apply %v", err)
					}
					A.tip++
					A.tipMHP = h.MHP
					if h.H > maxGen[g] { // the LARGEST height ever generated (a validator back from a longer branch keeps the larger value)
						maxGen[g] = h.H
					}
					lastHdr[g] = h
					chainA = append(chainA, h)
					hist = append(hist, []any{0, g, h.H, h.MHG, h.MHP})
				}
				if len(chainA)-1-lastOnA == pos {
					boundary = fmt.Sprintf("latest-header-at-window-position-%+d", pos-(window-1)) // +0 = oldest inside, +1 = first outside
				}
			}
		}
		// Now a Byzantine header: take validator v's most recent header on branch A inside the window and build a header
		// that contradicts it (LIP-0014 reference); the chain check must flag it, and equal the model otherwise.
		vv, err := liskbft.VerifDumpVotes(A.sim.Store())
		if err != nil {
			t.Fatalf("%v", err)
		}
		// the validator's most recent header among the last 3*batchSize headers of branch A, from the harness's own record of the chain
		// (reading it back from the module made the oracle blind to a window of the wrong length)
		var recent *bftsim.Hdr
		for i := len(chainA) - 1; i >= 0 && i >= len(chainA)-window; i-- {
			if bytes.Equal(chainA[i].Gen, gens[v]) {
				recent = chainA[i]
				break
			}
		}
		wantLen := len(chainA)
		if wantLen > window {
			wantLen = window
		}
		if len(vv.Blocks) != wantLen {
			t.Fatalf("the module keeps %d headers of branch A, the 3-round window of a %d-block chain holds %d (batchSize %d) hist=%v", len(vv.Blocks), len(chainA), wantLen, batch, hist)
		}
		cand := &bftsim.Hdr{H: A.tip + 1, Gen: gens[v], MHG: rapid.Uint32Range(0, A.tip+2).Draw(t, "bmhg"), MHP: rapid.Uint32Range(0, A.tip+1).Draw(t, "bmhp")}
		got := A.sim.Contradicting(cand)
		want := false
		if recent != nil {
			want = mbft.PairContradicting(recent.H, recent.MHG, recent.MHP, cand.H, cand.MHG, cand.MHP)
		}
		if got != want {
			t.Fatalf("IsHeaderContradictingChain got %v want %v cand=%+v recent=%+v hist=%v", got, want, cand, recent, hist)
		}
		if switched {
			evid.R.Label("chain-with-switch", 1)
		}
		if boundary != "" {
			evid.R.Label("chain-"+boundary, 1)
			if want {
				evid.R.Label("chain-"+boundary+"-contradicting-candidate", 1)
			}
		}
		evid.R.Case(fmt.Sprintf("chain|%v|%v", hist, cand), (switched || boundary != "") && recent != nil, func() any {
			return map[string]any{"kind": "chain", "history(branch,gen,height,mhg,mhp)": hist, "byzantineCandidate": []uint32{cand.H, cand.MHG, cand.MHP}, "flagged": got}
		}, "chain", fmt.Sprintf("chain-flagged-%v", got))
	})
}

func init() {
	if os.Getenv("VERIF_ROOT") == "" {
		os.Setenv("VERIF_ROOT", "/verif")
	}
}
