package c03

import (
	"bytes"
	"fmt"
	"sort"
	"strings"
	"testing"

	"github.com/LiskHQ/lisk-engine/pkg/blockchain"
	"github.com/LiskHQ/lisk-engine/pkg/codec"
	"github.com/LiskHQ/lisk-engine/pkg/trie/rmt"
	"pgregory.net/rapid"

	"verifharness/evid"
	"verifharness/node"
)

func TestMain(m *testing.M) { evid.Main(m, "C03") }

// mctx is what a mutation operator gets: the node state, the valid successor B and the legitimate slot owner.
type mctx struct {
	t     *rapid.T
	n     *node.Node
	valid *blockchain.Block
	spec  node.Spec
	owner *node.Key
	slot  int
}

// op builds a block that breaks (at least) the named rule; ok=false when not applicable in this state.
type op struct {
	name string
	// viaProcess: the mutant still has height tip+1 and previousBlockID = tip, so fork choice routes it to validation
	viaProcess bool
	build      func(c *mctx) (*blockchain.Block, bool)
}

func flip(b []byte) []byte {
	o := append([]byte{}, b...)
	if len(o) == 0 {
		return []byte{1}
	}
	o[len(o)/2] ^= 0x01
	return o
}

func (c *mctx) clone() *blockchain.Block { return node.CloneBlock(c.valid) }

func resigned(b *blockchain.Block, k *node.Key) *blockchain.Block {
	node.Resign(b, k)
	return b
}

func setTxs(b *blockchain.Block, txs []*blockchain.Transaction) {
	b.Transactions = txs
	ids := make([][]byte, len(txs))
	for i, tx := range txs {
		ids[i] = tx.ID
	}
	b.Header.TransactionRoot = rmt.CalculateRoot(ids)
	// keep roots the application derives consistent with the new payload, so that only the targeted rule is broken
	parent := b.Header.PreviousBlockID
	_ = parent
}

// rebuild recomputes event root and state root for a changed payload/assets on top of the node's tip.
func rebuild(c *mctx, b *blockchain.Block) {
	tip := c.n.Tip().Header
	evs := node.ExpectedEvents(b.Header.Height, b.Assets, b.Transactions)
	er, err := blockchain.CalculateEventRoot(evs)
	if err != nil {
		panic(err)
	}
	b.Header.EventRoot = er
	b.Header.StateRoot = node.NextStateRoot(tip.StateRoot, b.Header.Height, b.Assets, b.Transactions)
	b.Header.AssetRoot = blockchain.BlockAssets(b.Assets).GetRoot()
}

func badTx(kind string) *blockchain.Transaction {
	tx := node.MakeTx(12, 1, 100, node.TxOK, 0, 2)
	switch kind {
	case "module":
		tx.Module = "ver if!"
	case "command":
		tx.Command = "ru-n"
	case "module-unicode": // letters and digits outside ASCII are not alphanumeric in the protocol's sense (LIP-0068: [a-zA-Z0-9])
		tx.Module = []string{"tok\u00e9n", "tok\u0435n", "token\uff11", "tok\u00aan"}[int(tx.Nonce+uint64(len(tx.Params)))%4]
	case "command-unicode":
		tx.Command = []string{"tr\u00e4nsfer", "transf\u0435r", "transfer\u0661"}[int(tx.Nonce)%3]
	case "pubkey":
		tx.SenderPublicKey = tx.SenderPublicKey[:31]
	case "siglen":
		tx.Signatures = []codec.Hex{tx.Signatures[0][:63]}
	case "nosig":
		tx.Signatures = []codec.Hex{}
	case "emptysig":
		tx.Signatures = []codec.Hex{{}} // one entry of length zero
	case "emptysig-second":
		tx.Signatures = []codec.Hex{tx.Signatures[0], {}}
	case "siglen65":
		tx.Signatures = []codec.Hex{append(append([]byte{}, tx.Signatures[0]...), 0)}
	case "pubkey33":
		tx.SenderPublicKey = append(append([]byte{}, tx.SenderPublicKey...), 0)
	case "params":
		tx.Params = bytes.Repeat([]byte{0}, blockchain.MaxTransactionParamsSize+1)
	}
	tx.Init()
	return tx
}

var headerFields = []string{"version", "timestamp", "height", "previousBlockID", "generatorAddress", "transactionRoot", "assetRoot", "eventRoot",
	"stateRoot", "maxHeightPrevoted", "maxHeightGenerated", "impliesMaxPrevotes", "validatorsHash", "aggregateCommit"}

func tweakField(h *blockchain.BlockHeader, f string) {
	switch f {
	case "version":
		h.Version++
	case "timestamp":
		h.Timestamp++
	case "height":
		h.Height++
	case "previousBlockID":
		h.PreviousBlockID = flip(h.PreviousBlockID)
	case "generatorAddress":
		h.GeneratorAddress = flip(h.GeneratorAddress)
	case "transactionRoot":
		h.TransactionRoot = flip(h.TransactionRoot)
	case "assetRoot":
		h.AssetRoot = flip(h.AssetRoot)
	case "eventRoot":
		h.EventRoot = flip(h.EventRoot)
	case "stateRoot":
		h.StateRoot = flip(h.StateRoot)
	case "maxHeightPrevoted":
		h.MaxHeightPrevoted++
	case "maxHeightGenerated":
		h.MaxHeightGenerated++
	case "impliesMaxPrevotes":
		h.ImpliesMaxPrevotes = !h.ImpliesMaxPrevotes
	case "validatorsHash":
		h.ValidatorsHash = flip(h.ValidatorsHash)
	case "aggregateCommit":
		ac := *h.AggregateCommit
		ac.Height++
		h.AggregateCommit = &ac
	}
}

func ops() []op {
	var out []op
	add := func(name string, via bool, f func(c *mctx) (*blockchain.Block, bool)) {
		out = append(out, op{name, via, f})
	}
	for _, v := range []uint32{0, 1, 3} {
		v := v
		add(fmt.Sprintf("version=%d", v), true, func(c *mctx) (*blockchain.Block, bool) {
			b := c.clone()
			b.Header.Version = v
			return resigned(b, c.owner), true
		})
	}
	add("height+1", false, func(c *mctx) (*blockchain.Block, bool) {
		b := c.clone()
		b.Header.Height++
		return resigned(b, c.owner), true
	})
	add("height-1", false, func(c *mctx) (*blockchain.Block, bool) {
		b := c.clone()
		b.Header.Height--
		return resigned(b, c.owner), true
	})
	add("previousBlockID-flipped", false, func(c *mctx) (*blockchain.Block, bool) {
		b := c.clone()
		b.Header.PreviousBlockID = flip(b.Header.PreviousBlockID)
		return resigned(b, c.owner), true
	})
	add("previousBlockID-grandparent", false, func(c *mctx) (*blockchain.Block, bool) {
		tip := c.n.Tip().Header
		if tip.Height == 0 {
			return nil, false
		}
		b := c.clone()
		b.Header.PreviousBlockID = tip.PreviousBlockID
		return resigned(b, c.owner), true
	})
	// slot rules: the generator assigned to the chosen slot signs, so that only the slot rule is broken
	slotMut := func(name string, pick func(c *mctx) (int, bool)) {
		add(name, true, func(c *mctx) (*blockchain.Block, bool) {
			slot, ok := pick(c)
			if !ok || slot < 0 {
				return nil, false
			}
			k, err := c.n.GeneratorAt(c.valid.Header.Height, slot)
			if err != nil {
				return nil, false
			}
			b := c.clone()
			// any second of the slot, its very first and its last included (slot rules are about slot numbers)
			off := rapid.SampledFrom([]uint32{0, 0, 1, c.n.Cfg.BlockTime / 2, c.n.Cfg.BlockTime - 1}).Draw(c.t, "secondInSlot")
			b.Header.Timestamp = c.n.Slot.GetSlotTime(slot) + off
			b.Header.GeneratorAddress = k.Addr
			b.Header.MaxHeightGenerated = c.n.LastGeneratedHeight(k.Addr)
			return resigned(b, c.n.SignerFor(c.valid.Header.Height, k)), true
		})
	}
	slotMut("slot-same-as-tip", func(c *mctx) (int, bool) {
		if c.n.Tip().Header.Height == 0 {
			return 0, false // the genesis timestamp defines slot 0; a block in slot 0 is "not later" as well, keep it simple
		}
		return c.n.SlotOf(c.n.Tip().Header.Timestamp), true
	})
	slotMut("slot-earlier-than-tip", func(c *mctx) (int, bool) {
		s := c.n.SlotOf(c.n.Tip().Header.Timestamp) - 1 - rapid.IntRange(0, 2).Draw(c.t, "earlier")
		return s, s >= 0
	})
	slotMut("slot-in-future", func(c *mctx) (int, bool) {
		return c.n.Cfg.SlotsBehind + 1 + rapid.IntRange(0, 3).Draw(c.t, "future"), true
	})
	add("slot-in-future:first-second-of-the-next-slot", true, func(c *mctx) (*blockchain.Block, bool) {
		// the boundary of the future rule: the slot after the current one, stamped with its very first second
		slot := c.n.Cfg.SlotsBehind + 1
		k, err := c.n.GeneratorAt(c.valid.Header.Height, slot)
		if err != nil {
			return nil, false
		}
		b := c.clone()
		b.Header.Timestamp = c.n.Slot.GetSlotTime(slot)
		b.Header.GeneratorAddress = k.Addr
		b.Header.MaxHeightGenerated = c.n.LastGeneratedHeight(k.Addr)
		return resigned(b, c.n.SignerFor(c.valid.Header.Height, k)), true
	})
	add("slot-of-another-validator", true, func(c *mctx) (*blockchain.Block, bool) {
		// timestamp moves to a later, non-future slot owned by somebody else; header still names and is signed by the original owner
		for d := 1; d <= 4; d++ {
			slot := c.slot + d
			if slot > c.n.Cfg.SlotsBehind {
				break
			}
			k, err := c.n.GeneratorAt(c.valid.Header.Height, slot)
			if err == nil && !bytes.Equal(k.Addr, c.owner.Addr) {
				b := c.clone()
				b.Header.Timestamp = c.n.Slot.GetSlotTime(slot)
				return resigned(b, c.owner), true
			}
		}
		return nil, false
	})
	add("generator-swapped-signed-by-named", true, func(c *mctx) (*blockchain.Block, bool) {
		for _, k := range node.Keys() {
			if !bytes.Equal(k.Addr, c.owner.Addr) {
				b := c.clone()
				b.Header.GeneratorAddress = k.Addr
				b.Header.MaxHeightGenerated = c.n.LastGeneratedHeight(k.Addr)
				return resigned(b, c.n.SignerFor(c.valid.Header.Height, k)), true
			}
		}
		return nil, false
	})
	add("signed-with-the-owner's-other-generator-key", true, func(c *mctx) (*blockchain.Block, bool) {
		// the key pair of the slot owner that is NOT in force at this height: revoked by a rotation, or never registered
		return resigned(c.clone(), c.n.OtherSignerFor(c.valid.Header.Height, node.KeyByAddr(c.valid.Header.GeneratorAddress))), true
	})
	add("generator-swapped-signed-by-owner", true, func(c *mctx) (*blockchain.Block, bool) {
		k := node.Keys()[15]
		b := c.clone()
		b.Header.GeneratorAddress = k.Addr
		return resigned(b, c.owner), true
	})
	add("signed-by-wrong-key", true, func(c *mctx) (*blockchain.Block, bool) {
		k := node.Keys()[14]
		if bytes.Equal(k.Addr, c.owner.Addr) {
			k = node.Keys()[15]
		}
		return resigned(c.clone(), k), true
	})
	add("signature-bitflip", true, func(c *mctx) (*blockchain.Block, bool) {
		b := c.clone()
		b.Header.Signature = flip(b.Header.Signature)
		b.Header.Init()
		return b, true
	})
	add("signature-zero", true, func(c *mctx) (*blockchain.Block, bool) {
		b := c.clone()
		b.Header.Signature = make([]byte, 64)
		b.Header.Init()
		return b, true
	})
	// A signature the node HAS verified before, on a header it does not belong to (seeded change C03-w: a cache of verified
	// (generator key, signature) pairs that does not include the signed content): the latest earlier block of the slot owner
	// lends its signature; nobody needs the private key for that.
	add("signature-copied-from-an-earlier-block-of-the-generator", true, func(c *mctx) (*blockchain.Block, bool) {
		for h := int64(c.n.Tip().Header.Height); h >= 1; h-- {
			hd, err := c.n.Chain.DataAccess().GetBlockHeaderByHeight(uint32(h))
			if err != nil {
				return nil, false
			}
			if bytes.Equal(hd.GeneratorAddress, c.valid.Header.GeneratorAddress) {
				b := c.clone()
				b.Header.Signature = append([]byte{}, hd.Signature...)
				b.Header.Init()
				return b, true
			}
		}
		return nil, false
	})
	add("signed-for-other-chainID", true, func(c *mctx) (*blockchain.Block, bool) {
		b := c.clone()
		b.Header.Sign([]byte{0x04, 0x00, 0x00, 0x0a}, c.owner.EdPriv)
		return b, true
	})
	for _, f := range headerFields {
		f := f
		via := f != "height" && f != "previousBlockID"
		add("stale-signature:"+f, via, func(c *mctx) (*blockchain.Block, bool) {
			b := c.clone()
			tweakField(b.Header, f)
			b.Header.Init() // new ID, old signature
			return b, true
		})
	}
	add("maxHeightPrevoted+1", true, func(c *mctx) (*blockchain.Block, bool) {
		b := c.clone()
		b.Header.MaxHeightPrevoted++
		return resigned(b, c.owner), true
	})
	add("maxHeightPrevoted-1", true, func(c *mctx) (*blockchain.Block, bool) {
		if c.valid.Header.MaxHeightPrevoted == 0 {
			return nil, false
		}
		b := c.clone()
		b.Header.MaxHeightPrevoted--
		return resigned(b, c.owner), true
	})
	add("maxHeightGenerated-contradicting", true, func(c *mctx) (*blockchain.Block, bool) {
		prev := c.n.LastGeneratedHeight(c.owner.Addr)
		if prev == 0 {
			return nil, false
		}
		b := c.clone()
		b.Header.MaxHeightGenerated = prev - 1 // denies having generated its previous block
		return resigned(b, c.owner), true
	})
	// aggregate commit
	add("aggregate-empty-wrong-height", true, func(c *mctx) (*blockchain.Block, bool) {
		b := c.clone()
		if !b.Header.AggregateCommit.Empty() {
			return nil, false
		}
		ac := *b.Header.AggregateCommit
		ac.Height += 1 + rapid.Uint32Range(0, 2).Draw(c.t, "acOff")
		b.Header.AggregateCommit = &ac
		return resigned(b, c.owner), true
	})
	add("aggregate-bits-without-signature", true, func(c *mctx) (*blockchain.Block, bool) {
		b := c.clone()
		ac := *b.Header.AggregateCommit
		if !ac.Empty() {
			ac.CertificateSignature = []byte{}
		} else {
			ac.AggregationBits = []byte{1}
		}
		b.Header.AggregateCommit = &ac
		return resigned(b, c.owner), true
	})
	aggMut := func(name string, f func(c *mctx, cert, pc uint32) (*blockchain.AggregateCommit, bool)) {
		add(name, true, func(c *mctx) (*blockchain.Block, bool) {
			_, pc, cert := c.n.Heights()
			ac, ok := f(c, cert, pc)
			if !ok || ac == nil {
				return nil, false
			}
			b := c.clone()
			b.Header.AggregateCommit = ac
			return resigned(b, c.owner), true
		})
	}
	full := func(c *mctx, h uint32) (*blockchain.AggregateCommit, bool) {
		p, err := c.n.CurrentParams(h)
		if err != nil {
			return nil, false
		}
		ac, err := c.n.BuildAggregate(h, p.Idx)
		return ac, err == nil
	}
	aggMut("aggregate-height<=certified", func(c *mctx, cert, pc uint32) (*blockchain.AggregateCommit, bool) {
		if cert == 0 {
			return nil, false
		}
		if rapid.Bool().Draw(c.t, "exactlyCertified") {
			return full(c, cert)
		}
		return full(c, cert-rapid.Uint32Range(0, cert-1).Draw(c.t, "below"))
	})
	aggMut("aggregate-height>precommitted", func(c *mctx, cert, pc uint32) (*blockchain.AggregateCommit, bool) {
		tip := c.n.Tip().Header.Height
		if pc >= tip {
			return nil, false
		}
		return full(c, rapid.Uint32Range(pc+1, tip).Draw(c.t, "above"))
	})
	aggMut("aggregate-beyond-next-parameter-change", func(c *mctx, cert, pc uint32) (*blockchain.AggregateCommit, bool) {
		nh, ok := c.n.NextParamHeight(cert + 1) // raw key space, independent of the API under test
		if !ok || nh > pc || nh <= cert {
			return nil, false
		}
		return full(c, rapid.Uint32Range(nh, pc).Draw(c.t, "beyond"))
	})
	validAgg := func(c *mctx, cert, pc uint32) (uint32, bool) {
		hi := pc
		if nh, ok := c.n.NextParamHeight(cert + 1); ok && nh-1 < hi {
			hi = nh - 1
		}
		if hi <= cert {
			return 0, false
		}
		return rapid.Uint32Range(cert+1, hi).Draw(c.t, "aggH"), true
	}
	aggMut("aggregate-bit-flipped", func(c *mctx, cert, pc uint32) (*blockchain.AggregateCommit, bool) {
		h, ok := validAgg(c, cert, pc)
		if !ok {
			return nil, false
		}
		p, _ := c.n.CurrentParams(h)
		if len(p.Idx) < 2 {
			return nil, false
		}
		// all but one sign, then the missing signer's bit is claimed as well
		ac, err := c.n.BuildAggregate(h, p.Idx[1:])
		if err != nil {
			return nil, false
		}
		for i := range ac.AggregationBits {
			ac.AggregationBits[i] = 0xff >> (8 - uint(min(8, len(p.Idx)-8*i)))
		}
		return ac, true
	})
	// (an over-long bitmap whose surplus bits name no validator is not required to be rejected by the statement: the
	// aggregate is still one over the certificate by validators reaching the threshold; the too-short case is C09's.)
	aggMut("aggregate-signature-of-other-height", func(c *mctx, cert, pc uint32) (*blockchain.AggregateCommit, bool) {
		h, ok := validAgg(c, cert, pc)
		if !ok || h < 2 {
			return nil, false
		}
		other, err := c.n.Chain.DataAccess().GetBlockHeaderByHeight(h - 1)
		if err != nil {
			return nil, false
		}
		p, _ := c.n.CurrentParams(h)
		ac, err := c.n.BuildAggregateFor(other, h, p.Idx, node.ChainID)
		if err != nil {
			return nil, false
		}
		ac.Height = h
		return ac, true
	})
	aggMut("aggregate-signed-for-other-chainID", func(c *mctx, cert, pc uint32) (*blockchain.AggregateCommit, bool) {
		h, ok := validAgg(c, cert, pc)
		if !ok {
			return nil, false
		}
		hd, _ := c.n.Chain.DataAccess().GetBlockHeaderByHeight(h)
		p, _ := c.n.CurrentParams(h)
		ac, err := c.n.BuildAggregateFor(hd, h, p.Idx, []byte{4, 0, 0, 0x0a})
		return ac, err == nil
	})
	aggMut("aggregate-below-threshold", func(c *mctx, cert, pc uint32) (*blockchain.AggregateCommit, bool) {
		h, ok := validAgg(c, cert, pc)
		if !ok {
			return nil, false
		}
		p, _ := c.n.CurrentParams(h)
		// greedy: largest signer set with weight < certificate threshold
		var signers []int
		var w uint64
		for i, ix := range p.Idx {
			if w+p.Weights[i] < p.Cert {
				signers = append(signers, ix)
				w += p.Weights[i]
			}
		}
		if len(signers) == 0 {
			return nil, false
		}
		ac, err := c.n.BuildAggregate(h, signers)
		return ac, err == nil
	})
	// roots and validatorsHash (re-signed: only the root rule is broken)
	for _, f := range []string{"transactionRoot", "assetRoot", "eventRoot", "stateRoot", "validatorsHash"} {
		f := f
		add("root-flipped:"+f, true, func(c *mctx) (*blockchain.Block, bool) {
			b := c.clone()
			tweakField(b.Header, f)
			return resigned(b, c.owner), true
		})
	}
	for _, kind := range []string{"module", "command", "pubkey", "siglen", "nosig", "params", "emptysig", "emptysig-second", "siglen65", "pubkey33", "module-unicode", "command-unicode"} {
		kind := kind
		add("tx-statically-invalid:"+kind, true, func(c *mctx) (*blockchain.Block, bool) {
			b := c.clone()
			// the invalid transaction at a drawn position of a payload of 1-5 transactions (added after seeded change C03-r: a
			// "parallelised" validation loop checked only the LAST transaction; the bad one used to be appended last, always)
			txs := append([]*blockchain.Transaction{}, b.Transactions...)
			for i := rapid.IntRange(0, 2).Draw(c.t, "paddingTxs"); i > 0 && len(txs) < 4; i-- {
				txs = append(txs, node.MakeTx(12, uint64(5000+len(txs)), 7, node.TxOK, 0, rapid.IntRange(0, 6).Draw(c.t, "padTxPad")))
			}
			pos := rapid.IntRange(0, len(txs)).Draw(c.t, "badTxPosition")
			txs = append(txs[:pos], append([]*blockchain.Transaction{badTx(kind)}, txs[pos:]...)...)
			switch {
			case len(txs) == 1:
				evid.R.Label("bad-tx-only", 1)
			case pos == len(txs)-1:
				evid.R.Label("bad-tx-last", 1)
			case pos == 0:
				evid.R.Label("bad-tx-first", 1)
			default:
				evid.R.Label("bad-tx-middle", 1)
			}
			setTxs(b, txs)
			rebuild(c, b)
			return resigned(b, c.owner), true
		})
	}
	add("payload-above-size-limit", true, func(c *mctx) (*blockchain.Block, bool) {
		b := c.clone()
		txs := append([]*blockchain.Transaction{}, b.Transactions...)
		size := 0
		for _, tx := range txs {
			size += len(tx.Encode()) // own measure, not the cached Size()
		}
		for i := 0; size <= int(c.n.Cfg.MaxTxLength); i++ {
			tx := node.MakeTx(13, uint64(1000+i), 5, node.TxOK, 0, 900)
			txs = append(txs, tx)
			size += len(tx.Encode()) // own measure, not the cached Size()
		}
		setTxs(b, txs)
		rebuild(c, b)
		return resigned(b, c.owner), true
	})
	add("assets-unsorted", true, func(c *mctx) (*blockchain.Block, bool) {
		b := c.clone()
		if len(b.Assets) == 0 {
			return nil, false // a single asset is trivially sorted
		}
		b.Assets = append(b.Assets, &blockchain.BlockAsset{Module: "aaa", Data: []byte{1}}) // sorts before every generated module name, appended last
		rebuild(c, b)
		return resigned(b, c.owner), true
	})
	add("assets-duplicate-module", true, func(c *mctx) (*blockchain.Block, bool) {
		b := c.clone()
		if len(b.Assets) == 0 {
			b.Assets = append(b.Assets, &blockchain.BlockAsset{Module: "zzz", Data: []byte{1}})
		}
		last := b.Assets[len(b.Assets)-1]
		b.Assets = append(b.Assets, &blockchain.BlockAsset{Module: last.Module, Data: []byte{2}})
		rebuild(c, b)
		return resigned(b, c.owner), true
	})
	for _, step := range []string{"verifyAssets", "before", "after", "commit"} {
		step := step
		add("execution-fails:"+step, true, func(c *mctx) (*blockchain.Block, bool) {
			sp := c.spec
			sp.NoScript = false
			sp.Script.FailAt = step
			sp.AbsSlot = c.slot
			b, err := c.n.Build(sp)
			if err != nil {
				return nil, false
			}
			return b, true
		})
	}
	for name, outcome := range map[string]int{"tx-verify-invalid": node.TxVerifyFail, "tx-verify-error": node.TxVerifyErr, "tx-execute-error": node.TxExecuteErr, "tx-verify-pending": node.TxPending} {
		outcome := outcome
		add("execution-fails:"+name, true, func(c *mctx) (*blockchain.Block, bool) {
			b := c.clone()
			setTxs(b, append(append([]*blockchain.Transaction{}, b.Transactions...), node.MakeTx(12, 77, 10, outcome, 0, 1)))
			rebuild(c, b)
			return resigned(b, c.owner), true
		})
	}
	// The execution result and the header disagree about the validator set of the next height. These blocks are refused only
	// after they have been executed, and the valid successor offered afterwards must not be judged by anything they left behind.
	otherParams := func(c *mctx) (*node.NextParams, bool) {
		cur, err := c.n.CurrentParams(c.valid.Header.Height)
		if err != nil || len(cur.Idx) == 0 {
			return nil, false
		}
		next := &node.NextParams{Idx: append([]int{}, cur.Idx...), Weights: append([]uint64{}, cur.Weights...)}
		next.Weights[0]++
		var w uint64
		for _, x := range next.Weights {
			w += x
		}
		next.Precommit, next.Cert = w*2/3+1, w*2/3+1
		return next, true
	}
	add("validator-change-executed-but-validatorsHash-of-old-set", true, func(c *mctx) (*blockchain.Block, bool) {
		if c.spec.Script.Next != nil && !c.spec.NoScript {
			return nil, false
		}
		next, ok := otherParams(c)
		if !ok {
			return nil, false
		}
		sp := c.spec
		sp.NoScript = false
		sp.Script.Next = next
		sp.AbsSlot = c.slot
		b, err := c.n.Build(sp)
		if err != nil || bytes.Equal(b.Header.ValidatorsHash, c.valid.Header.ValidatorsHash) {
			return nil, false
		}
		b.Header.ValidatorsHash = append([]byte{}, c.valid.Header.ValidatorsHash...)
		return resigned(b, c.owner), true
	})
	add("validator-change-dropped-but-validatorsHash-of-new-set", true, func(c *mctx) (*blockchain.Block, bool) {
		if c.spec.Script.Next == nil || c.spec.NoScript {
			return nil, false
		}
		sp := c.spec
		sp.Script.Next = nil
		sp.AbsSlot = c.slot
		b, err := c.n.Build(sp)
		if err != nil || bytes.Equal(b.Header.ValidatorsHash, c.valid.Header.ValidatorsHash) {
			return nil, false
		}
		b.Header.ValidatorsHash = append([]byte{}, c.valid.Header.ValidatorsHash...)
		return resigned(b, c.owner), true
	})
	add("validatorsHash-of-another-set", true, func(c *mctx) (*blockchain.Block, bool) {
		next, ok := otherParams(c)
		if !ok {
			return nil, false
		}
		h := node.ValidatorsHashOf(next)
		if bytes.Equal(h, c.valid.Header.ValidatorsHash) {
			return nil, false
		}
		b := c.clone()
		b.Header.ValidatorsHash = h
		return resigned(b, c.owner), true
	})
	// roots of the wrong length (LIP-0055: every hash in the header is 32 bytes long), re-signed by the owner
	for _, f := range []string{"stateRoot", "eventRoot", "validatorsHash", "transactionRoot", "assetRoot"} {
		for _, l := range []int{0, 31, 33} {
			f, l := f, l
			add(fmt.Sprintf("root-length:%s=%d", f, l), true, func(c *mctx) (*blockchain.Block, bool) {
				b := c.clone()
				var p *codec.Hex
				switch f {
				case "stateRoot":
					p = &b.Header.StateRoot
				case "eventRoot":
					p = &b.Header.EventRoot
				case "validatorsHash":
					p = &b.Header.ValidatorsHash
				case "transactionRoot":
					p = &b.Header.TransactionRoot
				case "assetRoot":
					p = &b.Header.AssetRoot
				}
				v := append([]byte{}, (*p)...)
				switch {
				case l < len(v):
					v = v[:l]
				default:
					v = append(v, 0)
				}
				*p = v
				return resigned(b, c.owner), true
			})
		}
	}
	sort.Slice(out, func(i, j int) bool { return out[i].name < out[j].name })
	return out
}

func min(a, b int) int {
	if a < b {
		return a
	}
	return b
}

var allOps = ops()

// selection list: operators that need a particular state (aggregate commits, contradiction) get three tickets
var opTickets = func() []int {
	var out []int
	for i, o := range allOps {
		out = append(out, i)
		if strings.HasPrefix(o.name, "aggregate-") || strings.HasPrefix(o.name, "validator-change-") || strings.HasPrefix(o.name, "slot-in-future:") || o.name == "maxHeightGenerated-contradicting" {
			out = append(out, i, i)
		}
	}
	return out
}()

type state struct {
	dump      []node.KV
	tip       []byte
	p, pc, c  uint32
	finalized uint32
}

func capture(n *node.Node) state {
	var s state
	s.dump = n.Dump()
	s.tip = n.Tip().Header.ID
	s.p, s.pc, s.c = n.Heights()
	s.finalized = n.Finalized()
	return s
}

func (a state) diff(b state) string {
	if !bytes.Equal(a.tip, b.tip) {
		return fmt.Sprintf("tip changed %x -> %x", a.tip[:6], b.tip[:6])
	}
	if a.p != b.p || a.pc != b.pc || a.c != b.c || a.finalized != b.finalized {
		return fmt.Sprintf("heights changed (%d,%d,%d,f=%d) -> (%d,%d,%d,f=%d)", a.p, a.pc, a.c, a.finalized, b.p, b.pc, b.c, b.finalized)
	}
	if len(a.dump) != len(b.dump) {
		return fmt.Sprintf("database has %d records, had %d", len(b.dump), len(a.dump))
	}
	for i := range a.dump {
		if !bytes.Equal(a.dump[i].K, b.dump[i].K) || !bytes.Equal(a.dump[i].V, b.dump[i].V) {
			return fmt.Sprintf("database record %x changed", a.dump[i].K)
		}
	}
	return ""
}

// known defects (narrow signatures): operator name -> finding signature
func signatureOf(opName, how string) string { return "accepted:" + opName + ":" + how }

func runCase(t *rapid.T) {
	nVal := rapid.IntRange(1, 5).Draw(t, "validators")
	cfg := node.Config{Genesis: node.EqualGenesis(nVal), BatchSize: rapid.IntRange(nVal, nVal+2).Draw(t, "batch"), KeepEvents: rapid.SampledFrom([]int{-1, 2, 300, node.KeepEventsNone}).Draw(t, "keepEvents")}
	n, err := node.New(cfg)
	if err != nil {
		t.Fatalf("new node: %v", err)
	}
	defer n.Close()
	opts := node.GenOpts{MaxTxs: 3, AllowChange: true, AllowAgg: true, AllowStandby: true, AllowRotate: true}
	flags := map[string]bool{}
	var hist []string
	hlen := rapid.IntRange(0, 25).Draw(t, "history")
	for i := 0; i < hlen; i++ {
		sp := n.DrawSpec(t, opts, flags)
		b, err := n.Apply(sp)
		if err != nil {
			t.Fatalf("harness-built block rejected at step %d: %v\nhistory: %v", i, err, hist)
		}
		hist = append(hist, fmt.Sprintf("h=%d txs=%d next=%v agg=%v", b.Header.Height, len(b.Transactions), sp.Script.Next != nil && !sp.NoScript, !b.Header.AggregateCommit.Empty()))
	}
	n.TakeEvents()
	// valid successor B
	sp := n.DrawSpec(t, opts, map[string]bool{})
	sp.Agg = nil // mutation operators that target the aggregate commit bring their own
	// Sometimes the successor's slot is chosen so that its owner is a generator WITHOUT BFT weight (standby) that already has a block in
	// the window (added after seeded change C03-q: the contradiction rule was skipped for generators that are not BFT validators; such an
	// owner with an earlier block came up too rarely for the maxHeightGenerated operator to meet it).
	forceOp := ""
	if rapid.Bool().Draw(t, "preferStandbyOwner") {
		height := n.Tip().Header.Height + 1
		gens := n.ScriptedGenerators(height)
		if cur, err := n.CurrentParams(height); err == nil && len(gens) > len(cur.Idx) {
			bft := map[int]bool{}
			for _, ix := range cur.Idx {
				bft[ix] = true
			}
			base := n.SlotOf(n.Tip().Header.Timestamp)
			for gap := 1; gap <= len(gens); gap++ {
				ix := gens[(base+gap)%len(gens)]
				if !bft[ix] && n.LastGeneratedHeight(node.Keys()[ix].Addr) > 0 && base+gap < n.Cfg.SlotsBehind {
					sp.SlotGap = gap
					evid.R.Label("successor-by-standby-generator-with-earlier-block", 1)
					forceOp = "maxHeightGenerated-contradicting"
					break
				}
			}
		}
	}
	valid, err := n.Build(sp)
	if err != nil {
		t.Fatalf("build: %v", err)
	}
	c := &mctx{t: t, n: n, valid: valid, spec: sp, owner: n.SignerFor(valid.Header.Height, node.KeyByAddr(valid.Header.GeneratorAddress)), slot: n.SlotOf(valid.Header.Timestamp)}
	before := capture(n)
	if before.c > 0 {
		evid.R.Label("state-certified>0", 1)
	}
	if before.pc > before.c {
		evid.R.Label("state-precommitted>certified", 1)
	}
	evid.R.Label(fmt.Sprintf("state-height-%02d+", (hlen/5)*5), 1)
	nOps := rapid.IntRange(3, 8).Draw(t, "nOps")
	for i := 0; i < nOps; i++ {
		var o op
		var m *blockchain.Block
		ok := false
		for try := 0; try < 4 && !ok; try++ { // redraw when the operator does not apply to this state
			o = allOps[opTickets[int(rapid.Uint32().Draw(t, "op")%uint32(len(opTickets)))]]
			if i == 0 && try == 0 && forceOp != "" {
				for _, cand := range allOps {
					if cand.name == forceOp {
						o = cand
					}
				}
			}
			m, ok = o.build(c)
			if !ok {
				evid.R.Label("not-applicable", 1)
			}
		}
		if !ok {
			continue
		}
		if bytes.Equal(m.Header.ID, valid.Header.ID) {
			t.Fatalf("operator %s produced the valid block itself", o.name)
		}
		key := fmt.Sprintf("%s|%x", o.name, m.Header.ID)
		check := func(how string, call func() error) {
			err := call()
			after := capture(n)
			evs := n.TakeEvents()
			d := before.diff(after)
			if d == "" && len(evs) == 0 {
				return // rejected (error or silent discard) and nothing changed
			}
			sig := signatureOf(o.name, how)
			if evid.R.KnownFinding(sig) {
				// the defect let an invalid block in: abandon this node state
				panic(abandon{})
			}
			t.Fatalf("invalid block (%s) via %s: err=%v; %s; %d consensus events emitted\nmutant header: %+v\nhistory: %v", o.name, how, err, d, len(evs), *m.Header, hist)
		}
		abandoned := false
		func() {
			defer func() {
				if r := recover(); r != nil {
					if _, ok := r.(abandon); ok {
						abandoned = true
						return
					}
					panic(r)
				}
			}()
			if o.viaProcess {
				check("process", func() error { return n.Exec.VerifProcess(node.CloneBlock(m), "peer") })
			}
			// what sync does with a downloaded block: stateless validation, then processValidated
			check("sync-path", func() error {
				mm := node.CloneBlock(m)
				if err := mm.Validate(); err != nil {
					return err
				}
				return n.Exec.VerifProcessValidated(mm, false, false)
			})
		}()
		evid.R.Case(key, true, func() any {
			return map[string]any{"kind": "mutant", "operator": o.name, "stateHeight": n.Tip().Header.Height, "validators": nVal,
				"mutantHeader": fmt.Sprintf("%+v", *m.Header), "txs": len(m.Transactions), "assets": len(m.Assets)}
		}, "mutant", "op:"+o.name)
		if abandoned {
			evid.R.Excluded(1)
			return
		}
	}
	// the untouched valid successor is still accepted: no hidden corruption, and the check cannot pass by rejecting everything
	if err := n.Exec.VerifProcess(node.CloneBlock(valid), "peer"); err != nil || !bytes.Equal(n.Tip().Header.ID, valid.Header.ID) {
		t.Fatalf("valid successor not accepted after the rejected mutants: err=%v\nhistory: %v", err, hist)
	}
	evs := n.TakeEvents()
	if len(evs) == 0 {
		t.Fatalf("no consensus event for the accepted block")
	}
	evid.R.Case("valid|"+string(valid.Header.ID), false, nil, "valid-accepted")
}

type abandon struct{}

func TestMutants(t *testing.T) { rapid.Check(t, runCase) }

// Every operator must be exercised: enumerate them on a few fixed states (also gives each a deterministic smoke run).
func TestEveryOperatorApplicableSomewhere(t *testing.T) {
	seen := map[string]bool{}
	runs := 0
	rapid.Check(t, func(t *rapid.T) {
		runs++
		if len(seen) == len(allOps) || runs > 40 {
			return
		}
		n, err := node.New(node.Config{Genesis: node.EqualGenesis(4), BatchSize: 5})
		if err != nil {
			t.Fatal(err)
		}
		defer n.Close()
		flags := map[string]bool{}
		for i := 0; i < 14; i++ {
			sp := n.DrawSpec(t, node.GenOpts{MaxTxs: 2, AllowChange: i == 9, AllowAgg: false}, flags)
			sp.SlotGap = 1
			if _, err := n.Apply(sp); err != nil {
				t.Fatalf("apply: %v", err)
			}
		}
		sp := node.Spec{Script: node.Script{EvBefore: 1}}
		valid, err := n.Build(sp)
		if err != nil {
			t.Fatal(err)
		}
		c := &mctx{t: t, n: n, valid: valid, spec: sp, owner: n.SignerFor(valid.Header.Height, node.KeyByAddr(valid.Header.GeneratorAddress)), slot: n.SlotOf(valid.Header.Timestamp)}
		for _, o := range allOps {
			if _, ok := o.build(c); ok {
				seen[o.name] = true
			}
		}
	})
	var missing []string
	for _, o := range allOps {
		if !seen[o.name] {
			missing = append(missing, o.name)
		}
	}
	evid.R.Note("operators: %d, never applicable in the fixed-shape states: %s", len(allOps), strings.Join(missing, ","))
}

// ---------------------------------------------------------------------------------------------------------------
// Regression cases for defects repaired by fix: commits (known_findings/C03.json). Fixed state: 4 equal validators,
// 12 blocks, a threshold change at block 5 (effective at height 6), no aggregate commit yet.

func regress(t *testing.T, opName string) {
	done := false
	rapid.Check(t, func(rt *rapid.T) {
		if done {
			return
		}
		done = true
		n, err := node.New(node.Config{Genesis: node.EqualGenesis(4), BatchSize: 4})
		if err != nil {
			rt.Fatalf("node: %v", err)
		}
		defer n.Close()
		for i := 1; i <= 12; i++ {
			sp := node.Spec{Script: node.Script{EvBefore: 1}, Txs: []*blockchain.Transaction{node.MakeTx(11, uint64(i), 10, node.TxOK, 1, 2)}}
			if i == 5 {
				g := node.EqualGenesis(4)
				g.Precommit, g.Cert = 4, 4
				sp.Script.Next = &g
			}
			if _, err := n.Apply(sp); err != nil {
				rt.Fatalf("apply %d: %v", i, err)
			}
		}
		n.TakeEvents()
		sp := node.Spec{Script: node.Script{EvAfter: 1}, Txs: []*blockchain.Transaction{node.MakeTx(11, 99, 10, node.TxOK, 0, 2)}}
		valid, err := n.Build(sp)
		if err != nil {
			rt.Fatal(err)
		}
		c := &mctx{t: rt, n: n, valid: valid, spec: sp, owner: n.SignerFor(valid.Header.Height, node.KeyByAddr(valid.Header.GeneratorAddress)), slot: n.SlotOf(valid.Header.Timestamp)}
		var o *op
		for i := range allOps {
			if allOps[i].name == opName {
				o = &allOps[i]
			}
		}
		m, ok := o.build(c)
		if !ok {
			rt.Fatalf("operator %s not applicable in the regression state", opName)
		}
		before := capture(n)
		err = n.Exec.VerifProcess(node.CloneBlock(m), "peer")
		if d := before.diff(capture(n)); d != "" || len(n.TakeEvents()) != 0 {
			rt.Fatalf("regression: invalid block (%s) accepted via process: err=%v %s", opName, err, d)
		}
		mm := node.CloneBlock(m)
		if err := mm.Validate(); err == nil {
			err = n.Exec.VerifProcessValidated(mm, false, false)
			if d := before.diff(capture(n)); d != "" || err == nil {
				rt.Fatalf("regression: invalid block (%s) accepted via sync path: err=%v %s", opName, err, d)
			}
		}
		evid.R.Case("regress|"+opName, true, func() any { return map[string]any{"kind": "regress", "operator": opName} }, "regress")
	})
}

func TestRegressTxStaticValidation(t *testing.T) {
	for _, k := range []string{"module", "command", "pubkey", "siglen", "nosig", "params", "emptysig", "emptysig-second", "siglen65", "pubkey33", "module-unicode", "command-unicode"} {
		regress(t, "tx-statically-invalid:"+k)
	}
}
func TestRegressPayloadSizeLimit(t *testing.T) { regress(t, "payload-above-size-limit") }
func TestRegressEmptyStateRoot(t *testing.T)    { regress(t, "root-length:stateRoot=0") }
func TestRegressEventRoot(t *testing.T)        { regress(t, "root-flipped:eventRoot") }
func TestRegressAggregateBeyondNextParams(t *testing.T) {
	regress(t, "aggregate-beyond-next-parameter-change")
}


