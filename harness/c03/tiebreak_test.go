package c03

import (
	"bytes"
	"fmt"
	"sort"
	"strings"
	"testing"
	"time"

	"github.com/LiskHQ/lisk-engine/pkg/blockchain"
	"pgregory.net/rapid"

	"verifharness/evid"
	"verifharness/node"
)

// Invalid blocks that take the tie-break path: a competitor for the tip's height (same parent, same maxHeightPrevoted, the
// owner of the current wall-clock slot, the tip received outside its own slot) which breaks one validity rule. The fork
// choice then removes the tip in favour of the competitor, so "a block failing any rule leaves chain, consensus state and
// finalized height exactly as they were" has to survive a removal and a restoration.

func normEqual(a, b []node.KV) string {
	x, y := node.NormDump(a), node.NormDump(b)
	var keys []string
	for k, v := range x {
		if w, ok := y[k]; !ok || w != v {
			keys = append(keys, k)
		}
	}
	for k := range y {
		if _, ok := x[k]; !ok {
			keys = append(keys, k)
		}
	}
	sort.Strings(keys)
	if len(keys) == 0 {
		return ""
	}
	if len(keys) > 6 {
		keys = keys[:6]
	}
	return fmt.Sprintf("database records differ: %x", keys)
}

func TestInvalidTieBreakCompetitor(t *testing.T) {
	rapid.Check(t, func(t *rapid.T) {
		nVal := rapid.IntRange(2, 5).Draw(t, "validators")
		n, err := node.New(node.Config{Genesis: node.EqualGenesis(nVal), BatchSize: nVal + 1, KeepEvents: rapid.SampledFrom([]int{-1, 2, 300}).Draw(t, "keepEvents")})
		if err != nil {
			t.Fatalf("node: %v", err)
		}
		defer n.Close()
		opts := node.GenOpts{MaxTxs: 3, AllowChange: true, AllowAgg: true, AllowStandby: true, AllowRotate: true}
		var hist []string
		for i := rapid.IntRange(1, 14).Draw(t, "history"); i > 0; i-- {
			b, err := n.Apply(n.DrawSpec(t, opts, map[string]bool{}))
			if err != nil {
				t.Fatalf("harness-built block rejected: %v\n%v", err, hist)
			}
			hist = append(hist, fmt.Sprintf("h=%d txs=%d", b.Header.Height, len(b.Transactions)))
		}
		tip := n.Tip()
		if tip.Header.Height <= n.Finalized() {
			return
		}
		sib, ok := n.BuildTieBreakSibling(rapid.Uint32Range(100, 999).Draw(t, "salt"))
		if !ok {
			evid.R.Label("tie-break-sibling-not-constructible", 1)
			return
		}
		owner := n.SignerFor(sib.Header.Height, node.KeyByAddr(sib.Header.GeneratorAddress))
		kind := rapid.SampledFrom([]string{"valid", "transactionRoot-flipped", "assetRoot-flipped", "statically-invalid-tx", "assets-unsorted", "payload-root-mismatch",
			"stateRoot-flipped", "eventRoot-flipped", "validatorsHash-flipped", "signature-bitflip", "signed-by-other-key", "execution-fails"}).Draw(t, "kind")
		static := false
		switch kind {
		case "transactionRoot-flipped":
			sib.Header.TransactionRoot = flip(sib.Header.TransactionRoot)
			node.Resign(sib, owner)
			static = true
		case "assetRoot-flipped":
			sib.Header.AssetRoot = flip(sib.Header.AssetRoot)
			node.Resign(sib, owner)
			static = true
		case "statically-invalid-tx":
			setTxs(sib, []*blockchain.Transaction{badTx(rapid.SampledFrom([]string{"siglen", "nosig", "emptysig", "pubkey", "module"}).Draw(t, "badTx"))})
			node.Resign(sib, owner)
			static = true
		case "payload-root-mismatch":
			sib.Transactions = []*blockchain.Transaction{node.MakeTx(12, 5, 100, node.TxOK, 0, 1)} // payload no longer matches the (empty) transaction root
			static = true
		case "assets-unsorted":
			sib.Assets = append(blockchain.BlockAssets{{Module: "zz", Data: []byte{1}}}, sib.Assets...)
			sib.Header.AssetRoot = blockchain.BlockAssets(sib.Assets).GetRoot()
			node.Resign(sib, owner)
			static = true
		case "stateRoot-flipped":
			sib.Header.StateRoot = flip(sib.Header.StateRoot)
			node.Resign(sib, owner)
		case "eventRoot-flipped":
			sib.Header.EventRoot = flip(sib.Header.EventRoot)
			node.Resign(sib, owner)
		case "validatorsHash-flipped":
			sib.Header.ValidatorsHash = flip(sib.Header.ValidatorsHash)
			node.Resign(sib, owner)
		case "signature-bitflip":
			sib.Header.Signature = flip(sib.Header.Signature)
			sib.Init()
		case "signed-by-other-key":
			node.Resign(sib, n.OtherSignerFor(sib.Header.Height, node.KeyByAddr(sib.Header.GeneratorAddress)))
		case "execution-fails":
			sc := node.ScriptOf(sib.Assets)
			sc.FailAt = rapid.SampledFrom([]string{"before", "after", "commit"}).Draw(t, "failAt")
			sib.Assets = blockchain.BlockAssets{node.ScriptAsset(sc)}
			sib.Header.AssetRoot = blockchain.BlockAssets(sib.Assets).GetRoot()
			node.Resign(sib, owner)
		}
		if bytes.Equal(sib.Header.ID, tip.Header.ID) {
			return
		}
		late := time.Now().Add(-time.Duration(n.Cfg.BlockTime) * 3 * time.Second) // some slots before "now", not the tip's own... (tip slots lie far in the past)
		_ = late
		now := time.Now()
		n.Exec.VerifSetLastBlockReceived(&now) // the tip was received now, i.e. outside its own (past) slot
		before := capture(n)
		n.TakeEvents()
		perr := n.Exec.VerifProcess(node.CloneBlock(sib), "peer")
		after := capture(n)
		evs := n.TakeEvents()
		desc := fmt.Sprintf("tie-break competitor (%s) for h=%d: err=%v; history %v", kind, tip.Header.Height, perr, hist)
		if kind == "valid" {
			if !bytes.Equal(after.tip, sib.Header.ID) {
				t.Fatalf("valid tie-break competitor did not replace the tip (the cases below would not take the tie-break path): %s", desc)
			}
			evid.R.Case("tb|"+desc, false, nil, "tie-break-competitor", "tb-valid-replaces")
			return
		}
		if !bytes.Equal(after.tip, before.tip) {
			t.Fatalf("invalid %s: tip changed %x -> %x", desc, before.tip[:6], after.tip[:6])
		}
		if after.p != before.p || after.pc != before.pc || after.c != before.c || after.finalized != before.finalized {
			t.Fatalf("invalid %s: heights changed (%d,%d,%d,f=%d) -> (%d,%d,%d,f=%d)", desc, before.p, before.pc, before.c, before.finalized, after.p, after.pc, after.c, after.finalized)
		}
		if static {
			// refused before anything is touched: nothing at all may change, nothing is announced
			if d := before.diff(after); d != "" || len(evs) != 0 {
				t.Fatalf("statically invalid %s: %s; %d consensus events emitted", desc, d, len(evs))
			}
		} else if d := normEqual(before.dump, after.dump); d != "" {
			// refused during verification/execution: the tip is removed and restored; the restored state must be the old one
			t.Fatalf("invalid %s: after the restoration %s", desc, d)
		}
		// and the chain goes on: the next valid block is accepted
		if n.SlotOf(n.Tip().Header.Timestamp) < n.Cfg.SlotsBehind {
			if _, err := n.Apply(node.Spec{Script: node.Script{Salt: 1}}); err != nil {
				t.Fatalf("after the refused %s the next valid block is rejected: %v", desc, err)
			}
		}
		evid.R.Case("tb|"+desc, true, func() any {
			return map[string]any{"kind": "tie-break-competitor", "invalid": kind, "height": tip.Header.Height, "err": fmt.Sprint(perr)}
		}, "tie-break-competitor", "tb-"+kind)
		_ = strings.Join
	})
}
