package c15

import (
	"bytes"
	"context"
	"encoding/json"
	"fmt"
	"github.com/LiskHQ/lisk-engine/pkg/consensus/certificate"
	"github.com/LiskHQ/lisk-engine/pkg/labi"
	"os"
	"sort"
	"strings"
	"testing"
	"time"

	"github.com/LiskHQ/lisk-engine/pkg/blockchain"
	"github.com/LiskHQ/lisk-engine/pkg/consensus"
	"github.com/LiskHQ/lisk-engine/pkg/crypto"
	"github.com/LiskHQ/lisk-engine/pkg/db"
	"github.com/LiskHQ/lisk-engine/pkg/engine/config"
	"github.com/LiskHQ/lisk-engine/pkg/generator"
	"github.com/LiskHQ/lisk-engine/pkg/p2p"
	"github.com/LiskHQ/lisk-engine/pkg/txpool"
	"pgregory.net/rapid"

	"verifharness/evid"
	mbft "verifharness/model/bft"
	"verifharness/node"
)

func TestMain(m *testing.M) { evid.Main(m, "C15") }

// mockConn satisfies txpool's unexported connection interface.
type mockConn struct{}

func (mockConn) Broadcast(ctx context.Context, event string, data []byte) error { return nil }
func (mockConn) RegisterRPCHandler(endpoint string, handler p2p.RPCHandler, opts ...p2p.RPCHandlerOption) error {
	return nil
}
func (mockConn) RegisterEventHandler(name string, handler p2p.EventHandler, validator p2p.Validator) error {
	return nil
}
func (mockConn) ApplyPenalty(pid p2p.PeerID, score int) {}
func (mockConn) RequestFrom(ctx context.Context, peerID p2p.PeerID, procedure string, data []byte) p2p.Response {
	return p2p.Response{}
}
func (mockConn) Publish(ctx context.Context, topicName string, data []byte) error { return nil }

// consWrap is the real Executer with AddInternal intercepted.
type consWrap struct {
	*consensus.Executer
	onAdd func(b *blockchain.Block)
}

func (c *consWrap) AddInternal(b *blockchain.Block) { c.onAdd(b) }

type world struct {
	t              *rapid.T
	n              *node.Node
	genDB          *db.DB
	pool           *txpool.TransactionPool
	gen            *generator.Generator
	cfg            *config.Config
	forged         []*blockchain.Block // every header ever signed, in order
	last           *blockchain.Block   // block handed to AddInternal by the latest forge, nil if none
	orderViolation string
	hist           []string
	maxTxSize      uint32
	allNoVote      bool
	dropMode       int               // 0: forged blocks are dropped at random; 1: always dropped (never reach consensus); 2: never dropped
	forceChange    bool              // the next forged block carries a parameter change of the application
	forceCertify   bool              // before the next forge every validator certifies the whole uncertified range
	aggAcross      int               // forged blocks with a non-empty aggregate commit while a parameter change was finalized but uncertified
	lastAccepted   *blockchain.Block // latest forged block that reached consensus (was published)
	accepted       []*blockchain.Block
	consensusLog   []string // consensus information the application was given since the log was last cleared
	keysFile       string   // path of the generator keys file when the world uses generator.keys.fromFile
	gStar          []byte   // the validator owning the current wall-clock slot: the only one the real generator forges for
}

func (w *world) fail(format string, a ...any) {
	w.t.Fatalf("%s\nhistory:\n%s", fmt.Sprintf(format, a...), strings.Join(w.hist, "\n"))
}

func (w *world) newGenerator() {
	w.gen = generator.NewGenerator(&generator.GeneratorParams{
		Consensus: &consWrap{Executer: w.n.Exec, onAdd: w.onAdd},
		ABI:       w.n.ABI, Pool: w.pool, Chain: w.n.Chain,
	})
	if err := w.gen.Init(&generator.GeneratorInitParams{CTX: context.Background(), Cfg: w.cfg, Logger: node.NopLogger(), BlockchainDB: w.n.DB, GeneratorDB: w.genDB}); err != nil {
		w.fail("generator init: %v", err)
	}
	k := node.KeyByAddr(w.gStar)
	w.gen.EnableGeneration(k.Addr, &generator.PlainKeys{GeneratorKey: k.EdPub, GeneratorPrivateKey: k.EdPriv, BLSKey: k.BLSPub, BLSPrivateKey: k.BLSPriv})
}

// onAdd observes the hand-over: the persisted generator info must already cover this block (a fresh reader).
func (w *world) onAdd(b *blockchain.Block) {
	w.last = b
	key := bytes.Join([][]byte{generator.GeneratorDBPrefixGeneratedInfo, generator.GeneratorDBPrefixGeneratedInfo, b.Header.GeneratorAddress}, nil)
	raw, ok := w.genDB.Get(key)
	if !ok {
		w.orderViolation = fmt.Sprintf("block h=%d handed to consensus but the generator database has no record for %x", b.Header.Height, b.Header.GeneratorAddress[:4])
		return
	}
	info := &generator.GeneratorInfo{}
	if err := info.Decode(raw); err != nil {
		w.orderViolation = "generator info undecodable: " + err.Error()
		return
	}
	if info.Height < b.Header.Height {
		w.orderViolation = fmt.Sprintf("block h=%d handed to consensus while the persisted generated height is %d", b.Header.Height, info.Height)
	}
}

func newWorld(t *rapid.T) *world {
	nVal := rapid.IntRange(4, 6).Draw(t, "validators") // finality must be able to advance without the forging validator
	cfg := node.Config{Genesis: node.EqualGenesis(nVal), BatchSize: nVal + 1}
	// certificate threshold independent of the precommit threshold (anywhere in the legal range W/3+1 .. W)
	switch rapid.IntRange(0, 3).Draw(t, "genesisCertThreshold") {
	case 0:
		cfg.Genesis.Cert = uint64(nVal)
	case 1:
		cfg.Genesis.Cert = uint64(nVal)/3 + 1
	}
	maxTx := rapid.SampledFrom([]uint32{120, 300, 700, 15 * 1024}).Draw(t, "maxTransactionsSize")
	cfg.MaxTxLength = maxTx
	n, err := node.New(cfg)
	if err != nil {
		t.Fatalf("node: %v", err)
	}
	w := &world{t: t, n: n, maxTxSize: maxTx}
	w.genDB, _ = db.NewInMemoryDB()
	w.cfg = &config.Config{System: &config.SystemConfig{DataPath: "/nonexistent"}, Genesis: &config.GenesisConfig{ChainID: node.ChainID, BlockTime: n.Cfg.BlockTime, MaxTransactionsSize: maxTx, BFTBatchSize: uint32(cfg.BatchSize)},
		Generator: &config.GeneratorConfig{Keys: &config.KeysConfig{}}}
	w.pool = txpool.NewTransactionPool(&txpool.TransactionPoolConfig{MaxTransactions: 4096, MaxTransactionsPerAccount: 64, MinReplacementFeeDifference: 1})
	if err := w.pool.Init(context.Background(), node.NopLogger(), n.DB, n.Chain, mockConn{}, n.ABI); err != nil {
		t.Fatalf("pool init: %v", err)
	}
	g, err := n.GeneratorAt(1, n.Cfg.SlotsBehind)
	if err != nil {
		t.Fatalf("slot owner: %v", err)
	}
	w.gStar = g.Addr
	n.ABI.OnConsensus = func(call string, c *labi.Consensus) {
		if c == nil {
			w.consensusLog = append(w.consensusLog, call+":nil")
			return
		}
		var vs []string
		for _, v := range c.CurrentValidators {
			vs = append(vs, fmt.Sprintf("%x/%d", v.Address[:3], v.BFTWeight))
		}
		w.consensusLog = append(w.consensusLog, fmt.Sprintf("%s:certified=%d:threshold=%d:implyMaxPrevote=%v:validators=%v", call, c.MaxHeightCertified, c.CertificateThreshold, c.ImplyMaxPrevote, vs))
	}
	// Half of the worlds configure the forging validator's keys through `generator.keys.fromFile`, as an operator does: Init imports the
	// file on EVERY start of the node, also over a generator database that already holds the validator's generated heights (added after
	// seeded change C15-r: the import reset the persisted record, so the first header after a restart contradicted the earlier ones).
	if rapid.Bool().Draw(t, "keysFromFile") {
		k := node.KeyByAddr(w.gStar)
		// (an item without an `encrypted` part makes Init dereference nil - observation O10 in DESIGN.md, outside C15; so an empty one is given)
		kf := &generator.KeysFile{Keys: []*generator.KeysFileItem{{Address: k.Addr, Encrypted: &crypto.EncryptedMessage{}, Plain: &generator.PlainKeys{GeneratorKey: k.EdPub, GeneratorPrivateKey: k.EdPriv, BLSKey: k.BLSPub, BLSPrivateKey: k.BLSPriv}}}}
		raw, err := json.Marshal(kf)
		if err != nil {
			t.Fatalf("keys file: %v", err)
		}
		f, err := os.CreateTemp("", "c15-keys-*.json")
		if err != nil {
			t.Fatalf("keys file: %v", err)
		}
		f.Write(raw)
		f.Close()
		w.keysFile = f.Name()
		w.cfg.Generator.Keys.FromFile = w.keysFile
		w.hist = append(w.hist, "forging keys configured through generator.keys.fromFile")
		evid.R.Label("world-keys-from-file", 1)
	}
	w.newGenerator()
	return w
}

func (w *world) close() {
	w.n.Close()
	w.genDB.Close()
	node.ClearOutcomeOverrides()
	if w.keysFile != "" {
		os.Remove(w.keysFile)
	}
}

// del removes the tip through the engine and delivers the delete event to the generator, as its event loop would (the loop
// itself is not running: forging attempts are driven synchronously).
func (w *world) del(tip *blockchain.Block) {
	if err := w.n.Exec.VerifDeleteBlock(tip, false); err != nil {
		w.fail("delete: %v", err)
	}
	w.gen.VerifOnDeleteBlock(&consensus.EventBlockDeleteMessage{Block: tip})
	w.hist = append(w.hist, fmt.Sprintf("delete h=%d", tip.Header.Height))
}

// extend applies k harness-built blocks of other validators in past slots.
func (w *world) extend(t *rapid.T, k int, noVote bool) {
	for i := 0; i < k; i++ {
		if w.n.SlotOf(w.n.Tip().Header.Timestamp) >= w.n.Cfg.SlotsBehind-2 {
			return
		}
		// the harness never signs with the key of the validator the real generator forges for (it would not know about
		// those blocks, which no real deployment can produce): skip its slots
		slot := w.n.SlotOf(w.n.Tip().Header.Timestamp) + 1
		if k, err := w.n.GeneratorAt(w.n.Tip().Header.Height+1, slot); err == nil && bytes.Equal(k.Addr, w.gStar) {
			slot++
		}
		sp := node.Spec{AbsSlot: slot, Script: node.Script{Salt: rapid.Uint32Range(0, 50).Draw(t, "salt")}}
		if noVote && (w.allNoVote || rapid.IntRange(0, 1).Draw(t, "noVote") == 0) {
			// a header with maxHeightGenerated >= height implies no votes: keeps maxHeightPrevoted low on this branch, so that a
			// later, shorter branch can be the better chain
			mhg := w.n.Tip().Header.Height + 1
			sp.MHG = &mhg
		}
		b, err := w.n.Apply(sp)
		if err != nil {
			w.fail("harness block rejected: %v", err)
		}
		w.hist = append(w.hist, fmt.Sprintf("extend h=%d by %x", b.Header.Height, b.Header.GeneratorAddress[:2]))
	}
}

// drawFee: ordinary fees with ties, and now and then fees from the top of the uint64 range (a fee is any uint64; arithmetic
// on it must not wrap)
func drawFee(t *rapid.T) uint64 {
	if rapid.IntRange(0, 5).Draw(t, "hugeFee") == 0 {
		return rapid.SampledFrom([]uint64{1<<64 - 1, 1 << 63, 1<<63 - 1, (1<<64-1)/1000 + 1, (1<<64-1)/1000 - 1, 1 << 54, 1 << 40}).Draw(t, "feeHuge")
	}
	return rapid.SampledFrom([]uint64{100, 100, 500, 2000, 2001, 9000}).Draw(t, "fee")
}

type poolTx struct {
	tx     *blockchain.Transaction
	sender int
	failAt string // "", "verify", "execute-invalid"
}

func (w *world) fillPool(t *rapid.T) []poolTx {
	var out []poolTx
	// transactions of deleted blocks come back through the delete event; the selection oracle works on a pool it knows
	for _, tx := range w.pool.GetAll() {
		w.pool.Remove(tx.ID)
	}
	nSenders := rapid.IntRange(0, 4).Draw(t, "senders")
	for s := 0; s < nSenders; s++ {
		cnt := rapid.IntRange(1, 4).Draw(t, "txsOfSender")
		failIdx := -1
		if rapid.IntRange(0, 2).Draw(t, "senderFails") == 0 {
			failIdx = rapid.IntRange(0, cnt-1).Draw(t, "failIdx")
		}
		for i := 0; i < cnt; i++ {
			tx := node.MakeTx(10+s, uint64(len(w.forged)*100+i), drawFee(t), node.TxOK,
				rapid.IntRange(0, 2).Draw(t, "txEvents"), rapid.SampledFrom([]int{0, 0, 20, 60, 200}).Draw(t, "pad"))
			if !w.pool.Add(tx) {
				continue
			}
			p := poolTx{tx: tx, sender: s}
			if i == failIdx {
				p.failAt = rapid.SampledFrom([]string{"verify", "verify-pending", "execute-invalid", "execute-fail"}).Draw(t, "failKind")
			}
			out = append(out, p)
		}
	}
	w.pool.VerifPromote()
	// failures appear only after the transactions became processable (state changed since they entered the pool)
	for _, p := range out {
		switch p.failAt {
		case "verify":
			node.SetOutcomeOverride(p.tx.ID, node.TxVerifyFail)
		case "verify-pending":
			// the application answers "pending" (e.g. a nonce gap after the tip was deleted): not verified, the sender is skipped
			node.SetOutcomeOverride(p.tx.ID, node.TxPending)
		case "execute-invalid":
			node.SetOutcomeOverride(p.tx.ID, node.TxExecInvalid)
		case "execute-fail":
			node.SetOutcomeOverride(p.tx.ID, node.TxExecuteFail) // a failed command still belongs in the block
		}
	}
	return out
}

// checkSelection validates the payload of a forged block against the processable transactions the generator saw.
func (w *world) checkSelection(b *blockchain.Block, pooled []poolTx) (nontrivial bool) {
	processable := map[string]poolTx{}
	bySender := map[int][]poolTx{}
	for _, p := range pooled {
		processable[string(p.tx.ID)] = p
		bySender[p.sender] = append(bySender[p.sender], p)
	}
	for s := range bySender {
		sort.Slice(bySender[s], func(i, j int) bool { return bySender[s][i].tx.Nonce < bySender[s][j].tx.Nonce })
	}
	size := 0
	taken := map[int]int{} // sender -> number taken
	blocked := map[int]bool{}
	for _, tx := range b.Transactions {
		p, ok := processable[string(tx.ID)]
		if !ok {
			w.fail("forged block contains transaction %x that was not processable in the pool", tx.ID[:4])
		}
		size += len(tx.Encode()) // own measure, not the cached Size()
		// per-sender nonce order: must be the sender's next transaction
		idx := taken[p.sender]
		if idx >= len(bySender[p.sender]) || !bytes.Equal(bySender[p.sender][idx].tx.ID, tx.ID) {
			w.fail("sender %d: transaction with nonce %d selected out of nonce order", p.sender, tx.Nonce)
		}
		if p.failAt == "verify" || p.failAt == "verify-pending" || p.failAt == "execute-invalid" {
			w.fail("transaction %x failing %s was included", tx.ID[:4], p.failAt)
		}
		// fee priority: maximal among the current heads of senders that are not blocked by a failure
		prio := tx.Fee / uint64(len(tx.Encode()))
		for s, list := range bySender {
			if blocked[s] || taken[s] >= len(list) {
				continue
			}
			// a head that fails verification/execution is popped (and its sender skipped) before anything cheaper is taken
			head := list[taken[s]]
			hp := head.tx.Fee / uint64(len(head.tx.Encode()))
			if hp > prio && s != p.sender {
				if head.failAt == "verify" || head.failAt == "verify-pending" || head.failAt == "execute-invalid" {
					blocked[s] = true
					continue
				}
				w.fail("transaction of sender %d with fee priority %d selected while sender %d's next transaction has priority %d", p.sender, prio, s, hp)
			}
		}
		taken[p.sender]++
	}
	if size > int(w.maxTxSize) {
		w.fail("forged payload size %d exceeds the limit %d", size, w.maxTxSize)
	}
	// nothing from a sender after its failing transaction (implied by prefix rule + exclusion above)
	senders, failures, cut := len(bySender), 0, false
	for _, p := range pooled {
		if p.failAt == "verify" || p.failAt == "verify-pending" || p.failAt == "execute-invalid" {
			failures++
		}
	}
	total := 0
	for _, p := range pooled {
		total += len(p.tx.Encode())
	}
	cut = total > int(w.maxTxSize)
	return senders >= 2 && failures >= 1 && cut
}

func (w *world) forge(t *rapid.T) bool {
	tip := w.n.Tip().Header
	if w.n.SlotOf(tip.Timestamp) >= w.n.Cfg.SlotsBehind {
		return false // the tip already occupies the current slot
	}
	// Protocol-following operation only removes a generator's published block when the node moves to a better chain
	// (LIP-0014 fork choice). A forge at the same or a lower height with the same maxHeightPrevoted would follow a plain
	// removal, which no sync/tie-break path produces; those sequences are outside the statement's domain.
	if w.lastAccepted != nil {
		mhp, _, _ := w.n.Heights()
		if !(tip.Height+1 > w.lastAccepted.Header.Height || mhp > w.lastAccepted.Header.MaxHeightPrevoted) {
			evid.R.Label("forge-skipped-chain-not-better", 1)
			return false
		}
	}
	sa := rapid.IntRange(0, 5).Draw(t, "scriptAsset")
	if w.forceChange {
		sa = 1
	}
	if sa == 0 {
		w.n.ABI.InsertAssetsFn = func(h uint32) []*blockchain.BlockAsset {
			return []*blockchain.BlockAsset{node.ScriptAsset(node.Script{EvBefore: 1, EvAfter: 1, Salt: h})}
		}
	} else if sa == 1 {
		// the application changes the certificate threshold in this block (validators unchanged)
		cur, err := w.n.CurrentParams(tip.Height + 1)
		if err == nil {
			next := *cur
			next.Cert = cur.Cert%uint64(len(cur.Idx)) + uint64(len(cur.Idx))/3 + 1
			if next.Cert > uint64(len(cur.Idx)) {
				next.Cert = uint64(len(cur.Idx))
			}
			w.n.ABI.InsertAssetsFn = func(h uint32) []*blockchain.BlockAsset {
				return []*blockchain.BlockAsset{node.ScriptAsset(node.Script{Salt: h, Next: &next})}
			}
			w.hist = append(w.hist, fmt.Sprintf("application will change the certificate threshold %d -> %d in the next block", cur.Cert, next.Cert))
		}
	} else {
		w.n.ABI.InsertAssetsFn = nil
	}
	// A real application returns one asset per module that has something to insert, in ITS order (the framework walks its module
	// list), not sorted by module name: the generator has to sort them. (Added after seeded change C15-p: the fake application
	// returned at most one asset.)
	if rapid.IntRange(0, 2).Draw(t, "extraAssets") == 0 {
		names := []string{"zeta", "alpha", "mid", "verifz", "auth", "Beta"}
		k := rapid.IntRange(1, 4).Draw(t, "extraAssetCount")
		var extra []*blockchain.BlockAsset
		for i := 0; i < k; i++ {
			nm := names[rapid.IntRange(0, len(names)-1).Draw(t, "extraAssetModule")]
			dup := false
			for _, e := range extra {
				dup = dup || e.Module == nm
			}
			if !dup {
				extra = append(extra, &blockchain.BlockAsset{Module: nm, Data: []byte{byte(i), byte(len(nm))}})
			}
		}
		front := rapid.Bool().Draw(t, "extraAssetsFirst")
		inner := w.n.ABI.InsertAssetsFn
		w.n.ABI.InsertAssetsFn = func(h uint32) []*blockchain.BlockAsset {
			var own []*blockchain.BlockAsset
			if inner != nil {
				own = inner(h)
			}
			if front {
				return append(append([]*blockchain.BlockAsset{}, extra...), own...)
			}
			return append(append([]*blockchain.BlockAsset{}, own...), extra...)
		}
		w.hist = append(w.hist, fmt.Sprintf("application inserts %d further assets in its own (unsorted) order, first=%v", len(extra), front))
		evid.R.Label("forge-with-several-assets-in-application-order", 1)
	}
	// sometimes the validators certify the precommitted height first, so that a non-empty aggregate commit is available
	if _, pc, cert := w.n.Heights(); pc > cert && (w.forceCertify || rapid.IntRange(0, 2).Draw(t, "certify") == 0) {
		if p, err := w.n.CurrentParams(pc); err == nil {
			// either the last precommitted height only, or the whole uncertified range as the engine does after a block
			// (Certify(previous maxHeightPrecommitted, new one)): the range may span parameter changes, whose heights then
			// get single commits of their own
			from := pc - 1
			if w.forceCertify || rapid.Bool().Draw(t, "certifyWholeRange") {
				from = cert
			}
			// participation (added after seeded change C15-q: the assembled aggregate was weighed against the precommit instead of the
			// certificate threshold - visible only when the thresholds differ AND the signers' weight lies between them)
			part := "all"
			if !w.forceCertify {
				part = rapid.SampledFrom([]string{"all", "all", "all-but-one", "all-but-two", "half"}).Draw(t, "participation")
			}
			skip := map[string]int{"all": 0, "all-but-one": 1, "all-but-two": 2, "half": len(p.Idx) / 2}[part]
			if skip >= len(p.Idx) {
				skip = len(p.Idx) - 1
			}
			for _, ix := range p.Idx[skip:] {
				k := node.Keys()[ix]
				if err := w.n.Exec.Certify(from, pc, k.Addr, k.BLSPriv); err != nil {
					w.fail("Certify: %v", err)
				}
			}
			if part != "all" {
				evid.R.Label("certified-by-a-strict-subset", 1)
			}
			w.hist = append(w.hist, fmt.Sprintf("%s validators (%d of %d) certify heights (%d, %d]", part, len(p.Idx)-skip, len(p.Idx), from, pc))
		}
	}
	pooled := w.fillPool(t)
	var processable []poolTx
	got := map[string]bool{}
	for _, tx := range w.pool.GetProcessable() {
		got[string(tx.ID)] = true
	}
	for _, p := range pooled {
		if got[string(p.tx.ID)] {
			processable = append(processable, p)
		}
	}
	nowSlot := w.n.SlotOf(uint32(time.Now().Unix()))
	w.last, w.orderViolation = nil, ""
	w.consensusLog = nil
	w.gen.VerifForge()
	if w.n.SlotOf(uint32(time.Now().Unix())) != nowSlot {
		t.Skip("wall clock crossed a slot boundary")
	}
	if w.last == nil {
		// not producing a block is not a violation of the statement (no liveness claim); counted so that vacuity is visible
		evid.R.Label("forge-produced-nothing", 1)
		w.hist = append(w.hist, fmt.Sprintf("forge attempt on tip h=%d produced nothing", tip.Height))
		for _, tx := range w.pool.GetAll() {
			w.pool.Remove(tx.ID)
		}
		node.ClearOutcomeOverrides()
		return false
	}
	b := w.last
	if _, pc, cert := w.n.Heights(); !b.Header.AggregateCommit.Empty() {
		if nh, ok := w.n.NextParamHeight(cert + 1); ok && nh <= pc {
			evid.R.Label("forged-aggregate-commit-before-pending-parameter-change", 1)
			w.aggAcross++
		}
	}
	w.hist = append(w.hist, fmt.Sprintf("forge h=%d mhg=%d mhp=%d txs=%d agg=%v by %x", b.Header.Height, b.Header.MaxHeightGenerated, b.Header.MaxHeightPrevoted, len(b.Transactions), !b.Header.AggregateCommit.Empty(), b.Header.GeneratorAddress[:2]))
	if w.orderViolation != "" {
		w.fail("%s", w.orderViolation)
	}
	// (4) never contradict itself; maxHeightGenerated = largest height generated before
	var largest uint32
	for _, prev := range w.forged {
		if prev.Header.Height > largest {
			largest = prev.Header.Height
		}
	}
	// contradiction is judged between headers that left the generator for consensus (a dropped block was seen by nobody)
	for _, prev := range w.accepted {
		if !bytes.Equal(prev.Header.ID, b.Header.ID) && mbft.PairContradicting(prev.Header.Height, prev.Header.MaxHeightGenerated, prev.Header.MaxHeightPrevoted, b.Header.Height, b.Header.MaxHeightGenerated, b.Header.MaxHeightPrevoted) {
			if !evid.R.KnownFinding("contradicting-own-header:lower-height-then-forge-again") {
				w.fail("generator signed contradicting headers: earlier (h=%d mhg=%d mhp=%d) and now (h=%d mhg=%d mhp=%d)", prev.Header.Height, prev.Header.MaxHeightGenerated, prev.Header.MaxHeightPrevoted,
					b.Header.Height, b.Header.MaxHeightGenerated, b.Header.MaxHeightPrevoted)
			}
		}
	}
	if b.Header.MaxHeightGenerated != largest {
		if !evid.R.KnownFinding("contradicting-own-header:lower-height-then-forge-again") {
			w.fail("maxHeightGenerated is %d but the largest height this generator signed before is %d", b.Header.MaxHeightGenerated, largest)
		}
	}
	w.forged = append(w.forged, b)
	// (2) selection
	nt := w.checkSelection(b, processable)
	// (1) the same node accepts it at this moment
	drop := rapid.IntRange(0, 4).Draw(t, "dropForged") == 0
	if w.dropMode != 0 {
		drop = w.dropMode == 1
	}
	if drop {
		w.hist = append(w.hist, "forged block dropped (never reaches consensus)")
	} else {
		// the application is told the same consensus information (validators, maxHeightCertified, certificate threshold, implied
		// prevotes) when the block is VALIDATED as it was told when the block was GENERATED: a real application's state may depend on
		// it, and then a difference makes the node refuse its own block (added after seeded change C15-u: the generator passed the
		// precommitted height as maxHeightCertified; the fake application ignores the field, so acceptance alone could not show it)
		genSeen := w.consensusLog
		w.consensusLog = nil
		err := w.n.Exec.VerifProcess(node.CloneBlock(b), "peer")
		valSeen := w.consensusLog
		w.consensusLog = nil
		// (the generator may execute candidates it then leaves out, so the NUMBER of calls differs legitimately: compare the distinct values)
		distinct := func(l []string) string {
			seen := map[string]bool{}
			var out []string
			for _, x := range l {
				if i := strings.Index(x, ":"); i >= 0 {
					x = x[i+1:] // the value, whatever call carried it (a dropped candidate leaves a "tx" call without counterpart)
				}
				if !seen[x] {
					seen[x] = true
					out = append(out, x)
				}
			}
			sort.Strings(out)
			return strings.Join(out, "|")
		}
		if err == nil && distinct(genSeen) != distinct(valSeen) {
			w.fail("consensus information handed to the application differs between generation and validation of block h=%d:\n generation: %v\n validation: %v", b.Header.Height, genSeen, valSeen)
		}
		if err != nil || !bytes.Equal(w.n.Tip().Header.ID, b.Header.ID) {
			w.fail("the node rejects the block its generator just produced: err=%v header=%+v", err, *b.Header)
		}
		w.hist = append(w.hist, "forged block accepted")
		w.lastAccepted = b
		w.accepted = append(w.accepted, b)
		// pool notification as the generator loop would do
		w.gen.VerifOnNewBlock(&consensus.EventBlockNewMessage{Block: b})
	}
	if nt {
		evid.R.Label("selection-nontrivial", 1)
	}
	// leave the pool clean for the next forge
	for _, tx := range w.pool.GetAll() {
		w.pool.Remove(tx.ID)
	}
	node.ClearOutcomeOverrides()
	return true
}

// scenario: the situation the statement singles out, built deliberately — forge, move to a better but shorter chain, (restart,)
// forge at a lower height, move on, forge again.
func runScenario(t *rapid.T, w *world) (forges, restarts, lower int) {
	w.allNoVote = true
	w.extend(t, rapid.IntRange(6, 10).Draw(t, "slowPrefix"), true) // headers implying no votes: maxHeightPrevoted stays low
	w.allNoVote = false
	last := uint32(0)
	rounds := rapid.IntRange(2, 4).Draw(t, "rounds")
	for r := 0; r < rounds; r++ {
		h := w.n.Tip().Header.Height + 1
		if w.forge(t) {
			forges++
			if last != 0 && h < last {
				lower++
			}
			last = h
		}
		if r == rounds-1 {
			break
		}
		// move to a better, shorter chain
		F := w.n.Finalized()
		maxDel := int(w.n.Tip().Header.Height - F)
		if maxDel < 1 {
			break
		}
		d := rapid.IntRange(1, maxDel).Draw(t, "scenarioDelete")
		if maxDel >= 4 && rapid.Bool().Draw(t, "deep") {
			d = rapid.IntRange(4, maxDel).Draw(t, "scenarioDeleteDeep")
		}
		for j := 0; j < d; j++ {
			tip := w.n.Tip()
			w.del(tip)
		}
		for j := 0; j < 10; j++ {
			mhp, _, _ := w.n.Heights()
			if w.lastAccepted == nil || mhp > w.lastAccepted.Header.MaxHeightPrevoted {
				break
			}
			w.extend(t, 1, false)
		}
		if rapid.Bool().Draw(t, "scenarioRestart") {
			w.newGenerator()
			restarts++
			w.hist = append(w.hist, "restart generator (same generator database)")
		}
	}
	return
}

// scenario 2: the forged block's aggregate commit when validator-set/threshold changes are finalized but not yet certified —
// the generator's own parameter change goes in a forged block, the chain is extended without certifying until that block is
// final, every validator certifies the whole uncertified range, and the generator forges again.
func runCertScenario(t *rapid.T, w *world) (forges int) {
	w.extend(t, rapid.IntRange(2, 8).Draw(t, "certPrefix"), false)
	// (a forged block takes the current wall-clock slot, so nothing can follow it: the parameter changes come in harness blocks)
	changes := rapid.IntRange(1, 2).Draw(t, "certChanges")
	var changeAt uint32
	for c := 0; c < changes; c++ {
		tip := w.n.Tip().Header
		cur, err := w.n.CurrentParams(tip.Height + 1)
		if err != nil {
			w.fail("params: %v", err)
		}
		// same validators in the same round-robin order (the generator under test keeps its wall-clock slot), new threshold
		gens, err := w.n.Exec.GetGeneratorKeys(w.n.Store(), tip.Height+1)
		if err != nil {
			w.fail("generator list: %v", err)
		}
		weight := map[int]uint64{}
		for i, ix := range cur.Idx {
			weight[ix] = cur.Weights[i]
		}
		next := node.NextParams{Precommit: cur.Precommit}
		for _, g := range gens {
			k := node.KeyByAddr(g.Address())
			next.Idx = append(next.Idx, k.Index)
			next.Weights = append(next.Weights, weight[k.Index])
		}
		next.Cert = cur.Cert%uint64(len(cur.Idx)) + uint64(len(cur.Idx))/3 + 1
		if next.Cert > uint64(len(cur.Idx)) {
			next.Cert = uint64(len(cur.Idx))
		}
		slot := w.n.SlotOf(tip.Timestamp) + 1
		if k, err := w.n.GeneratorAt(tip.Height+1, slot); err == nil && bytes.Equal(k.Addr, w.gStar) {
			slot++
		}
		b, err := w.n.Apply(node.Spec{AbsSlot: slot, Script: node.Script{Salt: 7, Next: &next}})
		if err != nil {
			w.fail("harness block with a parameter change rejected: %v", err)
		}
		changeAt = b.Header.Height
		w.hist = append(w.hist, fmt.Sprintf("extend h=%d: certificate threshold %d -> %d from the next height", changeAt, cur.Cert, next.Cert))
		w.extend(t, rapid.IntRange(0, 3).Draw(t, "betweenChanges"), false)
	}
	beyond := uint32(rapid.IntRange(0, 2).Draw(t, "beyondChange"))
	for j := 0; j < 16; j++ {
		if _, pc, _ := w.n.Heights(); pc > changeAt+beyond {
			break
		}
		w.extend(t, 1, false)
	}
	w.forceCertify = rapid.IntRange(0, 4).Draw(t, "certAll") != 0
	if w.forge(t) {
		forges++
	}
	w.forceCertify = false
	return
}

// scenario 3: certification lagging more than 100 blocks behind finality. Single commits for the block preceding a threshold
// change enter the pool while recent; the chain grows by > 100 finalized blocks without certificates while the certificate
// ticker keeps re-publishing the old commits; then the generator forges: the aggregate commit it signs must pass its own node.
func runLagScenario(t *rapid.T, w *world) (forges int) {
	w.extend(t, 100+rapid.IntRange(2, 8).Draw(t, "lagPrefix"), false)
	tip := w.n.Tip().Header
	cur, err := w.n.CurrentParams(tip.Height + 1)
	if err != nil {
		w.fail("params: %v", err)
	}
	gens, err := w.n.Exec.GetGeneratorKeys(w.n.Store(), tip.Height+1)
	if err != nil {
		w.fail("generator list: %v", err)
	}
	weight := map[int]uint64{}
	for i, ix := range cur.Idx {
		weight[ix] = cur.Weights[i]
	}
	next := node.NextParams{Precommit: cur.Precommit}
	for _, g := range gens {
		k := node.KeyByAddr(g.Address())
		next.Idx = append(next.Idx, k.Index)
		next.Weights = append(next.Weights, weight[k.Index])
	}
	next.Cert = cur.Cert%uint64(len(cur.Idx)) + uint64(len(cur.Idx))/3 + 1
	if next.Cert > uint64(len(cur.Idx)) {
		next.Cert = uint64(len(cur.Idx))
	}
	slot := w.n.SlotOf(tip.Timestamp) + 1
	if k, err := w.n.GeneratorAt(tip.Height+1, slot); err == nil && bytes.Equal(k.Addr, w.gStar) {
		slot++
	}
	b, err := w.n.Apply(node.Spec{AbsSlot: slot, Script: node.Script{Salt: 7, Next: &next}})
	if err != nil {
		w.fail("harness block with a parameter change rejected: %v", err)
	}
	c := b.Header.Height
	w.hist = append(w.hist, fmt.Sprintf("extend to h=%d: certificate threshold %d -> %d from the next height", c, cur.Cert, next.Cert))
	for j := 0; j < 30; j++ {
		if _, pc, _ := w.n.Heights(); pc > c {
			break
		}
		w.extend(t, 1, false)
	}
	hd, err := w.n.Chain.DataAccess().GetBlockHeaderByHeight(c)
	if err != nil {
		w.fail("header: %v", err)
	}
	signers := rapid.IntRange(1, len(cur.Idx)).Draw(t, "lagSigners")
	if rapid.Bool().Draw(t, "lagAllSign") {
		signers = len(cur.Idx)
	}
	for _, ix := range cur.Idx[:signers] {
		k := node.Keys()[ix]
		sc := certificate.NewSingleCommit(hd, k.Addr, node.ChainID, k.BLSPriv)
		w.n.Exec.VerifSingleCommitValidator(&p2p.Message{Data: (&consensus.EventPostSingleCommits{SingleCommits: []*certificate.SingleCommit{sc}}).Encode()})
	}
	_, pcNow, _ := w.n.Heights()
	w.hist = append(w.hist, fmt.Sprintf("%d of %d validators gossip their commit for height %d (precommitted %d): %d in the pool", signers, len(cur.Idx), c, pcNow, len(w.n.Exec.VerifPoolCommits(c))))
	round := func() {
		_ = w.n.Exec.VerifBroadcastCertificate()
		_, pc, _ := w.n.Heights()
		if p, err := w.n.CurrentParams(w.n.Tip().Header.Height); err == nil {
			pool := w.n.Exec.VerifCertificatePool()
			pool.Upgrade(pool.Select(pc, len(p.Idx)))
		}
	}
	for j := 0; j < 150; j++ {
		if _, pc, _ := w.n.Heights(); pc > c+101 {
			break
		}
		w.extend(t, 1, false)
		if j%30 == 29 {
			round()
		}
	}
	rounds := rapid.IntRange(1, 3).Draw(t, "lagRounds")
	for i := 0; i < rounds; i++ {
		round()
	}
	_, pc, cert := w.n.Heights()
	w.hist = append(w.hist, fmt.Sprintf("tip=%d precommitted=%d certified=%d after %d broadcast rounds: %d commits for height %d in the pool (threshold %d)", w.n.Tip().Header.Height, pc, cert, rounds, len(w.n.Exec.VerifPoolCommits(c)), c, cur.Cert))
	if w.forge(t) {
		forges++
	}
	return
}

// scenario 4: the generator list of the height being forged changes between two forge attempts because the tip below it is
// replaced (tie break / chain switch) by a block that sets a different round-robin order. The generator must work with the
// list of the CURRENT chain: either it forges a block its node accepts, or - when the slot now belongs to a validator whose
// key it does not hold - it forges nothing.
func runStaleListScenario(t *rapid.T, w *world) (forges int) {
	w.extend(t, rapid.IntRange(2, 7).Draw(t, "stalePrefix"), false)
	// first attempt at height h: forged by the slot owner under the current list, never handed to consensus
	w.dropMode = 1
	if w.forge(t) {
		forges++
	}
	w.dropMode = 0
	// the tip is replaced by a sibling that rotates the generator order from the next height on
	tip := w.n.Tip()
	if tip.Header.Height <= w.n.Finalized() || tip.Header.Height == 0 {
		return
	}
	gens, err := w.n.Exec.GetGeneratorKeys(w.n.Store(), tip.Header.Height+1)
	cur, err2 := w.n.CurrentParams(tip.Header.Height + 1)
	if err != nil || err2 != nil || len(gens) < 2 {
		return
	}
	weight := map[int]uint64{}
	for i, ix := range cur.Idx {
		weight[ix] = cur.Weights[i]
	}
	rot := rapid.IntRange(1, len(gens)-1).Draw(t, "staleRotate")
	next := node.NextParams{Precommit: cur.Precommit, Cert: cur.Cert}
	for i := range gens {
		k := node.KeyByAddr(gens[(i+rot)%len(gens)].Address())
		next.Idx = append(next.Idx, k.Index)
		next.Weights = append(next.Weights, weight[k.Index])
	}
	w.del(tip)
	parent := w.n.Tip().Header
	slot := w.n.SlotOf(tip.Header.Timestamp) + 1
	if k, err := w.n.GeneratorAt(parent.Height+1, slot); err == nil && bytes.Equal(k.Addr, w.gStar) {
		slot++
	}
	if slot >= w.n.Cfg.SlotsBehind {
		return
	}
	if _, err := w.n.Apply(node.Spec{AbsSlot: slot, Script: node.Script{Salt: 11, Next: &next}}); err != nil {
		w.fail("replacement block with a rotated generator order rejected: %v", err)
	}
	owner, _ := w.n.GeneratorAt(w.n.Tip().Header.Height+1, w.n.Cfg.SlotsBehind)
	w.hist = append(w.hist, fmt.Sprintf("tip h=%d replaced by a block rotating the generator order by %d: the current slot now belongs to %x (generator holds the key of %x)",
		tip.Header.Height, rot, owner.Addr[:2], w.gStar[:2]))
	w.dropMode = 2
	if w.forge(t) {
		forges++
	}
	w.dropMode = 0
	return
}

func runHistory(t *rapid.T) {
	w := newWorld(t)
	defer w.close()
	if rapid.IntRange(0, 7).Draw(t, "staleListScenario") == 0 {
		forges := runStaleListScenario(t, w)
		evid.R.Case(strings.Join(w.hist, "|"), forges >= 1, func() any {
			return map[string]any{"kind": "history", "actions": w.hist, "forges": forges}
		}, "history", "stale-list-scenario", fmt.Sprintf("forges-%d", forges))
		return
	}
	if rapid.IntRange(0, 9).Draw(t, "lagScenario") == 0 {
		forges := runLagScenario(t, w)
		if os.Getenv("C15_DEBUG") != "" {
			fmt.Println(strings.Join(w.hist[len(w.hist)-8:], "\n"), "\n-----")
		}
		evid.R.Case(strings.Join(w.hist[len(w.hist)-6:], "|"), w.aggAcross > 0, func() any {
			return map[string]any{"kind": "history", "actions": w.hist[len(w.hist)-8:], "forges": forges}
		}, "history", "lag-scenario", fmt.Sprintf("aggregate-before-pending-change-%v", w.aggAcross > 0))
		return
	}
	if rapid.IntRange(0, 3).Draw(t, "certScenario") == 0 {
		forges := runCertScenario(t, w)
		if os.Getenv("C15_DEBUG") != "" {
			fmt.Println(strings.Join(w.hist, "\n"), "\n-----")
		}
		evid.R.Case(strings.Join(w.hist, "|"), w.aggAcross > 0, func() any {
			return map[string]any{"kind": "history", "actions": w.hist, "forges": forges}
		}, "history", "cert-scenario", fmt.Sprintf("aggregate-before-pending-change-%v", w.aggAcross > 0))
		return
	}
	if rapid.Bool().Draw(t, "scenario") {
		forges, restarts, lower := runScenario(t, w)
		labels := []string{"history", "scenario"}
		if restarts > 0 {
			labels = append(labels, "with-restart")
		}
		if lower > 0 {
			labels = append(labels, "forged-at-lower-height")
		}
		evid.R.Case(strings.Join(w.hist, "|"), forges >= 3 && restarts >= 1 && lower >= 1, func() any {
			return map[string]any{"kind": "history", "actions": w.hist, "forges": forges}
		}, labels...)
		return
	}
	w.extend(t, rapid.IntRange(0, 12).Draw(t, "prefix"), rapid.Bool().Draw(t, "slowPrefix"))
	forges, restarts, lower, failedAttempts := 0, 0, 0, 0
	steps := rapid.IntRange(3, 12).Draw(t, "steps")
	lastForgeHeight := uint32(0)
	for i := 0; i < steps; i++ {
		switch rapid.SampledFrom([]string{"forge", "forge", "forge", "switch", "switch", "switch", "deleteTip", "extend", "restartGenerator", "restartGenerator", "failedAttempt"}).Draw(t, "action") {
		case "failedAttempt":
			// A forging attempt that the application aborts half way (error in a block hook): no header is signed or handed on, so
			// it is NOT a generated height - the next header of this generator must still report the largest height it really signed
			// (seeded change C15-w made the provisional record durable before the block was built). The assertion itself is the
			// one every forge makes (maxHeightGenerated == largest height signed before).
			tip := w.n.Tip().Header
			if w.n.SlotOf(tip.Timestamp) >= w.n.Cfg.SlotsBehind {
				break
			}
			at := rapid.SampledFrom([]string{"before", "after"}).Draw(t, "attemptFailsAt")
			saved := w.n.ABI.InsertAssetsFn
			w.n.ABI.InsertAssetsFn = func(h uint32) []*blockchain.BlockAsset {
				return []*blockchain.BlockAsset{node.ScriptAsset(node.Script{Salt: h, FailAt: at})}
			}
			w.last = nil
			w.gen.VerifForge()
			w.n.ABI.InsertAssetsFn = saved
			if w.last != nil {
				// the application refused the block in a hook, yet a block came out: it cannot be valid for this node
				w.fail("forging attempt whose %s-transactions hook failed still produced a block at height %d", at, w.last.Header.Height)
			}
			w.hist = append(w.hist, fmt.Sprintf("forging attempt on tip h=%d aborted by the application (%s-transactions hook fails)", tip.Height, at))
			evid.R.Label("forging-attempt-aborted-by-the-application", 1)
			failedAttempts++
		case "switch":
			// move to a better, shorter chain: remove blocks down to a drawn depth, then let the other validators build an
			// honest branch until its maxHeightPrevoted exceeds the one of the latest published forged header
			F := w.n.Finalized()
			if w.n.Tip().Header.Height <= F+1 {
				break
			}
			k := rapid.IntRange(1, int(w.n.Tip().Header.Height-F)).Draw(t, "switchDepth")
			for j := 0; j < k && w.n.Tip().Header.Height > w.n.Finalized(); j++ {
				tip := w.n.Tip()
				w.del(tip)
			}
			for j := 0; j < 10; j++ {
				mhp, _, _ := w.n.Heights()
				if w.lastAccepted == nil || mhp > w.lastAccepted.Header.MaxHeightPrevoted {
					break
				}
				w.extend(t, 1, false)
			}
		case "forge":
			h := w.n.Tip().Header.Height + 1
			if w.forge(t) {
				forges++
				if lastForgeHeight != 0 && h < lastForgeHeight {
					lower++
				}
				lastForgeHeight = h
			}
		case "deleteTip", "deleteMany":
			k := 1
			if w.n.Tip().Header.Height > w.n.Finalized()+1 {
				k = rapid.IntRange(1, int(w.n.Tip().Header.Height-w.n.Finalized())).Draw(t, "deleteDepth")
			}
			for j := 0; j < k && w.n.Tip().Header.Height > w.n.Finalized() && w.n.Tip().Header.Height > 0; j++ {
				tip := w.n.Tip()
				w.del(tip)
			}
		case "extend":
			w.extend(t, rapid.IntRange(1, 6).Draw(t, "extendBy"), false)
		case "restartGenerator":
			w.newGenerator()
			restarts++
			w.hist = append(w.hist, "restart generator (same generator database)")
		}
	}
	labels := []string{"history"}
	if restarts > 0 {
		labels = append(labels, "with-restart")
	}
	if lower > 0 {
		labels = append(labels, "forged-at-lower-height")
	}
	if failedAttempts > 0 {
		labels = append(labels, "with-aborted-forging-attempt")
	}
	evid.R.Case(strings.Join(w.hist, "|"), forges >= 3 && restarts >= 1 && lower >= 1, func() any {
		return map[string]any{"kind": "history", "actions": w.hist, "forges": forges}
	}, labels...)
}

func TestGeneratorHistories(t *testing.T) { rapid.Check(t, runHistory) }

var _ = crypto.Hash

// ---------------------------------------------------------------------------------------------------------------
// Regression cases for repaired defects (known_findings/C15.json).

func once(t *testing.T, f func(rt *rapid.T)) {
	done := false
	rapid.Check(t, func(rt *rapid.T) {
		if done {
			return
		}
		done = true
		f(rt)
	})
}

// C15-F1: a block in which the application changes a threshold must still be accepted by the node that generated it.
func TestRegressValidatorChangeInForgedBlock(t *testing.T) {
	once(t, func(rt *rapid.T) {
		w := newWorld(rt)
		defer w.close()
		w.extend(rt, 2, false)
		cur, err := w.n.CurrentParams(w.n.Tip().Header.Height + 1)
		if err != nil {
			rt.Fatal(err)
		}
		next := *cur
		next.Cert = cur.Cert + 1
		if next.Cert > uint64(len(cur.Idx)) {
			next.Cert = cur.Cert - 1
		}
		w.n.ABI.InsertAssetsFn = func(h uint32) []*blockchain.BlockAsset {
			return []*blockchain.BlockAsset{node.ScriptAsset(node.Script{Next: &next})}
		}
		w.last = nil
		w.gen.VerifForge()
		if w.last == nil {
			rt.Fatalf("no block forged")
		}
		if err := w.n.Exec.VerifProcess(node.CloneBlock(w.last), "peer"); err != nil || !bytes.Equal(w.n.Tip().Header.ID, w.last.Header.ID) {
			rt.Fatalf("own block with a threshold change rejected: %v", err)
		}
		evid.R.Case("regress-validator-change", true, func() any { return "forge a block whose application script changes the certificate threshold" }, "regress")
	})
}

// C15-F2: forge at h=2, move down, forge at h=1 twice: maxHeightGenerated must stay 2.
func TestRegressLargestGeneratedHeight(t *testing.T) {
	once(t, func(rt *rapid.T) {
		w := newWorld(rt)
		defer w.close()
		w.extend(rt, 1, false)
		w.n.ABI.InsertAssetsFn = nil
		forge := func() *blockchain.Block {
			w.last = nil
			w.gen.VerifForge()
			if w.last == nil {
				rt.Fatalf("no block forged")
			}
			return w.last
		}
		b1 := forge() // h=2, never applied
		if err := w.n.Exec.VerifDeleteBlock(w.n.Tip(), false); err != nil {
			rt.Fatal(err)
		}
		b2 := forge() // h=1
		b3 := forge() // h=1 again
		if b1.Header.Height != 2 || b2.Header.Height != 1 || b3.Header.Height != 1 {
			rt.Fatalf("unexpected heights %d %d %d", b1.Header.Height, b2.Header.Height, b3.Header.Height)
		}
		if b2.Header.MaxHeightGenerated != 2 || b3.Header.MaxHeightGenerated != 2 {
			rt.Fatalf("maxHeightGenerated after generating at heights 2,1: %d then %d (want 2, 2)", b2.Header.MaxHeightGenerated, b3.Header.MaxHeightGenerated)
		}
		evid.R.Case("regress-largest-height", true, func() any { return "forge h=2, delete, forge h=1, forge h=1: mhg stays 2" }, "regress")
	})
}
