// Package bft is a slow, height-indexed transcription of the LIP-0058 vote counting rules, written independently
// of pkg/consensus/liskbft (maps keyed by height, nothing is ever shifted; pruning is a visibility rule).
package bft

import (
	"bytes"
	"errors"
	"sort"
)

type Val struct {
	Addr   []byte
	Weight uint64
}

type ParamSet struct {
	Vals      []Val // sorted descending by address
	Prevote   uint64
	Precommit uint64
	Cert      uint64
}

func (p *ParamSet) weightOf(addr []byte) (uint64, bool) {
	for _, v := range p.Vals {
		if bytes.Equal(v.Addr, addr) {
			return v.Weight, true
		}
	}
	return 0, false
}

type Block struct {
	Height    uint32
	Gen       []byte
	MHG       uint32
	MHP       uint32
	Prevotes  uint64
	Precommit uint64
}

type VInfo struct {
	Addr                   []byte
	MinActiveHeight        uint32
	LargestHeightPrecommit uint32
}

type Model struct {
	Window  int // 3 * batchSize
	Batch   int
	Genesis uint32
	Tip     uint32 // height of the newest processed block (== Genesis when none)
	N       int    // number of processed blocks
	Blocks  map[uint32]*Block
	Params  map[uint32]*ParamSet // key = first height the set applies to
	Active  []*VInfo             // sorted descending by address
	MHP     uint32
	MHPC    uint32
	MHC     uint32
}

var ErrInvalidParams = errors.New("invalid parameters")
var ErrNoParams = errors.New("no parameters")
var ErrInvalidState = errors.New("invalid state")

func New(batchSize int, genesisHeight uint32) *Model {
	return &Model{Window: 3 * batchSize, Batch: batchSize, Genesis: genesisHeight, Tip: genesisHeight,
		Blocks: map[uint32]*Block{}, Params: map[uint32]*ParamSet{}, MHP: genesisHeight, MHPC: genesisHeight, MHC: genesisHeight}
}

// oldest height still inside the vote window.
func (m *Model) Oldest() uint32 {
	n := m.N
	if n > m.Window {
		n = m.Window
	}
	return m.Tip - uint32(n) + 1
}

func (m *Model) inWindow(h uint32) bool {
	return m.N > 0 && h >= m.Oldest() && h <= m.Tip
}

// ParamsAt returns the parameter set in force at height h (largest key <= h).
func (m *Model) ParamsAt(h uint32) (*ParamSet, uint32, bool) {
	var best uint32
	found := false
	for k := range m.Params {
		if k <= h && (!found || k > best) {
			best, found = k, true
		}
	}
	if !found {
		return nil, 0, false
	}
	return m.Params[best], best, true
}

// NextChangeAfter returns the smallest key >= h+1.
func (m *Model) NextChangeAfter(h uint32) (uint32, bool) {
	var best uint32
	found := false
	for k := range m.Params {
		if k >= h+1 && (!found || k < best) {
			best, found = k, true
		}
	}
	return best, found
}

func (m *Model) active(addr []byte) *VInfo {
	for _, v := range m.Active {
		if bytes.Equal(v.Addr, addr) {
			return v
		}
	}
	return nil
}

// SetParams mirrors the documented behaviour of setBFTParameters: validation, no-op when unchanged, effective next height.
func (m *Model) SetParams(vals []Val, precommit, cert uint64) error {
	if len(vals) > m.Batch {
		return ErrInvalidParams
	}
	var w uint64
	for _, v := range vals {
		if v.Weight == 0 {
			return ErrInvalidParams
		}
		w += v.Weight
	}
	if w/3+1 > precommit || precommit > w || w/3+1 > cert || cert > w {
		return ErrInvalidParams
	}
	sorted := append([]Val{}, vals...)
	sort.SliceStable(sorted, func(i, j int) bool { return bytes.Compare(sorted[i].Addr, sorted[j].Addr) > 0 })
	cur, _, ok := m.ParamsAt(m.Tip)
	if ok && cur.Precommit == precommit && cur.Cert == cert && len(cur.Vals) == len(sorted) {
		same := true
		for i := range sorted {
			if !bytes.Equal(sorted[i].Addr, cur.Vals[i].Addr) || sorted[i].Weight != cur.Vals[i].Weight {
				same = false
			}
		}
		if same {
			return nil
		}
	}
	next := m.Tip + 1
	m.Params[next] = &ParamSet{Vals: sorted, Prevote: w*2/3 + 1, Precommit: precommit, Cert: cert}
	var act []*VInfo
	for _, v := range sorted {
		if old := m.active(v.Addr); old != nil {
			act = append(act, old)
		} else {
			act = append(act, &VInfo{Addr: v.Addr, MinActiveHeight: next, LargestHeightPrecommit: next - 1})
		}
	}
	m.Active = act
	return nil
}

// heightNotPrevoted: follow the generator's own previous blocks through maxHeightGenerated links while they lie on
// this chain; the first link that leaves the chain (or the window) bounds what it may precommit.
func (m *Model) heightNotPrevoted(nb *Block) uint32 {
	prev := nb.MHG
	for {
		if !m.inWindow(prev) {
			return m.Oldest() - 1
		}
		b := m.Blocks[prev]
		if !bytes.Equal(b.Gen, nb.Gen) || b.MHG >= prev {
			return prev
		}
		prev = b.MHG
	}
}

func max3(a, b, c uint32) uint32 {
	if b > a {
		a = b
	}
	if c > a {
		a = c
	}
	return a
}

// Apply processes one header (height must be Tip+1). aggHeight/hasAgg describe a non-empty aggregate commit.
func (m *Model) Apply(gen []byte, mhg, mhp uint32, hasAgg bool, aggHeight uint32) error {
	h := m.Tip + 1
	nb := &Block{Height: h, Gen: gen, MHG: mhg, MHP: mhp}
	m.Blocks[h] = nb
	m.Tip = h
	m.N++
	// every height of the window needs parameters
	for x := m.Oldest(); x <= m.Tip; x++ {
		if _, _, ok := m.ParamsAt(x); !ok {
			return ErrNoParams
		}
	}
	if vi := m.active(gen); mhg < h && vi != nil {
		hnp := m.heightNotPrevoted(nb)
		minPrecommit := max3(vi.MinActiveHeight, hnp+1, vi.LargestHeightPrecommit+1)
		first := true
		for x := m.Tip; x >= m.Oldest() && x >= minPrecommit; x-- {
			b := m.Blocks[x]
			p, _, _ := m.ParamsAt(x)
			if b.Prevotes >= p.Prevote {
				w, ok := p.weightOf(gen)
				if !ok {
					return ErrInvalidState
				}
				b.Precommit += w
				if first {
					vi.LargestHeightPrecommit = x
					first = false
				}
			}
			if x == 0 {
				break
			}
		}
		minPrevote := mhg + 1
		if vi.MinActiveHeight > minPrevote {
			minPrevote = vi.MinActiveHeight
		}
		for x := m.Tip; x >= m.Oldest() && x >= minPrevote; x-- {
			b := m.Blocks[x]
			p, _, _ := m.ParamsAt(x)
			w, ok := p.weightOf(gen)
			if !ok {
				return ErrInvalidState
			}
			b.Prevotes += w
			if x == 0 {
				break
			}
		}
	}
	for x := m.Tip; x >= m.Oldest(); x-- {
		p, _, _ := m.ParamsAt(x)
		if m.Blocks[x].Prevotes >= p.Prevote {
			m.MHP = x
			break
		}
		if x == 0 {
			break
		}
	}
	for x := m.Tip; x >= m.Oldest(); x-- {
		p, _, _ := m.ParamsAt(x)
		if m.Blocks[x].Precommit >= p.Precommit {
			m.MHPC = x
			break
		}
		if x == 0 {
			break
		}
	}
	if hasAgg {
		m.MHC = aggHeight
	}
	// pruning: parameter sets older than the one needed for min(oldest window height, certified+1) disappear
	need := m.Oldest()
	if m.MHC+1 < need {
		need = m.MHC + 1
	}
	if _, k, ok := m.ParamsAt(need); ok {
		for key := range m.Params {
			if key < k {
				delete(m.Params, key)
			}
		}
	}
	return nil
}

// Contradicting: LIP-0014 check of a new header against the generator's most recent header in the window.
func (m *Model) Contradicting(gen []byte, height, mhg, mhp uint32) bool {
	if m.N == 0 {
		return false
	}
	for x := m.Tip; x >= m.Oldest(); x-- {
		b := m.Blocks[x]
		if bytes.Equal(b.Gen, gen) {
			return PairContradicting(b.Height, b.MHG, b.MHP, height, mhg, mhp)
		}
		if x == 0 {
			break
		}
	}
	return false
}

// PairContradicting is the LIP-0014 definition for two distinct headers of the same generator, stated semantically:
// they do not contradict iff one of them is a legitimate successor of the other.
func PairContradicting(h1, g1, p1, h2, g2, p2 uint32) bool {
	follows := func(ha, ga, pa, hb, gb, pb uint32) bool { // b legitimately follows a
		_ = ga
		if ha > gb { // b does not acknowledge having generated a
			return false
		}
		if pa > pb { // moved to a chain with lower maxHeightPrevoted
			return false
		}
		if pa == pb && ha >= hb { // same prevoted height needs strictly larger height
			return false
		}
		return true
	}
	// order by (maxHeightGenerated, maxHeightPrevoted, height): only the later one can be the successor
	less := func(ha, ga, pa, hb, gb, pb uint32) bool {
		if ga != gb {
			return ga < gb
		}
		if pa != pb {
			return pa < pb
		}
		return ha < hb
	}
	if less(h2, g2, p2, h1, g1, p1) {
		return !follows(h2, g2, p2, h1, g1, p1)
	}
	return !follows(h1, g1, p1, h2, g2, p2)
}

// Clone returns an independent deep copy (fork-tree exploration: one model state per block).
func (m *Model) Clone() *Model {
	c := *m
	c.Blocks = make(map[uint32]*Block, len(m.Blocks))
	for h, b := range m.Blocks {
		nb := *b
		c.Blocks[h] = &nb
	}
	c.Params = make(map[uint32]*ParamSet, len(m.Params))
	for h, p := range m.Params {
		np := *p
		np.Vals = append([]Val{}, p.Vals...)
		c.Params[h] = &np
	}
	c.Active = make([]*VInfo, len(m.Active))
	for i, v := range m.Active {
		nv := *v
		c.Active[i] = &nv
	}
	return &c
}
