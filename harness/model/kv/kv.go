// Package kv is the reference model for C12: a plain map with sorted scans (recomputed by sorting on every query, deliberately
// naive), and on top of it the staged store: committed contents, ONE logical staged state shared by all prefix views, and
// snapshot copies. Keys in the model are always full database keys; a view is nothing but a byte-string prefix.
package kv

import (
	"sort"
	"strings"
)

// Map is a set of key/value pairs; keys are raw byte strings held in Go strings.
type Map map[string]string

type KV struct {
	K string
	V string
}

func (m Map) Clone() Map {
	c := make(Map, len(m))
	for k, v := range m {
		c[k] = v
	}
	return c
}

func (m Map) Equal(o Map) bool {
	if len(m) != len(o) {
		return false
	}
	for k, v := range m {
		w, ok := o[k]
		if !ok || w != v {
			return false
		}
	}
	return true
}

// Sorted returns all pairs in ascending byte order of the key.
func (m Map) Sorted() []KV {
	ks := make([]string, 0, len(m))
	for k := range m {
		ks = append(ks, k)
	}
	sort.Strings(ks) // Go string comparison is byte-wise lexicographic
	out := make([]KV, len(ks))
	for i, k := range ks {
		out[i] = KV{k, m[k]}
	}
	return out
}

// Select returns the pairs whose key satisfies in, ascending (or descending), cut to the first limit pairs (limit < 0: all).
func (m Map) Select(in func(k string) bool, limit int, reverse bool) []KV {
	all := m.Sorted()
	var sel []KV
	for _, kv := range all {
		if in(kv.K) {
			sel = append(sel, kv)
		}
	}
	if reverse {
		for i, j := 0, len(sel)-1; i < j; i, j = i+1, j-1 {
			sel[i], sel[j] = sel[j], sel[i]
		}
	}
	if limit >= 0 && len(sel) > limit {
		sel = sel[:limit]
	}
	return sel
}

// Between: start <= k <= end (both inclusive, byte order).
func Between(start, end string) func(string) bool {
	return func(k string) bool { return start <= k && k <= end }
}

// Prefixed: p is a prefix of k.
func Prefixed(p string) func(string) bool {
	return func(k string) bool { return strings.HasPrefix(k, p) }
}

// RangeIn answers a range scan through the view `view` (a key prefix): keys relative to the view.
func (m Map) RangeIn(view, start, end string, limit int, reverse bool) []KV {
	sel := m.Select(func(k string) bool {
		if !strings.HasPrefix(k, view) {
			return false
		}
		r := k[len(view):]
		return start <= r && r <= end
	}, limit, reverse)
	return strip(sel, len(view))
}

// IterateIn answers a prefix iteration through the view.
func (m Map) IterateIn(view, prefix string, limit int, reverse bool) []KV {
	sel := m.Select(func(k string) bool {
		return strings.HasPrefix(k, view) && strings.HasPrefix(k[len(view):], prefix)
	}, limit, reverse)
	return strip(sel, len(view))
}

func strip(sel []KV, n int) []KV {
	out := make([]KV, len(sel))
	for i, kv := range sel {
		out[i] = KV{kv.K[n:], kv.V}
	}
	return out
}

// Store models the staged store. Snapshots are kept per view handle (the code numbers them per handle, starting at 0).
type Store struct {
	Committed Map                 // database contents (all keys, also those outside the root prefix)
	Staged    Map                 // database contents with all staged writes and deletes applied
	Snaps     map[int]map[int]Map // handle -> snapshot id -> copy of Staged at that time
	Next      map[int]int         // handle -> next snapshot id
}

func NewStore(initial Map) *Store {
	return &Store{Committed: initial.Clone(), Staged: initial.Clone(), Snaps: map[int]map[int]Map{}, Next: map[int]int{}}
}

func (s *Store) Set(view, k, v string) { s.Staged[view+k] = v }
func (s *Store) Del(view, k string)    { delete(s.Staged, view+k) }
func (s *Store) Get(view, k string) (string, bool) {
	v, ok := s.Staged[view+k]
	return v, ok
}

func (s *Store) Range(view, start, end string, limit int, reverse bool) []KV {
	return s.Staged.RangeIn(view, start, end, limit, reverse)
}

func (s *Store) Iterate(view, prefix string, limit int, reverse bool) []KV {
	return s.Staged.IterateIn(view, prefix, limit, reverse)
}

// Snapshot through handle h: copies the (single, shared) staged state.
func (s *Store) Snapshot(h int) int {
	id := s.Next[h]
	s.Next[h] = id + 1
	if s.Snaps[h] == nil {
		s.Snaps[h] = map[int]Map{}
	}
	s.Snaps[h][id] = s.Staged.Clone()
	return id
}

// Restore returns false (and changes nothing) for an unknown id; a restored snapshot is consumed.
func (s *Store) Restore(h, id int) bool {
	m, ok := s.Snaps[h][id]
	if !ok {
		return false
	}
	s.Staged = m
	delete(s.Snaps[h], id)
	return true
}

func (s *Store) DeleteSnapshot(h, id int) { delete(s.Snaps[h], id) }

// Live returns the snapshot ids of handle h that can still be restored, ascending.
func (s *Store) Live(h int) []int {
	var ids []int
	for id := range s.Snaps[h] {
		ids = append(ids, id)
	}
	sort.Ints(ids)
	return ids
}

// LiveTotal is the number of restorable snapshots over all handles.
func (s *Store) LiveTotal() int {
	n := 0
	for _, m := range s.Snaps {
		n += len(m)
	}
	return n
}

// DropHandle forgets a handle that is no longer used.
func (s *Store) DropHandle(h int) {
	delete(s.Snaps, h)
	delete(s.Next, h)
}

// Commit makes the staged state the database contents and returns the previous contents. A fresh staged store starts
// (snapshots belong to the old one).
func (s *Store) Commit() Map {
	prev := s.Committed
	s.Committed = s.Staged.Clone()
	s.Snaps = map[int]map[int]Map{}
	s.Next = map[int]int{}
	return prev
}

// StagedDeleted lists committed keys that are absent from the staged state.
func (s *Store) StagedDeleted() []string {
	var out []string
	for _, kv := range s.Committed.Sorted() {
		if _, ok := s.Staged[kv.K]; !ok {
			out = append(out, kv.K)
		}
	}
	return out
}
