// Package kv is the reference model for C12: a plain map with sorted scans (recomputed by sorting on every query, deliberately
// naive), and on top of it the staged store: committed contents, ONE logical staged state shared by all prefix views, and
// snapshot copies. Keys in the model are always full database keys; a view is nothing but a byte-string prefix.
package kv

import (
	"sort"
	"strings"
)

// Map is a set of key/value pairs; keys are raw byte strings held in Go strings.
type Map map[string]string

type KV struct {
	K string
	V string
}

func (m Map) Clone() Map {
	c := make(Map, len(m))
	for k, v := range m {
		c[k] = v
	}
	return c
}

func (m Map) Equal(o Map) bool {
	if len(m) != len(o) {
		return false
	}
	for k, v := range m {
		w, ok := o[k]
		if !ok || w != v {
			return false
		}
	}
	return true
}

// Sorted returns all pairs in ascending byte order of the key.
func (m Map) Sorted() []KV {
	ks := make([]string, 0, len(m))
	for k := range m {
		ks = append(ks, k)
	}
	sort.Strings(ks) // Go string comparison is byte-wise lexicographic
	out := make([]KV, len(ks))
	for i, k := range ks {
		out[i] = KV{k, m[k]}
	}
	return out
}

// Select returns the pairs whose key satisfies in, ascending (or descending), cut to the first limit pairs (limit < 0: all).
func (m Map) Select(in func(k string) bool, limit int, reverse bool) []KV {
	all := m.Sorted()
	var sel []KV
	for _, kv := range all {
		if in(kv.K) {
			sel = append(sel, kv)
		}
	}
	if reverse {
		for i, j := 0, len(sel)-1; i < j; i, j = i+1, j-1 {
			sel[i], sel[j] = sel[j], sel[i]
		}
	}
	if limit >= 0 && len(sel) > limit {
		sel = sel[:limit]
	}
	return sel
}

// Between: start <= k <= end (both inclusive, byte order).
func Between(start, end string) func(string) bool {
	return func(k string) bool { return start <= k && k <= end }
}

// Prefixed: p is a prefix of k.
func Prefixed(p string) func(string) bool {
	return func(k string) bool { return strings.HasPrefix(k, p) }
}

// RangeIn answers a range scan through the view `view` (a key prefix): keys relative to the view.
func (m Map) RangeIn(view, start, end string, limit int, reverse bool) []KV {
	sel := m.Select(func(k string) bool {
		if !strings.HasPrefix(k, view) {
			return false
		}
		r := k[len(view):]
		return start <= r && r <= end
	}, limit, reverse)
	return strip(sel, len(view))
}

// IterateIn answers a prefix iteration through the view.
func (m Map) IterateIn(view, prefix string, limit int, reverse bool) []KV {
	sel := m.Select(func(k string) bool {
		return strings.HasPrefix(k, view) && strings.HasPrefix(k[len(view):], prefix)
	}, limit, reverse)
	return strip(sel, len(view))
}

func strip(sel []KV, n int) []KV {
	out := make([]KV, len(sel))
	for i, kv := range sel {
		out[i] = KV{kv.K[n:], kv.V}
	}
	return out
}

// Store models the staged store.
type Store struct {
	Committed Map         // database contents (all keys, also those outside the root prefix)
	Staged    Map         // database contents with all staged writes and deletes applied
	Snaps     map[int]Map // snapshot id -> copy of Staged at that time
	NextSnap  int
}

func NewStore(initial Map) *Store {
	return &Store{Committed: initial.Clone(), Staged: initial.Clone(), Snaps: map[int]Map{}}
}

func (s *Store) Set(view, k, v string) { s.Staged[view+k] = v }
func (s *Store) Del(view, k string)    { delete(s.Staged, view+k) }
func (s *Store) Get(view, k string) (string, bool) {
	v, ok := s.Staged[view+k]
	return v, ok
}

func (s *Store) Range(view, start, end string, limit int, reverse bool) []KV {
	return s.Staged.RangeIn(view, start, end, limit, reverse)
}

func (s *Store) Iterate(view, prefix string, limit int, reverse bool) []KV {
	return s.Staged.IterateIn(view, prefix, limit, reverse)
}

func (s *Store) Snapshot() int {
	id := s.NextSnap
	s.NextSnap++
	s.Snaps[id] = s.Staged.Clone()
	return id
}

// Restore returns false (and changes nothing) for an unknown id; a restored snapshot is consumed.
func (s *Store) Restore(id int) bool {
	m, ok := s.Snaps[id]
	if !ok {
		return false
	}
	s.Staged = m
	delete(s.Snaps, id)
	return true
}

func (s *Store) DeleteSnapshot(id int) { delete(s.Snaps, id) }

// Commit makes the staged state the database contents and returns the previous contents. A fresh staged store starts
// (snapshots belong to the old one).
func (s *Store) Commit() Map {
	prev := s.Committed
	s.Committed = s.Staged.Clone()
	s.Snaps = map[int]Map{}
	s.NextSnap = 0
	return prev
}

// StagedDeleted lists committed keys that are absent from the staged state.
func (s *Store) StagedDeleted() []string {
	var out []string
	for _, kv := range s.Committed.Sorted() {
		if _, ok := s.Staged[kv.K]; !ok {
			out = append(out, kv.K)
		}
	}
	return out
}
