// Package smt is a naive re-statement of the LIP-0039 sparse Merkle tree, written independently of
// pkg/trie/smt: the root of a key->value map is computed by plain recursion over key bits (no subtrees of
// height 8, no stub nodes, no batching, no incremental state), and the expected answer to a query is read
// off the same recursion. Slow (O(n · keyLen·8)) and meant to be obviously right.
//
// Conventions (LIP-0039):
//   - keys have a fixed length keyLen (bytes); bit i of a key is bit (7 - i%8) of byte i/8 (most significant first);
//   - a sub-tree without keys is the empty node, hash = SHA-256("");
//   - a sub-tree with exactly one key is that leaf, hash = SHA-256(0x00 ‖ key ‖ value), at whatever depth it sits
//     (a leaf is "lifted" to the highest node whose sub-tree contains no other key);
//   - otherwise it is a branch, hash = SHA-256(0x01 ‖ left ‖ right), split on the next key bit.
//
// Values are used as given (the callers of the real trie pass 32-byte hashes of their data; the model does not care).
// A key mapped to an empty value is treated as absent (that is how deletion is expressed towards the real trie).
package smt

import (
	"bytes"
	"crypto/sha256"
	"sort"
)

// EmptyHash is the hash of the empty node and the root of the empty map.
func EmptyHash() []byte {
	h := sha256.Sum256(nil)
	return h[:]
}

// LeafHash = SHA-256(0x00 ‖ key ‖ value).
func LeafHash(key, value []byte) []byte {
	h := sha256.New()
	h.Write([]byte{0})
	h.Write(key)
	h.Write(value)
	return h.Sum(nil)
}

// BranchHash = SHA-256(0x01 ‖ left ‖ right).
func BranchHash(left, right []byte) []byte {
	h := sha256.New()
	h.Write([]byte{1})
	h.Write(left)
	h.Write(right)
	return h.Sum(nil)
}

// Bit returns bit i (0 = most significant bit of the first byte) of key.
func Bit(key []byte, i int) bool {
	return key[i/8]&(0x80>>uint(i%8)) != 0
}

// CommonPrefixBits returns the number of leading bits a and b share (a, b of equal length).
func CommonPrefixBits(a, b []byte) int {
	n := 0
	for i := 0; i < len(a)*8 && i < len(b)*8; i++ {
		if Bit(a, i) != Bit(b, i) {
			return n
		}
		n++
	}
	return n
}

// Keys returns the keys of kv that count as present (length keyLen, non-empty value), sorted.
// Keys of another length are a caller error and make it panic.
func Keys(keyLen int, kv map[string][]byte) [][]byte {
	out := make([][]byte, 0, len(kv))
	for k, v := range kv {
		if len(k) != keyLen {
			panic("model/smt: key of wrong length")
		}
		if len(v) == 0 {
			continue
		}
		out = append(out, []byte(k))
	}
	sort.Slice(out, func(i, j int) bool { return bytes.Compare(out[i], out[j]) < 0 })
	return out
}

// Root is the LIP-0039 Merkle root of the map (keys of keyLen bytes; entries with empty value are absent).
func Root(keyLen int, kv map[string][]byte) []byte {
	return node(Keys(keyLen, kv), kv, 0)
}

// node hashes the sub-tree holding exactly the (sorted) keys, all of which agree on their first depth bits.
func node(keys [][]byte, kv map[string][]byte, depth int) []byte {
	switch len(keys) {
	case 0:
		return EmptyHash()
	case 1:
		return LeafHash(keys[0], kv[string(keys[0])])
	}
	// sorted keys sharing `depth` bits: the ones with bit `depth` clear come first
	split := sort.Search(len(keys), func(i int) bool { return Bit(keys[i], depth) })
	return BranchHash(node(keys[:split], kv, depth+1), node(keys[split:], kv, depth+1))
}

// Answer is what LIP-0039 prescribes as the response to one query key.
type Answer struct {
	Key    []byte // the queried key itself (inclusion, or the path ends in an empty node) or the key of the leaf found on its path
	Value  []byte // value of that leaf; empty when the path ends in an empty node
	Height int    // depth of the node the path ends in (= number of bits in the bitmap after stripping leading zeros)
	Bitmap []bool // Bitmap[0] belongs to the deepest level: true where the sibling on the path is not empty; len = Height
	// Siblings[i] = hash of the sibling at the level of Bitmap[i] (also for empty siblings); only filled by QueryWithSiblings.
	Siblings [][]byte
}

// Path returns the first Height bits of the answer's key as a string of '0'/'1': the position of the node the query ends in.
func (a Answer) Path() string {
	b := make([]byte, a.Height)
	for i := range b {
		b[i] = '0'
		if Bit(a.Key, i) {
			b[i] = '1'
		}
	}
	return string(b)
}

// Query walks from the root along the bits of key and returns the prescribed answer (without sibling hashes).
func Query(keyLen int, kv map[string][]byte, key []byte) Answer {
	return query(keyLen, kv, Keys(keyLen, kv), key, false)
}

// QueryWithSiblings is Query plus the hash of every sibling on the path.
func QueryWithSiblings(keyLen int, kv map[string][]byte, key []byte) Answer {
	return query(keyLen, kv, Keys(keyLen, kv), key, true)
}

// QuerySorted is Query for callers that already hold Keys(keyLen, kv) (many queries against one map).
func QuerySorted(keyLen int, kv map[string][]byte, sortedKeys [][]byte, key []byte) Answer {
	return query(keyLen, kv, sortedKeys, key, false)
}

func query(keyLen int, kv map[string][]byte, keys [][]byte, key []byte, withSiblings bool) Answer {
	if len(key) != keyLen {
		panic("model/smt: query key of wrong length")
	}
	var bitmapTopDown []bool
	var sibTopDown [][]byte
	depth := 0
	for len(keys) > 1 {
		split := sort.Search(len(keys), func(i int) bool { return Bit(keys[i], depth) })
		var sib [][]byte
		if Bit(key, depth) {
			keys, sib = keys[split:], keys[:split]
		} else {
			keys, sib = keys[:split], keys[split:]
		}
		bitmapTopDown = append(bitmapTopDown, len(sib) > 0)
		if withSiblings {
			sibTopDown = append(sibTopDown, node(sib, kv, depth+1))
		}
		depth++
	}
	a := Answer{Height: depth}
	for i := depth - 1; i >= 0; i-- {
		a.Bitmap = append(a.Bitmap, bitmapTopDown[i])
		if withSiblings {
			a.Siblings = append(a.Siblings, sibTopDown[i])
		}
	}
	if len(keys) == 0 {
		a.Key = append([]byte{}, key...)
		a.Value = []byte{}
		return a
	}
	a.Key = append([]byte{}, keys[0]...)
	a.Value = append([]byte{}, kv[string(keys[0])]...)
	return a
}

// Present reports whether key is in the map (with a non-empty value).
func Present(kv map[string][]byte, key []byte) bool {
	return len(kv[string(key)]) > 0
}

// ClaimsHold evaluates what one (queryKey, proofKey, proofValue) triple of a proof asserts about the map:
//   - proofValue non-empty: the map holds proofKey -> proofValue;
//   - proofValue empty: proofKey is not in the map;
//   - queryKey != proofKey: queryKey is not in the map (the proof shows another leaf / an empty node on its path).
//
// It returns "" when every assertion is true of kv, else a description of the first false one.
func ClaimsHold(kv map[string][]byte, queryKey, proofKey, proofValue []byte) string {
	if len(proofValue) > 0 {
		if !bytes.Equal(kv[string(proofKey)], proofValue) {
			return "inclusion claim (proofKey -> proofValue) is not in the map"
		}
	} else if Present(kv, proofKey) {
		return "proof shows proofKey as an empty node but the map holds it"
	}
	if !bytes.Equal(queryKey, proofKey) && Present(kv, queryKey) {
		return "proof claims absence of queryKey but the map holds it"
	}
	return ""
}
