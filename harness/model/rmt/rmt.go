// Package rmt is a naive reference model of the LIP-0031 regular Merkle tree, written for the C11 check.
//
// It is deliberately written differently from pkg/trie/rmt: every value is recomputed from the plain list of leaves by
// recursion (no incremental folding, no stored nodes, no index arithmetic on strings, no floating point).
//
//	leafHash(d)   = SHA-256(0x00 || d)
//	branchHash(l,r) = SHA-256(0x01 || l || r)
//	root([])      = SHA-256("")
//	root([d])     = leafHash(d)
//	root(D)       = branchHash(root(D[:k]), root(D[k:]))   k = largest power of two strictly smaller than len(D)
//
// The append path of a list of n leaves is the list of roots of the perfect subtrees given by the binary decomposition of
// n, smallest subtree (right-most leaves) first.
package rmt

import (
	"bytes"
	"crypto/sha256"
	"math/bits"
)

func sum(parts ...[]byte) []byte {
	h := sha256.New()
	for _, p := range parts {
		h.Write(p)
	}
	return h.Sum(nil)
}

// EmptyHash is the root of the empty tree.
func EmptyHash() []byte { return sum() }

// LeafHash returns the hash of a leaf holding data.
func LeafHash(data []byte) []byte { return sum([]byte{0x00}, data) }

// BranchHash returns the hash of an inner node.
func BranchHash(left, right []byte) []byte { return sum([]byte{0x01}, left, right) }

// Split returns the largest power of two strictly smaller than n (n >= 2).
func Split(n int) int {
	k := 1
	for k*2 < n {
		k *= 2
	}
	return k
}

// Root is the LIP-0031 Merkle root of the list.
func Root(data [][]byte) []byte {
	switch len(data) {
	case 0:
		return EmptyHash()
	case 1:
		return LeafHash(data[0])
	}
	k := Split(len(data))
	return BranchHash(Root(data[:k]), Root(data[k:]))
}

// AppendPath returns the roots of the perfect subtrees of the binary decomposition of len(data), lowest (smallest,
// right-most) subtree first.
func AppendPath(data [][]byte) [][]byte {
	n := len(data)
	var fromLeft [][]byte
	start := 0
	for b := bits.Len(uint(n)) - 1; b >= 0; b-- {
		sz := 1 << uint(b)
		if n&sz != 0 {
			fromLeft = append(fromLeft, Root(data[start:start+sz]))
			start += sz
		}
	}
	out := make([][]byte, 0, len(fromLeft))
	for i := len(fromLeft) - 1; i >= 0; i-- {
		out = append(out, fromLeft[i])
	}
	return out
}

// Height is the number of layers of a tree with n >= 1 leaves (1 for a single leaf).
func Height(n int) int {
	return bits.Len(uint(n-1)) + 1
}

// LeafIndex is the LIP-0031 proof index of leaf i in a tree of n leaves: a leading 1 followed by the position written with
// Height(n) binary digits.
func LeafIndex(n, i int) uint64 {
	return uint64(1)<<uint(Height(n)) | uint64(i)
}

// SameSide reports whether all the given leaf positions lie on the same side of the root split of a tree with n leaves.
func SameSide(n int, pos []int) bool {
	if n < 2 || len(pos) == 0 {
		return true
	}
	k := Split(n)
	left, right := false, false
	for _, p := range pos {
		if p < k {
			left = true
		} else {
			right = true
		}
	}
	return !(left && right)
}

// Equal compares two lists of hashes.
func Equal(a, b [][]byte) bool {
	if len(a) != len(b) {
		return false
	}
	for i := range a {
		if !bytes.Equal(a[i], b[i]) {
			return false
		}
	}
	return true
}
