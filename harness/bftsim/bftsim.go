// Package bftsim replays header chains through the real liskbft.Module on a real diff store, committing per block
// exactly as consensus.Executer.processValidated does (BeforeTransactionsExecute, optional parameter change, commit).
package bftsim

import (
	"fmt"

	"github.com/LiskHQ/lisk-engine/pkg/blockchain"
	"github.com/LiskHQ/lisk-engine/pkg/codec"
	"github.com/LiskHQ/lisk-engine/pkg/consensus/liskbft"
	"github.com/LiskHQ/lisk-engine/pkg/db"
	"github.com/LiskHQ/lisk-engine/pkg/db/diffdb"
)

// Hdr is a minimal header; it implements blockchain.SealedBlockHeader.
type Hdr struct {
	Id     []byte
	H      uint32
	Gen    []byte
	MHG    uint32
	MHP    uint32
	Agg    *blockchain.AggregateCommit
	Ver    uint32
	PrevID []byte
	TS     uint32
}

func (h *Hdr) ID() []byte                       { return h.Id }
func (h *Hdr) Version() uint32                  { return h.Ver }
func (h *Hdr) Height() uint32                   { return h.H }
func (h *Hdr) Timestamp() uint32                { return h.TS }
func (h *Hdr) PreviousBlockID() codec.Hex       { return h.PrevID }
func (h *Hdr) GeneratorAddress() codec.Lisk32   { return h.Gen }
func (h *Hdr) MaxHeightPrevoted() uint32        { return h.MHP }
func (h *Hdr) MaxHeightGenerated() uint32       { return h.MHG }
func (h *Hdr) ImpliesMaxPrevotes() bool         { return false }
func (h *Hdr) Signature() []byte                { return nil }
func (h *Hdr) SigningBytes() []byte             { return nil }
func (h *Hdr) TransactionRoot() []byte          { return nil }
func (h *Hdr) AssetRoot() []byte                { return nil }
func (h *Hdr) StateRoot() []byte                { return nil }
func (h *Hdr) ValidatorsHash() []byte           { return nil }
func (h *Hdr) EventRoot() []byte                { return nil }
func (h *Hdr) AggregateCommit() *blockchain.AggregateCommit {
	if h.Agg == nil {
		return &blockchain.AggregateCommit{}
	}
	return h.Agg
}

// Val is one BFT validator (weight > 0).
type Val struct {
	Addr   []byte
	Weight uint64
	BLS    []byte
}

// Params is a BFT parameter set as handed to SetBFTParameters.
type Params struct {
	Vals      []Val
	Precommit uint64
	Cert      uint64
}

var statePrefix = blockchain.DBPrefixToBytes(blockchain.DBPrefixState)

type Sim struct {
	DB  *db.DB
	Mod *liskbft.Module
}

func New(batchSize int) *Sim {
	d, err := db.NewInMemoryDB()
	if err != nil {
		panic(err)
	}
	m := liskbft.NewModule()
	if err := m.Init(batchSize); err != nil {
		panic(err)
	}
	return &Sim{DB: d, Mod: m}
}

func (s *Sim) Close() { s.DB.Close() }

func (s *Sim) Store() *diffdb.Database { return diffdb.New(s.DB, statePrefix) }

func (s *Sim) commit(st *diffdb.Database) {
	b := s.DB.NewBatch()
	st.Commit(b)
	s.DB.Write(b)
}

func toBFT(p Params) liskbft.BFTValidators {
	vs := make(liskbft.BFTValidators, len(p.Vals))
	for i, v := range p.Vals {
		vs[i] = liskbft.NewValidator(v.Addr, v.Weight, v.BLS)
	}
	return vs
}

// Genesis initialises the BFT state for a genesis header at the given height.
func (s *Sim) Genesis(height uint32, p Params) error {
	st := s.Store()
	if err := s.Mod.InitGenesisState(&Hdr{H: height, Gen: make([]byte, 20)}, st); err != nil {
		return err
	}
	if err := s.Mod.API().SetBFTParameters(st, p.Precommit, p.Cert, toBFT(p)); err != nil {
		return err
	}
	s.commit(st)
	return nil
}

// Apply processes one header; change (optional) is applied after the vote update, effective next height.
// Nothing is committed when an error is returned.
func (s *Sim) Apply(h *Hdr, change *Params) error {
	st := s.Store()
	if err := s.Mod.BeforeTransactionsExecute(h, st); err != nil {
		return fmt.Errorf("BeforeTransactionsExecute: %w", err)
	}
	if change != nil {
		if err := s.Mod.API().SetBFTParameters(st, change.Precommit, change.Cert, toBFT(*change)); err != nil {
			return fmt.Errorf("SetBFTParameters: %w", err)
		}
	}
	s.commit(st)
	return nil
}

func (s *Sim) Heights() (prevoted, precommitted, certified uint32) {
	a, b, c, err := s.Mod.API().GetBFTHeights(s.Store())
	if err != nil {
		panic(err)
	}
	return a, b, c
}

func (s *Sim) Contradicting(h *Hdr) bool {
	r, err := s.Mod.API().IsHeaderContradictingChain(s.Store(), h)
	if err != nil {
		panic(err)
	}
	return r
}

// Dump returns the raw BFT state records (prefix state || module) for byte-for-byte comparison.
func (s *Sim) Dump() [][2][]byte {
	var out [][2][]byte
	for _, kv := range s.DB.Iterate(statePrefix, -1, false) {
		out = append(out, [2][]byte{kv.Key(), kv.Value()})
	}
	return out
}

// Load replaces the BFT state records by a dump taken earlier (fork-tree exploration: one shared database, O(1) per node).
func (s *Sim) Load(dump [][2][]byte) {
	b := s.DB.NewBatch()
	for _, kv := range s.DB.Iterate(statePrefix, -1, false) {
		b.Del(kv.Key())
	}
	for _, kv := range dump {
		b.Set(kv[0], kv[1])
	}
	s.DB.Write(b)
}
