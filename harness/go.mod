module verifharness

go 1.23

toolchain go1.23.5

require (
	github.com/LiskHQ/lisk-engine v0.0.0
	github.com/cockroachdb/pebble v0.0.0-20221021145029-f34af25a0187
	github.com/libp2p/go-libp2p v0.32.2
	golang.org/x/text v0.14.0
	pgregory.net/rapid v1.3.0
)

require (
	github.com/DataDog/zstd v1.5.2 // indirect
	github.com/andres-erbsen/clock v0.0.0-20160526145045-9e14626cd129 // indirect
	github.com/benbjohnson/clock v1.3.5 // indirect
	github.com/beorn7/perks v1.0.1 // indirect
	github.com/cespare/xxhash/v2 v2.2.0 // indirect
	github.com/cockroachdb/errors v1.9.0 // indirect
	github.com/cockroachdb/logtags v0.0.0-20211118104740-dabe8e521a4f // indirect
	github.com/cockroachdb/redact v1.1.3 // indirect
	github.com/containerd/cgroups v1.1.0 // indirect
	github.com/coreos/go-systemd/v22 v22.5.0 // indirect
	github.com/cpuguy83/go-md2man/v2 v2.0.0 // indirect
	github.com/davecgh/go-spew v1.1.1 // indirect
	github.com/davidlazar/go-crypto v0.0.0-20200604182044-b73af7476f6c // indirect
	github.com/decred/dcrd/dcrec/secp256k1/v4 v4.2.0 // indirect
	github.com/docker/go-units v0.5.0 // indirect
	github.com/elastic/gosigar v0.14.2 // indirect
	github.com/fatih/structtag v1.2.0 // indirect
	github.com/flynn/noise v1.0.0 // indirect
	github.com/francoispqt/gojay v1.2.13 // indirect
	github.com/gdamore/encoding v1.0.0 // indirect
	github.com/gdamore/tcell/v2 v2.5.3 // indirect
	github.com/getsentry/sentry-go v0.14.0 // indirect
	github.com/go-bindata/go-bindata v3.1.2+incompatible // indirect
	github.com/go-task/slim-sprig v0.0.0-20230315185526-52ccab3ef572 // indirect
	github.com/go-zeromq/goczmq/v4 v4.2.2 // indirect
	github.com/go-zeromq/zmq4 v0.14.1 // indirect
	github.com/godbus/dbus/v5 v5.1.0 // indirect
	github.com/gogo/protobuf v1.3.2 // indirect
	github.com/golang/protobuf v1.5.3 // indirect
	github.com/golang/snappy v0.0.4 // indirect
	github.com/google/gopacket v1.1.19 // indirect
	github.com/google/pprof v0.0.0-20231023181126-ff6d637d2a7b // indirect
	github.com/google/uuid v1.3.0 // indirect
	github.com/gorilla/websocket v1.5.0 // indirect
	github.com/hashicorp/golang-lru/v2 v2.0.5 // indirect
	github.com/huin/goupnp v1.3.0 // indirect
	github.com/ipfs/go-cid v0.4.1 // indirect
	github.com/ipfs/go-log v1.0.5 // indirect
	github.com/ipfs/go-log/v2 v2.5.1 // indirect
	github.com/ipfs/kubo v0.19.0 // indirect
	github.com/jackpal/go-nat-pmp v1.0.2 // indirect
	github.com/jbenet/go-temp-err-catcher v0.1.0 // indirect
	github.com/jbenet/goprocess v0.1.4 // indirect
	github.com/klauspost/compress v1.17.2 // indirect
	github.com/klauspost/cpuid/v2 v2.2.5 // indirect
	github.com/koron/go-ssdp v0.0.4 // indirect
	github.com/kr/pretty v0.3.1 // indirect
	github.com/kr/text v0.2.0 // indirect
	github.com/libp2p/go-buffer-pool v0.1.0 // indirect
	github.com/libp2p/go-cidranger v1.1.0 // indirect
	github.com/libp2p/go-flow-metrics v0.1.0 // indirect
	github.com/libp2p/go-libp2p-asn-util v0.3.0 // indirect
	github.com/libp2p/go-libp2p-pubsub v0.10.0 // indirect
	github.com/libp2p/go-msgio v0.3.0 // indirect
	github.com/libp2p/go-nat v0.2.0 // indirect
	github.com/libp2p/go-netroute v0.2.1 // indirect
	github.com/libp2p/go-reuseport v0.4.0 // indirect
	github.com/libp2p/go-yamux/v4 v4.0.1 // indirect
	github.com/lucasb-eyer/go-colorful v1.2.0 // indirect
	github.com/marten-seemann/tcp v0.0.0-20210406111302-dfbc87cc63fd // indirect
	github.com/mattn/go-isatty v0.0.20 // indirect
	github.com/mattn/go-runewidth v0.0.13 // indirect
	github.com/matttproud/golang_protobuf_extensions v1.0.4 // indirect
	github.com/miekg/dns v1.1.56 // indirect
	github.com/mikioh/tcpinfo v0.0.0-20190314235526-30a79bb1804b // indirect
	github.com/mikioh/tcpopt v0.0.0-20190314235656-172688c1accc // indirect
	github.com/minio/sha256-simd v1.0.1 // indirect
	github.com/mr-tron/base58 v1.2.0 // indirect
	github.com/multiformats/go-base32 v0.1.0 // indirect
	github.com/multiformats/go-base36 v0.2.0 // indirect
	github.com/multiformats/go-multiaddr v0.12.0 // indirect
	github.com/multiformats/go-multiaddr-dns v0.3.1 // indirect
	github.com/multiformats/go-multiaddr-fmt v0.1.0 // indirect
	github.com/multiformats/go-multibase v0.2.0 // indirect
	github.com/multiformats/go-multicodec v0.9.0 // indirect
	github.com/multiformats/go-multihash v0.2.3 // indirect
	github.com/multiformats/go-multistream v0.5.0 // indirect
	github.com/multiformats/go-varint v0.0.7 // indirect
	github.com/onsi/ginkgo/v2 v2.13.0 // indirect
	github.com/opencontainers/runtime-spec v1.1.0 // indirect
	github.com/opentracing/opentracing-go v1.2.0 // indirect
	github.com/pbnjay/memory v0.0.0-20210728143218-7b4eea64cf58 // indirect
	github.com/pkg/errors v0.9.1 // indirect
	github.com/pmezard/go-difflib v1.0.0 // indirect
	github.com/prometheus/client_golang v1.14.0 // indirect
	github.com/prometheus/client_model v0.4.0 // indirect
	github.com/prometheus/common v0.42.0 // indirect
	github.com/prometheus/procfs v0.9.0 // indirect
	github.com/quic-go/qpack v0.4.0 // indirect
	github.com/quic-go/qtls-go1-20 v0.3.4 // indirect
	github.com/quic-go/quic-go v0.39.4 // indirect
	github.com/quic-go/webtransport-go v0.6.0 // indirect
	github.com/raulk/go-watchdog v1.3.0 // indirect
	github.com/rivo/tview v0.0.0-20230104153304-892d1a2eb0da // indirect
	github.com/rivo/uniseg v0.4.2 // indirect
	github.com/rogpeppe/go-internal v1.9.0 // indirect
	github.com/russross/blackfriday/v2 v2.1.0 // indirect
	github.com/spaolacci/murmur3 v1.1.0 // indirect
	github.com/stretchr/objx v0.5.0 // indirect
	github.com/stretchr/testify v1.8.4 // indirect
	github.com/supranational/blst v0.3.11 // indirect
	github.com/tyler-smith/go-bip39 v1.1.0 // indirect
	github.com/urfave/cli/v2 v2.3.0 // indirect
	go.uber.org/dig v1.17.1 // indirect
	go.uber.org/fx v1.20.1 // indirect
	go.uber.org/mock v0.3.0 // indirect
	go.uber.org/multierr v1.11.0 // indirect
	go.uber.org/ratelimit v0.2.0 // indirect
	go.uber.org/zap v1.26.0 // indirect
	golang.org/x/crypto v0.17.0 // indirect
	golang.org/x/exp v0.0.0-20231006140011-7918f672742d // indirect
	golang.org/x/mod v0.13.0 // indirect
	golang.org/x/net v0.17.0 // indirect
	golang.org/x/sync v0.4.0 // indirect
	golang.org/x/sys v0.15.0 // indirect
	golang.org/x/term v0.15.0 // indirect
	golang.org/x/tools v0.14.0 // indirect
	google.golang.org/protobuf v1.30.0 // indirect
	gopkg.in/yaml.v2 v2.4.0 // indirect
	gopkg.in/yaml.v3 v3.0.1 // indirect
	lukechampine.com/blake3 v1.2.1 // indirect
)

replace github.com/LiskHQ/lisk-engine => /repo
