package c08

// Part (h): non-canonical encodings at every NESTING level of the composite values the engine decodes from untrusted or
// stored bytes. Parts (c)/(d) damage a transaction only when it stands alone (NewTransaction) and hand NewBlock canonical
// blocks (or headers with fields missing); here a canonical encoding of a composite value is taken apart with the wire model,
// ONE element (the envelope itself, the header inside a block, the aggregate commit inside the header, transaction i, asset j,
// a single commit inside a gossip message, any nested message of any generated-codec type) is damaged by one of the byte-level
// mutation kinds of part (c) (+ four that need a schema: a real boolean set to 2..255, a default-valued field left out, every
// field left out, an unknown field number somewhere in the middle), and everything is wrapped again with CORRECT length
// prefixes, so that only the chosen element is non-canonical.
//
// Entry points (grep DecodeStrict / New* in pkg/blockchain, pkg/consensus, pkg/p2p, pkg/txpool on the unchanged tree):
//
//	NewTransaction      Transaction.DecodeStrict                      flat            part (c)
//	NewBlockAsset       BlockAsset.DecodeStrict                       flat            here, as element of a block
//	NewBlock            RawBlock.DecodeStrict -> NewBlockHeader (LENIENT Decode), NewBlockAsset, NewTransaction per element
//	                    callers: p2p postBlock validator + handler, sync responses, GetTempBlocks, genesis blob
//	singleCommitValidator  EventPostSingleCommits.DecodeStrict; the nested SingleCommit is read by ReadDecodables -> lenient
//	everything else (p2p envelopes, sync requests/responses, stored headers/assets/events) uses the lenient Decode.
//
// What is demanded (statement: "strict decoding of a transaction accepts only the canonical byte string ... so a transaction ID
// is the hash of exactly the accepted bytes; block and transaction IDs are unchanged by ... re-encoding"):
//
//	NewBlock(s) == nil error  =>
//	  - every embedded transaction: ID == SHA-256(its sub-bytes in s), Bytes() == sub-bytes, Size() == len, and the stand-alone
//	    NewTransaction accepts exactly these sub-bytes (implication oracle of part (c));
//	  - every embedded asset re-encodes to its sub-bytes and NewBlockAsset accepts them (the unchanged code decodes assets strictly);
//	  - the envelope is canonical: s == wire-model serialisation of its fields; Encode() == s, except for the header sub-bytes
//	    which NewBlockHeader decodes leniently ON PURPOSE of the unchanged code (block ID = SHA-256 of the RE-ENCODED header,
//	    as the property's mechanism anchor says): there Encode() == s with the header replaced by its re-encoding;
//	  - block ID == SHA-256(Header.Encode()) (== SHA-256(header sub-bytes) when those are canonical), the stand-alone
//	    NewBlockHeader agrees, NewBlock(Encode()) gives the same block ID, transaction IDs and encoding.
//	EventPostSingleCommits.DecodeStrict(s) == nil and any DecodeStrict of a generated-codec type: nothing canonical is claimed by
//	  the statement for these (no ID is derived from the bytes); demanded is only what the first sentence says: the accepted value
//	  re-encodes deterministically, strict decoding accepts that re-encoding, gives an equal value and the same bytes again.
//	  Lenient acceptance at a nested level is COUNTED (labels ...:accepted_lenient), not flagged.

import (
	"bytes"
	"encoding/hex"
	"fmt"
	"os"
	"reflect"
	"strconv"
	"strings"
	"sync"
	"testing"
	"unicode/utf8"

	"github.com/LiskHQ/lisk-engine/pkg/blockchain"
	"github.com/LiskHQ/lisk-engine/pkg/codec"
	"github.com/LiskHQ/lisk-engine/pkg/consensus"
	"github.com/LiskHQ/lisk-engine/pkg/consensus/certificate"
	"pgregory.net/rapid"

	"verifharness/evid"
)

// ---- schema (from the struct tags) and element paths ----------------------------------------------------------------

type fieldSchema struct {
	kind string       // kBool, kUint, ... (gen_test.go)
	name string       // Go field name
	elem reflect.Type // struct type of the nested message (kMsg, kMsgArr)
}

var (
	schemaMu    sync.Mutex
	schemaCache = map[reflect.Type]map[int]fieldSchema{}
)

func schemaOf(st reflect.Type) map[int]fieldSchema {
	schemaMu.Lock()
	defer schemaMu.Unlock()
	if s, ok := schemaCache[st]; ok {
		return s
	}
	s := map[int]fieldSchema{}
	for i := 0; i < st.NumField(); i++ {
		sf := st.Field(i)
		tag, ok := sf.Tag.Lookup("fieldNumber")
		if !ok {
			continue
		}
		n, err := strconv.Atoi(tag)
		if err != nil {
			panic("harness: fieldNumber tag " + tag)
		}
		fs := fieldSchema{kind: kindOf(sf.Type), name: sf.Name}
		switch fs.kind {
		case kMsg:
			fs.elem = sf.Type.Elem()
		case kMsgArr:
			fs.elem = sf.Type.Elem().Elem()
		}
		s[n] = fs
	}
	schemaCache[st] = s
	return s
}

func hasNestedMsg(st reflect.Type) bool {
	for _, f := range schemaOf(st) {
		if f.kind == kMsg || f.kind == kMsgArr {
			return true
		}
	}
	return false
}

type pathStep struct {
	num  int    // field number in the parent message
	occ  int    // which occurrence of that field number (repeated messages)
	name string // Go field name (labels)
	rep  bool
}

type elemPath struct {
	steps []pathStep
	typ   reflect.Type // struct type of the element the path ends in
}

// level: the path without indices ("Block/Transactions[]"): the nesting level used in the evidence labels.
func (p elemPath) level(root string) string {
	s := root
	for _, st := range p.steps {
		s += "/" + st.name
		if st.rep {
			s += "[]"
		}
	}
	return s
}

func (p elemPath) String() string {
	s := "."
	for _, st := range p.steps {
		s += "/" + st.name
		if st.rep {
			s += fmt.Sprintf("[%d]", st.occ)
		}
	}
	return s
}

func readVarint(b []byte, off int) (uint64, int, bool) {
	var v uint64
	for i := 0; i < 10; i++ {
		if off+i >= len(b) {
			return 0, 0, false
		}
		c := b[off+i]
		if i == 9 && c > 1 {
			return 0, 0, false
		}
		v |= uint64(c&0x7f) << (7 * uint(i))
		if c&0x80 == 0 {
			return v, i + 1, true
		}
	}
	return 0, 0, false
}

// parseWire cuts a byte string into top-level fields (wire types 0 and 2 only). canonicalOnly: shortest varints demanded.
// The payloads are copies.
func parseWire(b []byte, canonicalOnly bool) ([]wfield, bool) {
	out := []wfield{}
	off := 0
	rd := func() (uint64, bool) {
		v, n, ok := readVarint(b, off)
		if !ok || (canonicalOnly && n != len(leb(v))) {
			return 0, false
		}
		off += n
		return v, true
	}
	for off < len(b) {
		key, ok := rd()
		if !ok || key>>3 > 1<<28 {
			return nil, false
		}
		f := wfield{num: int(key >> 3), wt: int(key & 7)}
		switch f.wt {
		case 0:
			if f.val, ok = rd(); !ok {
				return nil, false
			}
		case 2:
			l, ok := rd()
			if !ok || l > uint64(len(b)-off) {
				return nil, false
			}
			f.data = append([]byte{}, b[off:off+int(l)]...)
			off += int(l)
		default:
			return nil, false
		}
		out = append(out, f)
	}
	return out, true
}

// enumPaths lists every message element of a canonical encoding: the root (empty path) and, recursively, every nested message.
func enumPaths(st reflect.Type, enc []byte, steps []pathStep, out *[]elemPath) {
	*out = append(*out, elemPath{steps: append([]pathStep{}, steps...), typ: st})
	fs, ok := parseWire(enc, true)
	if !ok {
		panic(fmt.Sprintf("harness: canonical encoding of %s does not parse: %x", st, enc))
	}
	sch := schemaOf(st)
	occ := map[int]int{}
	for _, f := range fs {
		s, known := sch[f.num]
		if !known || f.wt != 2 || (s.kind != kMsg && s.kind != kMsgArr) {
			continue
		}
		step := pathStep{num: f.num, occ: occ[f.num], name: s.name, rep: s.kind == kMsgArr}
		occ[f.num]++
		enumPaths(s.elem, f.data, append(steps, step), out)
	}
}

// rewrap replaces the element at `steps` by leaf(its type, its fields) and serialises everything above it again, so that all
// length prefixes on the way up are correct and shortest.
func rewrap(st reflect.Type, enc []byte, steps []pathStep, leaf func(reflect.Type, []wfield) []byte) []byte {
	fs, ok := parseWire(enc, true)
	if !ok {
		panic(fmt.Sprintf("harness: canonical encoding of %s does not parse: %x", st, enc))
	}
	if len(steps) == 0 {
		return leaf(st, fs)
	}
	occ := 0
	for i := range fs {
		if fs[i].num != steps[0].num || fs[i].wt != 2 {
			continue
		}
		if occ == steps[0].occ {
			fs[i].data = rewrap(schemaOf(st)[steps[0].num].elem, fs[i].data, steps[1:], leaf)
			return serialize(fs)
		}
		occ++
	}
	panic("harness: element path not found")
}

// ---- mutation of one element ----------------------------------------------------------------------------------------

// nestedKinds = the 17 kinds of part (c) + four that need the schema of the element.
var nestedKinds = append(append([]string{}, mutationKinds...), "bool_2", "drop_default_field", "drop_all_fields", "unknown_field")

func isStringField(sch map[int]fieldSchema, f wfield) bool {
	s, ok := sch[f.num]
	return ok && f.wt == 2 && (s.kind == kString || s.kind == kStrArr)
}

func unknownFieldNumber(sch map[int]fieldSchema, pick int) int {
	max := 0
	for n := range sch {
		if n > max {
			max = n
		}
	}
	cands := []int{max + 1, max + 2, 0, 15, 16, 2047, 2048, 1 << 20}
	for k := 0; k < len(cands); k++ {
		n := cands[(pick+k)%len(cands)]
		if _, used := sch[n]; !used {
			return n
		}
	}
	return max + 1
}

// mutateElem applies one mutation kind to the fields of one element; applicable=false when the element has no field the kind
// can work on (then the bytes are returned unchanged).
func mutateElem(t *rapid.T, st reflect.Type, fs []wfield, kind, lb string) (out []byte, applicable bool) {
	sch := schemaOf(st)
	pick := func(ok func(wfield) bool) int {
		var idx []int
		for j, f := range fs {
			if ok(f) {
				idx = append(idx, j)
			}
		}
		if len(idx) == 0 {
			return -1
		}
		return idx[rapid.IntRange(0, len(idx)-1).Draw(t, lb+"_field")]
	}
	switch kind {
	case "string_nonNFC", "string_badUTF8":
		j := pick(func(f wfield) bool { return isStringField(sch, f) })
		if j < 0 {
			return serialize(fs), false
		}
		var p []byte
		if kind == "string_nonNFC" {
			p = []byte(rapid.SampledFrom(strPieces[21:]).Draw(t, lb+"_piece"))
		} else {
			p = rapid.SampledFrom([][]byte{{0xff}, {0xc0, 0x80}, {0xed, 0xa0, 0x80}, {0xf4, 0x90, 0x80, 0x80}, {0xe2, 0x82}, {0x80}}).Draw(t, lb+"_piece")
		}
		fs[j].data = append(append([]byte{}, fs[j].data...), p...)
		return serialize(fs), true
	case "bool_2":
		j := pick(func(f wfield) bool { return f.wt == 0 && sch[f.num].kind == kBool })
		if j < 0 {
			return serialize(fs), false
		}
		fs[j].val = uint64(rapid.IntRange(2, 255).Draw(t, lb+"_v"))
		return serialize(fs), true
	case "drop_default_field":
		j := pick(func(f wfield) bool { return (f.wt == 0 && f.val == 0) || (f.wt == 2 && len(f.data) == 0) })
		if j < 0 {
			return serialize(fs), false
		}
		return serialize(append(fs[:j:j], fs[j+1:]...)), true
	case "drop_all_fields":
		if len(fs) == 0 {
			return nil, false
		}
		return []byte{}, true
	case "unknown_field":
		num := unknownFieldNumber(sch, rapid.IntRange(0, 7).Draw(t, lb+"_num"))
		at := rapid.IntRange(0, len(fs)).Draw(t, lb+"_at")
		nf := wfield{num: num, wt: 0, val: uint64(rapid.IntRange(0, 300).Draw(t, lb+"_val"))}
		if rapid.Bool().Draw(t, lb+"_bytes") {
			nf = wfield{num: num, wt: 2, data: rapid.SliceOfN(rapid.Byte(), 0, 3).Draw(t, lb+"_data")}
		}
		fs = append(fs[:at:at], append([]wfield{nf}, fs[at:]...)...)
		return serialize(fs), true
	}
	// the kinds of part (c), unchanged (tx_test.go); their draw labels are m<i>_..., i made unique through the label index
	idx, _ := strconv.Atoi(strings.TrimPrefix(lb, "e"))
	fs2, post := mutate(t, fs, kind, idx)
	b := serialize(fs2)
	if post != nil {
		b = post(b)
	}
	return b, true
}

// ---- oracles ------------------------------------------------------------------------------------------------------

type nestedVerdict struct {
	accepted bool
	lenient  bool   // accepted although Encode() of the accepted value differs from the input (documented leniency only)
	problem  string // violation
}

// blockNested: the oracle for NewBlock (see the head of the file).
func blockNested(s []byte) nestedVerdict {
	b, err := blockchain.NewBlock(s)
	if err != nil {
		if b != nil {
			return nestedVerdict{problem: fmt.Sprintf("NewBlock returned a block AND the error %v", err)}
		}
		return nestedVerdict{}
	}
	v := nestedVerdict{accepted: true}
	fail := func(format string, a ...any) nestedVerdict {
		v.problem = fmt.Sprintf(format, a...)
		return v
	}
	if b.Header == nil {
		return fail("NewBlock accepted the bytes and returned a block without header")
	}
	// independent split of the ACCEPTED bytes into the sub-bytes of header / transactions / assets
	fs, ok := parseWire(s, false)
	if !ok {
		return fail("NewBlock accepted bytes whose envelope does not even parse structurally")
	}
	if canon := serialize(fs); !bytes.Equal(canon, s) {
		return fail("NewBlock accepted a non-canonical block envelope (keys / length prefixes not in shortest form): canonical form of the same fields is %x", canon)
	}
	var hdrSub []byte
	var txSub, asSub [][]byte
	stage := 0
	for i, f := range fs {
		switch {
		case f.num == 1 && f.wt == 2 && i == 0:
			hdrSub = f.data
			stage = 1
		case f.num == 2 && f.wt == 2 && stage == 1:
			txSub = append(txSub, f.data)
		case f.num == 3 && f.wt == 2 && stage >= 1:
			asSub = append(asSub, f.data)
			stage = 2
		default:
			return fail("NewBlock accepted an envelope that is not header, transactions..., assets... in this order (field %d: number %d wire type %d)", i, f.num, f.wt)
		}
	}
	if stage == 0 {
		return fail("NewBlock accepted an envelope without header field")
	}
	if len(b.Transactions) != len(txSub) || len(b.Assets) != len(asSub) {
		return fail("NewBlock: %d transactions %d assets decoded, the accepted bytes hold %d / %d", len(b.Transactions), len(b.Assets), len(txSub), len(asSub))
	}
	// embedded transactions: the statement's claim, on exactly the accepted sub-bytes
	for k, tx := range b.Transactions {
		sub := txSub[k]
		if tx == nil {
			return fail("transaction %d of the accepted block is nil", k)
		}
		if want := sha(sub); !bytes.Equal(tx.ID, want) {
			return fail("transaction %d embedded in the accepted block: ID %x is not SHA-256 %x of the accepted transaction bytes %x (re-encodes to %x)", k, []byte(tx.ID), want, sub, tx.Encode())
		}
		if re := tx.Encode(); !bytes.Equal(re, sub) {
			return fail("transaction %d embedded in the accepted block: accepted bytes %x are not canonical, the decoded transaction encodes to %x", k, sub, re)
		}
		if !bytes.Equal(tx.Bytes(), sub) || tx.Size() != len(sub) {
			return fail("transaction %d embedded in the accepted block: Bytes() %x Size() %d, accepted bytes %x", k, tx.Bytes(), tx.Size(), sub)
		}
		if acc, problem := txImplication(sub); !acc || problem != "" {
			return fail("transaction %d embedded in the accepted block: the stand-alone strict decoder says accepted=%v %s for the same bytes %x", k, acc, problem, sub)
		}
	}
	// embedded assets: decoded strictly by the unchanged code
	for k, a := range b.Assets {
		sub := asSub[k]
		if a == nil {
			return fail("asset %d of the accepted block is nil", k)
		}
		// canonical by the package's own wire model: module(1, NFC string) data(2, bytes), each once, shortest varints
		if afs, ok := parseWire(sub, true); !ok || len(afs) != 2 || afs[0].num != 1 || afs[0].wt != 2 || afs[1].num != 2 || afs[1].wt != 2 ||
			!utf8.Valid(afs[0].data) || nfc(string(afs[0].data)) != string(afs[0].data) {
			return fail("asset %d embedded in the accepted block: accepted bytes %x are not canonical by the wire model (module(1) string, data(2) bytes, shortest varints, nothing else); the decoded asset encodes to %x", k, sub, a.Encode())
		}
		if re := a.Encode(); !bytes.Equal(re, sub) {
			return fail("asset %d embedded in the accepted block: accepted bytes %x are not canonical, the decoded asset encodes to %x", k, sub, re)
		}
		if sa, err := blockchain.NewBlockAsset(sub); err != nil || !bytes.Equal(sa.Encode(), sub) {
			return fail("asset %d embedded in the accepted block: stand-alone NewBlockAsset(%x): err=%v", k, sub, err)
		}
	}
	// header: lenient by the unchanged code; ID = hash of the re-encoding
	hdrEnc := b.Header.Encode()
	id := append([]byte{}, b.Header.ID...)
	if !bytes.Equal(id, sha(hdrEnc)) {
		return fail("block ID %x is not SHA-256 of the encoded header %x", id, hdrEnc)
	}
	v.lenient = !bytes.Equal(hdrEnc, hdrSub)
	sh, err := blockchain.NewBlockHeader(hdrSub)
	if err != nil || !bytes.Equal(sh.ID, id) || !bytes.Equal(sh.Encode(), hdrEnc) {
		return fail("NewBlock accepted header bytes %x (block ID %x) but stand-alone NewBlockHeader: err=%v header=%v", hdrSub, id, err, sh)
	}
	// Encode() of the accepted block == the accepted bytes (header: its re-encoding)
	fs[0].data = hdrEnc
	want := serialize(fs)
	enc := b.Encode()
	if !bytes.Equal(enc, want) {
		if v.lenient {
			return fail("Encode() of the accepted block differs from the accepted bytes in more than the leniently decoded header:\naccepted %x\nEncode() %x", s, enc)
		}
		return fail("Encode() of the accepted block is not the accepted byte string:\naccepted %x\nEncode() %x", s, enc)
	}
	// re-encoding: same IDs, same bytes
	again, err := blockchain.NewBlock(enc)
	if err != nil {
		return fail("NewBlock rejects the encoding %x of a block it accepted: %v", enc, err)
	}
	if !bytes.Equal(again.Header.ID, id) || !bytes.Equal(again.Encode(), enc) || len(again.Transactions) != len(b.Transactions) {
		return fail("re-encoding changed the block: ID %x -> %x", id, []byte(again.Header.ID))
	}
	for k := range again.Transactions {
		if !bytes.Equal(again.Transactions[k].ID, b.Transactions[k].ID) {
			return fail("re-encoding changed the ID of transaction %d: %x -> %x", k, []byte(b.Transactions[k].ID), []byte(again.Transactions[k].ID))
		}
	}
	b.Init()
	if !bytes.Equal(b.Header.ID, id) {
		return fail("Init() changed the block ID %x -> %x", id, []byte(b.Header.ID))
	}
	for k, tx := range b.Transactions {
		if !bytes.Equal(tx.ID, sha(txSub[k])) {
			return fail("Init() changed the ID of transaction %d to %x", k, []byte(tx.ID))
		}
	}
	return v
}

// strictNested: the oracle for DecodeStrict of any generated-codec type (nothing canonical demanded; see the head of the file).
func strictNested(tp reflect.Type, s []byte) nestedVerdict {
	x := newOf(tp)
	if err := x.DecodeStrict(s); err != nil {
		return nestedVerdict{}
	}
	v := nestedVerdict{accepted: true}
	re := x.Encode()
	if again := x.Encode(); !bytes.Equal(re, again) {
		v.problem = fmt.Sprintf("Encode of the accepted value not deterministic: %x then %x", re, again)
		return v
	}
	v.lenient = !bytes.Equal(re, s)
	y := newOf(tp)
	if err := y.DecodeStrict(re); err != nil {
		v.problem = fmt.Sprintf("DecodeStrict accepted the bytes, but rejects the encoding %x of the value it decoded: %v", re, err)
		return v
	}
	if d := equivalent(reflect.ValueOf(x).Elem(), reflect.ValueOf(y).Elem(), ""); d != "" {
		v.problem = "DecodeStrict(Encode(accepted value)) differs from the accepted value at " + d
		return v
	}
	re2 := y.Encode()
	if bytes.Equal(re2, re) {
		return v
	}
	// A leniently read message whose nested-message FIELD is absent is built by `new(T)`: the nested messages of that T are nil
	// pointers, which encode as "absent" and decode as "present, all default" (the identification of the statement; DESIGN 1.7).
	// The bytes then settle one round later; the values are equal under the identification (checked above).
	evid.R.Label("nested:absent_nested_message_refilled_on_reencoding", 1)
	z := newOf(tp)
	if err := z.DecodeStrict(re2); err != nil {
		v.problem = fmt.Sprintf("DecodeStrict rejects the second re-encoding %x: %v", re2, err)
		return v
	}
	if d := equivalent(reflect.ValueOf(y).Elem(), reflect.ValueOf(z).Elem(), ""); d != "" {
		v.problem = "second re-encoding decodes to a different value at " + d
		return v
	}
	if re3 := z.Encode(); !bytes.Equal(re3, re2) {
		v.problem = fmt.Sprintf("re-encoding does not settle: %x then %x then %x", re, re2, re3)
	}
	return v
}

// ---- one composite value, every element damaged once ----------------------------------------------------------------------

type nestedTarget struct {
	part   string // evidence kind
	root   string // label root ("Block")
	typ    reflect.Type
	oracle func([]byte) nestedVerdict
	cells  bool // full level x kind x outcome labels (the engine's strict entry points); else per kind and per type only
}

func outcomeOf(v nestedVerdict, changed, applicable bool) string {
	switch {
	case !applicable:
		return "not_applicable"
	case !changed:
		return "unchanged"
	case !v.accepted:
		return "rejected"
	case v.lenient:
		return "accepted_lenient"
	default:
		return "accepted_canonical_other_value"
	}
}

// nestedSweep damages every element of the canonical encoding once (at most maxElems elements, starting at a drawn offset), each
// with one mutation kind; the kinds rotate from a drawn start so that rapid's bias towards small draws does not starve any.
func nestedSweep(t *rapid.T, tg nestedTarget, canonical []byte, describe func() any, maxElems int) {
	if v := tg.oracle(canonical); !v.accepted || v.problem != "" || v.lenient {
		t.Fatalf("C08(h) %s: the canonical encoding is not accepted as it is (accepted=%v lenient=%v) %s\nbytes=%x\nvalue=%v", tg.root, v.accepted, v.lenient, v.problem, canonical, describe())
	}
	var paths []elemPath
	enumPaths(tg.typ, canonical, nil, &paths)
	k0 := rapid.IntRange(0, len(nestedKinds)-1).Draw(t, "kind0")
	p0 := 0
	n := len(paths)
	if n > maxElems {
		p0 = rapid.IntRange(0, n-1).Draw(t, "path0")
		n = maxElems
	}
	for i := 0; i < n; i++ {
		p := paths[(p0+i)%len(paths)]
		lb := fmt.Sprintf("e%d", i)
		var kind string
		var s []byte
		applicable := false
		// a kind the element has no field for (no string, no boolean, nothing default-valued) gives way to the next kind
		for try := 0; try < 4 && !applicable; try++ {
			kind = nestedKinds[(k0+i*5+try)%len(nestedKinds)]
			s = rewrap(tg.typ, canonical, p.steps, func(st reflect.Type, fs []wfield) []byte {
				var b []byte
				b, applicable = mutateElem(t, st, fs, kind, lb)
				return b
			})
		}
		changed := !bytes.Equal(s, canonical)
		v := tg.oracle(s)
		out := outcomeOf(v, changed, applicable)
		level := p.level(tg.root)
		labels := []string{tg.part}
		if tg.cells {
			labels = append(labels, "nested:"+level, "nested:"+level+"|"+kind+":"+out)
		} else {
			labels = append(labels, "nested_generic:type="+tg.root, fmt.Sprintf("nested_generic:depth=%d", len(p.steps)), "nested_generic:"+kind+":"+out)
		}
		evid.R.Case(tg.part+"|"+tg.root+"|"+string(s), applicable && changed && len(p.steps) > 0, func() any {
			return map[string]any{"part": "h", "entry": tg.root, "element": p.String(), "level": level, "mutation": kind, "outcome": out, "bytes": clipHex(s), "canonical": clipHex(canonical)}
		}, labels...)
		if !changed && !v.accepted {
			t.Fatalf("C08(h) %s: unchanged canonical bytes rejected", tg.root)
		}
		if v.problem != "" {
			t.Fatalf("C08(h) %s, element %s (level %s) damaged by %s, everything else canonical: %s\ninput bytes     = %x\ncanonical bytes = %x\nvalue = %v",
				tg.root, p.String(), level, kind, v.problem, s, canonical, describe())
		}
	}
}

var (
	blockType = reflect.TypeOf(blockchain.Block{})
	pscType   = reflect.TypeOf(consensus.EventPostSingleCommits{})
)

var blockTarget = nestedTarget{part: "nested_block", root: "Block", typ: blockType, oracle: blockNested, cells: true}
var pscTarget = nestedTarget{part: "nested_single_commits", root: "EventPostSingleCommits", typ: pscType, cells: true,
	oracle: func(s []byte) nestedVerdict { return strictNested(pscType, s) }}

func nestedBlockCase(t *rapid.T) {
	// like genBlockValue (lifecycle_test.go), but header and assets generated as depth-1 values: no 16 KiB blobs (every case
	// re-parses, re-hashes and re-encodes the block about fifty times; the length-prefix boundaries 127/128 and 255/256 stay)
	blk := &blockchain.Block{Header: genStruct(t, headerType, "blk.header", 1, newGenInfo()).Interface().(*blockchain.BlockHeader)}
	for j, n := 0, rapid.SampledFrom([]int{0, 1, 1, 2, 3}).Draw(t, "blk_ntx"); j < n; j++ {
		blk.Transactions = append(blk.Transactions, genTx(t, fmt.Sprintf("blk.tx%d", j)))
	}
	for j, n := 0, rapid.SampledFrom([]int{0, 0, 1, 2}).Draw(t, "blk_nassets"); j < n; j++ {
		blk.Assets = append(blk.Assets, genStruct(t, assetType, fmt.Sprintf("blk.asset%d", j), 1, newGenInfo()).Interface().(*blockchain.BlockAsset))
	}
	canonical := blk.Encode()
	// the envelope through the RawBlock codec (what NewBlock reads) is the same byte string
	rb := &blockchain.RawBlock{Header: blk.Header.Encode()}
	for _, tx := range blk.Transactions {
		rb.Transactions = append(rb.Transactions, tx.Encode())
	}
	for _, a := range blk.Assets {
		rb.Assets = append(rb.Assets, a.Encode())
	}
	if raw := rb.Encode(); !bytes.Equal(raw, canonical) {
		t.Fatalf("C08(h) Block.Encode() %x differs from RawBlock{parts}.Encode() %x", canonical, raw)
	}
	nestedSweep(t, blockTarget, canonical, func() any { return render(reflect.ValueOf(blk).Elem()) }, 8)
}

// TestNestedBlock: NewBlock on blocks in which exactly one element (envelope, header, aggregate commit, transaction i, asset j)
// is non-canonical.
func TestNestedBlock(t *testing.T) { checkScaled(t, 0.05, nestedBlockCase) }

func nestedPSCCase(t *rapid.T) {
	pv := genStruct(t, pscType, "psc", 0, newGenInfo())
	m := pv.Interface().(*consensus.EventPostSingleCommits)
	if len(m.SingleCommits) == 0 {
		m.SingleCommits = append(m.SingleCommits, genStruct(t, reflect.TypeOf(certificate.SingleCommit{}), "psc.c0", 1, newGenInfo()).Interface().(*certificate.SingleCommit))
	}
	canonical := m.Encode()
	nestedSweep(t, pscTarget, canonical, func() any { return render(pv.Elem()) }, 6)
}

// TestNestedSingleCommits: EventPostSingleCommits.DecodeStrict (singleCommitValidator, gossip) with one non-canonical element.
func TestNestedSingleCommits(t *testing.T) { checkScaled(t, 0.02, nestedPSCCase) }

// compositeTypes: every registered generated-codec type that has a nested message field.
func compositeTypes() []regEntry {
	var out []regEntry
	for _, e := range registry() {
		if hasNestedMsg(e.typ) {
			out = append(out, e)
		}
	}
	return out
}

// TestNestedAllTypes: DecodeStrict of every composite generated-codec type with one non-canonical element at any depth.
func TestNestedAllTypes(t *testing.T) {
	initKnown()
	comp := compositeTypes()
	if shard, _ := shardInfo(); shard == 0 {
		evid.R.Label("nested_generic:composite_types", int64(len(comp)))
	}
	for _, e := range comp {
		e := e
		tg := nestedTarget{part: "nested_generic", root: e.name, typ: e.typ, oracle: func(s []byte) nestedVerdict { return strictNested(e.typ, s) }}
		t.Run(strings.ReplaceAll(e.name, "/", "_"), func(t *testing.T) {
			checkScaled(t, 0.1/float64(len(comp)), func(rt *rapid.T) {
				pv := genStruct(rt, e.typ, e.name, 0, newGenInfo())
				canonical := pv.Interface().(strictCodec).Encode()
				nestedSweep(rt, tg, canonical, func() any { return render(pv.Elem()) }, 6)
			})
		})
	}
}

// ---- seed-independent enumeration -----------------------------------------------------------------------------------------

type detMut struct {
	kind string
	b    []byte
}

// detMutations: every position-exhaustive single mutation of one element (deterministic).
func detMutations(st reflect.Type, fs []wfield) []detMut {
	sch := schemaOf(st)
	cp := func() []wfield { return append([]wfield{}, fs...) }
	var out []detMut
	add := func(kind string, g []wfield) { out = append(out, detMut{kind, serialize(g)}) }
	for j, f := range fs {
		g := cp()
		add("drop_field", append(g[:j:j], g[j+1:]...))
		if (f.wt == 0 && f.val == 0) || (f.wt == 2 && len(f.data) == 0) {
			g = cp()
			add("drop_default_field", append(g[:j:j], g[j+1:]...))
		}
		if j+1 < len(fs) {
			g = cp()
			g[j], g[j+1] = g[j+1], g[j]
			add("swap_fields", g)
		}
		g = cp()
		add("dup_field", append(g[:j+1:j+1], append([]wfield{f}, g[j+1:]...)...))
		g = cp()
		g[j].keyPad = 1
		add("key_nonshortest", g)
		if f.wt == 2 {
			g = cp()
			g[j].lenPad = 1
			add("len_nonshortest", g)
			for _, adj := range []int{-1, 1} {
				g = cp()
				g[j].lenAdj = adj
				add("len_adjust", g)
			}
			g = cp()
			g[j].wt, g[j].val = 0, uint64(len(f.data))
			add("wiretype", g)
		} else {
			g = cp()
			g[j].valPad = 1
			add("val_nonshortest", g)
			g = cp()
			g[j].wt, g[j].data = 2, []byte{}
			add("wiretype", g)
			g = cp()
			g[j].raw = append(append(lebPad(uint64(f.num)<<3, 0), bytes.Repeat([]byte{0xff}, 9)...), 0x02)
			add("varint_overflow", g)
		}
		g = cp()
		g[j].num = f.num + 1
		add("fieldnumber", g)
		if isStringField(sch, f) {
			g = cp()
			g[j].data = append(append([]byte{}, f.data...), "é"...)
			add("string_nonNFC", g)
			g = cp()
			g[j].data = append(append([]byte{}, f.data...), 0xff)
			add("string_badUTF8", g)
		}
		if f.wt == 0 && sch[f.num].kind == kBool {
			g = cp()
			g[j].val = 2
			add("bool_2", g)
		}
		if f.wt == 0 {
			g = cp()
			g[j].val = 2
			add("bool_like_2", g)
		}
	}
	for at := 0; at <= len(fs); at++ {
		g := cp()
		add("unknown_field", append(g[:at:at], append([]wfield{{num: unknownFieldNumber(sch, 0), wt: 0, val: 0}}, g[at:]...)...))
	}
	add("trailing_bytes", append(cp(), wfield{raw: []byte{0x00}}))
	add("trailing_field", append(cp(), wfield{num: unknownFieldNumber(sch, 1), wt: 2, data: []byte{}}))
	if len(fs) > 0 {
		out = append(out, detMut{"drop_all_fields", []byte{}})
		whole := serialize(fs)
		out = append(out, detMut{"truncate", whole[:len(whole)-1]})
		out = append(out, detMut{"splice", append(append([]byte{}, whole[:len(whole)/2]...), whole[len(whole)/2+1:]...)})
	}
	return out
}

func failNested(t *testing.T, entry string, s []byte, format string, a ...any) {
	p := evid.R.FailCase("nested", map[string]any{"kind": "nested_bytes", "entry": entry, "hex": hex.EncodeToString(s)})
	t.Fatalf("C08(h) "+format+"\n(case written to %s)", append(a, p)...)
}

func nestedEnumerate(t *testing.T, tg nestedTarget, canonical []byte) {
	if v := tg.oracle(canonical); !v.accepted || v.problem != "" || v.lenient {
		failNested(t, tg.root, canonical, "%s: the canonical encoding is not accepted as it is (accepted=%v lenient=%v) %s\nbytes=%x", tg.root, v.accepted, v.lenient, v.problem, canonical)
	}
	var paths []elemPath
	enumPaths(tg.typ, canonical, nil, &paths)
	paths = append(paths[1:], paths[0]) // nested elements first, the envelope itself last
	for _, p := range paths {
		var muts []detMut
		rewrap(tg.typ, canonical, p.steps, func(st reflect.Type, fs []wfield) []byte {
			muts = detMutations(st, fs)
			return nil
		})
		level := p.level(tg.root)
		for _, m := range muts {
			m := m
			s := rewrap(tg.typ, canonical, p.steps, func(reflect.Type, []wfield) []byte { return m.b })
			v := tg.oracle(s)
			out := outcomeOf(v, !bytes.Equal(s, canonical), true)
			evid.R.Case(tg.part+"_fixed|"+tg.root+"|"+string(s), len(p.steps) > 0, nil,
				tg.part+"_fixed", "nested_fixed:"+level+":"+out, "nested_fixed|"+m.kind+":"+out)
			if v.problem != "" {
				failNested(t, tg.root, s, "%s, element %s (level %s) damaged by %s, everything else canonical: %s\ninput bytes     = %x\ncanonical bytes = %x",
					tg.root, p.String(), level, m.kind, v.problem, s, canonical)
			}
		}
	}
}

func fixedBlocks() [][]byte {
	hdr := func(h uint32) *blockchain.BlockHeader {
		return &blockchain.BlockHeader{Version: 2, Timestamp: 100, Height: h, PreviousBlockID: bytes.Repeat([]byte{1}, 32), GeneratorAddress: bytes.Repeat([]byte{2}, 20),
			TransactionRoot: bytes.Repeat([]byte{3}, 32), AssetRoot: bytes.Repeat([]byte{4}, 32), EventRoot: bytes.Repeat([]byte{5}, 32), StateRoot: bytes.Repeat([]byte{6}, 32),
			MaxHeightPrevoted: 9, MaxHeightGenerated: 0, ImpliesMaxPrevotes: true, ValidatorsHash: bytes.Repeat([]byte{7}, 32),
			AggregateCommit: &blockchain.AggregateCommit{Height: 8, AggregationBits: []byte{0xf0}, CertificateSignature: bytes.Repeat([]byte{9}, 96)},
			Signature:       bytes.Repeat([]byte{8}, 64)}
	}
	// the transaction of the seeded demonstration: empty params, encoded as 32 00
	tx0 := &blockchain.Transaction{Module: "token", Command: "transfer", Nonce: 7, Fee: 1000, SenderPublicKey: bytes.Repeat([]byte{0xab}, 32), Params: []byte{},
		Signatures: []codec.Hex{bytes.Repeat([]byte{0xcd}, 64)}}
	tx1 := &blockchain.Transaction{Module: "pos", Command: "stake", Nonce: 0, Fee: 1 << 40, SenderPublicKey: bytes.Repeat([]byte{0x11}, 32), Params: []byte{1, 2, 3},
		Signatures: []codec.Hex{bytes.Repeat([]byte{0x22}, 64), {}}}
	as0 := &blockchain.BlockAsset{Module: "auth", Data: []byte{}}
	as1 := &blockchain.BlockAsset{Module: "random", Data: bytes.Repeat([]byte{0x33}, 16)}
	full := &blockchain.Block{Header: hdr(10), Transactions: []*blockchain.Transaction{tx0, tx1}, Assets: []*blockchain.BlockAsset{as0, as1}}
	// a block whose header is all defaults (every header field is a "default field") with one all-default transaction and asset
	empty := &blockchain.Block{Header: &blockchain.BlockHeader{AggregateCommit: &blockchain.AggregateCommit{}}, Transactions: []*blockchain.Transaction{{}},
		Assets: []*blockchain.BlockAsset{{}}}
	return [][]byte{full.Encode(), empty.Encode()}
}

// TestNestedFixed: two fixed blocks and one fixed gossip message, EVERY element, every position-exhaustive single mutation
// (seed independent, every tier). Contains the seeded demonstration (transaction 0 of the block without its empty params field).
func TestNestedFixed(t *testing.T) {
	for _, b := range fixedBlocks() {
		nestedEnumerate(t, blockTarget, b)
	}
	// two single commits: one all-default, one with every field at its maximum
	nestedEnumerate(t, pscTarget, fixedValue(pscType, "max", 0).Interface().(strictCodec).Encode())
}

// Replay of a saved enumeration failure: VERIF_REPLAY_CASE=<json with kind nested_bytes>.
func TestReplayNestedBytes(t *testing.T) {
	p := os.Getenv("VERIF_REPLAY_CASE")
	if p == "" {
		t.Skip("no replay case")
	}
	raw, err := os.ReadFile(p)
	if err != nil {
		t.Fatal(err)
	}
	var c struct{ Kind, Entry, Hex string }
	if err := jsonUnmarshal(raw, &c); err != nil || c.Kind != "nested_bytes" {
		t.Skip("not a nested_bytes case")
	}
	s, err := hex.DecodeString(c.Hex)
	if err != nil {
		t.Fatal(err)
	}
	var v nestedVerdict
	switch c.Entry {
	case "Block":
		v = blockNested(s)
	case "EventPostSingleCommits":
		v = strictNested(pscType, s)
	default:
		t.Skipf("unknown entry %q", c.Entry)
	}
	if v.problem != "" {
		t.Fatalf("C08(h) %s: %s\nbytes = %x", c.Entry, v.problem, s)
	}
}
