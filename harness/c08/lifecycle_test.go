package c08

// Part (g): object life cycles of the types that carry a derived ID / size (blockchain.Transaction: ID + size,
// blockchain.BlockHeader: ID, blockchain.Block: header + transactions; certificate.Certificate / SingleCommit: block ID taken
// from a header). Parts (a)-(d) only look at FRESH values (a new struct per decode, blocks passed through NewBlock before they
// are stored). Here ONE struct lives through a generated sequence of operations - Init, a field is modified, Copy() and the
// copy modified, Decode / DecodeStrict / json.Unmarshal of OTHER bytes into the same struct, Sign, Encode, Validate, Freeze,
// store into a real in-memory chain database and cold load - and after every step that computes the derived values
// (Init, Sign, NewTransaction, NewBlockHeader..., Block.Init) the statement's claims are checked on the state reached:
//
//	ID == SHA-256(Encode())   computed by the harness from the bytes the harness encodes (stdlib sha256),
//	Size() == len(Encode()), Bytes() == Encode()   (Transaction),
//	two values with different encodings never carry the same ID,
//	an ID obtained before the store is the ID of the loaded object and a valid lookup key (cold DataAccess),
//	DecodeStrict(s) == nil  =>  Encode() == s and, after Init, ID == SHA-256(s)   also when the target struct was used before,
//	Decode(Encode(v)) into a used struct re-encodes to Encode(v).
//
// NOT demanded (contract of the unchanged code: "Init must be called"): a field modified or bytes decoded WITHOUT a following
// Init may leave the former ID on the struct; the harness tracks this ("dirty") and calls Init before it looks at an ID.

import (
	"bytes"
	"encoding/json"
	"fmt"
	"reflect"
	"strings"
	"sync"
	"testing"

	"github.com/LiskHQ/lisk-engine/pkg/blockchain"
	"github.com/LiskHQ/lisk-engine/pkg/codec"
	"github.com/LiskHQ/lisk-engine/pkg/consensus/certificate"
	"github.com/LiskHQ/lisk-engine/pkg/crypto"
	"github.com/LiskHQ/lisk-engine/pkg/db"
	"github.com/LiskHQ/lisk-engine/pkg/trie/rmt"
	"pgregory.net/rapid"

	"verifharness/evid"
)

// ---- history, oracles shared by the three life cycles ---------------------------------------------------------------

type lifeHist struct {
	typ     string
	initial string
	steps   []string
	ops     map[string]int64
	ids     map[string]string // kind+ID -> encoding it was computed from (distinctness oracle)
	reinit  int               // derived values recomputed on a struct that carried an ID computed from ANOTHER encoding
	stores  int
	store   *lifeStore
}

func newLifeHist(typ string) *lifeHist {
	return &lifeHist{typ: typ, ops: map[string]int64{}, ids: map[string]string{}}
}

func (h *lifeHist) op(kind, format string, a ...any) {
	h.ops[kind]++
	h.steps = append(h.steps, kind+": "+fmt.Sprintf(format, a...))
}

func (h *lifeHist) note(format string, a ...any) {
	h.steps = append(h.steps, "    "+fmt.Sprintf(format, a...))
}

type fataler interface {
	Fatalf(format string, args ...any)
}

func (h *lifeHist) fatal(t fataler, format string, a ...any) {
	t.Fatalf("C08(g) %s life cycle (initial state: %s): %s\nhistory (%d steps):\n  %s", h.typ, h.initial, fmt.Sprintf(format, a...), len(h.steps), strings.Join(h.steps, "\n  "))
}

// distinct: an ID belongs to one encoding only.
func (h *lifeHist) distinct(t fataler, kind string, id, enc []byte) {
	k := kind + "|" + string(id)
	if old, ok := h.ids[k]; ok && old != string(enc) {
		h.fatal(t, "two different %ss carry the same ID %x:\n  encoding A %s\n  encoding B %s", kind, id, clipHex([]byte(old)), clipHex(enc))
	}
	h.ids[k] = string(enc)
}

// txFresh is what must hold right after the derived values of a transaction were computed.
func (h *lifeHist) txFresh(t fataler, tx *blockchain.Transaction, how string) []byte {
	enc := tx.Encode()
	want := sha(enc)
	if !bytes.Equal(tx.ID, want) {
		h.fatal(t, "%s: transaction ID %x is not SHA-256 %x of its encoding %s", how, []byte(tx.ID), want, clipHex(enc))
	}
	if tx.Size() != len(enc) {
		h.fatal(t, "%s: transaction Size() = %d but the encoding has %d bytes (%s)", how, tx.Size(), len(enc), clipHex(enc))
	}
	if b := tx.Bytes(); !bytes.Equal(b, enc) {
		h.fatal(t, "%s: Bytes() %s != Encode() %s", how, clipHex(b), clipHex(enc))
	}
	h.distinct(t, "transaction", tx.ID, enc)
	return enc
}

// hdrFresh is what must hold right after the ID of a block header was computed.
func (h *lifeHist) hdrFresh(t fataler, hd *blockchain.BlockHeader, how string) []byte {
	enc := hd.Encode()
	want := sha(enc)
	if !bytes.Equal(hd.ID, want) {
		h.fatal(t, "%s: block ID %x is not SHA-256 %x of the encoded header %s", how, []byte(hd.ID), want, clipHex(enc))
	}
	h.distinct(t, "block header", hd.ID, enc)
	return enc
}

// ---- store / cold load ------------------------------------------------------------------------------------------------

type lifeSnap struct {
	height uint32
	id     []byte
	hdrEnc []byte
	blkEnc []byte
	txIDs  [][]byte
	txEncs [][]byte
}

type lifeStore struct {
	db     *db.DB
	chain  *blockchain.Chain
	next   uint32
	opened bool
	snaps  []*lifeSnap
}

func (h *lifeHist) close() {
	if h.store != nil && h.store.db != nil {
		h.store.db.Close()
	}
}

// nextHeight opens the database of this history if needed and returns the height the next stored block must have.
func (h *lifeHist) nextHeight(t *rapid.T) uint32 {
	if h.store == nil {
		database, err := db.NewInMemoryDB()
		if err != nil {
			t.Fatalf("harness: in-memory db: %v", err)
		}
		base := rapid.SampledFrom([]uint32{0, 1, 2, 1000, 1 << 31}).Draw(t, "storeBaseHeight")
		h.store = &lifeStore{db: database, next: base,
			chain: blockchain.NewChain(&blockchain.ChainConfig{ChainID: []byte{0, 0, 0, 0}, MaxTransactionsLength: 15 * 1024, MaxBlockCache: 3, KeepEventsForHeights: -1})}
	}
	return h.store.next
}

// storeBlock: blk is the very object that lived through the history (NOT passed through NewBlock); its derived values were
// computed by the step before (Block.Init / Init of every part) and have been checked. It is added to the chain and everything
// stored so far in this history is read back through a fresh DataAccess (nothing cached).
func (h *lifeHist) storeBlock(t fataler, blk *blockchain.Block, how string) {
	s := h.store
	if s == nil || blk.Header.Height != s.next {
		t.Fatalf("harness: storeBlock without nextHeight")
	}
	snap := &lifeSnap{height: blk.Header.Height, id: append([]byte{}, blk.Header.ID...), hdrEnc: blk.Header.Encode(), blkEnc: blk.Encode()}
	if !bytes.Equal(snap.id, sha(snap.hdrEnc)) {
		h.fatal(t, "%s: block ID %x before the store is not SHA-256 of the encoded header %s", how, snap.id, clipHex(snap.hdrEnc))
	}
	for j, tx := range blk.Transactions {
		enc := tx.Encode()
		if !bytes.Equal(tx.ID, sha(enc)) {
			h.fatal(t, "%s: transaction %d ID %x before the store is not SHA-256 %x of its encoding %s", how, j, []byte(tx.ID), sha(enc), clipHex(enc))
		}
		snap.txIDs = append(snap.txIDs, append([]byte{}, tx.ID...))
		snap.txEncs = append(snap.txEncs, enc)
	}
	if !s.opened {
		s.chain.Init(blk, s.db)
		s.opened = true
	}
	if err := s.chain.AddBlock(s.db.NewBatch(), blk, []*blockchain.Event{}, 0, false); err != nil {
		t.Fatalf("C08(g) harness: AddBlock(height %d): %v", blk.Header.Height, err)
	}
	if !bytes.Equal(blk.Header.ID, snap.id) || !bytes.Equal(blk.Encode(), snap.blkEnc) {
		h.fatal(t, "%s: AddBlock modified the block: id %x -> %x", how, snap.id, []byte(blk.Header.ID))
	}
	s.next++
	s.snaps = append(s.snaps, snap)
	h.stores++
	h.note("stored at height %d: block %x with %d transaction(s) %s", snap.height, snap.id, len(snap.txIDs), hexList(snap.txIDs))

	cold := blockchain.NewDataAccess(s.db, 1, 1)
	for _, sn := range s.snaps {
		where := fmt.Sprintf("%s; cold load of the block stored at height %d", how, sn.height)
		hd, err := cold.GetBlockHeader(sn.id)
		if err != nil {
			h.fatal(t, "%s: GetBlockHeader(%x), the ID the block had before the store: %v", where, sn.id, err)
		}
		if !bytes.Equal(hd.ID, sn.id) || !bytes.Equal(hd.Encode(), sn.hdrEnc) {
			h.fatal(t, "%s: block header changed by store/load: id %x -> %x\nstored %s\nloaded %s", where, sn.id, []byte(hd.ID), clipHex(sn.hdrEnc), clipHex(hd.Encode()))
		}
		for _, get := range []string{"GetBlock", "GetBlockByHeight"} {
			var b *blockchain.Block
			if get == "GetBlock" {
				b, err = cold.GetBlock(sn.id)
			} else {
				b, err = cold.GetBlockByHeight(sn.height)
			}
			if err != nil {
				h.fatal(t, "%s: %s (block ID before the store %x, transaction IDs before the store %s): %v", where, get, sn.id, hexList(sn.txIDs), err)
			}
			if !bytes.Equal(b.Header.ID, sn.id) {
				h.fatal(t, "%s: %s: block ID changed by store/load: %x -> %x", where, get, sn.id, []byte(b.Header.ID))
			}
			if len(b.Transactions) != len(sn.txIDs) {
				h.fatal(t, "%s: %s: %d transactions loaded, %d stored", where, get, len(b.Transactions), len(sn.txIDs))
			}
			for j, tx := range b.Transactions {
				if !bytes.Equal(tx.ID, sn.txIDs[j]) {
					h.fatal(t, "%s: %s: transaction %d ID changed by store/load: before the store %x, loaded %x (bytes %s)", where, get, j, sn.txIDs[j], []byte(tx.ID), clipHex(tx.Bytes()))
				}
				if !bytes.Equal(tx.Bytes(), sn.txEncs[j]) || tx.Size() != len(sn.txEncs[j]) {
					h.fatal(t, "%s: %s: transaction %d (%x) changed by store/load:\nstored %s\nloaded %s (size %d)", where, get, j, sn.txIDs[j], clipHex(sn.txEncs[j]), clipHex(tx.Bytes()), tx.Size())
				}
			}
			if enc := b.Encode(); !bytes.Equal(enc, sn.blkEnc) {
				h.fatal(t, "%s: %s: block encoding changed by store/load:\nstored %s\nloaded %s", where, get, clipHex(sn.blkEnc), clipHex(enc))
			}
		}
		for j, id := range sn.txIDs {
			tx, err := cold.GetTransaction(id)
			if err != nil {
				h.fatal(t, "%s: GetTransaction(%x), the ID transaction %d had before the store: %v", where, id, j, err)
			}
			if !bytes.Equal(tx.ID, id) || !bytes.Equal(tx.Bytes(), sn.txEncs[j]) {
				h.fatal(t, "%s: GetTransaction(%x) returns another transaction: id %x\nstored %s\nloaded %s", where, id, []byte(tx.ID), clipHex(sn.txEncs[j]), clipHex(tx.Bytes()))
			}
		}
	}
}

func hexList(bs [][]byte) string {
	out := make([]string, len(bs))
	for i, b := range bs {
		out[i] = fmt.Sprintf("%x", b)
	}
	return "[" + strings.Join(out, " ") + "]"
}

func short(b []byte) string {
	if len(b) > 24 {
		return fmt.Sprintf("%x…(%dB)", b[:24], len(b))
	}
	return fmt.Sprintf("%x", b)
}

// register writes the evidence record of a finished history.
func (h *lifeHist) register(final []byte) {
	labels := []string{"life:" + h.typ, "life", "life:" + h.typ + ":initial=" + h.initial}
	if h.reinit > 0 {
		labels = append(labels, "life:"+h.typ+":recomputed_after_change")
	}
	if h.stores > 0 {
		labels = append(labels, "life:"+h.typ+":stored_and_loaded")
	}
	for k, n := range h.ops {
		evid.R.Label("life_op:"+h.typ+":"+k, n)
	}
	evid.R.Label("life:"+h.typ+":recomputations_after_change", int64(h.reinit))
	// non-trivial: at least once the derived values were recomputed on a struct that carried an ID of another encoding
	evid.R.Case("life|"+h.typ+"|"+h.initial+"|"+strings.Join(h.steps, "\n")+"|"+string(final), h.reinit > 0, func() any {
		return map[string]any{"part": "g", "type": h.typ, "initial": h.initial, "steps": h.steps, "finalEncoding": clipHex(final), "recomputedAfterChange": h.reinit, "stores": h.stores}
	}, labels...)
}

// ---- keys --------------------------------------------------------------------------------------------------------------

var (
	lifeKeysOnce sync.Once
	lifeEdPriv   []byte
	lifeBLSPriv  []byte
	lifeChainID  = []byte{4, 0, 0, 1}
)

func lifeKeys() {
	lifeKeysOnce.Do(func() {
		_, priv, err := crypto.GetKeys("verif c08 life cycle")
		if err != nil {
			panic(err)
		}
		lifeEdPriv = priv
		lifeBLSPriv = crypto.BLSKeyGen([]byte("verif c08 life cycle: thirty-two bytes at least")).PrivateKey
	})
}

// ---- Transaction ---------------------------------------------------------------------------------------------------------

var txMutKinds = []string{"module", "command", "nonce_inc", "nonce", "fee_add", "fee", "pk", "pk_flip", "params", "params_flip", "params_append",
	"sig_append", "sig_drop", "sig_replace", "sig_flip", "sigs_nil"}

func flipBit(t *rapid.T, b []byte, label string) bool {
	if len(b) == 0 {
		return false
	}
	i := rapid.IntRange(0, len(b)-1).Draw(t, label+"_pos")
	b[i] ^= 1 << uint(rapid.IntRange(0, 7).Draw(t, label+"_bit"))
	return true
}

// mutateTx modifies one drawn field of the transaction (replacement, arithmetic, or IN PLACE inside a byte slice).
func mutateTx(t *rapid.T, tx *blockchain.Transaction, label string) string {
	kind := rapid.SampledFrom(txMutKinds).Draw(t, label+"_field")
	rnd := func(n int, l string) []byte { return rapid.SliceOfN(rapid.Byte(), n, n).Draw(t, label+l) }
	switch kind {
	case "module":
		tx.Module = rapid.SampledFrom([]string{"token", "pos", "auth", "", "e\u0301", "interoperability"}).Draw(t, label+"_v") + rapid.SampledFrom([]string{"", "2", "X"}).Draw(t, label+"_sfx")
	case "command":
		tx.Command = rapid.SampledFrom([]string{"transfer", "stake", "", "registerValidator", "\u212b"}).Draw(t, label+"_v") + rapid.SampledFrom([]string{"", "1", "Y"}).Draw(t, label+"_sfx")
	case "nonce_inc":
		tx.Nonce++
	case "nonce":
		tx.Nonce = genU64(t, label+"_v")
	case "fee_add":
		tx.Fee += uint64(rapid.IntRange(1, 1000).Draw(t, label+"_v"))
	case "fee":
		tx.Fee = genU64(t, label+"_v")
	case "pk":
		tx.SenderPublicKey = rnd(32, "_v")
	case "pk_flip":
		if !flipBit(t, tx.SenderPublicKey, label) {
			tx.SenderPublicKey = rnd(32, "_v")
		}
	case "params":
		tx.Params = genBytes(t, label+"_v", nil, false)
	case "params_flip":
		if !flipBit(t, tx.Params, label) {
			tx.Params = rnd(8, "_v")
		}
	case "params_append":
		tx.Params = append(tx.Params, rnd(rapid.IntRange(1, 4).Draw(t, label+"_n"), "_v")...)
	case "sig_append":
		tx.Signatures = append(tx.Signatures, rnd(64, "_v"))
	case "sig_drop":
		if len(tx.Signatures) > 0 {
			tx.Signatures = tx.Signatures[:len(tx.Signatures)-1]
		} else {
			tx.Signatures = append(tx.Signatures, rnd(64, "_v"))
		}
	case "sig_replace":
		if len(tx.Signatures) > 0 {
			tx.Signatures[rapid.IntRange(0, len(tx.Signatures)-1).Draw(t, label+"_i")] = rnd(64, "_v")
		} else {
			tx.Signatures = []codec.Hex{rnd(64, "_v")}
		}
	case "sig_flip":
		done := false
		if len(tx.Signatures) > 0 {
			done = flipBit(t, tx.Signatures[rapid.IntRange(0, len(tx.Signatures)-1).Draw(t, label+"_i")], label)
		}
		if !done {
			tx.Signatures = append(tx.Signatures, rnd(64, "_v"))
		}
	case "sigs_nil":
		if len(tx.Signatures) == 0 {
			tx.Signatures = []codec.Hex{rnd(64, "_v")}
		} else {
			tx.Signatures = nil
		}
	}
	return kind
}

// otherTxBytes: bytes to be decoded into a struct in use: mostly the canonical encoding of ANOTHER generated transaction
// (other != nil), else such an encoding damaged (truncated / trailing bytes / emptied) so that decoding may stop half way.
func otherTxBytes(t *rapid.T, label string) (b []byte, other *blockchain.Transaction, kind string) {
	o := genTx(t, label+"_other")
	b = o.Encode()
	switch rapid.IntRange(0, 9).Draw(t, label+"_damage") {
	case 0:
		if len(b) > 0 {
			return append([]byte{}, b[:rapid.IntRange(0, len(b)-1).Draw(t, label+"_cut")]...), nil, "truncated"
		}
	case 1:
		return append(append([]byte{}, b...), rapid.SliceOfN(rapid.Byte(), 1, 3).Draw(t, label+"_extra")...), nil, "trailing"
	case 2:
		return []byte{}, nil, "empty"
	}
	return b, o, "canonical"
}

// foreignID: what a client may put into the "id" member of a JSON request (Init has to override it).
func foreignID(t *rapid.T, label string, own []byte) []byte {
	switch rapid.IntRange(0, 3).Draw(t, label+"_jsonid") {
	case 0:
		return nil
	case 1:
		return own
	case 2:
		return rapid.SliceOfN(rapid.Byte(), 32, 32).Draw(t, label+"_jsonidv")
	default:
		return rapid.SliceOfN(rapid.Byte(), 0, 40).Draw(t, label+"_jsonidv")
	}
}

var idUnknown = []byte("\x00id not computed from an encoding known to the harness")

type txLife struct {
	h     *lifeHist
	tx    *blockchain.Transaction
	idEnc []byte // the encoding the present ID was computed from; nil = the struct carries no ID yet
	dirty bool   // the content may have changed since the derived values were computed
}

// computed is called right after the engine computed the derived values (Init, Block.Init, ...).
func (l *txLife) computed(t fataler, how string, before []byte) []byte {
	enc := l.h.txFresh(t, l.tx, how)
	if before != nil && !bytes.Equal(before, enc) {
		l.h.fatal(t, "%s changed the encoding of the transaction:\nbefore %s\nafter  %s", how, clipHex(before), clipHex(enc))
	}
	if l.idEnc != nil && !bytes.Equal(l.idEnc, enc) {
		l.h.reinit++
	}
	l.idEnc, l.dirty = enc, false
	return enc
}

func (l *txLife) init(t fataler, how string) []byte {
	before := l.tx.Encode()
	l.tx.Init()
	return l.computed(t, how, before)
}

var lifeTxOps = []string{"init", "mutate_init", "mutate_init", "mutate_init", "mutate", "copy_mutate_init", "copy_mutate_init", "decode_init", "decode_init",
	"decode_strict_init", "decode_strict_init", "decode", "json_init", "encode", "validate", "freeze", "store"}

func lifeTxInitial(t *rapid.T, h *lifeHist) *txLife {
	l := &txLife{h: h}
	v := genTx(t, "initial")
	switch rapid.SampledFrom([]string{"literal", "literal+Init", "literal+Init", "NewTransaction", "NewTransaction", "json.Unmarshal+Init", "Copy of an initialised one"}).Draw(t, "initialState") {
	case "literal":
		h.initial = "literal"
		l.tx, l.dirty = v, true
	case "literal+Init":
		h.initial = "literal+Init"
		l.tx = v
		l.init(t, "Init of a struct literal")
	case "NewTransaction":
		h.initial = "NewTransaction"
		raw := v.Encode()
		tx, err := blockchain.NewTransaction(raw)
		if err != nil {
			h.fatal(t, "NewTransaction rejects the transaction's own encoding %s: %v", clipHex(raw), err)
		}
		l.tx = tx
		if enc := l.computed(t, "NewTransaction", nil); !bytes.Equal(enc, raw) {
			h.fatal(t, "NewTransaction(s).Encode() = %s, s = %s", clipHex(enc), clipHex(raw))
		}
	case "json.Unmarshal+Init":
		h.initial = "json.Unmarshal+Init"
		v.ID = foreignID(t, "initial", sha(v.Encode()))
		js, err := json.Marshal(v)
		l.tx = &blockchain.Transaction{}
		if err == nil {
			err = json.Unmarshal(js, l.tx)
		}
		if err != nil {
			evid.R.Label("life:Transaction:json_skipped", 1)
			l.tx = v
		}
		if len(l.tx.ID) > 0 {
			l.idEnc = idUnknown
		}
		l.init(t, "Init after json.Unmarshal (HandlePostTransaction)")
	default:
		h.initial = "Copy"
		v.Init()
		l.tx = v.Copy()
		l.computed(t, "Copy() of an initialised transaction", v.Encode())
	}
	h.op("initial", "%s %v", h.initial, renderTxShort(l.tx))
	return l
}

func renderTxShort(tx *blockchain.Transaction) string {
	return fmt.Sprintf("{module %+q command %+q nonce %d fee %d pk %s params %s sigs %d id %s}", tx.Module, tx.Command, tx.Nonce, tx.Fee, short(tx.SenderPublicKey), short(tx.Params), len(tx.Signatures), short(tx.ID))
}

func errStr(err error) string {
	if err == nil {
		return "<nil>"
	}
	return err.Error()
}

// sameVerdict: both accept or both reject (the messages quote strings, which may differ in their Unicode normal form).
func sameVerdict(a, b string) bool { return (a == "<nil>") == (b == "<nil>") }

func lifeTxCase(t *rapid.T) {
	lifeKeys()
	h := newLifeHist("Transaction")
	defer h.close()
	l := lifeTxInitial(t, h)
	n := rapid.IntRange(2, 8).Draw(t, "nops")
	for i := 0; i < n; i++ {
		lb := fmt.Sprintf("op%d", i)
		op := rapid.SampledFrom(lifeTxOps).Draw(t, lb)
		switch op {
		case "init":
			h.op(op, "")
			l.init(t, "Init")
		case "mutate", "mutate_init":
			before := l.tx.Encode()
			kind := mutateTx(t, l.tx, lb)
			h.op(op, "%s -> %s", kind, renderTxShort(l.tx))
			l.dirty = true
			if !bytes.Equal(before, l.tx.Encode()) {
				evid.R.Label("life:Transaction:mutation_changed_encoding", 1)
			}
			if op == "mutate_init" {
				l.init(t, "Init after the field change "+kind)
			}
		case "copy_mutate_init":
			lifeTxCopy(t, l, lb)
		case "decode", "decode_init", "decode_strict_init":
			b, other, kind := otherTxBytes(t, lb)
			strict := op == "decode_strict_init"
			var err error
			if strict {
				err = l.tx.DecodeStrict(b)
			} else {
				err = l.tx.Decode(b)
			}
			h.op(op, "%s bytes %s into the struct in use: err=%v", kind, clipHex(b), err)
			l.dirty = true
			if other != nil {
				if err != nil {
					h.fatal(t, "decoding a transaction's own encoding %s into a used struct fails: %v", clipHex(b), err)
				}
				if re := l.tx.Encode(); !bytes.Equal(re, b) {
					h.fatal(t, "Decode(Encode(v)) into a used struct re-encodes differently:\nEncode(v)  %s\nre-encoded %s", clipHex(b), clipHex(re))
				}
			}
			if strict && err == nil {
				if re := l.tx.Encode(); !bytes.Equal(re, b) {
					h.fatal(t, "DecodeStrict into a used struct accepted bytes that are not its canonical encoding:\naccepted   %s\nre-encoded %s", clipHex(b), clipHex(re))
				}
			}
			if op != "decode" {
				l.init(t, "Init after "+strings.TrimSuffix(op, "_init")+" into the struct in use")
				if strict && err == nil && !bytes.Equal(l.tx.ID, sha(b)) {
					h.fatal(t, "transaction ID %x is not SHA-256 %x of exactly the bytes DecodeStrict accepted (%s)", []byte(l.tx.ID), sha(b), clipHex(b))
				}
			}
		case "json_init":
			o := genTx(t, lb+"_other")
			if rapid.Bool().Draw(t, lb+"_otherInit") {
				o.Init()
			}
			o.ID = foreignID(t, lb, sha(o.Encode()))
			js, err := json.Marshal(o)
			if err == nil {
				err = json.Unmarshal(js, l.tx)
			}
			h.op(op, "json.Unmarshal(%s) into the struct in use: err=%v", clipStr(string(js)), err)
			l.dirty = true
			if err != nil {
				evid.R.Label("life:Transaction:json_skipped", 1)
			}
			if len(l.tx.ID) > 0 {
				l.idEnc = idUnknown // the ID now comes from the JSON text
			} else {
				l.idEnc = nil
			}
			l.init(t, "Init after json.Unmarshal into the struct in use")
		case "encode":
			h.op(op, "")
			id0 := append([]byte{}, l.tx.ID...)
			e1, e2, e3 := l.tx.Encode(), l.tx.Bytes(), l.tx.Encode()
			if !bytes.Equal(e1, e2) || !bytes.Equal(e1, e3) {
				h.fatal(t, "Encode/Bytes not deterministic: %s / %s / %s", clipHex(e1), clipHex(e2), clipHex(e3))
			}
			if !bytes.Equal(id0, l.tx.ID) {
				h.fatal(t, "Encode changed the ID %x -> %x", id0, []byte(l.tx.ID))
			}
		case "validate":
			// Validate is a function of the content: the struct that lived gives what a freshly decoded one gives
			fresh := &blockchain.Transaction{}
			enc := l.tx.Encode()
			if err := fresh.DecodeStrict(enc); err != nil {
				h.fatal(t, "DecodeStrict rejects the transaction's own encoding %s: %v", clipHex(enc), err)
			}
			a, b := errStr(l.tx.Validate()), errStr(fresh.Validate())
			h.op(op, "%s", a)
			if l.tx.Module != fresh.Module || l.tx.Command != fresh.Command {
				// a string that is not in NFC: the encoding normalises it, Validate looks at the Go string - two representations of
				// the same value (the statement identifies them), nothing about the life of the struct
				evid.R.Label("life:Transaction:validate_not_compared(nonNFC string)", 1)
				break
			}
			if !sameVerdict(a, b) {
				h.fatal(t, "Validate() of the struct in use: %s, of a fresh decode of its encoding: %s", a, b)
			}
			if a == "<nil>" {
				evid.R.Label("life:Transaction:validate_ok", 1)
			}
		case "freeze":
			if l.dirty {
				l.init(t, "Init before Freeze")
			}
			h.op(op, "")
			fz := l.tx.Freeze()
			enc := l.tx.Encode()
			if fz.Size() != len(enc) {
				h.fatal(t, "Freeze().Size() = %d, the encoding has %d bytes", fz.Size(), len(enc))
			}
			if withID, ok := fz.(interface{ ID() []byte }); ok && !bytes.Equal(withID.ID(), sha(enc)) {
				h.fatal(t, "Freeze().ID() = %x is not SHA-256 %x of the encoding", withID.ID(), sha(enc))
			}
		case "store":
			lifeTxStore(t, l, lb)
		}
	}
	// every history ends in a checked state
	h.op("final_init", "")
	final := l.init(t, "final Init")
	h.register(final)
}

func clipStr(s string) string {
	if len(s) > 300 {
		return s[:300] + "…"
	}
	return s
}

// lifeTxCopy: Copy(), modify the copy, Init the copy. The original must be unaffected, the copy's derived values must belong
// to the copy's encoding, and when the two encodings differ the IDs differ. One time in three the history goes on with the copy.
func lifeTxCopy(t *rapid.T, l *txLife, lb string) {
	h := l.h
	origEnc := l.tx.Encode()
	origID := append([]byte{}, l.tx.ID...)
	origSize := l.tx.Size()
	c := l.tx.Copy()
	cl := &txLife{h: h, tx: c, idEnc: l.idEnc, dirty: l.dirty}
	if enc := c.Encode(); !bytes.Equal(enc, origEnc) {
		h.fatal(t, "Copy() encodes differently from the original:\noriginal %s\ncopy     %s", clipHex(origEnc), clipHex(enc))
	}
	if !l.dirty {
		// the original's derived values are current, so the copy (same content) is a transaction the engine holds as is
		h.txFresh(t, c, "Copy() of an initialised transaction")
	}
	kind := mutateTx(t, c, lb+"_copy")
	h.op("copy_mutate_init", "Copy(), %s on the copy -> %s, Init of the copy", kind, renderTxShort(c))
	c.Init()
	cenc := cl.computed(t, "Init of a modified Copy() ("+kind+")", c.Encode())
	if enc := l.tx.Encode(); !bytes.Equal(enc, origEnc) {
		h.fatal(t, "modifying a Copy() (%s) changed the original:\nbefore %s\nafter  %s", kind, clipHex(origEnc), clipHex(enc))
	}
	if !bytes.Equal(l.tx.ID, origID) || l.tx.Size() != origSize {
		h.fatal(t, "modifying and initialising a Copy() changed the original's ID/size: %x/%d -> %x/%d", origID, origSize, []byte(l.tx.ID), l.tx.Size())
	}
	if !l.dirty && !bytes.Equal(cenc, origEnc) && bytes.Equal(c.ID, l.tx.ID) {
		h.fatal(t, "two different transactions carry the same ID %x:\noriginal %s\ncopy (%s) %s", origID, clipHex(origEnc), kind, clipHex(cenc))
	}
	if rapid.IntRange(0, 2).Draw(t, lb+"_continueWithCopy") == 0 {
		h.note("the history continues with the copy")
		*l = *cl
	}
}

// lifeTxStore: the transaction in use goes into a block together with (drawn) a Copy() with the next nonce and a new
// transaction; Block.Init (HandlePostBlock, genesis) computes all derived values; store; cold load.
func lifeTxStore(t *rapid.T, l *txLife, lb string) {
	h := l.h
	hd := genStruct(t, headerType, lb+".header", 0, newGenInfo()).Interface().(*blockchain.BlockHeader)
	hd.Height = h.nextHeight(t)
	txs := []*blockchain.Transaction{l.tx}
	extra := rapid.SampledFrom([]string{"", "", "copy_next_nonce", "copy_next_nonce", "new", "copy_next_nonce+new", "same_twice"}).Draw(t, lb+"_extra")
	var next *blockchain.Transaction
	if strings.Contains(extra, "copy_next_nonce") {
		next = l.tx.Copy()
		next.Nonce++
		txs = append(txs, next)
	}
	if strings.Contains(extra, "new") {
		txs = append(txs, genTx(t, lb+".new"))
	}
	if extra == "same_twice" {
		txs = append(txs, l.tx)
	}
	if rapid.Bool().Draw(t, lb+"_order") && len(txs) > 1 {
		txs[0], txs[len(txs)-1] = txs[len(txs)-1], txs[0]
	}
	var assets []*blockchain.BlockAsset
	if rapid.Bool().Draw(t, lb+"_asset") {
		assets = append(assets, genStruct(t, assetType, lb+".asset", 0, newGenInfo()).Interface().(*blockchain.BlockAsset))
	}
	blk := &blockchain.Block{Header: hd, Transactions: txs, Assets: assets}
	before := l.tx.Encode()
	h.op("store", "block{height %d, transactions: the one in use%s} -> Block.Init -> AddBlock -> cold load", hd.Height, map[bool]string{true: " + " + extra, false: ""}[extra != ""])
	blk.Init()
	l.computed(t, "Block.Init of a block holding the transaction in use", before)
	h.hdrFresh(t, hd, "Block.Init")
	for j, tx := range txs {
		enc := h.txFresh(t, tx, fmt.Sprintf("Block.Init, transaction %d of the block (%s)", j, extra))
		if tx == next && bytes.Equal(tx.ID, l.tx.ID) {
			h.fatal(t, "the Copy() with the next nonce carries the ID %x of the original after Block.Init: %s", []byte(tx.ID), clipHex(enc))
		}
	}
	if next != nil {
		h.reinit++ // the copy carried the ID of the original's encoding
	}
	h.storeBlock(t, blk, "Block.Init + AddBlock")
}

func TestLifeCycleTransaction(t *testing.T) { checkScaled(t, 0.05, lifeTxCase) }

// ---- BlockHeader (+ Certificate / SingleCommit, which take the block ID from a header) ----------------------------------

var (
	hdrTagged     []int // indexes of the tagged fields of BlockHeader
	hdrBytesField []int // those of kind bytes
	hdrFieldsOnce sync.Once
)

func hdrFields() {
	hdrFieldsOnce.Do(func() {
		for i := 0; i < headerType.NumField(); i++ {
			sf := headerType.Field(i)
			if !hasTag(sf) {
				continue
			}
			hdrTagged = append(hdrTagged, i)
			if kindOf(sf.Type) == kBytes {
				hdrBytesField = append(hdrBytesField, i)
			}
		}
	})
}

// mutateHeader modifies one drawn tagged field of the header: regenerated, incremented (height) or a bit flipped in place.
func mutateHeader(t *rapid.T, hd *blockchain.BlockHeader, label string) string {
	hdrFields()
	sv := reflect.ValueOf(hd).Elem()
	switch rapid.IntRange(0, 9).Draw(t, label+"_how") {
	case 0:
		hd.Timestamp++
		return "Timestamp++"
	case 1, 2:
		i := rapid.SampledFrom(hdrBytesField).Draw(t, label+"_field")
		if flipBit(t, sv.Field(i).Bytes(), label) {
			return headerType.Field(i).Name + " bit flipped in place"
		}
		sv.Field(i).SetBytes(rapid.SliceOfN(rapid.Byte(), 32, 32).Draw(t, label+"_v"))
		return headerType.Field(i).Name + " set"
	case 3:
		if hd.AggregateCommit != nil {
			hd.AggregateCommit.Height++
			return "AggregateCommit.Height++"
		}
	}
	i := rapid.SampledFrom(hdrTagged).Draw(t, label+"_field")
	sf := headerType.Field(i)
	genField(t, settable(sv, i), kindOf(sf.Type), label+"."+sf.Name, 0, newGenInfo())
	return sf.Name + " regenerated"
}

func genHeader(t *rapid.T, label string) *blockchain.BlockHeader {
	return genStruct(t, headerType, label, 0, newGenInfo()).Interface().(*blockchain.BlockHeader)
}

// jsonableHeader: the JSON form of a header needs a generator address of 20 bytes (or none).
func jsonableHeader(t *rapid.T, hd *blockchain.BlockHeader, label string) {
	if n := len(hd.GeneratorAddress); n != 0 && n != 20 {
		hd.GeneratorAddress = rapid.SliceOfN(rapid.Byte(), 20, 20).Draw(t, label+"_addr")
	}
}

// otherHeaderBytes: the canonical encoding of another generated header (other != nil), such an encoding with fields removed
// (only the lenient decoder accepts it), or damaged.
func otherHeaderBytes(t *rapid.T, label string) (b []byte, other *blockchain.BlockHeader, kind string) {
	o := genHeader(t, label+"_other")
	b = o.Encode()
	switch rapid.IntRange(0, 9).Draw(t, label+"_damage") {
	case 0:
		if len(b) > 0 {
			return append([]byte{}, b[:rapid.IntRange(0, len(b)-1).Draw(t, label+"_cut")]...), nil, "truncated"
		}
	case 1:
		return append(append([]byte{}, b...), rapid.SliceOfN(rapid.Byte(), 1, 3).Draw(t, label+"_extra")...), nil, "trailing"
	case 2, 3:
		if fields, ok := splitFields(b); ok && len(fields) > 0 {
			var kept []byte
			for k, f := range fields {
				if rapid.IntRange(0, 3).Draw(t, fmt.Sprintf("%s_drop%d", label, k)) == 0 {
					continue
				}
				kept = append(kept, f...)
			}
			return kept, nil, "fields_missing"
		}
	}
	return b, o, "canonical"
}

type hdrLife struct {
	h     *lifeHist
	hd    *blockchain.BlockHeader
	idEnc []byte
	dirty bool
}

func (l *hdrLife) computed(t fataler, how string, before []byte) []byte {
	enc := l.h.hdrFresh(t, l.hd, how)
	if before != nil && !bytes.Equal(before, enc) {
		l.h.fatal(t, "%s changed the encoding of the header:\nbefore %s\nafter  %s", how, clipHex(before), clipHex(enc))
	}
	if l.idEnc != nil && !bytes.Equal(l.idEnc, enc) {
		l.h.reinit++
	}
	l.idEnc, l.dirty = enc, false
	return enc
}

func (l *hdrLife) init(t fataler, how string) []byte {
	before := l.hd.Encode()
	l.hd.Init()
	return l.computed(t, how, before)
}

func (l *hdrLife) sign(t fataler, how string) []byte {
	l.hd.Sign(lifeChainID, lifeEdPriv) // sets the signature and computes the ID
	return l.computed(t, how, nil)
}

func renderHdrShort(hd *blockchain.BlockHeader) string {
	return fmt.Sprintf("{version %d timestamp %d height %d prev %s gen %s sig %s id %s}", hd.Version, hd.Timestamp, hd.Height, short(hd.PreviousBlockID), short(hd.GeneratorAddress), short(hd.Signature), short(hd.ID))
}

func lifeHdrInitial(t *rapid.T, h *lifeHist) *hdrLife {
	l := &hdrLife{h: h}
	v := genHeader(t, "initial")
	h.initial = rapid.SampledFrom([]string{"literal", "literal+Init", "literal+Sign", "NewBlockHeader", "NewBlockHeader", "NewBlockHeaderWithValues", "json.Unmarshal+Init"}).Draw(t, "initialState")
	switch h.initial {
	case "literal":
		l.hd, l.dirty = v, true
	case "literal+Init":
		l.hd = v
		l.init(t, "Init of a struct literal")
	case "literal+Sign":
		l.hd = v
		l.sign(t, "Sign of a struct literal")
	case "NewBlockHeader":
		raw, _, kind := otherHeaderBytes(t, "initialBytes")
		hd, err := blockchain.NewBlockHeader(raw)
		if err != nil {
			if kind == "canonical" {
				h.fatal(t, "NewBlockHeader rejects a header's own encoding %s: %v", clipHex(raw), err)
			}
			raw = v.Encode()
			if hd, err = blockchain.NewBlockHeader(raw); err != nil {
				h.fatal(t, "NewBlockHeader rejects a header's own encoding %s: %v", clipHex(raw), err)
			}
		} else {
			h.initial += "(" + kind + " bytes)"
		}
		l.hd = hd
		l.computed(t, "NewBlockHeader", nil)
	case "NewBlockHeaderWithValues":
		hd, err := blockchain.NewBlockHeaderWithValues(v.Version, v.Timestamp, v.Height, v.PreviousBlockID, v.AssetRoot, v.StateRoot, v.MaxHeightPrevoted, v.MaxHeightGenerated,
			v.TransactionRoot, v.GeneratorAddress, v.ValidatorsHash, v.AggregateCommit, v.Signature)
		if err != nil {
			t.Fatalf("harness: NewBlockHeaderWithValues: %v", err)
		}
		l.hd = hd
		l.computed(t, "NewBlockHeaderWithValues", nil)
	default:
		jsonableHeader(t, v, "initial")
		v.ID = foreignID(t, "initial", sha(v.Encode()))
		js, err := json.Marshal(v)
		l.hd = &blockchain.BlockHeader{}
		if err == nil {
			err = json.Unmarshal(js, l.hd)
		}
		if err != nil || l.hd.AggregateCommit == nil {
			evid.R.Label("life:BlockHeader:json_skipped", 1)
			l.hd = v
		}
		if len(l.hd.ID) > 0 {
			l.idEnc = idUnknown
		}
		l.init(t, "Init after json.Unmarshal")
	}
	h.op("initial", "%s %s", h.initial, renderHdrShort(l.hd))
	return l
}

var lifeHdrOps = []string{"init", "mutate_init", "mutate_init", "mutate_init", "mutate", "sign", "sign", "decode_init", "decode_init", "decode_strict_init", "decode",
	"json_init", "encode", "validate", "readonly", "certificate", "certificate", "single_commit", "store"}

func lifeHdrCase(t *rapid.T) {
	lifeKeys()
	h := newLifeHist("BlockHeader")
	defer h.close()
	l := lifeHdrInitial(t, h)
	n := rapid.IntRange(2, 8).Draw(t, "nops")
	for i := 0; i < n; i++ {
		lb := fmt.Sprintf("op%d", i)
		op := rapid.SampledFrom(lifeHdrOps).Draw(t, lb)
		switch op {
		case "init":
			h.op(op, "")
			l.init(t, "Init")
		case "mutate", "mutate_init":
			before := l.hd.Encode()
			kind := mutateHeader(t, l.hd, lb)
			h.op(op, "%s -> %s", kind, renderHdrShort(l.hd))
			l.dirty = true
			if !bytes.Equal(before, l.hd.Encode()) {
				evid.R.Label("life:BlockHeader:mutation_changed_encoding", 1)
			}
			if op == "mutate_init" {
				l.init(t, "Init after the field change "+kind)
			}
		case "sign":
			h.op(op, "Sign(chainID, key)")
			signing := l.hd.SigningBytes()
			l.sign(t, "Sign")
			if !bytes.Equal(signing, l.hd.SigningBytes()) {
				h.fatal(t, "Sign changed the signing bytes of the header")
			}
		case "decode", "decode_init", "decode_strict_init":
			b, other, kind := otherHeaderBytes(t, lb)
			strict := op == "decode_strict_init"
			var err error
			if strict {
				err = l.hd.DecodeStrict(b)
			} else {
				err = l.hd.Decode(b)
			}
			h.op(op, "%s bytes %s into the struct in use: err=%v", kind, clipHex(b), err)
			l.dirty = true
			if other != nil {
				if err != nil {
					h.fatal(t, "decoding a header's own encoding %s into a used struct fails: %v", clipHex(b), err)
				}
				if re := l.hd.Encode(); !bytes.Equal(re, b) {
					h.fatal(t, "Decode(Encode(v)) into a used header struct re-encodes differently:\nEncode(v)  %s\nre-encoded %s", clipHex(b), clipHex(re))
				}
			}
			if op != "decode" {
				l.init(t, "Init after "+strings.TrimSuffix(op, "_init")+" into the struct in use")
			}
		case "json_init":
			o := genHeader(t, lb+"_other")
			jsonableHeader(t, o, lb)
			o.ID = foreignID(t, lb, sha(o.Encode()))
			js, err := json.Marshal(o)
			if err == nil {
				err = json.Unmarshal(js, l.hd)
			}
			h.op(op, "json.Unmarshal(%s) into the struct in use: err=%v", clipStr(string(js)), err)
			l.dirty = true
			if err != nil {
				evid.R.Label("life:BlockHeader:json_skipped", 1)
			}
			if len(l.hd.ID) > 0 {
				l.idEnc = idUnknown
			} else {
				l.idEnc = nil
			}
			l.init(t, "Init after json.Unmarshal into the struct in use")
		case "encode":
			h.op(op, "")
			id0 := append([]byte{}, l.hd.ID...)
			e1, e2 := l.hd.Encode(), l.hd.Encode()
			if !bytes.Equal(e1, e2) || !bytes.Equal(id0, l.hd.ID) {
				h.fatal(t, "Encode not deterministic or changed the ID: %s / %s, id %x -> %x", clipHex(e1), clipHex(e2), id0, []byte(l.hd.ID))
			}
		case "validate":
			fresh := &blockchain.BlockHeader{}
			enc := l.hd.Encode()
			if err := fresh.DecodeStrict(enc); err != nil {
				h.fatal(t, "DecodeStrict rejects the header's own encoding %s: %v", clipHex(enc), err)
			}
			a, b := errStr(l.hd.Validate()), errStr(fresh.Validate())
			h.op(op, "%s", clipStr(a))
			if !sameVerdict(a, b) {
				h.fatal(t, "Validate() of the struct in use: %s, of a fresh decode of its encoding: %s", a, b)
			}
		case "readonly", "certificate", "single_commit":
			if l.dirty {
				l.init(t, "Init before "+op)
			}
			h.op(op, "")
			want := sha(l.hd.Encode())
			switch op {
			case "readonly":
				if id := l.hd.Readonly().ID(); !bytes.Equal(id, want) {
					h.fatal(t, "Readonly().ID() = %x is not SHA-256 %x of the encoded header", id, want)
				}
			case "certificate":
				c := certificate.NewCertificateFromBlock(l.hd)
				d := &certificate.Certificate{}
				if err := d.DecodeStrict(c.Encode()); err != nil {
					h.fatal(t, "Certificate.DecodeStrict of its own encoding: %v", err)
				}
				if !bytes.Equal(c.BlockID, want) || !bytes.Equal(d.BlockID, want) {
					h.fatal(t, "NewCertificateFromBlock: block ID %x (after encode/decode %x) is not SHA-256 %x of the encoded header", []byte(c.BlockID), []byte(d.BlockID), want)
				}
				flipBit(t, c.BlockID, lb+"_cert") // the certificate holds a copy
				if !bytes.Equal(l.hd.ID, want) {
					h.fatal(t, "changing the block ID of a certificate changed the header's ID")
				}
			case "single_commit":
				sc := certificate.NewSingleCommit(l.hd, bytes.Repeat([]byte{7}, 20), lifeChainID, lifeBLSPriv)
				d := &certificate.SingleCommit{}
				if err := d.DecodeStrict(sc.Encode()); err != nil {
					h.fatal(t, "SingleCommit.DecodeStrict of its own encoding: %v", err)
				}
				if !bytes.Equal(sc.BlockID(), want) || !bytes.Equal(d.BlockID(), want) {
					h.fatal(t, "NewSingleCommit: block ID %x (after encode/decode %x) is not SHA-256 %x of the encoded header", []byte(sc.BlockID()), []byte(d.BlockID()), want)
				}
			}
		case "store":
			l.hd.Height = h.nextHeight(t) // a field change ...
			l.dirty = true
			var txs []*blockchain.Transaction
			for j, ntx := 0, rapid.SampledFrom([]int{0, 0, 1, 2}).Draw(t, lb+"_ntx"); j < ntx; j++ {
				txs = append(txs, genTx(t, fmt.Sprintf("%s.tx%d", lb, j)))
			}
			blk := &blockchain.Block{Header: l.hd, Transactions: txs}
			how := rapid.SampledFrom([]string{"Block.Init", "Init", "Sign"}).Draw(t, lb+"_how")
			h.op(op, "Height = %d, %s, block{the header in use, %d new transactions} -> AddBlock -> cold load", l.hd.Height, how, len(txs))
			switch how { // ... followed by one of the three ways the engine computes the ID
			case "Block.Init":
				before := l.hd.Encode()
				blk.Init()
				l.computed(t, "Block.Init of a block holding the header in use", before)
			case "Init":
				l.init(t, "Init after the height was set")
				blk.Init()
			default:
				l.sign(t, "Sign after the height was set")
				blk.Init()
			}
			l.computed(t, how+" before the store", nil)
			for j, tx := range txs {
				h.txFresh(t, tx, fmt.Sprintf("Block.Init, new transaction %d", j))
			}
			h.storeBlock(t, blk, how+" + AddBlock")
		}
	}
	h.op("final_init", "")
	final := l.init(t, "final Init")
	h.register(final)
}

func TestLifeCycleBlockHeader(t *testing.T) { checkScaled(t, 0.025, lifeHdrCase) }

// ---- Block ------------------------------------------------------------------------------------------------------------------

type blkLife struct {
	h       *lifeHist
	b       *blockchain.Block
	dirty   bool
	hdrEnc  []byte                             // encoding the header's ID was computed from (nil: none)
	txIDEnc map[*blockchain.Transaction][]byte // the same per transaction object (looked up only, never iterated)
}

// computed: right after Block.Init / NewBlock.
func (l *blkLife) computed(t fataler, how string, before []byte) []byte {
	h := l.h
	enc := l.b.Encode()
	if before != nil && !bytes.Equal(before, enc) {
		h.fatal(t, "%s changed the encoding of the block:\nbefore %s\nafter  %s", how, clipHex(before), clipHex(enc))
	}
	henc := h.hdrFresh(t, l.b.Header, how)
	if l.hdrEnc != nil && !bytes.Equal(l.hdrEnc, henc) {
		h.reinit++
	}
	l.hdrEnc = henc
	seen := map[*blockchain.Transaction][]byte{}
	for j, tx := range l.b.Transactions {
		tenc := h.txFresh(t, tx, fmt.Sprintf("%s, transaction %d of the block", how, j))
		if old, ok := l.txIDEnc[tx]; ok && !bytes.Equal(old, tenc) {
			h.reinit++
		}
		seen[tx] = tenc
	}
	l.txIDEnc = seen
	l.dirty = false
	return enc
}

func (l *blkLife) init(t fataler, how string) []byte {
	before := l.b.Encode()
	l.b.Init()
	return l.computed(t, how, before)
}

// carriesID notes that a transaction object put into the block carries an ID computed from the encoding enc.
func (l *blkLife) carriesID(tx *blockchain.Transaction, enc []byte) {
	if l.txIDEnc == nil {
		l.txIDEnc = map[*blockchain.Transaction][]byte{}
	}
	l.txIDEnc[tx] = enc
}

func genBlockValue(t *rapid.T, label string) *blockchain.Block {
	b := &blockchain.Block{Header: genHeader(t, label+".header")}
	for j, n := 0, rapid.SampledFrom([]int{0, 1, 1, 2, 3}).Draw(t, label+"_ntx"); j < n; j++ {
		b.Transactions = append(b.Transactions, genTx(t, fmt.Sprintf("%s.tx%d", label, j)))
	}
	for j, n := 0, rapid.SampledFrom([]int{0, 0, 1, 2}).Draw(t, label+"_nassets"); j < n; j++ {
		b.Assets = append(b.Assets, genStruct(t, assetType, fmt.Sprintf("%s.asset%d", label, j), 0, newGenInfo()).Interface().(*blockchain.BlockAsset))
	}
	return b
}

func renderBlkShort(b *blockchain.Block) string {
	ids := make([]string, len(b.Transactions))
	for i, tx := range b.Transactions {
		ids[i] = fmt.Sprintf("%s(nonce %d)", short(tx.ID), tx.Nonce)
	}
	return fmt.Sprintf("{header %s, transactions %v, %d assets}", renderHdrShort(b.Header), ids, len(b.Assets))
}

var blkMutKinds = []string{"header", "header", "tx", "tx", "tx", "add_tx", "add_copy_next_nonce", "add_copy_next_nonce", "remove_tx", "asset", "make_valid"}

// mutateBlock modifies the block in use: a header field, a field of one of its transactions, a transaction added (a new one
// without ID, or a Copy() of one it holds with the next nonce - which carries the original's ID and size), removed, an asset
// changed, or everything brought into the shape Block.Validate accepts (roots computed by the harness).
func mutateBlock(t *rapid.T, l *blkLife, label string) (kind, desc string) {
	b := l.b
	kind = rapid.SampledFrom(blkMutKinds).Draw(t, label+"_what")
	pickTx := func() int { return rapid.IntRange(0, len(b.Transactions)-1).Draw(t, label+"_txi") }
	switch kind {
	case "header":
		return "header", "header: " + mutateHeader(t, b.Header, label)
	case "tx":
		if len(b.Transactions) > 0 {
			i := pickTx()
			return "tx", fmt.Sprintf("transaction %d: %s", i, mutateTx(t, b.Transactions[i], label))
		}
		fallthrough
	case "add_tx":
		b.Transactions = append(b.Transactions, genTx(t, label+".newtx"))
		return "add_tx", "new transaction appended"
	case "add_copy_next_nonce":
		if len(b.Transactions) == 0 {
			b.Transactions = append(b.Transactions, genTx(t, label+".newtx"))
			return "add_tx", "new transaction appended"
		}
		i := pickTx()
		orig := b.Transactions[i]
		c := orig.Copy()
		c.Nonce++
		if enc, ok := l.txIDEnc[orig]; ok {
			l.carriesID(c, enc)
		}
		if rapid.Bool().Draw(t, label+"_front") {
			b.Transactions = append([]*blockchain.Transaction{c}, b.Transactions...)
		} else {
			b.Transactions = append(b.Transactions, c)
		}
		return "add_copy_next_nonce", fmt.Sprintf("Copy() of transaction %d with the next nonce added", i)
	case "remove_tx":
		if len(b.Transactions) > 0 {
			i := pickTx()
			b.Transactions = append(b.Transactions[:i:i], b.Transactions[i+1:]...)
			return "remove_tx", fmt.Sprintf("transaction %d removed", i)
		}
		return "header", "header: " + mutateHeader(t, b.Header, label)
	case "asset":
		if len(b.Assets) > 0 && rapid.Bool().Draw(t, label+"_assetmod") {
			a := b.Assets[rapid.IntRange(0, len(b.Assets)-1).Draw(t, label+"_ai")]
			if !flipBit(t, a.Data, label) {
				a.Data = []byte{1}
			}
			return "asset", "asset data changed in place"
		}
		b.Assets = append(b.Assets, genStruct(t, assetType, label+".newasset", 0, newGenInfo()).Interface().(*blockchain.BlockAsset))
		return "asset", "asset appended"
	default: // make_valid
		for i, tx := range b.Transactions {
			if tx.Validate() != nil {
				b.Transactions[i] = genTxShape(t, fmt.Sprintf("%s.validtx%d", label, i), 1)
			}
		}
		b.Assets = nil
		for j, n := 0, rapid.IntRange(0, 2).Draw(t, label+"_nassets"); j < n; j++ {
			b.Assets = append(b.Assets, &blockchain.BlockAsset{Module: []string{"auth", "pos"}[j], Data: rapid.SliceOfN(rapid.Byte(), 0, 8).Draw(t, fmt.Sprintf("%s_asset%d", label, j))})
		}
		ids := make([][]byte, len(b.Transactions))
		for i, tx := range b.Transactions {
			ids[i] = sha(tx.Encode()) // the IDs the transactions must get, computed by the harness
		}
		hd := b.Header
		hd.TransactionRoot = rmt.CalculateRoot(ids)
		hd.AssetRoot = blockchain.BlockAssets(b.Assets).GetRoot()
		hd.PreviousBlockID = rapid.SliceOfN(rapid.Byte(), 32, 32).Draw(t, label+"_prev")
		hd.GeneratorAddress = rapid.SliceOfN(rapid.Byte(), 20, 20).Draw(t, label+"_gen")
		hd.Signature = rapid.SliceOfN(rapid.Byte(), 64, 64).Draw(t, label+"_sig")
		return "make_valid", "made valid (transactions valid-shaped, roots from harness-computed IDs)"
	}
}

func otherBlockBytes(t *rapid.T, label string) (b []byte, other *blockchain.Block, kind string) {
	o := genBlockValue(t, label+"_other")
	b = o.Encode()
	switch rapid.IntRange(0, 9).Draw(t, label+"_damage") {
	case 0:
		if len(b) > 0 {
			return append([]byte{}, b[:rapid.IntRange(0, len(b)-1).Draw(t, label+"_cut")]...), nil, "truncated"
		}
	case 1:
		return append(append([]byte{}, b...), rapid.SliceOfN(rapid.Byte(), 1, 3).Draw(t, label+"_extra")...), nil, "trailing"
	}
	return b, o, "canonical"
}

// jsonBlock: JSON text of another generated block; the "id" members are what a client may send.
func jsonBlock(t *rapid.T, label string) ([]byte, error) {
	o := genBlockValue(t, label+"_other")
	jsonableHeader(t, o.Header, label)
	o.Header.ID = foreignID(t, label+"_h", sha(o.Header.Encode()))
	for i, tx := range o.Transactions {
		tx.ID = foreignID(t, fmt.Sprintf("%s_t%d", label, i), sha(tx.Encode()))
	}
	return json.Marshal(o)
}

// sound: every nested pointer is present (the domain guard of part (a); json "null" or a failed decode could leave one nil).
func soundBlock(b *blockchain.Block) bool {
	if b == nil || b.Header == nil || b.Header.AggregateCommit == nil {
		return false
	}
	for _, tx := range b.Transactions {
		if tx == nil {
			return false
		}
	}
	for _, a := range b.Assets {
		if a == nil {
			return false
		}
	}
	return true
}

func lifeBlkInitial(t *rapid.T, h *lifeHist) *blkLife {
	l := &blkLife{h: h}
	v := genBlockValue(t, "initial")
	h.initial = rapid.SampledFrom([]string{"literal", "literal+Init", "literal+Init", "NewBlock", "NewBlock", "Decode+Init", "json.Unmarshal+Init"}).Draw(t, "initialState")
	switch h.initial {
	case "literal":
		l.b, l.dirty = v, true
	case "literal+Init":
		l.b = v
		l.init(t, "Block.Init of a struct literal")
	case "NewBlock":
		raw := v.Encode()
		b, err := blockchain.NewBlock(raw)
		if err != nil {
			h.fatal(t, "NewBlock rejects the block's own encoding %s: %v", clipHex(raw), err)
		}
		l.b = b
		l.computed(t, "NewBlock", raw)
	case "Decode+Init":
		raw := v.Encode()
		l.b = &blockchain.Block{}
		if err := l.b.Decode(raw); err != nil {
			h.fatal(t, "Block.Decode rejects the block's own encoding %s: %v", clipHex(raw), err)
		}
		l.init(t, "Block.Init after Decode")
	default:
		js, err := jsonBlock(t, "initial")
		l.b = &blockchain.Block{}
		if err == nil {
			err = json.Unmarshal(js, l.b)
		}
		if err != nil || !soundBlock(l.b) {
			evid.R.Label("life:Block:json_skipped", 1)
			l.b = v
		} else {
			l.hdrEnc = idUnknown
			for _, tx := range l.b.Transactions {
				if len(tx.ID) > 0 {
					l.carriesID(tx, idUnknown)
				}
			}
		}
		l.init(t, "Block.Init after json.Unmarshal (HandlePostBlock)")
	}
	h.op("initial", "%s %s", h.initial, renderBlkShort(l.b))
	return l
}

var lifeBlkOps = []string{"init", "mutate_init", "mutate_init", "mutate_init", "mutate_init", "mutate", "decode_init", "decode_strict_init", "json_init", "encode_newblock", "validate", "validate", "store", "store"}

func lifeBlkCase(t *rapid.T) {
	lifeKeys()
	h := newLifeHist("Block")
	defer h.close()
	l := lifeBlkInitial(t, h)
	n := rapid.IntRange(2, 7).Draw(t, "nops")
	for i := 0; i < n; i++ {
		lb := fmt.Sprintf("op%d", i)
		op := rapid.SampledFrom(lifeBlkOps).Draw(t, lb)
		switch op {
		case "init":
			h.op(op, "")
			l.init(t, "Block.Init")
		case "mutate", "mutate_init":
			before := l.b.Encode()
			mk, kind := mutateBlock(t, l, lb)
			h.op(op, "%s -> %s", kind, renderBlkShort(l.b))
			l.dirty = true
			if !bytes.Equal(before, l.b.Encode()) {
				evid.R.Label("life:Block:mutation_changed_encoding", 1)
			}
			evid.R.Label("life_op:Block:mutation="+mk, 1)
			if op == "mutate_init" {
				l.init(t, "Block.Init after: "+kind)
				if mk == "make_valid" {
					lifeBlkValidate(t, l)
				}
			}
		case "decode_init", "decode_strict_init":
			raw, other, kind := otherBlockBytes(t, lb)
			keep := *l.b
			var err error
			if op == "decode_strict_init" {
				err = l.b.DecodeStrict(raw)
			} else {
				err = l.b.Decode(raw)
			}
			h.op(op, "%s bytes %s into the struct in use: err=%v", kind, clipHex(raw), err)
			if !soundBlock(l.b) {
				*l.b = keep // a failed decode left a nested pointer nil: outside the domain, the former content stays
				evid.R.Label("life:Block:decode_left_nil_pointer(restored)", 1)
			}
			l.dirty = true
			if other != nil {
				if err != nil {
					h.fatal(t, "decoding a block's own encoding %s into a used struct fails: %v", clipHex(raw), err)
				}
				if re := l.b.Encode(); !bytes.Equal(re, raw) {
					h.fatal(t, "Decode(Encode(v)) into a used block struct re-encodes differently:\nEncode(v)  %s\nre-encoded %s", clipHex(raw), clipHex(re))
				}
			}
			l.init(t, "Block.Init after "+strings.TrimSuffix(op, "_init")+" into the struct in use")
		case "json_init":
			js, err := jsonBlock(t, lb)
			keep := *l.b
			keepHdr := *l.b.Header
			if err == nil {
				err = json.Unmarshal(js, l.b)
			}
			h.op(op, "json.Unmarshal(%s) into the struct in use: err=%v", clipStr(string(js)), err)
			if err != nil || !soundBlock(l.b) {
				*l.b = keep
				*l.b.Header = keepHdr
				evid.R.Label("life:Block:json_skipped", 1)
			} else {
				l.hdrEnc = idUnknown // the IDs now come from the JSON text
				for _, tx := range l.b.Transactions {
					if len(tx.ID) > 0 {
						l.carriesID(tx, idUnknown)
					}
				}
			}
			l.dirty = true
			l.init(t, "Block.Init after json.Unmarshal into the struct in use")
		case "encode_newblock":
			if l.dirty {
				l.init(t, "Block.Init before encode_newblock")
			}
			h.op(op, "")
			enc := l.b.Encode()
			again, err := blockchain.NewBlock(enc)
			if err != nil {
				h.fatal(t, "NewBlock rejects the block's own encoding %s: %v", clipHex(enc), err)
			}
			if !bytes.Equal(again.Header.ID, l.b.Header.ID) || !bytes.Equal(again.Encode(), enc) || len(again.Transactions) != len(l.b.Transactions) {
				h.fatal(t, "block ID / encoding changed by re-encoding: id %x -> %x", []byte(l.b.Header.ID), []byte(again.Header.ID))
			}
			for j, tx := range again.Transactions {
				if !bytes.Equal(tx.ID, l.b.Transactions[j].ID) {
					h.fatal(t, "transaction %d ID changed by re-encoding the block: %x -> %x", j, []byte(l.b.Transactions[j].ID), []byte(tx.ID))
				}
			}
		case "validate":
			if l.dirty {
				l.init(t, "Block.Init before Validate")
			}
			lifeBlkValidate(t, l)
		case "store":
			l.b.Header.Height = h.nextHeight(t) // a field change followed by Block.Init
			l.dirty = true
			h.op(op, "Height = %d, Block.Init, AddBlock of the block in use, cold load", l.b.Header.Height)
			l.init(t, "Block.Init after the height was set")
			h.storeBlock(t, l.b, "Block.Init + AddBlock")
		}
	}
	h.op("final_init", "")
	final := l.init(t, "final Block.Init")
	h.register(final)
}

// lifeBlkValidate: Validate (transaction root over the transaction IDs, asset root) is a function of the content: the block in
// use (derived values current) gives the verdict that NewBlock(its encoding) gives.
func lifeBlkValidate(t *rapid.T, l *blkLife) {
	h := l.h
	enc := l.b.Encode()
	fresh, err := blockchain.NewBlock(enc)
	if err != nil {
		h.fatal(t, "NewBlock rejects the block's own encoding %s: %v", clipHex(enc), err)
	}
	a, b := errStr(l.b.Validate()), errStr(fresh.Validate())
	h.op("validate", "%s", clipStr(a))
	sameStrings := len(fresh.Transactions) == len(l.b.Transactions) && len(fresh.Assets) == len(l.b.Assets)
	for j := 0; sameStrings && j < len(fresh.Transactions); j++ {
		sameStrings = fresh.Transactions[j].Module == l.b.Transactions[j].Module && fresh.Transactions[j].Command == l.b.Transactions[j].Command
	}
	for j := 0; sameStrings && j < len(fresh.Assets); j++ {
		sameStrings = fresh.Assets[j].Module == l.b.Assets[j].Module
	}
	if !sameStrings {
		// a string that is not in NFC: the encoding normalises it, Validate looks at the Go string (see the transaction case)
		evid.R.Label("life:Block:validate_not_compared(nonNFC string)", 1)
		return
	}
	if !sameVerdict(a, b) {
		h.fatal(t, "Validate() of the block in use: %s; of NewBlock(its encoding): %s", a, b)
	}
	if a == "<nil>" {
		evid.R.Label("life:Block:validate_ok", 1)
	}
}

func TestLifeCycleBlock(t *testing.T) { checkScaled(t, 0.025, lifeBlkCase) }

// ---- fixed sequences (seed independent, every tier) ---------------------------------------------------------------------

// TestLifeCycleFixedSequences runs the shortest life cycles by hand: Init, change, Init (a signature added, the fee raised);
// Copy() with the next nonce; DecodeStrict of another transaction into the used struct; header: Init, height changed, Init /
// Sign; block holding a re-initialised transaction and its copy: Block.Init, store, cold load.
func TestLifeCycleFixedSequences(t *testing.T) {
	lifeKeys()
	h := newLifeHist("fixed")
	h.initial = "literal"
	defer h.close()
	mk := func(nonce uint64) *blockchain.Transaction {
		return &blockchain.Transaction{Module: "token", Command: "transfer", Nonce: nonce, Fee: 100000000, SenderPublicKey: bytes.Repeat([]byte{0xab}, 32),
			Params: []byte{1, 2, 3, 4}, Signatures: []codec.Hex{bytes.Repeat([]byte{0xcd}, 64)}}
	}
	l := &txLife{h: h, tx: mk(1), dirty: true}
	h.op("init", "")
	l.init(t, "Init of a struct literal")
	h.op("mutate_init", "second signature appended")
	l.tx.Signatures = append(l.tx.Signatures, bytes.Repeat([]byte{0xef}, 64))
	l.init(t, "Init after a signature was appended")
	h.op("mutate_init", "Fee += 5")
	l.tx.Fee += 5
	l.init(t, "Init after the fee was raised")
	h.op("copy_mutate_init", "Copy(), Nonce++, Init")
	next := l.tx.Copy()
	next.Nonce++
	next.Init()
	h.txFresh(t, next, "Init of a Copy() with the next nonce")
	if bytes.Equal(next.ID, l.tx.ID) {
		h.fatal(t, "two different transactions (nonce %d and %d) carry the same ID %x", l.tx.Nonce, next.Nonce, []byte(next.ID))
	}
	for _, strict := range []bool{true, false} {
		other := mk(99)
		if !strict {
			other.Params = nil
		}
		raw := other.Encode()
		h.op("decode_init", "strict=%v %s into the struct in use", strict, clipHex(raw))
		var err error
		if strict {
			err = l.tx.DecodeStrict(raw)
		} else {
			err = l.tx.Decode(raw)
		}
		if err != nil {
			h.fatal(t, "decoding a transaction's own encoding into a used struct: %v", err)
		}
		l.init(t, "Init after decoding into the struct in use")
		if !bytes.Equal(l.tx.ID, sha(raw)) {
			h.fatal(t, "transaction ID %x is not SHA-256 %x of the decoded bytes", []byte(l.tx.ID), sha(raw))
		}
	}
	// header
	hd := &blockchain.BlockHeader{Version: 2, Timestamp: 100, Height: 7, PreviousBlockID: bytes.Repeat([]byte{1}, 32), GeneratorAddress: bytes.Repeat([]byte{2}, 20),
		TransactionRoot: bytes.Repeat([]byte{3}, 32), AssetRoot: bytes.Repeat([]byte{4}, 32), EventRoot: bytes.Repeat([]byte{5}, 32), StateRoot: bytes.Repeat([]byte{6}, 32),
		ValidatorsHash: bytes.Repeat([]byte{7}, 32), AggregateCommit: &blockchain.AggregateCommit{}, Signature: bytes.Repeat([]byte{8}, 64)}
	hl := &hdrLife{h: h, hd: hd, dirty: true}
	h.op("init", "header")
	hl.init(t, "Init of a header literal")
	h.op("mutate_init", "header Timestamp++")
	hd.Timestamp++
	hl.init(t, "Init after the timestamp changed")
	h.op("sign", "header")
	hd.MaxHeightPrevoted = 3
	hl.sign(t, "Sign after a field changed")
	// block: the re-initialised transaction, changed once more, and its copy; Block.Init; store; cold load
	t2 := mk(5)
	t2.Init()
	t2.Fee += 5
	c := t2.Copy()
	c.Nonce++
	blk := &blockchain.Block{Header: hd, Transactions: []*blockchain.Transaction{t2, c, l.tx}}
	base := uint32(7)
	database, err := db.NewInMemoryDB()
	if err != nil {
		t.Fatalf("harness: in-memory db: %v", err)
	}
	h.store = &lifeStore{db: database, next: base, chain: blockchain.NewChain(&blockchain.ChainConfig{ChainID: []byte{0, 0, 0, 0}, MaxTransactionsLength: 15 * 1024, MaxBlockCache: 3, KeepEventsForHeights: -1})}
	h.op("store", "block{header, [tx(fee raised after Init), its Copy() with the next nonce, the reused struct]} Block.Init, AddBlock, cold load")
	blk.Init()
	bl := &blkLife{h: h, b: blk}
	bl.computed(t, "Block.Init", nil)
	h.storeBlock(t, blk, "Block.Init + AddBlock")
	evid.R.Case("life_fixed", true, func() any { return map[string]any{"part": "g", "type": "fixed sequences", "steps": h.steps} }, "life_fixed")
}
