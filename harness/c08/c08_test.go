// Package c08: property C08 of LiskHQ/lisk-engine — codec: lossless round trip, canonical strict decoding of transactions,
// stable block/transaction IDs across store/load and re-encoding, Lisk32 text<->bytes.
//
// Parts (DESIGN §4 C08):  (a) roundtrip_test.go  every generated-codec struct type
//
//	(b) ints_test.go       Writer/Reader integer, bool, array primitives over boundary sets
//	(c) tx_test.go         transactions: DecodeStrict(s)==nil => Encode(decoded)==s, ID==SHA-256(s)
//	(d) store_test.go      NewBlock/NewTransaction -> Chain.AddBlock -> fresh DataAccess -> Get*
//	(e) lisk32_test.go     Lisk32 addresses
//	(f) text_test.go       corrupted Lisk32 / Hex text forms
//	(g) lifecycle_test.go  object life cycles: one Transaction / BlockHeader / Block through Init, field changes, Copy,
//	                       decoding into the used struct, Sign, store + cold load; ID == SHA-256(Encode()) after every recomputation
//	(h) nested_test.go     one non-canonical element at any NESTING level of a block / gossip message / composite type, everything
//	                       else canonical: NewBlock rejects, or IDs are the hashes of the accepted sub-bytes and Encode() == input
package c08

import (
	"flag"
	"fmt"
	"os"
	"path/filepath"
	"reflect"
	"regexp"
	"sort"
	"strconv"
	"strings"
	"sync"
	"testing"

	"github.com/LiskHQ/lisk-engine/cmd/debug/app/modules/mock"
	"github.com/LiskHQ/lisk-engine/pkg/blockchain"
	"github.com/LiskHQ/lisk-engine/pkg/codec"
	"github.com/LiskHQ/lisk-engine/pkg/consensus"
	"github.com/LiskHQ/lisk-engine/pkg/consensus/certificate"
	"github.com/LiskHQ/lisk-engine/pkg/consensus/liskbft"
	csync "github.com/LiskHQ/lisk-engine/pkg/consensus/sync"
	"github.com/LiskHQ/lisk-engine/pkg/consensus/validator"
	"github.com/LiskHQ/lisk-engine/pkg/crypto"
	"github.com/LiskHQ/lisk-engine/pkg/db/diffdb"
	"github.com/LiskHQ/lisk-engine/pkg/generator"
	"github.com/LiskHQ/lisk-engine/pkg/labi"
	"github.com/LiskHQ/lisk-engine/pkg/labi_client"
	"github.com/LiskHQ/lisk-engine/pkg/p2p"
	"github.com/LiskHQ/lisk-engine/pkg/trie/rmt"
	"github.com/LiskHQ/lisk-engine/pkg/trie/smt"
	"github.com/LiskHQ/lisk-engine/pkg/txpool"
	"pgregory.net/rapid"

	"verifharness/evid"
)

func TestMain(m *testing.M) { evid.Main(m, "C08") }

// strictCodec is what every generated *_codec.go gives a struct type.
type strictCodec interface {
	codec.EncodeDecodable
	DecodeStrict([]byte) error
}

const modulePrefix = "github.com/LiskHQ/lisk-engine/"

type regEntry struct {
	name string       // "<package dir>.<Type>", e.g. "pkg/blockchain.Block"
	typ  reflect.Type // struct type
}

// registry: one zero value per generated-codec struct type.
//   - packages whose codec types are all exported are listed here directly;
//   - packages with unexported codec types export them through the proposed hook VerifCodecTypes()
//     (verif_hooks_codec.go, build tag verif; /verif/hooks_proposed/C08.patch).
//
// TestRegistryMatchesScan cross-checks this list against a scan of all *_codec.go receivers in the repo.
func registryValues() []codec.EncodeDecodable {
	vals := []codec.EncodeDecodable{
		// cmd/debug/app/modules/mock
		&mock.Pair{}, &mock.DataSetParams{}, &mock.UserAccount{}, &mock.ValidatorKey{}, &mock.ValidatorsData{}, &mock.UpdateValidatorsParams{},
		// pkg/consensus/certificate
		&certificate.Certificate{}, &certificate.SigningCertificate{}, &certificate.SingleCommit{},
		// pkg/consensus
		&consensus.EventNetworkBlockNewMessage{}, &consensus.EventBlockNewMessage{}, &consensus.EventBlockDeleteMessage{},
		&consensus.EventChainForkMessage{}, &consensus.EventChangeValidator{}, &consensus.EventBlockFinalizeMessage{},
		&consensus.EventPostBlock{}, &consensus.EventPostSingleCommits{}, &consensus.ValidatorsHash{}, &consensus.NextValidatorParams{},
		// pkg/consensus/liskbft
		&liskbft.GetValidatorInfoResponse{}, &liskbft.IsBFTComplientRequest{}, &liskbft.IsBFTComplientResponse{},
		&liskbft.ActiveValidator{}, &liskbft.BFTValidator{}, &liskbft.BFTParams{}, &liskbft.BFTBlockHeader{}, &liskbft.BFTVotes{},
		&liskbft.HashValidator{}, &liskbft.HashingValidators{}, &liskbft.Generator{}, &liskbft.GeneratorKeys{},
		// pkg/crypto
		&crypto.KDFParams{}, &crypto.CipherParams{}, &crypto.EncryptedMessage{},
		// pkg/db/diffdb
		&diffdb.KV{}, &diffdb.Diff{},
		// pkg/generator
		&generator.Keypair{}, &generator.GeneratorInfo{}, &generator.Keys{}, &generator.PlainKeys{},
		// pkg/labi
		&labi.InitRequest{}, &labi.InitStateMachineRequest{}, &labi.InitStateMachineResponse{}, &labi.InitGenesisStateRequest{},
		&labi.InitGenesisStateResponse{}, &labi.InsertAssetsRequest{}, &labi.InsertAssetsResponse{}, &labi.VerifyAssetsRequest{},
		&labi.Validator{}, &labi.Consensus{}, &labi.BeforeTransactionsExecuteRequest{}, &labi.BeforeTransactionsExecuteResponse{},
		&labi.AfterTransactionsExecuteRequest{}, &labi.AfterTransactionsExecuteResponse{}, &labi.VerifyTransactionRequest{},
		&labi.VerifyTransactionResponse{}, &labi.ExecuteTransactionRequest{}, &labi.ExecuteTransactionResponse{}, &labi.CommitRequest{},
		&labi.CommitResponse{}, &labi.RevertRequest{}, &labi.RevertResponse{}, &labi.FinalizeRequest{}, &labi.MetadataResponse{},
		&labi.QueryRequest{}, &labi.QueryResponse{}, &labi.ProveRequest{}, &labi.ProveResponse{},
		// pkg/trie/smt
		&smt.Proof{}, &smt.QueryProof{},
		// pkg/txpool
		&txpool.GetTransactionsResponse{},
	}
	// packages with unexported codec types: through the hook
	vals = append(vals, blockchain.VerifCodecTypes()...)
	vals = append(vals, csync.VerifCodecTypes()...)
	vals = append(vals, validator.VerifCodecTypes()...)
	vals = append(vals, labi_client.VerifCodecTypes()...)
	vals = append(vals, p2p.VerifCodecTypes()...)
	vals = append(vals, rmt.VerifCodecTypes()...)
	return vals
}

// Types that the scan finds but that cannot be instantiated from an external module, with the reason (reported in evidence).
var unreachable = map[string]string{
	"cmd/debug/app.plainKeys":                   "package main of the debug tool (not importable; not a wire/storage schema of the engine)",
	"pkg/codec/internal/codec_test.Transaction": "internal test fixture package of pkg/codec (not importable from outside pkg/codec; same schema as blockchain.Transaction, which is covered)",
}

var (
	regOnce sync.Once
	reg     []regEntry
	regIdx  map[string]int
)

func registry() []regEntry {
	regOnce.Do(func() {
		regIdx = map[string]int{}
		for _, v := range registryValues() {
			if _, ok := v.(strictCodec); !ok {
				panic(fmt.Sprintf("harness: %T has no DecodeStrict", v))
			}
			tp := reflect.TypeOf(v).Elem()
			name := strings.TrimPrefix(tp.PkgPath(), modulePrefix) + "." + tp.Name()
			if _, dup := regIdx[name]; dup {
				panic("harness: duplicate registry entry " + name)
			}
			regIdx[name] = len(reg)
			reg = append(reg, regEntry{name: name, typ: tp})
		}
	})
	return reg
}

func repoDir() string {
	if r := os.Getenv("VERIF_REPO"); r != "" {
		return r
	}
	return "/repo"
}

var recvRe = regexp.MustCompile(`(?m)^func \(e \*([A-Za-z0-9_]+)\) Encode\(\) *\(?\[\]byte\)?`)

// scanCodecFiles lists "<dir>.<Type>" for every Encode() receiver in every *_codec.go file of the repo.
func scanCodecFiles() (types []string, files int, err error) {
	root := repoDir()
	err = filepath.Walk(root, func(p string, info os.FileInfo, e error) error {
		if e != nil {
			return nil
		}
		if info.IsDir() {
			if n := info.Name(); n == ".git" || n == "node_modules" {
				return filepath.SkipDir
			}
			return nil
		}
		if !strings.HasSuffix(p, "_codec.go") || strings.HasPrefix(filepath.Base(p), "verif_hooks") {
			return nil
		}
		src, e := os.ReadFile(p)
		if e != nil {
			return e
		}
		if !strings.Contains(string(src), "Code generated by github.com/LiskHQ/lisk-engine/pkg/codec/gen") {
			return nil
		}
		files++
		rel, _ := filepath.Rel(root, filepath.Dir(p))
		for _, m := range recvRe.FindAllStringSubmatch(string(src), -1) {
			types = append(types, filepath.ToSlash(rel)+"."+m[1])
		}
		return nil
	})
	sort.Strings(types)
	return types, files, err
}

// TestRegistryMatchesScan cross-checks the registry against a scan of all *_codec.go receivers; types the scan finds but the
// registry does not cover are reported in the evidence notes (with the reason where known).
func TestRegistryMatchesScan(t *testing.T) {
	scanned, files, err := scanCodecFiles()
	if err != nil {
		t.Fatalf("scan of %s failed: %v", repoDir(), err)
	}
	if files == 0 {
		evid.R.Note("codec scan: no *_codec.go under %s (repo not readable from the test process?) — registry not cross-checked", repoDir())
		t.Skip("no codec files found")
	}
	registry()
	inScan := map[string]bool{}
	var uncovered, missingReason []string
	for _, s := range scanned {
		inScan[s] = true
		if _, ok := regIdx[s]; ok {
			continue
		}
		if why, ok := unreachable[s]; ok {
			uncovered = append(uncovered, s+" ("+why+")")
		} else {
			missingReason = append(missingReason, s)
		}
	}
	var stale []string
	for _, e := range reg {
		if !inScan[e.name] {
			stale = append(stale, e.name)
		}
	}
	evid.R.Note("codec scan: %d *_codec.go files, %d struct types; registry covers %d; uncovered %d: %s",
		files, len(scanned), len(scanned)-len(uncovered)-len(missingReason), len(uncovered)+len(missingReason), strings.Join(append(uncovered, missingReason...), "; "))
	if shard, _ := shardInfo(); shard == 0 { // labels are summed over shards by the driver
		evid.R.Label("scan:codec_files", int64(files))
		evid.R.Label("scan:types", int64(len(scanned)))
		evid.R.Label("scan:types_in_registry", int64(len(reg)))
		evid.R.Label("scan:types_uncovered", int64(len(uncovered)+len(missingReason)))
	}
	// Uncovered types are reported, not failed: a type missing here is a gap of the harness, not a violation of the property.
	if len(missingReason) > 0 {
		evid.R.Note("codec scan: types with a generated codec that the harness registry does not know (add them to registryValues or to a VerifCodecTypes hook): %v", missingReason)
		t.Logf("generated-codec types not in the harness registry: %v", missingReason)
	}
	if len(stale) > 0 {
		evid.R.Note("codec scan: registry entries without a generated codec in the scan: %v", stale)
	}
}

// checkScaled runs rapid.Check with -rapid.checks multiplied by mul (the driver passes one number for the whole package;
// the parts differ by orders of magnitude in cost per case).
func checkScaled(t *testing.T, mul float64, f func(*rapid.T)) {
	fl := flag.Lookup("rapid.checks")
	old := fl.Value.String()
	n, _ := strconv.Atoi(old)
	m := int(float64(n) * mul)
	if m < 1 {
		m = 1
	}
	_ = flag.Set("rapid.checks", strconv.Itoa(m))
	defer func() { _ = flag.Set("rapid.checks", old) }()
	rapid.Check(t, f)
}

// ---- known finding C08-F1 (S6): Reader.readInt decodes math.MinInt64 as 0 -------------------------------------------

const sigMinInt64 = "codec.Reader.readInt(zigzag=0xffffffffffffffff)=0,want=math.MinInt64"

var minOnce sync.Once

func initKnown() {
	minOnce.Do(func() { avoidMinInt64 = evid.R.IsKnown(sigMinInt64) })
}

func excludeMinInt64() { evid.R.Excluded(1) }
