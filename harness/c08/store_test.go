package c08

// Part (d): blocks and transactions through NewBlock/NewTransaction, Chain.AddBlock, a fresh DataAccess on the same
// database (cold cache) and GetBlock*/GetTransaction: IDs and encodings are unchanged by store/load and by re-encoding.

import (
	"bytes"
	"crypto/sha256"
	"fmt"
	"reflect"
	"testing"

	"github.com/LiskHQ/lisk-engine/pkg/blockchain"
	"github.com/LiskHQ/lisk-engine/pkg/db"
	"pgregory.net/rapid"

	"verifharness/evid"
)

var (
	headerType = reflect.TypeOf(blockchain.BlockHeader{})
	assetType  = reflect.TypeOf(blockchain.BlockAsset{})
	eventType  = reflect.TypeOf(blockchain.Event{})
)

// splitFields cuts a canonical encoding into its top-level fields (key+payload each).
func splitFields(b []byte) ([][]byte, bool) {
	var out [][]byte
	off := 0
	rd := func(o int) (uint64, int, bool) {
		var v uint64
		for i := 0; i < 10; i++ {
			if o+i >= len(b) {
				return 0, 0, false
			}
			c := b[o+i]
			v |= uint64(c&0x7f) << (7 * uint(i))
			if c&0x80 == 0 {
				return v, i + 1, true
			}
		}
		return 0, 0, false
	}
	for off < len(b) {
		start := off
		key, n, ok := rd(off)
		if !ok {
			return nil, false
		}
		off += n
		switch key & 7 {
		case 0:
			_, m, ok := rd(off)
			if !ok {
				return nil, false
			}
			off += m
		case 2:
			l, m, ok := rd(off)
			if !ok || l > uint64(len(b)-off-m) {
				return nil, false
			}
			off += m + int(l)
		default:
			return nil, false
		}
		out = append(out, b[start:off])
	}
	return out, true
}

type storedBlock struct {
	raw      []byte // bytes handed to NewBlock
	blk      *blockchain.Block
	id       []byte
	enc      []byte
	hdrEnc   []byte
	txIDs    [][]byte
	txEncs   [][]byte
	lenient  bool
	nTx, nAs int
}

func sha(b []byte) []byte { s := sha256.Sum256(b); return s[:] }

func storeCase(t *rapid.T) {
	database, err := db.NewInMemoryDB()
	if err != nil {
		t.Fatalf("harness: in-memory db: %v", err)
	}
	defer database.Close()
	nBlocks := rapid.IntRange(1, 4).Draw(t, "blocks")
	base := rapid.SampledFrom([]uint32{0, 1, 2, 1000, 1<<32 - 5}).Draw(t, "baseHeight")
	cacheSize := rapid.IntRange(1, 5).Draw(t, "blockCache")
	chain := blockchain.NewChain(&blockchain.ChainConfig{ChainID: []byte{0, 0, 0, 0}, MaxTransactionsLength: 15 * 1024, MaxBlockCache: cacheSize, KeepEventsForHeights: -1})

	var blocks []*storedBlock
	anyLenient, totalTx := false, 0
	for i := 0; i < nBlocks; i++ {
		label := fmt.Sprintf("b%d", i)
		gi := newGenInfo()
		hv := genStruct(t, headerType, label+".header", 0, gi)
		header := hv.Interface().(*blockchain.BlockHeader)
		header.Height = base + uint32(i)
		nTx := rapid.SampledFrom([]int{0, 0, 1, 2, 3}).Draw(t, label+"_ntx")
		txs := make([]*blockchain.Transaction, nTx)
		for j := range txs {
			txs[j] = genTx(t, fmt.Sprintf("%s.tx%d", label, j))
		}
		if nTx >= 2 && rapid.IntRange(0, 7).Draw(t, label+"_duptx") == 0 {
			txs[1] = txs[0].Copy() // the same transaction twice in a block / across blocks must not disturb anything
		}
		nAs := rapid.SampledFrom([]int{0, 1, 1, 2}).Draw(t, label+"_nassets")
		assets := make([]*blockchain.BlockAsset, nAs)
		for j := range assets {
			assets[j] = genStruct(t, assetType, fmt.Sprintf("%s.asset%d", label, j), 0, newGenInfo()).Interface().(*blockchain.BlockAsset)
		}
		value := &blockchain.Block{Header: header, Transactions: txs, Assets: assets}
		raw := value.Encode()
		sb := &storedBlock{nTx: nTx, nAs: nAs}
		hdrBytes := header.Encode()

		// optional: the header arrives in a form only the lenient header decoder accepts (some fields missing)
		if rapid.IntRange(0, 3).Draw(t, label+"_lenient") == 0 {
			if fields, ok := splitFields(hdrBytes); ok && len(fields) > 0 {
				var kept []byte
				dropped := 0
				for k, f := range fields {
					// the height field (3) stays: the chain only accepts consecutive heights
					if f[0]>>3 != 3 && rapid.IntRange(0, 3).Draw(t, fmt.Sprintf("%s_drop%d", label, k)) == 0 {
						dropped++
						continue
					}
					kept = append(kept, f...)
				}
				if dropped > 0 {
					rb := &blockchain.RawBlock{Header: kept}
					for _, tx := range txs {
						rb.Transactions = append(rb.Transactions, tx.Encode())
					}
					for _, a := range assets {
						rb.Assets = append(rb.Assets, a.Encode())
					}
					raw = rb.Encode()
					sb.lenient = true
				}
			}
		}
		sb.raw = raw
		blk, err := blockchain.NewBlock(raw)
		if err != nil {
			if sb.lenient {
				evid.R.Label("store:lenient_header_rejected", 1)
				// fall back to the canonical form
				raw = value.Encode()
				sb.raw, sb.lenient = raw, false
				blk, err = blockchain.NewBlock(raw)
			}
			if err != nil {
				t.Fatalf("C08(d) NewBlock rejects the block's own encoding: %v\nblock=%v\nraw=%x", err, render(reflect.ValueOf(value).Elem()), raw)
			}
		}
		sb.blk = blk
		sb.hdrEnc = blk.Header.Encode()
		sb.enc = blk.Encode()
		sb.id = append([]byte{}, blk.Header.ID...)
		// ID = SHA-256 of the (re-)encoded header; for a canonical header that is the hash of the received header bytes
		if !bytes.Equal(sb.id, sha(sb.hdrEnc)) {
			t.Fatalf("C08(d) block ID %x is not SHA-256 of the encoded header %x", sb.id, sb.hdrEnc)
		}
		if !sb.lenient {
			if !bytes.Equal(sb.id, sha(hdrBytes)) {
				t.Fatalf("C08(d) block ID %x is not SHA-256 of the received canonical header bytes %x", sb.id, hdrBytes)
			}
			if !bytes.Equal(sb.enc, raw) {
				t.Fatalf("C08(d) NewBlock(raw).Encode() != raw\nraw=%x\nenc=%x", raw, sb.enc)
			}
		}
		if len(blk.Transactions) != nTx || len(blk.Assets) != nAs {
			t.Fatalf("C08(d) NewBlock: %d txs %d assets, want %d/%d", len(blk.Transactions), len(blk.Assets), nTx, nAs)
		}
		for j, tx := range blk.Transactions {
			enc := txs[j].Encode()
			if !bytes.Equal(tx.ID, sha(enc)) || !bytes.Equal(tx.Bytes(), enc) || tx.Size() != len(enc) {
				t.Fatalf("C08(d) tx %d of NewBlock: ID %x bytes %x, want SHA-256/bytes of %x", j, []byte(tx.ID), tx.Bytes(), enc)
			}
			sb.txIDs = append(sb.txIDs, append([]byte{}, tx.ID...))
			sb.txEncs = append(sb.txEncs, enc)
		}
		// re-decoding the re-encoding gives the same IDs
		again, err := blockchain.NewBlock(sb.enc)
		if err != nil || !bytes.Equal(again.Header.ID, sb.id) || !bytes.Equal(again.Encode(), sb.enc) {
			t.Fatalf("C08(d) NewBlock(Encode(block)) changed the block: err=%v id %x -> %x", err, sb.id, again.Header.ID)
		}
		blocks = append(blocks, sb)
		anyLenient = anyLenient || sb.lenient
		totalTx += nTx
	}

	chain.Init(blocks[0].blk, database)
	for i, sb := range blocks {
		nEv := rapid.IntRange(0, 2).Draw(t, fmt.Sprintf("b%d_nevents", i))
		events := make([]*blockchain.Event, nEv)
		for j := range events {
			events[j] = genStruct(t, eventType, fmt.Sprintf("b%d.event%d", i, j), 0, newGenInfo()).Interface().(*blockchain.Event)
		}
		if err := chain.AddBlock(database.NewBatch(), sb.blk, events, 0, false); err != nil {
			t.Fatalf("C08(d) harness: AddBlock(height %d): %v", sb.blk.Header.Height, err)
		}
		// storing must not have modified the block object
		if !bytes.Equal(sb.blk.Header.ID, sb.id) || !bytes.Equal(sb.blk.Encode(), sb.enc) {
			t.Fatalf("C08(d) AddBlock modified the block: id %x -> %x", sb.id, sb.blk.Header.ID)
		}
	}

	verify := func(where string, da *blockchain.DataAccess, sb *storedBlock) {
		height := sb.blk.Header.Height
		checkHeader := func(how string, h *blockchain.BlockHeader, err error) {
			if err != nil {
				t.Fatalf("C08(d) %s %s(height %d id %x): %v", where, how, height, sb.id, err)
			}
			if !bytes.Equal(h.ID, sb.id) {
				t.Fatalf("C08(d) %s %s: block ID changed by store/load: stored %x loaded %x\nheader bytes %x", where, how, sb.id, []byte(h.ID), sb.hdrEnc)
			}
			if enc := h.Encode(); !bytes.Equal(enc, sb.hdrEnc) {
				t.Fatalf("C08(d) %s %s: header encoding changed by store/load:\nstored %x\nloaded %x", where, how, sb.hdrEnc, enc)
			}
			h.Init()
			if !bytes.Equal(h.ID, sb.id) {
				t.Fatalf("C08(d) %s %s: block ID changed by re-encoding after load: %x -> %x", where, how, sb.id, []byte(h.ID))
			}
		}
		checkBlock := func(how string, b *blockchain.Block, err error) {
			if err != nil {
				t.Fatalf("C08(d) %s %s(height %d id %x): %v", where, how, height, sb.id, err)
			}
			checkHeader(how+".Header", b.Header, nil)
			if enc := b.Encode(); !bytes.Equal(enc, sb.enc) {
				t.Fatalf("C08(d) %s %s: block encoding changed by store/load:\nstored %x\nloaded %x", where, how, sb.enc, enc)
			}
			if len(b.Transactions) != len(sb.txIDs) {
				t.Fatalf("C08(d) %s %s: %d transactions loaded, %d stored", where, how, len(b.Transactions), len(sb.txIDs))
			}
			for j, tx := range b.Transactions {
				if !bytes.Equal(tx.ID, sb.txIDs[j]) || !bytes.Equal(tx.Bytes(), sb.txEncs[j]) || tx.Size() != len(sb.txEncs[j]) {
					t.Fatalf("C08(d) %s %s: transaction %d changed by store/load: id %x -> %x, bytes %x -> %x", where, how, j, sb.txIDs[j], []byte(tx.ID), sb.txEncs[j], tx.Bytes())
				}
			}
			b.Init()
			if !bytes.Equal(b.Header.ID, sb.id) {
				t.Fatalf("C08(d) %s %s: Init() after load changed the block ID %x -> %x", where, how, sb.id, []byte(b.Header.ID))
			}
			for j, tx := range b.Transactions {
				if !bytes.Equal(tx.ID, sb.txIDs[j]) {
					t.Fatalf("C08(d) %s %s: Init() after load changed transaction %d ID %x -> %x", where, how, j, sb.txIDs[j], []byte(tx.ID))
				}
			}
		}
		h, err := da.GetBlockHeader(sb.id)
		checkHeader("GetBlockHeader", h, err)
		h, err = da.GetBlockHeaderByHeight(height)
		checkHeader("GetBlockHeaderByHeight", h, err)
		b, err := da.GetBlock(sb.id)
		checkBlock("GetBlock", b, err)
		b, err = da.GetBlockByHeight(height)
		checkBlock("GetBlockByHeight", b, err)
		for j, id := range sb.txIDs {
			tx, err := da.GetTransaction(id)
			if err != nil {
				t.Fatalf("C08(d) %s GetTransaction(%x): %v", where, id, err)
			}
			if !bytes.Equal(tx.ID, id) || !bytes.Equal(tx.Bytes(), sb.txEncs[j]) || tx.Size() != len(sb.txEncs[j]) {
				t.Fatalf("C08(d) %s GetTransaction: transaction changed by store/load: id %x -> %x, bytes %x -> %x", where, id, []byte(tx.ID), sb.txEncs[j], tx.Bytes())
			}
		}
	}

	cold := blockchain.NewDataAccess(database, 1, 1) // fresh: nothing cached, everything decoded from the database
	for _, sb := range blocks {
		verify("cold DataAccess", cold, sb)
	}
	last := blocks[len(blocks)-1]
	if h, err := cold.GetLastBlockHeader(); err != nil || !bytes.Equal(h.ID, last.id) {
		t.Fatalf("C08(d) GetLastBlockHeader on a cold DataAccess: err=%v id=%v want %x", err, h, last.id)
	}
	for _, sb := range blocks { // through the chain's own (warm) access as well
		verify("warm DataAccess", chain.DataAccess(), sb)
	}

	// the temp-block path: remove the tip keeping a temp copy, reload it from a cold DataAccess
	removed := false
	// (only when the removal cannot empty the block cache: since 3c47278 RemoveBlock then refills the cache through PrepareCache, which
	// reads heights below the tip that a harness chain starting at an arbitrary base height does not have — a harness artefact)
	if len(blocks) >= 2 && cacheSize >= 2 && rapid.Bool().Draw(t, "removeTip") {
		if err := chain.RemoveBlock(database.NewBatch(), true); err != nil {
			t.Fatalf("C08(d) harness: RemoveBlock: %v", err)
		}
		temps, err := blockchain.NewDataAccess(database, 1, 1).GetTempBlocks()
		if err != nil || len(temps) != 1 {
			t.Fatalf("C08(d) GetTempBlocks after RemoveBlock(saveTemp): %d blocks, err %v", len(temps), err)
		}
		tb := temps[0]
		if !bytes.Equal(tb.Header.ID, last.id) || !bytes.Equal(tb.Encode(), last.enc) {
			t.Fatalf("C08(d) temp block changed by store/load: id %x -> %x\nstored %x\nloaded %x", last.id, []byte(tb.Header.ID), last.enc, tb.Encode())
		}
		for j, tx := range tb.Transactions {
			if !bytes.Equal(tx.ID, last.txIDs[j]) {
				t.Fatalf("C08(d) temp block transaction %d ID changed %x -> %x", j, last.txIDs[j], []byte(tx.ID))
			}
		}
		removed = true
	}

	labels := []string{"store", fmt.Sprintf("store:blocks=%d", nBlocks)}
	if anyLenient {
		labels = append(labels, "store:lenient_header")
	}
	if totalTx > 0 {
		labels = append(labels, "store:with_transactions")
	}
	if removed {
		labels = append(labels, "store:temp_block_reloaded")
	}
	var key bytes.Buffer
	for _, sb := range blocks {
		key.Write(sb.raw)
		key.WriteByte('|')
	}
	// non-trivial: at least one transaction and one asset stored, or a lenient-form header
	nt := anyLenient
	for _, sb := range blocks {
		if sb.nTx > 0 && sb.nAs > 0 {
			nt = true
		}
	}
	evid.R.Case("store|"+key.String(), nt, func() any {
		var bs []any
		for _, sb := range blocks {
			bs = append(bs, map[string]any{"height": sb.blk.Header.Height, "id": fmt.Sprintf("%x", sb.id), "lenientHeader": sb.lenient, "transactions": sb.nTx, "assets": sb.nAs, "raw": clipHex(sb.raw)})
		}
		return map[string]any{"part": "d", "blocks": bs, "tipRemovedToTemp": removed}
	}, labels...)
}

func TestStoreLoad(t *testing.T) { checkScaled(t, 0.02, storeCase) }
