package c08

// Part (d): blocks and transactions through NewBlock/NewTransaction, Chain.AddBlock, a fresh DataAccess on the same
// database (cold cache) and GetBlock*/GetTransaction: IDs and encodings are unchanged by store/load and by re-encoding.

import (
	"bytes"
	"crypto/ed25519"
	"crypto/sha256"
	"fmt"
	"reflect"
	"testing"

	"github.com/LiskHQ/lisk-engine/pkg/blockchain"
	"github.com/LiskHQ/lisk-engine/pkg/codec"
	"github.com/LiskHQ/lisk-engine/pkg/db"
	"pgregory.net/rapid"

	"verifharness/evid"
)

var (
	headerType = reflect.TypeOf(blockchain.BlockHeader{})
	assetType  = reflect.TypeOf(blockchain.BlockAsset{})
	eventType  = reflect.TypeOf(blockchain.Event{})
)

// splitFields cuts a canonical encoding into its top-level fields (key+payload each).
func splitFields(b []byte) ([][]byte, bool) {
	var out [][]byte
	off := 0
	rd := func(o int) (uint64, int, bool) {
		var v uint64
		for i := 0; i < 10; i++ {
			if o+i >= len(b) {
				return 0, 0, false
			}
			c := b[o+i]
			v |= uint64(c&0x7f) << (7 * uint(i))
			if c&0x80 == 0 {
				return v, i + 1, true
			}
		}
		return 0, 0, false
	}
	for off < len(b) {
		start := off
		key, n, ok := rd(off)
		if !ok {
			return nil, false
		}
		off += n
		switch key & 7 {
		case 0:
			_, m, ok := rd(off)
			if !ok {
				return nil, false
			}
			off += m
		case 2:
			l, m, ok := rd(off)
			if !ok || l > uint64(len(b)-off-m) {
				return nil, false
			}
			off += m + int(l)
		default:
			return nil, false
		}
		out = append(out, b[start:off])
	}
	return out, true
}

type storedBlock struct {
	raw      []byte // bytes handed to NewBlock
	blk      *blockchain.Block
	id       []byte
	enc      []byte
	hdrEnc   []byte
	txIDs    [][]byte
	txEncs   [][]byte
	lenient  bool
	created  string // non-empty: created locally with AggregateCommit == nil (the constructor used), never passed through NewBlock
	nTx, nAs int
}

// Blocks CREATED on this node with a header whose AggregateCommit pointer is nil (NewBlockHeaderWithValues(..., nil, ...), a
// struct literal + Init, a struct literal + Sign): Encode leaves field 14 out, the ID the creator computes is the hash of
// THOSE bytes, and those bytes are what AddBlock stores. The decoder materialises the absent nested message as an empty
// &AggregateCommit{}, so the RE-ENCODING of the loaded header contains field 14 and hashes to something else. DESIGN 1.7
// keeps nil nested pointers out of the generic round-trip equality for that reason; the ID claim of the statement ("block
// IDs are unchanged by store/load") is sound for them all the same: the block was saved under ID X, so every read path
// must find it under X and hand it back with ID X (the unchanged getBlockHeader hashes the STORED bytes).
var createdCtors = []string{"NewBlockHeaderWithValues(nil)", "literal+Init", "literal+Sign"}

var storeChainID = []byte{0, 0, 0, 0}

// createHeader turns the generated header value into one a creator builds: AggregateCommit nil, ID by the constructor.
func createHeader(h *blockchain.BlockHeader, ctor string, seed []byte) (*blockchain.BlockHeader, error) {
	h.AggregateCommit = nil
	switch ctor {
	case "NewBlockHeaderWithValues(nil)":
		// (the constructor has no parameter for eventRoot / impliesMaxPrevotes: they stay at their zero values)
		return blockchain.NewBlockHeaderWithValues(h.Version, h.Timestamp, h.Height, h.PreviousBlockID, h.AssetRoot, h.StateRoot, h.MaxHeightPrevoted,
			h.MaxHeightGenerated, h.TransactionRoot, h.GeneratorAddress, h.ValidatorsHash, nil, h.Signature)
	case "literal+Init":
		h.Init()
		return h, nil
	case "literal+Sign":
		h.Sign(storeChainID, ed25519.NewKeyFromSeed(seed))
		return h, nil
	}
	return nil, fmt.Errorf("harness: unknown constructor %q", ctor)
}

// absentIsEmpty: the header with an all-default aggregate commit replaced by an absent one (the identification the statement
// makes for values: "absent and empty fields identified").
func absentIsEmpty(h *blockchain.BlockHeader) *blockchain.BlockHeader {
	c := *h
	if a := c.AggregateCommit; a != nil && a.Height == 0 && len(a.AggregationBits) == 0 && len(a.CertificateSignature) == 0 {
		c.AggregateCommit = nil
	}
	return &c
}

// verifyCreated: every DataAccess read path returns the block saved under sb.id with that ID (by ID, by height, header only,
// whole block, singly and in lists; `last` = it is the tip). Not demanded for these blocks: that the loaded header re-encodes
// to the stored bytes or keeps its ID under Init() (absent vs empty nested message, see above) - the loaded value is compared
// with absent == empty identified.
func verifyCreated(t fataler, where string, da *blockchain.DataAccess, sb *storedBlock, last, warm bool) {
	height := sb.blk.Header.Height
	checkHeader := func(how string, h *blockchain.BlockHeader, err error) {
		if err != nil || h == nil {
			t.Fatalf("C08(d) %s %s: block created with AggregateCommit == nil (%s) and saved under ID %x (height %d) is not found: %v\nstored header bytes %x", where, how, sb.created, sb.id, height, err, sb.hdrEnc)
		}
		if !bytes.Equal(h.ID, sb.id) {
			t.Fatalf("C08(d) %s %s: block ID changed by store/load: block created with AggregateCommit == nil (%s) was saved under %x and is loaded with ID %x (SHA-256 of the stored header bytes = %x, of the re-encoding of the loaded header = %x)\nstored header bytes %x",
				where, how, sb.created, sb.id, []byte(h.ID), sha(sb.hdrEnc), sha(h.Encode()), sb.hdrEnc)
		}
		if enc := absentIsEmpty(h).Encode(); !bytes.Equal(enc, sb.hdrEnc) {
			t.Fatalf("C08(d) %s %s: header changed by store/load (absent and empty aggregate commit identified):\nstored %x\nloaded %x", where, how, sb.hdrEnc, enc)
		}
	}
	checkBlock := func(how string, b *blockchain.Block, err error) {
		if err != nil || b == nil {
			t.Fatalf("C08(d) %s %s: block created with AggregateCommit == nil (%s) and saved under ID %x (height %d) is not found: %v", where, how, sb.created, sb.id, height, err)
		}
		checkHeader(how+".Header", b.Header, nil)
		norm := &blockchain.Block{Header: absentIsEmpty(b.Header), Transactions: b.Transactions, Assets: b.Assets}
		if enc := norm.Encode(); !bytes.Equal(enc, sb.enc) {
			t.Fatalf("C08(d) %s %s: block changed by store/load (absent and empty aggregate commit identified):\nstored %x\nloaded %x", where, how, sb.enc, enc)
		}
		if len(b.Transactions) != len(sb.txIDs) {
			t.Fatalf("C08(d) %s %s: %d transactions loaded, %d stored", where, how, len(b.Transactions), len(sb.txIDs))
		}
		for j, tx := range b.Transactions {
			if !bytes.Equal(tx.ID, sb.txIDs[j]) || !bytes.Equal(tx.Bytes(), sb.txEncs[j]) || tx.Size() != len(sb.txEncs[j]) {
				t.Fatalf("C08(d) %s %s: transaction %d changed by store/load: id %x -> %x, bytes %x -> %x", where, how, j, sb.txIDs[j], []byte(tx.ID), sb.txEncs[j], tx.Bytes())
			}
		}
	}
	one := func(hs []*blockchain.BlockHeader, err error) (*blockchain.BlockHeader, error) {
		if err == nil && len(hs) != 1 {
			return nil, fmt.Errorf("%d headers returned, want 1", len(hs))
		}
		if err != nil {
			return nil, err
		}
		return hs[0], nil
	}
	h, err := da.GetBlockHeader(sb.id)
	checkHeader("GetBlockHeader", h, err)
	h, err = one(da.GetBlockHeaders([][]byte{sb.id}))
	checkHeader("GetBlockHeaders", h, err)
	h, err = da.GetBlockHeaderByHeight(height)
	checkHeader("GetBlockHeaderByHeight", h, err)
	h, err = one(da.GetBlockHeadersByHeights([]uint32{height}))
	checkHeader("GetBlockHeadersByHeights", h, err)
	b, err := da.GetBlock(sb.id)
	checkBlock("GetBlock", b, err)
	b, err = da.GetBlockByHeight(height)
	checkBlock("GetBlockByHeight", b, err)
	bs, err := da.GetBlocksBetweenHeight(height, height)
	if err == nil && len(bs) != 1 {
		err = fmt.Errorf("%d blocks returned, want 1", len(bs))
	}
	if err != nil {
		bs = []*blockchain.Block{nil}
	}
	checkBlock("GetBlocksBetweenHeight", bs[0], err)
	if last {
		h, err = da.GetLastBlockHeader()
		checkHeader("GetLastBlockHeader", h, err)
		if warm { // GetLastBlock answers from the block cache only: a DataAccess that never cached anything has no last block
			b, err = da.GetLastBlock()
			checkBlock("GetLastBlock", b, err)
		}
	}
	for j, id := range sb.txIDs {
		tx, err := da.GetTransaction(id)
		if err != nil {
			t.Fatalf("C08(d) %s GetTransaction(%x): %v", where, id, err)
		}
		if !bytes.Equal(tx.ID, id) || !bytes.Equal(tx.Bytes(), sb.txEncs[j]) {
			t.Fatalf("C08(d) %s GetTransaction: transaction changed by store/load: id %x -> %x", where, id, []byte(tx.ID))
		}
	}
}

func sha(b []byte) []byte { s := sha256.Sum256(b); return s[:] }

func storeCase(t *rapid.T) {
	database, err := db.NewInMemoryDB()
	if err != nil {
		t.Fatalf("harness: in-memory db: %v", err)
	}
	defer database.Close()
	nBlocks := rapid.IntRange(1, 4).Draw(t, "blocks")
	base := rapid.SampledFrom([]uint32{0, 1, 2, 1000, 1<<32 - 5}).Draw(t, "baseHeight")
	cacheSize := rapid.IntRange(1, 5).Draw(t, "blockCache")
	chain := blockchain.NewChain(&blockchain.ChainConfig{ChainID: storeChainID, MaxTransactionsLength: 15 * 1024, MaxBlockCache: cacheSize, KeepEventsForHeights: -1})

	var blocks []*storedBlock
	anyLenient, anyCreated, totalTx := false, false, 0
	for i := 0; i < nBlocks; i++ {
		label := fmt.Sprintf("b%d", i)
		gi := newGenInfo()
		hv := genStruct(t, headerType, label+".header", 0, gi)
		header := hv.Interface().(*blockchain.BlockHeader)
		header.Height = base + uint32(i)
		nTx := rapid.SampledFrom([]int{0, 0, 1, 2, 3}).Draw(t, label+"_ntx")
		txs := make([]*blockchain.Transaction, nTx)
		for j := range txs {
			txs[j] = genTx(t, fmt.Sprintf("%s.tx%d", label, j))
		}
		if nTx >= 2 && rapid.IntRange(0, 7).Draw(t, label+"_duptx") == 0 {
			txs[1] = txs[0].Copy() // the same transaction twice in a block / across blocks must not disturb anything
		}
		nAs := rapid.SampledFrom([]int{0, 1, 1, 2}).Draw(t, label+"_nassets")
		assets := make([]*blockchain.BlockAsset, nAs)
		for j := range assets {
			assets[j] = genStruct(t, assetType, fmt.Sprintf("%s.asset%d", label, j), 0, newGenInfo()).Interface().(*blockchain.BlockAsset)
		}
		// a fifth of the blocks is CREATED here with AggregateCommit == nil and stored as the very object (see createdCtors)
		if rapid.IntRange(0, 4).Draw(t, label+"_created") == 0 {
			ctor := rapid.SampledFrom(createdCtors).Draw(t, label+"_ctor")
			seed := rapid.SliceOfN(rapid.Byte(), ed25519.SeedSize, ed25519.SeedSize).Draw(t, label+"_key")
			header, err := createHeader(header, ctor, seed)
			if err != nil {
				t.Fatalf("C08(d) %s: %v", ctor, err)
			}
			if header.AggregateCommit != nil {
				t.Fatalf("C08(d) harness: %s set an aggregate commit", ctor)
			}
			value := &blockchain.Block{Header: header, Transactions: txs, Assets: assets}
			idByCtor := append([]byte{}, header.ID...)
			value.Init() // what a creator does before the block is handed to the chain: transaction IDs, header ID
			sb := &storedBlock{nTx: nTx, nAs: nAs, created: ctor, blk: value, raw: value.Encode(), enc: value.Encode(), hdrEnc: header.Encode(), id: append([]byte{}, header.ID...)}
			if !bytes.Equal(sb.id, sha(sb.hdrEnc)) || !bytes.Equal(sb.id, idByCtor) {
				t.Fatalf("C08(d) %s: block ID %x (after Block.Init %x) is not SHA-256 of the encoded header %x", ctor, idByCtor, sb.id, sb.hdrEnc)
			}
			for j, tx := range value.Transactions {
				enc := tx.Encode()
				if !bytes.Equal(tx.ID, sha(enc)) || tx.Size() != len(enc) {
					t.Fatalf("C08(d) tx %d after Block.Init: ID %x size %d, want SHA-256/length of %x", j, []byte(tx.ID), tx.Size(), enc)
				}
				sb.txIDs = append(sb.txIDs, append([]byte{}, tx.ID...))
				sb.txEncs = append(sb.txEncs, enc)
			}
			blocks = append(blocks, sb)
			anyCreated = true
			totalTx += nTx
			continue
		}
		value := &blockchain.Block{Header: header, Transactions: txs, Assets: assets}
		raw := value.Encode()
		sb := &storedBlock{nTx: nTx, nAs: nAs}
		hdrBytes := header.Encode()

		// optional: the header arrives in a form only the lenient header decoder accepts (some fields missing)
		if rapid.IntRange(0, 3).Draw(t, label+"_lenient") == 0 {
			if fields, ok := splitFields(hdrBytes); ok && len(fields) > 0 {
				var kept []byte
				dropped := 0
				for k, f := range fields {
					// the height field (3) stays: the chain only accepts consecutive heights
					if f[0]>>3 != 3 && rapid.IntRange(0, 3).Draw(t, fmt.Sprintf("%s_drop%d", label, k)) == 0 {
						dropped++
						continue
					}
					kept = append(kept, f...)
				}
				if dropped > 0 {
					rb := &blockchain.RawBlock{Header: kept}
					for _, tx := range txs {
						rb.Transactions = append(rb.Transactions, tx.Encode())
					}
					for _, a := range assets {
						rb.Assets = append(rb.Assets, a.Encode())
					}
					raw = rb.Encode()
					sb.lenient = true
				}
			}
		}
		sb.raw = raw
		blk, err := blockchain.NewBlock(raw)
		if err != nil {
			if sb.lenient {
				evid.R.Label("store:lenient_header_rejected", 1)
				// fall back to the canonical form
				raw = value.Encode()
				sb.raw, sb.lenient = raw, false
				blk, err = blockchain.NewBlock(raw)
			}
			if err != nil {
				t.Fatalf("C08(d) NewBlock rejects the block's own encoding: %v\nblock=%v\nraw=%x", err, render(reflect.ValueOf(value).Elem()), raw)
			}
		}
		sb.blk = blk
		sb.hdrEnc = blk.Header.Encode()
		sb.enc = blk.Encode()
		sb.id = append([]byte{}, blk.Header.ID...)
		// ID = SHA-256 of the (re-)encoded header; for a canonical header that is the hash of the received header bytes
		if !bytes.Equal(sb.id, sha(sb.hdrEnc)) {
			t.Fatalf("C08(d) block ID %x is not SHA-256 of the encoded header %x", sb.id, sb.hdrEnc)
		}
		if !sb.lenient {
			if !bytes.Equal(sb.id, sha(hdrBytes)) {
				t.Fatalf("C08(d) block ID %x is not SHA-256 of the received canonical header bytes %x", sb.id, hdrBytes)
			}
			if !bytes.Equal(sb.enc, raw) {
				t.Fatalf("C08(d) NewBlock(raw).Encode() != raw\nraw=%x\nenc=%x", raw, sb.enc)
			}
		}
		if len(blk.Transactions) != nTx || len(blk.Assets) != nAs {
			t.Fatalf("C08(d) NewBlock: %d txs %d assets, want %d/%d", len(blk.Transactions), len(blk.Assets), nTx, nAs)
		}
		for j, tx := range blk.Transactions {
			enc := txs[j].Encode()
			if !bytes.Equal(tx.ID, sha(enc)) || !bytes.Equal(tx.Bytes(), enc) || tx.Size() != len(enc) {
				t.Fatalf("C08(d) tx %d of NewBlock: ID %x bytes %x, want SHA-256/bytes of %x", j, []byte(tx.ID), tx.Bytes(), enc)
			}
			sb.txIDs = append(sb.txIDs, append([]byte{}, tx.ID...))
			sb.txEncs = append(sb.txEncs, enc)
		}
		// re-decoding the re-encoding gives the same IDs
		again, err := blockchain.NewBlock(sb.enc)
		if err != nil || !bytes.Equal(again.Header.ID, sb.id) || !bytes.Equal(again.Encode(), sb.enc) {
			t.Fatalf("C08(d) NewBlock(Encode(block)) changed the block: err=%v id %x -> %x", err, sb.id, again.Header.ID)
		}
		blocks = append(blocks, sb)
		anyLenient = anyLenient || sb.lenient
		totalTx += nTx
	}

	chain.Init(blocks[0].blk, database)
	for i, sb := range blocks {
		nEv := rapid.IntRange(0, 2).Draw(t, fmt.Sprintf("b%d_nevents", i))
		events := make([]*blockchain.Event, nEv)
		for j := range events {
			events[j] = genStruct(t, eventType, fmt.Sprintf("b%d.event%d", i, j), 0, newGenInfo()).Interface().(*blockchain.Event)
		}
		if err := chain.AddBlock(database.NewBatch(), sb.blk, events, 0, false); err != nil {
			t.Fatalf("C08(d) harness: AddBlock(height %d): %v", sb.blk.Header.Height, err)
		}
		// storing must not have modified the block object
		if !bytes.Equal(sb.blk.Header.ID, sb.id) || !bytes.Equal(sb.blk.Encode(), sb.enc) {
			t.Fatalf("C08(d) AddBlock modified the block: id %x -> %x", sb.id, sb.blk.Header.ID)
		}
	}

	verify := func(where string, da *blockchain.DataAccess, sb *storedBlock) {
		if sb.created != "" {
			verifyCreated(t, where, da, sb, sb == blocks[len(blocks)-1], da == chain.DataAccess())
			evid.R.Label("store:created_nil_aggregate_commit:"+sb.created, 1)
			return
		}
		height := sb.blk.Header.Height
		checkHeader := func(how string, h *blockchain.BlockHeader, err error) {
			if err != nil {
				t.Fatalf("C08(d) %s %s(height %d id %x): %v", where, how, height, sb.id, err)
			}
			if !bytes.Equal(h.ID, sb.id) {
				t.Fatalf("C08(d) %s %s: block ID changed by store/load: stored %x loaded %x\nheader bytes %x", where, how, sb.id, []byte(h.ID), sb.hdrEnc)
			}
			if enc := h.Encode(); !bytes.Equal(enc, sb.hdrEnc) {
				t.Fatalf("C08(d) %s %s: header encoding changed by store/load:\nstored %x\nloaded %x", where, how, sb.hdrEnc, enc)
			}
			h.Init()
			if !bytes.Equal(h.ID, sb.id) {
				t.Fatalf("C08(d) %s %s: block ID changed by re-encoding after load: %x -> %x", where, how, sb.id, []byte(h.ID))
			}
		}
		checkBlock := func(how string, b *blockchain.Block, err error) {
			if err != nil {
				t.Fatalf("C08(d) %s %s(height %d id %x): %v", where, how, height, sb.id, err)
			}
			checkHeader(how+".Header", b.Header, nil)
			if enc := b.Encode(); !bytes.Equal(enc, sb.enc) {
				t.Fatalf("C08(d) %s %s: block encoding changed by store/load:\nstored %x\nloaded %x", where, how, sb.enc, enc)
			}
			if len(b.Transactions) != len(sb.txIDs) {
				t.Fatalf("C08(d) %s %s: %d transactions loaded, %d stored", where, how, len(b.Transactions), len(sb.txIDs))
			}
			for j, tx := range b.Transactions {
				if !bytes.Equal(tx.ID, sb.txIDs[j]) || !bytes.Equal(tx.Bytes(), sb.txEncs[j]) || tx.Size() != len(sb.txEncs[j]) {
					t.Fatalf("C08(d) %s %s: transaction %d changed by store/load: id %x -> %x, bytes %x -> %x", where, how, j, sb.txIDs[j], []byte(tx.ID), sb.txEncs[j], tx.Bytes())
				}
			}
			b.Init()
			if !bytes.Equal(b.Header.ID, sb.id) {
				t.Fatalf("C08(d) %s %s: Init() after load changed the block ID %x -> %x", where, how, sb.id, []byte(b.Header.ID))
			}
			for j, tx := range b.Transactions {
				if !bytes.Equal(tx.ID, sb.txIDs[j]) {
					t.Fatalf("C08(d) %s %s: Init() after load changed transaction %d ID %x -> %x", where, how, j, sb.txIDs[j], []byte(tx.ID))
				}
			}
		}
		h, err := da.GetBlockHeader(sb.id)
		checkHeader("GetBlockHeader", h, err)
		h, err = da.GetBlockHeaderByHeight(height)
		checkHeader("GetBlockHeaderByHeight", h, err)
		b, err := da.GetBlock(sb.id)
		checkBlock("GetBlock", b, err)
		b, err = da.GetBlockByHeight(height)
		checkBlock("GetBlockByHeight", b, err)
		for j, id := range sb.txIDs {
			tx, err := da.GetTransaction(id)
			if err != nil {
				t.Fatalf("C08(d) %s GetTransaction(%x): %v", where, id, err)
			}
			if !bytes.Equal(tx.ID, id) || !bytes.Equal(tx.Bytes(), sb.txEncs[j]) || tx.Size() != len(sb.txEncs[j]) {
				t.Fatalf("C08(d) %s GetTransaction: transaction changed by store/load: id %x -> %x, bytes %x -> %x", where, id, []byte(tx.ID), sb.txEncs[j], tx.Bytes())
			}
		}
	}

	cold := blockchain.NewDataAccess(database, 1, 1) // fresh: nothing cached, everything decoded from the database
	for _, sb := range blocks {
		verify("cold DataAccess", cold, sb)
	}
	last := blocks[len(blocks)-1]
	if h, err := cold.GetLastBlockHeader(); err != nil || !bytes.Equal(h.ID, last.id) {
		t.Fatalf("C08(d) GetLastBlockHeader on a cold DataAccess: err=%v id=%v want %x", err, h, last.id)
	}
	for _, sb := range blocks { // through the chain's own (warm) access as well
		verify("warm DataAccess", chain.DataAccess(), sb)
	}

	// the temp-block path: remove the tip keeping a temp copy, reload it from a cold DataAccess
	removed := false
	// (only when the removal cannot empty the block cache: since 3c47278 RemoveBlock then refills the cache through PrepareCache, which
	// reads heights below the tip that a harness chain starting at an arbitrary base height does not have — a harness artefact)
	if len(blocks) >= 2 && cacheSize >= 2 && rapid.Bool().Draw(t, "removeTip") {
		if err := chain.RemoveBlock(database.NewBatch(), true); err != nil {
			t.Fatalf("C08(d) harness: RemoveBlock: %v", err)
		}
		temps, err := blockchain.NewDataAccess(database, 1, 1).GetTempBlocks()
		if err != nil || len(temps) != 1 {
			t.Fatalf("C08(d) GetTempBlocks after RemoveBlock(saveTemp): %d blocks, err %v", len(temps), err)
		}
		tb := temps[0]
		if last.created != "" {
			// A temp block is kept as Block.Encode() and comes back through NewBlock, i.e. with the ID every RECEIVER of those bytes
			// computes: the hash of the re-encoded header (mechanism anchor of the property). For a header created with a nil
			// aggregate commit that re-encoding has field 14 and the creator's encoding has not - the encode-absent / decode-empty
			// asymmetry DESIGN 1.7 keeps out of the domain; no engine caller creates such a header (generator: GetAggregateCommit is
			// never nil; peers: decoded). Unlike the header table, which is keyed by the ID the block was saved under, nothing is
			// looked up by a temp block's ID. Recorded, not demanded; the value itself (absent == empty) and the transactions are.
			norm := &blockchain.Block{Header: absentIsEmpty(tb.Header), Transactions: tb.Transactions, Assets: tb.Assets}
			if !bytes.Equal(norm.Encode(), last.enc) {
				t.Fatalf("C08(d) temp block (created with AggregateCommit == nil) changed by store/load (absent and empty aggregate commit identified):\nstored %x\nloaded %x", last.enc, norm.Encode())
			}
			evid.R.Label("store:created_tip_as_temp_block:id_"+map[bool]string{true: "kept", false: "is_hash_of_reencoding(not_demanded)"}[bytes.Equal(tb.Header.ID, last.id)], 1)
		} else if !bytes.Equal(tb.Header.ID, last.id) || !bytes.Equal(tb.Encode(), last.enc) {
			t.Fatalf("C08(d) temp block changed by store/load: id %x -> %x\nstored %x\nloaded %x", last.id, []byte(tb.Header.ID), last.enc, tb.Encode())
		}
		for j, tx := range tb.Transactions {
			if !bytes.Equal(tx.ID, last.txIDs[j]) {
				t.Fatalf("C08(d) temp block transaction %d ID changed %x -> %x", j, last.txIDs[j], []byte(tx.ID))
			}
		}
		removed = true
	}

	labels := []string{"store", fmt.Sprintf("store:blocks=%d", nBlocks)}
	if anyLenient {
		labels = append(labels, "store:lenient_header")
	}
	if anyCreated {
		labels = append(labels, "store:created_with_nil_aggregate_commit")
	}
	if totalTx > 0 {
		labels = append(labels, "store:with_transactions")
	}
	if removed {
		labels = append(labels, "store:temp_block_reloaded")
	}
	var key bytes.Buffer
	for _, sb := range blocks {
		key.Write(sb.raw)
		key.WriteByte('|')
	}
	// non-trivial: at least one transaction and one asset stored, or a lenient-form header, or a block created with a nil aggregate commit
	nt := anyLenient || anyCreated
	for _, sb := range blocks {
		if sb.nTx > 0 && sb.nAs > 0 {
			nt = true
		}
	}
	evid.R.Case("store|"+key.String(), nt, func() any {
		var bs []any
		for _, sb := range blocks {
			bs = append(bs, map[string]any{"height": sb.blk.Header.Height, "id": fmt.Sprintf("%x", sb.id), "lenientHeader": sb.lenient, "transactions": sb.nTx, "assets": sb.nAs, "raw": clipHex(sb.raw)})
		}
		return map[string]any{"part": "d", "blocks": bs, "tipRemovedToTemp": removed}
	}, labels...)
}

func TestStoreLoad(t *testing.T) { checkScaled(t, 0.02, storeCase) }

// Fixed case (seed independent, every tier) for the seeded change "getBlockHeader computes the ID of a loaded header by
// Decode + Init": three consecutive blocks created with AggregateCommit == nil by the three constructors, stored as the very
// objects in a chain whose block cache holds one block (the older ones are cache misses even on the chain's own access),
// then read through every DataAccess path, cold and warm.
func TestRegressStoreLoadNilAggregateCommit(t *testing.T) {
	database, err := db.NewInMemoryDB()
	if err != nil {
		t.Fatalf("harness: in-memory db: %v", err)
	}
	defer database.Close()
	chain := blockchain.NewChain(&blockchain.ChainConfig{ChainID: storeChainID, MaxTransactionsLength: 15 * 1024, MaxBlockCache: 1, KeepEventsForHeights: -1})
	fill := func(n int, b byte) []byte { return bytes.Repeat([]byte{b}, n) }
	var blocks []*storedBlock
	prev := fill(32, 0)
	for i, ctor := range createdCtors {
		lit := &blockchain.BlockHeader{Version: 2, Timestamp: 1000 + 10*uint32(i), Height: 7 + uint32(i), PreviousBlockID: prev, GeneratorAddress: fill(20, 0x11),
			TransactionRoot: fill(32, 0x22), AssetRoot: fill(32, 0x33), EventRoot: fill(32, 0x44), StateRoot: fill(32, 0x55), MaxHeightPrevoted: 3, MaxHeightGenerated: 2,
			ImpliesMaxPrevotes: i == 1, ValidatorsHash: fill(32, 0x66), Signature: fill(64, 0x77)}
		header, err := createHeader(lit, ctor, fill(ed25519.SeedSize, byte(i+1)))
		if err != nil || header.AggregateCommit != nil {
			t.Fatalf("harness: %s: %v", ctor, err)
		}
		tx := &blockchain.Transaction{Module: "token", Command: "transfer", Nonce: uint64(i), Fee: 1000, SenderPublicKey: fill(32, 0x88), Params: []byte{1, 2, 3}, Signatures: []codec.Hex{fill(64, 0x99)}}
		value := &blockchain.Block{Header: header, Transactions: []*blockchain.Transaction{tx}, Assets: []*blockchain.BlockAsset{{Module: "mod", Data: []byte{byte(i)}}}}
		value.Init()
		sb := &storedBlock{nTx: 1, nAs: 1, created: ctor, blk: value, raw: value.Encode(), enc: value.Encode(), hdrEnc: header.Encode(), id: append([]byte{}, header.ID...),
			txIDs: [][]byte{append([]byte{}, tx.ID...)}, txEncs: [][]byte{tx.Encode()}}
		if !bytes.Equal(sb.id, sha(sb.hdrEnc)) {
			t.Fatalf("C08(d) %s: block ID %x is not SHA-256 of the encoded header %x", ctor, sb.id, sb.hdrEnc)
		}
		if bytes.Contains(sb.hdrEnc, []byte{0x72, 0x06, 0x08, 0x00, 0x12, 0x00, 0x1a, 0x00}) {
			t.Fatalf("harness: the encoding of a header with a nil aggregate commit contains field 14: %x", sb.hdrEnc)
		}
		blocks = append(blocks, sb)
		prev = sb.id
	}
	chain.Init(blocks[0].blk, database)
	for _, sb := range blocks {
		if err := chain.AddBlock(database.NewBatch(), sb.blk, nil, 0, false); err != nil {
			t.Fatalf("C08(d) harness: AddBlock(height %d): %v", sb.blk.Header.Height, err)
		}
		if !bytes.Equal(sb.blk.Header.ID, sb.id) || sb.blk.Header.AggregateCommit != nil || !bytes.Equal(sb.blk.Encode(), sb.enc) {
			t.Fatalf("C08(d) AddBlock modified the block: id %x -> %x", sb.id, []byte(sb.blk.Header.ID))
		}
	}
	for i, sb := range blocks {
		last := i == len(blocks)-1
		verifyCreated(t, "cold DataAccess", blockchain.NewDataAccess(database, 1, 1), sb, last, false)
		verifyCreated(t, "warm DataAccess (cache of one block)", chain.DataAccess(), sb, last, true)
		evid.R.Case(fmt.Sprintf("store-fixed-created|%x", sb.raw), true, func() any {
			return map[string]any{"part": "d", "fixed": "created with AggregateCommit == nil", "constructor": sb.created, "id": fmt.Sprintf("%x", sb.id), "header": fmt.Sprintf("%x", sb.hdrEnc)}
		}, "store_fixed_created", "store:created_nil_aggregate_commit:"+sb.created)
	}
}
