package c08

// Part (c): transactions. For ANY byte string s:  DecodeStrict(s) == nil  =>  Encode(decoded) == s, and the transaction ID
// is SHA-256 of exactly s. (This is the contract the repo's own FuzzTransactionCodec states.) The implication covers every
// non-canonical form at once, so the derived strings below need no per-mutation expectation.

import (
	"bufio"
	"bytes"
	"crypto/sha256"
	"encoding/hex"
	"fmt"
	"os"
	"path/filepath"
	"sort"
	"strconv"
	"strings"
	"testing"
	"unicode/utf8"

	"github.com/LiskHQ/lisk-engine/pkg/blockchain"
	"github.com/LiskHQ/lisk-engine/pkg/codec"
	"pgregory.net/rapid"

	"verifharness/evid"
)

// ---- the oracle ---------------------------------------------------------------------------------------------------

// txImplication returns (accepted, problem).
func txImplication(s []byte) (bool, string) {
	tx := &blockchain.Transaction{}
	err := tx.DecodeStrict(s)
	ntx, nerr := blockchain.NewTransaction(s)
	if (err == nil) != (nerr == nil) {
		return err == nil, fmt.Sprintf("DecodeStrict err=%v but NewTransaction err=%v", err, nerr)
	}
	// Canonical form is decided by the package's OWN wire model (canonicalTx: parseWire with shortest varints + the field
	// list of the transaction schema), not by the encoder under test alone: Encode(DecodeStrict(s)) == s is a round trip
	// through two halves of the same codec and a consistent drift of both (audit 2026-09) would be mirrored by it.
	canon, why, fields := canonicalTx(s)
	if err != nil {
		if canon {
			// "strict decoding accepts its own encodings": the value with exactly these fields encodes to exactly s
			v := &blockchain.Transaction{Module: string(fields[0].data), Command: string(fields[1].data), Nonce: fields[2].val, Fee: fields[3].val,
				SenderPublicKey: fields[4].data, Params: fields[5].data}
			for _, f := range fields[6:] {
				v.Signatures = append(v.Signatures, f.data)
			}
			if bytes.Equal(v.Encode(), s) {
				return false, fmt.Sprintf("DecodeStrict rejects (%v) a byte string that is canonical by the wire model and is the encoding Encode() produces for the value with these fields", err)
			}
			// (model and encoder disagree about this value: that is the business of the Encode()-vs-wire-model assertion on
			// generated values in txDerivedCase, not of the acceptance rule)
		}
		return false, ""
	}
	if !canon {
		return true, fmt.Sprintf("DecodeStrict accepted a byte string that is not canonical by the wire model (%s); it re-encodes to %x", why, tx.Encode())
	}
	if re := tx.Encode(); !bytes.Equal(re, s) {
		return true, fmt.Sprintf("DecodeStrict accepted a byte string that is not its own canonical encoding: re-encodes to %x", re)
	}
	sum := sha256.Sum256(s)
	if !bytes.Equal(ntx.ID, sum[:]) {
		return true, fmt.Sprintf("NewTransaction ID %x is not SHA-256 of the accepted bytes (%x)", []byte(ntx.ID), sum[:])
	}
	if ntx.Size() != len(s) {
		return true, fmt.Sprintf("NewTransaction size %d != %d accepted bytes", ntx.Size(), len(s))
	}
	if !bytes.Equal(ntx.Bytes(), s) {
		return true, fmt.Sprintf("NewTransaction(s).Bytes() = %x", ntx.Bytes())
	}
	// re-encoding / re-initialising does not move the ID
	ntx.Init()
	if !bytes.Equal(ntx.ID, sum[:]) {
		return true, fmt.Sprintf("ID after Init() %x != %x", []byte(ntx.ID), sum[:])
	}
	return true, ""
}

// canonicalTx decides, with the wire model of this package alone (parseWire/readVarint/leb, no engine code), whether s is
// the canonical wire form of a transaction: every key, length prefix and value varint in shortest form, wire types as in
// the schema, the fields module(1, string) command(2, string) nonce(3, varint) fee(4, varint) senderPublicKey(5, bytes)
// params(6, bytes) each exactly once and in this order, then any number of signatures(7, bytes), nothing missing, nothing
// else, nothing trailing; strings valid UTF-8 in NFC. Returns the fields when canonical.
func canonicalTx(s []byte) (bool, string, []wfield) {
	fs, ok := parseWire(s, true)
	if !ok {
		return false, "does not parse as a sequence of wire-type 0/2 fields with shortest varints and in-bounds lengths", nil
	}
	if len(fs) < 6 {
		return false, fmt.Sprintf("%d fields, a transaction has at least 6", len(fs)), nil
	}
	wantWT := []int{2, 2, 0, 0, 2, 2}
	for i := 0; i < 6; i++ {
		if fs[i].num != i+1 || fs[i].wt != wantWT[i] {
			return false, fmt.Sprintf("field %d has number %d wire type %d, expected number %d wire type %d", i, fs[i].num, fs[i].wt, i+1, wantWT[i]), nil
		}
	}
	for i := 6; i < len(fs); i++ {
		if fs[i].num != 7 || fs[i].wt != 2 {
			return false, fmt.Sprintf("field %d has number %d wire type %d, only signatures (7, bytes) may follow", i, fs[i].num, fs[i].wt), nil
		}
	}
	for i := 0; i < 2; i++ {
		if !utf8.Valid(fs[i].data) {
			return false, fmt.Sprintf("string field %d is not valid UTF-8", i+1), nil
		}
		if nfc(string(fs[i].data)) != string(fs[i].data) {
			return false, fmt.Sprintf("string field %d is not in NFC", i+1), nil
		}
	}
	return true, "", fs
}

// ---- a tiny independent wire model --------------------------------------------------------------------------------

type wfield struct {
	num, wt int
	val     uint64 // wire type 0
	data    []byte // wire type 2
	keyPad  int    // extra (non-shortest) bytes in the key varint
	lenPad  int    // extra bytes in the length varint
	valPad  int    // extra bytes in the value varint
	lenAdj  int    // declared length = len(data)+lenAdj
	raw     []byte // if set: emitted verbatim instead of the field
}

// lebPad encodes v with `extra` superfluous continuation bytes (non-shortest form), at most 10 bytes in total.
func lebPad(v uint64, extra int) []byte {
	b := leb(v)
	for extra > 0 && len(b) < 10 {
		b[len(b)-1] |= 0x80
		b = append(b, 0x00)
		extra--
	}
	return b
}

func (f wfield) bytes() []byte {
	if f.raw != nil {
		return f.raw
	}
	out := lebPad(uint64(f.num)<<3|uint64(f.wt), f.keyPad)
	switch f.wt {
	case 0:
		out = append(out, lebPad(f.val, f.valPad)...)
	case 2:
		n := len(f.data) + f.lenAdj
		if n < 0 {
			n = 0
		}
		out = append(out, lebPad(uint64(n), f.lenPad)...)
		out = append(out, f.data...)
	default: // other wire types: key followed by the value varint
		out = append(out, lebPad(f.val, 0)...)
	}
	return out
}

func serialize(fs []wfield) []byte {
	var out []byte
	for _, f := range fs {
		out = append(out, f.bytes()...)
	}
	return out
}

// txFields is the wire model of the canonical encoding (LIP-0027 order: fields 1..6 always present, 7 repeated).
func txFields(tx *blockchain.Transaction, rawModule, rawCommand []byte) []wfield {
	fs := []wfield{
		{num: 1, wt: 2, data: rawModule},
		{num: 2, wt: 2, data: rawCommand},
		{num: 3, wt: 0, val: tx.Nonce},
		{num: 4, wt: 0, val: tx.Fee},
		{num: 5, wt: 2, data: tx.SenderPublicKey},
		{num: 6, wt: 2, data: tx.Params},
	}
	for _, s := range tx.Signatures {
		fs = append(fs, wfield{num: 7, wt: 2, data: s})
	}
	return fs
}

// tolerant structural parse of the first field (for the non-trivial rule): any varint form, bounds checked.
func parsesPastFirstField(s []byte) bool {
	rd := func(off int) (uint64, int, bool) {
		var v uint64
		for i := 0; i < 10; i++ {
			if off+i >= len(s) {
				return 0, 0, false
			}
			b := s[off+i]
			v |= uint64(b&0x7f) << (7 * uint(i))
			if b&0x80 == 0 {
				return v, i + 1, true
			}
		}
		return 0, 0, false
	}
	key, n, ok := rd(0)
	if !ok {
		return false
	}
	off := n
	switch key & 7 {
	case 0:
		_, m, ok := rd(off)
		if !ok {
			return false
		}
		off += m
	case 2:
		l, m, ok := rd(off)
		if !ok || l > uint64(len(s)-off-m) {
			return false
		}
		off += m + int(l)
	default:
		return false
	}
	return off < len(s)
}

// ---- generated canonical encodings and derived byte strings ---------------------------------------------------------

func genTx(t *rapid.T, label string) *blockchain.Transaction {
	return genTxShape(t, label, rapid.IntRange(0, 5).Draw(t, label+"_shape"))
}

// genTxShape: shape 0 = every field empty, 1/2 = the shape Validate() asks for, 3.. = anything the schema can hold.
func genTxShape(t *rapid.T, label string, shape int) *blockchain.Transaction {
	tx := &blockchain.Transaction{}
	switch shape {
	case 0: // every field empty
	case 1, 2: // the shape Validate() asks for
		tx.Module = rapid.SampledFrom([]string{"token", "pos", "a", "interoperability", "Module9"}).Draw(t, label+"_module")
		tx.Command = rapid.SampledFrom([]string{"transfer", "stake", "c", "0"}).Draw(t, label+"_command")
		tx.Nonce = genU64(t, label+"_nonce")
		tx.Fee = genU64(t, label+"_fee")
		tx.SenderPublicKey = rapid.SliceOfN(rapid.Byte(), 32, 32).Draw(t, label+"_pk")
		tx.Params = genBytes(t, label+"_params", nil, false)
		n := rapid.IntRange(1, 3).Draw(t, label+"_nsig")
		for i := 0; i < n; i++ {
			tx.Signatures = append(tx.Signatures, rapid.SliceOfN(rapid.Byte(), 64, 64).Draw(t, fmt.Sprintf("%s_sig%d", label, i)))
		}
	default: // anything the schema can hold
		tx.Module = genString(t, label+"_module", nil)
		tx.Command = genString(t, label+"_command", nil)
		tx.Nonce = genU64(t, label+"_nonce")
		tx.Fee = genU64(t, label+"_fee")
		tx.SenderPublicKey = genBytes(t, label+"_pk", nil, false)
		tx.Params = genBytes(t, label+"_params", nil, true)
		n := sliceLen(t, label+"_sigs")
		for i := 0; i < n; i++ {
			b := genBytes(t, fmt.Sprintf("%s_sig%d", label, i), nil, false)
			if b == nil {
				b = []byte{}
			}
			tx.Signatures = append(tx.Signatures, b)
		}
	}
	return tx
}

var mutationKinds = []string{
	"key_nonshortest", "len_nonshortest", "val_nonshortest", "swap_fields", "drop_field", "dup_field", "trailing_bytes",
	"trailing_field", "wiretype", "fieldnumber", "string_nonNFC", "string_badUTF8", "len_adjust", "varint_overflow",
	"truncate", "splice", "bool_like_2",
}

// mutate applies one mutation to the field list (or, for byte-level ones, returns a post-serialisation function).
func mutate(t *rapid.T, fs []wfield, kind string, i int) ([]wfield, func([]byte) []byte) {
	pick := func(ok func(wfield) bool) int {
		var idx []int
		for j, f := range fs {
			if ok(f) {
				idx = append(idx, j)
			}
		}
		if len(idx) == 0 {
			return -1
		}
		return idx[rapid.IntRange(0, len(idx)-1).Draw(t, fmt.Sprintf("m%d_field", i))]
	}
	anyF := func(wfield) bool { return true }
	switch kind {
	case "key_nonshortest":
		if j := pick(anyF); j >= 0 {
			fs[j].keyPad = rapid.IntRange(1, 9).Draw(t, fmt.Sprintf("m%d_pad", i))
		}
	case "len_nonshortest":
		if j := pick(func(f wfield) bool { return f.wt == 2 }); j >= 0 {
			fs[j].lenPad = rapid.IntRange(1, 9).Draw(t, fmt.Sprintf("m%d_pad", i))
		}
	case "val_nonshortest":
		if j := pick(func(f wfield) bool { return f.wt == 0 }); j >= 0 {
			fs[j].valPad = rapid.IntRange(1, 9).Draw(t, fmt.Sprintf("m%d_pad", i))
		}
	case "swap_fields":
		if len(fs) >= 2 {
			a := rapid.IntRange(0, len(fs)-1).Draw(t, fmt.Sprintf("m%d_a", i))
			b := rapid.IntRange(0, len(fs)-1).Draw(t, fmt.Sprintf("m%d_b", i))
			fs[a], fs[b] = fs[b], fs[a]
		}
	case "drop_field":
		if j := pick(anyF); j >= 0 {
			fs = append(fs[:j:j], fs[j+1:]...)
		}
	case "dup_field":
		if j := pick(anyF); j >= 0 {
			at := j + 1
			if rapid.Bool().Draw(t, fmt.Sprintf("m%d_atend", i)) {
				at = len(fs)
			}
			dup := fs[j]
			fs = append(fs[:at:at], append([]wfield{dup}, fs[at:]...)...)
		}
	case "trailing_bytes":
		extra := rapid.SliceOfN(rapid.Byte(), 1, 4).Draw(t, fmt.Sprintf("m%d_extra", i))
		fs = append(fs, wfield{raw: extra})
	case "trailing_field":
		num := rapid.SampledFrom([]int{0, 1, 6, 8, 9, 15, 16}).Draw(t, fmt.Sprintf("m%d_num", i))
		if rapid.Bool().Draw(t, fmt.Sprintf("m%d_wt", i)) {
			fs = append(fs, wfield{num: num, wt: 0, val: genU64(t, fmt.Sprintf("m%d_val", i))})
		} else {
			fs = append(fs, wfield{num: num, wt: 2, data: genBytes(t, fmt.Sprintf("m%d_data", i), nil, false)})
		}
	case "wiretype":
		if j := pick(anyF); j >= 0 {
			fs[j].wt = rapid.SampledFrom([]int{0, 1, 2, 3, 4, 5, 6, 7}).Draw(t, fmt.Sprintf("m%d_wt", i))
			if fs[j].wt != 2 && fs[j].data != nil {
				fs[j].val = uint64(len(fs[j].data))
			}
		}
	case "fieldnumber":
		if j := pick(anyF); j >= 0 {
			fs[j].num = rapid.SampledFrom([]int{0, 1, 2, 3, 4, 5, 6, 7, 8, 15, 16, 1 << 20}).Draw(t, fmt.Sprintf("m%d_num", i))
			// aliases of the expected key modulo 2^32 / 2^16 / 2^8 of the KEY varint (field number + k*2^29 etc.): a reader that narrows the
			// key would take them for the canonical one (seed regression: seeded C08-e was no longer met by any generated field number)
			if a := rapid.IntRange(0, 5).Draw(t, fmt.Sprintf("m%d_alias", i)); a > 0 {
				orig := j + 1
				if orig > 7 {
					orig = 7
				}
				fs[j].num = orig + []int{0, 1 << 29, 2 << 29, 1 << 13, 1 << 5, 7 << 29}[a]
			}
		}
	case "string_nonNFC":
		if j := pick(func(f wfield) bool { return f.num <= 2 && f.wt == 2 }); j >= 0 {
			p := rapid.SampledFrom(strPieces[21:]).Draw(t, fmt.Sprintf("m%d_piece", i)) // the non-NFC pieces
			fs[j].data = append(append([]byte{}, fs[j].data...), p...)
		}
	case "string_badUTF8":
		if j := pick(func(f wfield) bool { return f.num <= 2 && f.wt == 2 }); j >= 0 {
			p := rapid.SampledFrom([][]byte{{0xff}, {0xc0, 0x80}, {0xed, 0xa0, 0x80}, {0xf4, 0x90, 0x80, 0x80}, {0xe2, 0x82}, {0x80}}).Draw(t, fmt.Sprintf("m%d_piece", i))
			fs[j].data = append(append([]byte{}, fs[j].data...), p...)
		}
	case "len_adjust":
		if j := pick(func(f wfield) bool { return f.wt == 2 }); j >= 0 {
			fs[j].lenAdj = rapid.SampledFrom([]int{-2, -1, 1, 2, 127, 1 << 20}).Draw(t, fmt.Sprintf("m%d_adj", i))
		}
	case "varint_overflow":
		// 10-byte varint whose last byte carries bits beyond 2^64, or 11 bytes
		if j := pick(func(f wfield) bool { return f.wt == 0 }); j >= 0 {
			last := rapid.SampledFrom([]byte{0x02, 0x7f, 0x81}).Draw(t, fmt.Sprintf("m%d_last", i))
			raw := lebPad(uint64(fs[j].num)<<3, 0)
			raw = append(raw, bytes.Repeat([]byte{0xff}, 9)...)
			raw = append(raw, last)
			if last&0x80 != 0 {
				raw = append(raw, 0x00)
			}
			fs[j].raw = raw
		}
	case "bool_like_2":
		// transactions have no boolean field; the nearest byte-level analogue: a one-byte varint value replaced by 2..255
		if j := pick(func(f wfield) bool { return f.wt == 0 }); j >= 0 {
			fs[j].val = uint64(rapid.IntRange(2, 255).Draw(t, fmt.Sprintf("m%d_v", i)))
		}
	case "truncate":
		return fs, func(b []byte) []byte {
			if len(b) == 0 {
				return b
			}
			return b[:rapid.IntRange(0, len(b)-1).Draw(t, fmt.Sprintf("m%d_cut", i))]
		}
	case "splice":
		return fs, func(b []byte) []byte {
			p := rapid.IntRange(0, len(b)).Draw(t, fmt.Sprintf("m%d_pos", i))
			del := rapid.IntRange(0, 3).Draw(t, fmt.Sprintf("m%d_del", i))
			if p+del > len(b) {
				del = len(b) - p
			}
			ins := rapid.SliceOfN(rapid.Byte(), 0, 3).Draw(t, fmt.Sprintf("m%d_ins", i))
			out := append([]byte{}, b[:p]...)
			out = append(out, ins...)
			return append(out, b[p+del:]...)
		}
	}
	return fs, nil
}

func txDerivedCase(t *rapid.T) {
	tx := genTx(t, "tx")
	canonical := tx.Encode()
	// independent serialisation of the canonical form must agree with the engine (ties the wire model to the real codec)
	fs := txFields(tx, []byte(nfc(tx.Module)), []byte(nfc(tx.Command)))
	if mine := serialize(fs); !bytes.Equal(mine, canonical) {
		t.Fatalf("C08(c) Encode() = %x differs from the LIP-0027 wire model %x for %v", canonical, mine, renderTx(tx))
	}
	nmut := rapid.SampledFrom([]int{0, 1, 1, 1, 1, 2, 2, 3}).Draw(t, "nmut")
	var kinds []string
	var post []func([]byte) []byte
	for i := 0; i < nmut; i++ {
		kind := rapid.SampledFrom(mutationKinds).Draw(t, fmt.Sprintf("m%d_kind", i))
		kinds = append(kinds, kind)
		var p func([]byte) []byte
		fs, p = mutate(t, fs, kind, i)
		if p != nil {
			post = append(post, p)
		}
	}
	s := serialize(fs)
	for _, p := range post {
		s = p(s)
	}
	accepted, problem := txImplication(s)
	isCanon := bytes.Equal(s, canonical)
	labels := []string{"tx_derived"}
	for _, k := range kinds {
		labels = append(labels, "tx_mut:"+k)
	}
	switch {
	case nmut == 0:
		labels = append(labels, "tx:canonical")
	case isCanon:
		labels = append(labels, "tx:mutation_was_identity")
	case accepted:
		labels = append(labels, "tx:derived_accepted(another canonical string)")
	default:
		labels = append(labels, "tx:derived_rejected")
	}
	evid.R.Case("tx|"+string(s), parsesPastFirstField(s), func() any {
		return map[string]any{"part": "c", "tx": renderTx(tx), "mutations": kinds, "bytes": clipHex(s), "accepted": accepted}
	}, labels...)
	if nmut == 0 && !accepted {
		t.Fatalf("C08(c) strict decoding rejects the transaction's own encoding %x (%v)", s, renderTx(tx))
	}
	if problem != "" {
		t.Fatalf("C08(c) %s\nbytes     = %x\nderived from %v (canonical %x) by %v", problem, s, renderTx(tx), canonical, kinds)
	}
}

func TestTxDerivedStrings(t *testing.T) { checkScaled(t, 1, txDerivedCase) }

func renderTx(tx *blockchain.Transaction) any {
	sigs := make([]string, len(tx.Signatures))
	for i, s := range tx.Signatures {
		sigs[i] = clipHex(s)
	}
	return map[string]any{"module": fmt.Sprintf("%+q", tx.Module), "command": fmt.Sprintf("%+q", tx.Command), "nonce": strconv.FormatUint(tx.Nonce, 10),
		"fee": strconv.FormatUint(tx.Fee, 10), "senderPublicKey": clipHex(tx.SenderPublicKey), "params": clipHex(tx.Params), "signatures": sigs}
}

// ---- exhaustive parts ----------------------------------------------------------------------------------------------

func shardInfo() (int, int) {
	n, _ := strconv.Atoi(os.Getenv("VERIF_SHARDS"))
	i, _ := strconv.Atoi(os.Getenv("VERIF_SHARD"))
	if n < 1 {
		n, i = 1, 0
	}
	return i, n
}

func failBytes(t *testing.T, name string, s []byte, problem string) {
	p := evid.R.FailCase(name, map[string]any{"kind": "tx_bytes", "hex": hex.EncodeToString(s)})
	t.Fatalf("C08(c) %s\nbytes = %x (case written to %s)", problem, s, p)
}

// All byte strings of length <= 2 (<= 3 in the thorough tier, split over the shards by first byte).
func TestTxShortStringsExhaustive(t *testing.T) {
	maxLen := 2
	if evid.Thorough() {
		maxLen = 3
	}
	shard, shards := shardInfo()
	var n, acc int64
	var rec func(prefix []byte)
	rec = func(prefix []byte) {
		if len(prefix) == 0 || int(prefix[0])%shards == shard {
			a, problem := txImplication(prefix)
			n++
			if a {
				acc++
			}
			if problem != "" {
				failBytes(t, "short", prefix, problem)
			}
		} else {
			return
		}
		if len(prefix) == maxLen {
			return
		}
		for b := 0; b < 256; b++ {
			rec(append(prefix[:len(prefix):len(prefix)], byte(b)))
		}
	}
	rec(nil)
	evid.R.Count(n, "tx_short_exhaustive")
	evid.R.Label("tx_short_exhaustive:accepted", acc)
	if acc > 0 || shard == 0 {
		evid.R.Note("tx short strings: every byte string of length <= %d through DecodeStrict/NewTransaction, split over %d shard(s) by first byte (%d strings in shard %d, %d accepted)", maxLen, shards, n, shard, acc)
	}
}

func windowBases() [][]byte {
	min := (&blockchain.Transaction{}).Encode()
	small := (&blockchain.Transaction{Module: "ab", Command: "c", Nonce: 1, Fee: 300, SenderPublicKey: []byte{0xaa, 0xbb}, Params: []byte{0x07},
		Signatures: []codec.Hex{{0x55}, {}}}).Encode()
	bases := [][]byte{min, small}
	if evid.Thorough() {
		uni := (&blockchain.Transaction{Module: "é", Command: "가", Nonce: 127, Fee: 1 << 63, SenderPublicKey: bytes.Repeat([]byte{1}, 3),
			Signatures: []codec.Hex{{}, {}}}).Encode()
		bases = append(bases, uni)
	}
	return bases
}

// Window-exhaustive derived strings: in small canonical encodings, every window of 0..2 bytes at every position is replaced
// by every byte string of length <= 2 (systematic version of the splice mutation).
func TestTxWindowExhaustive(t *testing.T) {
	shard, shards := shardInfo()
	var n, acc, accNonCanon int64
	for bi, base := range windowBases() {
		if a, _ := txImplication(base); !a {
			t.Fatalf("C08(c) base encoding %x rejected by strict decoding", base)
		}
		for p := 0; p <= len(base); p++ {
			if (p+bi)%shards != shard {
				continue
			}
			for w := 0; w <= 2 && p+w <= len(base); w++ {
				buf := make([]byte, 0, len(base)+2)
				try := func(repl ...byte) {
					buf = append(buf[:0], base[:p]...)
					buf = append(buf, repl...)
					buf = append(buf, base[p+w:]...)
					a, problem := txImplication(buf)
					n++
					if a {
						acc++
						if !bytes.Equal(buf, base) {
							accNonCanon++
						}
					}
					if problem != "" {
						failBytes(t, "window", buf, problem)
					}
				}
				try()
				for a := 0; a < 256; a++ {
					try(byte(a))
					for b := 0; b < 256; b++ {
						try(byte(a), byte(b))
					}
				}
			}
		}
	}
	evid.R.Count(n, "tx_window_exhaustive")
	evid.R.Label("tx_window_exhaustive:accepted", acc)
	evid.R.Label("tx_window_exhaustive:accepted_other_than_base", accNonCanon)
}

// Replay of a saved exhaustive failure: VERIF_REPLAY_CASE=<json with kind tx_bytes>.
func TestReplayTxBytes(t *testing.T) {
	p := os.Getenv("VERIF_REPLAY_CASE")
	if p == "" {
		t.Skip("no replay case")
	}
	raw, err := os.ReadFile(p)
	if err != nil {
		t.Fatal(err)
	}
	var c struct{ Kind, Hex string }
	if err := jsonUnmarshal(raw, &c); err != nil || c.Kind != "tx_bytes" {
		t.Skip("not a tx_bytes case")
	}
	s, err := hex.DecodeString(c.Hex)
	if err != nil {
		t.Fatal(err)
	}
	if _, problem := txImplication(s); problem != "" {
		t.Fatalf("C08(c) %s\nbytes = %x", problem, s)
	}
}

// ---- seed corpus + native fuzz target -------------------------------------------------------------------------------

// corpusSeeds: /verif/corpus/C08/*.hex, one hex string per line ('#' comments).
func corpusSeeds() [][]byte {
	var out [][]byte
	files, _ := filepath.Glob(filepath.Join(evid.Root(), "corpus", "C08", "*.hex"))
	sort.Strings(files)
	for _, f := range files {
		fh, err := os.Open(f)
		if err != nil {
			continue
		}
		sc := bufio.NewScanner(fh)
		sc.Buffer(make([]byte, 1<<20), 1<<20)
		for sc.Scan() {
			line := strings.TrimSpace(sc.Text())
			if i := strings.IndexByte(line, '#'); i >= 0 {
				line = strings.TrimSpace(line[:i])
			}
			if line == "-" {
				out = append(out, []byte{})
				continue
			}
			if line == "" {
				continue
			}
			if b, err := hex.DecodeString(line); err == nil {
				out = append(out, b)
			}
		}
		fh.Close()
	}
	return out
}

// FuzzTxStrict: under plain `go test` (every tier) this runs the seed corpus only; as a coverage-guided campaign:
//
//	cd /verif/harness && GOFLAGS=-mod=mod go test -tags verif -vet=off ./c08 -run '^$' -fuzz '^FuzzTxStrict$' -fuzztime 5m
func FuzzTxStrict(f *testing.F) {
	seeds := corpusSeeds()
	for _, b := range windowBases() {
		seeds = append(seeds, b)
	}
	for _, s := range seeds {
		f.Add(s)
	}
	if shard, _ := shardInfo(); shard == 0 {
		evid.R.Label("tx_fuzz_seed_corpus", int64(len(seeds)))
	}
	f.Fuzz(func(t *testing.T, s []byte) {
		accepted, problem := txImplication(s)
		l := "tx_fuzz:rejected"
		if accepted {
			l = "tx_fuzz:accepted"
		}
		evid.R.Case("tx|"+string(s), parsesPastFirstField(s), nil, "tx_fuzz", l)
		if problem != "" {
			t.Fatalf("C08(c) %s\nbytes = %x", problem, s)
		}
	})
}
