package c08

// Part (e): Lisk32 addresses. bytes -> text -> bytes is the identity for 20-byte addresses; text produced by the encoder
// round-trips; any substitution of 1..4 characters inside the 38 data/checksum characters is rejected (the BCH code of
// LIP-0018 detects up to 4 errors). The three prefix letters are not part of the checksum claim and are left alone.

import (
	"bytes"
	"fmt"
	"testing"

	"github.com/LiskHQ/lisk-engine/pkg/codec"
	"pgregory.net/rapid"

	"verifharness/evid"
)

const lisk32Alphabet = "zxvcpmbn3465o978uyrtkqew2adsjhfg" // LIP-0018

func lisk32RoundTrip(t failer, addr []byte) string {
	text, err := codec.BytesToLisk32(addr)
	if err != nil {
		t.Fatalf("C08(e) BytesToLisk32(%x): %v", addr, err)
	}
	if len(text) != 41 || text[:3] != "lsk" {
		t.Fatalf("C08(e) BytesToLisk32(%x) = %q: not 'lsk' + 38 characters", addr, text)
	}
	for i := 3; i < 41; i++ {
		if !bytes.ContainsRune([]byte(lisk32Alphabet), rune(text[i])) {
			t.Fatalf("C08(e) BytesToLisk32(%x) = %q: character %q outside the Lisk32 alphabet", addr, text, text[i])
		}
	}
	if err := codec.ValidateLisk32(text); err != nil {
		t.Fatalf("C08(e) ValidateLisk32 rejects the encoder's own output %q (address %x): %v", text, addr, err)
	}
	back, err := codec.Lisk32ToBytes(text)
	if err != nil || !bytes.Equal(back, addr) {
		t.Fatalf("C08(e) Lisk32ToBytes(BytesToLisk32(%x)=%q) = %x, err %v", addr, text, back, err)
	}
	text2, err := codec.BytesToLisk32(back)
	if err != nil || text2 != text {
		t.Fatalf("C08(e) text round trip: %q -> %x -> %q (err %v)", text, back, text2, err)
	}
	// the typed wrapper agrees
	if s := codec.Lisk32(addr).String(); s != text {
		t.Fatalf("C08(e) Lisk32(%x).String() = %q, BytesToLisk32 = %q", addr, s, text)
	}
	return text
}

func mustReject(t failer, orig, corrupted string, what string) {
	if err := codec.ValidateLisk32(corrupted); err == nil {
		t.Fatalf("C08(e) ValidateLisk32 accepts %q, which is %q with %s", corrupted, orig, what)
	}
	if b, err := codec.Lisk32ToBytes(corrupted); err == nil {
		t.Fatalf("C08(e) Lisk32ToBytes accepts %q (-> %x), which is %q with %s", corrupted, b, orig, what)
	}
}

func boundaryAddresses() [][]byte {
	var out [][]byte
	for _, f := range []byte{0x00, 0xff, 0x80, 0x7f, 0x01, 0xaa, 0x55, 0x1f, 0xf8} {
		out = append(out, bytes.Repeat([]byte{f}, 20))
	}
	for bit := 0; bit < 160; bit++ { // every single-bit address and its complement
		a := make([]byte, 20)
		a[bit/8] = 1 << (7 - uint(bit%8))
		out = append(out, a)
		c := bytes.Repeat([]byte{0xff}, 20)
		c[bit/8] ^= 1 << (7 - uint(bit%8))
		out = append(out, c)
	}
	seq := make([]byte, 20)
	for i := range seq {
		seq[i] = byte(i * 13)
	}
	return append(out, seq)
}

// Boundary addresses; for each of them EVERY single-character substitution (38 positions x 31 other characters) is rejected.
func TestLisk32BoundaryExhaustive(t *testing.T) {
	for _, addr := range boundaryAddresses() {
		text := lisk32RoundTrip(t, addr)
		evid.R.Case("lisk32|"+text, true, func() any { return map[string]any{"part": "e", "address": fmt.Sprintf("%x", addr), "text": text} }, "lisk32_boundary")
		n := int64(0)
		for pos := 3; pos < 41; pos++ {
			for _, c := range []byte(lisk32Alphabet) {
				if c == text[pos] {
					continue
				}
				b := []byte(text)
				b[pos] = c
				mustReject(t, text, string(b), fmt.Sprintf("position %d substituted", pos))
				n++
			}
		}
		evid.R.Count(n, "lisk32_single_substitution_exhaustive")
	}
	// the empty address maps to the empty string and back (the codec treats it as "absent")
	if s, err := codec.BytesToLisk32([]byte{}); err != nil || s != "" {
		t.Fatalf("C08(e) BytesToLisk32(empty) = %q, %v", s, err)
	}
	if b, err := codec.Lisk32ToBytes(""); err != nil || len(b) != 0 {
		t.Fatalf("C08(e) Lisk32ToBytes(\"\") = %x, %v", b, err)
	}
}

func lisk32Case(t *rapid.T) {
	var addr []byte
	if rapid.IntRange(0, 4).Draw(t, "mode") == 0 {
		addr = rapid.SampledFrom(boundaryAddresses()).Draw(t, "boundary")
	} else {
		addr = rapid.SliceOfN(rapid.Byte(), 20, 20).Draw(t, "address")
	}
	text := lisk32RoundTrip(t, addr)
	// 1..4 substituted characters among positions 3..40
	k := rapid.IntRange(1, 4).Draw(t, "substitutions")
	positions := map[int]bool{}
	b := []byte(text)
	outside := false
	for len(positions) < k {
		pos := rapid.IntRange(3, 40).Draw(t, "pos")
		if positions[pos] {
			continue
		}
		positions[pos] = true
		var c byte
		if rapid.IntRange(0, 9).Draw(t, "charclass") == 0 {
			// a character outside the alphabet (upper case, excluded letters/digits, punctuation)
			c = rapid.SampledFrom([]byte("AZLSKbi01l -_=1IOioBG\x00\x7f")).Draw(t, "char")
			for bytes.IndexByte([]byte(lisk32Alphabet), c) >= 0 {
				c = 'i'
			}
			outside = true
		} else {
			// a different character of the alphabet
			idx := bytes.IndexByte([]byte(lisk32Alphabet), text[pos])
			off := rapid.IntRange(1, 31).Draw(t, "shift")
			c = lisk32Alphabet[(idx+off)%32]
		}
		b[pos] = c
	}
	corrupted := string(b)
	mustReject(t, text, corrupted, fmt.Sprintf("%d characters substituted", k))
	labels := []string{"lisk32_random", fmt.Sprintf("lisk32:substitutions=%d", k)}
	if outside {
		labels = append(labels, "lisk32:char_outside_alphabet")
	}
	evid.R.Case("lisk32|"+text+"|"+corrupted, true, func() any {
		return map[string]any{"part": "e", "address": fmt.Sprintf("%x", addr), "text": text, "corrupted": corrupted}
	}, labels...)
}

func TestLisk32Random(t *testing.T) { checkScaled(t, 0.4, lisk32Case) }
