package c08

import (
	"bytes"
	"fmt"
	"testing"

	"pgregory.net/rapid"

	"github.com/LiskHQ/lisk-engine/pkg/blockchain"
	"github.com/LiskHQ/lisk-engine/pkg/codec"

	"verifharness/evid"
)

// A decoded object owns its bytes: transactions, headers and blocks are decoded from receive buffers that belong to the caller (a
// network message, a database value) and live on in caches, pools and indexes long after that buffer is reused. If a decoder handed
// out windows of its input (a natural "avoid the copy" change in the reader), the object's fields - and with them Encode(), the
// signing bytes and the relation "ID = hash of exactly the accepted bytes" - would change behind its back: the ID stays, the content
// does not. Same class as the result-lifetime checks of C10/C11/C12 (session 5), applied to the codec's outputs.
// Case: a drawn transaction / block header / block is encoded, decoded from a scratch copy of the encoding, then the scratch buffer
// is overwritten (inverted, then zeroed); the decoded object must still re-encode to the original bytes and keep its ID.
func ownedTx(t *rapid.T, tag string) *blockchain.Transaction {
	nSig := rapid.IntRange(1, 3).Draw(t, tag+"sigs")
	tx := &blockchain.Transaction{
		Module: rapid.SampledFrom([]string{"token", "pos", "a", "verif9"}).Draw(t, tag+"module"), Command: rapid.SampledFrom([]string{"transfer", "x", "stake"}).Draw(t, tag+"command"),
		Nonce: rapid.Uint64().Draw(t, tag+"nonce"), Fee: rapid.Uint64().Draw(t, tag+"fee"),
		SenderPublicKey: rapid.SliceOfN(rapid.Byte(), 32, 32).Draw(t, tag+"pk"), Params: rapid.SliceOfN(rapid.Byte(), 0, 200).Draw(t, tag+"params")}
	for i := 0; i < nSig; i++ {
		tx.Signatures = append(tx.Signatures, codec.Hex(rapid.SliceOfN(rapid.Byte(), 64, 64).Draw(t, tag+"sig")))
	}
	tx.Init()
	return tx
}

func ownedHeader(t *rapid.T) *blockchain.BlockHeader {
	h32 := func(l string) []byte { return rapid.SliceOfN(rapid.Byte(), 32, 32).Draw(t, l) }
	h := &blockchain.BlockHeader{Version: 2, Timestamp: rapid.Uint32().Draw(t, "ts"), Height: rapid.Uint32().Draw(t, "height"), PreviousBlockID: h32("prev"),
		GeneratorAddress: rapid.SliceOfN(rapid.Byte(), 20, 20).Draw(t, "gen"), TransactionRoot: h32("txroot"), AssetRoot: h32("assetroot"), EventRoot: h32("eventroot"),
		StateRoot: h32("stateroot"), MaxHeightPrevoted: rapid.Uint32().Draw(t, "mhp"), MaxHeightGenerated: rapid.Uint32().Draw(t, "mhg"), ValidatorsHash: h32("vh"),
		AggregateCommit: &blockchain.AggregateCommit{Height: rapid.Uint32().Draw(t, "aggH"), AggregationBits: rapid.SliceOfN(rapid.Byte(), 0, 16).Draw(t, "bits"),
			CertificateSignature: rapid.SliceOfN(rapid.Byte(), 0, 96).Draw(t, "certsig")},
		Signature: rapid.SliceOfN(rapid.Byte(), 64, 64).Draw(t, "hsig")}
	h.Init()
	return h
}

func scribble(buf []byte) func() {
	step := 0
	return func() {
		for i := range buf {
			if step == 0 {
				buf[i] ^= 0xff
			} else {
				buf[i] = 0
			}
		}
		step++
	}
}

func ownedCase(t *rapid.T) {
	kind := rapid.SampledFrom([]string{"transaction", "header", "block"}).Draw(t, "kind")
	var enc []byte
	var reencode func() []byte
	var id func() []byte
	var wantID []byte
	var scratch []byte
	switch kind {
	case "transaction":
		tx := ownedTx(t, "")
		enc, wantID = tx.Encode(), tx.ID
		scratch = append([]byte{}, enc...)
		d, err := blockchain.NewTransaction(scratch)
		if err != nil {
			t.Fatalf("NewTransaction refuses the encoding of a well-formed transaction: %v", err)
		}
		reencode, id = func() []byte { return d.Encode() }, func() []byte { return d.ID }
	case "header":
		h := ownedHeader(t)
		enc, wantID = h.Encode(), h.ID
		scratch = append([]byte{}, enc...)
		d, err := blockchain.NewBlockHeader(scratch)
		if err != nil {
			t.Fatalf("NewBlockHeader refuses the encoding of a well-formed header: %v", err)
		}
		reencode, id = func() []byte { return d.Encode() }, func() []byte { return d.ID }
	default:
		b := &blockchain.Block{Header: ownedHeader(t)}
		for i := 0; i < rapid.IntRange(0, 3).Draw(t, "txs"); i++ {
			b.Transactions = append(b.Transactions, ownedTx(t, fmt.Sprintf("tx%d-", i)))
		}
		for i := 0; i < rapid.IntRange(0, 2).Draw(t, "assets"); i++ {
			b.Assets = append(b.Assets, &blockchain.BlockAsset{Module: []string{"alpha", "beta"}[i], Data: rapid.SliceOfN(rapid.Byte(), 0, 60).Draw(t, "assetData")})
		}
		enc, wantID = b.Encode(), b.Header.ID
		scratch = append([]byte{}, enc...)
		d, err := blockchain.NewBlock(scratch)
		if err != nil {
			t.Fatalf("NewBlock refuses the encoding of a well-formed block: %v", err)
		}
		reencode, id = func() []byte { return d.Encode() }, func() []byte { return d.Header.ID }
	}
	if !bytes.Equal(id(), wantID) {
		t.Fatalf("%s: decoded ID %x differs from the original's %x", kind, id(), wantID)
	}
	sc := scribble(scratch)
	for round := 0; round < 2; round++ {
		sc()
		if got := reencode(); !bytes.Equal(got, enc) {
			t.Fatalf("%s: after the caller overwrote the buffer it was decoded from (round %d), the decoded object re-encodes to different bytes: the object does not own its content\nencoded  %x\nnow      %x", kind, round, enc, got)
		}
		if !bytes.Equal(id(), wantID) {
			t.Fatalf("%s: the ID of the decoded object changed after the caller overwrote the input buffer", kind)
		}
	}
	evid.R.Case(fmt.Sprintf("owned|%s|%x", kind, wantID), len(enc) > 200, func() any {
		return map[string]any{"kind": "decoded-object-owns-its-bytes", "type": kind, "encodedBytes": len(enc)}
	}, "owned", "owned:"+kind)
}

func TestDecodedObjectsOwnTheirBytes(t *testing.T) { checkScaled(t, 0.2, ownedCase) }
