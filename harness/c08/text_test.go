package c08

// Part (f): corrupted TEXT forms of Lisk32 addresses (and of codec.Hex).
//
// Statement: "Lisk32 address text and bytes convert back and forth without loss and bad checksums are rejected."
// Part (e) substitutes characters of the alphabet; this part derives texts from valid ones by byte-level damage (single bit flips
// incl. the high bit, bytes >= 0x80, multi-byte UTF-8 runes, upper case, length +-1, ASCII outside the alphabet, checksum damage,
// transpositions) and decides every text with an INDEPENDENT reference of LIP-0018 (alphabet, BCH checksum, 5<->8 bit regrouping)
// written below; the code under test is never asked for the verdict.
//
// Oracle for any text s (direct API and the JSON path Lisk32.UnmarshalJSON):
//   - accepted  =>  BytesToLisk32(Lisk32ToBytes(s)) is s again (no loss);
//   - accepted <=> the reference accepts (41 bytes, 38 alphabet characters after the prefix, checksum polynomial == 1), and the
//     decoded bytes are the reference's bytes;
//   - ValidateLisk32 and Lisk32ToBytes agree.
// Variants the unchanged code documents and which are therefore NOT demanded to be rejected:
//   - "" <-> empty address (Lisk32ToBytes("") = [], BytesToLisk32([]) = "");
//   - the three prefix bytes are not inspected by ValidateLisk32 (DESIGN 1.7: the prefix is not part of the checksum claim); texts
//     with a foreign prefix are decided on their 38-character body and only counted (label lisk32_text:foreign_prefix_accepted).
//
// codec.Hex has no claim of its own in the statement; its text form (String/MarshalJSON/UnmarshalJSON) is checked against what
// encoding/hex documents: even length, digits 0-9a-fA-F (upper case is a documented variant, re-encoded in lower case).

import (
	"bufio"
	"bytes"
	"crypto/sha256"
	"encoding/hex"
	"fmt"
	"os"
	"path/filepath"
	"strings"
	"testing"
	"unicode/utf8"

	"github.com/LiskHQ/lisk-engine/pkg/codec"
	"pgregory.net/rapid"

	"verifharness/evid"
)

// ---- independent reference: LIP-0018 ------------------------------------------------------------------------------------------

const refAlphabet = "zxvcpmbn3465o978uyrtkqew2adsjhfg"

var refGenerator = [5]uint32{0x3b6a57b2, 0x26508e6d, 0x1ea119fa, 0x3d4233dd, 0x2a1462b3}

// refIndex[b] = value of byte b in the alphabet, 0xff for every other byte (all 256 byte values are covered).
var refIndex = func() (t [256]byte) {
	for i := range t {
		t[i] = 0xff
	}
	for i := 0; i < len(refAlphabet); i++ {
		t[refAlphabet[i]] = byte(i)
	}
	return
}()

func refPolymod(v []byte) uint32 {
	chk := uint32(1)
	for _, x := range v {
		top := chk >> 25
		chk = (chk&0x1ffffff)<<5 ^ uint32(x)
		for i := uint(0); i < 5; i++ {
			if top>>i&1 == 1 {
				chk ^= refGenerator[i]
			}
		}
	}
	return chk
}

// refData5 regroups 20 bytes into 32 five-bit values, most significant bit first (160 bits, no padding).
func refData5(addr []byte) []byte {
	out := make([]byte, 32)
	for bit := 0; bit < 160; bit++ {
		if addr[bit/8]>>(7-uint(bit%8))&1 == 1 {
			out[bit/5] |= 1 << (4 - uint(bit%5))
		}
	}
	return out
}

func refBytes(data5 []byte) []byte {
	out := make([]byte, 20)
	for bit := 0; bit < 160; bit++ {
		if data5[bit/5]>>(4-uint(bit%5))&1 == 1 {
			out[bit/8] |= 1 << (7 - uint(bit%8))
		}
	}
	return out
}

// refBodyFromData appends the six checksum values and renders the 38 characters.
func refBodyFromData(data5 []byte) string {
	v := append(append([]byte{}, data5...), 0, 0, 0, 0, 0, 0)
	mod := refPolymod(v) ^ 1
	for i := 0; i < 6; i++ {
		v[32+i] = byte(mod >> (5 * uint(5-i)) & 31)
	}
	b := make([]byte, 38)
	for i, x := range v {
		b[i] = refAlphabet[x]
	}
	return string(b)
}

func refEncode(addr []byte) string { return "lsk" + refBodyFromData(refData5(addr)) }

// refDecode decides a text. The prefix is not inspected (see header). why is "" iff ok.
func refDecode(text string) (addr []byte, ok bool, why string) {
	if text == "" {
		return []byte{}, true, ""
	}
	if len(text) != 41 {
		return nil, false, fmt.Sprintf("length %d != 41 bytes", len(text))
	}
	v := make([]byte, 38)
	for i := 0; i < 38; i++ {
		x := refIndex[text[3+i]]
		if x == 0xff {
			return nil, false, fmt.Sprintf("byte 0x%02x at position %d is not in the Lisk32 alphabet", text[3+i], 3+i)
		}
		v[i] = x
	}
	if refPolymod(v) != 1 {
		return nil, false, "checksum"
	}
	return refBytes(v[:32]), true, ""
}

// ---- oracle ----------------------------------------------------------------------------------------------------------------------

// jsonQuote renders arbitrary bytes as a JSON string literal that encoding/json accepts syntactically: quote, backslash and control
// bytes escaped, everything else (incl. bytes >= 0x80, valid UTF-8 or not) raw.
func jsonQuote(s string) []byte {
	out := []byte{'"'}
	for i := 0; i < len(s); i++ {
		switch c := s[i]; {
		case c == '"' || c == '\\':
			out = append(out, '\\', c)
		case c < 0x20:
			out = append(out, []byte(fmt.Sprintf("\\u%04x", c))...)
		default:
			out = append(out, c)
		}
	}
	return append(out, '"')
}

// lisk32TextProblem evaluates one text through ValidateLisk32 / Lisk32ToBytes / BytesToLisk32 (and, if withJSON, through
// Lisk32.UnmarshalJSON / MarshalJSON). It returns the engine's verdict and a description of the first deviation ("" = none).
func lisk32TextProblem(text string, withJSON bool) (accepted bool, foreignPrefix bool, problem string) {
	errV := codec.ValidateLisk32(text)
	got, errD := codec.Lisk32ToBytes(text)
	want, ok, why := refDecode(text)
	accepted = errD == nil

	// (1) no loss: whatever is accepted must re-encode to itself (prefix: see header)
	if errD == nil && text != "" {
		re, err := codec.BytesToLisk32(got)
		if err != nil {
			return accepted, false, fmt.Sprintf("Lisk32ToBytes(%q) = %x, which BytesToLisk32 refuses: %v", text, got, err)
		}
		if len(re) != len(text) || re[3:] != text[3:] {
			return accepted, false, fmt.Sprintf("lossy text -> bytes -> text: Lisk32ToBytes(%q) = %x is accepted, but BytesToLisk32 of it is %q", text, got, re)
		}
		foreignPrefix = re[:3] != text[:3]
	}
	if errD == nil && text == "" && len(got) != 0 {
		return accepted, false, fmt.Sprintf("Lisk32ToBytes(\"\") = %x, want the empty address", got)
	}
	// (2) the two entry points agree ("" is accepted by Lisk32ToBytes only: documented empty <-> "")
	if text != "" && (errV == nil) != (errD == nil) {
		return accepted, foreignPrefix, fmt.Sprintf("ValidateLisk32(%q) = %v but Lisk32ToBytes = (%x, %v)", text, errV, got, errD)
	}
	// (3) verdict and value against the reference
	if ok && errD != nil {
		return accepted, foreignPrefix, fmt.Sprintf("Lisk32ToBytes rejects %q (%v); the reference decodes it to %x", text, errD, want)
	}
	if !ok && errD == nil {
		return accepted, foreignPrefix, fmt.Sprintf("Lisk32ToBytes accepts %q (-> %x); the reference rejects it: %s", text, got, why)
	}
	if ok && !bytes.Equal(got, want) {
		return accepted, foreignPrefix, fmt.Sprintf("Lisk32ToBytes(%q) = %x; the reference decodes it to %x", text, got, want)
	}
	if !withJSON {
		return accepted, foreignPrefix, ""
	}
	// (4) JSON path: the text as a JSON string. encoding/json (not under test) first turns the literal into a Go string (invalid
	// UTF-8 becomes U+FFFD); that string is what UnmarshalJSON has to decide.
	doc := jsonQuote(text)
	var jtext string
	if err := jsonUnmarshal(doc, &jtext); err != nil {
		return accepted, foreignPrefix, "" // not a JSON string after all (cannot happen with jsonQuote); nothing to compare
	}
	jwant, jok, jwhy := refDecode(jtext)
	var l codec.Lisk32
	errJ := jsonUnmarshal(doc, &l)
	if jok && errJ != nil {
		return accepted, foreignPrefix, fmt.Sprintf("Lisk32.UnmarshalJSON(%s) fails (%v); the reference decodes %q to %x", doc, errJ, jtext, jwant)
	}
	if !jok && errJ == nil {
		return accepted, foreignPrefix, fmt.Sprintf("Lisk32.UnmarshalJSON(%s) accepts (-> %x); the reference rejects %q: %s", doc, []byte(l), jtext, jwhy)
	}
	if jok {
		if !bytes.Equal(l, jwant) {
			return accepted, foreignPrefix, fmt.Sprintf("Lisk32.UnmarshalJSON(%s) = %x; the reference decodes it to %x", doc, []byte(l), jwant)
		}
		out, err := l.MarshalJSON()
		canon := ""
		if jtext != "" {
			canon = "lsk" + jtext[3:]
		}
		if err != nil || string(out) != string(jsonQuote(canon)) {
			return accepted, foreignPrefix, fmt.Sprintf("JSON round trip: %s -> %x -> %s (err %v), want %s", doc, []byte(l), out, err, jsonQuote(canon))
		}
	}
	return accepted, foreignPrefix, ""
}

// ---- the reference itself: known answers and agreement with the encoder -----------------------------------------------------------

var lisk32KnownAnswers = []struct{ addrHex, text string }{
	{"fc9738370f44dce0bf5877df66ac17afe8346d9f", "lskgr5tu9283t77x8d27g8e95zwqgkc3sogx4zazd"}, // fixture of pkg/codec/bytes_test.go
	{"c247a42e09e6aafd818821f75b2f5b0de47c8235", "lsk24cd35u4jdq8szo3pnsqe5dsxwrnazyqqqg5eu"}, // example of LIP-0018
}

func TestLisk32ReferenceKnownAnswers(t *testing.T) {
	for _, ka := range lisk32KnownAnswers {
		addr, _ := hex.DecodeString(ka.addrHex)
		if got := refEncode(addr); got != ka.text {
			t.Fatalf("C08(f) harness reference is wrong: refEncode(%s) = %q, published text %q", ka.addrHex, got, ka.text)
		}
		if back, ok, why := refDecode(ka.text); !ok || !bytes.Equal(back, addr) {
			t.Fatalf("C08(f) harness reference is wrong: refDecode(%q) = %x, %v (%s)", ka.text, back, ok, why)
		}
		if _, _, problem := lisk32TextProblem(ka.text, true); problem != "" {
			t.Fatalf("C08(f) %s", problem)
		}
		if got, err := codec.BytesToLisk32(addr); err != nil || got != ka.text {
			t.Fatalf("C08(f) BytesToLisk32(%s) = %q, %v; published text %q", ka.addrHex, got, err, ka.text)
		}
		evid.R.Case("lisk32text|ka|"+ka.text, true, func() any { return map[string]any{"part": "f", "address": ka.addrHex, "text": ka.text} }, "lisk32_known_answer")
	}
}

// ---- mutations ---------------------------------------------------------------------------------------------------------------------

var lisk32MutKinds = []string{
	"identity", "bitflip", "highbit_flip", "highbit_subset", "nonascii_byte", "utf8_rune", "utf8_alias_triple", "uppercase",
	"length", "ascii_outside", "checksum", "transpose", "recomputed_checksum", "prefix", "whitespace", "random_body",
}

var multiByteRunes = []string{"é", "ß", "ł", "ｌ", "ｓ", "ｋ", "а" /* cyrillic a */, "ѕ" /* cyrillic s */, "\u1cf4", "\u2028", "€", "😀", "\ufffd", "\u00a0", "\u0131"}

// aliasLead / aliasCont: alphabet characters c for which c|0x80 is a UTF-8 lead byte of a 3-byte rune (0xe1..0xef) resp. a
// continuation byte (0x80..0xbf): three such characters with the high bit set form VALID UTF-8 (survive the JSON layer unchanged).
// ('m'|0x80 = 0xed is left out: its continuation range 0x80..0x9f excludes the digits.)
const aliasLead = "acdefghjkno" // -> 0xe1..0xec, 0xee, 0xef
const aliasCont = "23456789"    // -> 0xb2..0xb9

// mutateLisk32 derives a text from the valid text of data5 (32 five-bit values). It returns the text, the kind and whether a byte
// >= 0x80 was introduced.
func mutateLisk32(t *rapid.T, data5 []byte, kind string) (string, bool) {
	valid := "lsk" + refBodyFromData(data5)
	b := []byte(valid)
	bodyPos := func(label string) int { return rapid.IntRange(3, 40).Draw(t, label) }
	switch kind {
	case "identity":
		return valid, false
	case "bitflip": // any single bit of any of the 41 bytes
		pos := rapid.IntRange(0, 40).Draw(t, "pos")
		bit := rapid.IntRange(0, 7).Draw(t, "bit")
		b[pos] ^= 1 << uint(bit)
		return string(b), bit == 7
	case "highbit_flip": // exactly one body byte with bit 7 set
		b[bodyPos("pos")] |= 0x80
		return string(b), true
	case "highbit_subset": // bit 7 set on 2..38 body bytes (or on all 41)
		if rapid.IntRange(0, 5).Draw(t, "all") == 0 {
			lo := rapid.SampledFrom([]int{0, 3}).Draw(t, "from")
			for i := lo; i < 41; i++ {
				b[i] |= 0x80
			}
			return string(b), true
		}
		n := rapid.IntRange(2, 38).Draw(t, "n")
		for i := 0; i < n; i++ {
			b[bodyPos("pos")] |= 0x80
		}
		return string(b), true
	case "nonascii_byte": // 1..3 body bytes replaced by arbitrary bytes >= 0x80
		n := rapid.IntRange(1, 3).Draw(t, "n")
		for i := 0; i < n; i++ {
			b[bodyPos("pos")] = byte(rapid.IntRange(0x80, 0xff).Draw(t, "byte"))
		}
		return string(b), true
	case "utf8_rune": // a multi-byte rune over as many bytes as it takes (length stays 41 bytes), or in place of one byte (length grows)
		r := rapid.SampledFrom(multiByteRunes).Draw(t, "rune")
		if rapid.Bool().Draw(t, "keep_length") {
			pos := rapid.IntRange(3, 41-len(r)).Draw(t, "pos")
			copy(b[pos:], r)
			return string(b), true
		}
		pos := bodyPos("pos")
		return valid[:pos] + r + valid[pos+1:], true
	case "utf8_alias_triple":
		// handled by the caller (needs chosen data characters); not reached
		return valid, false
	case "uppercase":
		switch rapid.IntRange(0, 3).Draw(t, "what") {
		case 0:
			return strings.ToUpper(valid), false
		case 1:
			return "LSK" + valid[3:], false
		case 2:
			return valid[:3] + strings.ToUpper(valid[3:]), false
		default: // one letter of the body (digits have no upper case: search a letter from a drawn position on)
			pos := bodyPos("pos")
			for i := 0; i < 38; i++ {
				p := 3 + (pos-3+i)%38
				if b[p] >= 'a' && b[p] <= 'z' {
					b[p] -= 32
					break
				}
			}
			return string(b), false
		}
	case "length":
		ch := string(refAlphabet[rapid.IntRange(0, 31).Draw(t, "char")])
		switch rapid.IntRange(0, 7).Draw(t, "what") {
		case 0: // one body character deleted
			pos := bodyPos("pos")
			return valid[:pos] + valid[pos+1:], false
		case 1: // one alphabet character inserted
			pos := rapid.IntRange(3, 41).Draw(t, "pos")
			return valid[:pos] + ch + valid[pos:], false
		case 2:
			return valid + ch, false
		case 3:
			return ch + valid, false
		case 4: // prefix character deleted: 40 bytes
			return valid[1:], false
		case 5: // without prefix: the bare 38 characters
			return valid[3:], false
		case 6: // truncated
			return valid[:rapid.IntRange(1, 40).Draw(t, "len")], false
		default: // a body character doubled and the last one dropped (length kept, shifted tail)
			pos := bodyPos("pos")
			return (valid[:pos] + valid[pos:pos+1] + valid[pos:])[:41], false
		}
	case "ascii_outside": // 1..2 body bytes replaced by ASCII outside the alphabet (excluded letters/digits, upper case, punctuation, controls)
		n := rapid.IntRange(1, 2).Draw(t, "n")
		for i := 0; i < n; i++ {
			b[bodyPos("pos")] = rapid.SampledFrom([]byte("bil01BIL O-_=+/.,:;'\"\\`~@#%&*(){}[]<>?!|^$\x00\x01\t\n\r\x1f\x7fAZGQ")).Draw(t, "char")
		}
		return string(b), false
	case "checksum": // 1..6 of the six checksum characters replaced by other alphabet characters
		n := rapid.IntRange(1, 6).Draw(t, "n")
		for i := 0; i < n; i++ {
			pos := rapid.IntRange(35, 40).Draw(t, "pos")
			b[pos] = refAlphabet[(int(refIndex[b[pos]])+rapid.IntRange(1, 31).Draw(t, "shift"))%32]
		}
		return string(b), false
	case "transpose": // two neighbouring body characters exchanged
		pos := rapid.IntRange(3, 39).Draw(t, "pos")
		b[pos], b[pos+1] = b[pos+1], b[pos]
		return string(b), false
	case "recomputed_checksum": // data characters changed AND the checksum recomputed by the reference: another valid address
		d := append([]byte{}, data5...)
		n := rapid.IntRange(1, 4).Draw(t, "n")
		for i := 0; i < n; i++ {
			d[rapid.IntRange(0, 31).Draw(t, "pos")] = byte(rapid.IntRange(0, 31).Draw(t, "value"))
		}
		return "lsk" + refBodyFromData(d), false
	case "prefix": // foreign prefix (not part of the checksum claim: decided on the body)
		p := rapid.SampledFrom([]string{"LSK", "Lsk", "lsK", "lsl", "ksl", "   ", "abc", "ls\xeb", "\xecsk", "\xec\xf3\xeb", "ék", "zzz", "l\x00k", "tsk"}).Draw(t, "prefix")
		return p + valid[3:], strings.IndexFunc(p, func(r rune) bool { return r >= 0x80 }) >= 0
	case "whitespace":
		switch rapid.IntRange(0, 3).Draw(t, "what") {
		case 0:
			return " " + valid, false
		case 1:
			return valid + " ", false
		case 2:
			return valid + "\n", false
		default: // a space instead of a body character (length kept)
			b[bodyPos("pos")] = ' '
			return string(b), false
		}
	default: // "random_body": 38 random alphabet characters (valid with probability 2^-30) or 41 arbitrary bytes
		if rapid.Bool().Draw(t, "alphabet") {
			for i := 3; i < 41; i++ {
				b[i] = refAlphabet[rapid.IntRange(0, 31).Draw(t, "c")]
			}
			return string(b), false
		}
		raw := rapid.SliceOfN(rapid.Byte(), 41, 41).Draw(t, "raw")
		hi := false
		for _, c := range raw {
			hi = hi || c >= 0x80
		}
		return string(raw), hi
	}
}

// aliasTriple: a valid text whose data characters hold <lead><cont><cont> at a drawn position, then bit 7 set on these three bytes.
// The result is valid UTF-8 (a 3-byte rune), so it reaches Lisk32ToBytes unchanged through the JSON layer as well.
func aliasTriple(t *rapid.T, data5 []byte) (string, bool) {
	d := append([]byte{}, data5...)
	pos := rapid.IntRange(0, 29).Draw(t, "pos") // inside the 32 data characters (checksum characters cannot be chosen freely)
	lead := rapid.SampledFrom([]byte(aliasLead)).Draw(t, "lead")
	c1 := rapid.SampledFrom([]byte(aliasCont)).Draw(t, "cont1")
	c2 := rapid.SampledFrom([]byte(aliasCont)).Draw(t, "cont2")
	d[pos], d[pos+1], d[pos+2] = refIndex[lead], refIndex[c1], refIndex[c2]
	b := []byte("lsk" + refBodyFromData(d))
	for i := 0; i < 3; i++ {
		b[3+pos+i] |= 0x80
	}
	return string(b), true
}

func drawData5(t *rapid.T) []byte {
	switch rapid.IntRange(0, 5).Draw(t, "address_mode") {
	case 0:
		return refData5(rapid.SampledFrom(boundaryAddresses()).Draw(t, "boundary"))
	default:
		return refData5(rapid.SliceOfN(rapid.Byte(), 20, 20).Draw(t, "address"))
	}
}

func checkLisk32Text(t failer, text, kind string, highBit bool, validText string, withJSON bool) {
	accepted, foreign, problem := lisk32TextProblem(text, withJSON)
	if problem != "" {
		t.Fatalf("C08(f) Lisk32 text [%s] %s\n  text      = %q (% x)\n  derived from the valid text %q", kind, problem, text, text, validText)
	}
	labels := []string{"lisk32_text", "lisk32_text:mut=" + kind}
	if accepted {
		labels = append(labels, "lisk32_text:accepted")
	} else {
		labels = append(labels, "lisk32_text:rejected")
	}
	if highBit {
		labels = append(labels, "lisk32_text:byte>=0x80")
		if utf8.ValidString(text) {
			labels = append(labels, "lisk32_text:byte>=0x80,valid_utf8")
		}
	}
	if foreign {
		labels = append(labels, "lisk32_text:foreign_prefix_accepted")
	}
	if text != validText && accepted && !foreign {
		labels = append(labels, "lisk32_text:derived_but_again_canonical")
	}
	if withJSON {
		labels = append(labels, "lisk32_text:json_path")
	}
	evid.R.Case("lisk32text|"+text, true, func() any {
		return map[string]any{"part": "f", "kind": kind, "text_hex": hex.EncodeToString([]byte(text)), "valid_text": validText, "accepted": accepted}
	}, labels...)
}

func lisk32TextCase(t *rapid.T) {
	data5 := drawData5(t)
	valid := "lsk" + refBodyFromData(data5)
	// the reference and the encoder agree on the valid text (keeps the reference honest on every drawn address)
	addr := refBytes(data5)
	if enc, err := codec.BytesToLisk32(addr); err != nil || enc != valid {
		t.Fatalf("C08(f) BytesToLisk32(%x) = %q, %v; the LIP-0018 reference gives %q", addr, enc, err, valid)
	}
	kind := rapid.SampledFrom(lisk32MutKinds).Draw(t, "kind")
	var text string
	var hi bool
	if kind == "utf8_alias_triple" {
		text, hi = aliasTriple(t, data5)
	} else {
		text, hi = mutateLisk32(t, data5, kind)
	}
	checkLisk32Text(t, text, kind, hi, valid, true)
}

func TestLisk32TextRandom(t *testing.T) { checkScaled(t, 1.0, lisk32TextCase) }

// Exhaustive cores (seed independent):
//   - every boundary address: every single-bit flip of every one of the 41 bytes (41 x 8), and bit 7 set on all body bytes;
//   - a subset of the boundary addresses (all of them in the thorough tier): every body position x every one of the 256 byte values.
func TestLisk32TextExhaustive(t *testing.T) {
	addrs := boundaryAddresses()
	shard, shards := shardInfo()
	full := 24
	if evid.Thorough() {
		full = len(addrs)
	}
	var flips, bytesAll, accepted int64
	for ai, addr := range addrs {
		if ai%shards != shard {
			continue
		}
		valid := refEncode(addr)
		if enc, err := codec.BytesToLisk32(addr); err != nil || enc != valid {
			t.Fatalf("C08(f) BytesToLisk32(%x) = %q, %v; the LIP-0018 reference gives %q", addr, enc, err, valid)
		}
		run := func(text, kind string) {
			acc, _, problem := lisk32TextProblem(text, false)
			if problem != "" {
				p := evid.R.FailCase("lisk32text", map[string]any{"kind": "lisk32_text", "hex": hex.EncodeToString([]byte(text))})
				t.Fatalf("C08(f) Lisk32 text [%s] %s\n  text      = %q (% x)\n  derived from the valid text %q (address %x)\n  case written to %s", kind, problem, text, text, valid, addr, p)
			}
			if acc {
				accepted++
			}
		}
		for pos := 0; pos < 41; pos++ {
			for bit := uint(0); bit < 8; bit++ {
				b := []byte(valid)
				b[pos] ^= 1 << bit
				run(string(b), "bitflip_exhaustive")
				flips++
			}
		}
		b := []byte(valid)
		for pos := 3; pos < 41; pos++ {
			b[pos] |= 0x80
		}
		run(string(b), "highbit_all")
		flips++
		if ai < full || ai == len(addrs)-1 {
			for pos := 3; pos < 41; pos++ {
				for c := 0; c < 256; c++ {
					b := []byte(valid)
					b[pos] = byte(c)
					run(string(b), "byte_exhaustive")
					bytesAll++
				}
			}
		}
		evid.R.Case("lisk32text|exh|"+valid, true, func() any { return map[string]any{"part": "f", "address": fmt.Sprintf("%x", addr), "text": valid} }, "lisk32_text_boundary")
	}
	// Length extension (added after seeded change C08-r: "length >= 41" instead of "== 41"). The Lisk32 checksum, like bech32's, survives
	// the insertion of zero symbols ('z') before a final symbol of value 1 ('x'): the fixed length is the only protection, and only one
	// address in 32 ends that way. Derived addresses until enough of them end in every alphabet character; 1-3 copies of EVERY alphabet
	// character inserted before each of the last 7 characters; the reference says "41 characters or invalid".
	var ext int64
	if shard == 0 {
		perLast := map[byte]int{}
		want := 3
		if evid.Thorough() {
			want = 40
		}
		for i := 0; i < 200000 && len(perLast) < 32*1 || func() bool {
			for _, c := range []byte(refAlphabet) {
				if perLast[c] < want {
					return i < 200000
				}
			}
			return false
		}(); i++ {
			h := sha256.Sum256([]byte(fmt.Sprintf("c08-length-extension-%d", i)))
			addr := h[:20]
			valid := refEncode(addr)
			last := valid[40]
			if perLast[last] >= want {
				continue
			}
			perLast[last]++
			for pos := 34; pos <= 41; pos++ {
				for _, c := range []byte(refAlphabet) {
					for k := 1; k <= 3; k++ {
						text := valid[:pos] + strings.Repeat(string(c), k) + valid[pos:]
						acc, _, problem := lisk32TextProblem(text, false)
						if problem != "" || acc {
							pth := evid.R.FailCase("lisk32text", map[string]any{"kind": "lisk32_text", "hex": hex.EncodeToString([]byte(text))})
							t.Fatalf("C08(f) Lisk32 text [length_extension] accepted=%v %s\n  text = %q (%d characters)\n  derived from the valid text %q (address %x) by inserting %d x %q at position %d\n  case written to %s",
								acc, problem, text, len(text), valid, addr, k, string(c), pos, pth)
						}
						ext++
					}
				}
			}
		}
	}
	evid.R.Count(ext, "lisk32_text_length_extension_exhaustive")
	evid.R.Count(flips, "lisk32_text_single_bitflip_exhaustive")
	evid.R.Count(bytesAll, "lisk32_text_single_byte_exhaustive")
	evid.R.Label("lisk32_text_exhaustive:accepted(prefix_flips+identity_bytes)", accepted)
}

// TestReplayLisk32Text replays a case file written by the exhaustive test (VERIF_REPLAY_CASE, kind lisk32_text).
func TestReplayLisk32Text(t *testing.T) {
	p := os.Getenv("VERIF_REPLAY_CASE")
	if p == "" {
		t.Skip("no VERIF_REPLAY_CASE")
	}
	raw, err := os.ReadFile(p)
	if err != nil {
		t.Skip("cannot read the case file")
	}
	var c struct{ Kind, Hex string }
	if jsonUnmarshal(raw, &c) != nil || c.Kind != "lisk32_text" {
		t.Skip("not a lisk32_text case")
	}
	s, _ := hex.DecodeString(c.Hex)
	if _, _, problem := lisk32TextProblem(string(s), true); problem != "" {
		t.Fatalf("C08(f) %s", problem)
	}
}

// ---- native fuzz target ------------------------------------------------------------------------------------------------------------

// lisk32TextSeeds: deterministic seed corpus = known answers and a few boundary addresses, each with one representative of every
// byte-level damage class (incl. single high-bit flips at the first/last data and checksum positions), plus the hex lines of
// /verif/corpus/C08/lisk32_text.seeds (crashers of earlier campaigns go there).
func lisk32TextSeeds() []string {
	var out []string
	var valids []string
	for _, ka := range lisk32KnownAnswers {
		valids = append(valids, ka.text)
	}
	ba := boundaryAddresses()
	for _, i := range []int{0, 1, 2, 5, 9, 10, 167, 328, len(ba) - 1} {
		valids = append(valids, refEncode(ba[i]))
	}
	for _, v := range valids {
		out = append(out, v, strings.ToUpper(v), "LSK"+v[3:], v[:40], v+"z", v[3:], " "+v, v+"\n", "abc"+v[3:])
		for _, pos := range []int{0, 2, 3, 4, 20, 34, 35, 40} {
			b := []byte(v)
			b[pos] |= 0x80
			out = append(out, string(b))
			b = []byte(v)
			b[pos] ^= 0x01
			out = append(out, string(b))
			b = []byte(v)
			b[pos] ^= 0x20
			out = append(out, string(b))
		}
		b := []byte(v)
		for i := 3; i < 41; i++ {
			b[i] |= 0x80
		}
		out = append(out, string(b))
		b = []byte(v)
		copy(b[10:], "é")
		out = append(out, string(b))
		b = []byte(v)
		b[38], b[39] = b[39], b[38]
		out = append(out, string(b))
	}
	// valid UTF-8 whose bytes alias alphabet characters when bit 7 is dropped
	d := refData5(ba[0])
	d[4], d[5], d[6] = refIndex['a'], refIndex['3'], refIndex['4']
	b := []byte("lsk" + refBodyFromData(d))
	b[7], b[8], b[9] = b[7]|0x80, b[8]|0x80, b[9]|0x80
	out = append(out, string(b), "")
	if fh, err := os.Open(filepath.Join(evid.Root(), "corpus", "C08", "lisk32_text.seeds")); err == nil {
		sc := bufio.NewScanner(fh)
		for sc.Scan() {
			line := strings.TrimSpace(sc.Text())
			if i := strings.IndexByte(line, '#'); i >= 0 {
				line = strings.TrimSpace(line[:i])
			}
			if line == "" {
				continue
			}
			if raw, err := hex.DecodeString(line); err == nil {
				out = append(out, string(raw))
			}
		}
		fh.Close()
	}
	return out
}

// FuzzLisk32Text: under plain `go test` (every tier) this runs the seed corpus only; the thorough tier starts a coverage-guided
// campaign (cfg/C08.py: {'pkg': 'c08', 'fuzz': 'FuzzLisk32Text', ...}). Any byte string is a legitimate input.
func FuzzLisk32Text(f *testing.F) {
	seeds := lisk32TextSeeds()
	for _, s := range seeds {
		f.Add([]byte(s))
	}
	if shard, _ := shardInfo(); shard == 0 {
		evid.R.Label("lisk32_text_fuzz_seed_corpus", int64(len(seeds)))
	}
	f.Fuzz(func(t *testing.T, raw []byte) {
		text := string(raw)
		accepted, _, problem := lisk32TextProblem(text, true)
		l := "lisk32_text_fuzz:rejected"
		if accepted {
			l = "lisk32_text_fuzz:accepted"
		}
		evid.R.Case("lisk32text|"+text, len(raw) == 41, nil, "lisk32_text_fuzz", l)
		if problem != "" {
			t.Fatalf("C08(f) %s\n  text = %q (% x)", problem, text, raw)
		}
	})
}

// ---- codec.Hex text form -----------------------------------------------------------------------------------------------------------

const hexDigitsLower = "0123456789abcdef"

func refHexEncode(b []byte) string {
	out := make([]byte, 0, 2*len(b))
	for _, c := range b {
		out = append(out, hexDigitsLower[c>>4], hexDigitsLower[c&15])
	}
	return string(out)
}

func refHexNibble(c byte) int {
	switch {
	case c >= '0' && c <= '9':
		return int(c - '0')
	case c >= 'a' && c <= 'f':
		return int(c-'a') + 10
	case c >= 'A' && c <= 'F': // encoding/hex documents upper case as accepted
		return int(c-'A') + 10
	}
	return -1
}

func refHexDecode(s string) ([]byte, bool) {
	if len(s)%2 != 0 {
		return nil, false
	}
	out := make([]byte, len(s)/2)
	for i := 0; i < len(s); i += 2 {
		h, l := refHexNibble(s[i]), refHexNibble(s[i+1])
		if h < 0 || l < 0 {
			return nil, false
		}
		out[i/2] = byte(h<<4 | l)
	}
	return out, true
}

// hexTextProblem: the text as a JSON string through Hex.UnmarshalJSON, then String / MarshalJSON of the result.
func hexTextProblem(text string) (accepted bool, problem string) {
	doc := jsonQuote(text)
	var jtext string
	if err := jsonUnmarshal(doc, &jtext); err != nil {
		return false, ""
	}
	want, ok := refHexDecode(jtext)
	var h codec.Hex
	err := jsonUnmarshal(doc, &h)
	accepted = err == nil
	if ok && err != nil {
		return accepted, fmt.Sprintf("Hex.UnmarshalJSON(%s) fails (%v); the text is %d hex digits for %x", doc, err, len(jtext), want)
	}
	if !ok && err == nil {
		return accepted, fmt.Sprintf("Hex.UnmarshalJSON(%s) accepts (-> %x); %q is not an even number of hex digits", doc, []byte(h), jtext)
	}
	if !ok {
		return accepted, ""
	}
	if !bytes.Equal(h, want) {
		return accepted, fmt.Sprintf("Hex.UnmarshalJSON(%s) = %x, want %x", doc, []byte(h), want)
	}
	canon := strings.ToLower(jtext) // accepted => ASCII hex digits only; lower case is the canonical text of the bytes
	if s := h.String(); s != canon || s != refHexEncode(want) {
		return accepted, fmt.Sprintf("Hex text -> bytes -> text: %q -> %x -> %q, want %q", jtext, []byte(h), s, canon)
	}
	if out, err := h.MarshalJSON(); err != nil || string(out) != `"`+canon+`"` {
		return accepted, fmt.Sprintf("Hex JSON round trip: %s -> %x -> %s (err %v), want %q", doc, []byte(h), out, err, canon)
	}
	return accepted, ""
}

var hexMutKinds = []string{"identity", "uppercase", "mixed_case", "odd_length", "nonhex_ascii", "prefix_0x", "bitflip", "highbit_flip", "nonascii", "insert", "whitespace"}

func hexTextCase(t *rapid.T) {
	n := rapid.SampledFrom([]int{0, 1, 2, 20, 32, 33, 48, 64, 96}).Draw(t, "len")
	val := rapid.SliceOfN(rapid.Byte(), n, n).Draw(t, "bytes")
	valid := refHexEncode(val)
	// bytes -> text -> bytes and the typed String()
	if s := codec.Hex(val).String(); s != valid {
		t.Fatalf("C08(f) Hex(%x).String() = %q, want %q", val, s, valid)
	}
	if out, err := codec.Hex(val).MarshalJSON(); err != nil || string(out) != `"`+valid+`"` {
		t.Fatalf("C08(f) Hex(%x).MarshalJSON() = %s, %v", val, out, err)
	}
	kind := rapid.SampledFrom(hexMutKinds).Draw(t, "kind")
	if n == 0 && kind != "odd_length" && kind != "prefix_0x" && kind != "insert" && kind != "whitespace" {
		kind = "identity"
	}
	b := []byte(valid)
	text := valid
	hi := false
	switch kind {
	case "identity":
	case "uppercase":
		text = strings.ToUpper(valid)
	case "mixed_case":
		for i := range b {
			if b[i] >= 'a' && b[i] <= 'f' && rapid.Bool().Draw(t, "up") {
				b[i] -= 32
			}
		}
		text = string(b)
	case "odd_length":
		if n == 0 || rapid.Bool().Draw(t, "add") {
			text = valid + string(hexDigitsLower[rapid.IntRange(0, 15).Draw(t, "d")])
		} else {
			text = valid[:len(valid)-1]
		}
	case "nonhex_ascii":
		b[rapid.IntRange(0, len(b)-1).Draw(t, "pos")] = rapid.SampledFrom([]byte("gGzZxX-_ /:@`\x00\x7f\"\\+.,")).Draw(t, "char")
		text = string(b)
	case "prefix_0x":
		text = rapid.SampledFrom([]string{"0x", "0X", "\\x", "#"}).Draw(t, "prefix") + valid
	case "bitflip":
		pos, bit := rapid.IntRange(0, len(b)-1).Draw(t, "pos"), rapid.IntRange(0, 7).Draw(t, "bit")
		b[pos] ^= 1 << uint(bit)
		text, hi = string(b), bit == 7
	case "highbit_flip":
		b[rapid.IntRange(0, len(b)-1).Draw(t, "pos")] |= 0x80
		text, hi = string(b), true
	case "nonascii":
		r := rapid.SampledFrom(multiByteRunes).Draw(t, "rune")
		pos := rapid.IntRange(0, len(b)).Draw(t, "pos")
		text, hi = valid[:pos]+r+valid[pos:], true
		if len(r)%2 == 1 && pos < len(valid) { // keep the byte length even so that only the characters decide
			text = valid[:pos] + r + valid[pos+1:]
		}
	case "insert":
		pos := rapid.IntRange(0, len(b)).Draw(t, "pos")
		text = valid[:pos] + string(hexDigitsLower[rapid.IntRange(0, 15).Draw(t, "d")]) + valid[pos:]
	default: // whitespace
		text = rapid.SampledFrom([]string{" " + valid, valid + " ", valid + "\n", " " + valid + " ", "  " + valid}).Draw(t, "ws")
	}
	accepted, problem := hexTextProblem(text)
	if problem != "" {
		t.Fatalf("C08(f) Hex text [%s] %s\n  text = %q (% x), derived from %q", kind, problem, text, text, valid)
	}
	labels := []string{"hex_text", "hex_text:mut=" + kind}
	if accepted {
		labels = append(labels, "hex_text:accepted")
	} else {
		labels = append(labels, "hex_text:rejected")
	}
	if hi {
		labels = append(labels, "hex_text:byte>=0x80")
	}
	evid.R.Case("hextext|"+text, true, func() any {
		return map[string]any{"part": "f", "kind": kind, "text_hex": hex.EncodeToString([]byte(text)), "valid_text": valid, "accepted": accepted}
	}, labels...)
}

func TestHexTextRandom(t *testing.T) { checkScaled(t, 0.15, hexTextCase) }

// FuzzHexText: seed corpus in every tier; campaign by hand (see notes/C08.md).
func FuzzHexText(f *testing.F) {
	for _, s := range []string{"", "00", "ff1709", "FF1709", "fF", "f", "0x00", "zz", "00 ", "\xe6\xb1", "e\xb1", "０0", "ff\x00"} {
		f.Add([]byte(s))
	}
	f.Fuzz(func(t *testing.T, raw []byte) {
		accepted, problem := hexTextProblem(string(raw))
		l := "hex_text_fuzz:rejected"
		if accepted {
			l = "hex_text_fuzz:accepted"
		}
		evid.R.Case("hextext|"+string(raw), len(raw) > 0, nil, "hex_text_fuzz", l)
		if problem != "" {
			t.Fatalf("C08(f) %s\n  text = %q (% x)", problem, raw, raw)
		}
	})
}
