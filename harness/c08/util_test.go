package c08

import (
	"encoding/json"

	"golang.org/x/text/unicode/norm"
)

func nfc(s string) string { return norm.NFC.String(s) }

func jsonUnmarshal(b []byte, v any) error { return json.Unmarshal(b, v) }
