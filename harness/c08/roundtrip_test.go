package c08

// Part (a): generic round trip for every generated-codec struct type.

import (
	"bytes"
	"encoding/hex"
	"fmt"
	"reflect"
	"strings"
	"testing"

	"pgregory.net/rapid"

	"verifharness/evid"
)

func newOf(tp reflect.Type) strictCodec { return reflect.New(tp).Interface().(strictCodec) }

// roundTrip applies the oracle of part (a) to one value; returns "" or a description of the violation.
func roundTrip(tp reflect.Type, pv reflect.Value) (enc []byte, problem string) {
	v := pv.Interface().(strictCodec)
	enc = v.Encode()
	if again := v.Encode(); !bytes.Equal(enc, again) {
		return enc, fmt.Sprintf("Encode not deterministic: %x then %x", enc, again)
	}
	// lenient decoding
	w := newOf(tp)
	if err := w.Decode(enc); err != nil {
		return enc, fmt.Sprintf("Decode(Encode(v)) failed: %v", err)
	}
	if d := equivalent(pv.Elem(), reflect.ValueOf(w).Elem(), ""); d != "" {
		return enc, "Decode(Encode(v)) differs from v at " + d
	}
	if re := w.Encode(); !bytes.Equal(re, enc) {
		return enc, fmt.Sprintf("Encode(Decode(Encode(v))) != Encode(v): %x", re)
	}
	// strict decoding accepts own encodings
	x := newOf(tp)
	if err := x.DecodeStrict(enc); err != nil {
		return enc, fmt.Sprintf("DecodeStrict(Encode(v)) failed: %v", err)
	}
	if d := equivalent(pv.Elem(), reflect.ValueOf(x).Elem(), ""); d != "" {
		return enc, "DecodeStrict(Encode(v)) differs from v at " + d
	}
	if re := x.Encode(); !bytes.Equal(re, enc) {
		return enc, fmt.Sprintf("Encode(DecodeStrict(Encode(v))) != Encode(v): %x", re)
	}
	// a decoded value owns its bytes (see owned_test.go): decode from a scratch copy, overwrite the scratch, encode again
	for _, strict := range []bool{false, true} {
		scratch := append([]byte{}, enc...)
		y := newOf(tp)
		var err error
		if strict {
			err = y.DecodeStrict(scratch)
		} else {
			err = y.Decode(scratch)
		}
		if err != nil {
			return enc, fmt.Sprintf("decoding a copy of the encoding failed: %v", err)
		}
		for i := range scratch {
			scratch[i] ^= 0xff
		}
		if re := y.Encode(); !bytes.Equal(re, enc) {
			return enc, fmt.Sprintf("the decoded value changed when the buffer it was decoded from (strict=%v) was overwritten: re-encodes to %x", strict, re)
		}
	}
	return enc, ""
}

func roundTripCase(t *rapid.T, e regEntry) {
	gi := newGenInfo()
	pv := genStruct(t, e.typ, e.name, 0, gi)
	enc, problem := roundTrip(e.typ, pv)
	labels := []string{"roundtrip", "type:" + e.name}
	if gi.nonNFC {
		labels = append(labels, "roundtrip:has_nonNFC_string")
	}
	if gi.bigBlob {
		labels = append(labels, "roundtrip:has_blob>=128B")
	}
	if gi.nested > 0 {
		labels = append(labels, "roundtrip:has_nested_msg")
	}
	if len(enc) == 0 {
		labels = append(labels, "roundtrip:empty_encoding")
	}
	nt := gi.nontrivial()
	if nt {
		labels = append(labels, "roundtrip:nontrivial")
	}
	evid.R.Case(e.name+"|"+string(enc), nt, func() any {
		return map[string]any{"part": "a", "type": e.name, "value": render(pv.Elem()), "encoded": clipHex(enc)}
	}, labels...)
	if problem != "" {
		t.Fatalf("C08(a) %s: %s\nvalue=%v\nencoded=%x", e.name, problem, render(pv.Elem()), enc)
	}
}

func clipHex(b []byte) string {
	if len(b) > 200 {
		return hex.EncodeToString(b[:200]) + fmt.Sprintf("…(%d bytes)", len(b))
	}
	return hex.EncodeToString(b)
}

// One rapid run per registered type (rapid's integer draws are biased towards small values, so drawing the type index would
// starve most types); -rapid.checks x 2 is the total over all types.
func TestRoundTripAllTypes(t *testing.T) {
	initKnown()
	r := registry()
	for _, e := range r {
		e := e
		t.Run(strings.ReplaceAll(e.name, "/", "_"), func(t *testing.T) {
			checkScaled(t, 2/float64(len(r)), func(rt *rapid.T) { roundTripCase(rt, e) })
		})
	}
}

// Every type once with the zero value (all fields absent/empty; nested pointers set, as every caller does) and once with
// every scalar at its maximum: cheap, seed-independent, guarantees that no registered type is skipped.
func TestRoundTripEveryTypeFixedValues(t *testing.T) {
	for _, e := range registry() {
		for _, mode := range []string{"zero", "max"} {
			pv := fixedValue(e.typ, mode, 0)
			enc, problem := roundTrip(e.typ, pv)
			evid.R.Case(e.name+"|"+mode, mode == "max", nil, "roundtrip_fixed", "roundtrip_fixed:"+mode)
			if problem != "" {
				t.Fatalf("C08(a) %s (%s value): %s\nvalue=%v\nencoded=%x", e.name, mode, problem, render(pv.Elem()), enc)
			}
		}
	}
}

func fixedValue(st reflect.Type, mode string, depth int) reflect.Value {
	pv := reflect.New(st)
	sv := pv.Elem()
	for i := 0; i < st.NumField(); i++ {
		sf := st.Field(i)
		if !hasTag(sf) {
			continue
		}
		fv := settable(sv, i)
		tp := fv.Type()
		switch kindOf(tp) {
		case kMsg:
			if depth < maxDepth {
				fv.Set(fixedValue(tp.Elem(), mode, depth+1))
			} else {
				fv.Set(reflect.New(tp.Elem()))
			}
			continue
		}
		if mode == "zero" {
			continue
		}
		switch kindOf(tp) {
		case kBool:
			fv.SetBool(true)
		case kUint:
			fv.SetUint(^uint64(0) >> (64 - uint(tp.Bits())))
		case kInt:
			fv.SetInt(int64(1)<<(uint(tp.Bits())-1) - 1)
		case kString:
			fv.SetString("é\U0010ffff")
		case kBytes:
			fv.Set(reflect.ValueOf(bytes.Repeat([]byte{0xff}, 128)).Convert(tp))
		case kBytesArr:
			s := reflect.MakeSlice(tp, 2, 2)
			s.Index(0).Set(reflect.ValueOf([]byte{}).Convert(tp.Elem()))
			s.Index(1).Set(reflect.ValueOf(bytes.Repeat([]byte{0x80}, 128)).Convert(tp.Elem()))
			fv.Set(s)
		case kStrArr:
			s := reflect.MakeSlice(tp, 2, 2)
			s.Index(1).SetString("Å")
			fv.Set(s)
		case kBoolArr:
			s := reflect.MakeSlice(tp, 2, 2)
			s.Index(1).SetBool(true)
			fv.Set(s)
		case kNumArr:
			s := reflect.MakeSlice(tp, 2, 2)
			if k := tp.Elem().Kind(); k == reflect.Uint32 || k == reflect.Uint64 {
				s.Index(1).SetUint(^uint64(0) >> (64 - uint(tp.Elem().Bits())))
			} else {
				s.Index(1).SetInt(int64(1)<<(uint(tp.Elem().Bits())-1) - 1)
			}
			fv.Set(s)
		case kMsgArr:
			if depth < maxDepth {
				s := reflect.MakeSlice(tp, 2, 2)
				s.Index(0).Set(fixedValue(tp.Elem().Elem(), "zero", depth+1))
				s.Index(1).Set(fixedValue(tp.Elem().Elem(), mode, depth+1))
				fv.Set(s)
			}
		}
	}
	return pv
}
