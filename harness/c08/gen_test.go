package c08

// Reflection-driven value generator and comparator for generated-codec struct types.
//
// Only struct fields that carry a `fieldNumber` tag are wire data (the code generator in pkg/codec/gen ignores every other
// field), so only those are generated and compared. Unexported tagged fields are reached through reflect.NewAt/unsafe.
// Domain guards (DESIGN §1.7): strings are valid UTF-8, slices have no nil elements, nested-message pointers are never nil.

import (
	"bytes"
	"fmt"
	"math"
	"reflect"
	"strings"
	"unicode/utf8"
	"unsafe"

	"golang.org/x/text/unicode/norm"
	"pgregory.net/rapid"
)

// field kinds used for classification and for the non-trivial rule
const (
	kBool     = "bool"
	kUint     = "uint"
	kInt      = "int"
	kString   = "string"
	kBytes    = "bytes"
	kBytesArr = "bytes[]"
	kStrArr   = "string[]"
	kNumArr   = "num[]"
	kBoolArr  = "bool[]"
	kMsg      = "msg"
	kMsgArr   = "msg[]"
)

type genInfo struct {
	present map[string]bool // kinds among the tagged fields of the top-level struct
	nondef  map[string]bool // kinds with at least one non-default top-level field
	nonNFC  bool            // some generated string was not in NFC
	bigBlob bool            // some byte slice >= 128 bytes (2-byte length varint)
	nested  int             // nested messages generated (all depths)
}

func newGenInfo() *genInfo { return &genInfo{present: map[string]bool{}, nondef: map[string]bool{}} }

// nontrivial: at least one non-default field of each kind present in the type (DESIGN §4 C08).
func (g *genInfo) nontrivial() bool {
	if len(g.present) == 0 {
		return false
	}
	for k := range g.present {
		if !g.nondef[k] {
			return false
		}
	}
	return true
}

func hasTag(f reflect.StructField) bool {
	_, ok := f.Tag.Lookup("fieldNumber")
	return ok
}

// settable returns an addressable, settable view of field i of the (addressable) struct value sv.
func settable(sv reflect.Value, i int) reflect.Value {
	f := sv.Field(i)
	if f.CanSet() {
		return f
	}
	return reflect.NewAt(f.Type(), unsafe.Pointer(f.UnsafeAddr())).Elem()
}

var u64Boundaries = func() []uint64 {
	out := []uint64{0, 1, 2, math.MaxUint32 - 1, math.MaxUint32, math.MaxUint32 + 1, math.MaxInt64 - 1, math.MaxInt64, math.MaxInt64 + 1, math.MaxUint64 - 1, math.MaxUint64}
	for k := 1; k <= 9; k++ {
		p := uint64(1) << (7 * k)
		out = append(out, p-1, p, p+1)
	}
	return out
}()

var u32Boundaries = func() []uint32 {
	out := []uint32{0, 1, 2, math.MaxInt32 - 1, math.MaxInt32, math.MaxInt32 + 1, math.MaxUint32 - 1, math.MaxUint32}
	for k := 1; k <= 4; k++ {
		p := uint32(1) << (7 * k)
		out = append(out, p-1, p, p+1)
	}
	return out
}()

// zig-zag boundaries: |v| around 2^(7k-1)
var i64Boundaries = func() []int64 {
	out := []int64{0, 1, -1, 2, -2, math.MaxInt32, math.MinInt32, math.MaxInt32 + 1, math.MinInt32 - 1, math.MaxInt64, math.MaxInt64 - 1, math.MinInt64 + 1, math.MinInt64}
	for k := 1; k <= 9; k++ {
		p := int64(1) << (7*k - 1)
		out = append(out, p-1, p, p+1, -p+1, -p, -p-1)
	}
	return out
}()

var i32Boundaries = func() []int32 {
	out := []int32{0, 1, -1, 2, -2, math.MaxInt32, math.MaxInt32 - 1, math.MinInt32 + 1, math.MinInt32}
	for k := 1; k <= 4; k++ {
		p := int32(1) << (7*k - 1)
		out = append(out, p-1, p, p+1, -p+1, -p, -p-1)
	}
	return out
}()

func genU64(t *rapid.T, label string) uint64 {
	switch rapid.IntRange(0, 9).Draw(t, label+"_mode") {
	case 0:
		return 0
	case 1, 2, 3, 4:
		return rapid.SampledFrom(u64Boundaries).Draw(t, label)
	case 5:
		return uint64(rapid.IntRange(0, 300).Draw(t, label))
	default:
		return rapid.Uint64().Draw(t, label)
	}
}

func genU32(t *rapid.T, label string) uint32 {
	switch rapid.IntRange(0, 9).Draw(t, label+"_mode") {
	case 0:
		return 0
	case 1, 2, 3, 4:
		return rapid.SampledFrom(u32Boundaries).Draw(t, label)
	case 5:
		return uint32(rapid.IntRange(0, 300).Draw(t, label))
	default:
		return rapid.Uint32().Draw(t, label)
	}
}

// avoidMinInt64 is switched on when the known finding C08-F1 (readInt(MinInt64)=0) is listed: generators then do not
// produce math.MinInt64 (counted as excluded) so that the search continues behind the defect.
var avoidMinInt64 bool

func genI64(t *rapid.T, label string) int64 {
	var v int64
	switch rapid.IntRange(0, 9).Draw(t, label+"_mode") {
	case 0:
		v = 0
	case 1, 2, 3, 4:
		v = rapid.SampledFrom(i64Boundaries).Draw(t, label)
	case 5:
		v = int64(rapid.IntRange(-300, 300).Draw(t, label))
	default:
		v = rapid.Int64().Draw(t, label)
	}
	if v == math.MinInt64 && avoidMinInt64 {
		excludeMinInt64()
		v = math.MinInt64 + 1
	}
	return v
}

func genI32(t *rapid.T, label string) int32 {
	switch rapid.IntRange(0, 9).Draw(t, label+"_mode") {
	case 0:
		return 0
	case 1, 2, 3, 4:
		return rapid.SampledFrom(i32Boundaries).Draw(t, label)
	case 5:
		return int32(rapid.IntRange(-300, 300).Draw(t, label))
	default:
		return rapid.Int32().Draw(t, label)
	}
}

// string pieces: ASCII, multi-byte, and sequences that are valid UTF-8 but NOT in NFC (decomposed accents, Hangul jamo,
// singletons like the Angstrom/Ohm/Kelvin signs, wrongly ordered combining marks).
var strPieces = []string{
	"", "a", "Z", "0", "token", "commandExecutionResult", " ", "\x00", "\x7f", "\n",
	"\u00e9", "\u00df", "\u65e5\u672c", "\ud55c", "\U0001f600", "\u00c5", "\ufffd", "\U0010ffff", "\u0800", "\u07ff", "\u0080",
	// valid UTF-8 that is NOT in NFC
	"e\u0301", "A\u030a", "\u212b", "\u2126", "\u212a", "\u1100\u1161", "\u1100\u1161\u11a8", "a\u0307\u0323", "\u0344",
	"\u0958", "\u0f73", "o\u0302\u0301", "\u017f\u0323\u0307", "e\u0301\u0301", "q\u0307\u0323", "\ufb1f", "\U0001d15e",
}

func genString(t *rapid.T, label string, gi *genInfo) string {
	var s string
	switch rapid.IntRange(0, 9).Draw(t, label+"_mode") {
	case 0:
		s = ""
	case 1:
		s = rapid.String().Draw(t, label) // arbitrary runes, always valid UTF-8
	case 2:
		// long string crossing the 127/128 length boundary
		n := rapid.SampledFrom([]int{126, 127, 128, 129, 300}).Draw(t, label+"_len")
		p := rapid.SampledFrom(strPieces[1:]).Draw(t, label+"_piece")
		if p == "" {
			p = "x"
		}
		var b strings.Builder
		for b.Len() < n {
			b.WriteString(p)
		}
		s = b.String()
	default:
		ps := rapid.SliceOfN(rapid.SampledFrom(strPieces), 1, 5).Draw(t, label)
		s = strings.Join(ps, "")
	}
	if !utf8.ValidString(s) {
		panic("harness: generated invalid UTF-8")
	}
	if gi != nil && !norm.NFC.IsNormalString(s) {
		gi.nonNFC = true
	}
	return s
}

var blobLens = []int{0, 1, 2, 4, 20, 32, 48, 64, 96, 126, 127, 128, 129, 255, 256, 1000}

func genBytes(t *rapid.T, label string, gi *genInfo, allowHuge bool) []byte {
	mode := rapid.IntRange(0, 11).Draw(t, label+"_mode")
	var n int
	switch {
	case mode == 0:
		if rapid.Bool().Draw(t, label+"_nil") {
			return nil
		}
		return []byte{}
	case mode <= 6:
		n = rapid.SampledFrom(blobLens).Draw(t, label+"_len")
	case mode == 7 && allowHuge:
		n = rapid.SampledFrom([]int{16383, 16384, 16385}).Draw(t, label+"_len") // 2/3-byte length varint boundary
	default:
		n = rapid.IntRange(0, 70).Draw(t, label+"_len")
	}
	b := make([]byte, n)
	switch rapid.IntRange(0, 4).Draw(t, label+"_fill") {
	case 0: // zeros
	case 1:
		for i := range b {
			b[i] = 0xff
		}
	case 2:
		for i := range b {
			b[i] = 0x80 // looks like an unterminated varint
		}
	default:
		if n <= 70 {
			copy(b, rapid.SliceOfN(rapid.Byte(), n, n).Draw(t, label))
		} else {
			seed := rapid.Uint64().Draw(t, label+"_seed")
			x := seed | 1
			for i := range b {
				x ^= x << 13
				x ^= x >> 7
				x ^= x << 17
				b[i] = byte(x)
			}
		}
	}
	if gi != nil && n >= 128 {
		gi.bigBlob = true
	}
	return b
}

func sliceLen(t *rapid.T, label string) int {
	return rapid.SampledFrom([]int{0, 0, 1, 1, 2, 3, 4}).Draw(t, label+"_n")
}

func isBytes(tp reflect.Type) bool {
	return tp.Kind() == reflect.Slice && tp.Elem().Kind() == reflect.Uint8
}
func isMsgPtr(tp reflect.Type) bool {
	return tp.Kind() == reflect.Ptr && tp.Elem().Kind() == reflect.Struct
}

// kindOf classifies a tagged field type; "" = unsupported by the code generator (harness reports it).
func kindOf(tp reflect.Type) string {
	switch tp.Kind() {
	case reflect.Bool:
		return kBool
	case reflect.Uint32, reflect.Uint64:
		return kUint
	case reflect.Int32, reflect.Int64:
		return kInt
	case reflect.String:
		return kString
	case reflect.Ptr:
		if isMsgPtr(tp) {
			return kMsg
		}
	case reflect.Slice:
		if isBytes(tp) {
			return kBytes
		}
		e := tp.Elem()
		switch e.Kind() {
		case reflect.Bool:
			return kBoolArr
		case reflect.Uint32, reflect.Uint64, reflect.Int32, reflect.Int64:
			return kNumArr
		case reflect.String:
			return kStrArr
		case reflect.Slice:
			if isBytes(e) {
				return kBytesArr
			}
		case reflect.Ptr:
			if isMsgPtr(e) {
				return kMsgArr
			}
		}
	}
	return ""
}

const maxDepth = 4

// genStruct returns a pointer (reflect.Value of kind Ptr) to a freshly generated struct of type st.
func genStruct(t *rapid.T, st reflect.Type, path string, depth int, gi *genInfo) reflect.Value {
	pv := reflect.New(st)
	sv := pv.Elem()
	// "sparse" values: most scalar/array fields left at their default, so that absent/empty identifications are exercised
	sparse := rapid.IntRange(0, 5).Draw(t, path+"_sparse") == 0
	for i := 0; i < st.NumField(); i++ {
		sf := st.Field(i)
		if !hasTag(sf) {
			continue
		}
		kind := kindOf(sf.Type)
		if kind == "" {
			panic(fmt.Sprintf("harness: unsupported tagged field type %s.%s %s", st, sf.Name, sf.Type))
		}
		if depth == 0 {
			gi.present[kind] = true
		}
		fv := settable(sv, i)
		label := path + "." + sf.Name
		if sparse && kind != kMsg && rapid.IntRange(0, 3).Draw(t, label+"_skip") != 0 {
			continue // zero value (nil slice, "", 0, false)
		}
		genField(t, fv, kind, label, depth, gi)
		if depth == 0 && !isDefault(fv) {
			gi.nondef[kind] = true
		}
	}
	return pv
}

func genField(t *rapid.T, fv reflect.Value, kind, label string, depth int, gi *genInfo) {
	tp := fv.Type()
	switch kind {
	case kBool:
		fv.SetBool(rapid.Bool().Draw(t, label))
	case kUint:
		if tp.Kind() == reflect.Uint32 {
			fv.SetUint(uint64(genU32(t, label)))
		} else {
			fv.SetUint(genU64(t, label))
		}
	case kInt:
		if tp.Kind() == reflect.Int32 {
			fv.SetInt(int64(genI32(t, label)))
		} else {
			fv.SetInt(genI64(t, label))
		}
	case kString:
		fv.SetString(genString(t, label, gi))
	case kBytes:
		b := genBytes(t, label, gi, depth == 0)
		if b == nil {
			fv.Set(reflect.Zero(tp))
		} else {
			fv.Set(reflect.ValueOf(b).Convert(tp))
		}
	case kBytesArr:
		n := sliceLen(t, label)
		if n == 0 && rapid.Bool().Draw(t, label+"_nil") {
			fv.Set(reflect.Zero(tp))
			return
		}
		s := reflect.MakeSlice(tp, n, n)
		for j := 0; j < n; j++ {
			b := genBytes(t, fmt.Sprintf("%s[%d]", label, j), gi, false)
			if b == nil {
				b = []byte{} // an element exists on the wire even when empty; nil and empty elements are the same value
			}
			s.Index(j).Set(reflect.ValueOf(b).Convert(tp.Elem()))
		}
		fv.Set(s)
	case kStrArr:
		n := sliceLen(t, label)
		if n == 0 && rapid.Bool().Draw(t, label+"_nil") {
			fv.Set(reflect.Zero(tp))
			return
		}
		s := reflect.MakeSlice(tp, n, n)
		for j := 0; j < n; j++ {
			s.Index(j).SetString(genString(t, fmt.Sprintf("%s[%d]", label, j), gi))
		}
		fv.Set(s)
	case kBoolArr:
		n := sliceLen(t, label)
		if n == 0 && rapid.Bool().Draw(t, label+"_nil") {
			fv.Set(reflect.Zero(tp))
			return
		}
		s := reflect.MakeSlice(tp, n, n)
		for j := 0; j < n; j++ {
			s.Index(j).SetBool(rapid.Bool().Draw(t, fmt.Sprintf("%s[%d]", label, j)))
		}
		fv.Set(s)
	case kNumArr:
		n := sliceLen(t, label)
		if n == 0 && rapid.Bool().Draw(t, label+"_nil") {
			fv.Set(reflect.Zero(tp))
			return
		}
		s := reflect.MakeSlice(tp, n, n)
		for j := 0; j < n; j++ {
			l := fmt.Sprintf("%s[%d]", label, j)
			switch tp.Elem().Kind() {
			case reflect.Uint32:
				s.Index(j).SetUint(uint64(genU32(t, l)))
			case reflect.Uint64:
				s.Index(j).SetUint(genU64(t, l))
			case reflect.Int32:
				s.Index(j).SetInt(int64(genI32(t, l)))
			case reflect.Int64:
				s.Index(j).SetInt(genI64(t, l))
			}
		}
		fv.Set(s)
	case kMsg:
		// never nil (domain guard)
		if depth >= maxDepth {
			fv.Set(reflect.New(tp.Elem()))
			return
		}
		gi.nested++
		fv.Set(genStruct(t, tp.Elem(), label, depth+1, gi))
	case kMsgArr:
		n := sliceLen(t, label)
		if depth >= maxDepth {
			n = 0
		}
		if n == 0 && rapid.Bool().Draw(t, label+"_nil") {
			fv.Set(reflect.Zero(tp))
			return
		}
		s := reflect.MakeSlice(tp, n, n)
		for j := 0; j < n; j++ {
			gi.nested++
			s.Index(j).Set(genStruct(t, tp.Elem().Elem(), fmt.Sprintf("%s[%d]", label, j), depth+1, gi))
		}
		fv.Set(s)
	}
}

// isDefault: the field holds the value a decoder produces for an absent/empty field.
func isDefault(v reflect.Value) bool {
	switch v.Kind() {
	case reflect.Bool:
		return !v.Bool()
	case reflect.Uint32, reflect.Uint64:
		return v.Uint() == 0
	case reflect.Int32, reflect.Int64:
		return v.Int() == 0
	case reflect.String:
		return v.Len() == 0
	case reflect.Slice:
		return v.Len() == 0
	case reflect.Ptr:
		if v.IsNil() {
			return true
		}
		return isDefaultStruct(v.Elem())
	}
	return false
}

func isDefaultStruct(sv reflect.Value) bool {
	st := sv.Type()
	for i := 0; i < st.NumField(); i++ {
		if !hasTag(st.Field(i)) {
			continue
		}
		if !isDefault(sv.Field(i)) {
			return false
		}
	}
	return true
}

// equivalent compares two struct values (not pointers) of the same type under the identifications of the statement:
// tagged fields only; strings in NFC form; nil slice == empty slice; absent (nil) nested message == all-default message.
// Returns "" when equivalent, else the path of the first difference.
func equivalent(a, b reflect.Value, path string) string {
	st := a.Type()
	for i := 0; i < st.NumField(); i++ {
		sf := st.Field(i)
		if !hasTag(sf) {
			continue
		}
		if d := equivField(a.Field(i), b.Field(i), path+"."+sf.Name); d != "" {
			return d
		}
	}
	return ""
}

func equivField(x, y reflect.Value, path string) string {
	switch x.Kind() {
	case reflect.Bool:
		if x.Bool() != y.Bool() {
			return fmt.Sprintf("%s: %v != %v", path, x.Bool(), y.Bool())
		}
	case reflect.Uint32, reflect.Uint64:
		if x.Uint() != y.Uint() {
			return fmt.Sprintf("%s: %d != %d", path, x.Uint(), y.Uint())
		}
	case reflect.Int32, reflect.Int64:
		if x.Int() != y.Int() {
			return fmt.Sprintf("%s: %d != %d", path, x.Int(), y.Int())
		}
	case reflect.String:
		if norm.NFC.String(x.String()) != norm.NFC.String(y.String()) {
			return fmt.Sprintf("%s: %q != %q (compared in NFC)", path, x.String(), y.String())
		}
	case reflect.Slice:
		if isBytes(x.Type()) {
			if !bytes.Equal(x.Bytes(), y.Bytes()) {
				return fmt.Sprintf("%s: %x != %x", path, clip(x.Bytes()), clip(y.Bytes()))
			}
			return ""
		}
		if x.Len() != y.Len() {
			return fmt.Sprintf("%s: len %d != len %d", path, x.Len(), y.Len())
		}
		for j := 0; j < x.Len(); j++ {
			if d := equivField(x.Index(j), y.Index(j), fmt.Sprintf("%s[%d]", path, j)); d != "" {
				return d
			}
		}
	case reflect.Ptr:
		switch {
		case x.IsNil() && y.IsNil():
		case x.IsNil():
			if !isDefaultStruct(y.Elem()) {
				return path + ": absent != non-default message"
			}
		case y.IsNil():
			if !isDefaultStruct(x.Elem()) {
				return path + ": non-default message != absent"
			}
		default:
			return equivalent(x.Elem(), y.Elem(), path)
		}
	default:
		return path + ": unsupported kind " + x.Kind().String()
	}
	return ""
}

func clip(b []byte) []byte {
	if len(b) > 48 {
		return b[:48]
	}
	return b
}

// render gives a compact JSON-able rendering of the tagged fields (for evidence samples and failure messages).
func render(sv reflect.Value) any {
	st := sv.Type()
	out := map[string]any{}
	for i := 0; i < st.NumField(); i++ {
		sf := st.Field(i)
		if !hasTag(sf) {
			continue
		}
		out[sf.Name] = renderField(sv.Field(i))
	}
	return out
}

func renderField(v reflect.Value) any {
	switch v.Kind() {
	case reflect.Bool:
		return v.Bool()
	case reflect.Uint32, reflect.Uint64:
		return fmt.Sprintf("%d", v.Uint())
	case reflect.Int32, reflect.Int64:
		return fmt.Sprintf("%d", v.Int())
	case reflect.String:
		return fmt.Sprintf("%+q", v.String())
	case reflect.Slice:
		if isBytes(v.Type()) {
			b := v.Bytes()
			if b == nil {
				return nil
			}
			if len(b) > 40 {
				return fmt.Sprintf("%x…(%d bytes)", b[:40], len(b))
			}
			return fmt.Sprintf("%x", b)
		}
		if v.IsNil() {
			return nil
		}
		out := make([]any, v.Len())
		for j := range out {
			out[j] = renderField(v.Index(j))
		}
		return out
	case reflect.Ptr:
		if v.IsNil() {
			return nil
		}
		return render(v.Elem())
	}
	return "?"
}
